(* Lemmas about Model/Quote.v: the quote/unquote round trip for ALL byte strings. *)
Require Import Verif.Model.Base Verif.Model.Utf8 Verif.Model.Quote Verif.Proofs.Utf8P.
Ltac Zify.zify_post_hook ::= Z.div_mod_to_equations.

Lemma unhex_hexd n : 0 <= n < 16 -> unhex (hexd n) = Some n.
Proof.
  intros H. unfold unhex, hexd. destruct (n <? 10) eqn:E.
  - rewrite bz_zb by lia. replace ((48 <=? 48 + n) && (48 + n <=? 57)) with true by lia. f_equal; lia.
  - rewrite bz_zb by lia. replace ((48 <=? 87 + n) && (87 + n <=? 57)) with false by lia.
    replace ((97 <=? 87 + n) && (87 + n <=? 102)) with true by lia. f_equal; lia.
Qed.

Lemma unhexn_hexn k : forall r acc rest, 0 <= r ->
  unhexn k acc (hexn k r ++ rest) = Some (acc * 16 ^ Z.of_nat k + r mod 16 ^ Z.of_nat k, rest).
Proof.
  induction k as [|k IH]; intros r acc rest Hr.
  - cbn [hexn unhexn app]. f_equal. f_equal. change (16 ^ Z.of_nat 0) with 1. rewrite Z.mod_1_r. lia.
  - cbn [hexn unhexn app]. rewrite unhex_hexd.
    2:{ apply Z.mod_pos_bound; lia. }
    rewrite IH by assumption. f_equal. f_equal.
    rewrite Nat2Z.inj_succ, Z.pow_succ_r by lia.
    set (p := 16 ^ Z.of_nat k). assert (0 < p) by (apply Z.pow_pos_nonneg; lia).
    (* r mod (16*p) = ((r/p) mod 16) * p + r mod p *)
    rewrite (Z.mul_comm 16 p). rewrite Z.rem_mul_r by lia. lia.
Qed.

Lemma encode_rune_ascii r : 0 <= r < 128 -> encode_rune r = [zb r].
Proof. intros H. unfold encode_rune. replace ((0 <=? r) && (r <? 128)) with true by lia. reflexivity. Qed.

Lemma valid_rune_range r : valid_rune r = true -> 0 <= r <= 1114111.
Proof. unfold valid_rune. lia. Qed.

Section Quote.
Variable isprint : Z -> bool.
Hypothesis isprint_ascii : forall r, 0 <= r < 128 -> isprint r = (32 <=? r) && (r <? 127).
Notation escape_rune := (escape_rune isprint).
Notation qbody := (qbody isprint).
Notation quote_go := (quote_go isprint).

Lemma qbody_skip k : forall s, qbody k s = qbody 0 (skipn k s).
Proof. induction k as [|k IH]; intros [|b t]; cbn [qbody skipn]; auto. Qed.
Lemma unq_skip k : forall s, (k <= length s)%nat -> unq k s = unq 0 (skipn k s).
Proof.
  induction k as [|k IH]; intros [|b t] H; cbn [unq skipn]; auto; cbn [length] in H; try lia.
  apply IH. lia.
Qed.

Definition step_ok (chunk orig : bytes) : Prop :=
  forall rest, unq 0 (chunk ++ rest) = option_map (app orig) (unq 0 rest).

Lemma option_map_cons_app {A} (x : A) (o : option (list A)) :
  option_map (cons x) o = option_map (app [x]) o.
Proof. destruct o; reflexivity. Qed.

(* named escapes *)
Lemma step_named (e : byte) (v : Z) :
  (bz e =? 97) = (v =? 7) -> (bz e =? 98) = (v =? 8) -> (bz e =? 102) = (v =? 12) ->
  (bz e =? 110) = (v =? 10) -> (bz e =? 114) = (v =? 13) -> (bz e =? 116) = (v =? 9) ->
  (bz e =? 118) = (v =? 11) -> (bz e =? 92) = (v =? 92) -> (bz e =? 34) = (v =? 34) ->
  (v = 7 \/ v = 8 \/ v = 12 \/ v = 10 \/ v = 13 \/ v = 9 \/ v = 11 \/ v = 92 \/ v = 34) ->
  step_ok [bs; e] [zb v].
Proof.
  intros H1 H2 H3 H4 H5 H6 H7 H8 H9 Hv rest.
  rewrite <- option_map_cons_app.
  cbn [app]. cbn [unq]. change (bz bs) with 92. cbn [Z.eqb Pos.eqb].
  rewrite H1, H2, H3, H4, H5, H6, H7, H8, H9.
  destruct Hv as [->|[->|[->|[->|[->|[->|[->|[->| ->]]]]]]]]; reflexivity.
Qed.

Lemma hexn2 r : hexn 2 r = [hexd ((r / 16) mod 16); hexd (r mod 16)].
Proof. cbn [hexn]. change (16 ^ Z.of_nat 1) with 16. change (16 ^ Z.of_nat 0) with 1. rewrite Z.div_1_r. reflexivity. Qed.

Lemma step_x (v : Z) : 0 <= v < 256 -> step_ok (bs :: x78 :: hexn 2 v) [zb v].
Proof.
  intros Hv rest. pose proof (unhexn_hexn 2 v 0 rest ltac:(lia)) as U.
  change (16 ^ Z.of_nat 2) with 256 in U. rewrite Z.mod_small in U by lia.
  rewrite <- option_map_cons_app.
  rewrite hexn2 in *. cbn [app] in *. cbn [unq]. change (bz bs) with 92. change (bz x78) with 120.
  cbn [Z.eqb Pos.eqb]. rewrite U. replace (0 * 256 + v) with v by lia.
  reflexivity.
Qed.

Lemma hexn_length k r : length (hexn k r) = k.
Proof. induction k; cbn [hexn length]; auto. Qed.

Lemma skipn_hexn k v (rest : bytes) : skipn k (hexn k v ++ rest) = rest.
Proof. rewrite <- (hexn_length k v) at 1. rewrite skipn_app, skipn_all, Nat.sub_diag. reflexivity. Qed.

Lemma step_u (v : Z) : 0 <= v < 65536 -> valid_rune v = true -> step_ok (bs :: x75 :: hexn 4 v) (encode_rune v).
Proof.
  intros Hv Hval rest. pose proof (unhexn_hexn 4 v 0 rest ltac:(lia)) as U.
  change (16 ^ Z.of_nat 4) with 65536 in U. rewrite Z.mod_small in U by lia.
  replace (0 * 65536 + v) with v in U by lia.
  change ((bs :: x75 :: hexn 4 v) ++ rest) with (bs :: x75 :: (hexn 4 v ++ rest)). cbn [unq]. change (bz bs) with 92. change (bz x75) with 117. cbn [Z.eqb Pos.eqb].
  rewrite U, Hval.
  rewrite (unq_skip 4) by (rewrite app_length, hexn_length; lia).
  rewrite skipn_hexn. reflexivity.
Qed.

Lemma unq_bs (e : byte) (t' : bytes) (E : bz e = 85) :
  unq 0 (bs :: e :: t') =
  match unhexn 8 0 t' with
  | Some (v, _) => if valid_rune v then option_map (app (encode_rune v)) (unq 9 (e :: t')) else None
  | None => None end.
Proof. cbn [unq]. change (bz bs) with 92. cbn [Z.eqb Pos.eqb]. rewrite E. reflexivity. Qed.

Lemma step_U (v : Z) : 0 <= v <= 1114111 -> valid_rune v = true -> step_ok (bs :: x55 :: hexn 8 v) (encode_rune v).
Proof.
  intros Hv Hval rest. pose proof (unhexn_hexn 8 v 0 rest ltac:(lia)) as U.
  replace (16 ^ Z.of_nat 8) with 4294967296 in U by reflexivity. rewrite Z.mod_small in U by lia.
  replace (0 * 4294967296 + v) with v in U by lia.
  rewrite <- app_comm_cons. rewrite <- app_comm_cons.
  rewrite unq_bs by reflexivity. rewrite U, Hval.
  rewrite (unq_skip 9) by (cbn [length]; rewrite app_length, hexn_length; lia).
  change (skipn 9 (x55 :: hexn 8 v ++ rest)) with (skipn 8 (hexn 8 v ++ rest)).
  rewrite skipn_hexn. reflexivity.
Qed.

(* a printable ASCII byte other than quote and backslash is copied *)
Lemma step_ascii (r : Z) : 32 <= r < 127 -> r <> 34 -> r <> 92 -> step_ok [zb r] [zb r].
Proof.
  intros Hr H1 H2 rest. rewrite <- option_map_cons_app. cbn [app]. cbn [unq]. rewrite bz_zb by lia.
  replace (r =? 34) with false by lia. replace (r =? 10) with false by lia.
  replace (r =? 92) with false by lia. replace (r <? 128) with true by lia.
  reflexivity.
Qed.

Lemma unq_raw c t : 128 <= bz c ->
  unq 0 (c :: t) = let '(r, w) := decode_rune (c :: t) in option_map (app (encode_rune r)) (unq (w - 1) t).
Proof.
  intros H. cbn [unq]. replace (bz c =? 34) with false by lia. replace (bz c =? 10) with false by lia.
  replace (bz c =? 92) with false by lia. replace (bz c <? 128) with false by lia. reflexivity.
Qed.

Lemma encode_rune_head r : 128 <= r -> valid_rune r = true ->
  exists c t, encode_rune r = c :: t /\ 128 <= bz c.
Proof.
  intros H V. pose proof (valid_rune_range r V). unfold encode_rune.
  replace ((0 <=? r) && (r <? 128)) with false by lia.
  destruct ((0 <=? r) && (r <? 2048)) eqn:E.
  { eexists _, _; split; [reflexivity|]. rewrite bz_zb by lia. lia. }
  rewrite V. cbn [negb]. destruct (r <? 65536) eqn:E2.
  { eexists _, _; split; [reflexivity|]. rewrite bz_zb by lia. lia. }
  { eexists _, _; split; [reflexivity|]. rewrite bz_zb by lia. lia. }
Qed.

Lemma step_multibyte r : 128 <= r -> valid_rune r = true -> step_ok (encode_rune r) (encode_rune r).
Proof.
  intros H V rest. destruct (encode_rune_head r H V) as (c & t & E & Hc).
  pose proof (decode_encode r rest V) as D. rewrite E in *. rewrite <- app_comm_cons in *.
  rewrite unq_raw by assumption. rewrite D. cbn [length]. rewrite Nat.sub_succ, Nat.sub_0_r.
  rewrite unq_skip by (rewrite app_length; lia).
  rewrite skipn_app, skipn_all, Nat.sub_diag. cbn [skipn app]. rewrite E. reflexivity.
Qed.

Lemma escape_rune_ok r : valid_rune r = true -> step_ok (escape_rune r) (encode_rune r).
Proof.
  intros V. pose proof (valid_rune_range r V) as R. unfold escape_rune.
  destruct ((r =? 34) || (r =? 92)) eqn:E0.
  { rewrite encode_rune_ascii by lia.
    assert (r = 34 \/ r = 92) as [-> | ->] by lia; apply step_named; try reflexivity; lia. }
  destruct (isprint r) eqn:P.
  { destruct (r <? 128) eqn:A.
    - rewrite isprint_ascii in P by lia. rewrite encode_rune_ascii by lia. apply step_ascii; lia.
    - apply step_multibyte; [lia|assumption]. }
  destruct (r =? 7) eqn:?; [assert (r = 7) as -> by lia; apply step_named; try reflexivity; lia|].
  destruct (r =? 8) eqn:?; [assert (r = 8) as -> by lia; apply step_named; try reflexivity; lia|].
  destruct (r =? 12) eqn:?; [assert (r = 12) as -> by lia; apply step_named; try reflexivity; lia|].
  destruct (r =? 10) eqn:?; [assert (r = 10) as -> by lia; apply step_named; try reflexivity; lia|].
  destruct (r =? 13) eqn:?; [assert (r = 13) as -> by lia; apply step_named; try reflexivity; lia|].
  destruct (r =? 9) eqn:?; [assert (r = 9) as -> by lia; apply step_named; try reflexivity; lia|].
  destruct (r =? 11) eqn:?; [assert (r = 11) as -> by lia; apply step_named; try reflexivity; lia|].
  destruct ((r <? 32) || (r =? 127)) eqn:C.
  { rewrite encode_rune_ascii by lia. apply step_x. lia. }
  rewrite V. cbn [negb].
  destruct (r <? 65536) eqn:U.
  - apply step_u; [lia|assumption].
  - apply step_U; [lia|assumption].
Qed.

Lemma qbody_cons b0 t :
  qbody 0 (b0 :: t) =
  let '(r, w) := decode_rune (b0 :: t) in
  (if (Nat.eqb w 1) && (r =? RuneError) then bs :: x78 :: hexn 2 (bz b0) else escape_rune r) ++ qbody (w - 1) t.
Proof. reflexivity. Qed.

Lemma roundtrip_body : forall n s, (length s <= n)%nat -> unq 0 (qbody 0 s ++ [dq]) = Some s.
Proof.
  induction n as [|n IH]; intros s Hn.
  { destruct s; [reflexivity|cbn [length] in Hn; lia]. }
  destruct s as [|b0 t]; [reflexivity|].
  rewrite qbody_cons. destruct (decode_rune (b0 :: t)) as [r w] eqn:D.
  pose proof (decode_width _ _ _ D ltac:(discriminate)) as W. cbn [length] in W, Hn.
  rewrite qbody_skip. rewrite <- app_assoc.
  assert (IHt : unq 0 (qbody 0 (skipn (w - 1) t) ++ [dq]) = Some (skipn (w - 1) t)).
  { apply IH. rewrite skipn_length. lia. }
  assert (S : (b0 :: t) = firstn w (b0 :: t) ++ skipn (w - 1) t).
  { destruct w as [|w']; [lia|]. rewrite Nat.sub_succ, Nat.sub_0_r. cbn [firstn app]. rewrite firstn_skipn. reflexivity. }
  destruct ((Nat.eqb w 1) && (r =? RuneError)) eqn:ERR.
  - assert (w = 1%nat) as -> by (apply andb_prop in ERR as [E _]; apply Nat.eqb_eq in E; exact E).
    rewrite (step_x (bz b0) (bz_range b0)). rewrite IHt. cbn [option_map]. rewrite zb_bz.
    cbn [Nat.sub skipn firstn app] in *. reflexivity.
  - assert (NE : w <> 1%nat \/ r <> RuneError).
    { apply andb_false_iff in ERR as [E|E]; [left; apply Nat.eqb_neq; exact E|right; lia]. }
    destruct (encode_decode _ _ _ D NE ltac:(lia)) as [EQ V].
    rewrite (escape_rune_ok r V). rewrite IHt. cbn [option_map]. rewrite EQ. rewrite <- S. reflexivity.
Qed.

Theorem quote_roundtrip : forall s, unquote_go (quote_go s) = Some s.
Proof.
  intros s. unfold unquote_go, quote_go, dq. change (bz x22 =? 34) with true. cbv iota.
  apply (roundtrip_body (length s)). lia.
Qed.
End Quote.

