(* Lemmas about the two escapers: no control byte ever comes out (framing), and the
   JSON escaper reads back (C04, C05). *)
Require Import Verif.Model.Base Verif.Model.Utf8 Verif.Model.Quote Verif.Model.JsonEsc.
Require Import Verif.Proofs.Utf8P Verif.Proofs.QuoteP.
Ltac Zify.zify_post_hook ::= Z.div_mod_to_equations.

(* a byte that can neither break a line nor start a terminal escape *)
Definition clean (b : byte) : Prop := 32 <= bz b /\ bz b <> 127.
Definition clean_b (b : byte) : bool := (32 <=? bz b) && negb (bz b =? 127).
Lemma clean_b_iff b : clean_b b = true <-> clean b.
Proof. unfold clean_b, clean. lia. Qed.

Lemma clean_of_range b : 32 <= bz b < 127 -> clean b.
Proof. unfold clean. lia. Qed.
Ltac lit := apply clean_of_range; cbn; lia.
Ltac lits := repeat (constructor; [lit|]).

Lemma hexd_clean n : 0 <= n < 16 -> clean (hexd n).
Proof. intros H. unfold clean, hexd. destruct (n <? 10) eqn:E; rewrite bz_zb by lia; lia. Qed.

Lemma hexn_clean k : forall r, Forall clean (hexn k r).
Proof.
  induction k as [|k IH]; intros r; cbn [hexn]; constructor; [|apply IH].
  apply hexd_clean. apply Z.mod_pos_bound. lia.
Qed.

Lemma encode_rune_high r : 128 <= r -> Forall (fun b => 128 <= bz b) (encode_rune r).
Proof.
  intros H. unfold encode_rune. replace ((0 <=? r) && (r <? 128)) with false by lia.
  destruct ((0 <=? r) && (r <? 2048)) eqn:E1.
  { repeat constructor; rewrite bz_zb by lia; lia. }
  destruct (negb (valid_rune r)) eqn:E2.
  { repeat constructor; vm_compute; discriminate. }
  apply negb_false_iff in E2. unfold valid_rune in E2.
  destruct (r <? 65536) eqn:E3; repeat constructor; rewrite bz_zb by lia; lia.
Qed.

Lemma high_clean l : Forall (fun b => 128 <= bz b) l -> Forall clean l.
Proof. apply Forall_impl. intros b H. unfold clean. lia. Qed.

Section Q.
Variable isprint : Z -> bool.
Hypothesis isprint_ascii : forall r, 0 <= r < 128 -> isprint r = (32 <=? r) && (r <? 127).

Lemma escape_rune_clean r : 0 <= r -> Forall clean (escape_rune isprint r).
Proof.
  intros Hr. unfold escape_rune.
  destruct ((r =? 34) || (r =? 92)) eqn:E0.
  { constructor; [lit|]. constructor; [|constructor]. apply clean_of_range. rewrite bz_zb by lia. lia. }
  destruct (isprint r) eqn:P.
  { destruct (r <? 128) eqn:A.
    - rewrite isprint_ascii in P by lia. rewrite encode_rune_ascii by lia.
      constructor; [|constructor]. apply clean_of_range. rewrite bz_zb by lia. lia.
    - apply high_clean. apply encode_rune_high. lia. }
  do 7 (match goal with |- context [if ?c then _ else _] => destruct c end;
        [constructor; [lit|constructor; [lit|constructor]]|]).
  do 3 (match goal with |- context [if ?c then _ else _] => destruct c end;
        [constructor; [lit|constructor; [lit|apply hexn_clean]]|]).
  constructor; [lit|constructor; [lit|apply hexn_clean]].
Qed.

Lemma qbody_clean : forall n s, (length s <= n)%nat -> Forall clean (qbody isprint 0 s).
Proof.
  induction n as [|n IH]; intros s Hn.
  { destruct s; [constructor|cbn in Hn; lia]. }
  destruct s as [|b0 t]; [constructor|].
  rewrite (qbody_cons isprint). destruct (decode_rune (b0 :: t)) as [r w] eqn:D.
  pose proof (decode_width _ _ _ D ltac:(discriminate)) as W. cbn [length] in W, Hn.
  apply Forall_app. split.
  - destruct ((Nat.eqb w 1) && (r =? RuneError)).
    + constructor; [lit|constructor; [lit|apply hexn_clean]].
    + apply escape_rune_clean. eapply decode_nonneg. exact D.
  - rewrite (qbody_skip isprint). apply IH. rewrite skipn_length. lia.
Qed.

(* the quoted form of ANY byte string contains no control byte and no DEL *)
Lemma quote_clean s : Forall clean (quote_go isprint s).
Proof.
  unfold quote_go. constructor; [lit|].
  apply Forall_app. split; [apply (qbody_clean (length s)); lia|]. constructor; [lit|constructor].
Qed.
End Q.

(* ---- the JSON escaper ---- *)
Lemma jesc_skip_emit k : forall s, (k <= length s)%nat -> jesc k true s = firstn k s ++ jesc 0 true (skipn k s).
Proof.
  induction k as [|k IH]; intros s Hk; [reflexivity|].
  destruct s as [|b t]; [cbn in Hk; lia|]. cbn [jesc firstn skipn app]. f_equal. apply IH. cbn in Hk. lia.
Qed.
Lemma jesc_drop k : forall s, (k <= length s)%nat -> jesc k false s = jesc 0 false (skipn k s).
Proof.
  induction k as [|k IH]; intros s Hk; [reflexivity|].
  destruct s as [|b t]; [cbn in Hk; lia|]. cbn [jesc skipn app]. apply IH. cbn in Hk. lia.
Qed.

(* at skip 0 the emit flag is irrelevant *)
Lemma jesc0_flag s : jesc 0 false s = jesc 0 true s.
Proof. destruct s; reflexivity. Qed.

(* DEL (0x7f) is legal inside a JSON string and json.safeSet copies it: the guarantee of
   the JSON escaper is "no byte below 0x20" *)
Definition noctl (b : byte) : Prop := 32 <= bz b.
Lemma clean_noctl l : Forall clean l -> Forall noctl l.
Proof. apply Forall_impl. intros b [H _]. exact H. Qed.
Ltac nlit := unfold noctl; cbn; lia.
Ltac nlits := repeat (constructor; [nlit|]).

Lemma json_esc_ascii_noctl b : bz b < 128 -> Forall noctl (json_esc_ascii b).
Proof.
  intros Hb. pose proof (bz_range b) as R. unfold json_esc_ascii, json_safe.
  destruct ((32 <=? bz b) && (bz b <? 128) && negb (bz b =? 34) && negb (bz b =? 92)) eqn:E.
  { constructor; [unfold noctl; lia|constructor]. }
  destruct ((bz b =? 92) || (bz b =? 34)) eqn:E1.
  { constructor; [nlit|]. constructor; [unfold noctl; lia|constructor]. }
  repeat (match goal with |- context [if ?c then _ else _] => destruct c end; [nlits; constructor|]).
  nlits. apply clean_noctl. apply hexn_clean.
Qed.

Lemma firstn_decode_high s r w : decode_rune s = (r, w) -> (match s with b :: _ => 128 <= bz b | [] => False end) ->
  ~ (r = RuneError /\ w = 1%nat) -> Forall (fun b => 128 <= bz b) (firstn w s).
Proof.
  intros D Hb Hne.
  assert (NE : w <> 1%nat \/ r <> RuneError) by (destruct (Nat.eq_dec w 1); [right; intros ->; apply Hne; split; auto|left; assumption]).
  assert (W0 : w <> 0%nat). { destruct s; [destruct Hb|]. pose proof (decode_width _ _ _ D ltac:(discriminate)). lia. }
  destruct (encode_decode s r w D NE W0) as [E V]. rewrite <- E. apply encode_rune_high.
  destruct s as [|b0 t]; [destruct Hb|].
  (* a rune below 128 is encoded in one byte below 128, but the first byte is >= 128 *)
  destruct (Z_lt_ge_dec r 128) as [L|G]; [|lia]. exfalso.
  pose proof (valid_rune_range r V) as R.
  rewrite encode_rune_ascii in E by lia. destruct w as [|w']; cbn [firstn] in E; [discriminate|].
  injection E as E' _. pose proof (f_equal bz E') as E2. rewrite bz_zb in E2 by lia. lia.
Qed.

Lemma high_noctl l : Forall (fun b => 128 <= bz b) l -> Forall noctl l.
Proof. apply Forall_impl. intros b H. unfold noctl. lia. Qed.

Lemma jesc_noctl : forall n s, (length s <= n)%nat -> Forall noctl (jesc 0 true s).
Proof.
  induction n as [|n IH]; intros s Hn.
  { destruct s; [constructor|cbn in Hn; lia]. }
  destruct s as [|b t]; [constructor|]. cbn [jesc]. cbn [length] in Hn.
  destruct (bz b <? 128) eqn:A.
  { apply Forall_app. split; [apply json_esc_ascii_noctl; lia|apply IH; lia]. }
  destruct (decode_rune (b :: t)) as [r w] eqn:D.
  pose proof (decode_width _ _ _ D ltac:(discriminate)) as W. cbn [length] in W.
  destruct ((r =? RuneError) && Nat.eqb w 1) eqn:E1.
  { apply Forall_app. split; [nlits; constructor|apply IH; lia]. }
  assert (Hne : ~ (r = RuneError /\ w = 1%nat)).
  { intros [-> ->]. cbn in E1. discriminate. }
  destruct ((r =? 8232) || (r =? 8233)) eqn:E2.
  { apply Forall_app. split.
    - nlits. constructor; [|constructor]. destruct (hexd_clean (r mod 16)) as [H _]; [apply Z.mod_pos_bound; lia|exact H].
    - rewrite jesc_drop by lia. rewrite jesc0_flag. apply IH. rewrite skipn_length. lia. }
  pose proof (firstn_decode_high (b :: t) r w D ltac:(cbn; lia) Hne) as Hh.
  destruct w as [|w']; [lia|]. cbn [firstn] in Hh. inversion Hh as [|? ? Hb Ht]; subst.
  constructor; [unfold noctl; lia|].
  rewrite Nat.sub_succ, Nat.sub_0_r. rewrite jesc_skip_emit by lia.
  apply Forall_app. split; [apply high_noctl; exact Ht|]. apply IH. rewrite skipn_length. lia.
Qed.

(* the JSON-quoted form of ANY byte string contains no control byte *)
Lemma json_quote_noctl s : Forall noctl (json_quote s).
Proof.
  unfold json_quote, json_escape. constructor; [nlit|]. apply Forall_app. split; [apply (jesc_noctl (length s)); lia|].
  nlits. constructor.
Qed.
