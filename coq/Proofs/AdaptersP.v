(* Lemmas about Model/Adapters.v (C15). *)
Require Import Verif.Model.Base Verif.Model.Decision Verif.Model.Level Verif.Model.Mode Verif.Model.DecisionRef
  Verif.Model.Adapters.
Require Import Verif.Gen.Tables Verif.Gen.Decisions.
Require Import Verif.Proofs.LevelP.
From Coq Require Import Lia.

(* ------------------------------------------------------------------------
   1. the translations regenerated from the source equal the references.
   The tactic does not look at the shape of the generated term: it unfolds
   both sides, splits on every test that occurs and closes by computation or
   linear arithmetic. *)
Ltac split_tests :=
  repeat match goal with
         | |- context [lookupZ ?m ?k] => destruct (lookupZ m k) eqn:?
         | |- context [if ?a =? ?b then _ else _] => destruct (Z.eqb_spec a b)
         | |- context [if ?a <? ?b then _ else _] => destruct (Z.ltb_spec a b)
         | |- context [if ?a <=? ?b then _ else _] => destruct (Z.leb_spec a b)
         | |- context [?a =? ?b] => destruct (Z.eqb_spec a b)
         end.
Ltac gen_eq := intros; cbv beta delta [bridge_admit handler_enabled convert_logslog_level convert_level_to_logslog
    logsloglevel2level bridge_admit_model bridge_admit_ref bridge_admit_now handler_enabled_ref convert_logslog_level_ref
    convert_level_to_logslog_ref logsloglevel2level_ref log_level_conv log_listed fix_bridge fix_log_default
    lv_panic lv_fatal lv_error lv_warn lv_info lv_debug lv_trace lv_off lv_always]; cbv iota beta;
  try reflexivity;
  cbn [lookupZ]; split_tests; subst; try reflexivity; try lia; try discriminate.

Lemma gen_bridge_admit f s l : bridge_admit f s l = bridge_admit_model fix_bridge f s l.
Proof. first [reflexivity | gen_eq]. Qed.
Lemma gen_handler_enabled m f z : handler_enabled m f z = handler_enabled_ref m f z.
Proof. gen_eq. Qed.
Lemma gen_convert_logslog_level m z : convert_logslog_level m z = convert_logslog_level_ref m z.
Proof. gen_eq. Qed.
Lemma gen_convert_level_to_logslog m z : convert_level_to_logslog m z = convert_level_to_logslog_ref m z.
Proof. gen_eq. Qed.
Lemma gen_logsloglevel2level z : logsloglevel2level z = log_level_conv fix_log_default z.
Proof. gen_eq. Qed.

(* ------------------------------------------------------------------------
   2. levels *)
Ltac table_cases :=
  cbv beta delta [convert_logslog_level_ref handler_enabled_ref t_mLogSlogLevelToLevel log_level_conv log_listed
    logsloglevel2level_ref terminating slog_debug slog_info slog_warn slog_error
    c_LevelPanic c_LevelFatal c_LevelVerbose c_LevelTrace c_LevelNotice c_LevelHint
    lv_panic lv_fatal lv_error lv_warn lv_info lv_debug lv_trace lv_off lv_always]; cbv iota beta; cbn [lookupZ];
  split_tests; subst; cbn; repeat split; intros; try reflexivity; try lia; try discriminate.

(* the handler path, on the table of the source *)
Lemma handler_levels z :
  let c := convert_logslog_level_ref t_mLogSlogLevelToLevel z in
  (z = slog_debug -> c = lv_debug) /\ (z = slog_info -> c = lv_info) /\
  (z = slog_warn -> c = lv_warn) /\ (z = slog_error -> c = lv_error) /\
  terminating c = false.
Proof. intros c; subst c. table_cases. Qed.

(* Entry.Log, repaired variant *)
Lemma log_levels_fixed z :
  let c := log_level_conv true z in
  (z = slog_debug -> c = lv_debug) /\ (z = slog_info -> c = lv_info) /\
  (z = slog_warn -> c = lv_warn) /\ (z = slog_error -> c = lv_error) /\
  (c = lv_panic -> z = c_LevelPanic) /\ (c = lv_fatal -> z = c_LevelFatal).
Proof. intros c; subst c. table_cases. Qed.

(* Entry.Log as found: true for the standard levels and for every listed constant ... *)
Lemma log_levels_partial z :
  let c := log_level_conv false z in
  (z = slog_debug -> c = lv_debug) /\ (z = slog_info -> c = lv_info) /\
  (z = slog_warn -> c = lv_warn) /\ (z = slog_error -> c = lv_error) /\
  (c = lv_panic -> z = c_LevelPanic) /\
  (c = lv_fatal -> z = c_LevelFatal \/ lookupZ log_listed z = None).
Proof.
  intros c; subst c.
  cbv beta delta [log_level_conv logsloglevel2level_ref log_listed slog_debug slog_info slog_warn slog_error
    c_LevelPanic c_LevelFatal lv_panic lv_fatal lv_error lv_warn lv_info lv_debug lv_trace]; cbv iota beta; cbn [lookupZ].
  split_tests; subst; repeat split; intros; try reflexivity; try lia; try discriminate; auto.
Qed.

(* ... and false otherwise *)
Lemma log_levels_refuted :
  log_level_conv false 1 = lv_fatal /\ 1 <> c_LevelFatal /\ 1 <> c_LevelPanic /\ terminating (log_level_conv false 1) = true.
Proof. vm_compute. repeat split; discriminate. Qed.

(* both variants agree on the listed constants *)
Lemma log_levels_listed z l : lookupZ log_listed z = Some l -> log_level_conv true z = l /\ log_level_conv false z = l.
Proof.
  cbv beta delta [log_level_conv logsloglevel2level_ref log_listed]; cbv iota beta. intros H. rewrite H. auto.
Qed.

(* the repaired default follows the order of log/slog levels *)
Lemma log_levels_fixed_ranges z : lookupZ log_listed z = None ->
  log_level_conv true z =
    if z <? slog_debug then lv_trace else if z <? slog_info then lv_debug
    else if z <? slog_warn then lv_info else if z <? slog_error then lv_warn else lv_error.
Proof. cbv beta delta [log_level_conv]; cbv iota beta. intros H. rewrite H. reflexivity. Qed.

(* Enabled on the standard levels is the logger's gating of the namesake; any other level is let through *)
Lemma enabled_agrees f :
  handler_enabled_ref t_mLogSlogLevelToLevel f slog_debug = f lv_debug /\
  handler_enabled_ref t_mLogSlogLevelToLevel f slog_info = f lv_info /\
  handler_enabled_ref t_mLogSlogLevelToLevel f slog_warn = f lv_warn /\
  handler_enabled_ref t_mLogSlogLevelToLevel f slog_error = f lv_error /\
  (forall z, z <> slog_debug -> z <> slog_info -> z <> slog_warn -> z <> slog_error ->
     handler_enabled_ref t_mLogSlogLevelToLevel f z = true).
Proof.
  repeat split; try reflexivity.
  intros z. table_cases.
Qed.

Lemma enabled_consistent_with_handle f z :
  handler_enabled_ref t_mLogSlogLevelToLevel f z =
    (if (z =? slog_debug) || (z =? slog_info) || (z =? slog_warn) || (z =? slog_error)
     then f (convert_logslog_level_ref t_mLogSlogLevelToLevel z) else true).
Proof.
  cbv beta delta [convert_logslog_level_ref handler_enabled_ref t_mLogSlogLevelToLevel slog_debug slog_info slog_warn slog_error];
  cbv iota beta; cbn [lookupZ].
  split_tests; subst; cbn; try reflexivity; try lia.
Qed.

(* ------------------------------------------------------------------------
   3. attribute conversion: structural induction through nested groups *)
Section sval_induction.
  Variable P : sval -> Prop.
  Hypothesis Hbool : forall b, P (SBool b).
  Hypothesis Htime : forall t, P (STime t).
  Hypothesis Hdur : forall d, P (SDuration d).
  Hypothesis Hfloat : forall f, P (SFloat f).
  Hypothesis Hint : forall i, P (SInt i).
  Hypothesis Hstr : forall s, P (SString s).
  Hypothesis Huint : forall u, P (SUint u).
  Hypothesis Hany : forall a, P (SAny a).
  Hypothesis Hvaluer : forall v, P v -> P (SValuer v).
  Hypothesis Hgroup : forall items, Forall (fun kv => P (snd kv)) items -> P (SGroup items).

  Fixpoint sval_ind2 (v : sval) : P v :=
    match v with
    | SBool b => Hbool b | STime t => Htime t | SDuration d => Hdur d | SFloat f => Hfloat f
    | SInt i => Hint i | SString s => Hstr s | SUint u => Huint u | SAny a => Hany a
    | SValuer x => Hvaluer x (sval_ind2 x)
    | SGroup items =>
        Hgroup items
          ((fix go (l : list (bytes * sval)) : Forall (fun kv => P (snd kv)) l :=
              match l with
              | [] => Forall_nil _
              | kv :: t => Forall_cons kv (sval_ind2 (snd kv)) (go t)
              end) items)
    end.
End sval_induction.

Definition conv_item (kv : bytes * sval) : bytes * lval := let '(k, x) := kv in (k, conv_val x).

Lemma conv_val_group items : conv_val (SGroup items) = LGroup (map conv_item items).
Proof. reflexivity. Qed.

Lemma conv_same_items items :
  Forall (fun kv => same_val (snd kv) (conv_val (snd kv))) items -> same_items items (map conv_item items).
Proof.
  induction 1 as [|[k v] t Hv Ht IH]; cbn [map conv_item]; [constructor|].
  constructor; [exact Hv|exact IH].
Qed.

(* the converted value is an image of the source value ... *)
Lemma conv_same : forall v, same_val v (conv_val v).
Proof.
  apply sval_ind2; try (intros ?; constructor; fail).
  - intros v H. cbn [conv_val]. constructor. exact H.
  - intros items H. rewrite conv_val_group. constructor. apply conv_same_items. exact H.
Qed.

(* ... and the only one *)
Lemma same_items_unique items :
  Forall (fun kv => forall l, same_val (snd kv) l -> l = conv_val (snd kv)) items ->
  forall li, same_items items li -> li = map conv_item items.
Proof.
  induction 1 as [|[k v] t Hv Ht IH]; intros li Hs; inversion Hs; subst; [reflexivity|].
  cbn [map conv_item]. f_equal.
  - f_equal. apply Hv. assumption.
  - apply IH. assumption.
Qed.

Lemma same_unique : forall v l, same_val v l -> l = conv_val v.
Proof.
  apply (sval_ind2 (fun v => forall l, same_val v l -> l = conv_val v));
    try (intros x l H; inversion H; subst; reflexivity).
  - intros v IH l H. inversion H; subst. cbn [conv_val]. apply IH. assumption.
  - intros items IH l H. inversion H; subst. rewrite conv_val_group. f_equal.
    apply same_items_unique; assumption.
Qed.

Definition same_attr (a : sattr) (l : lattr) : Prop := fst a = fst l /\ same_val (snd a) (snd l).

Lemma conv_attrs_same l : Forall2 same_attr l (conv_attrs l).
Proof.
  induction l as [|[k v] t IH]; cbn; constructor; [|exact IH].
  split; [reflexivity|apply conv_same].
Qed.

Lemma conv_attrs_unique l l' : Forall2 same_attr l l' -> l' = conv_attrs l.
Proof.
  induction 1 as [|[k v] [k' v'] t t' [Hk Hv] Ht IH]; [reflexivity|].
  cbn in Hk, Hv. subst k'. cbn. unfold conv_attr at 1. cbn [fst snd]. rewrite (same_unique _ _ Hv), IH. reflexivity.
Qed.

(* keys with their paths and the leaf values are preserved *)
Lemma conv_leaves : forall v path, lleaves path (conv_val v) = sleaves path v.
Proof.
  apply (sval_ind2 (fun v => forall path, lleaves path (conv_val v) = sleaves path v)); try reflexivity.
  - intros v IH path. cbn [conv_val sleaves]. apply IH.
  - intros items IH path. rewrite conv_val_group. cbn [lleaves sleaves].
    induction IH as [|[k v] t Hv Ht IHt]; [reflexivity|].
    cbn [map conv_item flat_map]. cbn [snd] in Hv. rewrite Hv, IHt. reflexivity.
Qed.

Lemma conv_attr_leaves a : lattr_leaves (conv_attr a) = sattr_leaves a.
Proof. destruct a as [k v]. unfold lattr_leaves, sattr_leaves, conv_attr. cbn [fst snd]. apply conv_leaves. Qed.

Lemma conv_attrs_leaves l : flat_map lattr_leaves (conv_attrs l) = flat_map sattr_leaves l.
Proof.
  induction l as [|a t IH]; [reflexivity|]. cbn [conv_attrs map flat_map].
  rewrite conv_attr_leaves. unfold conv_attrs in IH. rewrite IH. reflexivity.
Qed.

(* the nesting depth is preserved *)
Lemma conv_depth : forall v, ldepth (conv_val v) = sdepth v.
Proof.
  apply sval_ind2; try reflexivity.
  - intros v IH. cbn [conv_val sdepth]. exact IH.
  - intros items IH. rewrite conv_val_group. cbn [ldepth sdepth]. f_equal.
    induction IH as [|[k v] t Hv Ht IHt]; [reflexivity|].
    cbn [map conv_item fold_right]. cbn [snd] in Hv. rewrite Hv, IHt. reflexivity.
Qed.

(* keys in order *)
Lemma conv_attrs_keys l : map fst (conv_attrs l) = map fst l.
Proof. induction l as [|[k v] t IH]; [reflexivity|]. cbn. f_equal. exact IH. Qed.

Lemma conv_attrs_length l : length (conv_attrs l) = length l.
Proof. apply map_length. Qed.

(* ------------------------------------------------------------------------
   4. Handle *)
Lemma handle_once m h r :
  exists rec, handle m h r = [(h_log h, rec)] /\
    lr_msg rec = sr_msg r /\ lr_time rec = sr_time r /\
    lr_level rec = convert_logslog_level_ref m (sr_level r) /\
    lr_attrs rec = nest (h_ops h) (conv_attrs (sr_attrs r)).
Proof. eexists. split; [reflexivity|]. cbn. auto. Qed.

Lemma new_handler_plain c dbg o : h_ops (fst (fst (new_handler c dbg o))) = [].
Proof. reflexivity. Qed.

Lemma new_handler_cfg c dbg o :
  let '(h, caller, dbg') := new_handler c dbg o in
  lc_dest (h_log h) = lc_dest c /\
  lc_level (h_log h) = (if o_level o =? lv_panic then lc_level c else o_level o) /\
  lc_json (h_log h) = o_json o /\
  lc_color (h_log h) = (negb (o_json o) && negb (o_nocolor o)) /\
  caller = negb (o_nosource o) /\
  dbg' = (dbg || (o_level o =? lv_debug)).
Proof.
  cbn. unfold set_json_mode, set_color_mode, last_of. cbn.
  destruct (o_json o), (o_nocolor o), dbg, (o_level o =? lv_debug); cbn; repeat split; reflexivity.
Qed.

(* the full statement for a handler made by NewSlogHandler (nothing derived) *)
Lemma slog_log_plain m enabled_as dbg h r : h_ops h = [] ->
  slog_log m enabled_as dbg h r =
    if handler_on m enabled_as dbg h (sr_level r)
    then [(h_log h, {| lr_level := convert_logslog_level_ref m (sr_level r); lr_time := sr_time r;
                       lr_msg := sr_msg r; lr_attrs := conv_attrs (sr_attrs r) |})]
    else [].
Proof. intros H. unfold slog_log, handle. rewrite H. reflexivity. Qed.

Lemma standard_not_blank z msg :
  z = slog_debug \/ z = slog_info \/ z = slog_warn \/ z = slog_error ->
  blank_shortcut (convert_logslog_level_ref t_mLogSlogLevelToLevel z) msg = false.
Proof.
  unfold blank_shortcut. intros H.
  replace (convert_logslog_level_ref t_mLogSlogLevelToLevel z =? lv_always) with false; [reflexivity|].
  symmetry. apply Z.eqb_neq. pose proof (handler_levels z) as L. cbv zeta in L.
  destruct L as (L1 & L2 & L3 & L4 & _).
  destruct H as [H|[H|[H|H]]]; [rewrite (L1 H)|rewrite (L2 H)|rewrite (L3 H)|rewrite (L4 H)]; discriminate.
Qed.

Lemma not_blank_msg lvl msg : forallb is_blank msg = false -> blank_shortcut lvl msg = false.
Proof. unfold blank_shortcut. intros H. rewrite H. apply andb_false_r. Qed.

(* a record at a level log/slog does not name, with a blank message, is written as a bare line feed *)
Lemma handle_blank_refuted :
  exists r rec c, handle t_mLogSlogLevelToLevel {| h_log := c; h_ops := [] |} r = [(c, rec)] /\
    sr_attrs r <> [] /\ blank_shortcut (lr_level rec) (lr_msg rec) = true.
Proof.
  exists {| sr_level := 1; sr_time := 7; sr_msg := [x20]; sr_attrs := [([x6b], SInt 1)] |}.
  eexists. exists (detached lv_warn []). split; [reflexivity|]. split; [discriminate|]. vm_compute. reflexivity.
Qed.

(* ------------------------------------------------------------------------
   5. derived handlers *)
Lemma nest_app ops1 ops2 fields : nest (ops1 ++ ops2) fields = nest ops1 (nest ops2 fields).
Proof. unfold nest. apply fold_right_app. Qed.

Lemma derived_keep_gen dl : forall ds h,
  h_log (derive true dl h ds) = h_log h /\
  forall fields, nest (h_ops (derive true dl h ds)) fields = nest (h_ops h) (expected ds fields).
Proof.
  induction ds as [|d ds IH]; intros h; [split; reflexivity|].
  unfold derive. cbn [fold_left]. fold (derive true dl (derive1 true dl h d) ds).
  destruct (IH (derive1 true dl h d)) as [IHl IHn].
  destruct d as [a|g]; cbn [derive1 with_attrs with_group] in *.
  - destruct a as [|a0 a'].
    + split; [exact IHl|]. intros fields. rewrite IHn. reflexivity.
    + cbn [h_log h_ops] in *. split; [exact IHl|]. intros fields. rewrite IHn, nest_app. reflexivity.
  - destruct g as [|g0 g'].
    + split; [exact IHl|]. intros fields. rewrite IHn. reflexivity.
    + cbn [h_log h_ops] in *. split; [exact IHl|]. intros fields. rewrite IHn, nest_app. reflexivity.
Qed.

Lemma derived_keep m enabled_as dbg dl h ds r : h_ops h = [] ->
  let h' := derive true dl h ds in
  h_log h' = h_log h /\
  (forall z, handler_on m enabled_as dbg h' z = handler_on m enabled_as dbg h z) /\
  handle m h' r =
    [(h_log h, {| lr_level := convert_logslog_level_ref m (sr_level r); lr_time := sr_time r;
                  lr_msg := sr_msg r; lr_attrs := expected ds (conv_attrs (sr_attrs r)) |})].
Proof.
  intros Hops h'. destruct (derived_keep_gen dl ds h) as [Hl Hn]. fold h' in Hl, Hn.
  split; [exact Hl|]. split.
  - intros z. unfold handler_on. rewrite Hl. reflexivity.
  - unfold handle. rewrite Hl, Hn, Hops. reflexivity.
Qed.

(* the code as found: a derived handler writes with a new detached logger *)
Lemma derived_current dl h d :
  let h' := derive1 false dl h d in
  lc_dest (h_log h') = 0 /\ lc_json (h_log h') = false /\ lc_color (h_log h') = true /\
  lc_level (h_log h') = dl /\ h_ops h' = [].
Proof. destruct d; cbn; auto. Qed.

Lemma derived_refuted :
  exists dl h a r, h_ops h = [] /\ a <> [] /\
    let h' := with_attrs false dl h a in
    lc_dest (h_log h') <> lc_dest (h_log h) /\ lc_json (h_log h') <> lc_json (h_log h) /\
    lc_level (h_log h') <> lc_level (h_log h) /\
    handler_on t_mLogSlogLevelToLevel t_mLevelIsEnabledAs false h slog_info = true /\
    handler_on t_mLogSlogLevelToLevel t_mLevelIsEnabledAs false h' slog_info = false /\
    exists rec, handle t_mLogSlogLevelToLevel h' r = [(h_log h', rec)] /\ lr_attrs rec = conv_attrs (sr_attrs r).
Proof.
  exists lv_warn.
  exists {| h_log := {| lc_dest := 1; lc_json := true; lc_color := false; lc_level := lv_debug; lc_attrs := [] |}; h_ops := [] |}.
  exists [([x77], SInt 1)].
  exists {| sr_level := 0; sr_time := 7; sr_msg := [x6d]; sr_attrs := [([x6b], SInt 2)] |}.
  split; [reflexivity|]. split; [discriminate|]. cbn zeta.
  split; [cbn; discriminate|]. split; [cbn; discriminate|]. split; [cbn; discriminate|].
  split; [vm_compute; reflexivity|]. split; [vm_compute; reflexivity|].
  eexists; split; reflexivity.
Qed.

Lemma group_refuted :
  exists dl h g r, h_ops h = [] /\ g <> [] /\ sr_attrs r <> [] /\
    let h' := with_group false dl h g in
    lc_dest (h_log h') <> lc_dest (h_log h) /\
    exists rec, handle t_mLogSlogLevelToLevel h' r = [(h_log h', rec)] /\ lr_attrs rec = conv_attrs (sr_attrs r).
Proof.
  exists lv_warn.
  exists {| h_log := {| lc_dest := 1; lc_json := true; lc_color := false; lc_level := lv_debug; lc_attrs := [] |}; h_ops := [] |}.
  exists [x67].
  exists {| sr_level := 0; sr_time := 7; sr_msg := [x6d]; sr_attrs := [([x6b], SInt 2)] |}.
  split; [reflexivity|]. split; [discriminate|]. split; [discriminate|]. cbn zeta.
  split; [cbn; discriminate|]. eexists; split; reflexivity.
Qed.

(* ------------------------------------------------------------------------
   6. the std-log bridge *)
Lemma strip_lf_cons c t : t <> [] -> strip_lf (c :: t) = c :: strip_lf t.
Proof. destruct t; [contradiction|reflexivity]. Qed.

Lemma strip_lf_app s b : strip_lf (s ++ [b]) = if byte_eqb b x0a then s else s ++ [b].
Proof.
  induction s as [|c t IH]; [cbn; destruct (byte_eqb b x0a); reflexivity|].
  change ((c :: t) ++ [b]) with (c :: (t ++ [b])).
  rewrite strip_lf_cons, IH; [destruct (byte_eqb b x0a); reflexivity|].
  intros H. apply app_eq_nil in H. destruct H; discriminate.
Qed.

Lemma byte_eqb_true a b : byte_eqb a b = true -> a = b.
Proof. unfold byte_eqb. apply Byte.byte_dec_bl. Qed.

(* the message is the buffer without ONE final line feed *)
Lemma strip_lf_spec buf :
  (exists s, buf = s ++ [x0a] /\ strip_lf buf = s) \/
  ((forall s, buf <> s ++ [x0a]) /\ strip_lf buf = buf).
Proof.
  destruct buf as [|c t].
  - right. split; [|reflexivity]. intros s H. symmetry in H. apply app_eq_nil in H. destruct H; discriminate.
  - destruct (@exists_last _ (c :: t)) as [s [b E]]; [discriminate|].
    rewrite E, strip_lf_app. destruct (byte_eqb b x0a) eqn:Hb.
    + left. exists s. apply byte_eqb_true in Hb. subst b. auto.
    + right. split; [|reflexivity]. intros s' H. apply app_inj_tail in H. destruct H as [_ H]. subst b.
      cbn in Hb. discriminate.
Qed.

Lemma strip_lf_length buf : (length (strip_lf buf) <= length buf)%nat.
Proof.
  destruct (strip_lf_spec buf) as [[s [E H]]|[_ H]]; rewrite H; [|lia].
  rewrite E, app_length. cbn. lia.
Qed.

Definition bridge_record (sev now : Z) (buf : bytes) : lrecord :=
  {| lr_level := sev; lr_time := now; lr_msg := strip_lf buf; lr_attrs := [] |}.

(* repaired variant: emits iff the logger admits the bridge severity *)
Lemma bridge_fixed enabled_as dbg L sev now buf :
  bridge_write true enabled_as dbg L sev now buf =
    if enabled_code enabled_as dbg L sev
    then (Some (bridge_record sev now buf), Z.of_nat (length buf))
    else (None, 0).
Proof. reflexivity. Qed.

Lemma bridge_fixed_rule enabled_as dbg L sev now buf :
  (fst (bridge_write true enabled_as dbg L sev now buf) = Some (bridge_record sev now buf) <-> admits enabled_as dbg L sev) /\
  (fst (bridge_write true enabled_as dbg L sev now buf) = None <-> ~ admits enabled_as dbg L sev).
Proof.
  rewrite bridge_fixed, <- enabled_rule. destruct (enabled_code enabled_as dbg L sev); cbn; split; split; intros H;
    try reflexivity; try discriminate; try congruence; try (exfalso; apply H; reflexivity).
Qed.

(* both variants: what is emitted is the message at the bridge severity, n is the length given *)
Lemma bridge_partial fx enabled_as dbg L sev now buf :
  (fst (bridge_write fx enabled_as dbg L sev now buf) = Some (bridge_record sev now buf) /\
   snd (bridge_write fx enabled_as dbg L sev now buf) = Z.of_nat (length buf)) \/
  (fst (bridge_write fx enabled_as dbg L sev now buf) = None /\ snd (bridge_write fx enabled_as dbg L sev now buf) = 0).
Proof.
  unfold bridge_write. destruct (bridge_admit_model fx (enabled_code enabled_as dbg L) sev L); [left|right]; auto.
Qed.

(* the code as found: admits exactly when sev >= L as numbers *)
Lemma bridge_current enabled_as dbg L sev now buf :
  fst (bridge_write false enabled_as dbg L sev now buf) <> None <-> L <= sev.
Proof.
  unfold bridge_write, bridge_admit_model, bridge_admit_ref. destruct (Z.leb_spec L sev) as [Hle|Hgt]; cbn; split; intros H;
    try lia; try discriminate; try (exfalso; apply H; reflexivity).
Qed.

(* ... which is wrong in both directions *)
Lemma bridge_refuted :
  (exists L sev, enabled_code t_mLevelIsEnabledAs false L sev = true /\
     forall now buf, bridge_write false t_mLevelIsEnabledAs false L sev now buf = (None, 0)) /\
  (exists L sev, enabled_code t_mLevelIsEnabledAs false L sev = false /\
     forall now buf, fst (bridge_write false t_mLevelIsEnabledAs false L sev now buf) = Some (bridge_record sev now buf)).
Proof.
  split.
  - exists lv_info, lv_error. split; [vm_compute; reflexivity|]. intros. reflexivity.
  - exists lv_error, lv_debug. split; [vm_compute; reflexivity|]. intros. reflexivity.
Qed.

(* ------------------------------------------------------------------------
   7. Entry.Log *)
Lemma entry_log_never_terminates_unlisted enabled_as dbg L z now msg args rec :
  entry_log true enabled_as dbg L z now msg args = Some rec ->
  terminating (lr_level rec) = true -> z = c_LevelPanic \/ z = c_LevelFatal.
Proof.
  unfold entry_log. destruct (enabled_code enabled_as dbg L (log_level_conv true z)); [|discriminate].
  intros H; inversion H; subst; clear H. cbn [lr_level]. unfold terminating.
  pose proof (log_levels_fixed z) as P. cbv zeta in P. destruct P as (_ & _ & _ & _ & Pp & Pf).
  intros T. apply orb_true_iff in T. destruct T as [T|T]; apply Z.eqb_eq in T; auto.
Qed.

(* ------------------------------------------------------------------------
   8. the statements of Props/C15.v that need more than one lemma *)
Lemma handle_once_full enabled_as dbg h r : h_ops h = [] ->
  exists rec,
    slog_log t_mLogSlogLevelToLevel enabled_as dbg h r =
      (if handler_on t_mLogSlogLevelToLevel enabled_as dbg h (sr_level r) then [(h_log h, rec)] else []) /\
    handle t_mLogSlogLevelToLevel h r = [(h_log h, rec)] /\
    lr_msg rec = sr_msg r /\ lr_time rec = sr_time r /\
    lr_level rec = convert_logslog_level_ref t_mLogSlogLevelToLevel (sr_level r) /\
    Forall2 same_attr (sr_attrs r) (lr_attrs rec) /\
    (forall l', Forall2 same_attr (sr_attrs r) l' -> l' = lr_attrs rec) /\
    map fst (lr_attrs rec) = map fst (sr_attrs r) /\
    flat_map lattr_leaves (lr_attrs rec) = flat_map sattr_leaves (sr_attrs r).
Proof.
  intros Hops.
  eexists. split; [apply slog_log_plain; exact Hops|].
  split; [unfold handle; rewrite Hops; reflexivity|]. cbn [lr_msg lr_time lr_level lr_attrs].
  repeat split; [apply conv_attrs_same|apply conv_attrs_unique|apply conv_attrs_keys|apply conv_attrs_leaves].
Qed.

Lemma attr_conversion (k : bytes) v :
  same_val v (conv_val v) /\ (forall l, same_val v l -> l = conv_val v) /\
  lleaves [k] (conv_val v) = sleaves [k] v /\ ldepth (conv_val v) = sdepth v.
Proof.
  split; [apply conv_same|]. split; [apply same_unique|]. split; [apply conv_leaves|apply conv_depth].
Qed.

Lemma written_in_full z msg :
  (z = slog_debug \/ z = slog_info \/ z = slog_warn \/ z = slog_error) \/ forallb is_blank msg = false ->
  blank_shortcut (convert_logslog_level_ref t_mLogSlogLevelToLevel z) msg = false.
Proof. intros [H|H]; [apply standard_not_blank; exact H|apply not_blank_msg; exact H]. Qed.

Lemma bridge_full enabled_as dbg L sev now buf :
  bridge_write true enabled_as dbg L sev now buf =
    (if enabled_code enabled_as dbg L sev
     then (Some {| lr_level := sev; lr_time := now; lr_msg := strip_lf buf; lr_attrs := [] |}, Z.of_nat (length buf))
     else (None, 0)) /\
  (fst (bridge_write true enabled_as dbg L sev now buf) <> None <-> admits enabled_as dbg L sev).
Proof.
  split; [exact (bridge_fixed enabled_as dbg L sev now buf)|].
  destruct (bridge_fixed_rule enabled_as dbg L sev now buf) as [[A1 A2] [B1 B2]].
  split.
  - intros H. destruct (bridge_partial true enabled_as dbg L sev now buf) as [[E _]|[E _]]; [apply A1; exact E|contradiction].
  - intros H. rewrite (A2 H). discriminate.
Qed.
