(* Lemmas about Model/Deliver.v (C13). *)
Require Import Verif.Model.Base Verif.Model.Decision Verif.Model.Level Verif.Model.DecisionRef
  Verif.Model.Writers Verif.Model.Deliver.
Require Import Lia.

(* ---- stamp ---- *)
Lemma stamp_ws f k ws n : map a_w (stamp f k ws n) = ws.
Proof.
  revert n. induction ws as [|w t IH]; intros n; cbn [stamp map a_w]; [reflexivity|].
  rewrite IH. reflexivity.
Qed.

Lemma stamp_length f k ws n : length (stamp f k ws n) = length ws.
Proof.
  revert n. induction ws as [|w t IH]; intros n; cbn [stamp length]; [reflexivity|].
  rewrite IH. reflexivity.
Qed.

Lemma stamp_nth f k ws n i w : nth_error ws i = Some w ->
  nth_error (stamp f k ws n) i = Some {| a_w := w; a_kind := k; a_failed := f (n + i)%nat |}.
Proof.
  revert n i. induction ws as [|x t IH]; intros n i H.
  - destruct i; discriminate H.
  - destruct i as [|i]; cbn [nth_error stamp] in *.
    + injection H as H. subst x. rewrite Nat.add_0_r. reflexivity.
    + rewrite (IH (S n) i H). replace (S n + i)%nat with (n + S i)%nat by lia. reflexivity.
Qed.

Lemma stamp_ext f g k ws n : (forall m, (n <= m)%nat -> f m = g m) -> stamp f k ws n = stamp g k ws n.
Proof.
  revert n. induction ws as [|w t IH]; intros n H; cbn [stamp]; [reflexivity|].
  rewrite (H n (le_n n)). f_equal. apply IH. intros m Hm. apply H. lia.
Qed.

Lemma stamp_succeed k ws n : stamp all_succeed k ws n = stamp all_succeed k ws 0.
Proof.
  revert n. induction ws as [|w t IH]; intros n; cbn [stamp]; [reflexivity|].
  rewrite (IH (S n)), (IH 1%nat). reflexivity.
Qed.

Lemma stamp_nofail f k ws n : (forall m, (n <= m)%nat -> f m = false) ->
  existsb a_failed (stamp f k ws n) = false.
Proof.
  revert n. induction ws as [|w t IH]; intros n H; cbn [stamp existsb a_failed]; [reflexivity|].
  rewrite (H n (le_n n)). cbn [orb]. apply IH. intros m Hm. apply H. lia.
Qed.

Lemma stamp_allfail k ws n : ws <> [] -> existsb a_failed (stamp all_fail k ws n) = true.
Proof. destruct ws as [|w t]; intros H; [congruence|]. reflexivity. Qed.

Lemma filter_orig_stamp_orig f ws n : filter is_orig (stamp f Orig ws n) = stamp f Orig ws n.
Proof.
  revert n. induction ws as [|w t IH]; intros n; cbn [stamp filter]; [reflexivity|].
  unfold is_orig at 1. cbn [a_kind]. rewrite IH. reflexivity.
Qed.
Lemma filter_orig_stamp_diag f ws n : filter is_orig (stamp f Diag ws n) = [].
Proof.
  revert n. induction ws as [|w t IH]; intros n; cbn [stamp filter]; [reflexivity|].
  unfold is_orig at 1. cbn [a_kind]. apply IH.
Qed.
Lemma filter_diag_stamp_orig f ws n : filter is_diag (stamp f Orig ws n) = [].
Proof.
  revert n. induction ws as [|w t IH]; intros n; cbn [stamp filter]; [reflexivity|].
  unfold is_diag at 1, is_orig. cbn [a_kind negb]. apply IH.
Qed.
Lemma filter_diag_stamp_diag f ws n : filter is_diag (stamp f Diag ws n) = stamp f Diag ws n.
Proof.
  revert n. induction ws as [|w t IH]; intros n; cbn [stamp filter]; [reflexivity|].
  unfold is_diag at 1, is_orig. cbn [a_kind negb]. rewrite IH. reflexivity.
Qed.

(* ---- LWs.WriteLeveled ---- *)
Lemma write_all_spec f k ms n :
  write_all f k ms n =
  (stamp f k (map member_id ms) n, (n + length ms)%nat, existsb a_failed (stamp f k (map member_id ms) n)).
Proof.
  revert n. induction ms as [|m t IH]; intros n; cbn [write_all map stamp length existsb].
  - rewrite Nat.add_0_r. reflexivity.
  - rewrite IH. cbn [a_failed]. replace (S n + length t)%nat with (n + S (length t))%nat by lia. reflexivity.
Qed.

Lemma dest_ids_dests c lvl : map member_id (dests c lvl) = dest_ids c lvl.
Proof. reflexivity. Qed.

Lemma dests_length c lvl : length (dests c lvl) = length (dest_ids c lvl).
Proof. rewrite <- dest_ids_dests. rewrite map_length. reflexivity. Qed.

(* ---- decisions ---- *)
Lemma sw_ref_warn err : should_warn_ref err lv_warn = false.
Proof. unfold should_warn_ref. rewrite Z.eqb_refl. apply andb_false_r. Qed.

Lemma sw_ref_err failed lvl : should_warn_ref (err_of failed) lvl = failed && negb (lvl =? lv_warn).
Proof. destruct failed; reflexivity. Qed.

Lemma term_continue it fl lvl : lvl <> lv_panic -> lvl <> lv_fatal -> termination_ref it fl lvl = ActContinue.
Proof.
  intros Hp Hf. unfold termination_ref. apply Z.eqb_neq in Hp. apply Z.eqb_neq in Hf. rewrite Hp, Hf.
  destruct ((negb it || has_any fl f_interruptalways) && negb (has_all fl f_nointerrupt)); reflexivity.
Qed.

Lemma term_warn it fl : termination_ref it fl lv_warn = ActContinue.
Proof. apply term_continue; discriminate. Qed.

Lemma tail_warn c a n : tail c lv_warn (Normal a n) = Normal a n.
Proof. unfold tail. rewrite term_warn. reflexivity. Qed.

Lemma attempts_tail c lvl r : attempts_of (tail c lvl r) = attempts_of r.
Proof.
  destruct r as [a n|act a n|]; cbn [tail attempts_of]; try reflexivity.
  destruct (termination_ref (l_intesting c) (l_flags c) lvl); reflexivity.
Qed.

Lemma tail_not_oof c lvl r : r <> OutOfFuel -> tail c lvl r <> OutOfFuel.
Proof.
  destruct r as [a n|act a n|]; cbn [tail]; intros H; try congruence.
  destruct (termination_ref (l_intesting c) (l_flags c) lvl); discriminate.
Qed.

(* ---- one unfolding of the cycle ---- *)
Lemma print_out_S sw f c faults lvl k n :
  print_out sw (S f) c faults lvl k n =
  let '(atts, n1, failed) := write_all faults k (dests c lvl) n in
  if sw (err_of failed) lvl then
    if admitted c lv_warn
    then seq_after atts (tail c lv_warn (print_out sw f c faults lv_warn Diag n1))
    else Normal atts n1
  else Normal atts n1.
Proof. reflexivity. Qed.

(* a warning is delivered and nothing else happens, whatever its Writes return *)
Lemma print_out_warn f c faults k n :
  print_out_code (S f) c faults lv_warn k n =
  Normal (stamp faults k (dest_ids c lv_warn) n) (n + length (dest_ids c lv_warn))%nat.
Proof.
  unfold print_out_code. rewrite print_out_S, write_all_spec, dest_ids_dests, dests_length.
  cbv beta iota zeta. rewrite sw_ref_warn. reflexivity.
Qed.

(* closed form of the cycle once there is fuel for the call and one nested call *)
Definition print_out_closed (c : lcfg) (faults : nat -> bool) (lvl : Z) (k : rec_kind) (n : nat) : outcome :=
  let o := stamp faults k (dest_ids c lvl) n in
  let n1 := (n + length (dest_ids c lvl))%nat in
  if existsb a_failed o && negb (lvl =? lv_warn) && admitted c lv_warn
  then Normal (o ++ stamp faults Diag (dest_ids c lv_warn) n1) (n1 + length (dest_ids c lv_warn))%nat
  else Normal o n1.

Lemma print_out_char f c faults lvl k n :
  print_out_code (S (S f)) c faults lvl k n = print_out_closed c faults lvl k n.
Proof.
  unfold print_out_code, print_out_closed.
  rewrite print_out_S, write_all_spec, dest_ids_dests, dests_length.
  cbv beta iota zeta. rewrite sw_ref_err.
  destruct (existsb a_failed (stamp faults k (dest_ids c lvl) n)); cbn [andb]; [|reflexivity].
  destruct (lvl =? lv_warn); cbn [negb andb]; [reflexivity|].
  destruct (admitted c lv_warn); [|reflexivity].
  fold print_out_code. rewrite print_out_warn, tail_warn. reflexivity.
Qed.

Lemma print_out_closed_normal c faults lvl k n : exists a m, print_out_closed c faults lvl k n = Normal a m.
Proof.
  unfold print_out_closed.
  destruct (existsb a_failed (stamp faults k (dest_ids c lvl) n) && negb (lvl =? lv_warn) && admitted c lv_warn);
    eexists; eexists; reflexivity.
Qed.

Lemma ge2 fuel : (2 <= fuel)%nat -> exists f, fuel = S (S f).
Proof. intros H. destruct fuel as [|[|f]]; try lia. exists f. reflexivity. Qed.

Lemma print_out_bounded faults c lvl k n fuel : (2 <= fuel)%nat ->
  print_out_code fuel c faults lvl k n = print_out_code 2 c faults lvl k n
  /\ print_out_code fuel c faults lvl k n <> OutOfFuel.
Proof.
  intros H. destruct (ge2 fuel H) as [f E]. subst fuel. rewrite !print_out_char. split; [reflexivity|].
  destruct (print_out_closed_normal c faults lvl k n) as [a [m E]]. rewrite E. discriminate.
Qed.

Definition log_call_closed (c : lcfg) (faults : nat -> bool) (lvl : Z) (n : nat) : outcome :=
  if admitted c lvl then tail c lvl (print_out_closed c faults lvl Orig n) else Normal [] n.

Lemma log_call_char fuel c faults lvl n : (2 <= fuel)%nat ->
  log_call_code fuel c faults lvl n = log_call_closed c faults lvl n.
Proof.
  intros H. destruct (ge2 fuel H) as [f E]. subst fuel. unfold log_call_code, log_call, log_call_closed.
  fold print_out_code. rewrite print_out_char. reflexivity.
Qed.

Lemma log_call_bounded faults c lvl n fuel : (2 <= fuel)%nat ->
  log_call_code fuel c faults lvl n = log_call_code 2 c faults lvl n
  /\ log_call_code fuel c faults lvl n <> OutOfFuel.
Proof.
  intros H. rewrite (log_call_char fuel), (log_call_char 2) by lia. split; [reflexivity|].
  unfold log_call_closed. destruct (admitted c lvl); [|discriminate].
  apply tail_not_oof. destruct (print_out_closed_normal c faults lvl Orig n) as [a [m E]]. rewrite E. discriminate.
Qed.

Lemma run_S sw fuel faults w lvl t :
  run sw fuel faults w (lvl :: t) =
  let '(r, w1) := step sw fuel faults w lvl in
  let '(rs, w2) := run sw fuel faults w1 t in (r :: rs, w2).
Proof. reflexivity. Qed.

Lemma step_bounded faults w lvl fuel : (2 <= fuel)%nat -> step_code fuel faults w lvl = step_code 2 faults w lvl.
Proof.
  intros H. unfold step_code, step. fold log_call_code.
  destruct (log_call_bounded faults (w_cfg w) lvl (w_next w) fuel H) as [E _]. rewrite E. reflexivity.
Qed.

Lemma run_bounded faults calls : forall w fuel, (2 <= fuel)%nat ->
  run_code fuel faults w calls = run_code 2 faults w calls
  /\ ~ In OutOfFuel (fst (run_code fuel faults w calls)).
Proof.
  induction calls as [|lvl t IH]; intros w fuel H.
  - split; [reflexivity|]. intros Hin. exact Hin.
  - unfold run_code. rewrite !run_S. fold step_code. fold run_code. rewrite (step_bounded faults w lvl fuel H).
    destruct (step_code 2 faults w lvl) as [r w1] eqn:Es.
    destruct (IH w1 fuel H) as [E Hno]. rewrite E in *.
    destruct (run_code 2 faults w1 t) as [rs w2]. split; [reflexivity|].
    cbn [fst In] in *. intros [Hr|Hr]; [|exact (Hno Hr)].
    unfold step_code, step in Es. fold log_call_code in Es. injection Es as Er _.
    destruct (log_call_bounded faults (w_cfg w) lvl (w_next w) 2 (le_n 2)) as [_ Hn]. congruence.
Qed.

(* ---- without the `lvl != WarnLevel` guard the cycle never ends on the all-fail schedule ---- *)
Lemma noguard_diverges c : dest_ids c lv_warn <> [] -> admitted c lv_warn = true ->
  forall fuel lvl k n, dest_ids c lvl <> [] -> print_out_noguard fuel c all_fail lvl k n = OutOfFuel.
Proof.
  intros Hw Ha. induction fuel as [|f IH]; intros lvl k n Hd; [reflexivity|].
  unfold print_out_noguard in *. rewrite print_out_S, write_all_spec, dest_ids_dests.
  cbv beta iota zeta. rewrite (stamp_allfail k _ n Hd). unfold sw_noguard at 1. cbn [err_of is_nil negb].
  rewrite Ha. rewrite (IH lv_warn Diag _ Hw). reflexivity.
Qed.

(* ---- the attempts of one call ---- *)
Lemma attempts_closed c faults lvl n :
  attempts_of (log_call_closed c faults lvl n) =
  if admitted c lvl then
    stamp faults Orig (dest_ids c lvl) n ++
    (if existsb a_failed (stamp faults Orig (dest_ids c lvl) n) && negb (lvl =? lv_warn) && admitted c lv_warn
     then stamp faults Diag (dest_ids c lv_warn) (n + length (dest_ids c lvl))%nat else [])
  else [].
Proof.
  unfold log_call_closed. destruct (admitted c lvl); [|reflexivity].
  rewrite attempts_tail. unfold print_out_closed.
  destruct (existsb a_failed (stamp faults Orig (dest_ids c lvl) n) && negb (lvl =? lv_warn) && admitted c lv_warn);
    cbn [attempts_of]; [reflexivity|]. rewrite app_nil_r. reflexivity.
Qed.

Lemma origs_closed c faults lvl n :
  origs (log_call_closed c faults lvl n) = if admitted c lvl then stamp faults Orig (dest_ids c lvl) n else [].
Proof.
  unfold origs. rewrite attempts_closed. destruct (admitted c lvl); [|reflexivity].
  rewrite filter_app, filter_orig_stamp_orig.
  destruct (existsb a_failed (stamp faults Orig (dest_ids c lvl) n) && negb (lvl =? lv_warn) && admitted c lv_warn).
  - rewrite filter_orig_stamp_diag, app_nil_r. reflexivity.
  - cbn [filter]. rewrite app_nil_r. reflexivity.
Qed.

Lemma diags_closed c faults lvl n :
  diags (log_call_closed c faults lvl n) =
  if admitted c lvl && existsb a_failed (stamp faults Orig (dest_ids c lvl) n) && negb (lvl =? lv_warn) && admitted c lv_warn
  then stamp faults Diag (dest_ids c lv_warn) (n + length (dest_ids c lvl))%nat else [].
Proof.
  unfold diags. rewrite attempts_closed. destruct (admitted c lvl); cbn [andb]; [|reflexivity].
  rewrite filter_app, filter_diag_stamp_orig. cbn [app].
  destruct (existsb a_failed (stamp faults Orig (dest_ids c lvl) n) && negb (lvl =? lv_warn) && admitted c lv_warn).
  - apply filter_diag_stamp_diag.
  - reflexivity.
Qed.

Lemma others_served faults c lvl n fuel : (2 <= fuel)%nat ->
  let r := log_call_code fuel c faults lvl n in
  origs r = (if admitted c lvl then stamp faults Orig (dest_ids c lvl) n else [])
  /\ map a_w (origs r) = (if admitted c lvl then dest_ids c lvl else [])
  /\ attempts_of r = origs r ++ diags r.
Proof.
  intros H r. subst r. rewrite (log_call_char fuel) by exact H. rewrite origs_closed.
  split; [reflexivity|]. split.
  - destruct (admitted c lvl); [apply stamp_ws|reflexivity].
  - rewrite diags_closed, attempts_closed. destruct (admitted c lvl); reflexivity.
Qed.

Lemma one_diagnostic faults c lvl n fuel : (2 <= fuel)%nat ->
  let r := log_call_code fuel c faults lvl n in
  let trig := admitted c lvl && existsb a_failed (origs r) && negb (lvl =? lv_warn) && admitted c lv_warn in
  diags r = (if trig then stamp faults Diag (dest_ids c lv_warn) (n + length (dest_ids c lvl))%nat else [])
  /\ map a_w (diags r) = (if trig then dest_ids c lv_warn else [])
  /\ (length (diags r) <= length (dest_ids c lv_warn))%nat.
Proof.
  intros H r trig. subst trig r. rewrite (log_call_char fuel) by exact H. rewrite origs_closed, diags_closed.
  destruct (admitted c lvl) eqn:Ea; cbn [andb].
  - destruct (existsb a_failed (stamp faults Orig (dest_ids c lvl) n) && negb (lvl =? lv_warn) && admitted c lv_warn).
    + rewrite stamp_ws, stamp_length. repeat split; auto.
    + cbn [map length]. repeat split; auto. lia.
  - cbn [existsb andb map length]. repeat split; auto. lia.
Qed.

Lemma returns faults c lvl n fuel : (2 <= fuel)%nat ->
  (exists atts n', log_call_code fuel c faults lvl n =
     if admitted c lvl then tail c lvl (Normal atts n') else Normal [] n)
  /\ (termination_ref (l_intesting c) (l_flags c) lvl = ActContinue ->
      outcome_is_normal (log_call_code fuel c faults lvl n) = true)
  /\ (lvl <> lv_panic -> lvl <> lv_fatal -> outcome_is_normal (log_call_code fuel c faults lvl n) = true).
Proof.
  intros H. rewrite (log_call_char fuel) by exact H. unfold log_call_closed.
  destruct (print_out_closed_normal c faults lvl Orig n) as [a [m E]]. rewrite E.
  assert (Hc : termination_ref (l_intesting c) (l_flags c) lvl = ActContinue ->
               outcome_is_normal (if admitted c lvl then tail c lvl (Normal a m) else Normal [] n) = true).
  { intros Ht. destruct (admitted c lvl); [|reflexivity]. unfold tail. rewrite Ht. reflexivity. }
  split; [exists a, m; reflexivity|]. split; [exact Hc|].
  intros Hp Hf. apply Hc. apply term_continue; assumption.
Qed.

(* ---- no sticky state ---- *)
Lemma step_cfg sw fuel faults w lvl : w_cfg (snd (step sw fuel faults w lvl)) = w_cfg w.
Proof. reflexivity. Qed.

Lemma run_cfg sw fuel faults calls : forall w, w_cfg (snd (run sw fuel faults w calls)) = w_cfg w.
Proof.
  induction calls as [|lvl t IH]; intros w; [reflexivity|].
  rewrite run_S. destruct (step sw fuel faults w lvl) as [r w1] eqn:Es.
  specialize (IH w1). destruct (run sw fuel faults w1 t) as [rs w2]. cbn [snd] in *.
  rewrite IH. change w1 with (snd (r, w1)). rewrite <- Es. apply step_cfg.
Qed.

(* the outcome with the attempt clock erased *)
Definition erase (r : outcome) : outcome :=
  match r with
  | Normal a _ => Normal a 0
  | Terminated act a _ => Terminated act a 0
  | OutOfFuel => OutOfFuel
  end.

Lemma erase_closed_recovered c faults lvl n : (forall m, (n <= m)%nat -> faults m = false) ->
  erase (log_call_closed c faults lvl n) =
  erase (if admitted c lvl then tail c lvl (Normal (stamp all_succeed Orig (dest_ids c lvl) 0) 0) else Normal [] 0).
Proof.
  intros Hf. unfold log_call_closed, print_out_closed.
  rewrite (stamp_nofail faults Orig (dest_ids c lvl) n Hf). cbn [andb].
  destruct (admitted c lvl); [|reflexivity].
  rewrite (stamp_ext faults all_succeed Orig (dest_ids c lvl) n) by (intros m Hm; rewrite (Hf m Hm); reflexivity).
  rewrite stamp_succeed. unfold tail.
  destruct (termination_ref (l_intesting c) (l_flags c) lvl); reflexivity.
Qed.

Lemma recovery fuel faults w pre lvl : (2 <= fuel)%nat ->
  let w' := snd (run_code fuel faults w pre) in
  (forall m, (w_next w' <= m)%nat -> faults m = false) ->
  erase (fst (step_code fuel faults w' lvl)) = erase (log_call_code fuel (w_cfg w) all_succeed lvl 0)
  /\ attempts_of (fst (step_code fuel faults w' lvl)) =
     (if admitted (w_cfg w) lvl then stamp all_succeed Orig (dest_ids (w_cfg w) lvl) 0 else []).
Proof.
  intros H w' Hf.
  assert (Ec : w_cfg w' = w_cfg w) by (subst w'; unfold run_code; apply run_cfg).
  unfold step_code, step. cbn [fst]. fold log_call_code. rewrite Ec.
  rewrite !(log_call_char fuel) by exact H.
  assert (E1 := erase_closed_recovered (w_cfg w) faults lvl (w_next w') Hf).
  assert (E2 := erase_closed_recovered (w_cfg w) all_succeed lvl 0%nat (fun m _ => eq_refl)).
  split; [congruence|].
  assert (Ea : forall r, attempts_of (erase r) = attempts_of r) by (intros [a m|act a m|]; reflexivity).
  rewrite <- Ea, E1, Ea. destruct (admitted (w_cfg w) lvl); [|reflexivity].
  rewrite attempts_tail. reflexivity.
Qed.
