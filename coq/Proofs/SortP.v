(* Lemmas about Model/Attrs.v: the key order, the stable sort and the de-duplication
   (C07; used by C04-C06). *)
Require Import Verif.Model.Base Verif.Model.Attrs.
Require Import Verif.Proofs.Utf8P Verif.Proofs.RegistryP.
From Coq Require Import Sorting.Permutation.

(* ---- byte-wise order on keys ---- *)
Lemma bz_inj a b : bz a = bz b -> a = b.
Proof. intros H. rewrite <- (zb_bz a), <- (zb_bz b), H. reflexivity. Qed.

Lemma bytes_eqb_eq a : forall b, bytes_eqb a b = true <-> a = b.
Proof.
  unfold bytes_eqb. induction a as [|x a IH]; intros [|y b]; cbn; split; intros H; try reflexivity; try discriminate.
  - apply andb_true_iff in H. destruct H as [H1 H2]. unfold byte_eqb in H1. apply Byte.byte_dec_bl in H1.
    apply IH in H2. subst. reflexivity.
  - inversion H; subst. rewrite byte_eqb_refl. cbn. apply IH. reflexivity.
Qed.

Lemma bytes_ltb_irrefl a : bytes_ltb a a = false.
Proof. induction a as [|x a IH]; cbn; [reflexivity|]. rewrite Z.ltb_irrefl. exact IH. Qed.

Lemma bytes_ltb_trans a : forall b c, bytes_ltb a b = true -> bytes_ltb b c = true -> bytes_ltb a c = true.
Proof.
  induction a as [|x a IH]; intros [|y b] [|z c] H1 H2; cbn in *; try discriminate; try reflexivity.
  destruct (Z.ltb_spec (bz x) (bz y)) as [L1|L1].
  - destruct (Z.ltb_spec (bz y) (bz z)) as [L2|L2].
    + replace (bz x <? bz z) with true by lia. reflexivity.
    + destruct (Z.ltb_spec (bz z) (bz y)) as [L3|L3]; [discriminate|].
      replace (bz x <? bz z) with true by lia. reflexivity.
  - destruct (Z.ltb_spec (bz y) (bz x)) as [L0|L0]; [discriminate|].
    destruct (Z.ltb_spec (bz y) (bz z)) as [L2|L2].
    + replace (bz x <? bz z) with true by lia. reflexivity.
    + destruct (Z.ltb_spec (bz z) (bz y)) as [L3|L3]; [discriminate|].
      replace (bz x <? bz z) with false by lia. replace (bz z <? bz x) with false by lia.
      eapply IH; eassumption.
Qed.

Lemma bytes_trichotomy a : forall b, bytes_ltb a b = false -> bytes_ltb b a = false -> a = b.
Proof.
  induction a as [|x a IH]; intros [|y b] H1 H2; cbn in *; try discriminate; try reflexivity.
  destruct (Z.ltb_spec (bz x) (bz y)) as [L1|L1]; [discriminate|].
  destruct (Z.ltb_spec (bz y) (bz x)) as [L2|L2]; [discriminate|].
  assert (E : bz x = bz y) by lia. apply bz_inj in E. subst y. f_equal. apply IH; assumption.
Qed.

(* ---- the attribute order: nil first, then by key ---- *)
Lemma attr_ltb_irrefl a : attr_ltb a a = false.
Proof. destruct a; cbn; [apply bytes_ltb_irrefl|reflexivity]. Qed.

Lemma attr_ltb_trans a b c : attr_ltb a b = true -> attr_ltb b c = true -> attr_ltb a c = true.
Proof.
  destruct a as [k1 v1|], b as [k2 v2|], c as [k3 v3|]; cbn; intros H1 H2; try discriminate; try reflexivity.
  eapply bytes_ltb_trans; eassumption.
Qed.

Lemma attr_same_key_iff a b : attr_same_key a b = true <-> (attr_ltb a b = false /\ attr_ltb b a = false).
Proof.
  destruct a as [k1 v1|], b as [k2 v2|]; cbn.
  - split.
    + intros H. apply bytes_eqb_eq in H. subst. rewrite bytes_ltb_irrefl. split; reflexivity.
    + intros [H1 H2]. apply bytes_eqb_eq. apply bytes_trichotomy; assumption.
  - split; [discriminate|intros [_ H]; discriminate].
  - split; [discriminate|intros [H _]; discriminate].
  - split; [intros _; split; reflexivity|reflexivity].
Qed.

(* not greater = less or same key *)
Definition attr_leb (a b : attr) : bool := negb (attr_ltb b a).

Lemma attr_leb_trans a b c : attr_leb a b = true -> attr_leb b c = true -> attr_leb a c = true.
Proof.
  unfold attr_leb. rewrite !negb_true_iff. intros H1 H2.
  destruct (attr_ltb c a) eqn:E; [|reflexivity].
  (* c < a, a <= b  => c < b or contradiction *)
  destruct (attr_ltb a b) eqn:E2.
  - rewrite (attr_ltb_trans c a b E E2) in H2. discriminate.
  - (* a and b have the same key *)
    assert (S : attr_same_key a b = true) by (apply attr_same_key_iff; split; assumption).
    destruct a as [k1 v1|], b as [k2 v2|], c as [k3 v3|]; cbn in *; try discriminate.
    apply bytes_eqb_eq in S. subst. congruence.
Qed.

Lemma attr_leb_total a b : attr_leb a b = false -> attr_leb b a = true.
Proof.
  unfold attr_leb. rewrite negb_false_iff, negb_true_iff. intros H.
  destruct (attr_ltb a b) eqn:E; [|reflexivity].
  pose proof (attr_ltb_trans a b a E H) as X. rewrite attr_ltb_irrefl in X. discriminate.
Qed.

(* ---- sortedness ---- *)
Inductive sorted : list attr -> Prop :=
| sorted_nil : sorted []
| sorted_one x : sorted [x]
| sorted_cons x y l : attr_leb x y = true -> sorted (y :: l) -> sorted (x :: y :: l).

Lemma insert_sorted x l : sorted l -> sorted (insert_stable x l).
Proof.
  induction 1 as [|y|y z l Hyz Hs IH]; cbn [insert_stable].
  - constructor.
  - destruct (attr_ltb y x) eqn:E.
    + constructor; [|constructor]. unfold attr_leb. destruct (attr_ltb x y) eqn:E2; [|reflexivity].
      pose proof (attr_ltb_trans y x y E E2) as X. rewrite attr_ltb_irrefl in X. discriminate.
    + constructor; [|constructor]. unfold attr_leb. rewrite E. reflexivity.
  - destruct (attr_ltb y x) eqn:E.
    + cbn [insert_stable] in IH. destruct (attr_ltb z x) eqn:E2.
      * constructor; [exact Hyz|exact IH].
      * constructor; [|exact IH]. unfold attr_leb. destruct (attr_ltb x y) eqn:E3; [|reflexivity].
        pose proof (attr_ltb_trans y x y E E3) as X. rewrite attr_ltb_irrefl in X. discriminate.
    + constructor; [unfold attr_leb; rewrite E; reflexivity|]. constructor; assumption.
Qed.

Lemma sort_sorted l : sorted (sort_stable l).
Proof. unfold sort_stable. induction l as [|x l IH]; cbn [fold_right]; [constructor|apply insert_sorted; exact IH]. Qed.

Lemma insert_perm x l : Permutation (x :: l) (insert_stable x l).
Proof.
  induction l as [|h t IH]; cbn [insert_stable]; [reflexivity|].
  destruct (attr_ltb h x); [|reflexivity]. rewrite perm_swap. constructor. exact IH.
Qed.

Lemma sort_perm l : Permutation l (sort_stable l).
Proof.
  unfold sort_stable. induction l as [|x l IH]; cbn [fold_right]; [reflexivity|].
  rewrite <- insert_perm. constructor. exact IH.
Qed.

(* ---- "last occurrence wins" ---- *)
Definition akey (a : attr) : option bytes := match a with A k _ => Some k | ANil => None end.

(* the value of the last attribute with key k *)
Definition last_value (k : bytes) (l : list attr) : option value :=
  fold_left (fun acc a => match a with A k' v => if bytes_eqb k' k then Some v else acc | ANil => acc end) l None.

Lemma last_value_acc k l : forall acc,
  fold_left (fun acc a => match a with A k' v => if bytes_eqb k' k then Some v else acc | ANil => acc end) l acc
  = match last_value k l with Some v => Some v | None => acc end.
Proof.
  unfold last_value. induction l as [|a l IH]; intros acc; cbn [fold_left]; [reflexivity|].
  rewrite IH. rewrite (IH (match a with A k' v => if bytes_eqb k' k then Some v else None | ANil => None end)).
  destruct (fold_left _ l None); [reflexivity|]. destruct a as [k' v|]; [|reflexivity]. destruct (bytes_eqb k' k); reflexivity.
Qed.

Lemma last_value_cons k a l :
  last_value k (a :: l) = match last_value k l with
                          | Some v => Some v
                          | None => match a with A k' v => if bytes_eqb k' k then Some v else None | ANil => None end
                          end.
Proof. unfold last_value at 1. cbn [fold_left]. rewrite last_value_acc. reflexivity. Qed.

(* all elements of a sorted list after the head are not smaller than the head *)
Lemma sorted_head_le x l : sorted (x :: l) -> forall y, In y l -> attr_leb x y = true.
Proof.
  revert x. induction l as [|z l IH]; intros x Hs y Hin; [destruct Hin|].
  inversion Hs as [| |x' z' l' Hxz Hs']; subst. destruct Hin as [->|Hin]; [exact Hxz|].
  eapply attr_leb_trans; [exact Hxz|]. apply IH; assumption.
Qed.

Definition own (k : bytes) (a : attr) : option value :=
  match a with A k' v => if bytes_eqb k' k then Some v else None | ANil => None end.

Lemma last_value_cons' k a l :
  last_value k (a :: l) = match last_value k l with Some v => Some v | None => own k a end.
Proof. apply last_value_cons. Qed.

(* two attributes in strict order do not both carry the key k *)
Lemma ltb_own k y x : attr_ltb y x = true -> own k x = None \/ own k y = None.
Proof.
  destruct x as [kx vx|], y as [ky vy|]; cbn; intros H; try discriminate; auto.
  destruct (bytes_eqb kx k) eqn:E1; [|left; reflexivity].
  destruct (bytes_eqb ky k) eqn:E2; [|right; reflexivity].
  apply bytes_eqb_eq in E1, E2. subst. rewrite bytes_ltb_irrefl in H. discriminate.
Qed.

(* stable insertion: x came before every element of l, so it only supplies the value when
   no element of l has its key *)
Lemma insert_stable_cons x y t :
  insert_stable x (y :: t) = if attr_ltb y x then y :: insert_stable x t else x :: y :: t.
Proof. reflexivity. Qed.

Lemma last_value_insert k x l : sorted l ->
  last_value k (insert_stable x l) = last_value k (x :: l).
Proof.
  induction 1 as [|y|y z l Hyz Hs IH].
  - reflexivity.
  - rewrite insert_stable_cons. cbn [insert_stable]. destruct (attr_ltb y x) eqn:E; [|reflexivity].
    rewrite !last_value_cons'. change (last_value k []) with (@None value).
    destruct (ltb_own k y x E) as [H|H]; rewrite H; destruct (own k x), (own k y); try reflexivity; discriminate.
  - rewrite insert_stable_cons. destruct (attr_ltb y x) eqn:E; [|reflexivity].
    rewrite (last_value_cons' k y). rewrite IH. rewrite !last_value_cons'.
    destruct (last_value k l) as [v|]; [reflexivity|].
    destruct (own k z) as [vz|]; [reflexivity|].
    destruct (ltb_own k y x E) as [H|H]; rewrite H; destruct (own k x), (own k y); try reflexivity; discriminate.
Qed.

Lemma sort_stable_cons x l : sort_stable (x :: l) = insert_stable x (sort_stable l).
Proof. reflexivity. Qed.

Lemma last_value_sort k l : last_value k (sort_stable l) = last_value k l.
Proof.
  induction l as [|x l IH]; [reflexivity|].
  rewrite sort_stable_cons. rewrite last_value_insert by apply sort_sorted.
  rewrite !last_value_cons'. rewrite IH. reflexivity.
Qed.

(* de-duplication never removes the last attribute of a key *)
Lemma same_key_own k x y : attr_same_key x y = true -> (own k x = None <-> own k y = None).
Proof.
  destruct x as [kx vx|], y as [ky vy|]; cbn; intros E; try discriminate; [|tauto].
  apply bytes_eqb_eq in E. subst ky. destruct (bytes_eqb kx k); split; intros H; try reflexivity; discriminate.
Qed.

Lemma last_value_dedupe k l : last_value k (dedupe l) = last_value k l.
Proof.
  induction l as [|x t IH]; [reflexivity|]. cbn [dedupe]. destruct t as [|y t'].
  - reflexivity.
  - destruct (attr_same_key x y) eqn:E.
    + rewrite IH. rewrite (last_value_cons' k x), (last_value_cons' k y).
      destruct (last_value k t') as [v|]; [reflexivity|].
      pose proof (same_key_own k x y E) as [H1 H2].
      destruct (own k y) as [vy|]; [reflexivity|]. rewrite H2 by reflexivity. reflexivity.
    + rewrite (last_value_cons' k x), (last_value_cons' k x (y :: t')). rewrite IH. reflexivity.
Qed.

(* the printed value of every key is the value of its LAST occurrence *)
Lemma last_wins k l : last_value k (sort_dedupe l) = last_value k l.
Proof. unfold sort_dedupe. rewrite last_value_dedupe. apply last_value_sort. Qed.

(* ---- after de-duplication the keys are strictly ascending ---- *)
Inductive strictly : list attr -> Prop :=
| strictly_nil : strictly []
| strictly_one x : strictly [x]
| strictly_cons x y l : attr_ltb x y = true -> strictly (y :: l) -> strictly (x :: y :: l).

Lemma dedupe_cons2 x y t :
  dedupe (x :: y :: t) = if attr_same_key x y then dedupe (y :: t) else x :: dedupe (y :: t).
Proof. reflexivity. Qed.

Lemma dedupe_head x l : exists t, dedupe (x :: l) = t /\
  match t with h :: _ => attr_same_key x h = true | [] => False end.
Proof.
  revert x. induction l as [|y l IH]; intros x.
  - exists [x]. split; [reflexivity|]. destruct x; cbn; [apply bytes_eqb_refl|reflexivity].
  - rewrite dedupe_cons2. destruct (attr_same_key x y) eqn:E.
    + destruct (IH y) as [t [Ht Hh]]. exists t. split; [exact Ht|].
      destruct t as [|h t']; [exact Hh|].
      apply attr_same_key_iff in E. apply attr_same_key_iff in Hh. apply attr_same_key_iff.
      destruct x as [k1 v1|], y as [k2 v2|], h as [k3 v3|]; cbn in *; destruct E, Hh; try discriminate; try (split; reflexivity).
      assert (k1 = k2) by (apply bytes_trichotomy; assumption).
      assert (k2 = k3) by (apply bytes_trichotomy; assumption). subst. rewrite bytes_ltb_irrefl. split; reflexivity.
    + eexists. split; [reflexivity|]. destruct x; cbn; [apply bytes_eqb_refl|reflexivity].
Qed.

Lemma dedupe_strict l : sorted l -> strictly (dedupe l).
Proof.
  induction 1 as [|x|x y l Hxy Hs IH]; [constructor|constructor|].
  rewrite dedupe_cons2. destruct (attr_same_key x y) eqn:E; [exact IH|].
  destruct (dedupe_head y l) as [t [Ht Hh]]. rewrite Ht in *. destruct t as [|h t']; [destruct Hh|].
  constructor; [|exact IH].
  (* x <= y, not same key => x < y; y ~ h => x < h *)
  assert (Lxy : attr_ltb x y = true).
  { destruct (attr_ltb x y) eqn:E2; [reflexivity|]. unfold attr_leb in Hxy. apply negb_true_iff in Hxy.
    assert (attr_same_key x y = true) by (apply attr_same_key_iff; split; assumption). congruence. }
  apply attr_same_key_iff in Hh. destruct Hh as [H1 H2].
  destruct (attr_ltb x h) eqn:E3; [reflexivity|].
  (* h <= x < y and y <= h : contradiction *)
  exfalso. destruct x as [kx vx|], y as [ky vy|], h as [kh vh|]; cbn in *; try discriminate.
  assert (ky = kh) by (apply bytes_trichotomy; assumption). subst kh. congruence.
Qed.

Lemma sort_dedupe_strict l : strictly (sort_dedupe l).
Proof. apply dedupe_strict. apply sort_sorted. Qed.

(* strictly ascending => every key at most once *)
Lemma strictly_head_lt x l : strictly (x :: l) -> forall y, In y l -> attr_ltb x y = true.
Proof.
  revert x. induction l as [|z l IH]; intros x Hs y Hin; [destruct Hin|].
  inversion Hs as [| |x' z' l' Hxz Hs']; subst. destruct Hin as [->|Hin]; [exact Hxz|].
  eapply attr_ltb_trans; [exact Hxz|]. apply IH; assumption.
Qed.

Lemma strictly_nodup l : strictly l -> NoDup (map akey l).
Proof.
  induction l as [|x l IH]; intros Hs; [constructor|]. cbn [map]. constructor.
  - intros Hin. apply in_map_iff in Hin. destruct Hin as [y [Hy Hin]].
    pose proof (strictly_head_lt x l Hs y Hin) as L.
    destruct x as [kx vx|], y as [ky vy|]; cbn in *; try discriminate.
    inversion Hy; subst. rewrite bytes_ltb_irrefl in L. discriminate.
  - apply IH. inversion Hs; subst; [constructor|assumption].
Qed.

(* nothing is invented and no key is lost *)
Lemma dedupe_incl l : forall a, In a (dedupe l) -> In a l.
Proof.
  induction l as [|x t IH]; intros a H; [exact H|]. cbn [dedupe] in H. destruct t as [|y t'].
  - exact H.
  - destruct (attr_same_key x y); [right; apply IH; exact H|].
    destruct H as [->|H]; [left; reflexivity|right; apply IH; exact H].
Qed.

Lemma sort_dedupe_incl l a : In a (sort_dedupe l) -> In a l.
Proof.
  intros H. unfold sort_dedupe in H. apply dedupe_incl in H.
  eapply Permutation_in; [symmetry; apply sort_perm|exact H].
Qed.

Lemma last_value_some_in k l v : last_value k l = Some v -> In (A k v) l.
Proof.
  induction l as [|a l IH]; [discriminate|]. rewrite last_value_cons.
  destruct (last_value k l) as [v'|] eqn:E.
  - intros H. inversion H; subst. right. apply IH. reflexivity.
  - destruct a as [k' v'|]; [|discriminate]. destruct (bytes_eqb k' k) eqn:E2; [|discriminate].
    intros H. inversion H; subst. apply bytes_eqb_eq in E2. subst. left. reflexivity.
Qed.

Lemma in_last_value_some k v l : In (A k v) l -> exists v', last_value k l = Some v'.
Proof.
  induction l as [|a l IH]; intros H; [destruct H|]. rewrite last_value_cons.
  destruct H as [->|H].
  - destruct (last_value k l); [eexists; reflexivity|]. rewrite bytes_eqb_refl. eexists; reflexivity.
  - destruct (IH H) as [v' E]. rewrite E. eexists; reflexivity.
Qed.

(* a key is printed iff some source carries it *)
Lemma keys_preserved k l : (exists v, In (A k v) l) <-> (exists v, In (A k v) (sort_dedupe l)).
Proof.
  split; intros [v H].
  - destruct (in_last_value_some k v l H) as [v' E]. rewrite <- last_wins in E. exists v'. apply last_value_some_in. exact E.
  - exists v. apply sort_dedupe_incl. exact H.
Qed.
