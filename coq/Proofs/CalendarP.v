(* C16, calendar part: the day-number <-> civil-date conversions of Model/TimeFmt.v are
   inverse to each other - for ALL day numbers (no bound) and for all valid dates of the
   proleptic Gregorian calendar (any year, negative ones included) - with the field ranges. *)
Require Import Verif.Model.Base Verif.Model.TimeFmt.
From Coq Require Import Lia ZifyBool.
Ltac Zify.zify_post_hook ::= Z.to_euclidean_division_equations.

Lemma is_leap_spec : forall y, is_leap y = true <-> (y mod 4 = 0 /\ (y mod 100 <> 0 \/ y mod 400 = 0)).
Proof. intros y. unfold is_leap. lia. Qed.

Lemma days_in_month_cases : forall y m, 1 <= m <= 12 ->
  days_in_month y m =
    if m =? 2 then (if is_leap y then 29 else 28)
    else if (m =? 4) || (m =? 6) || (m =? 9) || (m =? 11) then 30 else 31.
Proof. reflexivity. Qed.

Theorem dfc_cfd : forall n, let '(y, m, d) := civil_from_days n in
  days_from_civil y m d = n /\ 1 <= m <= 12 /\ 1 <= d <= days_in_month y m.
Proof.
  intros n. unfold civil_from_days. cbv zeta.
  set (era := (n + 719468) / 146097).
  set (doe := n + 719468 - era * 146097).
  assert (Hdoe : 0 <= doe < 146097) by (subst doe era; lia).
  set (yoe := (doe - doe / 1460 + doe / 36524 - doe / 146096) / 365).
  set (doy := doe - (365 * yoe + yoe / 4 - yoe / 100)).
  assert (Hy : 0 <= yoe <= 399 /\ 0 <= doy <= 365 /\
    (doy = 365 -> (yoe + 1) mod 4 = 0 /\ ((yoe + 1) mod 100 <> 0 \/ yoe = 399))) by (subst doy yoe; lia).
  destruct Hy as (Hyoe & Hdoy & Hleap).
  set (mp := (5 * doy + 2) / 153).
  set (d := doy - (153 * mp + 2) / 5 + 1).
  assert (Hm : 0 <= mp <= 11 /\ 1 <= d <= 31 /\
    (d = 31 -> mp = 0 \/ mp = 2 \/ mp = 4 \/ mp = 5 \/ mp = 7 \/ mp = 9 \/ mp = 10) /\
    (mp = 11 -> d <= 29 /\ (d = 29 -> doy = 365))) by (subst d mp; lia).
  destruct Hm as (Hmp & Hd & H31 & H29).
  assert (Edoy : doy = (153 * mp + 2) / 5 + d - 1) by (subst d; lia).
  assert (Edoe : doe = yoe * 365 + yoe / 4 - yoe / 100 + doy) by (subst doy; lia).
  assert (En : n = era * 146097 + doe - 719468) by (subst doe; lia).
  clearbody era doe yoe doy mp d.
  split; [|split].
  - unfold days_from_civil. cbv zeta.
    destruct (mp <? 10) eqn:E10.
    + assert (E2 : (mp + 3 <=? 2) = false) by lia. rewrite E2.
      assert (E3 : (2 <? mp + 3) = true) by lia. rewrite E3.
      replace ((yoe + era * 400) / 400) with era by lia.
      replace (yoe + era * 400 - era * 400) with yoe by lia.
      replace (mp + 3 - 3) with mp by lia. lia.
    + assert (E2 : (mp - 9 <=? 2) = true) by lia. rewrite E2.
      assert (E3 : (2 <? mp - 9) = false) by lia. rewrite E3.
      replace ((yoe + era * 400 + 1 - 1) / 400) with era by lia.
      replace (yoe + era * 400 + 1 - 1 - era * 400) with yoe by lia.
      replace (mp - 9 + 9) with mp by lia. lia.
  - destruct (mp <? 10) eqn:E10; lia.
  - split; [lia|].
    unfold days_in_month.
    destruct (mp <? 10) eqn:E10.
    + assert (E2 : (mp + 3 <=? 2) = false) by lia. rewrite E2.
      assert (E3 : (mp + 3 =? 2) = false) by lia. rewrite E3.
      destruct ((mp + 3 =? 4) || (mp + 3 =? 6) || (mp + 3 =? 9) || (mp + 3 =? 11)) eqn:E30; lia.
    + assert (E2 : (mp - 9 <=? 2) = true) by lia. rewrite E2.
      destruct (mp - 9 =? 2) eqn:EF.
      * assert (mp = 11) by lia.
        destruct (is_leap (yoe + era * 400 + 1)) eqn:EL; [lia|].
        assert (d <= 28); [|lia].
        destruct (Z.eq_dec d 29) as [E29|]; [|lia].
        exfalso. assert (Hl : is_leap (yoe + era * 400 + 1) = true); [|congruence].
        apply is_leap_spec. specialize (Hleap (proj2 (H29 H) E29)). lia.
      * destruct ((mp - 9 =? 4) || (mp - 9 =? 6) || (mp - 9 =? 9) || (mp - 9 =? 11)) eqn:E30; lia.
Qed.

Theorem cfd_dfc : forall y m d, valid_date y m d = true ->
  civil_from_days (days_from_civil y m d) = (y, m, d).
Proof.
  intros y m d Hv. unfold valid_date in Hv.
  assert (Hm : 1 <= m <= 12) by lia.
  assert (Hd : 1 <= d <= days_in_month y m) by lia. clear Hv.
  unfold days_from_civil. cbv zeta.
  set (y' := if m <=? 2 then y - 1 else y).
  set (era := y' / 400).
  set (yoe := y' - era * 400).
  set (mp := if 2 <? m then m - 3 else m + 9).
  set (doy := (153 * mp + 2) / 5 + d - 1).
  set (doe := yoe * 365 + yoe / 4 - yoe / 100 + doy).
  assert (Hyoe : 0 <= yoe <= 399) by (subst yoe era; lia).
  assert (Hmp : 0 <= mp <= 11) by (subst mp; destruct (2 <? m) eqn:E; lia).
  assert (Em : m = if mp <? 10 then mp + 3 else mp - 9).
  { subst mp. destruct (2 <? m) eqn:E.
    - assert (E' : (m - 3 <? 10) = true) by lia. rewrite E'. lia.
    - assert (E' : (m + 9 <? 10) = false) by lia. rewrite E'. lia. }
  assert (Ey : y = if m <=? 2 then y' + 1 else y') by (subst y'; destruct (m <=? 2); lia).
  (* the day bound, in terms of the month index and the year of the era *)
  assert (Hdim : d <= 31 /\
    (d = 31 -> mp = 0 \/ mp = 2 \/ mp = 4 \/ mp = 5 \/ mp = 7 \/ mp = 9 \/ mp = 10) /\
    (mp = 11 -> d <= 29 /\ (d = 29 -> (yoe + 1) mod 4 = 0 /\ ((yoe + 1) mod 100 <> 0 \/ yoe = 399)))).
  { unfold days_in_month in Hd. destruct (m =? 2) eqn:E2.
    - assert (mp = 11) by (subst mp; destruct (2 <? m) eqn:E; lia).
      assert (Ey' : y = y' + 1) by (rewrite Ey; destruct (m <=? 2) eqn:E; lia).
      destruct (is_leap y) eqn:EL.
      + apply is_leap_spec in EL. subst yoe era. lia.
      + lia.
    - assert (mp <> 11) by (subst mp; destruct (2 <? m) eqn:E; lia).
      destruct ((m =? 4) || (m =? 6) || (m =? 9) || (m =? 11)) eqn:E30;
        subst mp; destruct (2 <? m) eqn:E; lia. }
  destruct Hdim as (Hd31 & H31 & H29).
  assert (Hdoy : 0 <= doy <= 365 /\
     (doy = 365 -> (yoe + 1) mod 4 = 0 /\ ((yoe + 1) mod 100 <> 0 \/ yoe = 399))) by (subst doy; lia).
  destruct Hdoy as (Hdoy & Hleap).
  assert (Hdoe : 0 <= doe < 146097) by (subst doe; lia).
  assert (Hyo : (doe - doe / 1460 + doe / 36524 - doe / 146096) / 365 = yoe) by (subst doe; lia).
  assert (Hmm : (5 * doy + 2) / 153 = mp /\ doy - (153 * mp + 2) / 5 + 1 = d) by (subst doy; lia).
  destruct Hmm as (Hmp' & Hd').
  assert (Edoy : doe - (365 * yoe + yoe / 4 - yoe / 100) = doy) by (subst doe; lia).
  assert (Ey' : yoe + era * 400 = y') by (subst yoe; lia).
  clearbody doe doy mp yoe.
  unfold civil_from_days. cbv zeta.
  replace (era * 146097 + doe - 719468 + 719468) with (doe + era * 146097) by lia.
  replace ((doe + era * 146097) / 146097) with era by lia.
  replace (doe + era * 146097 - era * 146097) with doe by lia.
  rewrite Hyo, Edoy, Hmp', Hd', <- Em.
  rewrite Ey'.
  rewrite <- Ey. reflexivity.
Qed.
