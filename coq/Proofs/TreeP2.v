(* More lemmas about Model/Tree.v (C10): lookup, creation, idempotence of WithSkip,
   isolation over histories, well-formedness of the tree, Root and Each. *)
Require Import Verif.Model.Base Verif.Model.Mode Verif.Model.Writers Verif.Model.Tree.
Require Import Verif.Proofs.ModeP Verif.Proofs.TreeP.

Section WithPool.
Variable is_logwriter : wid -> bool.
Notation step := (step is_logwriter).
Notation run := (run is_logwriter).
Notation apply_set := (apply_set is_logwriter).
Notation apply_sets := (apply_sets is_logwriter).

(* Set* calls never change who a logger is *)
Lemma apply_set_key e g s : e_owner (fst (apply_set e g s)) = e_owner e /\ e_name (fst (apply_set e g s)) = e_name e.
Proof. destruct s; cbn; split; reflexivity. Qed.

Lemma apply_sets_key ss : forall e g,
  e_owner (fst (apply_sets e g ss)) = e_owner e /\ e_name (fst (apply_sets e g ss)) = e_name e.
Proof.
  unfold Tree.apply_sets. induction ss as [|s ss IH]; intros e g; cbn [fold_left]; [split; reflexivity|].
  cbn [fst snd]. destruct (apply_set e g s) as [e1 g1] eqn:E.
  destruct (IH e1 g1) as [H1 H2]. rewrite H1, H2.
  pose proof (apply_set_key e g s) as [K1 K2]. rewrite E in K1, K2. cbn in K1, K2. split; assumption.
Qed.

Lemma fresh_owner w parent name : e_owner (fresh_entry w parent name) = parent.
Proof. unfold fresh_entry. destruct parent as [p|]; [destruct (nth_error (entries w) p)|]; reflexivity. Qed.
Lemma fresh_name w parent name : e_name (fresh_entry w parent name) = name.
Proof. unfold fresh_entry. destruct parent as [p|]; [destruct (nth_error (entries w) p)|]; reflexivity. Qed.

(* ---- New(name): lookup or create ---- *)
Lemma new_returns_existing w p k opts j pe :
  nth_error (entries w) p = Some pe -> find_child w p (NStr k) = Some j ->
  step w (ONew p (Some k) opts) = (w, Some j).
Proof. intros Hp Hf. cbn [Tree.step]. rewrite Hp, Hf. reflexivity. Qed.

Lemma nth_error_snoc {A} (l : list A) x : nth_error (l ++ [x]) (length l) = Some x.
Proof. rewrite nth_error_app2 by lia. rewrite Nat.sub_diag. reflexivity. Qed.

Lemma new_creates w p k opts pe :
  nth_error (entries w) p = Some pe -> find_child w p (NStr k) = None ->
  let '(w', r) := step w (ONew p (Some k) opts) in
  r = Some (length (entries w)) /\
  exists e, nth_error (entries w') (length (entries w)) = Some e /\ e_owner e = Some p /\ e_name e = NStr k /\
            (opts = [] -> e_level e = e_level pe /\ e_mode e = e_mode pe /\ e_attrs e = [] /\ e_writer e = None /\ e_skip e = 0).
Proof.
  intros Hp Hf. cbn [Tree.step]. rewrite Hp, Hf.
  destruct (apply_sets (fresh_entry w (Some p) (NStr k)) (dbg w, trc w) opts) as [e g'] eqn:E.
  split; [reflexivity|]. exists e. cbn [push_entry entries]. split; [apply nth_error_snoc|].
  pose proof (apply_sets_key opts (fresh_entry w (Some p) (NStr k)) (dbg w, trc w)) as [K1 K2].
  rewrite E in K1, K2. cbn [fst] in K1, K2. rewrite fresh_owner in K1. rewrite fresh_name in K2.
  split; [exact K1|]. split; [exact K2|].
  intros ->. cbn in E. inversion E; subst e. unfold fresh_entry. rewrite Hp. cbn. repeat split; reflexivity.
Qed.

(* ---- With...: always a newly created child of the receiver ---- *)
Lemma with_creates w p s pe :
  nth_error (entries w) p = Some pe ->
  let '(w', r) := step w (OWith p s) in
  r = Some (length (entries w)) /\ length (entries w') = S (length (entries w)) /\
  exists e, nth_error (entries w') (length (entries w)) = Some e /\ e_owner e = Some p.
Proof.
  intros Hp. cbn [Tree.step]. rewrite Hp.
  destruct (apply_set (fresh_entry w (Some p) (NAnon (next_anon w))) (dbg w, trc w) s) as [e g'] eqn:E.
  split; [reflexivity|]. cbn [push_entry entries]. split; [rewrite app_length; cbn; lia|].
  exists e. split; [apply nth_error_snoc|].
  pose proof (apply_set_key (fresh_entry w (Some p) (NAnon (next_anon w))) (dbg w, trc w) s) as [K1 _].
  rewrite E in K1. cbn [fst] in K1. rewrite fresh_owner in K1. exact K1.
Qed.

Lemma set_returns_receiver w i s e : nth_error (entries w) i = Some e ->
  snd (step w (OSet i s)) = Some i /\ length (entries (fst (step w (OSet i s)))) = length (entries w).
Proof.
  intros Hi. cbn [Tree.step]. rewrite Hi. destruct (apply_set e (dbg w, trc w) s) as [e' g'].
  cbn [fst snd set_entry entries]. split; [reflexivity|apply replace_nth_length].
Qed.

(* ---- WithSkip(n): one child per n ---- *)
Definition ekey (e : entry) : option nat * lname := (e_owner e, e_name e).

Lemma find_child_from_keys es : forall es' i p n, map ekey es = map ekey es' ->
  find_child_from es i p n = find_child_from es' i p n.
Proof.
  induction es as [|e t IH]; intros [|e' t'] i p n H; cbn in H; try discriminate; [reflexivity|].
  inversion H as [[H1 H2 H3]]. cbn [find_child_from]. rewrite H1, H2. rewrite (IH t' (S i) p n H3). reflexivity.
Qed.

Lemma map_replace_same_key n : forall (l : list entry) x e,
  nth_error l n = Some e -> ekey x = ekey e -> map ekey (replace_nth n l x) = map ekey l.
Proof.
  induction n as [|n IH]; intros [|h t] x e Hn Hk; cbn in *; try discriminate.
  - inversion Hn; subst. rewrite Hk. reflexivity.
  - f_equal. eapply IH; eassumption.
Qed.

Lemma find_child_from_none_app es : forall i p n x, find_child_from es i p n = None ->
  find_child_from (es ++ [x]) i p n = find_child_from [x] (i + length es) p n.
Proof.
  induction es as [|e t IH]; intros i p n x H; cbn [app length].
  - rewrite Nat.add_0_r. reflexivity.
  - cbn [find_child_from] in *.
    destruct ((match e_owner e with Some q => Nat.eqb q p | None => false end) && lname_eqb (e_name e) n); [discriminate|].
    rewrite (IH (S i) p n x H). replace (i + S (length t))%nat with (S i + length t)%nat by lia. reflexivity.
Qed.

Lemma lname_eqb_refl n : lname_eqb n n = true.
Proof.
  induction n as [|k|k|q IH m]; cbn; auto using Z.eqb_refl, Nat.eqb_refl.
  rewrite IH, Z.eqb_refl. reflexivity.
Qed.

Lemma nth_error_replace_key n : forall (l : list entry) x e p pe, nth_error l n = Some e -> ekey x = ekey e ->
  nth_error l p = Some pe -> exists pe', nth_error (replace_nth n l x) p = Some pe' /\ e_name pe' = e_name pe.
Proof.
  intros l x e p pe Hn Hk Hp. destruct (Nat.eq_dec p n) as [->|Hne].
  - rewrite nth_error_replace_same by (apply nth_error_Some; congruence). exists x. split; [reflexivity|].
    rewrite Hn in Hp. inversion Hp; subst. unfold ekey in Hk. congruence.
  - rewrite nth_error_replace_other by exact Hne. exists pe. split; [exact Hp|reflexivity].
Qed.

Lemma with_skip_idempotent w p n pe : nth_error (entries w) p = Some pe ->
  let w1 := fst (step w (OWithSkip p n)) in
  snd (step w1 (OWithSkip p n)) = snd (step w (OWithSkip p n))
  /\ length (entries (fst (step w1 (OWithSkip p n)))) = length (entries w1).
Proof.
  intros Hp. cbn zeta.
  destruct (step w (OWithSkip p n)) as [w1 r1] eqn:S1. cbn [fst snd].
  cbn [Tree.step] in S1. rewrite Hp in S1.
  destruct (find_child w p (NSkip (e_name pe) n)) as [j|] eqn:F.
  - destruct (nth_error (entries w) j) as [ej|] eqn:Ej.
    + inversion S1; subst w1 r1; clear S1. cbn [Tree.step].
      replace (entries (set_entry w j (with_skip ej n) (dbg w, trc w))) with (replace_nth j (entries w) (with_skip ej n)) by reflexivity.
      destruct (nth_error_replace_key j (entries w) (with_skip ej n) ej p pe Ej eq_refl Hp) as [pe' [Hp' Hn']].
      rewrite Hp', Hn'.
      assert (F' : find_child (set_entry w j (with_skip ej n) (dbg w, trc w)) p (NSkip (e_name pe) n) = Some j).
      { unfold find_child, set_entry in *. cbn [entries]. rewrite <- F. apply find_child_from_keys.
        eapply map_replace_same_key; [exact Ej|reflexivity]. }
      rewrite F'.
      rewrite nth_error_replace_same by (apply nth_error_Some; congruence).
      cbn [fst snd set_entry entries]. split; [reflexivity|]. rewrite !replace_nth_length. reflexivity.
    + inversion S1; subst w1 r1; clear S1. cbn [Tree.step]. rewrite Hp, F, Ej. cbn [fst snd]. split; reflexivity.
  - inversion S1; subst w1 r1; clear S1. cbn [Tree.step].
    set (ne := with_skip (fresh_entry w (Some p) (NSkip (e_name pe) n)) n).
    replace (entries (push_entry w ne (dbg w, trc w) false)) with (entries w ++ [ne]) by reflexivity.
    rewrite (nth_error_app1 (entries w) _ (proj1 (nth_error_Some (entries w) p) ltac:(congruence))). rewrite Hp.
    assert (F' : find_child (push_entry w ne (dbg w, trc w) false) p (NSkip (e_name pe) n) = Some (length (entries w))).
    { unfold find_child, push_entry in *. cbn [entries]. rewrite find_child_from_none_app by exact F.
      subst ne. cbn [find_child_from with_skip e_owner e_name]. rewrite fresh_owner, fresh_name.
      rewrite Nat.eqb_refl, lname_eqb_refl. cbn [andb]. f_equal. }
    rewrite F'. rewrite nth_error_snoc. cbn [fst snd set_entry entries].
    split; [reflexivity|]. rewrite replace_nth_length. reflexivity.
Qed.

(* ---- isolation over whole histories ---- *)
Fixpoint untouched (w : world) (ops : list op) (j : nat) : Prop :=
  match ops with
  | [] => True
  | o :: t => touched w o <> Some j /\ untouched (fst (step w o)) t j
  end.

Lemma step_length_ge w o : (length (entries w) <= length (entries (fst (step w o))))%nat.
Proof. destruct (step_length is_logwriter w o) as [H|H]; rewrite H; lia. Qed.

Lemma run_isolation ops : forall w j, (j < length (entries w))%nat -> untouched w ops j ->
  nth_error (entries (run w ops)) j = nth_error (entries w) j.
Proof.
  unfold Tree.run. induction ops as [|o ops IH]; intros w j Hj Hu; cbn [fold_left]; [reflexivity|].
  destruct Hu as [H1 H2]. rewrite IH.
  - apply step_isolation; assumption.
  - pose proof (step_length_ge w o). lia.
  - exact H2.
Qed.

(* ---- the tree is well formed: a parent is always older than its child ---- *)
Definition owners_lt (w : world) : Prop :=
  forall i e p, nth_error (entries w) i = Some e -> e_owner e = Some p -> (p < i)%nat.

Lemma owners_lt_snoc w e g b : owners_lt w ->
  (forall p, e_owner e = Some p -> (p < length (entries w))%nat) -> owners_lt (push_entry w e g b).
Proof.
  intros Hw He i e' p Hi Ho. cbn [push_entry entries] in Hi.
  destruct (Nat.lt_ge_cases i (length (entries w))) as [Hlt|Hge].
  - rewrite nth_error_app1 in Hi by exact Hlt. eapply Hw; eassumption.
  - rewrite nth_error_app2 in Hi by exact Hge. destruct (i - length (entries w))%nat as [|k] eqn:Ek.
    + cbn in Hi. inversion Hi; subst e'. specialize (He p Ho). lia.
    + cbn in Hi. destruct k; discriminate.
Qed.

Lemma owners_lt_replace w j x e g : owners_lt w -> nth_error (entries w) j = Some e -> e_owner x = e_owner e ->
  owners_lt (set_entry w j x g).
Proof.
  intros Hw Hj Ho i e' p Hi Hp. cbn [set_entry entries] in Hi. destruct (Nat.eq_dec i j) as [->|Hne].
  - rewrite nth_error_replace_same in Hi by (apply nth_error_Some; congruence). inversion Hi; subst e'.
    rewrite Ho in Hp. eapply Hw; eassumption.
  - rewrite nth_error_replace_other in Hi by exact Hne. eapply Hw; eassumption.
Qed.

Lemma step_owners_lt w o : owners_lt w -> owners_lt (fst (step w o)).
Proof.
  intros Hw. destruct o as [name opts|p name opts|p s|p n|i s|i n|i|l]; cbn [Tree.step].
  - destruct (apply_sets _ _ opts) as [e g'] eqn:E. cbn [fst]. apply owners_lt_snoc; [exact Hw|].
    intros q Hq. pose proof (apply_sets_key opts (fresh_entry w None (match name with Some k => NStr k | None => NEmpty end)) (dbg w, trc w)) as [K _].
    rewrite E in K. cbn [fst] in K. rewrite K, fresh_owner in Hq. discriminate.
  - destruct (nth_error (entries w) p) as [pe0|] eqn:Hp; [|exact Hw]. destruct name as [k|].
    + destruct (find_child w p (NStr k)); [exact Hw|].
      destruct (apply_sets _ _ opts) as [e g'] eqn:E. cbn [fst]. apply owners_lt_snoc; [exact Hw|].
      intros q Hq. pose proof (apply_sets_key opts (fresh_entry w (Some p) (NStr k)) (dbg w, trc w)) as [K _].
      rewrite E in K. cbn [fst] in K. rewrite K, fresh_owner in Hq. inversion Hq; subst q.
      apply nth_error_Some. congruence.
    + destruct (apply_sets _ _ opts) as [e g'] eqn:E. cbn [fst]. apply owners_lt_snoc; [exact Hw|].
      intros q Hq. pose proof (apply_sets_key opts (fresh_entry w (Some p) (NAnon (next_anon w))) (dbg w, trc w)) as [K _].
      rewrite E in K. cbn [fst] in K. rewrite K, fresh_owner in Hq. inversion Hq; subst q.
      apply nth_error_Some. congruence.
  - destruct (nth_error (entries w) p) as [pe0|] eqn:Hp; [|exact Hw].
    destruct (apply_set _ _ s) as [e g'] eqn:E. cbn [fst]. apply owners_lt_snoc; [exact Hw|].
    intros q Hq. pose proof (apply_set_key (fresh_entry w (Some p) (NAnon (next_anon w))) (dbg w, trc w) s) as [K _].
    rewrite E in K. cbn [fst] in K. rewrite K, fresh_owner in Hq. inversion Hq; subst q.
    apply nth_error_Some. congruence.
  - destruct (nth_error (entries w) p) as [pe|] eqn:Hp; [|exact Hw].
    destruct (find_child w p (NSkip (e_name pe) n)) as [c|].
    + destruct (nth_error (entries w) c) as [ec|] eqn:Ec; [|exact Hw]. cbn [fst].
      eapply owners_lt_replace; [exact Hw|exact Ec|reflexivity].
    + cbn [fst]. apply owners_lt_snoc; [exact Hw|]. intros q Hq. cbn [with_skip e_owner] in Hq.
      rewrite fresh_owner in Hq. inversion Hq; subst q. apply nth_error_Some. congruence.
  - destruct (nth_error (entries w) i) as [e|] eqn:Hi; [|exact Hw].
    destruct (apply_set e _ s) as [e' g'] eqn:E. cbn [fst].
    eapply owners_lt_replace; [exact Hw|exact Hi|].
    pose proof (apply_set_key e (dbg w, trc w) s) as [K _]. rewrite E in K. exact K.
  - destruct (nth_error (entries w) i) as [e|] eqn:Hi; [|exact Hw]. cbn [fst].
    eapply owners_lt_replace; [exact Hw|exact Hi|reflexivity].
  - destruct (nth_error (entries w) i) as [e|] eqn:Hi; [|exact Hw]. cbn [fst].
    eapply owners_lt_replace; [exact Hw|exact Hi|reflexivity].
  - destruct (nth_error (entries w) 0) as [e|] eqn:Hi; [|exact Hw].
    destruct (apply_set e _ (SLevel l)) as [e' g'] eqn:E. cbn [fst].
    intros i e0 q Hi0 Hq. cbn [entries] in Hi0.
    pose proof (apply_set_key e (dbg w, trc w) (SLevel l)) as [K _]. rewrite E in K. cbn [fst] in K.
    destruct (Nat.eq_dec i 0) as [->|Hne].
    + rewrite nth_error_replace_same in Hi0 by (apply nth_error_Some; congruence). inversion Hi0; subst e0.
      rewrite K in Hq. eapply Hw; eassumption.
    + rewrite nth_error_replace_other in Hi0 by exact Hne. eapply Hw; eassumption.
Qed.

Lemma run_owners_lt ops : forall w, owners_lt w -> owners_lt (run w ops).
Proof.
  unfold Tree.run. induction ops as [|o ops IH]; intros w Hw; cbn [fold_left]; [exact Hw|].
  apply IH. apply step_owners_lt. exact Hw.
Qed.

Lemma init_owners_lt l d t : owners_lt (init_world l d t).
Proof. intros i e p Hi Hp. destruct i as [|[|i]]; cbn in Hi; try discriminate. inversion Hi; subst e. discriminate. Qed.

(* Root() is the parentless ancestor *)
Lemma root_from_parentless w : owners_lt w -> forall fuel i, (i < fuel)%nat ->
  parent_of w (root_from w fuel i) = None.
Proof.
  intros Hw. induction fuel as [|f IH]; intros i Hi; [lia|]. cbn [root_from].
  destruct (parent_of w i) as [p|] eqn:E; [|exact E].
  apply IH. unfold parent_of in E. destruct (nth_error (entries w) i) as [e|] eqn:Ei; [|discriminate].
  specialize (Hw i e p Ei E). lia.
Qed.

Lemma root_parentless w i : owners_lt w -> (i < length (entries w))%nat -> parent_of w (root_of w i) = None.
Proof. intros Hw Hi. apply root_from_parentless; assumption. Qed.

(* Each: every logger appears at most once, and exactly the subtree appears, each at its depth *)
Lemma each_spec w top i d : In (i, d) (each w top) <->
  (i < length (entries w))%nat /\ depth_under w top i = Some d.
Proof.
  unfold each. rewrite in_flat_map. split.
  - intros [k [Hk Hin]]. apply in_seq in Hk. destruct (depth_under w top k) as [d'|] eqn:E; [|destruct Hin].
    destruct Hin as [Hin|[]]. inversion Hin; subst. split; [lia|exact E].
  - intros [Hi Hd]. exists i. split; [apply in_seq; lia|]. rewrite Hd. left. reflexivity.
Qed.

Lemma each_nodup w top : NoDup (map fst (each w top)).
Proof.
  unfold each. generalize (seq_NoDup (length (entries w)) 0). generalize (seq 0 (length (entries w))).
  induction l as [|k t IH]; intros Hnd; cbn [flat_map map]; [constructor|].
  inversion Hnd as [|k' t' Hk Ht]; subst. rewrite map_app. destruct (depth_under w top k) as [d|]; cbn [map app].
  - constructor; [|apply IH; exact Ht]. intros Hin. apply in_map_iff in Hin. destruct Hin as [[i d'] [Hfst Hin]].
    cbn in Hfst. subst i. apply in_flat_map in Hin. destruct Hin as [j [Hj Hin]].
    destruct (depth_under w top j); [|destruct Hin]. destruct Hin as [Hin|[]]. inversion Hin; subst. contradiction.
  - apply IH; exact Ht.
Qed.

(* package-level New: detached, coloured, at the package's current default level *)
Lemma pkg_new w name :
  let '(w', r) := step w (ONewPkg name []) in
  r = Some (length (entries w)) /\
  exists e, nth_error (entries w') (length (entries w)) = Some e /\ e_owner e = None /\
            e_mode e = {| useJSON := false; useColor := true |} /\ e_level e = deflevel w.
Proof.
  cbn [Tree.step Tree.apply_sets fold_left]. split; [reflexivity|].
  eexists. cbn [push_entry entries]. split; [apply nth_error_snoc|]. cbn. repeat split; reflexivity.
Qed.

End WithPool.
