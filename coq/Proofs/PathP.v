(* Lemmas about Model/Path.v (C18). *)
Require Import Verif.Model.Base Verif.Model.Path.
From Coq Require Import Permutation.

(* ---------- bytes ---------- *)
Lemma byte_eqb_true a b : byte_eqb a b = true -> a = b.
Proof. unfold byte_eqb. apply Byte.byte_dec_bl. Qed.

Lemma byte_eqb_refl a : byte_eqb a a = true.
Proof. unfold byte_eqb. apply Byte.byte_dec_lb. reflexivity. Qed.

Lemma byte_eqb_sym a b : byte_eqb a b = byte_eqb b a.
Proof.
  destruct (byte_eqb a b) eqn:Hab.
  - apply byte_eqb_true in Hab. subst b. symmetry. apply byte_eqb_refl.
  - destruct (byte_eqb b a) eqn:Hba; [|reflexivity].
    apply byte_eqb_true in Hba. subst b. rewrite byte_eqb_refl in Hab. discriminate.
Qed.

Lemma bytes_eqb_eq a b : bytes_eqb a b = true <-> a = b.
Proof.
  unfold bytes_eqb. revert b. induction a as [|x a IH]; intros [|y b]; cbn [list_eqb].
  - split; reflexivity.
  - split; discriminate.
  - split; discriminate.
  - rewrite andb_true_iff, IH. split.
    + intros [Hxy Hab]. apply byte_eqb_true in Hxy. subst. reflexivity.
    + intros Heq. injection Heq as Hx Ha. subst. split; [apply byte_eqb_refl|reflexivity].
Qed.

(* ---------- prefixes ---------- *)
Lemma has_prefix_cons s b p :
  has_prefix s (b :: p) = match s with [] => false | c :: s' => byte_eqb b c && has_prefix s' p end.
Proof. destruct s; reflexivity. Qed.

Lemma has_prefix_length s p : has_prefix s p = true -> (length p <= length s)%nat.
Proof.
  revert s. induction p as [|b p IH]; intros s Hp.
  - cbn [length]. lia.
  - rewrite has_prefix_cons in Hp. destruct s as [|c s']; [discriminate|].
    apply andb_true_iff in Hp. destruct Hp as [_ Hp]. apply IH in Hp. cbn [length]. lia.
Qed.

Lemma under_has_prefix s k : under s k = true -> has_prefix s k = true.
Proof.
  unfold under. destruct k as [|b k']; [discriminate|].
  intros Hu. apply andb_true_iff in Hu. exact (proj1 Hu).
Qed.

Lemma abs_rel_no_prefix p k : is_abs k = true -> rel_nonempty p = true -> has_prefix p k = false.
Proof.
  destruct k as [|b k']; [discriminate|]. destruct p as [|c p']; [discriminate|].
  unfold is_abs, rel_nonempty. intros Hb Hc. apply byte_eqb_true in Hb. subst b.
  rewrite has_prefix_cons. rewrite byte_eqb_sym.
  destruct (byte_eqb c slash); [discriminate|reflexivity].
Qed.

Lemma rel_nonempty_not_abs p : rel_nonempty p = true -> is_abs p = false.
Proof.
  destruct p as [|c p']; [reflexivity|]. unfold rel_nonempty, is_abs.
  destruct (byte_eqb c slash); [discriminate|reflexivity].
Qed.

Lemma app_rel_nonempty v t : rel_nonempty v = true -> rel_nonempty (v ++ t) = true.
Proof. destruct v as [|c v']; [discriminate|]. intros Hv. exact Hv. Qed.

Lemma hit_has_prefix fx s k : hit fx s k = true -> has_prefix s k = true.
Proof. destruct fx; unfold hit; [apply under_has_prefix|trivial]. Qed.

Lemma under_hit fx s k : under s k = true -> hit fx s k = true.
Proof. destruct fx; unfold hit; [trivial|apply under_has_prefix]. Qed.

(* ---------- ReplaceAll ---------- *)
Lemma replace_all_head s k v :
  is_abs k = true -> has_prefix s k = true -> exists t, replace_all s k v = v ++ t.
Proof.
  destruct k as [|b k']; [discriminate|]. intros _ Hp.
  destruct s as [|c s']; [discriminate|].
  unfold replace_all. cbn [replace_all_aux]. rewrite Hp. eexists. reflexivity.
Qed.

(* ---------- one round of the loop ---------- *)
Lemma step_unfold fx p kv :
  step fx p kv = if hit fx p (fst kv) then subst1 fx p (fst kv) (snd kv) else p.
Proof. destruct fx; reflexivity. Qed.

Lemma subst1_rel fx p k v :
  is_abs k = true -> rel_nonempty v = true -> hit fx p k = true ->
  rel_nonempty (subst1 fx p k v) = true.
Proof.
  intros Hk Hv Hh. destruct fx; unfold subst1.
  - apply app_rel_nonempty. exact Hv.
  - unfold hit in Hh. destruct (replace_all_head p k v Hk Hh) as [t Ht]. rewrite Ht.
    apply app_rel_nonempty. exact Hv.
Qed.

Lemma step_rel fx p kv : is_abs (fst kv) = true -> rel_nonempty p = true -> step fx p kv = p.
Proof.
  intros Hk Hp. rewrite step_unfold.
  destruct (hit fx p (fst kv)) eqn:Hh; [|reflexivity].
  apply hit_has_prefix in Hh. rewrite (abs_rel_no_prefix p (fst kv) Hk Hp) in Hh. discriminate.
Qed.

Lemma loop_rel fx tbl p :
  keys_abs tbl = true -> rel_nonempty p = true -> fold_left (step fx) tbl p = p.
Proof.
  unfold keys_abs. revert p. induction tbl as [|a l IH]; intros p Hk Hp; [reflexivity|].
  cbn [forallb] in Hk. apply andb_true_iff in Hk. destruct Hk as [Ha Hl].
  cbn [fold_left]. rewrite (step_rel fx p a Ha Hp). apply IH; assumption.
Qed.

Lemma loop_miss fx tbl file :
  (forall kv, In kv tbl -> hit fx file (fst kv) = false) -> fold_left (step fx) tbl file = file.
Proof.
  induction tbl as [|a l IH]; intros Hm; [reflexivity|].
  cbn [fold_left]. rewrite step_unfold. rewrite (Hm a (or_introl eq_refl)).
  apply IH. intros kv Hin. apply Hm. right. exact Hin.
Qed.

(* the shape of the loop's result: untouched, or exactly one round fired *)
Lemma loop_form fx tbl file :
  keys_abs tbl = true -> repls_rel tbl = true ->
  (fold_left (step fx) tbl file = file /\ forall kv, In kv tbl -> hit fx file (fst kv) = false)
  \/ (exists k v, In (k, v) tbl /\ hit fx file k = true
                  /\ fold_left (step fx) tbl file = subst1 fx file k v).
Proof.
  unfold keys_abs, repls_rel. induction tbl as [|a l IH]; intros Hk Hv.
  - left. split; [reflexivity|]. intros kv [].
  - cbn [forallb] in Hk, Hv. apply andb_true_iff in Hk. apply andb_true_iff in Hv.
    destruct Hk as [Hka Hkl]. destruct Hv as [Hva Hvl].
    cbn [fold_left]. rewrite step_unfold. destruct (hit fx file (fst a)) eqn:Hh.
    + right. exists (fst a), (snd a). split; [left; destruct a; reflexivity|]. split; [exact Hh|].
      apply loop_rel; [exact Hkl|]. apply subst1_rel; assumption.
    + destruct (IH Hkl Hvl) as [[Heq Hm]|[k [v [Hin [Hhk Heq]]]]].
      * left. split; [exact Heq|]. intros kv [Hkv|Hkv]; [subst kv; exact Hh|apply Hm; exact Hkv].
      * right. exists k, v. split; [right; exact Hin|]. split; assumption.
Qed.

Lemma loop_hit fx tbl file k v :
  keys_abs tbl = true -> repls_rel tbl = true -> In (k, v) tbl -> under file k = true ->
  rel_nonempty (fold_left (step fx) tbl file) = true.
Proof.
  intros Hk Hv Hin Hu.
  destruct (loop_form fx tbl file Hk Hv) as [[_ Hm]|[k' [v' [Hin' [Hh Heq]]]]].
  - specialize (Hm (k, v) Hin). cbn [fst] in Hm. rewrite (under_hit fx file k Hu) in Hm. discriminate.
  - rewrite Heq. unfold keys_abs, repls_rel in Hk, Hv. rewrite forallb_forall in Hk, Hv.
    apply subst1_rel; [exact (Hk (k', v') Hin')|exact (Hv (k', v') Hin')|exact Hh].
Qed.

(* ---------- regexps and the /Volumes/ rule ---------- *)
Lemma rx_loop_rel rxs file p :
  (forall r, In r rxs -> rx_keeps_rel r) -> rel_nonempty p = true ->
  rel_nonempty (rx_loop rxs file p) = true.
Proof.
  unfold rx_loop. revert p. induction rxs as [|r l IH]; intros p Hr Hp; [exact Hp|].
  cbn [fold_left]. apply IH.
  - intros r' Hin. apply Hr. right. exact Hin.
  - destruct (rx_matches r file); [|exact Hp]. apply (Hr r (or_introl eq_refl)). exact Hp.
Qed.

Lemma rx_loop_nomatch rxs file p :
  (forall r, In r rxs -> rx_matches r file = false) -> rx_loop rxs file p = p.
Proof.
  unfold rx_loop. revert p. induction rxs as [|r l IH]; intros p Hr; [reflexivity|].
  cbn [fold_left]. rewrite (Hr r (or_introl eq_refl)). apply IH.
  intros r' Hin. apply Hr. right. exact Hin.
Qed.

Lemma volumes_abs : is_abs volumes = true.
Proof. reflexivity. Qed.

Lemma volumes_rule_rel p : rel_nonempty p = true -> volumes_rule p = Some p.
Proof.
  intros Hp. unfold volumes_rule. rewrite (abs_rel_no_prefix p volumes volumes_abs Hp). reflexivity.
Qed.

Lemma index_byte_lt c s n : index_byte c s = Some n -> (n < length s)%nat.
Proof.
  revert n. induction s as [|d s' IH]; intros n Hi; [discriminate|].
  cbn [index_byte] in Hi. destruct (byte_eqb d c).
  - injection Hi as Hn. subst n. cbn [length]. lia.
  - destruct (index_byte c s') as [m|]; [|discriminate].
    injection Hi as Hn. subst n. specialize (IH m eq_refl). cbn [length]. lia.
Qed.

(* the two slice expressions of the /Volumes/ branch are in range *)
Lemma volumes_rule_total p : volumes_rule p <> None.
Proof.
  unfold volumes_rule. destruct (has_prefix p volumes) eqn:Hp; [|discriminate].
  apply has_prefix_length in Hp. change (length volumes) with 9%nat in Hp.
  unfold slice_from. destruct (Nat.leb_spec 9 (length p)) as [Hle|Hgt]; [|lia].
  destruct (index_byte slash (skipn 9 p)) as [pos|] eqn:Hi; [|discriminate].
  apply index_byte_lt in Hi. rewrite skipn_length in Hi.
  destruct (Nat.leb_spec (9 + pos) (length p)) as [Hle2|Hgt2]; [discriminate|lia].
Qed.

(* the built-in regexp keeps a relative text relative *)
Lemma volumes_rx_keeps_rel : rx_keeps_rel volumes_rx.
Proof.
  unfold rx_keeps_rel, volumes_rx. cbn [rx_replace]. intros s Hs.
  destruct s as [|c s']; [discriminate|]. cbn [vol_replace_aux].
  unfold vol_match_here. rewrite (abs_rel_no_prefix (c :: s') volumes volumes_abs Hs). exact Hs.
Qed.

(* ---------- checkpath ---------- *)
Section WithRel.
  Variable rel : bytes -> bytes -> bytes.

  Lemma checkpath_total fx privacy rxflag table rxs cwd file :
    checkpath rel fx privacy rxflag table rxs cwd file <> None.
  Proof.
    unfold checkpath. destruct privacy.
    - destruct rxflag.
      + destruct (is_abs _); [destruct (_ && _)|]; discriminate.
      + destruct (volumes_rule (prefix_loop fx table file)) as [priv|] eqn:Hv.
        * destruct (is_abs priv); [destruct (_ && _)|]; discriminate.
        * exfalso. exact (volumes_rule_total _ Hv).
    - destruct (is_abs file); [destruct (_ && _)|]; discriminate.
  Qed.

  Lemma tail_spec cwd file r :
    (if is_abs file then
       if (0 <? length (rel cwd file))%nat && (length (rel cwd file) <? length file)%nat
       then Some (rel cwd file) else Some file
     else Some file) = Some r -> tail_ok rel cwd file r.
  Proof.
    unfold tail_ok. destruct (is_abs file) eqn:Ha.
    - destruct ((0 <? length (rel cwd file))%nat && (length (rel cwd file) <? length file)%nat) eqn:Hc.
      + intros Hr. injection Hr as Hr. subst r. right.
        apply andb_true_iff in Hc. destruct Hc as [H0 H1].
        apply Nat.ltb_lt in H0. apply Nat.ltb_lt in H1. repeat split; assumption.
      + intros Hr. injection Hr as Hr. left. symmetry. exact Hr.
    - intros Hr. injection Hr as Hr. left. symmetry. exact Hr.
  Qed.

  Lemma checkpath_rel_priv fx rxflag table rxs cwd file :
    rel_nonempty (prefix_loop fx table file) = true ->
    (forall r, In r rxs -> rx_keeps_rel r) ->
    exists r, checkpath rel fx true rxflag table rxs cwd file = Some r /\ rel_nonempty r = true
              /\ (rxflag = false -> r = prefix_loop fx table file)
              /\ ((forall x, In x rxs -> rx_matches x file = false) -> r = prefix_loop fx table file).
  Proof.
    intros Hp Hrx. unfold checkpath. destruct rxflag.
    - pose proof (rx_loop_rel rxs file _ Hrx Hp) as Hq.
      rewrite (rel_nonempty_not_abs _ Hq). eexists. split; [reflexivity|]. split; [exact Hq|].
      split; [discriminate|]. intros Hn. apply rx_loop_nomatch. exact Hn.
    - rewrite (volumes_rule_rel _ Hp). rewrite (rel_nonempty_not_abs _ Hp).
      eexists. split; [reflexivity|]. split; [exact Hp|]. split; reflexivity.
  Qed.

  Lemma perm_forallb {A} (f : A -> bool) l l' : Permutation l l' -> forallb f l = true -> forallb f l' = true.
  Proof.
    intros Hperm Hf. rewrite forallb_forall in *. intros x Hx. apply Hf.
    apply (Permutation_in x (Permutation_sym Hperm)). exact Hx.
  Qed.

  (* P1 *)
  Lemma no_prefix fx rxflag table table' rxs cwd file k v r :
    Permutation table table' ->
    keys_abs table = true -> repls_rel table = true ->
    (forall x, In x rxs -> rx_keeps_rel x) ->
    In (k, v) table -> under file k = true ->
    checkpath rel fx true rxflag table' rxs cwd file = Some r ->
    has_prefix r k = false /\ under r k = false /\ is_abs r = false.
  Proof.
    intros Hperm Hk Hv Hrx Hin Hu Hc.
    pose proof (perm_forallb _ _ _ Hperm Hk) as Hk'. pose proof (perm_forallb _ _ _ Hperm Hv) as Hv'.
    pose proof (Permutation_in _ Hperm Hin) as Hin'.
    pose proof (loop_hit fx table' file k v Hk' Hv' Hin' Hu) as Hp.
    destruct (checkpath_rel_priv fx rxflag table' rxs cwd file Hp Hrx) as [r' [Hr' [Hrel _]]].
    rewrite Hr' in Hc. injection Hc as Hc. subst r'.
    assert (Hka : is_abs k = true).
    { unfold keys_abs in Hk. rewrite forallb_forall in Hk. exact (Hk (k, v) Hin). }
    pose proof (abs_rel_no_prefix r k Hka Hrel) as Hnp.
    split; [exact Hnp|]. split; [|apply rel_nonempty_not_abs; exact Hrel].
    destruct (under r k) eqn:Hur; [|reflexivity]. apply under_has_prefix in Hur.
    rewrite Hnp in Hur. discriminate.
  Qed.

  (* the prefix is replaced by its short form (generic in the variant) *)
  Lemma short_form fx rxflag table table' rxs cwd file r :
    Permutation table table' ->
    keys_abs table = true -> repls_rel table = true ->
    (rxflag = true -> forall x, In x rxs -> rx_matches x file = false) ->
    (exists kv, In kv table /\ hit fx file (fst kv) = true) ->
    checkpath rel fx true rxflag table' rxs cwd file = Some r ->
    exists k v, In (k, v) table /\ hit fx file k = true /\ r = subst1 fx file k v.
  Proof.
    intros Hperm Hk Hv Hrx [kv [Hin Hh]] Hc.
    pose proof (perm_forallb _ _ _ Hperm Hk) as Hk'. pose proof (perm_forallb _ _ _ Hperm Hv) as Hv'.
    pose proof (Permutation_in _ Hperm Hin) as Hin'.
    destruct (loop_form fx table' file Hk' Hv') as [[_ Hm]|[k [v [Hkv [Hhk Heq]]]]].
    { rewrite (Hm kv Hin') in Hh. discriminate. }
    assert (Hp : rel_nonempty (prefix_loop fx table' file) = true).
    { unfold prefix_loop. rewrite Heq. unfold keys_abs, repls_rel in Hk', Hv'.
      rewrite forallb_forall in Hk', Hv'.
      apply subst1_rel; [exact (Hk' (k, v) Hkv)|exact (Hv' (k, v) Hkv)|exact Hhk]. }
    exists k, v. split; [exact (Permutation_in _ (Permutation_sym Hperm) Hkv)|]. split; [exact Hhk|].
    destruct rxflag.
    - (* the regexps do not match the file: identity; they trivially keep relative texts *)
      unfold checkpath in Hc. rewrite (rx_loop_nomatch rxs file _ (Hrx eq_refl)) in Hc.
      rewrite (rel_nonempty_not_abs _ Hp) in Hc. injection Hc as Hc. subst r. exact Heq.
    - unfold checkpath in Hc. rewrite (volumes_rule_rel _ Hp) in Hc.
      rewrite (rel_nonempty_not_abs _ Hp) in Hc. injection Hc as Hc. subst r. exact Heq.
  Qed.

  (* P2, generic in the variant: no round of the loop fires *)
  Lemma outside fx rxflag table table' rxs cwd file r :
    Permutation table table' ->
    (forall kv, In kv table -> hit fx file (fst kv) = false) ->
    (rxflag = true -> forall x, In x rxs -> rx_matches x file = false) ->
    (rxflag = false -> has_prefix file volumes = false) ->
    checkpath rel fx true rxflag table' rxs cwd file = Some r ->
    tail_ok rel cwd file r.
  Proof.
    intros Hperm Hm Hrx Hvol Hc.
    assert (Hl : prefix_loop fx table' file = file).
    { apply loop_miss. intros kv Hin. apply Hm. exact (Permutation_in _ (Permutation_sym Hperm) Hin). }
    unfold checkpath in Hc. rewrite Hl in Hc. destruct rxflag.
    - rewrite (rx_loop_nomatch rxs file file (Hrx eq_refl)) in Hc. apply tail_spec. exact Hc.
    - unfold volumes_rule in Hc. rewrite (Hvol eq_refl) in Hc. apply tail_spec. exact Hc.
  Qed.

  Lemma flag_off fx rxflag table rxs cwd file r :
    checkpath rel fx false rxflag table rxs cwd file = Some r -> tail_ok rel cwd file r.
  Proof. unfold checkpath. apply tail_spec. Qed.
End WithRel.

(* ---------- the table operations ---------- *)
Lemma tbl_remove_spec t k k' v' : In (k', v') (tbl_remove t k) <-> k' <> k /\ In (k', v') t.
Proof.
  unfold tbl_remove. rewrite filter_In. cbn [fst]. split.
  - intros [Hin Hne]. split; [|exact Hin]. intros Heq. subst k'.
    rewrite (proj2 (bytes_eqb_eq k k) eq_refl) in Hne. discriminate.
  - intros [Hne Hin]. split; [exact Hin|].
    destruct (bytes_eqb k' k) eqn:He; [|reflexivity]. apply bytes_eqb_eq in He. contradiction.
Qed.

Lemma tbl_add_spec t k v k' v' :
  In (k', v') (tbl_add t k v) <-> (k' = k /\ v' = v) \/ (k' <> k /\ In (k', v') t).
Proof.
  unfold tbl_add. rewrite in_app_iff, tbl_remove_spec. cbn [In]. split.
  - intros [H|[H|[]]]; [right; exact H|]. injection H as Hk Hv. left. split; symmetry; assumption.
  - intros [[Hk Hv]|H]; [|left; exact H]. subst. right. left. reflexivity.
Qed.

(* ---------- perms enumerates every iteration order ---------- *)
Lemma insert_all_in {A} (x : A) l1 l2 : In (l1 ++ x :: l2) (insert_all x (l1 ++ l2)).
Proof.
  induction l1 as [|y l1 IH]; cbn [app].
  - destruct l2; cbn [insert_all]; left; reflexivity.
  - cbn [insert_all]. right. apply in_map. exact IH.
Qed.

Lemma perms_complete {A} (l l' : list A) : Permutation l l' -> In l' (perms l).
Proof.
  revert l'. induction l as [|x t IH]; intros l' Hperm.
  - apply Permutation_nil in Hperm. subst l'. left. reflexivity.
  - assert (Hx : In x l') by (apply (Permutation_in x Hperm); left; reflexivity).
    apply in_split in Hx. destruct Hx as [l1 [l2 Hl']]. subst l'.
    apply Permutation_cons_app_inv in Hperm.
    cbn [perms]. apply in_flat_map. exists (l1 ++ l2). split; [apply IH; exact Hperm|apply insert_all_in].
Qed.

(* ---------- witnesses (the code as it is now, [fx = false]) ---------- *)
(* filepath.Rel("/w", "/rootx/f") = "../rootx/f" *)
Lemma outside_refuted rel : rel (B "/w") (B "/rootx/f") = B "../rootx/f" ->
  exists table cwd file r,
    keys_abs table = true /\ repls_rel table = true /\
    (forall kv, In kv table -> under file (fst kv) = false) /\
    has_prefix file volumes = false /\
    checkpath rel false true false table [] cwd file = Some r /\ ~ tail_ok rel cwd file r.
Proof.
  intros Hrel. exists [(B "/root", B "~")], (B "/w"), (B "/rootx/f"), (B "~x/f").
  split; [vm_compute; reflexivity|]. split; [vm_compute; reflexivity|].
  split. { intros kv [Hkv|[]]. subst kv. vm_compute. reflexivity. }
  split; [vm_compute; reflexivity|]. split; [vm_compute; reflexivity|].
  unfold tail_ok. rewrite Hrel. intros [H|[H _]]; vm_compute in H; discriminate H.
Qed.

Lemma short_form_refuted rel :
  exists table cwd file r,
    keys_abs table = true /\ repls_rel table = true /\
    (exists kv, In kv table /\ under file (fst kv) = true) /\
    checkpath rel false true false table [] cwd file = Some r /\
    forall k v, In (k, v) table -> r <> v ++ skipn (length k) file.
Proof.
  exists [(B "/root", B "~")], (B "/w"), (B "/root/a/root/b"), (B "~/a~/b").
  split; [vm_compute; reflexivity|]. split; [vm_compute; reflexivity|].
  split. { exists (B "/root", B "~"). split; [left; reflexivity|vm_compute; reflexivity]. }
  split; [vm_compute; reflexivity|].
  intros k v [H|[]]. injection H as Hk Hv. subst k v. vm_compute. discriminate.
Qed.

(* an empty replacement is not a short form: both variants can then report the key again *)
Lemma no_prefix_empty_repl_refuted rel fx :
  rel (B "/w") (B "/aa/x/a/xa/q") = B "../aa/x/a/xa/q" ->
  rel (B "/w") (B "/aa/aa/q") = B "../aa/aa/q" ->
  exists table cwd file k v r,
    keys_abs table = true /\ forallb (fun kv => negb (is_abs (snd kv))) table = true /\
    In (k, v) table /\ under file k = true /\
    checkpath rel fx true false table [] cwd file = Some r /\ under r k = true.
Proof.
  intros H1 H2. destruct fx.
  - exists [(B "/aa", B "")], (B "/w"), (B "/aa/aa/q"), (B "/aa"), (B ""), (B "/aa/q").
    split; [vm_compute; reflexivity|]. split; [vm_compute; reflexivity|].
    split; [left; reflexivity|]. split; [vm_compute; reflexivity|].
    split; [|vm_compute; reflexivity].
    unfold checkpath. rewrite H2. vm_compute. reflexivity.
  - exists [(B "/aa", B ""); (B "/x", B "")], (B "/w"), (B "/aa/x/a/xa/q"), (B "/aa"), (B ""), (B "/aa/q").
    split; [vm_compute; reflexivity|]. split; [vm_compute; reflexivity|].
    split; [left; reflexivity|]. split; [vm_compute; reflexivity|].
    split; [|vm_compute; reflexivity].
    unfold checkpath. rewrite H1. vm_compute. reflexivity.
Qed.

(* the result depends on the iteration order of the map (both variants) when keys are nested *)
Lemma order_dependent rel fx :
  exists t1 t2 cwd file r1 r2, Permutation t1 t2 /\ keys_abs t1 = true /\ repls_rel t1 = true /\
    checkpath rel fx true false t1 [] cwd file = Some r1 /\
    checkpath rel fx true false t2 [] cwd file = Some r2 /\ r1 <> r2.
Proof.
  exists [(B "/a/b", B "X"); (B "/a/b/c", B "Y")], [(B "/a/b/c", B "Y"); (B "/a/b", B "X")],
    (B "/w"), (B "/a/b/c/f"), (B "X/c/f"), (B "Y/f").
  split; [apply perm_swap|]. split; [vm_compute; reflexivity|]. split; [vm_compute; reflexivity|].
  destruct fx; (split; [vm_compute; reflexivity|]); (split; [vm_compute; reflexivity|]);
    vm_compute; discriminate.
Qed.
