(* The translations of LWs.WriteLeveled, LWs.Write and Entry.printOut regenerated from the source
   (Gen/Delivery.v) against the delivery model (Deliver.write_all, Deliver.print_out,
   Writers.deliver), for every oracle of Write results and every member list. *)
Require Import Verif.Model.Base Verif.Model.Decision Verif.Model.GoSem Verif.Model.Level Verif.Model.DecisionRef
  Verif.Model.Writers Verif.Model.Deliver Verif.Model.GenRef.
Require Import Verif.Proofs.DeliverP Verif.Proofs.GenRouteP.
Require Verif.Gen.Delivery.

(* ---- the oracle summaries ---- *)
Lemma failed_attempts_S (wres : nat -> Z * bool) k len :
  failed_attempts wres k (S len) = (if snd (wres k) then [k] else []) ++ failed_attempts wres (S k) len.
Proof. unfold failed_attempts. cbn [seq filter]. destruct (snd (wres k)); reflexivity. Qed.

Lemma counted_from (wres : nat -> Z * bool) : forall len k (a : Z),
  fold_left (fun a i => if snd (wres i) then a else a + fst (wres i)) (seq k len) a =
  a + counted_bytes wres k len.
Proof.
  unfold counted_bytes. induction len as [|len IH]; intros k a; cbn [seq fold_left]; [lia|].
  rewrite IH, (IH (S k) (if snd (wres k) then 0 else 0 + fst (wres k))). destruct (snd (wres k)); lia.
Qed.

Lemma counted_bytes_S (wres : nat -> Z * bool) k len :
  counted_bytes wres k (S len) = (if snd (wres k) then 0 else fst (wres k)) + counted_bytes wres (S k) len.
Proof.
  unfold counted_bytes at 1. cbn [seq fold_left]. rewrite counted_from. destruct (snd (wres k)); lia.
Qed.

(* ---- a fold whose step does what one member of WriteLeveled does ---- *)
Section Fold.
Variable wres : nat -> Z * bool.
Variable evs : member -> list wevent.
Variable F : Z * error * list wevent * nat -> member -> Z * error * list wevent * nat.
Hypothesis F_step : forall n err tr k w,
  F (n, err, tr, k) w =
  ((if snd (wres k) then n else n + fst (wres k)), err ++ (if snd (wres k) then [k] else []),
   tr ++ evs w ++ [EvWrite (member_id w)], S k).

Lemma fold_delivery : forall s n err tr k,
  fold_left F s (n, err, tr, k) =
  (n + counted_bytes wres k (length s), err ++ failed_attempts wres k (length s),
   tr ++ flat_map (fun w => evs w ++ [EvWrite (member_id w)]) s, (k + length s)%nat).
Proof.
  induction s as [|w s IH]; intros n err tr k; cbn [fold_left length flat_map].
  - unfold counted_bytes, failed_attempts. cbn. rewrite !app_nil_r, Z.add_0_r, Nat.add_0_r. reflexivity.
  - rewrite F_step, IH, failed_attempts_S, counted_bytes_S, <- !app_assoc.
    replace (S k + length s)%nat with (k + S (length s))%nat by lia.
    destruct (snd (wres k)); f_equal; f_equal; f_equal; lia.
Qed.
End Fold.

(* one step of the generated loop body, whatever its shape; the type assertions are read on the
   member model (so that the order in which the code tries them does not matter) *)
Ltac step_tac :=
  intros; cbv beta iota zeta;
  unfold io_write, err_join, err_is_nil, told, asm_ls, asm_logwr, inner_ls, cell_writer;
  repeat (gen_split; cbn [negb fst snd app member_id] in *; gen_inj; try discriminate; try congruence);
  rewrite ?app_nil_r, <- ?app_assoc; cbn [app]; try reflexivity; try congruence.

Lemma gen_write_leveled_ref : forall isls wres s lvl p tr k,
  Delivery.write_leveled (asm_ls isls) asm_logwr cell_writer (inner_ls isls) wres s lvl p tr k =
  write_leveled_ref (asm_ls isls) asm_logwr cell_writer (inner_ls isls) wres s lvl p tr k.
Proof.
  intros isls wres s lvl p tr k.
  first
    [ reflexivity
    | unfold Delivery.write_leveled, write_leveled_ref; cbv zeta;
      match goal with |- context [fold_left ?F _ _] =>
        rewrite (fold_delivery wres (told (asm_ls isls) asm_logwr cell_writer (inner_ls isls) lvl) F) by step_tac end;
      reflexivity ].
Qed.

Lemma gen_write_plain_ref : forall wres s p tr k,
  Delivery.write_plain wres s p tr k = write_plain_ref wres s p tr k.
Proof.
  intros wres s p tr k.
  first
    [ reflexivity
    | unfold Delivery.write_plain, write_plain_ref; cbv zeta;
      match goal with |- context [fold_left ?F _ _] =>
        rewrite (fold_delivery wres (fun _ => []) F) by step_tac end;
      rewrite flat_map_concat_map; cbn [app]; rewrite <- flat_map_concat_map;
      replace (flat_map (fun w : member => [EvWrite (member_id w)]) s) with (map (fun w => EvWrite (member_id w)) s)
        by (induction s as [|a s IH]; cbn; [reflexivity|rewrite IH; reflexivity]);
      reflexivity ].
Qed.

Lemma gen_print_out_ref : forall (wget : Z -> list member) isls find wres lvl msg tr k,
  Delivery.print_out (asm_ls isls) asm_logwr cell_writer (inner_ls isls) lw_as_list (lw_as_ls isls) wget find wres lvl msg tr k =
  print_out_ref (asm_ls isls) asm_logwr cell_writer (inner_ls isls) lw_as_list (lw_as_ls isls) wget find wres lvl msg tr k.
Proof.
  intros wget isls find wres lvl msg tr k.
  first
    [ reflexivity
    | unfold Delivery.print_out, print_out_ref; cbv zeta; unfold io_write;
      repeat (gen_split; rewrite ?gen_write_leveled_ref in *; unfold write_leveled_ref in *;
              cbn [negb andb fst snd app] in *; gen_inj; try discriminate; try congruence);
      rewrite <- ?app_assoc; try reflexivity; try congruence ].
Qed.

(* ---- the references against the model ---- *)
Lemma told_interp isls lvl w :
  told (asm_ls isls) asm_logwr cell_writer (inner_ls isls) lvl w =
  if isls (member_id w) then [EvSet (member_id w) lvl] else [].
Proof.
  unfold told, asm_ls, asm_logwr, inner_ls, cell_writer. destruct w as [w|w]; cbn [member_id];
    destruct (isls w); reflexivity.
Qed.

Lemma trace_deliver isls lvl ms :
  flat_map (fun w => told (asm_ls isls) asm_logwr cell_writer (inner_ls isls) lvl w ++ [EvWrite (member_id w)]) ms =
  deliver isls ms lvl.
Proof.
  unfold deliver. induction ms as [|m ms IH]; cbn [flat_map]; [reflexivity|].
  rewrite IH, told_interp. reflexivity.
Qed.

Lemma writes_of_app a b : writes_of (a ++ b) = writes_of a ++ writes_of b.
Proof. unfold writes_of. apply flat_map_app. Qed.

Lemma writes_of_deliver isls ms lvl : writes_of (deliver isls ms lvl) = map member_id ms.
Proof.
  unfold writes_of, deliver. induction ms as [|m ms IH]; cbn [flat_map map]; [reflexivity|].
  rewrite flat_map_app, IH. unfold deliver1. destruct (isls (member_id m)); reflexivity.
Qed.

Lemma failed_stamp (wres : nat -> Z * bool) kind : forall ids k,
  negb (err_is_nil (failed_attempts wres k (length ids))) =
  existsb a_failed (stamp (fun i => snd (wres i)) kind ids k).
Proof.
  induction ids as [|w ids IH]; intros k; cbn [length stamp existsb a_failed]; [reflexivity|].
  rewrite failed_attempts_S, <- IH. destruct (snd (wres k)); reflexivity.
Qed.

Lemma gen_write_leveled : forall isls wres ms lvl p tr k kind,
  let faults := fun i => snd (wres i) in
  Delivery.write_leveled (asm_ls isls) asm_logwr cell_writer (inner_ls isls) wres ms lvl p tr k =
    (counted_bytes wres k (length ms), failed_attempts wres k (length ms), tr ++ deliver isls ms lvl,
     snd (fst (write_all faults kind ms k)))
  /\ negb (err_is_nil (failed_attempts wres k (length ms))) = snd (write_all faults kind ms k)
  /\ writes_of (deliver isls ms lvl) = map a_w (fst (fst (write_all faults kind ms k))).
Proof.
  intros isls wres ms lvl p tr k kind faults. rewrite gen_write_leveled_ref, write_all_spec.
  cbn [fst snd]. unfold write_leveled_ref. rewrite trace_deliver, stamp_ws, writes_of_deliver.
  repeat split. rewrite <- (map_length member_id ms). apply failed_stamp.
Qed.

Lemma gen_write_plain : forall wres ms p tr k kind,
  let faults := fun i => snd (wres i) in
  Delivery.write_plain wres ms p tr k =
    (counted_bytes wres k (length ms), failed_attempts wres k (length ms),
     tr ++ map (fun m => EvWrite (member_id m)) ms, snd (fst (write_all faults kind ms k)))
  /\ negb (err_is_nil (failed_attempts wres k (length ms))) = snd (write_all faults kind ms k)
  /\ map member_id ms = map a_w (fst (fst (write_all faults kind ms k))).
Proof.
  intros wres ms p tr k kind faults. rewrite gen_write_plain_ref, write_all_spec.
  cbn [fst snd]. unfold write_plain_ref. rewrite stamp_ws.
  repeat split. rewrite <- (map_length member_id ms). apply failed_stamp.
Qed.

(* printOut on what findWriter returns for the configuration c: one unfolding of the model's cycle *)
Lemma gen_print_out : forall (wget : Z -> list member) isls wres c lvl msg k kind fuel,
  let faults := fun i => snd (wres i) in
  let atts := fun tr' => stamp faults kind (writes_of tr') k in
  print_out_code (S fuel) c faults lvl kind k =
  match Delivery.print_out (asm_ls isls) asm_logwr cell_writer (inner_ls isls) lw_as_list (lw_as_ls isls) wget
          (fun l => LWlist (dests c l)) wres lvl msg [] k with
  | PoReturn tr' k' => Normal (atts tr') k'
  | PoWarn tr' k' =>
      if admitted c lv_warn
      then seq_after (atts tr') (tail c lv_warn (print_out_code fuel c faults lv_warn Diag k'))
      else Normal (atts tr') k'
  | PoOther _ _ => OutOfFuel
  end
  /\ (forall tr' k', Delivery.print_out (asm_ls isls) asm_logwr cell_writer (inner_ls isls) lw_as_list (lw_as_ls isls) wget
          (fun l => LWlist (dests c l)) wres lvl msg [] k <> PoOther tr' k').
Proof.
  intros wget isls wres c lvl msg k kind fuel faults atts. subst atts.
  rewrite gen_print_out_ref. split; [|intros tr' k'; unfold print_out_ref; cbn [lw_is_nil lw_as_list];
    unfold write_leveled_ref; cbv beta iota zeta;
    destruct (negb (err_is_nil (failed_attempts wres k (length (dests c lvl)))) && negb (lvl =? 3)); discriminate]. unfold print_out_ref, print_out_code. cbn [lw_is_nil lw_as_list].
  rewrite print_out_S, write_all_spec. unfold write_leveled_ref. cbv beta iota zeta.
  rewrite trace_deliver. cbn [app]. rewrite sw_ref_err.
  rewrite <- (failed_stamp wres kind), map_length. change lv_warn with 3.
  destruct (negb (err_is_nil (failed_attempts wres k (length (dests c lvl))))); cbn [andb];
    [|rewrite writes_of_deliver; reflexivity].
  destruct (lvl =? 3); cbn [negb]; rewrite writes_of_deliver; reflexivity.
Qed.

(* the other values a LogWriter can have: nothing is written through nil; a single writer that is not
   a list gets SetLevel if it asks for it (a *logwr cell is not looked through here) and one Write *)
Lemma gen_print_out_other : forall (wget : Z -> list member) isls wres lvl msg tr k m,
  Delivery.print_out (asm_ls isls) asm_logwr cell_writer (inner_ls isls) lw_as_list (lw_as_ls isls) wget
    (fun _ => LWnil) wres lvl msg tr k = PoReturn tr k
  /\ Delivery.print_out (asm_ls isls) asm_logwr cell_writer (inner_ls isls) lw_as_list (lw_as_ls isls) wget
       (fun _ => LWone m) wres lvl msg tr k =
     (if snd (wres k) && negb (lvl =? 3) then PoWarn else PoReturn)
       (tr ++ (match asm_ls isls m with Some x => [EvSet x lvl] | None => [] end) ++ [EvWrite (member_id m)]) (S k).
Proof.
  intros wget isls wres lvl msg tr k m. split; rewrite gen_print_out_ref; unfold print_out_ref, io_write;
  cbn [lw_is_nil lw_as_list lw_as_ls lw_id snd]; [reflexivity|].
  destruct (snd (wres k)); cbn [err_is_nil negb andb]; [|reflexivity]. destruct (lvl =? 3); reflexivity.
Qed.
