(* Lemmas for C16 (timestamps: zone, layout, framing). *)
Require Import Verif.Model.Base Verif.Model.Decision Verif.Model.Mode Verif.Model.DecisionRef Verif.Model.Time.
Require Import Verif.Gen.Tables Verif.Gen.Decisions.
Require Import Verif.Corr.C16.
Require Coq.Strings.String.
Import Coq.Strings.String.StringSyntax.

(* ---- ties: the translations regenerated from the source equal the references ---- *)
Lemma fold_left_ext2 {A B} (f g : A -> B -> A) (l : list B) (a : A) :
  (forall a x, f a x = g a x) -> fold_left f l a = fold_left g l a.
Proof.
  intros Hfg. revert a. induction l as [|x l IH]; intros a; [reflexivity|].
  cbn [fold_left]. rewrite Hfg. apply IH.
Qed.

Ltac split_ifs :=
  repeat match goal with
         | |- context [if ?c then _ else _] => destruct c
         | |- context [match ?c with Some _ => _ | None => _ end] => destruct c
         end.

Lemma gen_zone : forall utc flags, Decisions.zone_choice utc flags = zone_choice_ref utc flags.
Proof.
  intros utc flags. first [reflexivity |
    unfold Decisions.zone_choice, zone_choice_ref, has_any, f_localtime;
    destruct (utc =? 2); destruct (utc =? 0); destruct (Z.land flags 8 =? 0); reflexivity].
Qed.

Lemma gen_layout : forall m layout flags,
  Decisions.layout_choice m layout flags = layout_choice_ref m layout flags.
Proof.
  intros m layout flags. first [reflexivity |
    unfold Decisions.layout_choice, layout_choice_ref, f_datetime, time_nano;
    destruct layout as [|c t]; cbn; split_ifs; reflexivity].
Qed.

Lemma gen_utc_mode : forall args, Decisions.set_utc_mode args = set_utc_mode_ref args.
Proof.
  intros args. first [reflexivity |
    unfold Decisions.set_utc_mode, set_utc_mode_ref; cbv zeta;
    apply fold_left_ext2; intros a x; destruct x; reflexivity].
Qed.

Lemma gen_time_format : forall args, Decisions.set_time_format args = set_time_format_ref args.
Proof.
  intros args. first [reflexivity |
    unfold Decisions.set_time_format, set_time_format_ref, rfc3339nano; cbv zeta;
    apply fold_left_ext2; intros a x; destruct x; reflexivity].
Qed.

(* ---- zone ---- *)
Lemma zone_rule : forall utc flags,
  zone_choice_ref utc flags = ZoneUTC <-> shows_utc utc flags c_LlocalTime.
Proof.
  intros utc flags. unfold zone_choice_ref, shows_utc, has_any, f_localtime, c_LlocalTime.
  destruct (Z.eqb_spec utc 2) as [E2|E2]; destruct (Z.eqb_spec utc 0) as [E0|E0];
    destruct (Z.eqb_spec (Z.land flags 8) 0) as [EL|EL]; cbn; split; intros H;
    try reflexivity; try discriminate; try (left; assumption); try (right; split; assumption);
    destruct H as [H|[H1 H2]]; contradiction.
Qed.

Lemma zone_own : forall utc flags,
  zone_choice_ref utc flags = ZoneOwn <-> ~ shows_utc utc flags c_LlocalTime.
Proof.
  intros utc flags. rewrite <- zone_rule. destruct (zone_choice_ref utc flags); split; intros H.
  - discriminate.
  - exfalso. apply H. reflexivity.
  - intros H'. discriminate.
  - reflexivity.
Qed.

(* mode 1 (local chosen) and every value other than 0 and 2: the instant's own zone, whatever the flags *)
Lemma zone_other : forall utc flags, utc <> 0 -> utc <> 2 -> zone_choice_ref utc flags = ZoneOwn.
Proof.
  intros utc flags H0 H2. apply zone_own. intros [H|[H _]]; contradiction.
Qed.

Lemma set_utc_mode_last : forall args x, set_utc_mode_ref (args ++ [x]) = if x : bool then 2 else 1.
Proof. intros args x. unfold set_utc_mode_ref. rewrite fold_left_app. reflexivity. Qed.

Lemma utc_mode_values :
  utc_state None = 0 /\ set_utc_mode_ref [] = 2 /\ set_utc_mode_ref [true] = 2 /\ set_utc_mode_ref [false] = 1
  /\ (forall args x, set_utc_mode_ref (args ++ [x]) = if x : bool then 2 else 1)
  /\ (forall args, set_utc_mode_ref args = 1 \/ set_utc_mode_ref args = 2).
Proof.
  repeat split; try reflexivity; [exact set_utc_mode_last|].
  intros args. induction args as [|x l _] using rev_ind.
  - right. reflexivity.
  - rewrite set_utc_mode_last. destruct x; [right|left]; reflexivity.
Qed.

(* ---- layout ---- *)
Lemma layout_rule : forall m layout flags,
  (layout <> [] -> layout_choice_ref m layout flags = layout) /\
  (layout = [] -> layout_choice_ref m layout flags =
     match lookupZ m (Z.land flags c_Ldatetimeflags) with Some l => l | None => c_TimeNano end).
Proof.
  intros m layout flags. split; intros H.
  - destruct layout; [contradiction|reflexivity].
  - subst layout. reflexivity.
Qed.

Lemma land7_cases : forall flags, let k := Z.land flags 7 in
  k = 0 \/ k = 1 \/ k = 2 \/ k = 3 \/ k = 4 \/ k = 5 \/ k = 6 \/ k = 7.
Proof.
  intros flags k. assert (E : k = flags mod 8).
  { subst k. change 7 with (Z.ones 3). rewrite Z.land_ones by lia. reflexivity. }
  pose proof (Z.mod_pos_bound flags 8 ltac:(lia)) as Hb. lia.
Qed.

Lemma layout_table : forall flags,
  layout_choice_ref t_defaultLayouts [] flags = layout_by_flags (Z.land flags c_Ldatetimeflags).
Proof.
  intros flags. unfold layout_choice_ref, f_datetime, c_Ldatetimeflags.
  destruct (land7_cases flags) as [E|[E|[E|[E|[E|[E|[E|E]]]]]]]; cbv zeta in E; rewrite E; vm_compute; reflexivity.
Qed.

Lemma layout_table_lacks :
  lookupZ t_defaultLayouts 0 = None /\ lookupZ t_defaultLayouts c_Lmicroseconds = None
  /\ length t_defaultLayouts = 6%nat.
Proof. vm_compute. repeat split; reflexivity. Qed.

(* ---- SetTimeFormat ---- *)
Lemma last_cons_default {A} : forall (l : list A) x d, last (x :: l) d = last l x.
Proof.
  induction l as [|a l IH]; intros x d; [reflexivity|].
  change (last (x :: a :: l) d) with (last (a :: l) d). rewrite (IH a d), (IH a x). reflexivity.
Qed.

Lemma set_time_format_fold : forall args d,
  fold_left (fun lay ll => match ll with [] => lay | _ => ll end) args d = last_nonempty d args.
Proof.
  unfold last_nonempty. induction args as [|a args IH]; intros d; [reflexivity|].
  cbn [fold_left filter]. destruct a as [|c t]; cbn [nonempty].
  - apply IH.
  - rewrite IH, last_cons_default. reflexivity.
Qed.

Lemma set_time_format_last : forall args,
  set_time_format_ref args = last_nonempty (asc "2006-01-02T15:04:05.999999999Z07:00") args.
Proof. intros args. unfold set_time_format_ref. rewrite set_time_format_fold. reflexivity. Qed.

(* what that means, clause by clause *)
Lemma last_nonempty_clauses : forall d,
  (forall args : list bytes, forallb (fun l => negb (nonempty l)) args = true -> last_nonempty d args = d) /\
  (forall (pre : list bytes) (l : bytes) (post : list bytes), l <> [] -> forallb (fun l => negb (nonempty l)) post = true ->
     last_nonempty d (pre ++ l :: post) = l).
Proof.
  intros d. assert (Hnone : forall args : list bytes, forallb (fun l => negb (nonempty l)) args = true -> filter nonempty args = []).
  { induction args as [|a args IH]; intros H; [reflexivity|]. cbn in H. apply andb_prop in H. destruct H as [Ha Hr].
    cbn. destruct (nonempty a); [discriminate|]. apply IH, Hr. }
  split.
  - intros args H. unfold last_nonempty. rewrite (Hnone _ H). reflexivity.
  - intros pre l post Hl H. unfold last_nonempty. rewrite filter_app.
    destruct l as [|c t]; [contradiction|]. cbn [filter nonempty]. rewrite (Hnone _ H). apply last_last.
Qed.

(* ---- framing ---- *)
Lemma framing_by_shape : forall s rendered,
  append_timestamp_framing (pc_json_mode s) (pc_no_color s) rendered = timestamp_text (shape_of s) rendered.
Proof.
  intros s rendered. unfold append_timestamp_framing, shape_of.
  destruct (pc_json_mode s); destruct (pc_no_color s); reflexivity.
Qed.

Lemma quoted : forall rendered,
  timestamp_text ShJSON rendered = [x22] ++ rendered ++ [x22] /\
  timestamp_text ShLogfmt rendered = [x22] ++ rendered ++ [x22] /\
  timestamp_text ShColor rendered = rendered ++ [x7c].
Proof. intros rendered. repeat split; reflexivity. Qed.

(* ---- the whole timestamp; what the correspondence evaluator computes ---- *)
Lemma timestamp_spec : forall render m utc_call layout_call flags sh,
  timestamp render m utc_call layout_call flags sh =
  timestamp_text sh (render (zone_choice_ref (utc_state utc_call) flags)
                            (layout_choice_ref m (layout_state layout_call) flags)).
Proof. reflexivity. Qed.

Lemma gen_timestamp : forall render utc_call layout_call flags sh,
  timestamp_gen render utc_call layout_call flags sh =
  timestamp render t_defaultLayouts utc_call layout_call flags sh.
Proof.
  intros render utc_call layout_call flags sh. unfold timestamp_gen, timestamp, utc_state_gen, layout_state_gen,
    utc_state, layout_state.
  rewrite gen_zone, gen_layout. destruct utc_call; destruct layout_call;
    rewrite ?gen_utc_mode, ?gen_time_format; reflexivity.
Qed.

Lemma byte_eqb_true : forall a c : byte, byte_eqb a c = true -> a = c.
Proof. intros a c H. apply Byte.byte_dec_bl. exact H. Qed.

Lemma bytes_eqb_true : forall a c : bytes, bytes_eqb a c = true -> a = c.
Proof.
  induction a as [|x a IH]; intros [|y c] H; try discriminate; [reflexivity|].
  cbn in H. apply andb_prop in H. destruct H as [H1 H2].
  rewrite (byte_eqb_true _ _ H1), (IH _ H2). reflexivity.
Qed.

(* a case accepted by Corr.C16.ok: for every rendering function that agrees with the
   candidates the harness rendered, the model's timestamp is the observed text *)
Lemma corr_sound : forall c render,
  (forall z l r, lookup_cand (c_cands c) z l = Some r -> render z l = r) ->
  ok c = true ->
  timestamp render t_defaultLayouts (c_utc c) (c_layout c) (c_flags c) (c_shape c) = c_observed c.
Proof.
  intros c render Hr Hok. rewrite <- gen_timestamp. unfold ok in Hok. apply andb_prop in Hok.
  destruct Hok as [Hok _]. unfold ok_cand in Hok. unfold timestamp_gen.
  destruct (lookup_cand (c_cands c) _ _) as [r|] eqn:E; [|discriminate].
  rewrite (Hr _ _ _ E). apply bytes_eqb_true, Hok.
Qed.

Lemma layout_eight :
  let sel f := layout_choice_ref t_defaultLayouts [] f in
  sel 0 = asc "15:04:05.000000Z07:00" /\
  sel c_Ldate = asc "2006-01-02" /\
  sel c_Ltime = asc "15:04:05Z07:00" /\
  sel (Z.lor c_Ldate c_Ltime) = asc "2006-01-0215:04:05Z07:00" /\
  sel c_Lmicroseconds = asc "15:04:05.000000Z07:00" /\
  sel (Z.lor c_Ldate c_Lmicroseconds) = asc "2006-01-02T15:04:05.000000Z07:00" /\
  sel (Z.lor c_Ltime c_Lmicroseconds) = asc "15:04:05.000000Z07:00" /\
  sel (Z.lor c_Ldate (Z.lor c_Ltime c_Lmicroseconds)) = asc "2006-01-02T15:04:05.000000Z07:00" /\
  sel c_LstdFlags = asc "15:04:05.000000Z07:00".
Proof. vm_compute. repeat split; reflexivity. Qed.

Lemma set_time_format_clauses : forall args,
  set_time_format_ref args = last_nonempty (asc "2006-01-02T15:04:05.999999999Z07:00") args
  /\ (forallb (fun l => negb (nonempty l)) args = true ->
        set_time_format_ref args = asc "2006-01-02T15:04:05.999999999Z07:00")
  /\ (forall (pre : list bytes) (l : bytes) (post : list bytes), args = pre ++ l :: post -> l <> [] ->
        forallb (fun l => negb (nonempty l)) post = true -> set_time_format_ref args = l).
Proof.
  intros args. split; [exact (set_time_format_last args)|]. rewrite set_time_format_last. split.
  - exact (proj1 (last_nonempty_clauses _) args).
  - intros pre l post E. subst args. exact (proj2 (last_nonempty_clauses _) pre l post).
Qed.

Lemma timestamp_gen_spec : forall render utc_call layout_call flags sh,
  timestamp_gen render utc_call layout_call flags sh =
  timestamp_text sh (render (zone_choice_ref (utc_state utc_call) flags)
                            (layout_choice_ref t_defaultLayouts (layout_state layout_call) flags)).
Proof.
  intros render utc_call layout_call flags sh. rewrite gen_timestamp. exact (timestamp_spec _ _ _ _ _ _).
Qed.

(* ---- the layouts of the source and the domain of the parse-back theorem ---- *)
Require Import Verif.Model.TimeFmt Verif.Proofs.TimeFmtP.

(* every layout the flags can select reads back field by field; those that carry date, time
   and zone are in the domain of the instant round trip; so is SetTimeFormat's default *)
Lemma default_layouts_domain :
  forallb (fun kl => layout_parses (snd kl) && implb (carries_instant (snd kl)) (layout_roundtrips (snd kl)))
          t_defaultLayouts = true
  /\ layout_parses c_TimeNano = true
  /\ layout_roundtrips rfc3339nano = true
  /\ (forall flags, layout_parses (layout_choice_ref t_defaultLayouts [] flags) = true)
  /\ (forall flags, Z.land flags c_Ldate <> 0 -> Z.land flags c_Ltime <> 0 ->
        layout_roundtrips (layout_choice_ref t_defaultLayouts [] flags) = true).
Proof.
  split; [vm_compute; reflexivity|]. split; [vm_compute; reflexivity|]. split; [vm_compute; reflexivity|].
  split.
  - intros flags. rewrite layout_table. unfold c_Ldatetimeflags.
    destruct (land7_cases flags) as [E|[E|[E|[E|[E|[E|[E|E]]]]]]]; cbv zeta in E; rewrite E; vm_compute; reflexivity.
  - intros flags Hd Ht. rewrite layout_table. unfold c_Ldatetimeflags.
    assert (E1 : Z.land (Z.land flags 7) 1 = Z.land flags c_Ldate)
      by (rewrite <- Z.land_assoc; reflexivity).
    assert (E2 : Z.land (Z.land flags 7) 2 = Z.land flags c_Ltime)
      by (rewrite <- Z.land_assoc; reflexivity).
    destruct (land7_cases flags) as [E|[E|[E|[E|[E|[E|[E|E]]]]]]]; cbv zeta in E; rewrite E in *;
      try (vm_compute; reflexivity); exfalso;
      first [apply Hd; rewrite <- E1; reflexivity | apply Ht; rewrite <- E2; reflexivity].
Qed.

(* what a case accepted by Corr.C16.ok establishes about the MODELLED rendering: where the
   instant is in format_time's domain, the text the model of Go's layout language produces for
   the zone and layout the regenerated decisions select, framed, is the observed timestamp *)
Lemma corr_sound_model : forall c, ok c = true ->
  match model_text c with
  | Some r => c_model c = true /\ timestamp_text (c_shape c) r = c_observed c
  | None => c_model c = false
  end.
Proof.
  intros c Hok. unfold ok in Hok. apply andb_prop in Hok. destruct Hok as [_ Hm].
  unfold ok_model in Hm. unfold model_text.
  destruct (zone_params c _) as [off ab].
  destruct (format_time _ (c_sec c) (c_nsec c) off ab) as [r|].
  - apply andb_prop in Hm. destruct Hm as [Hm _]. apply andb_prop in Hm. destruct Hm as [H1 H2].
    split; [exact H1|]. apply bytes_eqb_true. exact H2.
  - apply negb_true_iff. exact Hm.
Qed.

(* ---- the logger's timestamp reads back ---- *)
(* the zone a choice means for an instant that came in a zone (own_off, own_ab) *)
Definition chosen_off (z : zone) (own_off : Z) : Z := match z with ZoneUTC => 0 | ZoneOwn => own_off end.
Definition chosen_abbrev (z : zone) (own_ab : bytes) : bytes :=
  match z with ZoneUTC => utc_abbrev | ZoneOwn => own_ab end.

(* whatever the logger was told: if the layout it ends up with is in the domain, the text reads back *)
Lemma timestamp_parse_back : forall utc_call layout_call flags sec nsec own_off own_ab,
  let z := zone_choice_ref (utc_state utc_call) flags in
  let l := layout_choice_ref t_defaultLayouts (layout_state layout_call) flags in
  let off := chosen_off z own_off in
  layout_roundtrips l = true -> instant_ok sec nsec off -> zone_fits (tokens l) off = true ->
  exists text,
    format_time l sec nsec off (chosen_abbrev z own_ab) = Some text /\
    parse_time l text = Some (sec, nsec / layout_unit (tokens l) * layout_unit (tokens l), off).
Proof.
  intros utc_call layout_call flags sec nsec own_off own_ab z l off Hl Hi Hz.
  exact (parse_time_format l sec nsec off (chosen_abbrev z own_ab) Hl Hi Hz).
Qed.

(* no layout set, date and time flags on: every instant in a minute-aligned zone reads back,
   to the second without the microseconds flag and to the microsecond with it *)
Lemma default_timestamp_parse_back : forall utc_call flags sec nsec own_off own_ab,
  Z.land flags c_Ldate <> 0 -> Z.land flags c_Ltime <> 0 ->
  let z := zone_choice_ref (utc_state utc_call) flags in
  let l := layout_choice_ref t_defaultLayouts [] flags in
  let off := chosen_off z own_off in
  let u := if Z.land flags c_Lmicroseconds =? 0 then 1000000000 else 1000 in
  instant_ok sec nsec off -> off mod 60 = 0 ->
  exists text,
    format_time l sec nsec off (chosen_abbrev z own_ab) = Some text /\
    parse_time l text = Some (sec, nsec / u * u, off).
Proof.
  intros utc_call flags sec nsec own_off own_ab Hd Ht z l off u Hi Ho.
  assert (Hl : layout_roundtrips l = true) by (apply default_layouts_domain; assumption).
  assert (Hfacts : zone_unit (tokens l) = 60 /\ zone_has_seconds (tokens l) = false /\ layout_unit (tokens l) = u).
  { subst l u. rewrite layout_table. unfold c_Ldatetimeflags.
    assert (E1 : Z.land (Z.land flags 7) 1 = Z.land flags c_Ldate) by (rewrite <- Z.land_assoc; reflexivity).
    assert (E2 : Z.land (Z.land flags 7) 2 = Z.land flags c_Ltime) by (rewrite <- Z.land_assoc; reflexivity).
    assert (E4 : Z.land (Z.land flags 7) 4 = Z.land flags c_Lmicroseconds) by (rewrite <- Z.land_assoc; reflexivity).
    rewrite <- E4.
    destruct (land7_cases flags) as [E|[E|[E|[E|[E|[E|[E|E]]]]]]]; cbv zeta in E; rewrite E in *;
      try (vm_compute; repeat split; reflexivity); exfalso;
      first [apply Hd; rewrite <- E1; reflexivity | apply Ht; rewrite <- E2; reflexivity]. }
  destruct Hfacts as (Hzu & Hzs & Hlu).
  assert (Hz : zone_fits (tokens l) off = true).
  { unfold zone_fits. rewrite Hzu, Hzs. cbn [andb negb]. rewrite andb_true_r. apply Z.eqb_eq. exact Ho. }
  destruct (parse_time_format l sec nsec off (chosen_abbrev z own_ab) Hl Hi Hz) as (text & Hf & Hp).
  exists text. split; [exact Hf|]. rewrite Hp, Hlu. reflexivity.
Qed.
