(* C06: lemmas about the colour-mode encoder (Model/Encode.v, ShColor) against the
   specification of Model/Ansi.v. *)
Require Import Verif.Model.Base Verif.Model.Decision Verif.Model.Dec Verif.Model.Level Verif.Model.Mode.
Require Import Verif.Model.Quote Verif.Model.Attrs Verif.Model.Encode Verif.Model.Ansi.
Require Import Verif.Proofs.Utf8P Verif.Proofs.EscP Verif.Proofs.RegistryP Verif.Proofs.SortP.
From Coq Require Import Lia ZifyBool ZifyNat ZifyN.

(* ---------- bytes ---------- *)
Lemma text_ok_app a b : text_ok (a ++ b) = text_ok a && text_ok b.
Proof. apply forallb_app. Qed.
Lemma esc_free_app a b : esc_free (a ++ b) = esc_free a && esc_free b.
Proof. apply forallb_app. Qed.
Lemma text_ok_esc_free s : text_ok s = true -> esc_free s = true.
Proof.
  unfold text_ok, esc_free. rewrite !forallb_forall. intros H b Hb. specialize (H b Hb).
  apply andb_true_iff in H. tauto.
Qed.

Definition okb (b : byte) : bool := negb (is_esc b) && negb (is_lf b).
Lemma text_ok_cons b s : text_ok (b :: s) = okb b && text_ok s.
Proof. reflexivity. Qed.

Lemma clean_okb b : clean b -> okb b = true.
Proof. intros [H1 H2]. unfold okb, is_esc, is_lf. lia. Qed.
Lemma clean_text_ok s : Forall clean s -> text_ok s = true.
Proof.
  intros H. unfold text_ok. apply forallb_forall. intros b Hb.
  rewrite Forall_forall in H. exact (clean_okb b (H b Hb)).
Qed.

Lemma text_ok_repeat_blank n : text_ok (repeat x20 n) = true.
Proof. induction n as [|n IH]; [reflexivity|]. cbn [repeat]. rewrite text_ok_cons, IH. reflexivity. Qed.

(* ---------- decimal text ---------- *)
Lemma bz_digit_byte_N d : (d < 10)%N -> bz (digit_byte d) = 48 + Z.of_N d.
Proof.
  intros H. unfold digit_byte. apply bz_zb. lia.
Qed.
Lemma is_dig_digit_byte d : (d < 10)%N -> is_dig (digit_byte d) = true.
Proof. intros H. unfold is_dig. rewrite bz_digit_byte_N by assumption. lia. Qed.

Definition all_dig (s : bytes) : Prop := Forall (fun b => is_dig b = true) s.

Lemma dec_fuel_digits f : forall n acc, all_dig acc -> all_dig (dec_fuel f n acc).
Proof.
  induction f as [|f IH]; intros n acc Ha; cbn [dec_fuel]; [assumption|].
  assert (Hd : all_dig (digit_byte (n mod 10) :: acc)).
  { constructor; [|assumption]. apply is_dig_digit_byte. apply N.mod_lt. discriminate. }
  destruct (n / 10 =? 0)%N; [assumption|]. apply IH. assumption.
Qed.
Lemma dec_fuel_nonempty f n acc : dec_fuel (S f) n acc <> [].
Proof.
  cbn [dec_fuel]. destruct (n / 10 =? 0)%N; [discriminate|].
  assert (H : forall f m a, a <> [] -> dec_fuel f m a <> []).
  { clear. induction f as [|f IH]; intros m a Ha; cbn [dec_fuel]; [assumption|].
    destruct (m / 10 =? 0)%N; [discriminate|]. apply IH. discriminate. }
  apply H. discriminate.
Qed.
Lemma dec_of_N_digits n : all_dig (dec_of_N n) /\ dec_of_N n <> [].
Proof.
  unfold dec_of_N. split; [apply dec_fuel_digits; constructor|apply dec_fuel_nonempty].
Qed.
Lemma dec_of_Z_digits z : 0 <= z -> all_dig (dec_of_Z z) /\ dec_of_Z z <> [].
Proof.
  intros H. unfold dec_of_Z. replace (z <? 0) with false by lia. apply dec_of_N_digits.
Qed.

Lemma is_dig_okb b : is_dig b = true -> okb b = true.
Proof. unfold is_dig, okb, is_esc, is_lf. lia. Qed.
Lemma all_dig_text_ok s : all_dig s -> text_ok s = true.
Proof.
  intros H. unfold text_ok. apply forallb_forall. intros b Hb. unfold all_dig in H.
  rewrite Forall_forall in H. exact (is_dig_okb b (H b Hb)).
Qed.
Lemma dec_of_Z_text_ok z : text_ok (dec_of_Z z) = true.
Proof.
  unfold dec_of_Z. destruct (z <? 0).
  - rewrite text_ok_cons. rewrite (all_dig_text_ok _ (proj1 (dec_of_N_digits _))). reflexivity.
  - exact (all_dig_text_ok _ (proj1 (dec_of_N_digits _))).
Qed.

(* ---------- SGR sequences ---------- *)
Lemma digits_len_app ds : forall r, all_dig ds ->
  (match r with b :: _ => is_dig b = false | [] => True end) -> digits_len (ds ++ r) = length ds.
Proof.
  induction ds as [|d ds IH]; intros r Hd Hr.
  - destruct r as [|b r]; [reflexivity|]. cbn [app digits_len]. rewrite Hr. reflexivity.
  - inversion Hd as [|? ? H1 H2]; subst. cbn [app digits_len length]. rewrite H1. f_equal. apply IH; assumption.
Qed.

Lemma firstn_app_exact {A} (a b : list A) : firstn (length a) (a ++ b) = a.
Proof. induction a as [|x a IH]; cbn [length firstn app]; [destruct b; reflexivity|f_equal; exact IH]. Qed.
Lemma skipn_app_exact {A} (a b : list A) : skipn (length a) (a ++ b) = b.
Proof. induction a as [|x a IH]; cbn [length skipn app]; [reflexivity|exact IH]. Qed.

Lemma sgr_seq_make ds r : ds <> [] -> all_dig ds ->
  sgr_seq (x5b :: ds ++ x6d :: r) = Some (S (S (length ds)), bytes_eqb ds [x30]).
Proof.
  intros Hne Hd. unfold sgr_seq. change (bz x5b =? 91) with true. cbv beta iota zeta.
  rewrite digits_len_app by (try assumption; reflexivity).
  remember (length ds) as n eqn:En. destruct n as [|n]; [destruct ds; [congruence|discriminate]|].
  rewrite En. rewrite skipn_app_exact, firstn_app_exact. change (bz x6d =? 109) with true. reflexivity.
Qed.

Lemma strip_go_skip k : forall s, strip_go k s = strip_go 0 (skipn k s).
Proof. induction k as [|k IH]; intros s; [reflexivity|]. destruct s as [|b t]; [reflexivity|]. cbn [strip_go skipn]. apply IH. Qed.
Lemma scan_go_skip k : forall on s, scan_go k on s = scan_go 0 on (skipn k s).
Proof. induction k as [|k IH]; intros on s; [reflexivity|]. destruct s as [|b t]; [reflexivity|]. cbn [scan_go skipn]. apply IH. Qed.

Lemma strip_cons b t : is_esc b = false -> strip_sgr (b :: t) = b :: strip_sgr t.
Proof. intros H. unfold strip_sgr. cbn [strip_go]. rewrite H. reflexivity. Qed.
Lemma scan_cons on b t : is_esc b = false -> is_lf b && on = false -> sgr_scan on (b :: t) = sgr_scan on t.
Proof. intros H1 H2. unfold sgr_scan. cbn [scan_go]. rewrite H1, H2. reflexivity. Qed.

Lemma skipn_seq ds (r : bytes) : skipn (S (length ds)) (ds ++ x6d :: r) = r.
Proof.
  replace (ds ++ x6d :: r) with ((ds ++ [x6d]) ++ r) by (rewrite <- app_assoc; reflexivity).
  replace (S (length ds)) with (length (ds ++ [x6d])) by (rewrite app_length; cbn [length]; lia).
  apply skipn_app_exact.
Qed.

Lemma strip_seq ds r : ds <> [] -> all_dig ds -> strip_sgr (x1b :: x5b :: ds ++ x6d :: r) = strip_sgr r.
Proof.
  intros Hne Hd. unfold strip_sgr. cbn [strip_go]. change (is_esc x1b) with true. cbv iota.
  rewrite (sgr_seq_make ds r Hne Hd). rewrite strip_go_skip, skipn_seq. reflexivity.
Qed.
Lemma scan_seq on ds r : ds <> [] -> all_dig ds ->
  sgr_scan on (x1b :: x5b :: ds ++ x6d :: r) = sgr_scan (negb (bytes_eqb ds [x30])) r.
Proof.
  intros Hne Hd. unfold sgr_scan. cbn [scan_go]. change (is_esc x1b) with true. cbv iota.
  rewrite (sgr_seq_make ds r Hne Hd). rewrite scan_go_skip, skipn_seq. reflexivity.
Qed.

(* text without ESC (and, while a colour is on, without LF) *)
Lemma strip_text t : forall r, esc_free t = true -> strip_sgr (t ++ r) = t ++ strip_sgr r.
Proof.
  induction t as [|b t IH]; intros r H; [reflexivity|].
  cbn [esc_free forallb] in H. apply andb_true_iff in H. destruct H as [Hb Ht].
  cbn [app]. rewrite strip_cons by (destruct (is_esc b); [discriminate|reflexivity]).
  f_equal. apply IH. exact Ht.
Qed.
Lemma scan_text t : forall on r, text_ok t = true -> sgr_scan on (t ++ r) = sgr_scan on r.
Proof.
  induction t as [|b t IH]; intros on r H; [reflexivity|].
  rewrite text_ok_cons in H. apply andb_true_iff in H. destruct H as [Hb Ht].
  unfold okb in Hb. apply andb_true_iff in Hb. destruct Hb as [H1 H2].
  cbn [app]. rewrite scan_cons.
  - apply IH. exact Ht.
  - destruct (is_esc b); [discriminate|reflexivity].
  - destruct (is_lf b); [discriminate|reflexivity].
Qed.
Lemma scan_text_off t : forall r, esc_free t = true -> sgr_scan false (t ++ r) = sgr_scan false r.
Proof.
  induction t as [|b t IH]; intros r H; [reflexivity|].
  cbn [esc_free forallb] in H. apply andb_true_iff in H. destruct H as [Hb Ht].
  cbn [app]. rewrite scan_cons.
  - apply IH. exact Ht.
  - destruct (is_esc b); [discriminate|reflexivity].
  - apply andb_false_r.
Qed.

(* ---------- blocks: a piece of output, its text, and what it does to the colour state ---------- *)
(* x shows as p and contains no line feed and no foreign escape *)
Definition blk (x p : bytes) : Prop :=
  (forall r, strip_sgr (x ++ r) = p ++ strip_sgr r) /\
  (forall on, exists on', forall r, sgr_scan on (x ++ r) = sgr_scan on' r).
(* ... and leaves every colour off *)
Definition blk_off (x p : bytes) : Prop :=
  (forall r, strip_sgr (x ++ r) = p ++ strip_sgr r) /\
  (forall on r, sgr_scan on (x ++ r) = sgr_scan false r).
(* ... and leaves the colour state as it was (plain text) *)
Definition blk_keep (x p : bytes) : Prop :=
  (forall r, strip_sgr (x ++ r) = p ++ strip_sgr r) /\
  (forall on r, sgr_scan on (x ++ r) = sgr_scan on r).

Lemma blk_of_off x p : blk_off x p -> blk x p.
Proof. intros [H1 H2]. split; [exact H1|]. intros on. exists false. intros r. apply H2. Qed.
Lemma blk_of_keep x p : blk_keep x p -> blk x p.
Proof. intros [H1 H2]. split; [exact H1|]. intros on. exists on. intros r. apply H2. Qed.

Lemma blk_keep_nil : blk_keep [] [].
Proof. split; intros; reflexivity. Qed.
Lemma blk_nil : blk [] [].
Proof. exact (blk_of_keep _ _ blk_keep_nil). Qed.

Lemma blk_keep_text t : text_ok t = true -> blk_keep t t.
Proof.
  intros H. split.
  - intros r. apply strip_text. apply text_ok_esc_free. exact H.
  - intros on r. apply scan_text. exact H.
Qed.
Lemma blk_text t : text_ok t = true -> blk t t.
Proof. intros H. exact (blk_of_keep _ _ (blk_keep_text t H)). Qed.

Lemma blk_app x p y q : blk x p -> blk y q -> blk (x ++ y) (p ++ q).
Proof.
  intros [X1 X2] [Y1 Y2]. split.
  - intros r. rewrite <- !app_assoc. rewrite X1, Y1. reflexivity.
  - intros on. destruct (X2 on) as [o1 E1]. destruct (Y2 o1) as [o2 E2]. exists o2.
    intros r. rewrite <- app_assoc. rewrite E1, E2. reflexivity.
Qed.
Lemma blk_keep_app x p y q : blk_keep x p -> blk_keep y q -> blk_keep (x ++ y) (p ++ q).
Proof.
  intros [X1 X2] [Y1 Y2]. split.
  - intros r. rewrite <- !app_assoc. rewrite X1, Y1. reflexivity.
  - intros on r. rewrite <- app_assoc. rewrite X2, Y2. reflexivity.
Qed.
Lemma blk_app_off x p y q : blk x p -> blk_off y q -> blk_off (x ++ y) (p ++ q).
Proof.
  intros [X1 X2] [Y1 Y2]. split.
  - intros r. rewrite <- !app_assoc. rewrite X1, Y1. reflexivity.
  - intros on r. destruct (X2 on) as [o1 E1]. rewrite <- app_assoc. rewrite E1, Y2. reflexivity.
Qed.
Lemma blk_off_keep x p y q : blk_off x p -> blk_keep y q -> blk_off (x ++ y) (p ++ q).
Proof.
  intros [X1 X2] [Y1 Y2]. split.
  - intros r. rewrite <- !app_assoc. rewrite X1, Y1. reflexivity.
  - intros on r. rewrite <- app_assoc. rewrite X2, Y2. reflexivity.
Qed.
Lemma blk_cons b x p : okb b = true -> blk x p -> blk (b :: x) (b :: p).
Proof.
  intros Hb H. change (b :: x) with ([b] ++ x). change (b :: p) with ([b] ++ p).
  apply blk_app; [|exact H]. apply blk_text. rewrite text_ok_cons, Hb. reflexivity.
Qed.

(* the sequences the encoder writes *)
Lemma blk_sgr c : 0 <= c -> blk (sgr c) [].
Proof.
  intros Hc. destruct (dec_of_Z_digits c Hc) as [Hd Hne]. unfold sgr. split.
  - intros r. cbn [app]. rewrite <- app_assoc. cbn [app]. apply (strip_seq _ r Hne Hd).
  - intros on. exists (negb (bytes_eqb (dec_of_Z c) [x30])). intros r.
    cbn [app]. rewrite <- app_assoc. cbn [app]. apply (scan_seq on _ r Hne Hd).
Qed.
Lemma blk_off_reset : blk_off sgr_reset [].
Proof.
  assert (Hd : all_dig [x30]) by (constructor; [reflexivity|constructor]).
  assert (Hne : [x30] <> []) by discriminate.
  split.
  - intros r. exact (strip_seq [x30] r Hne Hd).
  - intros on r. exact (scan_seq on [x30] r Hne Hd).
Qed.
Lemma blk_echo c : -1 <= c -> blk (echo_color c) [].
Proof.
  intros Hc. unfold echo_color, clr_none. destruct (c =? -1) eqn:E; [exact blk_nil|]. apply blk_sgr. lia.
Qed.
Lemma blk_echo_bg c b : -1 <= c -> -1 <= b -> blk (echo_color_bg c b) [].
Proof. intros Hc Hb. unfold echo_color_bg. exact (blk_app _ [] _ [] (blk_echo c Hc) (blk_echo b Hb)). Qed.

Lemma blk_pre_off x y q : blk x [] -> blk_off y q -> blk_off (x ++ y) q.
Proof. intros Hx Hy. exact (blk_app_off x [] y q Hx Hy). Qed.
Lemma blk_app_reset x p : blk x p -> blk_off (x ++ sgr_reset) p.
Proof. intros Hx. pose proof (blk_app_off x p _ [] Hx blk_off_reset) as H. rewrite app_nil_r in H. exact H. Qed.
Lemma blk_pre x y q : blk x [] -> blk y q -> blk (x ++ y) q.
Proof. intros Hx Hy. exact (blk_app x [] y q Hx Hy). Qed.

Lemma blk_off_lib_wrap_bg c b t : -1 <= c -> -1 <= b -> text_ok t = true -> blk_off (lib_wrap_color_bg c b t) t.
Proof.
  intros Hc Hb Ht. unfold lib_wrap_color_bg.
  apply blk_pre_off; [exact (blk_echo_bg c b Hc Hb)|]. apply blk_app_reset. exact (blk_text t Ht).
Qed.
Lemma blk_off_lib_wrap c t : 0 <= c -> text_ok t = true -> blk_off (lib_wrap_color c t) t.
Proof.
  intros Hc Ht. unfold lib_wrap_color.
  apply blk_pre_off; [exact (blk_sgr c Hc)|]. apply blk_app_reset. exact (blk_text t Ht).
Qed.
Lemma blk_off_wrap t c b : 0 <= c -> -1 <= b -> text_ok t = true -> blk_off (wrap_color_and_bg t c b) t.
Proof.
  intros Hc Hb Ht. unfold wrap_color_and_bg.
  apply blk_pre_off; [|exact (blk_off_lib_wrap c t Hc Ht)].
  unfold clr_none. destruct (b =? -1) eqn:E; [exact blk_nil|]. apply blk_sgr. lia.
Qed.

(* ---------- induction over values (groups nest) ---------- *)
Section ValueInd.
Variable P : value -> Prop.
Hypothesis Hleaf : forall v, is_group v = false -> P v.
Hypothesis Hgroup : forall items, (forall k x, In (A k x) items -> P x) -> P (VGroup items).
Lemma value_ind2 : forall v, P v.
Proof.
  fix IH 1. intros v.
  destruct v as [|s|e|b|z|n|t|t|t|t|s|t|l|l|l|l|l|l|l|items]; try (apply Hleaf; reflexivity).
  apply Hgroup. revert items. fix IHl 1. intros [|a t] k x HIn.
  - destruct HIn.
  - destruct a as [k0 x0|].
    + pose proof (IH x0) as Px0. destruct HIn as [E|HIn].
      * injection E as E1 E2. rewrite <- E2. exact Px0.
      * exact (IHl t k x HIn).
    + destruct HIn as [E|HIn]; [discriminate|]. exact (IHl t k x HIn).
Qed.
End ValueInd.

(* ---------- unfolding the encoder on groups ---------- *)
Section Ser.
Variable isprint : Z -> bool.
Hypothesis isprint_ascii : forall r, 0 <= r < 128 -> isprint r = (32 <=? r) && (r <? 127).

Lemma ser_group m clr bg pfx items :
  ser_value isprint m clr bg pfx (VGroup items)
  = render_members m clr bg false (members_of isprint m clr bg pfx items).
Proof.
  cbn [ser_value]. f_equal.
  induction items as [|a t IH]; [reflexivity|].
  destruct a as [k x|]; cbn [members_of]; cbv beta iota fix; [f_equal; exact IH|exact IH].
Qed.
Lemma lay_group pfx items : lay_value isprint pfx (VGroup items) = lay_members isprint pfx items.
Proof.
  cbn [lay_value].
  induction items as [|a t IH]; [reflexivity|].
  destruct a as [k x|]; cbn [lay_members]; cbv beta iota fix; [do 3 f_equal; exact IH|exact IH].
Qed.
Lemma value_ok_group items : value_ok (VGroup items) = attrs_ok items.
Proof.
  cbn [value_ok].
  induction items as [|a t IH]; [reflexivity|].
  destruct a as [k x|]; cbn [attrs_ok]; cbv beta iota fix; [f_equal; exact IH|exact IH].
Qed.
End Ser.

(* ---------- the text of leaf values ---------- *)
Lemma text_ok_join sep l : text_ok sep = true -> (forall x, In x l -> text_ok x = true) -> text_ok (join_with sep l) = true.
Proof.
  intros Hs. induction l as [|x t IH]; intros H; [reflexivity|].
  destruct t as [|y t']; [apply H; left; reflexivity|].
  change (join_with sep (x :: y :: t')) with (x ++ sep ++ join_with sep (y :: t')).
  rewrite !text_ok_app, Hs, (H x (or_introl eq_refl)), IH; [reflexivity|].
  intros z Hz. apply H. right. exact Hz.
Qed.
Lemma text_ok_bracket l : (forall x, In x l -> text_ok x = true) -> text_ok (bracket l) = true.
Proof.
  intros H. unfold bracket. rewrite text_ok_cons, text_ok_app, (text_ok_join [x2c] l eq_refl H). reflexivity.
Qed.
Lemma text_ok_bracket_map {A} (f : A -> bytes) l : (forall a, text_ok (f a) = true) -> text_ok (bracket (map f l)) = true.
Proof. intros H. apply text_ok_bracket. intros x Hx. apply in_map_iff in Hx. destruct Hx as [a [<- _]]. apply H. Qed.
Lemma bool_text_ok b : text_ok (bool_text b) = true.
Proof. destruct b; reflexivity. Qed.
Lemma forallb_In {A} (f : A -> bool) l : forallb f l = true -> forall x, In x l -> f x = true.
Proof. intros H. apply forallb_forall. exact H. Qed.

Section Blocks.
Variable isprint : Z -> bool.
Hypothesis isprint_ascii : forall r, 0 <= r < 128 -> isprint r = (32 <=? r) && (r <? 127).
Variable clr bg : Z.
Hypothesis Hclr : -1 <= clr.
Hypothesis Hbg : -1 <= bg.

Lemma q_text_ok s : text_ok (q isprint s) = true.
Proof. apply clean_text_ok. exact (quote_clean isprint isprint_ascii s). Qed.

(* a leaf other than an error is written exactly as the layout says, without any colour *)
Lemma leaf_same pfx v : is_group v = false -> (forall e, v <> VErr e) ->
  ser_value isprint ShColor clr bg pfx v = lay_value isprint pfx v.
Proof.
  intros Hg He.
  destruct v as [|s|e|b|z|n|t|t|t|t|s|t|l|l|l|l|l|l|l|items]; try reflexivity.
  - exfalso. exact (He e eq_refl).
  - cbn [ser_value lay_value]. change (map (json_wrap ShColor) l) with (map (fun t : bytes => t) l). rewrite map_id. reflexivity.
  - cbn [ser_value lay_value]. change (map (time_text ShColor) l) with (map (fun t : bytes => t) l). rewrite map_id. reflexivity.
  - discriminate.
Qed.

Lemma lay_leaf_ok pfx v : is_group v = false -> value_ok v = true -> text_ok (lay_value isprint pfx v) = true.
Proof.
  intros Hg Hv.
  destruct v as [|s|e|b|z|n|t|t|t|t|s|t|l|l|l|l|l|l|l|items]; cbn [lay_value value_ok] in *;
    try reflexivity; try exact Hv; try apply q_text_ok; try apply bool_text_ok; try apply dec_of_Z_text_ok;
    try (apply text_ok_bracket_map; intros a; first [apply q_text_ok|apply bool_text_ok|apply dec_of_Z_text_ok]);
    try (apply text_ok_bracket; exact (forallb_In _ _ Hv)).
  discriminate.
Qed.

Lemma leaf_blk pfx v : is_group v = false -> value_ok v = true ->
  blk (ser_value isprint ShColor clr bg pfx v) (lay_value isprint pfx v).
Proof.
  intros Hg Hv. destruct v as [|s|e|b|z|n|t|t|t|t|s|t|l|l|l|l|l|l|l|items];
    try (rewrite leaf_same by (try reflexivity; intros ? ?; discriminate); apply blk_text; apply lay_leaf_ok; [reflexivity|exact Hv]).
  - (* error: red, then reset *)
    cbn [ser_value lay_value]. apply blk_of_off. apply blk_pre_off; [apply blk_echo; unfold clr_error; lia|].
    apply blk_app_reset. apply blk_text. apply q_text_ok.
  - discriminate.
Qed.

(* keys *)
Lemma dot_prefix_ok k pfx : text_ok k = true -> text_ok pfx = true -> text_ok (dot_prefix k pfx) = true.
Proof.
  intros Hk Hp. unfold dot_prefix. destruct pfx as [|b p]; [exact Hk|].
  rewrite text_ok_app, Hp. rewrite text_ok_cons, Hk. reflexivity.
Qed.
Lemma key_blk grp dk : text_ok dk = true -> blk (key_part ShColor clr bg grp dk) (lay_key grp dk).
Proof.
  intros Hk. unfold key_part, lay_key. destruct grp; [exact blk_nil|].
  apply blk_pre; [apply blk_echo_bg; unfold clr_dark_gray, clr_none; lia|].
  apply blk_app; [exact (blk_text dk Hk)|].
  apply blk_pre; [exact (blk_echo_bg clr bg Hclr Hbg)|]. apply blk_text. reflexivity.
Qed.

Definition member_sep (x : bytes) : bytes := x20 :: echo_color_bg clr bg ++ x.

Lemma members_blk items : (forall k x, In (A k x) items -> forall pfx, value_ok x = true -> text_ok pfx = true ->
      blk (ser_value isprint ShColor clr bg pfx x) (lay_value isprint pfx x)) ->
  forall pfx, attrs_ok items = true -> text_ok pfx = true ->
  blk (concat (map member_sep (members_of isprint ShColor clr bg pfx items))) (lay_members isprint pfx items).
Proof.
  induction items as [|a t IH]; intros HP pfx Hok Hp; [exact blk_nil|].
  destruct a as [k x|]; cbn [members_of lay_members attrs_ok] in *.
  - apply andb_true_iff in Hok. destruct Hok as [Hok Ht]. apply andb_true_iff in Hok. destruct Hok as [Hk Hx].
    cbn [map concat]. unfold member_sep at 1. cbn [app].
    assert (Hdk : text_ok (dkey ShColor pfx k) = true) by (exact (dot_prefix_ok k pfx Hk Hp)).
    change (dkey ShColor pfx k) with (dot_prefix k pfx) in *.
    apply blk_cons; [reflexivity|]. rewrite <- app_assoc.
    apply blk_pre; [exact (blk_echo_bg clr bg Hclr Hbg)|]. rewrite <- app_assoc.
    apply blk_app; [exact (key_blk (is_group x) _ Hdk)|].
    apply blk_app; [exact (HP k x (or_introl eq_refl) _ Hx Hdk)|].
    apply IH; [|exact Ht|exact Hp]. intros k' x' Hin. apply (HP k' x'). right. exact Hin.
  - apply IH; [|exact Hok|exact Hp]. intros k' x' Hin. apply (HP k' x'). right. exact Hin.
Qed.

Lemma value_blk : forall v pfx, value_ok v = true -> text_ok pfx = true ->
  blk (ser_value isprint ShColor clr bg pfx v) (lay_value isprint pfx v).
Proof.
  apply (value_ind2 (fun v => forall pfx, value_ok v = true -> text_ok pfx = true ->
                                blk (ser_value isprint ShColor clr bg pfx v) (lay_value isprint pfx v))).
  - intros v Hg pfx Hv _. exact (leaf_blk pfx v Hg Hv).
  - intros items HP pfx Hv Hp. rewrite ser_group, lay_group. rewrite value_ok_group in Hv.
    unfold render_members. apply blk_of_off. apply blk_app_reset.
    exact (members_blk items HP pfx Hv Hp).
Qed.

(* serializeAttrs at top level: the members, then the reset *)
Lemma ser_top_blk attrs : attrs_ok (norm_attrs attrs) = true ->
  blk_off (ser_top isprint ShColor clr bg attrs) (lay_members isprint [] (norm_attrs attrs)).
Proof.
  intros Hok. unfold ser_top, render_members. apply blk_app_reset.
  apply (members_blk (norm_attrs attrs)); [|exact Hok|reflexivity].
  intros k x _ pfx Hx Hp. exact (value_blk x pfx Hx Hp).
Qed.

Lemma text_ok_rev l : text_ok (rev l) = text_ok l.
Proof.
  induction l as [|a l IH]; [reflexivity|]. cbn [rev]. rewrite text_ok_app, IH, !text_ok_cons.
  change (text_ok []) with true. destruct (okb a), (text_ok l); reflexivity.
Qed.
Lemma after_last_slash_ok s : text_ok s = true -> text_ok (after_last_slash s) = true.
Proof.
  unfold after_last_slash. assert (H : forall s acc, text_ok acc = true -> text_ok s = true -> text_ok (after_last_slash_aux acc s) = true).
  { clear. induction s as [|b t IH]; intros acc Ha Hs; cbn [after_last_slash_aux].
    - rewrite text_ok_rev. exact Ha.
    - rewrite text_ok_cons in Hs. apply andb_true_iff in Hs. destruct Hs as [Hb Ht].
      destruct (bz b =? 47); apply IH; try assumption; try reflexivity. rewrite text_ok_cons, Hb, Ha. reflexivity. }
  apply H. reflexivity.
Qed.

(* the caller: nothing, or text that ends with every colour off *)
Lemma caller_blk c : caller_texts_ok c = true ->
  (forall r, strip_sgr (caller_part isprint ShColor c ++ r) = lay_caller c ++ strip_sgr r) /\
  (forall r, sgr_scan false (caller_part isprint ShColor c ++ r) = sgr_scan false r).
Proof.
  intros H. destruct c as [[[file line] fn]|]; [|split; intros; reflexivity].
  cbn [caller_texts_ok] in H. apply andb_true_iff in H. destruct H as [Hf Hfn].
  assert (B : blk_off (caller_part isprint ShColor (Some (file, line, fn))) (lay_caller (Some (file, line, fn)))).
  { unfold caller_part, lay_caller.
    replace (x20 :: file ++ x3a :: dec_of_Z line ++ x20 :: lib_wrap_color clr_dark_gray (after_last_slash fn) ++ sgr_reset)
      with ((x20 :: file ++ x3a :: dec_of_Z line ++ [x20]) ++ (lib_wrap_color clr_dark_gray (after_last_slash fn) ++ sgr_reset))
      by (cbn [app]; rewrite <- !app_assoc; cbn [app]; rewrite <- !app_assoc; reflexivity).
    replace (x20 :: file ++ x3a :: dec_of_Z line ++ x20 :: after_last_slash fn)
      with ((x20 :: file ++ x3a :: dec_of_Z line ++ [x20]) ++ after_last_slash fn)
      by (cbn [app]; rewrite <- !app_assoc; cbn [app]; rewrite <- !app_assoc; reflexivity).
    apply blk_app_off.
    - apply blk_text. rewrite text_ok_cons, text_ok_app, Hf, text_ok_cons, text_ok_app, dec_of_Z_text_ok. reflexivity.
    - apply blk_app_reset. apply blk_of_off. apply blk_off_lib_wrap; [unfold clr_dark_gray; lia|].
      apply after_last_slash_ok. exact Hfn. }
  destruct B as [B1 B2]. split; [exact B1|]. intros r. apply B2.
Qed.
End Blocks.

(* ---------- the message: first line and remaining lines ---------- *)
Lemma forallb_rev {A} (f : A -> bool) l : forallb f (rev l) = forallb f l.
Proof.
  induction l as [|a l IH]; [reflexivity|]. cbn [rev forallb]. rewrite forallb_app, IH. cbn [forallb].
  destruct (f a), (forallb f l); reflexivity.
Qed.

Lemma split_aux_all (f : byte -> bool) s : forall cur, forallb f cur = true -> forallb f s = true ->
  forall l, In l (split_lf_aux cur s) -> forallb f l = true.
Proof.
  induction s as [|b t IH]; intros cur Hc Hs l Hl; cbn [split_lf_aux] in Hl.
  - destruct Hl as [<-|[]]. rewrite forallb_rev. exact Hc.
  - cbn [forallb] in Hs. apply andb_true_iff in Hs. destruct Hs as [Hb Ht].
    destruct (is_lf b).
    + destruct Hl as [<-|Hl]; [rewrite forallb_rev; exact Hc|]. exact (IH [] eq_refl Ht l Hl).
    + apply (IH (b :: cur)); [cbn [forallb]; rewrite Hb, Hc; reflexivity|exact Ht|exact Hl].
Qed.
Lemma split_all (f : byte -> bool) s : forallb f s = true -> forall l, In l (split_lf s) -> forallb f l = true.
Proof. intros H. exact (split_aux_all f s [] eq_refl H). Qed.

Definition nolf (s : bytes) : bool := forallb (fun b => negb (is_lf b)) s.
Lemma split_aux_nolf s : forall cur, nolf cur = true -> forall l, In l (split_lf_aux cur s) -> nolf l = true.
Proof.
  induction s as [|b t IH]; intros cur Hc l Hl; cbn [split_lf_aux] in Hl.
  - destruct Hl as [<-|[]]. unfold nolf. rewrite forallb_rev. exact Hc.
  - destruct (is_lf b) eqn:E.
    + destruct Hl as [<-|Hl]; [unfold nolf; rewrite forallb_rev; exact Hc|]. exact (IH [] eq_refl l Hl).
    + apply (IH (b :: cur)); [|exact Hl]. unfold nolf in *. cbn [forallb]. rewrite E, Hc. reflexivity.
Qed.
Lemma split_nolf s : forall l, In l (split_lf s) -> nolf l = true.
Proof. exact (split_aux_nolf s [] eq_refl). Qed.

Lemma text_ok_of s : esc_free s = true -> nolf s = true -> text_ok s = true.
Proof.
  unfold esc_free, nolf, text_ok. rewrite !forallb_forall. intros H1 H2 b Hb. rewrite (H1 b Hb), (H2 b Hb). reflexivity.
Qed.

Lemma drop_while_all {A} (f g : A -> bool) l : forallb f l = true -> forallb f (drop_while g l) = true.
Proof.
  induction l as [|a l IH]; intros H; [reflexivity|]. cbn [drop_while]. destruct (g a); [|exact H].
  cbn [forallb] in H. apply andb_true_iff in H. apply IH. tauto.
Qed.
Lemma trim_all (f : byte -> bool) s : forallb f s = true -> forallb f (trim_right_crlf s) = true.
Proof. intros H. unfold trim_right_crlf. rewrite forallb_rev. apply drop_while_all. rewrite forallb_rev. exact H. Qed.
Lemma drop_while_head {A} (f : A -> bool) l b t : drop_while f l = b :: t -> f b = false.
Proof.
  induction l as [|a l IH]; intros H; [discriminate|]. cbn [drop_while] in H. destruct (f a) eqn:E; [exact (IH H)|].
  injection H as -> _. exact E.
Qed.

Lemma join_all (f : byte -> bool) sep l : forallb f sep = true -> (forall x, In x l -> forallb f x = true) ->
  forallb f (join_with sep l) = true.
Proof.
  intros Hs. induction l as [|x t IH]; intros H; [reflexivity|].
  destruct t as [|y t']; [apply H; left; reflexivity|].
  change (join_with sep (x :: y :: t')) with (x ++ sep ++ join_with sep (y :: t')).
  rewrite !forallb_app, Hs, (H x (or_introl eq_refl)), IH; [reflexivity|].
  intros z Hz. apply H. right. exact Hz.
Qed.

(* splitFirstAndRestLines in terms of the lines of the body *)
Lemma split_first_rest_eq msg :
  split_first_rest msg =
  (hd [] (split_lf (fst (msg_body msg))), join_with [x0a] (tl (split_lf (fst (msg_body msg)))), snd (msg_body msg)).
Proof.
  destruct msg as [|b t]; [reflexivity|].
  unfold split_first_rest, msg_body. cbv zeta. cbn [fst snd].
  destruct (split_lf _) as [|first [|x rest]]; reflexivity.
Qed.

Lemma body_all (f : byte -> bool) msg : forallb f msg = true -> forallb f (fst (msg_body msg)) = true.
Proof.
  intros H. unfold msg_body. cbv zeta. cbn [fst]. destruct (match rev msg with b :: _ => is_lf b | [] => false end); [|exact H].
  apply trim_all. exact H.
Qed.

(* the body never ends with a line feed *)
Lemma body_no_final_lf msg s' : fst (msg_body msg) <> s' ++ [x0a].
Proof.
  unfold msg_body. cbv zeta. cbn [fst]. destruct (match rev msg with b :: _ => is_lf b | [] => false end) eqn:E; intros H.
  - unfold trim_right_crlf in H. apply (f_equal (@rev byte)) in H. rewrite rev_involutive, rev_app_distr in H. cbn [rev app] in H.
    apply drop_while_head in H. discriminate.
  - rewrite H in E. rewrite rev_app_distr in E. cbn [rev app] in E. discriminate.
Qed.

Lemma split_aux_nonempty cur s : split_lf_aux cur s <> [].
Proof. revert cur. induction s as [|b t IH]; intros cur; cbn [split_lf_aux]; [discriminate|]. destruct (is_lf b); [discriminate|apply IH]. Qed.

Lemma last_cons_nonempty {A} (x : A) l d : l <> [] -> last (x :: l) d = last l d.
Proof. destruct l; [congruence|reflexivity]. Qed.

Lemma split_aux_last_empty s : forall cur, last (split_lf_aux cur s) [x00] = [] ->
  (s = [] /\ cur = []) \/ (exists s', s = s' ++ [x0a]).
Proof.
  induction s as [|b t IH]; intros cur H; cbn [split_lf_aux] in H.
  - left. split; [reflexivity|]. cbn [last] in H. destruct cur as [|c cur]; [reflexivity|].
    cbn [rev] in H. destruct (rev cur); discriminate.
  - right. destruct (is_lf b) eqn:E.
    + rewrite last_cons_nonempty in H by apply split_aux_nonempty.
      assert (Hb : b = x0a). { unfold is_lf in E. apply bz_inj. change (bz x0a) with 10. lia. }
      subst b. destruct (IH [] H) as [[-> _]|[s' ->]]; [exists []; reflexivity|exists (x0a :: s'); reflexivity].
    + destruct (IH (b :: cur) H) as [[_ Hc]|[s' ->]]; [discriminate|exists (b :: s'); reflexivity].
Qed.

(* with more than one line, the last line of the body is not empty *)
Lemma body_rest_nonempty msg first x : split_lf (fst (msg_body msg)) = [first; x] -> x <> [].
Proof.
  intros H Hx. subst x.
  destruct (split_aux_last_empty (fst (msg_body msg)) []) as [[Hb _]|[s' Hb]].
  - unfold split_lf in H. rewrite H. reflexivity.
  - rewrite Hb in H. discriminate.
  - exact (body_no_final_lf msg s' Hb).
Qed.

(* splitting what was joined *)
Lemma split_aux_app x : forall cur r, nolf x = true -> split_lf_aux cur (x ++ r) = split_lf_aux (rev x ++ cur) r.
Proof.
  induction x as [|b x IH]; intros cur r H; [reflexivity|].
  unfold nolf in H. cbn [forallb] in H. apply andb_true_iff in H. destruct H as [Hb Hx].
  cbn [app split_lf_aux]. destruct (is_lf b); [discriminate|]. rewrite IH by exact Hx.
  cbn [rev]. rewrite <- app_assoc. reflexivity.
Qed.
Lemma split_single x : nolf x = true -> split_lf x = [x].
Proof.
  intros H. unfold split_lf. rewrite <- (app_nil_r x) at 1. rewrite split_aux_app by exact H.
  cbn [split_lf_aux]. rewrite app_nil_r, rev_involutive. reflexivity.
Qed.
Lemma split_cons x r : nolf x = true -> split_lf (x ++ x0a :: r) = x :: split_lf r.
Proof.
  intros H. unfold split_lf. rewrite split_aux_app by exact H. cbn [split_lf_aux].
  change (is_lf x0a) with true. cbv iota. rewrite app_nil_r, rev_involutive. reflexivity.
Qed.
Lemma split_join ls : ls <> [] -> (forall l, In l ls -> nolf l = true) -> split_lf (join_with [x0a] ls) = ls.
Proof.
  induction ls as [|x t IH]; intros Hne H; [congruence|].
  destruct t as [|y t']; [apply split_single; apply H; left; reflexivity|].
  change (join_with [x0a] (x :: y :: t')) with (x ++ x0a :: join_with [x0a] (y :: t')).
  rewrite split_cons by (apply H; left; reflexivity). f_equal. apply IH; [discriminate|].
  intros l Hl. apply H. right. exact Hl.
Qed.
Lemma nolf_existsb x : nolf x = true -> existsb is_lf x = false.
Proof.
  induction x as [|b x IH]; intros H; [reflexivity|]. unfold nolf in H. cbn [forallb] in H.
  apply andb_true_iff in H. destruct H as [Hb Hx]. cbn [existsb]. rewrite (IH Hx). destruct (is_lf b); [discriminate|reflexivity].
Qed.

(* ---------- the remaining lines ---------- *)
Definition lead4 : bytes := [x20; x20; x20; x20].

Section Rest.
Variable clr bg : Z.
Hypothesis Hclr : 0 <= clr.
Hypothesis Hbg : -1 <= bg.

Definition wrap_line (l : bytes) : bytes := wrap_color_and_bg (lead4 ++ l) clr bg.

Lemma wrap_line_blk l : text_ok l = true -> blk_off (wrap_line l) (lead4 ++ l).
Proof. intros H. apply blk_off_wrap; [exact Hclr|exact Hbg|]. rewrite text_ok_app, H. reflexivity. Qed.

Lemma scan_lf r : sgr_scan false (x0a :: r) = sgr_scan false r.
Proof. reflexivity. Qed.
Lemma strip_lf r : strip_sgr (x0a :: r) = x0a :: strip_sgr r.
Proof. reflexivity. Qed.

Lemma joined_lines ls : (forall l, In l ls -> text_ok l = true) -> forall r,
  strip_sgr (join_with [x0a] (map wrap_line ls) ++ r) = join_with [x0a] (map (app lead4) ls) ++ strip_sgr r
  /\ sgr_scan false (join_with [x0a] (map wrap_line ls) ++ r) = sgr_scan false r.
Proof.
  induction ls as [|x t IH]; intros H r; [split; reflexivity|].
  pose proof (wrap_line_blk x (H x (or_introl eq_refl))) as [B1 B2].
  destruct t as [|y t'].
  - cbn [map join_with]. split; [apply B1|apply B2].
  - change (join_with [x0a] (map wrap_line (x :: y :: t'))) with (wrap_line x ++ [x0a] ++ join_with [x0a] (map wrap_line (y :: t'))).
    change (join_with [x0a] (map (app lead4) (x :: y :: t'))) with ((lead4 ++ x) ++ [x0a] ++ join_with [x0a] (map (app lead4) (y :: t'))).
    destruct (IH (fun l Hl => H l (or_intror Hl)) r) as [I1 I2].
    rewrite <- !app_assoc. split.
    + rewrite B1. cbn [app]. rewrite strip_lf, I1. rewrite <- !app_assoc. reflexivity.
    + rewrite B2. cbn [app]. rewrite scan_lf. exact I2.
Qed.

Lemma join_as_concat (f : bytes -> bytes) ls : ls <> [] ->
  x0a :: join_with [x0a] (map f ls) = concat (map (fun l => x0a :: f l) ls).
Proof.
  induction ls as [|x t IH]; intros Hne; [congruence|].
  destruct t as [|y t']; [cbn [map join_with concat]; rewrite app_nil_r; reflexivity|].
  change (join_with [x0a] (map f (x :: y :: t'))) with (f x ++ x0a :: join_with [x0a] (map f (y :: t'))).
  rewrite IH by discriminate. reflexivity.
Qed.

(* the part of the record after the caller, for the lines rl of the body after the first *)
Definition rest_part (rl : list bytes) (eol : bool) : bytes :=
  match join_with [x0a] rl with
  | [] => []
  | rest => x0a :: pad_rest rest clr bg ++ (if eol then [x0a] else [])
  end.

Lemma rest_part_nonempty rl eol : join_with [x0a] rl <> [] ->
  rest_part rl eol = x0a :: pad_rest (join_with [x0a] rl) clr bg ++ (if eol then [x0a] else []).
Proof. unfold rest_part. destruct (join_with [x0a] rl); [congruence|reflexivity]. Qed.

Definition tail_lf (eol : bool) : bytes := (if eol then [x0a] else []) ++ [x0a].
Lemma tail_scan eol : sgr_scan false (tail_lf eol) = Some false.
Proof. destruct eol; reflexivity. Qed.
Lemma tail_strip eol : strip_sgr (tail_lf eol) = tail_lf eol.
Proof. destruct eol; reflexivity. Qed.

Lemma rest_part_scan rl eol : (forall l, In l rl -> text_ok l = true) ->
  sgr_scan false (rest_part rl eol ++ [x0a]) = Some false.
Proof.
  intros H.
  assert (Hj : esc_free (join_with [x0a] rl) = true).
  { apply join_all; [reflexivity|]. intros x Hx. apply text_ok_esc_free. exact (H x Hx). }
  destruct (join_with [x0a] rl) as [|b rest] eqn:E.
  { unfold rest_part. rewrite E. reflexivity. }
  rewrite rest_part_nonempty by (rewrite E; discriminate). rewrite E.
  cbn [app]. rewrite scan_lf. rewrite <- app_assoc. fold (tail_lf eol). unfold pad_rest.
  destruct (existsb is_lf (b :: rest)) eqn:Ex.
  - assert (Hl : forall l, In l (split_lf (b :: rest)) -> text_ok l = true).
    { intros l Hl. apply text_ok_of; [exact (split_all _ _ Hj l Hl)|exact (split_nolf _ l Hl)]. }
    change (map _ (split_lf (b :: rest))) with (map wrap_line (split_lf (b :: rest))).
    destruct (joined_lines _ Hl (tail_lf eol)) as [_ I2]. rewrite I2. apply tail_scan.
  - rewrite <- app_assoc. rewrite (scan_text_off [x20; x20; x20; x20]) by reflexivity.
    rewrite scan_text_off by exact Hj. apply tail_scan.
Qed.

Lemma rest_part_strip msg first rl eol : split_lf (fst (msg_body msg)) = first :: rl ->
  (forall l, In l rl -> esc_free l = true) ->
  strip_sgr (rest_part rl eol ++ [x0a]) = lay_rest rl eol ++ [x0a].
Proof.
  intros Hs He.
  assert (Hn : forall l, In l rl -> nolf l = true).
  { intros l Hl. apply (split_nolf (fst (msg_body msg))). rewrite Hs. right. exact Hl. }
  assert (Ht : forall l, In l rl -> text_ok l = true) by (intros l Hl; apply text_ok_of; [exact (He l Hl)|exact (Hn l Hl)]).
  destruct rl as [|x [|y t]].
  - reflexivity.
  - (* one remaining line: not empty, no colour at all *)
    pose proof (body_rest_nonempty msg first x Hs) as Hx.
    rewrite rest_part_nonempty by exact Hx. cbn [join_with]. unfold pad_rest, lay_rest.
    rewrite (nolf_existsb _ (Hn _ (or_introl eq_refl))).
    cbn [map concat]. rewrite app_nil_r. cbn [app]. rewrite strip_lf. unfold indent4.
    rewrite <- !app_assoc. fold (tail_lf eol).
    rewrite !strip_cons by reflexivity. rewrite strip_text by (apply He; left; reflexivity).
    rewrite tail_strip. reflexivity.
  - (* several remaining lines: each in its own colour span *)
    assert (Hj : join_with [x0a] (x :: y :: t) = x ++ x0a :: join_with [x0a] (y :: t)) by reflexivity.
    rewrite rest_part_nonempty by (rewrite Hj; destruct x; discriminate).
    unfold pad_rest, lay_rest.
    assert (Ex : existsb is_lf (join_with [x0a] (x :: y :: t)) = true).
    { rewrite Hj. rewrite existsb_app. cbn [existsb]. change (is_lf x0a) with true. rewrite orb_true_r. reflexivity. }
    rewrite Ex. rewrite split_join by (try discriminate; exact Hn).
    change (map _ (x :: y :: t)) with (map wrap_line (x :: y :: t)) at 1.
    cbn [app]. rewrite strip_lf. rewrite <- !app_assoc. fold (tail_lf eol).
    destruct (joined_lines _ Ht (tail_lf eol)) as [I1 _]. rewrite I1, tail_strip.
    change (x0a :: ?u ++ ?v) with ((x0a :: u) ++ v). rewrite join_as_concat by discriminate.
    reflexivity.
Qed.
End Rest.

(* ---------- the whole record ---------- *)
Lemma right_pad_eq s w : right_pad s w = pad_to s w.
Proof. unfold right_pad, pad_to. f_equal. f_equal. lia. Qed.
Lemma pad_to_ok s w : text_ok s = true -> text_ok (pad_to s w) = true.
Proof. intros H. unfold pad_to. rewrite text_ok_app, H, text_ok_repeat_blank. reflexivity. Qed.

Section Main.
Variable isprint : Z -> bool.
Hypothesis isprint_ascii : forall r, 0 <= r < 128 -> isprint r = (32 <=? r) && (r <? 127).
Variable g : registry.

Lemma level_colors_ok lvl : colors_ok g = true ->
  0 <= fst (level_colors g lvl) /\ -1 <= snd (level_colors g lvl).
Proof.
  intros H. unfold level_colors. destruct (lookupZ (r_colors g) lvl) as [l|] eqn:E.
  - apply lookupZ_in in E. unfold colors_ok in H. rewrite forallb_forall in H. specialize (H _ E). cbn [snd] in H.
    destruct l as [|c [|b l']]; cbn [fst snd]; unfold clr_basic, clr_none; try lia.
    cbn [forallb] in H. lia.
  - cbn [fst snd]. unfold clr_basic, clr_none. lia.
Qed.

Definition color_record (c : ecfg) (msg : bytes) (attrs : list attr) : bytes :=
  let clr := fst (level_colors g (e_lvl c)) in
  let bg := snd (level_colors g (e_lvl c)) in
  let lines := split_lf (fst (msg_body msg)) in
  echo_color clr_timestamp ++ e_ts c ++ [x7c; x20]
  ++ (match e_name c with [] => [] | nm => lib_wrap_color_bg clr_logger_name clr_none nm ++ [x20] end)
  ++ lib_wrap_color_bg clr bg (x5b :: tag_of g (e_tagw c) (e_lvl c) ++ [x5d]) ++ [x20]
  ++ wrap_color_and_bg (right_pad (hd [] lines) (e_minw c)) clr bg
  ++ ser_top isprint ShColor clr bg attrs
  ++ caller_part isprint ShColor (e_caller c)
  ++ rest_part clr bg (tl lines) (snd (msg_body msg)) ++ [x0a].

(* what encode does in colour mode *)
Lemma encode_color c msg attrs : e_mode c = ShColor ->
  encode isprint g c msg attrs =
  if (e_lvl c =? lv_always) && all_blank msg then Some [x0a]
  else if has_markup (right_pad (hd [] (split_lf (fst (msg_body msg)))) (e_minw c)) then None
  else Some (color_record c msg attrs).
Proof.
  intros Hm. unfold encode. rewrite Hm. destruct ((e_lvl c =? lv_always) && all_blank msg); [reflexivity|].
  unfold color_record. destruct (level_colors g (e_lvl c)) as [clr bg]. rewrite split_first_rest_eq.
  cbn [fst snd]. destruct (has_markup _); [reflexivity|]. do 9 f_equal.
  unfold rest_part. destruct (join_with [x0a] _); reflexivity.
Qed.

Variable c : ecfg.
Variable msg : bytes.
Variable attrs : list attr.
Hypothesis Hcolors : colors_ok g = true.
Hypothesis Hts : text_ok (e_ts c) = true.
Hypothesis Hname : text_ok (e_name c) = true.
Hypothesis Hcaller : caller_texts_ok (e_caller c) = true.
Hypothesis Htag : text_ok (tag_of g (e_tagw c) (e_lvl c)) = true.
Hypothesis Hattrs : attrs_ok (norm_attrs attrs) = true.
Hypothesis Hmsg : esc_free msg = true.

Lemma lines_esc_free l : In l (split_lf (fst (msg_body msg))) -> esc_free l = true.
Proof. apply split_all. apply body_all. exact Hmsg. Qed.
Lemma lines_text_ok l : In l (split_lf (fst (msg_body msg))) -> text_ok l = true.
Proof. intros H. apply text_ok_of; [exact (lines_esc_free l H)|exact (split_nolf _ l H)]. Qed.
Lemma lines_cases : exists first rl, split_lf (fst (msg_body msg)) = first :: rl.
Proof.
  destruct (split_lf (fst (msg_body msg))) as [|first rl] eqn:E; [|exists first, rl; reflexivity].
  exfalso. exact (split_aux_nonempty [] _ E).
Qed.

Lemma name_blk : blk (match e_name c with [] => [] | nm => lib_wrap_color_bg clr_logger_name clr_none nm ++ [x20] end)
                     (match e_name c with [] => [] | nm => nm ++ [x20] end).
Proof.
  destruct (e_name c) as [|b nm]; [exact blk_nil|].
  apply blk_app; [|apply blk_text; reflexivity]. apply blk_of_off.
  apply blk_off_lib_wrap_bg; [unfold clr_logger_name; lia|unfold clr_none; lia|exact Hname].
Qed.

Lemma color_record_hygienic : hygienic (color_record c msg attrs).
Proof.
  destruct (level_colors_ok (e_lvl c) Hcolors) as [Hc Hb].
  destruct lines_cases as [first [rl El]].
  unfold hygienic, color_record. cbv zeta. rewrite El. cbn [hd tl].
  set (clr := fst (level_colors g (e_lvl c))) in *. set (bg := snd (level_colors g (e_lvl c))) in *.
  assert (Hts0 : -1 <= clr_timestamp) by (unfold clr_timestamp; lia).
  destruct (proj2 (blk_echo clr_timestamp Hts0) false) as [o1 E1]. rewrite E1.
  rewrite scan_text by exact Hts. rewrite scan_text by reflexivity.
  destruct (proj2 name_blk o1) as [o2 E2]. rewrite E2.
  assert (Htg : text_ok (x5b :: tag_of g (e_tagw c) (e_lvl c) ++ [x5d]) = true)
    by (rewrite text_ok_cons, text_ok_app, Htag; reflexivity).
  assert (Hc1 : -1 <= clr) by lia.
  rewrite (proj2 (blk_off_lib_wrap_bg clr bg _ Hc1 Hb Htg)).
  rewrite scan_text by reflexivity.
  assert (Hf : text_ok first = true) by (apply lines_text_ok; rewrite El; left; reflexivity).
  assert (Hpad : text_ok (right_pad first (e_minw c)) = true) by (rewrite right_pad_eq; apply pad_to_ok; exact Hf).
  rewrite (proj2 (blk_off_wrap (right_pad first (e_minw c)) clr bg Hc Hb Hpad)).
  rewrite (proj2 (ser_top_blk isprint isprint_ascii clr bg Hc1 Hb attrs Hattrs)).
  rewrite (proj2 (caller_blk isprint isprint_ascii (e_caller c) Hcaller)).
  apply rest_part_scan; [exact Hc|exact Hb|].
  intros l Hl. apply lines_text_ok. rewrite El. right. exact Hl.
Qed.

Lemma color_record_layout : strip_sgr (color_record c msg attrs) = layout_of isprint g c msg attrs.
Proof.
  destruct (level_colors_ok (e_lvl c) Hcolors) as [Hc Hb].
  destruct lines_cases as [first [rl El]].
  unfold color_record, layout_of. cbv zeta.
  rewrite (surjective_pairing (msg_body msg)) at 4. rewrite El. cbn [hd tl].
  set (clr := fst (level_colors g (e_lvl c))) in *. set (bg := snd (level_colors g (e_lvl c))) in *.
  assert (Hts0 : -1 <= clr_timestamp) by (unfold clr_timestamp; lia).
  rewrite (proj1 (blk_echo clr_timestamp Hts0)). rewrite app_nil_l.
  rewrite strip_text by (apply text_ok_esc_free; exact Hts). f_equal.
  rewrite (strip_text [x7c; x20]) by reflexivity. f_equal.
  rewrite (proj1 name_blk). f_equal.
  assert (Htg : text_ok (x5b :: tag_of g (e_tagw c) (e_lvl c) ++ [x5d]) = true)
    by (rewrite text_ok_cons, text_ok_app, Htag; reflexivity).
  assert (Hc1 : -1 <= clr) by lia.
  rewrite (proj1 (blk_off_lib_wrap_bg clr bg _ Hc1 Hb Htg)).
  rewrite (strip_text [x20]) by reflexivity.
  assert (Hf : text_ok first = true) by (apply lines_text_ok; rewrite El; left; reflexivity).
  assert (Hpad : text_ok (right_pad first (e_minw c)) = true) by (rewrite right_pad_eq; apply pad_to_ok; exact Hf).
  rewrite (proj1 (blk_off_wrap (right_pad first (e_minw c)) clr bg Hc Hb Hpad)).
  rewrite (proj1 (ser_top_blk isprint isprint_ascii clr bg Hc1 Hb attrs Hattrs)).
  rewrite (proj1 (caller_blk isprint isprint_ascii (e_caller c) Hcaller)).
  rewrite (rest_part_strip clr bg Hc Hb msg first rl _ El)
    by (intros l Hl; apply lines_esc_free; rewrite El; right; exact Hl).
  rewrite right_pad_eq. cbn [app]. rewrite <- !app_assoc. cbn [app]. reflexivity.
Qed.
End Main.

(* ---------- the hypotheses are stable under sorting and de-duplication ---------- *)
Lemma attrs_ok_iff l : attrs_ok l = true <-> (forall k x, In (A k x) l -> text_ok k = true /\ value_ok x = true).
Proof.
  induction l as [|a t IH]; cbn [attrs_ok].
  - split; [intros _ k x []|reflexivity].
  - destruct a as [k0 x0|].
    + rewrite !andb_true_iff, IH. split.
      * intros [[Hk Hx] Ht] k x [E|Hin]; [injection E as <- <-; split; assumption|exact (Ht k x Hin)].
      * intros H. split; [exact (H k0 x0 (or_introl eq_refl))|]. intros k x Hin. apply H. right. exact Hin.
    + rewrite IH. split; intros H k x Hin.
      * destruct Hin as [E|Hin]; [discriminate|exact (H k x Hin)].
      * apply H. right. exact Hin.
Qed.

Lemma norm_group items : norm_value (VGroup items) = VGroup (sort_dedupe (map norm_attr items)).
Proof.
  cbn [norm_value]. do 2 f_equal.
  induction items as [|a t IH]; [reflexivity|].
  destruct a as [k x|]; cbn [map norm_attr]; cbv beta iota fix; f_equal; exact IH.
Qed.

Lemma norm_attrs_in k x l : In (A k x) (sort_dedupe (map norm_attr l)) -> exists x0, In (A k x0) l /\ x = norm_value x0.
Proof.
  intros H. apply sort_dedupe_incl in H. apply in_map_iff in H. destruct H as [a [E Hin]].
  destruct a as [k0 x0|]; [|discriminate]. cbn [norm_attr] in E. injection E as <- <-. exists x0. split; [exact Hin|reflexivity].
Qed.

Lemma value_ok_norm : forall v, value_ok v = true -> value_ok (norm_value v) = true.
Proof.
  apply (value_ind2 (fun v => value_ok v = true -> value_ok (norm_value v) = true)).
  - intros v Hg H. destruct v; try exact H. discriminate.
  - intros items IH H. rewrite norm_group, value_ok_group. rewrite value_ok_group in H.
    rewrite attrs_ok_iff in H. apply attrs_ok_iff. intros k x Hin.
    destruct (norm_attrs_in k x items Hin) as [x0 [Hin0 ->]]. destruct (H k x0 Hin0) as [Hk Hx].
    split; [exact Hk|]. exact (IH k x0 Hin0 Hx).
Qed.

Lemma attrs_ok_norm l : attrs_ok l = true -> attrs_ok (norm_attrs l) = true.
Proof.
  intros H. rewrite attrs_ok_iff in H. apply attrs_ok_iff. intros k x Hin. unfold norm_attrs in Hin.
  destruct (norm_attrs_in k x l Hin) as [x0 [Hin0 ->]]. destruct (H k x0 Hin0) as [Hk Hx].
  split; [exact Hk|exact (value_ok_norm x0 Hx)].
Qed.

(* ---------- the layout domain ---------- *)
Lemma layout_byte_noesc b : layout_byte b = true -> is_esc b = false.
Proof. unfold layout_byte, is_esc. lia. Qed.
Lemma layout_domain_esc_free msg : layout_domain msg = true -> esc_free msg = true.
Proof.
  unfold layout_domain, esc_free. rewrite !forallb_forall. intros H b Hb. rewrite (layout_byte_noesc b (H b Hb)). reflexivity.
Qed.
Lemma existsb_repeat_false {A} (f : A -> bool) a n : f a = false -> existsb f (repeat a n) = false.
Proof. intros H. induction n as [|n IH]; [reflexivity|]. cbn [repeat existsb]. rewrite H, IH. reflexivity. Qed.
Lemma layout_domain_no_markup msg w : layout_domain msg = true ->
  has_markup (right_pad (hd [] (split_lf (fst (msg_body msg)))) w) = false.
Proof.
  intros H. unfold has_markup, right_pad. rewrite existsb_app.
  rewrite existsb_repeat_false by reflexivity. rewrite orb_false_r.
  assert (Hf : forallb layout_byte (hd [] (split_lf (fst (msg_body msg)))) = true).
  { destruct (split_lf (fst (msg_body msg))) as [|first rl] eqn:E; [reflexivity|]. cbn [hd].
    apply (split_all layout_byte (fst (msg_body msg))); [apply body_all; exact H|rewrite E; left; reflexivity]. }
  induction (hd [] (split_lf (fst (msg_body msg)))) as [|b t IH]; [reflexivity|].
  cbn [forallb] in Hf. apply andb_true_iff in Hf. destruct Hf as [Hb Ht]. cbn [existsb]. rewrite (IH Ht).
  unfold layout_byte in Hb. lia.
Qed.

(* ---------- the level tag ---------- *)
Lemma tag_length g w lvl : tags_ok g = true -> 1 <= w <= 5 -> length (tag_of g w lvl) = Z.to_nat w.
Proof.
  intros Ht Hw. unfold tag_of.
  destruct (match lookupZ (r_tags g) w with Some m => lookupZ m lvl | None => None end) as [t|] eqn:E.
  - unfold short_tag. replace ((w <=? 0) || (6 <=? w)) with false by lia. rewrite E.
    destruct (lookupZ (r_tags g) w) as [m|] eqn:E1; [|discriminate].
    apply lookupZ_in in E1. apply lookupZ_in in E. unfold tags_ok in Ht. rewrite forallb_forall in Ht.
    specialize (Ht _ E1). cbn [snd fst] in Ht. rewrite forallb_forall in Ht. specialize (Ht _ E). cbn [snd] in Ht.
    apply Nat.eqb_eq. exact Ht.
  - destruct (short_tag_length g w lvl Hw E) as [t [-> Hl]]. exact Hl.
Qed.

(* ---------- colour numbers ---------- *)
Lemma colors_ok_register g v t o : colors_ok g = true -> (o_clr o = -1 \/ 0 <= o_clr o) -> -1 <= o_bg o ->
  colors_ok (fst (register g v t o)) = true.
Proof.
  intros Hg Hc Hb. unfold register. destruct (memZ (r_all g) v); [exact Hg|].
  destruct (lookupB (r_s2l g) (to_lower t)); [exact Hg|]. cbn [fst]. unfold colors_ok. cbn [r_colors].
  destruct (o_clr o =? -1) eqn:E; [exact Hg|]. rewrite forallb_app. unfold colors_ok in Hg. rewrite Hg.
  cbn [forallb snd]. destruct (o_bg o =? -1); cbn [forallb]; lia.
Qed.

(* ---------- C06_values_clean ---------- *)
Fixpoint raw_attrs (l : list attr) : list bytes :=
  match l with
  | [] => []
  | ANil :: t => raw_attrs t
  | A k x :: t => k :: raw_texts x ++ raw_attrs t
  end.
Lemma raw_group items : raw_texts (VGroup items) = raw_attrs items.
Proof.
  cbn [raw_texts]. induction items as [|a t IH]; [reflexivity|].
  destruct a as [k x|]; cbn [raw_attrs]; cbv beta iota fix; [do 2 f_equal; exact IH|exact IH].
Qed.

Lemma clean_dig b : is_dig b = true -> clean b.
Proof. unfold is_dig, clean. lia. Qed.
Lemma dec_of_Z_clean z : Forall clean (dec_of_Z z).
Proof.
  assert (H : forall n, Forall clean (dec_of_N n)).
  { intros n. destruct (dec_of_N_digits n) as [Hd _]. unfold all_dig in Hd. eapply Forall_impl; [|exact Hd]. exact clean_dig. }
  unfold dec_of_Z. destruct (z <? 0); [constructor; [lit|apply H]|apply H].
Qed.
Lemma bool_text_clean b : Forall clean (bool_text b).
Proof. destruct b; cbn [bool_text]; lits; constructor. Qed.
Lemma join_clean sep l : Forall clean sep -> Forall (Forall clean) l -> Forall clean (join_with sep l).
Proof.
  intros Hs H. induction l as [|x t IH]; [constructor|]. inversion H as [|? ? Hx Ht]; subst.
  destruct t as [|y t']; [exact Hx|].
  change (join_with sep (x :: y :: t')) with (x ++ sep ++ join_with sep (y :: t')).
  apply Forall_app. split; [exact Hx|]. apply Forall_app. split; [exact Hs|exact (IH Ht)].
Qed.
Lemma bracket_clean l : Forall (Forall clean) l -> Forall clean (bracket l).
Proof.
  intros H. unfold bracket. constructor; [lit|]. apply Forall_app. split; [|lits; constructor].
  apply join_clean; [lits; constructor|exact H].
Qed.
Lemma bracket_map_clean {X} (f : X -> bytes) l : (forall a, Forall clean (f a)) -> Forall clean (bracket (map f l)).
Proof. intros H. apply bracket_clean. apply Forall_forall. intros x Hx. apply in_map_iff in Hx. destruct Hx as [a [<- _]]. apply H. Qed.
Lemma dot_prefix_clean k pfx : Forall clean k -> Forall clean pfx -> Forall clean (dot_prefix k pfx).
Proof.
  intros Hk Hp. unfold dot_prefix. destruct pfx as [|b p]; [exact Hk|].
  apply Forall_app. split; [exact Hp|]. constructor; [lit|exact Hk].
Qed.
Lemma Forall_clean_text_ok_all l : Forall (Forall clean) l -> forallb text_ok l = true.
Proof. intros H. apply forallb_forall. intros x Hx. rewrite Forall_forall in H. exact (clean_text_ok x (H x Hx)). Qed.

Section Values.
Variable isprint : Z -> bool.
Hypothesis isprint_ascii : forall r, 0 <= r < 128 -> isprint r = (32 <=? r) && (r <? 127).

Lemma q_clean s : Forall clean (q isprint s).
Proof. exact (quote_clean isprint isprint_ascii s). Qed.

Lemma lay_leaf_clean pfx v : is_group v = false -> Forall (Forall clean) (raw_texts v) -> Forall clean (lay_value isprint pfx v).
Proof.
  intros Hg H.
  destruct v as [|s|e|b|z|n|t|t|t|t|s|t|l|l|l|l|l|l|l|items]; cbn [lay_value raw_texts] in *;
    try apply q_clean; try apply bool_text_clean; try apply dec_of_Z_clean;
    try (inversion H; assumption);
    try (apply bracket_map_clean; intros a; first [apply q_clean|apply bool_text_clean|apply dec_of_Z_clean]);
    try (apply bracket_clean; exact H).
  - unfold nil_text. lits. constructor.
  - discriminate.
Qed.

Lemma lay_members_clean items : (forall k x, In (A k x) items -> forall pfx, Forall clean pfx ->
      Forall (Forall clean) (raw_texts x) -> Forall clean (lay_value isprint pfx x)) ->
  forall pfx, Forall clean pfx -> Forall (Forall clean) (raw_attrs items) -> Forall clean (lay_members isprint pfx items).
Proof.
  induction items as [|a t IH]; intros HP pfx Hp H; [constructor|].
  destruct a as [k x|]; cbn [lay_members raw_attrs] in *.
  - inversion H as [|? ? Hk H']; subst. apply Forall_app in H'. destruct H' as [Hx Ht].
    assert (Hdk : Forall clean (dot_prefix k pfx)) by (exact (dot_prefix_clean k pfx Hk Hp)).
    constructor; [lit|]. apply Forall_app. split.
    { unfold lay_key. destruct (is_group x); [constructor|]. apply Forall_app. split; [exact Hdk|lits; constructor]. }
    apply Forall_app. split; [exact (HP k x (or_introl eq_refl) _ Hdk Hx)|].
    apply IH; [|exact Hp|exact Ht]. intros k' x' Hin. apply (HP k' x'). right. exact Hin.
  - apply IH; [|exact Hp|exact H]. intros k' x' Hin. apply (HP k' x'). right. exact Hin.
Qed.

Lemma lay_value_clean : forall v pfx, Forall clean pfx -> Forall (Forall clean) (raw_texts v) ->
  Forall clean (lay_value isprint pfx v).
Proof.
  apply (value_ind2 (fun v => forall pfx, Forall clean pfx -> Forall (Forall clean) (raw_texts v) ->
                                Forall clean (lay_value isprint pfx v))).
  - intros v Hg pfx _ H. exact (lay_leaf_clean pfx v Hg H).
  - intros items HP pfx Hp H. rewrite lay_group. rewrite raw_group in H. exact (lay_members_clean items HP pfx Hp H).
Qed.

Lemma raw_clean_attrs_ok items : (forall k x, In (A k x) items -> Forall (Forall clean) (raw_texts x) -> value_ok x = true) ->
  Forall (Forall clean) (raw_attrs items) -> attrs_ok items = true.
Proof.
  induction items as [|a t IH]; intros HP H; [reflexivity|].
  destruct a as [k x|]; cbn [attrs_ok raw_attrs] in *.
  - inversion H as [|? ? Hk H']; subst. apply Forall_app in H'. destruct H' as [Hx Ht].
    rewrite (clean_text_ok k Hk), (HP k x (or_introl eq_refl) Hx). cbn [andb].
    apply IH; [|exact Ht]. intros k' x' Hin. apply (HP k' x'). right. exact Hin.
  - apply IH; [|exact H]. intros k' x' Hin. apply (HP k' x'). right. exact Hin.
Qed.
Lemma raw_clean_value_ok : forall v, Forall (Forall clean) (raw_texts v) -> value_ok v = true.
Proof.
  apply (value_ind2 (fun v => Forall (Forall clean) (raw_texts v) -> value_ok v = true)).
  - intros v Hg H. destruct v; cbn [value_ok raw_texts] in *; try reflexivity;
      try (inversion H; apply clean_text_ok; assumption); try (apply Forall_clean_text_ok_all; exact H). discriminate.
  - intros items HP H. rewrite value_ok_group. rewrite raw_group in H. exact (raw_clean_attrs_ok items HP H).
Qed.

Lemma values_clean clr bg v pfx : -1 <= clr -> -1 <= bg -> Forall clean pfx -> Forall (Forall clean) (raw_texts v) ->
  blk (ser_value isprint ShColor clr bg pfx v) (lay_value isprint pfx v) /\ Forall clean (lay_value isprint pfx v).
Proof.
  intros Hc Hb Hp H. split; [|exact (lay_value_clean v pfx Hp H)].
  apply (value_blk isprint isprint_ascii clr bg Hc Hb); [exact (raw_clean_value_ok v H)|exact (clean_text_ok pfx Hp)].
Qed.
End Values.

(* ---------- the theorems of Props/C06.v ---------- *)
Lemma join_split_aux s : forall cur, join_with [x0a] (split_lf_aux cur s) = rev cur ++ s.
Proof.
  induction s as [|b t IH]; intros cur; cbn [split_lf_aux]; [cbn [join_with]; rewrite app_nil_r; reflexivity|].
  destruct (is_lf b) eqn:E.
  - assert (Hb : b = x0a). { unfold is_lf in E. apply bz_inj. change (bz x0a) with 10. lia. } subst b.
    destruct (split_lf_aux [] t) as [|y t'] eqn:E2; [exfalso; exact (split_aux_nonempty [] t E2)|].
    change (join_with [x0a] (rev cur :: y :: t')) with (rev cur ++ x0a :: join_with [x0a] (y :: t')).
    rewrite <- E2, IH. reflexivity.
  - rewrite IH. cbn [rev]. rewrite <- app_assoc. reflexivity.
Qed.
Lemma join_split s : join_with [x0a] (split_lf s) = s.
Proof. exact (join_split_aux s []). Qed.

Lemma pad_to_length s w : length (pad_to s w) = Nat.max (length s) (Z.to_nat w).
Proof. unfold pad_to. rewrite app_length, repeat_length. lia. Qed.

Section Top.
Variable isprint : Z -> bool.
Hypothesis isprint_ascii : forall r, 0 <= r < 128 -> isprint r = (32 <=? r) && (r <? 127).
Variable g : registry.
Variable c : ecfg.
Variable msg : bytes.
Variable attrs : list attr.
Hypothesis Hmode : e_mode c = ShColor.
Hypothesis Hcolors : colors_ok g = true.
Hypothesis Hts : text_ok (e_ts c) = true.
Hypothesis Hname : text_ok (e_name c) = true.
Hypothesis Hcaller : caller_texts_ok (e_caller c) = true.
Hypothesis Htag : text_ok (tag_of g (e_tagw c) (e_lvl c)) = true.
Hypothesis Hattrs : attrs_ok attrs = true.

Lemma hygiene_thm out : esc_free msg = true -> encode isprint g c msg attrs = Some out -> hygienic out.
Proof.
  intros Hmsg He. rewrite (encode_color isprint g c msg attrs Hmode) in He.
  destruct ((e_lvl c =? lv_always) && all_blank msg).
  { injection He as <-. reflexivity. }
  destruct (has_markup _); [discriminate|]. injection He as <-.
  exact (color_record_hygienic isprint isprint_ascii g c msg attrs Hcolors Hts Hname Hcaller Htag (attrs_ok_norm attrs Hattrs) Hmsg).
Qed.

Lemma layout_thm : layout_domain msg = true -> (e_lvl c =? lv_always) && all_blank msg = false ->
  exists out, encode isprint g c msg attrs = Some out /\ hygienic out
              /\ strip_sgr out = layout_of isprint g c msg attrs.
Proof.
  intros Hd Hb. exists (color_record isprint g c msg attrs).
  pose proof (layout_domain_esc_free msg Hd) as Hmsg.
  rewrite (encode_color isprint g c msg attrs Hmode), Hb, (layout_domain_no_markup msg (e_minw c) Hd).
  split; [reflexivity|]. split.
  - exact (color_record_hygienic isprint isprint_ascii g c msg attrs Hcolors Hts Hname Hcaller Htag (attrs_ok_norm attrs Hattrs) Hmsg).
  - exact (color_record_layout isprint isprint_ascii g c msg attrs Hcolors Hts Hname Hcaller Htag (attrs_ok_norm attrs Hattrs) Hmsg).
Qed.
End Top.

(* the parts of the layout *)
Lemma layout_parts isprint g c msg attrs :
  layout_of isprint g c msg attrs =
  (e_ts c ++ [x7c; x20] ++ (match e_name c with [] => [] | nm => nm ++ [x20] end))
  ++ (x5b :: tag_of g (e_tagw c) (e_lvl c) ++ [x5d; x20])
  ++ pad_to (hd [] (split_lf (fst (msg_body msg)))) (e_minw c)
  ++ (lay_members isprint [] (norm_attrs attrs) ++ lay_caller (e_caller c))
  ++ lay_rest (tl (split_lf (fst (msg_body msg)))) (snd (msg_body msg)) ++ [x0a].
Proof.
  unfold layout_of. destruct (msg_body msg) as [body eol]. cbn [fst snd]. cbv zeta.
  rewrite <- !app_assoc. cbn [app]. rewrite <- !app_assoc. reflexivity.
Qed.

(* the lines of the message *)
Lemma message_lines msg : join_with [x0a] (split_lf (fst (msg_body msg))) = fst (msg_body msg)
  /\ (forall l, In l (split_lf (fst (msg_body msg))) -> nolf l = true)
  /\ (snd (msg_body msg) = false -> fst (msg_body msg) = msg)
  /\ (snd (msg_body msg) = true -> exists tail, msg = fst (msg_body msg) ++ tail /\ forallb is_crlf tail = true).
Proof.
  split; [apply join_split|]. split; [exact (split_nolf _)|].
  unfold msg_body. cbv zeta. cbn [fst snd]. destruct (match rev msg with b :: _ => is_lf b | [] => false end).
  - split; [discriminate|]. intros _. unfold trim_right_crlf.
    assert (H : forall l : bytes, exists pre, l = pre ++ drop_while is_crlf l /\ forallb is_crlf pre = true).
    { induction l as [|a l [pre [E F]]]; [exists []; split; reflexivity|]. cbn [drop_while]. destruct (is_crlf a) eqn:Ea.
      - exists (a :: pre). split; [cbn [app]; f_equal; exact E|cbn [forallb]; rewrite Ea, F; reflexivity].
      - exists []. split; reflexivity. }
    destruct (H (rev msg)) as [pre [E F]]. exists (rev pre). split.
    + rewrite <- rev_app_distr, <- E, rev_involutive. reflexivity.
    + rewrite forallb_rev. exact F.
  - split; [reflexivity|discriminate].
Qed.

Lemma tag_width_thm g w lvl : tags_ok g = true -> 1 <= w <= 5 ->
  length (tag_of g w lvl) = Z.to_nat w /\ short_tag g w lvl = Some (tag_of g w lvl).
Proof.
  intros Ht Hw. split; [exact (tag_length g w lvl Ht Hw)|].
  unfold tag_of, short_tag. replace ((w <=? 0) || (6 <=? w)) with false by lia.
  destruct (match lookupZ (r_tags g) w with Some m => lookupZ m lvl | None => None end); [reflexivity|].
  destruct (level_string g lvl); [reflexivity|].
  destruct (Nat.eqb _ _); [reflexivity|]. destruct (Nat.ltb _ _); reflexivity.
Qed.

Lemma values_clean_quoted isprint : (forall r, 0 <= r < 128 -> isprint r = (32 <=? r) && (r <? 127)) ->
  forall clr bg s l, -1 <= clr -> -1 <= bg ->
  Forall clean (strip_sgr (ser_value isprint ShColor clr bg [] (VStr s)))
  /\ Forall clean (strip_sgr (ser_value isprint ShColor clr bg [] (VErr s)))
  /\ Forall clean (strip_sgr (ser_value isprint ShColor clr bg [] (VBytes s)))
  /\ Forall clean (strip_sgr (ser_value isprint ShColor clr bg [] (VDur s)))
  /\ Forall clean (strip_sgr (ser_value isprint ShColor clr bg [] (VStrs l)))
  /\ Forall clean (strip_sgr (ser_value isprint ShColor clr bg [] (VFallback s))).
Proof.
  intros Hi clr bg s l Hc Hb.
  assert (H : forall v, raw_texts v = [] -> Forall clean (strip_sgr (ser_value isprint ShColor clr bg [] v))).
  { intros v Hv. destruct (values_clean isprint Hi clr bg v [] Hc Hb (Forall_nil _)) as [[B1 _] C]; [rewrite Hv; constructor|].
    rewrite <- (app_nil_r (ser_value _ _ _ _ _ v)), B1, app_nil_r. exact C. }
  repeat split; apply H; reflexivity.
Qed.
