(* Lemmas about Model/Writers.v (C03). *)
Require Import Verif.Model.Base Verif.Model.Writers.

Section WithPool.
Variable is_logwriter : wid -> bool.
Notation wstep := (wstep is_logwriter).
Notation mk_member := (mk_member is_logwriter).

Lemma mk_member_id w : member_id (mk_member w) = w.
Proof. unfold Writers.mk_member. destruct (is_logwriter w); reflexivity. Qed.

Lemma remove_first_id w l : map member_id (remove_first w l) = del_first w (map member_id l).
Proof.
  induction l as [|m t IH]; cbn [remove_first map del_first]; [reflexivity|].
  destruct (member_id m =? w); [reflexivity|]. cbn [map]. rewrite IH. reflexivity.
Qed.

Lemma lv_get_set m l v k : lv_get (lv_set m l v) k = if k =? l then Some v else lv_get m k.
Proof.
  induction m as [|[k' v'] t IH]; cbn [lv_set lv_get].
  - rewrite (Z.eqb_sym l k). reflexivity.
  - destruct (Z.eqb_spec k' l) as [E|E]; cbn [lv_get].
    + subst k'. destruct (Z.eqb_spec l k) as [E2|E2].
      * subst k. rewrite Z.eqb_refl. reflexivity.
      * destruct (Z.eqb_spec k l) as [E3|E3]; [congruence|reflexivity].
    + destruct (Z.eqb_spec k' k) as [E2|E2].
      * subst k'. destruct (Z.eqb_spec k l) as [E3|E3]; [congruence|reflexivity].
      * exact IH.
Qed.

Lemma lv_get_del m l k : lv_get (lv_del m l) k = if k =? l then None else lv_get m k.
Proof.
  unfold lv_del. induction m as [|[k' v'] t IH]; cbn [filter lv_get fst].
  - destruct (k =? l); reflexivity.
  - destruct (Z.eqb_spec k' l) as [E|E]; cbn [negb].
    + rewrite IH. subst k'. destruct (Z.eqb_spec k l) as [E2|E2].
      * reflexivity.
      * destruct (Z.eqb_spec l k) as [E3|E3]; [congruence|reflexivity].
    + cbn [lv_get]. destruct (Z.eqb_spec k' k) as [E2|E2].
      * subst k'. destruct (Z.eqb_spec k l) as [E3|E3]; [congruence|reflexivity].
      * exact IH.
Qed.

Lemma del_first_absent w l : ~ In w l -> del_first w l = l.
Proof.
  induction l as [|x t IH]; intros H; cbn [del_first]; [reflexivity|].
  destruct (Z.eqb_spec x w) as [E|E].
  - exfalso. apply H. left. exact E.
  - f_equal. apply IH. intros Hin. apply H. right. exact Hin.
Qed.

(* one configuration call refines its denotation *)
Lemma wstep_refines d c o : wop_ok o = true -> conf_eq (abs d) c ->
  conf_eq (abs (wstep d o)) (denote_step c o).
Proof.
  intros Hok [Hn [He Hl]]. unfold conf_eq, abs in *. cbn [c_normal c_error c_leveled] in *.
  destruct o as [w|w|w|w|w|w|l w|l w|l| |]; cbn [Writers.wstep denote_step c_normal c_error c_leveled ensure].
  - cbn [dw_normal dw_error dw_leveled map]. rewrite mk_member_id. repeat split; auto.
  - cbn [dw_normal dw_error dw_leveled]. rewrite map_app. cbn [map]. rewrite mk_member_id, Hn. repeat split; auto.
  - destruct d as [x|]; cbn [ensure] in *.
    + cbn [dw_normal dw_error dw_leveled]. rewrite remove_first_id, Hn. repeat split; auto.
    + (* no own writers: RemoveWriter is a no-op; the default [stdout] does not contain a user writer *)
      cbn [new_dual dw_normal dw_error dw_leveled map member_id] in *. split; [|split; auto].
      rewrite <- Hn. symmetry. apply del_first_absent. unfold wop_ok in Hok. cbn in Hok.
      intros [H|[]]. unfold w_stdout in H. subst w. discriminate.
  - cbn [dw_normal dw_error dw_leveled map]. rewrite mk_member_id. repeat split; auto.
  - cbn [dw_normal dw_error dw_leveled]. rewrite map_app. cbn [map]. rewrite mk_member_id, He. repeat split; auto.
  - destruct d as [x|]; cbn [ensure] in *.
    + cbn [dw_normal dw_error dw_leveled]. rewrite remove_first_id, He. repeat split; auto.
    + cbn [new_dual dw_normal dw_error dw_leveled map member_id] in *. split; [auto|split; auto].
      rewrite <- He. symmetry. apply del_first_absent. unfold wop_ok in Hok. cbn in Hok.
      intros [H|[]]. unfold w_stderr in H. subst w. discriminate.
  - cbn [dw_normal dw_error dw_leveled]. split; [auto|split; [auto|]]. intros k.
    unfold abs_leveled, upd. cbn [dw_leveled]. rewrite lv_get_set.
    destruct (k =? l) eqn:E.
    + apply Z.eqb_eq in E. subst k. rewrite map_app. cbn [map]. rewrite mk_member_id.
      rewrite <- Hl. unfold abs_leveled. destruct (lv_get (dw_leveled (ensure d)) l); reflexivity.
    + apply Hl.
  - destruct (lv_get (dw_leveled (ensure d)) l) as [v|] eqn:G.
    + cbn [ensure dw_normal dw_error dw_leveled]. split; [auto|split; [auto|]]. intros k.
      unfold abs_leveled, upd. cbn [dw_leveled]. rewrite lv_get_set. destruct (k =? l) eqn:E.
      * apply Z.eqb_eq in E. subst k. rewrite remove_first_id. rewrite <- Hl. unfold abs_leveled. rewrite G. reflexivity.
      * apply Hl.
    + cbn [ensure]. split; [auto|split; [auto|]]. intros k. unfold upd. destruct (k =? l) eqn:E.
      * apply Z.eqb_eq in E. subst k. rewrite <- Hl. unfold abs_leveled. rewrite G. reflexivity.
      * apply Hl.
  - cbn [dw_normal dw_error dw_leveled]. split; [auto|split; [auto|]]. intros k.
    unfold abs_leveled, upd. cbn [dw_leveled]. rewrite lv_get_del. destruct (k =? l) eqn:E; [reflexivity|apply Hl].
  - cbn [dw_normal dw_error dw_leveled]. split; [auto|split; [auto|]]. intros k. reflexivity.
  - cbn [new_dual conf_default dw_normal dw_error dw_leveled c_normal c_error c_leveled map member_id].
    repeat split; auto.
Qed.

(* any sequence of configuration calls denotes what the documentation says *)
Lemma config_refines ops : forall d c, forallb wop_ok ops = true -> conf_eq (abs d) c ->
  conf_eq (abs (fold_left wstep ops d)) (fold_left denote_step ops c).
Proof.
  induction ops as [|o ops IH]; intros d c Hok H; cbn [fold_left]; [exact H|].
  cbn [forallb] in Hok. apply andb_true_iff in Hok. destruct Hok as [Ho Hok].
  apply IH; [exact Hok|]. apply wstep_refines; assumption.
Qed.

Lemma config_refines_fresh ops : forallb wop_ok ops = true ->
  conf_eq (abs (fold_left wstep ops None)) (denote ops).
Proof.
  intros Hok. unfold denote. apply config_refines; [exact Hok|].
  unfold conf_eq, abs, conf_default. cbn. repeat split; reflexivity.
Qed.

(* routing of the code = documented routing on the abstraction *)
Lemma routing errdev d c lvl : conf_eq (abs d) c -> dest errdev d lvl = route errdev c lvl.
Proof.
  intros [Hn [He Hl]]. unfold dest, find_writer, dw_get, route.
  destruct (lvl =? lvl_off); [reflexivity|].
  rewrite <- (Hl lvl). unfold abs, abs_leveled. cbn [c_leveled c_normal c_error] in *.
  destruct (lv_get (dw_leveled (ensure d)) lvl) as [[|m t]|]; cbn [map].
  - destruct (memZ errdev lvl); [exact He|exact Hn].
  - reflexivity.
  - destruct (memZ errdev lvl); [exact He|exact Hn].
Qed.

End WithPool.

(* ---- delivery ---- *)
Section Deliver.
Variable is_ls : wid -> bool.
Notation deliver := (deliver is_ls).

Lemma deliver_writes ms lvl :
  flat_map (fun e => match e with EvWrite w => [w] | _ => [] end) (deliver ms lvl) = map member_id ms.
Proof.
  unfold Writers.deliver. induction ms as [|m t IH]; cbn [flat_map map]; [reflexivity|].
  rewrite flat_map_app, IH. unfold deliver1. destruct (is_ls (member_id m)); reflexivity.
Qed.

(* a writer outside the selected set receives nothing at all *)
Lemma deliver_nothing_else ms lvl w : ~ In w (map member_id ms) ->
  ~ In (EvWrite w) (deliver ms lvl) /\ forall l, ~ In (EvSet w l) (deliver ms lvl).
Proof.
  intros H. unfold Writers.deliver. split.
  - intros Hin. apply in_flat_map in Hin. destruct Hin as [m [Hm He]]. apply H.
    apply in_map_iff. exists m. split; [|exact Hm].
    unfold deliver1 in He. apply in_app_or in He. destruct He as [He|[He|[]]].
    + destruct (is_ls (member_id m)); [destruct He as [He|[]]; discriminate|destruct He].
    + congruence.
  - intros l Hin. apply in_flat_map in Hin. destruct Hin as [m [Hm He]]. apply H.
    apply in_map_iff. exists m. split; [|exact Hm].
    unfold deliver1 in He. apply in_app_or in He. destruct He as [He|[He|[]]].
    + destruct (is_ls (member_id m)); [destruct He as [He|[]]; congruence|destruct He].
    + discriminate.
Qed.

(* every Write of a level-settable destination is immediately preceded by SetLevel(severity) on it *)
Lemma deliver_told ms lvl : forall pre w post, deliver ms lvl = pre ++ EvWrite w :: post -> is_ls w = true ->
  exists pre', pre = pre' ++ [EvSet w lvl].
Proof.
  unfold Writers.deliver. induction ms as [|m t IH]; intros pre w post H Hw; cbn [flat_map] in H.
  - destruct pre; discriminate.
  - unfold deliver1 in H at 1. destruct (is_ls (member_id m)) eqn:E; cbn [app] in H.
    + destruct pre as [|e1 [|e2 pre2]].
      * discriminate.
      * cbn in H. inversion H; subst. exists []. reflexivity.
      * cbn in H. inversion H as [[H1 H2 H3]]. destruct (IH pre2 w post H3 Hw) as [p' Hp'].
        subst pre2. exists (EvSet (member_id m) lvl :: EvWrite (member_id m) :: p'). reflexivity.
    + destruct pre as [|e1 pre1].
      * cbn in H. inversion H; subst. congruence.
      * cbn in H. inversion H as [[H1 H2]]. destruct (IH pre1 w post H2 Hw) as [p' Hp'].
        subst pre1. exists (EvWrite (member_id m) :: p'). reflexivity.
Qed.

End Deliver.
