(* Value- and record-level lemmas for C04: the JSON encoder's output parses back
   (RFC 8259 parser of Model/Json.v) to the expected ordered tree, for every
   nesting depth; no control byte in the line; member names; key order. *)
Require Import Verif.Model.Base Verif.Model.Dec Verif.Model.Level Verif.Model.Mode.
Require Import Verif.Model.Utf8 Verif.Model.Quote Verif.Model.JsonEsc Verif.Model.Attrs Verif.Model.Encode Verif.Model.Json.
Require Import Verif.Proofs.Utf8P Verif.Proofs.QuoteP Verif.Proofs.EscP Verif.Proofs.SortP Verif.Proofs.JsonStrP.
Ltac Zify.zify_post_hook ::= Z.div_mod_to_equations.

Arguments pstr : simpl never.
Arguments pnum : simpl never.
Arguments json_quote : simpl never.
Arguments dec_of_Z : simpl never.
Arguments fixu : simpl never.

(* ================= unfolding lemmas of the parser (abstract arguments) ================= *)
Lemma pval_S f s : pval (S f) s = pval_step (pval f) s.
Proof. reflexivity. Qed.

Section Unfold.
Variable self : bytes -> pres json.

Lemma step_string t : pval_step self (x22 :: t) = match pstr 0 t with Some (x, r) => POk (JStr x) r | None => PSyntax end.
Proof. reflexivity. Qed.
Lemma step_true t : pval_step self (x74 :: x72 :: x75 :: x65 :: t) = POk (JBool true) t.
Proof. reflexivity. Qed.
Lemma step_false t : pval_step self (x66 :: x61 :: x6c :: x73 :: x65 :: t) = POk (JBool false) t.
Proof. reflexivity. Qed.
Lemma step_null t : pval_step self (x6e :: x75 :: x6c :: x6c :: t) = POk JNull t.
Proof. reflexivity. Qed.
Lemma step_obj_empty t : pval_step self (x7b :: x7d :: t) = POk (JObj []) t.
Proof. reflexivity. Qed.
Lemma step_obj t2 : pval_step self (x7b :: x22 :: t2) =
  match pmembers self (S (length t2)) (x22 :: t2) with POk ms r => POk (JObj ms) r | PSyntax => PSyntax | PFuel => PFuel end.
Proof. reflexivity. Qed.
Lemma step_arr_empty t : pval_step self (x5b :: x5d :: t) = POk (JArr []) t.
Proof. reflexivity. Qed.
Lemma step_arr c2 t2 : is_ws c2 = false -> bz c2 <> 93 -> pval_step self (x5b :: c2 :: t2) =
  match pelems self (S (length t2)) (c2 :: t2) with POk l r => POk (JArr l) r | PSyntax => PSyntax | PFuel => PFuel end.
Proof.
  intros W N. unfold pval_step. change (skip_ws (x5b :: c2 :: t2)) with (x5b :: c2 :: t2). cbv iota.
  change (bz x5b =? 34) with false. change (bz x5b =? 123) with false. change (bz x5b =? 91) with true. cbv iota.
  cbn [skip_ws]. rewrite W. replace (bz c2 =? 93) with false by lia. reflexivity.
Qed.

Lemma step_number c t : bz c = 45 \/ is_digit c = true ->
  pval_step self (c :: t) = match pnum (c :: t) with Some (tok, r) => POk (JNum tok) r | None => PSyntax end.
Proof.
  intros H. unfold pval_step. cbn [skip_ws].
  assert (W : is_ws c = false) by (unfold is_ws, is_digit in *; lia). rewrite W.
  unfold is_digit in H.
  replace (bz c =? 34) with false by lia. replace (bz c =? 123) with false by lia.
  replace (bz c =? 91) with false by lia. replace (bz c =? 116) with false by lia.
  replace (bz c =? 102) with false by lia. replace (bz c =? 110) with false by lia. reflexivity.
Qed.

Lemma pmember_colon t k X : pstr 0 t = Some (k, x3a :: X) ->
  pmember self (x22 :: t) = match self X with POk v r'' => POk (k, v) r'' | PSyntax => PSyntax | PFuel => PFuel end.
Proof.
  intros H. unfold pmember. change (skip_ws (x22 :: t)) with (x22 :: t). cbv iota.
  change (bz x22 =? 34) with true. cbv iota. rewrite H. reflexivity.
Qed.

Lemma pmembers_last n s kv rest : pmember self s = POk kv (x7d :: rest) -> pmembers self (S n) s = POk [kv] rest.
Proof. intros H. cbn [pmembers]. rewrite H. reflexivity. Qed.
Lemma pmembers_more n s kv more : pmember self s = POk kv (x2c :: more) ->
  pmembers self (S n) s = match pmembers self n more with POk l r => POk (kv :: l) r | PSyntax => PSyntax | PFuel => PFuel end.
Proof. intros H. cbn [pmembers]. rewrite H. reflexivity. Qed.
Lemma pelems_last n s v rest : self s = POk v (x5d :: rest) -> pelems self (S n) s = POk [v] rest.
Proof. intros H. cbn [pelems]. rewrite H. reflexivity. Qed.
Lemma pelems_more n s v more : self s = POk v (x2c :: more) ->
  pelems self (S n) s = match pelems self n more with POk l r => POk (v :: l) r | PSyntax => PSyntax | PFuel => PFuel end.
Proof. intros H. cbn [pelems]. rewrite H. reflexivity. Qed.
End Unfold.

Arguments pval_step : simpl never.
Arguments pmember : simpl never.

Lemma stop_comma t : stop_b (x2c :: t) = true. Proof. reflexivity. Qed.
Lemma stop_brace t : stop_b (x7d :: t) = true. Proof. reflexivity. Qed.
Lemma stop_bracket t : stop_b (x5d :: t) = true. Proof. reflexivity. Qed.

(* ================= lists of rendered items ================= *)
Lemma join_with_cons2 (sep x y : bytes) t : join_with sep (x :: y :: t) = x ++ sep ++ join_with sep (y :: t).
Proof. reflexivity. Qed.
Lemma join_with_one (sep x : bytes) : join_with sep [x] = x.
Proof. reflexivity. Qed.

Definition commas (ms : list bytes) : bytes := concat (map (fun x => x2c :: x) ms).
Lemma commas_cons x t : commas (x :: t) = x2c :: x ++ commas t.
Proof. reflexivity. Qed.
Lemma commas_app a b : commas (a ++ b) = commas a ++ commas b.
Proof. unfold commas. rewrite map_app, concat_app. reflexivity. Qed.
Lemma join_commas x t : join_with [x2c] (x :: t) = x ++ commas t.
Proof.
  revert x. induction t as [|y t IH]; intros x.
  - cbn [join_with commas map concat]. rewrite app_nil_r. reflexivity.
  - rewrite join_with_cons2, IH, commas_cons. reflexivity.
Qed.

(* ================= elements: a value with at least one unit of fuel ================= *)
Lemma E_quote g s r : pval (S g) (json_quote s ++ r) = POk (jstr s) r.
Proof.
  rewrite pval_S. unfold json_quote. rewrite <- app_comm_cons, <- app_assoc. cbn [app].
  rewrite step_string, pstr_json_escape. reflexivity.
Qed.
Lemma E_plain g t r : plain_b t = true -> pval (S g) ((x22 :: t ++ [x22]) ++ r) = POk (JStr t) r.
Proof.
  intros H. rewrite pval_S. rewrite <- app_comm_cons, <- app_assoc. cbn [app].
  rewrite step_string, (pstr_plain t r H). reflexivity.
Qed.
Lemma E_bool g b r : pval (S g) (bool_text b ++ r) = POk (JBool b) r.
Proof. rewrite pval_S. destruct b; cbn [bool_text app]; [apply step_true|apply step_false]. Qed.
Lemma E_num g z r : stop_b r = true -> pval (S g) (dec_of_Z z ++ r) = POk (jnum z) r.
Proof.
  intros H. rewrite pval_S. pose proof (pnum_dec z r H) as P.
  destruct (dec_of_Z_head z) as (c & t & E & Hc). rewrite E in *. rewrite <- app_comm_cons in *.
  rewrite (step_number _ c _ Hc), P. unfold jnum. rewrite E. reflexivity.
Qed.

(* the first byte of each kind of element *)
Definition head_ok (b : bytes) : Prop := exists c t, b = c :: t /\ is_ws c = false /\ bz c <> 93.
Lemma head_quote s : head_ok (json_quote s).
Proof. unfold json_quote. eexists _, _. split; [reflexivity|]. split; [reflexivity|cbn; lia]. Qed.
Lemma head_wrap t : head_ok (x22 :: t ++ [x22]).
Proof. eexists _, _. split; [reflexivity|]. split; [reflexivity|cbn; lia]. Qed.
Lemma head_bool b : head_ok (bool_text b).
Proof. destruct b; eexists _, _; (split; [reflexivity|]); (split; [reflexivity|cbn; lia]). Qed.
Lemma head_num z : head_ok (dec_of_Z z).
Proof.
  destruct (dec_of_Z_head z) as (c & t & E & Hc). exists c, t. split; [exact E|].
  unfold is_ws, is_digit in *. split; lia.
Qed.

(* ================= arrays ================= *)
Section Arr.
Variable self : bytes -> pres json.
Context {A : Type}.
Variable f : A -> bytes.
Variable jf : A -> json.

Lemma pelems_ok : forall l, l <> [] ->
  (forall x, In x l -> forall r, stop_b r = true -> self (f x ++ r) = POk (jf x) r) ->
  forall n rest, (length l <= n)%nat ->
  pelems self n (join_with [x2c] (map f l) ++ x5d :: rest) = POk (map jf l) rest.
Proof.
  induction l as [|x l IH]; intros NE H n rest Hn; [congruence|].
  destruct n as [|n]; [cbn in Hn; lia|]. cbn [length] in Hn.
  destruct l as [|y l].
  - cbn [map]. rewrite join_with_one. apply pelems_last. apply H; [left; reflexivity|apply stop_bracket].
  - cbn [map]. rewrite join_with_cons2. rewrite <- !app_assoc. cbn [app].
    rewrite (pelems_more self n _ (jf x) _ (H x ltac:(left; reflexivity) _ (stop_comma _))).
    change (f y :: map f l) with (map f (y :: l)).
    rewrite IH; [reflexivity|discriminate|intros z Hz; apply H; right; exact Hz|cbn [length] in *; lia].
Qed.

Lemma step_bracket l rest :
  (forall x, In x l -> forall r, stop_b r = true -> self (f x ++ r) = POk (jf x) r) ->
  (forall x, In x l -> head_ok (f x)) ->
  pval_step self (bracket (map f l) ++ rest) = POk (JArr (map jf l)) rest.
Proof.
  intros H Hh. unfold bracket. rewrite <- app_comm_cons, <- app_assoc. cbn [app].
  destruct l as [|x l]; [apply step_arr_empty|].
  match goal with |- pval_step _ (_ :: ?w0) = _ => remember w0 as w eqn:Ew end.
  assert (Hd : exists c t, w = c :: t /\ is_ws c = false /\ bz c <> 93
                           /\ (length (x :: l) <= S (length t))%nat).
  { subst w. destruct (Hh x ltac:(left; reflexivity)) as (c & t & E & W & N).
    cbn [map]. rewrite join_commas, E. rewrite <- !app_comm_cons. eexists _, _. split; [reflexivity|].
    split; [exact W|]. split; [exact N|].
    rewrite !app_length. cbn [length].
    assert (L : (length l <= length (commas (map f l)))%nat).
    { clear. induction l as [|y l IH]; [cbn; lia|]. cbn [map]. rewrite commas_cons. cbn [length]. rewrite app_length. lia. }
    lia. }
  destruct Hd as (c & t & E & W & N & L). rewrite E. rewrite (step_arr self c t W N). rewrite <- E. subst w.
  rewrite (pelems_ok (x :: l) ltac:(discriminate) H _ rest L). reflexivity.
Qed.
End Arr.

(* ================= objects ================= *)
Section Obj.
Variable self : bytes -> pres json.

(* a rendered member: starts with the quote of its name and parses to (name, value) *)
Definition memb_ok (mb : bytes) (kv : bytes * json) : Prop :=
  (exists t, mb = x22 :: t) /\ forall r, stop_b r = true -> pmember self (mb ++ r) = POk kv r.

Lemma memb_intro k body j :
  (forall r, stop_b r = true -> self (body ++ r) = POk j r) ->
  memb_ok (json_quote k ++ x3a :: body) (fixu k, j).
Proof.
  intros H. split.
  - unfold json_quote. eexists. rewrite <- app_comm_cons. reflexivity.
  - intros r Hr. unfold json_quote. rewrite <- !app_comm_cons, <- !app_assoc. cbn [app].
    rewrite (pmember_colon self _ (fixu k) (body ++ r)).
    + rewrite (H r Hr). reflexivity.
    + apply pstr_json_escape.
Qed.

Lemma pmembers_ok : forall mbs kvs, Forall2 memb_ok mbs kvs -> mbs <> [] ->
  forall n rest, (length mbs <= n)%nat ->
  pmembers self n (join_with [x2c] mbs ++ x7d :: rest) = POk kvs rest.
Proof.
  induction 1 as [|mb kv mbs kvs [_ Hm] HF IH]; intros NE n rest Hn; [congruence|].
  destruct n as [|n]; [cbn in Hn; lia|]. cbn [length] in Hn.
  destruct mbs as [|mb2 mbs].
  - inversion HF; subst. rewrite join_with_one. apply pmembers_last. apply Hm. apply stop_brace.
  - rewrite join_with_cons2. rewrite <- !app_assoc. cbn [app].
    rewrite (pmembers_more self n _ kv _ (Hm _ (stop_comma _))).
    rewrite IH; [reflexivity|discriminate|lia].
Qed.

Lemma commas_length ms : (length ms <= length (commas ms))%nat.
Proof. induction ms as [|y l IH]; [cbn; lia|]. rewrite commas_cons. cbn [length]. rewrite app_length. lia. Qed.

Lemma step_object mbs kvs rest : Forall2 memb_ok mbs kvs ->
  pval_step self (x7b :: join_with [x2c] mbs ++ x7d :: rest) = POk (JObj kvs) rest.
Proof.
  intros HF. destruct HF as [|mb kv mbs kvs Hm HF]; [apply step_obj_empty|].
  pose proof (Forall2_cons _ _ Hm HF) as HF'.
  destruct Hm as [[t E] _]. subst mb.
  match goal with |- pval_step _ (_ :: ?w0) = _ => remember w0 as w eqn:Ew end.
  assert (Sh : exists t2, w = x22 :: t2 /\ (length ((x22 :: t) :: mbs) <= S (length t2))%nat).
  { subst w. rewrite join_commas. rewrite <- !app_comm_cons. eexists. split; [reflexivity|].
    rewrite !app_length. cbn [length]. pose proof (commas_length mbs). unfold bytes in *. lia. }
  destruct Sh as (t2 & E & L). rewrite E, step_obj, <- E. subst w.
  rewrite (pmembers_ok _ _ HF' ltac:(discriminate) _ rest L). reflexivity.
Qed.
End Obj.

(* ================= nested induction over values ================= *)
Section VInd.
Variable P : value -> Prop.
Definition on_attr (a : attr) : Prop := match a with A _ x => P x | ANil => True end.
Hypothesis Hleaf : forall v, is_group v = false -> P v.
Hypothesis Hgrp : forall items, Forall on_attr items -> P (VGroup items).
Fixpoint value_nested_ind (v : value) : P v :=
  match v return P v with
  | VGroup items =>
      Hgrp items ((fix go (l : list attr) : Forall on_attr l :=
                     match l return Forall on_attr l with
                     | [] => @Forall_nil attr on_attr
                     | a :: t => @Forall_cons attr on_attr a t
                                   (match a return on_attr a with
                                    | A _ x => value_nested_ind x
                                    | ANil => I
                                    end) (go t)
                     end) items)
  | other => Hleaf other eq_refl
  end.
End VInd.

(* the inner loops of the definitions over groups are the list functions *)
Lemma ser_group isprint m clr bg pfx items :
  ser_value isprint m clr bg pfx (VGroup items) = render_members m clr bg false (members_of isprint m clr bg pfx items).
Proof.
  cbn [ser_value]. f_equal. induction items as [|[k x|] t IH]; [reflexivity| |exact IH].
  cbn [members_of]. rewrite <- IH. reflexivity.
Qed.
Lemma jvalue_group items : jvalue (VGroup items) = JObj (jmembers items).
Proof.
  reflexivity.
Qed.
Lemma vdepth_group items : vdepth (VGroup items) = S (adepth items).
Proof.
  reflexivity.
Qed.
Lemma dom_group items : dom_value_b (VGroup items) = dom_attrs_b items.
Proof. reflexivity. Qed.
Lemma norm_group items : norm_value (VGroup items) = VGroup (sort_dedupe (map norm_attr items)).
Proof.
  cbn [norm_value]. f_equal. f_equal. induction items as [|[k x|] t IH]; [reflexivity| |].
  - cbn [map norm_attr]. rewrite <- IH. reflexivity.
  - cbn [map norm_attr]. rewrite <- IH. reflexivity.
Qed.
Lemma norm_leaf v : is_group v = false -> norm_value v = v.
Proof. destruct v; try reflexivity. discriminate. Qed.

Lemma adepth_in k x l : In (A k x) l -> (vdepth x <= adepth l)%nat.
Proof.
  induction l as [|[k' x'|] t IH]; intros H; [destruct H| |].
  - cbn [adepth]. destruct H as [E|H]; [inversion E; subst; lia|]. specialize (IH H). lia.
  - cbn [adepth]. destruct H as [E|H]; [discriminate|]. apply IH. exact H.
Qed.
Lemma adepth_bound l n : (forall k x, In (A k x) l -> (vdepth x <= n)%nat) -> (adepth l <= n)%nat.
Proof.
  induction l as [|[k' x'|] t IH]; intros H; cbn [adepth]; [lia| |].
  - pose proof (H k' x' ltac:(left; reflexivity)). assert (adepth t <= n)%nat by (apply IH; intros k x Hin; apply (H k x); right; exact Hin). lia.
  - apply IH. intros k x Hin. apply (H k x). right. exact Hin.
Qed.
Lemma dom_attrs_in k x l : dom_attrs_b l = true -> In (A k x) l -> dom_value_b x = true.
Proof. intros H Hin. unfold dom_attrs_b in H. rewrite forallb_forall in H. apply (H _ Hin). Qed.

(* ================= values parse back ================= *)
Section Val.
Variable isprint : Z -> bool.
Variables clr bg : Z.
Notation ser := (ser_value isprint ShJSON clr bg).

(* members of an attribute list, given that every value in it parses with fuel [f] *)
Lemma members_ok f items pfx :
  (forall k x, In (A k x) items -> forall pfx' r, stop_b r = true ->
     pval f (ser pfx' x ++ r) = POk (jvalue x) r) ->
  Forall2 (memb_ok (pval f)) (members_of isprint ShJSON clr bg pfx items) (jmembers items).
Proof.
  induction items as [|[k x|] t IH]; intros H; cbn [members_of jmembers].
  - constructor.
  - constructor.
    + unfold key_part, dkey. rewrite <- app_assoc. cbn [app]. apply memb_intro.
      intros r Hr. apply (H k x); [left; reflexivity|exact Hr].
    + apply IH. intros k' x' Hin. apply (H k' x'). right. exact Hin.
  - apply IH. intros k' x' Hin. apply (H k' x'). right. exact Hin.
Qed.

Lemma fixu_message : fixu n_message = n_message.
Proof. reflexivity. Qed.

Lemma leaf_ok v : is_group v = false -> dom_value_b v = true ->
  forall pfx f rest, (vdepth v < f)%nat -> stop_b rest = true ->
  pval f (ser pfx v ++ rest) = POk (jvalue v) rest.
Proof.
  intros G D pfx f rest Hf Hr.
  destruct f as [|f]; [lia|].
  destruct v; try discriminate G; cbn [ser_value jvalue quoted json_wrap time_text vdepth dom_value_b] in *.
  - (* VNil *) rewrite pval_S. apply step_null.
  - apply E_quote.
  - (* VErr: an object with one member *)
    destruct f as [|f]; [lia|]. rewrite pval_S.
    change (x7b :: json_quote [x6d; x65; x73; x73; x61; x67; x65] ++ x3a :: json_quote msg ++ [x7d])
      with (x7b :: json_quote n_message ++ x3a :: json_quote msg ++ [x7d]).
    replace ((x7b :: json_quote n_message ++ x3a :: json_quote msg ++ [x7d]) ++ rest)
      with (x7b :: join_with [x2c] [json_quote n_message ++ x3a :: json_quote msg] ++ x7d :: rest).
    2:{ rewrite join_with_one. rewrite <- !app_comm_cons, <- !app_assoc. cbn [app]. rewrite <- !app_assoc. reflexivity. }
    rewrite <- fixu_message at 2.
    apply step_object. constructor; [|constructor].
    apply memb_intro. intros r _. apply E_quote.
  - apply E_bool.
  - apply E_num. exact Hr.
  - apply E_plain. apply dec_of_Z_plain.
  - apply E_plain. exact D.
  - apply E_plain. exact D.
  - apply E_quote.
  - apply E_plain. exact D.
  - apply E_quote.
  - apply E_quote.
  - (* slices *)
    destruct f as [|f]; [lia|]. rewrite pval_S. apply step_bracket.
    + intros x _ r _. apply E_quote.
    + intros x _. apply head_quote.
  - destruct f as [|f]; [lia|]. rewrite pval_S. apply step_bracket.
    + intros x _ r _. apply E_bool.
    + intros x _. apply head_bool.
  - destruct f as [|f]; [lia|]. rewrite pval_S. apply step_bracket.
    + intros x _ r Hs. apply E_num. exact Hs.
    + intros x _. apply head_num.
  - destruct f as [|f]; [lia|]. rewrite pval_S. apply step_bracket.
    + intros x _ r Hs. apply E_num. exact Hs.
    + intros x _. apply head_num.
  - destruct f as [|f]; [lia|]. rewrite pval_S. apply step_bracket.
    + intros x Hx r _. apply E_plain. rewrite forallb_forall in D. apply D. exact Hx.
    + intros x _. apply head_wrap.
  - destruct f as [|f]; [lia|]. rewrite pval_S. apply step_bracket.
    + intros x _ r _. apply E_quote.
    + intros x _. apply head_quote.
  - destruct f as [|f]; [lia|]. rewrite pval_S. apply step_bracket.
    + intros x Hx r _. apply E_plain. rewrite forallb_forall in D. apply D. exact Hx.
    + intros x _. apply head_wrap.
Qed.

(* every value of the domain, at any nesting depth *)
Lemma value_ok : forall v, dom_value_b v = true ->
  forall pfx f rest, (vdepth v < f)%nat -> stop_b rest = true ->
  pval f (ser pfx v ++ rest) = POk (jvalue v) rest.
Proof.
  apply (value_nested_ind (fun v => dom_value_b v = true ->
    forall pfx f rest, (vdepth v < f)%nat -> stop_b rest = true ->
    pval f (ser pfx v ++ rest) = POk (jvalue v) rest)).
  - intros v G D. apply leaf_ok; assumption.
  - intros items IH D pfx f rest Hf Hr.
    rewrite dom_group in D. rewrite vdepth_group in Hf. rewrite ser_group, jvalue_group.
    destruct f as [|f]; [lia|]. rewrite pval_S.
    unfold render_members. rewrite <- app_comm_cons, <- app_assoc. cbn [app].
    apply step_object. apply members_ok.
    intros k x Hin pfx' r Hs.
    rewrite Forall_forall in IH. specialize (IH _ Hin). cbv beta iota in IH.
    apply IH; [exact (dom_attrs_in _ _ _ D Hin)| |exact Hs].
    pose proof (adepth_in _ _ _ Hin). lia.
Qed.
End Val.

(* ================= normalisation keeps the domain and does not deepen ================= *)
Lemma norm_in k x l : In (A k x) (sort_dedupe (map norm_attr l)) ->
  exists x0, In (A k x0) l /\ x = norm_value x0.
Proof.
  intros H. apply sort_dedupe_incl in H. apply in_map_iff in H. destruct H as ([k0 x0|] & E & Hin); [|discriminate].
  cbn [norm_attr] in E. inversion E; subst. exists x0. split; [exact Hin|reflexivity].
Qed.

Lemma norm_value_dom : forall v, dom_value_b v = true -> dom_value_b (norm_value v) = true.
Proof.
  apply (value_nested_ind (fun v => dom_value_b v = true -> dom_value_b (norm_value v) = true)).
  - intros v G D. rewrite norm_leaf by exact G. exact D.
  - intros items IH D. rewrite norm_group, dom_group. rewrite dom_group in D.
    unfold dom_attrs_b. apply forallb_forall. intros [k x|] Hin; [|reflexivity].
    destruct (norm_in _ _ _ Hin) as (x0 & Hin0 & ->). cbn [dom_attr_b].
    rewrite Forall_forall in IH. apply (IH _ Hin0). exact (dom_attrs_in _ _ _ D Hin0).
Qed.
Lemma norm_attrs_dom l : dom_attrs_b l = true -> dom_attrs_b (norm_attrs l) = true.
Proof.
  intros D. unfold norm_attrs, dom_attrs_b. apply forallb_forall. intros [k x|] Hin; [|reflexivity].
  destruct (norm_in _ _ _ Hin) as (x0 & Hin0 & ->). cbn [dom_attr_b].
  apply norm_value_dom. exact (dom_attrs_in _ _ _ D Hin0).
Qed.

Lemma norm_value_depth : forall v, (vdepth (norm_value v) <= vdepth v)%nat.
Proof.
  apply (value_nested_ind (fun v => (vdepth (norm_value v) <= vdepth v)%nat)).
  - intros v G. rewrite norm_leaf by exact G. lia.
  - intros items IH. rewrite norm_group, !vdepth_group. apply le_n_S. apply adepth_bound.
    intros k x Hin. destruct (norm_in _ _ _ Hin) as (x0 & Hin0 & ->).
    rewrite Forall_forall in IH. pose proof (IH _ Hin0) as H1. cbv beta iota in H1. unfold on_attr in H1.
    pose proof (adepth_in _ _ _ Hin0). lia.
Qed.
Lemma norm_attrs_depth l : (adepth (norm_attrs l) <= adepth l)%nat.
Proof.
  unfold norm_attrs. apply adepth_bound. intros k x Hin.
  destruct (norm_in _ _ _ Hin) as (x0 & Hin0 & ->).
  pose proof (norm_value_depth x0). pose proof (adepth_in _ _ _ Hin0). lia.
Qed.

(* ================= the shape of a JSON record ================= *)
Section Rec.
Variable isprint : Z -> bool.
Variable g : registry.

Definition time_member (c : ecfg) : bytes := json_quote n_time ++ x3a :: (x22 :: e_ts c ++ [x22]).
Definition str_member (name v : bytes) : bytes := json_quote name ++ x3a :: json_quote v.
Definition caller_body (file : bytes) (line : Z) (fn : bytes) : bytes :=
  x7b :: join_with [x2c] [str_member n_file file; json_quote n_line ++ x3a :: dec_of_Z line; str_member n_function fn] ++ [x7d].
Definition caller_members (c : option (bytes * Z * bytes)) : list bytes :=
  match c with
  | None => []
  | Some (file, line, fn) => [json_quote n_caller ++ x3a :: caller_body file line fn]
  end.
Definition name_members (nm : bytes) : list bytes := match nm with [] => [] | _ => [str_member n_logger nm] end.
Definition top_members (c : ecfg) (msg : bytes) (attrs : list attr) : list bytes :=
  time_member c :: name_members (e_name c)
  ++ str_member n_level (level_string g (e_lvl c)) :: str_member n_msg msg
  :: members_of isprint ShJSON 0 0 [] (norm_attrs attrs) ++ caller_members (e_caller c).

Lemma field_json n v : field isprint ShJSON n v = str_member n v.
Proof. reflexivity. Qed.

Lemma caller_part_json c : caller_part isprint ShJSON c = commas (caller_members c).
Proof.
  destruct c as [[[file line] fn]|]; [|reflexivity].
  cbn [caller_part caller_members]. repeat rewrite field_json. rewrite commas_cons. cbn [commas map concat]. rewrite app_nil_r.
  unfold caller_body. rewrite join_commas, !commas_cons. cbn [commas map concat]. rewrite !app_nil_r.
  repeat (rewrite <- !app_assoc; cbn [app]). reflexivity.
Qed.

Lemma encode_shape c msg attrs : e_mode c = ShJSON -> blank_print c msg = false ->
  encode isprint g c msg attrs = Some ((x7b :: join_with [x2c] (top_members c msg attrs) ++ [x7d]) ++ [x0a]).
Proof.
  intros Hm Hb. unfold encode. unfold blank_print in Hb. rewrite Hb, Hm. cbv iota. f_equal.
  rewrite caller_part_json. unfold ser_top, render_members. fold (commas (members_of isprint ShJSON 0 0 [] (norm_attrs attrs))).
  repeat rewrite field_json. unfold top_members. rewrite join_commas.
  rewrite commas_app, !commas_cons, commas_app.
  unfold time_member. cbn [key_token colon comma].
  destruct (e_name c) as [|b nm]; cbn [name_members commas map concat];
    repeat rewrite field_json; repeat (rewrite <- !app_assoc; cbn [app]); reflexivity.
Qed.
End Rec.

(* ================= a whole record parses back ================= *)
Lemma memb_lit self k body j : fixu k = k ->
  (forall r, stop_b r = true -> self (body ++ r) = POk j r) ->
  memb_ok self (json_quote k ++ x3a :: body) (k, j).
Proof. intros E H. pose proof (memb_intro self k body j H) as M. rewrite E in M. exact M. Qed.

Lemma fixu_time : fixu n_time = n_time. Proof. reflexivity. Qed.
Lemma fixu_logger : fixu n_logger = n_logger. Proof. reflexivity. Qed.
Lemma fixu_level : fixu n_level = n_level. Proof. reflexivity. Qed.
Lemma fixu_msg : fixu n_msg = n_msg. Proof. reflexivity. Qed.
Lemma fixu_caller : fixu n_caller = n_caller. Proof. reflexivity. Qed.
Lemma fixu_file : fixu n_file = n_file. Proof. reflexivity. Qed.
Lemma fixu_line : fixu n_line = n_line. Proof. reflexivity. Qed.
Lemma fixu_function : fixu n_function = n_function. Proof. reflexivity. Qed.

Definition json_members (g : registry) (c : ecfg) (msg : bytes) (attrs : list attr) : list (bytes * json) :=
  (n_time, JStr (e_ts c))
  :: (match e_name c with [] => [] | nm => [(n_logger, jstr nm)] end)
  ++ (n_level, jstr (level_string g (e_lvl c)))
  :: (n_msg, jstr msg)
  :: jmembers (norm_attrs attrs)
  ++ jcaller (e_caller c).
Lemma json_of_members g c msg attrs : json_of g c msg attrs = JObj (json_members g c msg attrs).
Proof. reflexivity. Qed.

Section Rec2.
Variable isprint : Z -> bool.
Variable g : registry.

Lemma str_member_ok f n v : fixu n = n -> memb_ok (pval (S f)) (str_member n v) (n, jstr v).
Proof. intros E. apply memb_lit; [exact E|]. intros r _. apply E_quote. Qed.

Lemma caller_ok f cal : (match cal with None => True | Some _ => (2 <= f)%nat end) ->
  Forall2 (memb_ok (pval f)) (caller_members cal) (jcaller cal).
Proof.
  destruct cal as [[[file line] fn]|]; intros Hf; [|constructor].
  cbn [caller_members jcaller]. constructor; [|constructor].
  apply memb_lit; [exact fixu_caller|]. intros r _.
  destruct f as [|[|f]]; try lia. rewrite pval_S. unfold caller_body.
  rewrite <- app_comm_cons, <- app_assoc. cbn [app].
  apply step_object. constructor; [|constructor; [|constructor; [|constructor]]].
  - apply str_member_ok. exact fixu_file.
  - apply memb_lit; [exact fixu_line|]. intros r' Hr'. apply E_num. exact Hr'.
  - apply str_member_ok. exact fixu_function.
Qed.

Lemma top_members_ok c msg attrs f :
  plain_b (e_ts c) = true -> dom_attrs_b attrs = true -> (rec_depth c attrs < f)%nat ->
  Forall2 (memb_ok (pval f)) (top_members isprint g c msg attrs) (json_members g c msg attrs).
Proof.
  intros Hts D Hf. unfold rec_depth in Hf.
  destruct f as [|f]; [lia|].
  unfold top_members, json_members. constructor.
  { unfold time_member. apply memb_lit; [exact fixu_time|]. intros r _. apply E_plain. exact Hts. }
  apply Forall2_app.
  { destruct (e_name c) as [|b nm]; [constructor|]. cbn [name_members]. constructor; [|constructor].
    apply str_member_ok. exact fixu_logger. }
  constructor. { apply str_member_ok. exact fixu_level. }
  constructor. { apply str_member_ok. exact fixu_msg. }
  apply Forall2_app.
  - apply members_ok. intros k x Hin pfx' r Hr.
    pose proof (norm_attrs_dom _ D) as D'.
    apply value_ok; [exact (dom_attrs_in _ _ _ D' Hin)| |exact Hr].
    pose proof (adepth_in _ _ _ Hin). pose proof (norm_attrs_depth attrs). lia.
  - apply caller_ok. destruct (e_caller c); [lia|exact I].
Qed.

(* the record without its final newline is ONE JSON value, the expected object, and nothing else *)
Lemma record_roundtrip c msg attrs out fuel :
  dom_cfg_b c = true -> dom_attrs_b attrs = true -> blank_print c msg = false ->
  (rec_depth c attrs + 2 <= fuel)%nat ->
  encode isprint g c msg attrs = Some out ->
  exists body, out = body ++ [x0a] /\ parse_json fuel body = Some (json_of g c msg attrs, []).
Proof.
  intros Dc Da Hb Hf He. unfold dom_cfg_b in Dc. apply andb_prop in Dc as [Hm Hts].
  assert (Hm' : e_mode c = ShJSON) by (destruct (e_mode c); try discriminate; reflexivity).
  rewrite (encode_shape isprint g c msg attrs Hm' Hb) in He.
  exists (x7b :: join_with [x2c] (top_members isprint g c msg attrs) ++ [x7d]). split; [congruence|]. clear He.
  destruct fuel as [|f]; [lia|]. unfold parse_json. rewrite pval_S, json_of_members.
  rewrite (step_object (pval f) _ _ [] (top_members_ok c msg attrs f Hts Da ltac:(lia))). reflexivity.
Qed.
End Rec2.

(* ================= framing: no control byte in the line ================= *)
Lemma noctl_lit b : 32 <= bz b -> noctl b.
Proof. intros H. exact H. Qed.
Ltac nl := apply noctl_lit; cbn; lia.

Lemma join_noctl l : Forall (Forall noctl) l -> Forall noctl (join_with [x2c] l).
Proof.
  induction 1 as [|x l Hx Hl IH]; [constructor|].
  rewrite join_commas. apply Forall_app. split; [exact Hx|].
  clear IH. induction Hl as [|y l Hy Hl IH]; [constructor|]. rewrite commas_cons.
  constructor; [nl|]. apply Forall_app. split; assumption.
Qed.
Lemma bracket_noctl l : Forall (Forall noctl) l -> Forall noctl (bracket l).
Proof.
  intros H. unfold bracket. constructor; [nl|]. apply Forall_app. split; [apply join_noctl; exact H|].
  constructor; [nl|constructor].
Qed.
Lemma map_noctl {A} (f : A -> bytes) l : (forall x, In x l -> Forall noctl (f x)) -> Forall (Forall noctl) (map f l).
Proof. intros H. apply Forall_forall. intros b Hb. apply in_map_iff in Hb. destruct Hb as (x & <- & Hx). apply H. exact Hx. Qed.
Lemma dec_noctl z : Forall noctl (dec_of_Z z).
Proof. apply plain_noctl. apply dec_of_Z_plain. Qed.
Lemma bool_noctl b : Forall noctl (bool_text b).
Proof. destruct b; cbn [bool_text]; repeat (constructor; [nl|]); constructor. Qed.
Lemma wrap_noctl t : plain_b t = true -> Forall noctl (x22 :: t ++ [x22]).
Proof.
  intros H. constructor; [nl|]. apply Forall_app. split; [apply plain_noctl; exact H|]. constructor; [nl|constructor].
Qed.
Lemma keyed_noctl k body : Forall noctl body -> Forall noctl (json_quote k ++ x3a :: body).
Proof. intros H. apply Forall_app. split; [apply json_quote_noctl|]. constructor; [nl|exact H]. Qed.

Lemma braces_noctl l : Forall (Forall noctl) l -> Forall noctl (x7b :: join_with [x2c] l ++ [x7d]).
Proof.
  intros H. constructor; [nl|]. apply Forall_app. split; [apply join_noctl; exact H|]. constructor; [nl|constructor].
Qed.

Section Framing.
Variable isprint : Z -> bool.
Variable g : registry.
Variables clr bg : Z.
Notation ser := (ser_value isprint ShJSON clr bg).

Lemma members_noctl items pfx :
  (forall k x, In (A k x) items -> forall pfx', Forall noctl (ser pfx' x)) ->
  Forall (Forall noctl) (members_of isprint ShJSON clr bg pfx items).
Proof.
  induction items as [|[k x|] t IH]; intros H; cbn [members_of].
  - constructor.
  - constructor.
    + unfold key_part, dkey. rewrite <- app_assoc. cbn [app]. apply keyed_noctl. apply (H k x). left. reflexivity.
    + apply IH. intros k' x' Hin. apply (H k' x'). right. exact Hin.
  - apply IH. intros k' x' Hin. apply (H k' x'). right. exact Hin.
Qed.

Lemma ser_noctl : forall v, dom_value_b v = true -> forall pfx, Forall noctl (ser pfx v).
Proof.
  apply (value_nested_ind (fun v => dom_value_b v = true -> forall pfx, Forall noctl (ser pfx v))).
  - intros v G D pfx.
    destruct v; try discriminate G; cbn [ser_value quoted json_wrap time_text dom_value_b] in *;
      try apply json_quote_noctl; try (apply wrap_noctl; exact D).
    + repeat (constructor; [nl|]); constructor.
    + constructor; [nl|]. apply keyed_noctl. apply Forall_app. split; [apply json_quote_noctl|]. constructor; [nl|constructor].
    + apply bool_noctl.
    + apply dec_noctl.
    + apply wrap_noctl. apply dec_of_Z_plain.
    + apply bracket_noctl. apply map_noctl. intros x _. apply json_quote_noctl.
    + apply bracket_noctl. apply map_noctl. intros x _. apply bool_noctl.
    + apply bracket_noctl. apply map_noctl. intros x _. apply dec_noctl.
    + apply bracket_noctl. apply map_noctl. intros x _. apply dec_noctl.
    + apply bracket_noctl. apply map_noctl. intros x Hx. apply wrap_noctl. rewrite forallb_forall in D. apply D. exact Hx.
    + apply bracket_noctl. apply map_noctl. intros x _. apply json_quote_noctl.
    + apply bracket_noctl. apply map_noctl. intros x Hx. apply wrap_noctl. rewrite forallb_forall in D. apply D. exact Hx.
  - intros items IH D pfx. rewrite dom_group in D. rewrite ser_group. unfold render_members.
    apply braces_noctl. apply members_noctl. intros k x Hin pfx'.
    rewrite Forall_forall in IH. apply (IH _ Hin). exact (dom_attrs_in _ _ _ D Hin).
Qed.
End Framing.

Section Framing2.
Variable isprint : Z -> bool.
Variable g : registry.

Lemma top_members_noctl c msg attrs : plain_b (e_ts c) = true -> dom_attrs_b attrs = true ->
  Forall (Forall noctl) (top_members isprint g c msg attrs).
Proof.
  intros Hts D. unfold top_members. constructor.
  { unfold time_member. apply keyed_noctl. apply wrap_noctl. exact Hts. }
  apply Forall_app. split.
  { destruct (e_name c); cbn [name_members]; [constructor|]. constructor; [|constructor]. apply keyed_noctl. apply json_quote_noctl. }
  constructor. { apply keyed_noctl. apply json_quote_noctl. }
  constructor. { apply keyed_noctl. apply json_quote_noctl. }
  apply Forall_app. split.
  - apply members_noctl. intros k x Hin pfx'. apply ser_noctl.
    exact (dom_attrs_in _ _ _ (norm_attrs_dom _ D) Hin).
  - destruct (e_caller c) as [[[file line] fn]|]; cbn [caller_members]; [|constructor].
    constructor; [|constructor]. apply keyed_noctl. unfold caller_body. apply braces_noctl.
    constructor; [apply keyed_noctl; apply json_quote_noctl|].
    constructor; [apply keyed_noctl; apply dec_noctl|].
    constructor; [apply keyed_noctl; apply json_quote_noctl|constructor].
Qed.

(* every byte before the final newline is >= 0x20: one line, whatever the input *)
Lemma record_one_line c msg attrs out :
  dom_cfg_b c = true -> dom_attrs_b attrs = true ->
  encode isprint g c msg attrs = Some out ->
  exists body, out = body ++ [x0a] /\ Forall noctl body.
Proof.
  intros Dc Da He. unfold dom_cfg_b in Dc. apply andb_prop in Dc as [Hm Hts].
  assert (Hm' : e_mode c = ShJSON) by (destruct (e_mode c); try discriminate; reflexivity).
  destruct (blank_print c msg) eqn:Hb.
  - unfold encode in He. unfold blank_print in Hb. rewrite Hb in He. exists []. split; [cbn [app]; congruence|constructor].
  - rewrite (encode_shape isprint g c msg attrs Hm' Hb) in He.
    exists (x7b :: join_with [x2c] (top_members isprint g c msg attrs) ++ [x7d]). split; [congruence|].
    apply braces_noctl. apply top_members_noctl; assumption.
Qed.

Lemma noctl_no_lf body : Forall noctl body -> ~ In x0a body.
Proof. intros H Hin. rewrite Forall_forall in H. specialize (H _ Hin). unfold noctl in H. cbn in H. lia. Qed.
End Framing2.

(* ================= member names ================= *)
Lemma jmembers_names l : map fst (jmembers l) = map fixu (attr_keys l).
Proof. induction l as [|[k x|] t IH]; cbn [jmembers attr_keys map fst]; [reflexivity| |exact IH]. rewrite IH. reflexivity. Qed.

Lemma json_members_names g c msg attrs : map fst (json_members g c msg attrs) = member_names c attrs.
Proof.
  unfold json_members, member_names. cbn [map fst]. f_equal. rewrite map_app. cbn [map fst].
  rewrite map_app, jmembers_names. f_equal.
  - destruct (e_name c); reflexivity.
  - f_equal. f_equal. f_equal. destruct (e_caller c) as [[[file line] fn]|]; reflexivity.
Qed.

(* ================= key order at every level ================= *)
Inductive levels_strict : list attr -> Prop :=
| LS l : strictly l -> (forall k items, In (A k (VGroup items)) l -> levels_strict items) -> levels_strict l.

Lemma norm_value_levels : forall v, match norm_value v with VGroup its => levels_strict its | _ => True end.
Proof.
  apply (value_nested_ind (fun v => match norm_value v with VGroup its => levels_strict its | _ => True end)).
  - intros v G. rewrite norm_leaf by exact G. destruct v; try exact I. discriminate G.
  - intros items IH. rewrite norm_group. constructor; [apply sort_dedupe_strict|].
    intros k its Hin. destruct (norm_in _ _ _ Hin) as (x0 & Hin0 & E).
    rewrite Forall_forall in IH. pose proof (IH _ Hin0) as H. unfold on_attr in H. cbv beta iota in H.
    rewrite <- E in H. exact H.
Qed.

Lemma norm_attrs_levels attrs : levels_strict (norm_attrs attrs).
Proof.
  unfold norm_attrs. constructor; [apply sort_dedupe_strict|].
  intros k its Hin. destruct (norm_in _ _ _ Hin) as (x0 & Hin0 & E).
  pose proof (norm_value_levels x0) as H. rewrite <- E in H. exact H.
Qed.

Lemma attr_keys_akey k l : In k (attr_keys l) -> In (Some k) (map akey l).
Proof.
  induction l as [|[k' x|] t IH]; cbn [attr_keys map akey]; intros H; [exact H| |right; apply IH; exact H].
  destruct H as [->|H]; [left; reflexivity|right; apply IH; exact H].
Qed.
Lemma strictly_keys_nodup l : strictly l -> NoDup (attr_keys l).
Proof.
  intros Hs. apply strictly_nodup in Hs. induction l as [|[k x|] t IH]; cbn [attr_keys map akey] in *.
  - constructor.
  - inversion Hs as [|? ? Hn Hd]; subst. constructor; [|apply IH; exact Hd].
    intros Hin. apply Hn. apply attr_keys_akey. exact Hin.
  - inversion Hs as [|? ? Hn Hd]; subst. apply IH. exact Hd.
Qed.

(* ascending: every key is smaller than every later key of the same level *)
Fixpoint keys_ascending (ks : list bytes) : Prop :=
  match ks with
  | [] => True
  | k :: t => (forall k', In k' t -> bytes_ltb k k' = true) /\ keys_ascending t
  end.
Lemma attr_keys_in k l : In k (attr_keys l) -> exists x, In (A k x) l.
Proof.
  induction l as [|[k' x|] t IH]; cbn [attr_keys]; intros H; [destruct H| |].
  - destruct H as [->|H]; [exists x; left; reflexivity|]. destruct (IH H) as [x' Hx]. exists x'. right. exact Hx.
  - destruct (IH H) as [x' Hx]. exists x'. right. exact Hx.
Qed.
Lemma strictly_tail x l : strictly (x :: l) -> strictly l.
Proof. intros H. inversion H; subst; [constructor|assumption]. Qed.
Lemma strictly_keys_ascending l : strictly l -> keys_ascending (attr_keys l).
Proof.
  induction l as [|[k x|] t IH]; intros Hs; cbn [attr_keys keys_ascending]; [exact I| |].
  - split; [|apply IH; eapply strictly_tail; exact Hs].
    intros k' Hin. destruct (attr_keys_in _ _ Hin) as [x' Hx'].
    exact (strictly_head_lt _ _ Hs _ Hx').
  - apply IH. eapply strictly_tail. exact Hs.
Qed.

(* ================= the statements used by Props/C04.v ================= *)
Lemma string_roundtrip s rest f : parse_json (S f) (json_quote s ++ rest) = Some (JStr (fixu s), rest).
Proof. unfold parse_json. rewrite E_quote. reflexivity. Qed.

Lemma record_no_forgery isprint g c msg attrs out fuel :
  dom_cfg_b c = true -> dom_attrs_b attrs = true -> blank_print c msg = false ->
  (rec_depth c attrs + 2 <= fuel)%nat ->
  encode isprint g c msg attrs = Some out ->
  exists body ms, out = body ++ [x0a] /\ parse_json fuel body = Some (JObj ms, []) /\
                  map fst ms = member_names c attrs /\
                  keys_ascending (attr_keys (norm_attrs attrs)) /\ NoDup (attr_keys (norm_attrs attrs)).
Proof.
  intros Dc Da Hb Hf He. destruct (record_roundtrip isprint g c msg attrs out fuel Dc Da Hb Hf He) as (body & E & P).
  exists body, (json_members g c msg attrs). split; [exact E|]. split; [rewrite <- json_of_members; exact P|].
  split; [apply json_members_names|].
  pose proof (sort_dedupe_strict (map norm_attr attrs)) as Hs. fold (norm_attrs attrs) in Hs.
  split; [apply strictly_keys_ascending; exact Hs|apply strictly_keys_nodup; exact Hs].
Qed.

Lemma keys_order attrs :
  levels_strict (norm_attrs attrs) /\
  (forall l, levels_strict l -> keys_ascending (attr_keys l) /\ NoDup (attr_keys l)) /\
  (forall k, last_value k (norm_attrs attrs) = last_value k (map norm_attr attrs)) /\
  (forall items, norm_value (VGroup items) = VGroup (sort_dedupe (map norm_attr items)) /\
                 forall k, last_value k (sort_dedupe (map norm_attr items)) = last_value k (map norm_attr items)).
Proof.
  split; [apply norm_attrs_levels|]. split.
  { intros l H. inversion H as [l' Hs _]; subst. split; [apply strictly_keys_ascending|apply strictly_keys_nodup]; exact Hs. }
  split; [intros k; apply last_wins|].
  intros items. split; [apply norm_group|intros k; apply last_wins].
Qed.
