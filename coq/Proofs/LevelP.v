(* Lemmas about Model/Level.v (C01). *)
Require Import Verif.Model.Base Verif.Model.Decision Verif.Model.Dec Verif.Model.Level.

Lemma enabled_rule m dbg L r : enabled_code m dbg L r = true <-> admits m dbg L r.
Proof.
  unfold enabled_code, admits, treated_as, lv_off, lv_always, lv_debug.
  destruct (Z.eqb_spec L 7) as [HL7|HL7]; cbn [orb].
  { split; [discriminate|]. intros [H _]. contradiction. }
  destruct (Z.eqb_spec r 7) as [Hr7|Hr7]; cbn [orb].
  { split; [discriminate|]. intros [_ [H _]]. contradiction. }
  destruct (Z.eqb_spec L 8) as [HL8|HL8]; cbn [orb].
  { split; [intros _|reflexivity]. repeat split; auto. }
  destruct (Z.eqb_spec r 8) as [Hr8|Hr8]; cbn [orb].
  { split; [intros _|reflexivity]. repeat split; auto. }
  destruct dbg; cbn [andb].
  - destruct (Z.eqb_spec r 5) as [Hr5|Hr5].
    + split; [intros _|reflexivity]. repeat split; auto.
    + destruct (lookupZ m r) as [l|].
      * rewrite Z.leb_le. split.
        -- intros H. repeat split; auto.
        -- intros [_ [_ [H|[H|[[_ H]|H]]]]]; try contradiction. exact H.
      * rewrite Z.leb_le. split.
        -- intros H. repeat split; auto.
        -- intros [_ [_ [H|[H|[[_ H]|H]]]]]; try contradiction. exact H.
  - destruct (lookupZ m r) as [l|].
    + rewrite Z.leb_le. split.
      * intros H. repeat split; auto.
      * intros [_ [_ [H|[H|[[H _]|H]]]]]; try contradiction; try discriminate. exact H.
    + rewrite Z.leb_le. split.
      * intros H. repeat split; auto.
      * intros [_ [_ [H|[H|[[H _]|H]]]]]; try contradiction; try discriminate. exact H.
Qed.

(* corollaries users rely on *)
Lemma off_logger_silent m dbg r : enabled_code m dbg lv_off r = false.
Proof. reflexivity. Qed.
Lemma off_severity_silent m dbg L : enabled_code m dbg L lv_off = false.
Proof. unfold enabled_code. rewrite Z.eqb_refl, orb_true_r. reflexivity. Qed.
Lemma always_severity m dbg L : L <> lv_off -> enabled_code m dbg L lv_always = true.
Proof.
  intros H. unfold enabled_code. apply Z.eqb_neq in H. rewrite H. cbn.
  rewrite orb_true_r. reflexivity.
Qed.
Lemma always_logger m dbg r : r <> lv_off -> enabled_code m dbg lv_always r = true.
Proof. intros H. unfold enabled_code. apply Z.eqb_neq in H. rewrite H. reflexivity. Qed.
(* admission is monotone in the logger level for ordinary levels *)
Lemma monotone m dbg L L' r : L <> lv_off -> L' <> lv_off -> L <= L' -> L <> lv_always ->
  enabled_code m dbg L r = true -> enabled_code m dbg L' r = true.
Proof.
  intros H1 H2 Hle H3. rewrite !enabled_rule. unfold admits.
  intros [_ [Hr [H|[H|[H|H]]]]]; try contradiction; (split; [exact H2|split; [exact Hr|]]).
  - right; left; exact H.
  - right; right; left; exact H.
  - right; right; right. lia.
Qed.
(* a level registered without treated-as is compared by its own number *)
Lemma untreated_own_number m dbg L r : lookupZ m r = None ->
  L <> lv_off -> r <> lv_off -> L <> lv_always -> r <> lv_always -> (dbg = false \/ r <> lv_debug) ->
  enabled_code m dbg L r = (r <=? L).
Proof.
  intros Hm H1 H2 H3 H4 H5. unfold enabled_code. rewrite Hm.
  apply Z.eqb_neq in H1, H2, H3, H4. rewrite H1, H2, H3, H4. cbn.
  destruct H5 as [->|H5]; [reflexivity|]. apply Z.eqb_neq in H5. rewrite H5, andb_false_r. reflexivity.
Qed.

(* ---- RegisterLevel ---- *)
Lemma lookupZ_app_other {V} (l : list (Z * V)) k v r : r <> k -> lookupZ (l ++ [(k, v)]) r = lookupZ l r.
Proof.
  intros H. induction l as [|[k' v'] t IH]; cbn.
  - destruct (Z.eqb_spec k r); [congruence|reflexivity].
  - destruct (k' =? r); [reflexivity|exact IH].
Qed.

Lemma memZ_true l k : memZ l k = true <-> In k l.
Proof.
  unfold memZ. rewrite existsb_exists. split.
  - intros [x [Hin Hx]]. apply Z.eqb_eq in Hx. subst. exact Hin.
  - intros H. exists k. split; [exact H|apply Z.eqb_refl].
Qed.

(* a refused registration leaves every table unchanged *)
Lemma register_refused g v t o : snd (register g v t o) <> RegOk -> fst (register g v t o) = g.
Proof.
  unfold register. destruct (memZ (r_all g) v); [reflexivity|].
  destruct (lookupB (r_s2l g) (to_lower t)); [reflexivity|]. cbn. congruence.
Qed.

(* a value or a title already in use is refused *)
Lemma register_dup_value g v t o : In v (r_all g) -> snd (register g v t o) = RegDupValue.
Proof. intros H. unfold register. apply memZ_true in H. rewrite H. reflexivity. Qed.
Lemma register_dup_title g v t o l : ~ In v (r_all g) -> lookupB (r_s2l g) (to_lower t) = Some l ->
  snd (register g v t o) = RegDupTitle.
Proof.
  intros Hv Ht. unfold register. destruct (memZ (r_all g) v) eqn:E.
  - apply memZ_true in E. contradiction.
  - rewrite Ht. reflexivity.
Qed.

(* how an existing level is gated never changes by later registrations *)
Lemma register_as_stable g v t o r : In r (r_all g) ->
  lookupZ (r_as (fst (register g v t o))) r = lookupZ (r_as g) r.
Proof.
  intros Hr. unfold register. destruct (memZ (r_all g) v) eqn:E; [reflexivity|].
  destruct (lookupB (r_s2l g) (to_lower t)); [reflexivity|]. cbn.
  destruct (o_treat o <? lv_max); [|reflexivity]. apply lookupZ_app_other.
  intros ->. apply memZ_true in Hr. congruence.
Qed.
