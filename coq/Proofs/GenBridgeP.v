(* NewLogLogger and handlerWriter.Write regenerated from the source (Gen/Bridge.v). *)
Require Import Verif.Model.Base Verif.Model.Decision Verif.Model.GoSem Verif.Model.BridgeRef.
Require Import Verif.Proofs.GenRouteP.
Require Verif.Gen.Bridge.
Require Import Lia ZifyBool.

Lemma gen_new_log_logger : forall f_level flags deflevel h lvl,
  Bridge.new_log_logger f_level flags deflevel h lvl = mk_bridge (h, lvl, true, 0) [] 0.
Proof.
  intros f_level flags deflevel h lvl.
  unfold Bridge.new_log_logger, new_log_logger_ref;
  first [ reflexivity
        | cbv zeta; repeat (gen_split; gen_inj; try discriminate; try lia; try reflexivity); try congruence ].
Qed.

Lemma gen_bridge_write : forall f_enabled f_skip f_getpc as_aware w_n w_e l lvl capture extra buf tr,
  Bridge.bridge_write f_enabled f_skip f_getpc as_aware w_n w_e l lvl capture extra buf tr =
  bridge_write_ref f_enabled f_skip f_getpc as_aware w_n w_e l lvl capture extra buf tr.
Proof.
  intros f_enabled f_skip f_getpc as_aware w_n w_e l lvl capture extra buf tr.
  unfold Bridge.bridge_write;
  first [ reflexivity
        | unfold bridge_write_ref, bridge_pc; cbv zeta;
          repeat (gen_split; gen_inj; try discriminate; try lia; try reflexivity); try congruence ].
Qed.

(* a bridge as NewLogLogger builds it, written to: whatever the flags and levels were at construction *)
Lemma bridge_end_to_end : forall f_level flags deflevel h lvl f_enabled f_skip f_getpc as_aware w_n w_e buf tr,
  match Bridge.new_log_logger f_level flags deflevel h lvl with
  | mk_bridge (l, v, cap, extra) _ _ =>
      Bridge.bridge_write f_enabled f_skip f_getpc as_aware w_n w_e l v cap extra buf tr =
      if f_enabled h lvl
      then match as_aware h with
           | Some hh => (w_n, w_e, tr ++ [BWInternal hh lvl (f_getpc 4 (0 + f_skip h)) buf])
           | None => (0, None, tr)
           end
      else (0, None, tr)
  | BridgeNone => False
  end.
Proof.
  intros. rewrite gen_new_log_logger. rewrite gen_bridge_write. reflexivity.
Qed.
