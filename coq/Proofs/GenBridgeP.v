(* NewLogLogger and handlerWriter.Write regenerated from the source (Gen/Bridge.v). *)
Require Import Verif.Model.Base Verif.Model.Decision Verif.Model.GoSem Verif.Model.BridgeRef.
Require Import Verif.Proofs.GenRouteP.
Require Verif.Gen.Bridge.
Require Import Lia ZifyBool ZifyNat.

Lemma gen_new_log_logger : forall f_level ce cs flags deflevel h lvl,
  Bridge.new_log_logger f_level ce cs flags deflevel h lvl = mk_bridge (h, lvl, true, 0) [] 0.
Proof.
  intros f_level ce cs flags deflevel h lvl.
  unfold Bridge.new_log_logger, new_log_logger_ref;
  first [ reflexivity
        | cbv zeta; repeat (gen_split; gen_inj; try discriminate; try lia; try reflexivity); try congruence ].
Qed.

Lemma gen_bridge_write : forall f_enabled f_skip f_getpc as_aware w_n w_e l lvl capture extra buf tr,
  Bridge.bridge_write f_enabled f_skip f_getpc as_aware w_n w_e l lvl capture extra buf tr =
  bridge_write_ref f_enabled f_skip f_getpc as_aware w_n w_e l lvl capture extra buf tr.
Proof.
  intros f_enabled f_skip f_getpc as_aware w_n w_e l lvl capture extra buf tr.
  unfold Bridge.bridge_write;
  first [ reflexivity
        | unfold bridge_write_ref, bridge_pc; cbv zeta;
          repeat (gen_split; gen_inj; try discriminate; try lia; try reflexivity); try congruence ].
Qed.

(* a bridge as NewLogLogger builds it, written to: whatever the flags and levels were at construction *)
Lemma bridge_end_to_end : forall f_level ce cs flags deflevel h lvl f_enabled f_skip f_getpc as_aware w_n w_e buf tr,
  match Bridge.new_log_logger f_level ce cs flags deflevel h lvl with
  | mk_bridge (l, v, cap, extra) _ _ =>
      Bridge.bridge_write f_enabled f_skip f_getpc as_aware w_n w_e l v cap extra buf tr =
      if f_enabled h lvl
      then match as_aware h with
           | Some hh => (w_n, w_e, tr ++ [BWInternal hh lvl (f_getpc 4 (0 + f_skip h)) buf])
           | None => (0, None, tr)
           end
      else (0, None, tr)
  | BridgeNone => False
  end.
Proof.
  intros. rewrite gen_new_log_logger. rewrite gen_bridge_write. reflexivity.
Qed.

Lemma nth_error_last {A} (l : list A) (b : A) : nth_error (l ++ [b]) (length l) = Some b.
Proof. rewrite nth_error_app2 by lia. rewrite Nat.sub_diag. reflexivity. Qed.

Lemma gen_write_internal : forall tr1 tr2 now lvl pc buf tr,
  Bridge.write_internal tr1 tr2 now lvl pc buf tr =
  Some (Z.of_nat (length buf), None, tr ++ [BWPrint lvl now pc (drop_final_lf buf)]).
Proof.
  intros tr1 tr2 now lvl pc buf tr.
  unfold Bridge.write_internal, write_internal_ref;
  first
    [ reflexivity
    | cbv zeta; unfold drop_final_lf, str_at, str_prefix;
      destruct (rev buf) as [|b r] eqn:Er;
      [ apply (f_equal (@rev byte)) in Er; rewrite rev_involutive in Er; subst buf; cbn; reflexivity
      | apply (f_equal (@rev byte)) in Er; rewrite rev_involutive in Er; cbn [rev] in Er; subst buf;
        rewrite app_length; cbn [length];
        replace (Z.of_nat (length (rev r) + 1) - 1) with (Z.of_nat (length (rev r))) by lia;
        rewrite Nat2Z.id, nth_error_last;
        replace (0 <? Z.of_nat (length (rev r) + 1)) with true by lia;
        replace (Z.of_nat (length (rev r)) <? 0) with false by lia;
        cbv beta iota;
        replace (Z.of_nat (length (rev r) + 1) <? Z.of_nat (length (rev r))) with false by lia; cbn [orb];
        rewrite firstn_app, firstn_all, Nat.sub_diag; cbn [firstn]; rewrite app_nil_r;
        destruct (bz b =? 10); reflexivity ] ].
Qed.

(* the same strip as the model of C15 has it (Adapters.strip_lf) *)
Require Verif.Model.Adapters.
Lemma strip_lf_snoc : forall (l : bytes) b, Adapters.strip_lf (l ++ [b]) = if byte_eqb b x0a then l else l ++ [b].
Proof.
  induction l as [|a l IH]; intros b.
  - cbn. destruct (byte_eqb b x0a); reflexivity.
  - cbn [app]. change (Adapters.strip_lf (a :: l ++ [b])) with
      (match l ++ [b] with [] => (if byte_eqb a x0a then [] else [a]) | _ => a :: Adapters.strip_lf (l ++ [b]) end).
    destruct (l ++ [b]) eqn:E; [destruct l; discriminate|]. rewrite <- E, IH. destruct (byte_eqb b x0a); reflexivity.
Qed.
Lemma byte_eqb_lf b : byte_eqb b x0a = (bz b =? 10).
Proof. destruct b; vm_compute; reflexivity. Qed.
Lemma drop_final_lf_strip : forall buf, drop_final_lf buf = Adapters.strip_lf buf.
Proof.
  intros buf. unfold drop_final_lf. destruct (rev buf) as [|b r] eqn:Er.
  - apply (f_equal (@rev byte)) in Er. rewrite rev_involutive in Er. subst buf. reflexivity.
  - apply (f_equal (@rev byte)) in Er. rewrite rev_involutive in Er. cbn [rev] in Er. subst buf.
    rewrite strip_lf_snoc, byte_eqb_lf. reflexivity.
Qed.
Lemma gen_write_internal_model : forall tr1 tr2 now lvl pc buf tr,
  Bridge.write_internal tr1 tr2 now lvl pc buf tr =
  Some (Z.of_nat (length buf), None, tr ++ [BWPrint lvl now pc (Adapters.strip_lf buf)]).
Proof. intros. rewrite gen_write_internal, drop_final_lf_strip. reflexivity. Qed.
