(* The skeleton of Entry.printImpl regenerated from the source (Gen/Layout.v) against its reference
   (Model/LayoutRef.v), for every choice of the part printers, colour table, flag word and context. *)
Require Import Verif.Model.Base Verif.Model.Decision Verif.Model.GoSem Verif.Model.LayoutRef.
Require Verif.Gen.Layout.
Require Import Lia ZifyBool ZifyNat.

Section P.
Context {R E D : Type}.
Variables (f_begin f_timestamp f_name f_severity f_msg f_first f_pc f_rest : pcs R -> pcs R)
          (f_attrs : pcs R -> E * pcs R) (f_errdump : pcs R -> E -> pcs R) (f_end : pcs R -> bool -> pcs R)
          (f_bytes : pcs R -> bytes) (d_printout : Z -> bytes -> D).

Lemma gen_print_impl m flags pc tr :
  @Layout.print_impl R E D f_begin f_timestamp f_name f_severity f_msg f_first f_pc f_rest f_attrs f_errdump f_end f_bytes d_printout m flags pc tr
  = print_impl_ref f_begin f_timestamp f_name f_severity f_msg f_first f_pc f_rest f_attrs f_errdump f_end f_bytes d_printout m flags 128 pc tr.
Proof.
  first [ reflexivity
        | unfold Layout.print_impl, print_impl_ref, take_colors; cbv zeta;
          destruct (pc_noColor (f_begin pc));
          [ | destruct (lookupZ m (pc_lvl (f_begin pc))) as [[|c [|b t]]|]; cbn; try change (Pos.to_nat 1) with 1%nat; cbn [nth_error] ];
          repeat match goal with
                 | |- context [f_attrs ?p] => destruct (f_attrs p)
                 | |- context [if ?c then _ else _] => destruct c eqn:?
                 end; solve [ reflexivity | cbn [length] in *; lia ] ].
Qed.

(* whenever the skeleton returns, it has appended exactly ONE delivery: printOut at the level of the
   context, of the bytes the context holds after End(true) *)
Lemma print_impl_one_delivery m flags cb pc tr tr' pc' :
  print_impl_ref f_begin f_timestamp f_name f_severity f_msg f_first f_pc f_rest f_attrs f_errdump f_end f_bytes d_printout m flags cb pc tr
  = Some (tr', pc') ->
  tr' = tr ++ [d_printout (pc_lvl pc') (f_bytes pc')] /\ exists q, pc' = f_end q true.
Proof.
  unfold print_impl_ref. cbv zeta.
  match goal with |- context [match ?x with Some _ => _ | None => _ end] => destruct x as [p1|] end; [|discriminate].
  destruct (f_attrs p1) as [h p2]. intros H. injection H as <- <-. split; [reflexivity|]. eexists; reflexivity.
Qed.
End P.
