(* The skeleton of Entry.printImpl regenerated from the source (Gen/Layout.v) against its reference
   (Model/LayoutRef.v), for every choice of the part printers, colour table, flag word and context. *)
Require Import Verif.Model.Base Verif.Model.Decision Verif.Model.GoSem Verif.Model.LayoutRef.
Require Verif.Gen.Layout.
Require Import Verif.Model.Dec Verif.Model.Attrs Verif.Model.Encode.
Require Import Lia ZifyBool ZifyNat.

Section P.
Context {R E D : Type}.
Variables (f_begin f_timestamp f_name f_severity f_msg f_first f_pc f_rest : pcs R -> pcs R)
          (f_attrs : pcs R -> E * pcs R) (f_errdump : pcs R -> E -> pcs R) (f_end : pcs R -> bool -> pcs R)
          (f_bytes : pcs R -> bytes) (d_printout : Z -> bytes -> D).

Lemma gen_print_impl m flags pc tr :
  @Layout.print_impl R E D f_begin f_timestamp f_name f_severity f_msg f_first f_pc f_rest f_attrs f_errdump f_end f_bytes d_printout m flags pc tr
  = print_impl_ref f_begin f_timestamp f_name f_severity f_msg f_first f_pc f_rest f_attrs f_errdump f_end f_bytes d_printout m flags 128 pc tr.
Proof.
  first [ reflexivity
        | unfold Layout.print_impl, print_impl_ref, take_colors; cbv zeta;
          destruct (pc_noColor (f_begin pc));
          [ | destruct (lookupZ m (pc_lvl (f_begin pc))) as [[|c [|b t]]|]; cbn; try change (Pos.to_nat 1) with 1%nat; cbn [nth_error] ];
          repeat match goal with
                 | |- context [f_attrs ?p] => destruct (f_attrs p)
                 | |- context [if ?c then _ else _] => destruct c eqn:?
                 end; solve [ reflexivity | cbn [length] in *; lia ] ].
Qed.

(* whenever the skeleton returns, it has appended exactly ONE delivery: printOut at the level of the
   context, of the bytes the context holds after End(true) *)
Lemma print_impl_one_delivery m flags cb pc tr tr' pc' :
  print_impl_ref f_begin f_timestamp f_name f_severity f_msg f_first f_pc f_rest f_attrs f_errdump f_end f_bytes d_printout m flags cb pc tr
  = Some (tr', pc') ->
  tr' = tr ++ [d_printout (pc_lvl pc') (f_bytes pc')] /\ exists q, pc' = f_end q true.
Proof.
  unfold print_impl_ref. cbv zeta.
  match goal with |- context [match ?x with Some _ => _ | None => _ end] => destruct x as [p1|] end; [|discriminate].
  destruct (f_attrs p1) as [h p2]. intros H. injection H as <- <-. split; [reflexivity|]. eexists; reflexivity.
Qed.
End P.

(* ---- PrintCtx.Begin / End ---- *)
Lemma gen_pc_begin j buf : Layout.pc_begin j buf = pc_begin_ref j buf.
Proof. first [ reflexivity | unfold Layout.pc_begin, pc_begin_ref; destruct j; rewrite ?app_nil_r; reflexivity ]. Qed.

Lemma gen_pc_end j buf nl : Layout.pc_end j buf nl = pc_end_ref j buf nl.
Proof.
  first [ reflexivity
        | unfold Layout.pc_end, pc_end_ref; cbv zeta; destruct j; destruct nl;
          rewrite ?app_nil_r, <- ?app_assoc; reflexivity ].
Qed.

(* ---- checkedfuncname ---- *)
Lemma gen_checked_funcname f flags prov name :
  Layout.checked_funcname f flags prov name = checked_funcname_ref f flags prov name.
Proof.
  first [ reflexivity
        | unfold Layout.checked_funcname, checked_funcname_ref; cbv zeta;
          repeat match goal with |- context [if ?c then _ else _] => destruct c eqn:? end;
          try reflexivity; try lia;
          match goal with |- context [str_suffix ?a ?b] => destruct (str_suffix a b) end; reflexivity ].
Qed.

(* the text after the last '/' is what the encoder model prints (Encode.after_last_slash) *)
Lemma last_slash_spec : forall s acc i a, a < i ->
  let r := last_index_from s 47 i a in
  (r = a /\ after_last_slash_aux acc s = rev acc ++ s)
  \/ (i <= r < i + Z.of_nat (length s) /\ after_last_slash_aux acc s = skipn (Z.to_nat (r - i + 1)) s).
Proof.
  induction s as [|b t IH]; intros acc i a Hai; cbn [last_index_from after_last_slash_aux length].
  - left. split; [reflexivity | now rewrite app_nil_r].
  - destruct (bz b =? 47) eqn:Eb.
    + destruct (IH [] (i + 1) i ltac:(lia)) as [[Hr Ha]|[Hr Ha]]; right.
      * rewrite Hr. split; [lia|]. rewrite Ha. replace (Z.to_nat (i - i + 1)) with 1%nat by lia. reflexivity.
      * split; [lia|]. rewrite Ha.
        replace (Z.to_nat (last_index_from t 47 (i + 1) i - i + 1)) with (S (Z.to_nat (last_index_from t 47 (i + 1) i - (i + 1) + 1))) by lia.
        reflexivity.
    + destruct (IH (b :: acc) (i + 1) a ltac:(lia)) as [[Hr Ha]|[Hr Ha]].
      * left. split; [exact Hr|]. rewrite Ha. cbn [rev]. now rewrite <- app_assoc.
      * right. split; [lia|]. rewrite Ha.
        replace (Z.to_nat (last_index_from t 47 (i + 1) a - i + 1)) with (S (Z.to_nat (last_index_from t 47 (i + 1) a - (i + 1) + 1))) by lia.
        reflexivity.
Qed.

Lemma checked_funcname_plain f flags prov name : Z.land flags 256 = 0 ->
  checked_funcname_ref f flags prov name = Some (after_last_slash name).
Proof.
  intros Hf. unfold checked_funcname_ref. rewrite Hf. cbn [Z.eqb negb]. cbv zeta.
  unfold str_last_index. change (bz x2f) with 47. unfold after_last_slash.
  destruct (last_slash_spec name [] 0 (-1) ltac:(lia)) as [[Hr Ha]|[Hr Ha]]; cbv zeta in *.
  - rewrite Hr. cbn. rewrite Ha. reflexivity.
  - destruct (0 <=? last_index_from name 47 0 (-1)) eqn:E; [|lia].
    unfold str_suffix.
    destruct ((last_index_from name 47 0 (-1) + 1 <? 0) || (Z.of_nat (length name) <? last_index_from name 47 0 (-1) + 1)) eqn:E2; [lia|].
    rewrite Ha. f_equal. f_equal. lia.
Qed.

(* ---- the two width setters ---- *)
Lemma gen_set_level_output_width cur w :
  Layout.set_level_output_width cur w = (if (0 <=? w) && (w <=? 5) then w else cur).
Proof.
  first [ reflexivity
        | unfold Layout.set_level_output_width; cbv zeta;
          repeat match goal with |- context [if ?c then _ else _] => destruct c eqn:? end; solve [ reflexivity | lia ] ].
Qed.

Lemma gen_set_message_minimal_width cur w :
  Layout.set_message_minimal_width cur w = (if 16 <=? w then w else cur).
Proof.
  first [ reflexivity
        | unfold Layout.set_message_minimal_width; cbv zeta;
          repeat match goal with |- context [if ?c then _ else _] => destruct c eqn:? end; solve [ reflexivity | lia ] ].
Qed.

(* any sequence of SetLevelOutputWidth calls leaves a width in 0..5 when it started there: ShortTag is
   never asked for a width of 6 or more *)
Lemma widths_stay_in_range ws : forall cur, 0 <= cur <= 5 ->
  0 <= fold_left Layout.set_level_output_width ws cur <= 5.
Proof.
  induction ws as [|w ws IH]; intros cur H; cbn [fold_left]; [exact H|].
  apply IH. rewrite gen_set_level_output_width. destruct ((0 <=? w) && (w <=? 5)) eqn:E; lia.
Qed.

(* ---- the flag word: the functions every other translation calls through a declared rendering ---- *)
Lemma gen_is_any_bits_set flags f : Layout.is_any_bits_set flags f = negb (Z.land flags f =? 0).
Proof. reflexivity. Qed.
Lemma gen_is_all_bits_set flags f : Layout.is_all_bits_set flags f = (Z.land flags f =? f).
Proof. reflexivity. Qed.
Lemma gen_add_flags flags fs : Layout.add_flags flags fs = fold_left Z.lor fs flags.
Proof.
  first [ reflexivity
        | unfold Layout.add_flags; cbv zeta; revert flags; induction fs as [|x t IH]; intros flags; cbn [fold_left];
          [ reflexivity | apply IH ] ].
Qed.

(* ---- the small append helpers of PrintCtx ---- *)
Lemma gen_pc_append_byte buf b : Layout.pc_append_byte buf b = Some (buf ++ [zb b]).
Proof. reflexivity. Qed.
Lemma gen_pc_append_string_value buf str : Layout.pc_append_string_value buf str = Some (buf ++ str).
Proof. reflexivity. Qed.
Lemma gen_pc_append_colon j buf : Layout.pc_append_colon j buf = Some (buf ++ [if j then x3a else x3d]).
Proof. first [ reflexivity | unfold Layout.pc_append_colon; destruct j; reflexivity ]. Qed.
Lemma gen_pc_append_comma j buf : Layout.pc_append_comma j buf = Some (buf ++ [if j then x2c else x20]).
Proof. first [ reflexivity | unfold Layout.pc_append_comma; destruct j; reflexivity ]. Qed.

(* ---- Entry.printTimestamp, over the translated helpers ---- *)
Require Verif.Gen.Escapes Verif.Gen.Colors Verif.Proofs.GenColorP.
Lemma gen_print_timestamp f_ts hex safe pc noColor json buf :
  Layout.print_timestamp f_ts hex safe pc noColor json buf =
  if noColor
  then match Escapes.string_key hex safe json buf [x74;x69;x6d;x65] with
       | None => None
       | Some b => Some (f_ts (b ++ [if json then x3a else x3d]) ++ [if json then x2c else x20])
       end
  else Some (f_ts (buf ++ echo_color 32) ++ [x20]).
Proof.
  first [ reflexivity
        | unfold Layout.print_timestamp; destruct noColor;
          [ destruct (Escapes.string_key hex safe json buf [x74;x69;x6d;x65]) as [b|]; [|reflexivity];
            rewrite gen_pc_append_colon, gen_pc_append_comma; reflexivity
          | rewrite GenColorP.gen_echo_color, gen_pc_append_byte; reflexivity ] ].
Qed.

(* ---- Entry.printLoggerName ---- *)
Lemma gen_print_logger_name fa fw name pc noColor json buf :
  Layout.print_logger_name fa fw name pc noColor json buf = print_logger_name_ref fa fw name noColor json buf.
Proof.
  first [ reflexivity
        | unfold Layout.print_logger_name, print_logger_name_ref; destruct name as [|c t];
          [ reflexivity
          | replace (bytes_eqb (c :: t) []) with false by reflexivity; cbn [negb]; destruct noColor;
            [ rewrite gen_pc_append_comma | rewrite gen_pc_append_byte ]; reflexivity ] ].
Qed.

(* ---- Entry.printSeverity ---- *)
Require Verif.Gen.LevelNames.
Lemma gen_print_severity fa fw fr tags l2s width pc noColor json lvl clr bg buf :
  Layout.print_severity fa fw fr tags l2s width pc noColor json lvl clr bg buf =
  print_severity_ref fa fw fr (LevelNames.level_string l2s lvl) (LevelNames.short_tag tags l2s lvl width) noColor json clr bg buf.
Proof.
  first [ reflexivity
        | unfold Layout.print_severity, print_severity_ref; destruct noColor;
          [ rewrite gen_pc_append_comma; reflexivity
          | destruct (LevelNames.short_tag tags l2s lvl width) as [t|]; [ rewrite gen_pc_append_byte | ]; reflexivity ] ].
Qed.

(* ---- Entry.printPC ---- *)
Lemma gen_print_pc fas fai fps fpi fap fwc fra hex safe flags prov src pc noColor json buf :
  Layout.print_pc fas fai fps fpi fap fwc fra hex safe flags prov src pc noColor json buf =
  print_pc_ref fas fai fps fpi fap fwc
    (fun b => Escapes.string_key hex safe json b [x63;x61;x6c;x6c;x65;x72])
    (Layout.checked_funcname fra flags prov (src_function src)) [x1b;x5b;x30;x6d] src noColor json buf.
Proof.
  first [ reflexivity
        | unfold Layout.print_pc, print_pc_ref; cbv zeta; destruct noColor;
          [ rewrite gen_pc_append_comma; destruct json;
            [ match goal with |- context [Escapes.string_key ?a ?b ?c ?d ?e] => destruct (Escapes.string_key a b c d e) as [b1|] end;
              [ rewrite gen_pc_append_colon, !gen_pc_append_byte, !gen_pc_append_comma, gen_pc_append_byte; reflexivity | reflexivity ]
            | rewrite !gen_pc_append_comma; reflexivity ]
          | rewrite !gen_pc_append_byte;
            destruct (Layout.checked_funcname fra flags prov (src_function src)) as [nm|]; [ | reflexivity ];
            rewrite GenColorP.gen_echo_reset; reflexivity ] ].
Qed.
