(* Lemmas about Model/Args.v (C02). *)
Require Import Verif.Model.Base Verif.Model.Decision Verif.Model.DecisionRef Verif.Model.Level Verif.Model.Mode.
Require Import Verif.Model.Attrs Verif.Model.Encode Verif.Model.Writers Verif.Model.Deliver Verif.Model.Args.
Require Import Verif.Model.Terminate Verif.Gen.PanicSites Verif.Gen.Tables.
Require Import Verif.Proofs.DeliverP Verif.Proofs.TerminateP.
Require Import Lia.

(* ---- every encoder ends its record with a line feed ---- *)
Lemma ends_lf_base : ends_lf [x0a].
Proof. exists []. reflexivity. Qed.
Lemma ends_lf_app a b : ends_lf b -> ends_lf (a ++ b).
Proof. intros [pre E]. exists (a ++ pre). rewrite E. apply app_assoc. Qed.
Lemma ends_lf_cons x b : ends_lf b -> ends_lf (x :: b).
Proof. intros [pre E]. exists (x :: pre). rewrite E. reflexivity. Qed.
Lemma ends_lf_length b : ends_lf b -> (1 <= length b)%nat.
Proof. intros [pre E]. rewrite E, app_length. cbn [length]. lia. Qed.
Lemma ends_lf_last b : ends_lf b -> last b x00 = x0a.
Proof. intros [pre E]. rewrite E. apply last_last. Qed.

Ltac some_inj H b :=
  apply (f_equal (fun o : option bytes => match o with Some x => x | None => [] end)) in H; cbv beta iota in H; subst b.

Ltac ends_lf_tac :=
  repeat first [ exact ends_lf_base | apply ends_lf_app | apply ends_lf_cons ].

(* from the definition of Encode.encode: every branch is [x0a] or ends with ++ [x0a] *)
Lemma encode_ends_lf isprint g c msg attrs b : encode isprint g c msg attrs = Some b -> ends_lf b.
Proof.
  unfold encode. intros H.
  destruct ((e_lvl c =? lv_always) && all_blank msg).
  - injection H as <-. exact ends_lf_base.
  - destruct (e_mode c); cbv zeta in H;
      try (destruct (level_colors g (e_lvl c)) as [clr bg];
           destruct (split_first_rest msg) as [[first rest] eol];
           destruct (has_markup (right_pad first (e_minw c))); [discriminate H|]);
      some_inj H b; ends_lf_tac.
Qed.

(* the blank-line shortcut is the first test of the encoder *)
Lemma encode_blank isprint g c msg attrs :
  (e_lvl c =? lv_always) && all_blank msg = true -> encode isprint g c msg attrs = Some [x0a].
Proof. unfold encode. intros ->. reflexivity. Qed.

(* an ordinary record is never the bare line feed *)
Lemma length_app_ge {A} (a b : list A) : (length b <= length (a ++ b))%nat.
Proof. rewrite app_length. lia. Qed.

Lemma encode_ordinary isprint g c msg attrs b :
  (e_lvl c =? lv_always) && all_blank msg = false -> encode isprint g c msg attrs = Some b -> (2 <= length b)%nat.
Proof.
  unfold encode. intros -> H.
  destruct (e_mode c) eqn:M; cbv zeta in H.
  - some_inj H b.
    match goal with |- (2 <= length ([x7b] ++ ?r))%nat => assert (L : ends_lf r) by ends_lf_tac; apply ends_lf_length in L end.
    rewrite app_length. cbn [length]. lia.
  - destruct (level_colors g (e_lvl c)) as [clr bg].
    destruct (split_first_rest msg) as [[first rest] eol].
    destruct (has_markup (right_pad first (e_minw c))); [discriminate H|].
    some_inj H b.
    change (echo_color clr_timestamp) with (x1b :: x5b :: Dec.dec_of_Z 32 ++ [x6d]).
    cbn [app length]. lia.
  - some_inj H b. cbn [app].
    change (key_token ShLogfmt n_time) with [x74;x69;x6d;x65].
    match goal with |- (2 <= length ([x74;x69;x6d;x65] ++ ?r))%nat => rewrite (app_length [x74;x69;x6d;x65] r) end.
    cbn [length]. lia.
Qed.

(* ---- payload ---- *)
Lemma payload_blank isprint g fx c lvl msg args :
  blank_record lvl msg = true -> payload isprint g fx c lvl msg args = Some [x0a].
Proof. unfold payload. intros ->. reflexivity. Qed.

Lemma payload_exact isprint g fx c lvl msg args :
  args_exact_with fx (x_own c) && args_exact_with fx args = true ->
  payload isprint g fx c lvl msg args = encode isprint g (ecfg_of c lvl) msg (record_attrs fx c args).
Proof.
  unfold payload. intros ->. destruct (blank_record lvl msg) eqn:B; [|reflexivity].
  symmetry. apply encode_blank. exact B.
Qed.

Lemma payload_ends_lf isprint g fx c lvl msg args b :
  payload isprint g fx c lvl msg args = Some b -> ends_lf b.
Proof.
  unfold payload. destruct (blank_record lvl msg).
  - intros H. injection H as <-. exact ends_lf_base.
  - destruct (args_exact_with fx (x_own c) && args_exact_with fx args); [|discriminate].
    apply encode_ends_lf.
Qed.

Lemma payload_ordinary isprint g fx c lvl msg args b :
  blank_record lvl msg = false -> payload isprint g fx c lvl msg args = Some b -> (2 <= length b)%nat.
Proof.
  unfold payload. intros B. rewrite B.
  destruct (args_exact_with fx (x_own c) && args_exact_with fx args); [|discriminate].
  apply encode_ordinary. exact B.
Qed.

Lemma blank_record_only lvl msg : blank_record lvl msg = true <-> lvl = lv_always /\ all_blank msg = true.
Proof.
  unfold blank_record. rewrite andb_true_iff, Z.eqb_eq. tauto.
Qed.

(* ---- delivery when no Write fails ---- *)
Lemma stamp_succeed_nofail k ws n : existsb a_failed (stamp all_succeed k ws n) = false.
Proof.
  revert n. induction ws as [|w t IH]; intros n; cbn [stamp existsb a_failed]; [reflexivity|].
  rewrite IH. reflexivity.
Qed.

Lemma map_stamp_write (p : option bytes) k ws n :
  map (fun a => Write (a_w a) p) (stamp all_succeed k ws n) = writes_to ws p.
Proof.
  revert n. induction ws as [|w t IH]; intros n; cbn [stamp map writes_to a_w]; [reflexivity|].
  rewrite IH. reflexivity.
Qed.

Lemma terminating_false lvl : terminating lvl = false <-> lvl <> lv_panic /\ lvl <> lv_fatal.
Proof. unfold terminating. rewrite orb_false_iff, !Z.eqb_neq. tauto. Qed.

Lemma deliver_succeed c lvl : terminating lvl = false ->
  log_call_code 2 c all_succeed lvl 0 =
  Normal (if admitted c lvl then stamp all_succeed Orig (dest_ids c lvl) 0 else [])
         (if admitted c lvl then length (dest_ids c lvl) else 0%nat).
Proof.
  intros T. apply terminating_false in T. destruct T as [Hp Hf].
  rewrite log_call_char by lia. unfold log_call_closed.
  destruct (admitted c lvl); [|reflexivity].
  unfold print_out_closed. rewrite stamp_succeed_nofail. cbn [andb].
  unfold tail. rewrite (term_continue _ _ lvl Hp Hf). reflexivity.
Qed.

(* the closed form of one call *)
Lemma call_closed isprint g fp fx c ep args lvl msg rest :
  resolve_with fp ep args = inl (lvl, msg, rest) -> terminating lvl = false ->
  log_call_full_with isprint g fp fx c ep args =
  Returned (if admitted (x_l c) lvl
            then writes_to (dest_ids (x_l c) lvl) (payload isprint g fx c lvl msg rest) else []).
Proof.
  intros R T. unfold log_call_full_with. rewrite R, (deliver_succeed _ _ T).
  destruct (admitted (x_l c) lvl); [|reflexivity].
  rewrite map_stamp_write. reflexivity.
Qed.

Lemma exactly_once isprint g fp fx c ep args lvl msg rest :
  resolve_with fp ep args = inl (lvl, msg, rest) -> terminating lvl = false ->
  exists p,
    p = payload isprint g fx c lvl msg rest
    /\ (admitted (x_l c) lvl = true ->
          log_call_full_with isprint g fp fx c ep args = Returned (writes_to (dest_ids (x_l c) lvl) p))
    /\ (admitted (x_l c) lvl = false -> log_call_full_with isprint g fp fx c ep args = Returned [])
    /\ (forall b, p = Some b -> ends_lf b).
Proof.
  intros R T. exists (payload isprint g fx c lvl msg rest). split; [reflexivity|].
  rewrite (call_closed _ _ _ _ _ _ _ _ _ _ R T).
  split; [intros ->; reflexivity|]. split; [intros ->; reflexivity|].
  intros b. apply payload_ends_lf.
Qed.

(* a verb-like entry point always resolves *)
Lemma resolve_verb fp lvl msg args : resolve_with fp (EVerb lvl msg) args = inl (lvl, msg, args).
Proof. reflexivity. Qed.

(* what a destination outside the selection sees: nothing *)
Lemma nothing_else ws p w : ~ In w ws -> forall q, ~ In (Write w q) (writes_to ws p).
Proof.
  intros H q Hin. unfold writes_to in Hin. apply in_map_iff in Hin. destruct Hin as [w' [E Hw]].
  injection E as E1 _. subst w'. contradiction.
Qed.

Lemma writes_to_length ws p : length (writes_to ws p) = length ws.
Proof. apply map_length. Qed.

(* ---- the blank line ---- *)
Lemma blank_print isprint g fp fx c ep args msg rest :
  resolve_with fp ep args = inl (lv_always, msg, rest) -> all_blank msg = true ->
  log_call_full_with isprint g fp fx c ep args =
  Returned (if admitted (x_l c) lv_always then writes_to (dest_ids (x_l c) lv_always) (Some [x0a]) else []).
Proof.
  intros R B. rewrite (call_closed _ _ _ _ _ _ _ _ _ _ R eq_refl).
  rewrite payload_blank; [reflexivity|]. apply blank_record_only. split; [reflexivity|exact B].
Qed.

Lemma not_blank_other_severity isprint g fx c lvl msg args b :
  lvl <> lv_always -> payload isprint g fx c lvl msg args = Some b -> (2 <= length b)%nat /\ ends_lf b.
Proof.
  intros H P. split; [|exact (payload_ends_lf _ _ _ _ _ _ _ _ P)].
  refine (payload_ordinary _ _ _ _ _ _ _ _ _ P).
  unfold blank_record. apply Z.eqb_neq in H. rewrite H. reflexivity.
Qed.

(* ---- Println ---- *)
Lemma println_fixed pkg sp args : exists msg rest, println_call_with true pkg sp args = inl (lv_always, msg, rest).
Proof.
  destruct args as [|x t]; [exists [], []; reflexivity|].
  destruct x; eexists; eexists; reflexivity.
Qed.

Lemma resolve_fixed ep args : exists lvl msg rest, resolve_with true ep args = inl (lvl, msg, rest).
Proof.
  destruct ep as [lvl msg|pkg sp]; [exists lvl, msg, args; reflexivity|].
  destruct (println_fixed pkg sp args) as [m [r E]]. exists lv_always, m, r. exact E.
Qed.

Definition entry_nonterminating (ep : entry) : bool :=
  match ep with EVerb lvl _ => negb (terminating lvl) | EPrintln _ _ => true end.

Lemma resolve_level fp ep args lvl msg rest : resolve_with fp ep args = inl (lvl, msg, rest) ->
  entry_nonterminating ep = true -> terminating lvl = false.
Proof.
  destruct ep as [l m|pkg sp]; cbn [resolve_with entry_nonterminating].
  - intros E H. injection E as <- _ _. apply negb_true_iff. exact H.
  - intros E _. unfold println_call_with in E. destruct args as [|x t].
    + injection E as <- _ _. reflexivity.
    + destruct x; try (destruct fp; [|discriminate E]); injection E as <- _ _; reflexivity.
Qed.

Lemma no_model_panic_fixed isprint g fx c ep args : entry_nonterminating ep = true ->
  exists evs, log_call_full_with isprint g true fx c ep args = Returned evs.
Proof.
  intros N. destruct (resolve_fixed ep args) as [lvl [msg [rest R]]].
  rewrite (call_closed _ _ _ _ _ _ _ _ _ _ R (resolve_level _ _ _ _ _ _ R N)). eexists. reflexivity.
Qed.

(* the code as found: the only way not to return is the type assertion of Println *)
Lemma only_println_panics isprint g fp fx c ep args r : entry_nonterminating ep = true ->
  log_call_full_with isprint g fp fx c ep args = Panicked r ->
  fp = false /\ exists pkg sp x t, ep = EPrintln pkg sp /\ args = x :: t /\ (forall s, x <> AStr s)
                                   /\ r = RTypeAssertion (if pkg then site_println else site_entry_println).
Proof.
  intros N H. destruct (resolve_with fp ep args) as [[[lvl msg] rest]|rr] eqn:R.
  - rewrite (call_closed _ _ _ _ _ _ _ _ _ _ R (resolve_level _ _ _ _ _ _ R N)) in H. discriminate H.
  - unfold log_call_full_with in H. rewrite R in H. injection H as <-.
    destruct ep as [l m|pkg sp]; [discriminate R|]. cbn [resolve_with] in R. unfold println_call_with in R.
    destruct args as [|x t]; [discriminate R|].
    destruct x; try discriminate R; (destruct fp; [discriminate R|]); injection R as <-;
      (split; [reflexivity|]); exists pkg, sp; eexists; exists t; (repeat split; try reflexivity); intros s E; discriminate E.
Qed.

Lemma println_refuted isprint g fx c pkg sp :
  log_call_full_with isprint g false fx c (EPrintln pkg sp) [AOther (VInt 42)]
  = Panicked (RTypeAssertion (if pkg then site_println else site_entry_println)).
Proof. reflexivity. Qed.

(* ---- argsToAttrs: total, and exactly what it keeps and drops ---- *)
Lemma list_ind2 {A} (P : list A -> Prop) :
  P [] -> (forall x, P [x]) -> (forall x y t, P t -> P (y :: t) -> P (x :: y :: t)) -> forall l, P l.
Proof.
  intros H0 H1 H2. assert (forall l, P l /\ forall x, P (x :: l)) as K.
  { induction l as [|y t [IHa IHb]]; [split; [exact H0|exact H1]|].
    split; [apply IHb|]. intros x. apply H2; [exact IHa|apply IHb]. }
  intros l. apply K.
Qed.

(* unfolding equations of the two loops *)
Lemma segs_str fx s t : segs fx (AStr s :: t) =
  match start_key fx s with
  | None => SDropEmpty :: segs fx t
  | Some k => match t with [] => [SDangling k] | v :: t' => SPair k v :: segs fx t' end
  end.
Proof. reflexivity. Qed.
Lemma segs_attr fx a t : segs fx (AAttr a :: t) = SAttr a :: segs fx t. Proof. reflexivity. Qed.
Lemma segs_attrs fx l t : segs fx (AAttrs l :: t) = SAttrs l :: segs fx t. Proof. reflexivity. Qed.
Lemma segs_slice fx l t : segs fx (AAttrSlice l :: t) = SAttrSlice l :: segs fx t. Proof. reflexivity. Qed.
Lemma segs_other fx v t : segs fx (AOther v :: t) = SDropOther (AOther v) :: segs fx t. Proof. reflexivity. Qed.
Lemma segs_opaque fx t : segs fx (AOpaque :: t) = SDropOther AOpaque :: segs fx t. Proof. reflexivity. Qed.

Lemma go_pending fx k x t : args_go fx (Some k) (x :: t) = A k (arg_value x) :: args_go fx None t.
Proof. reflexivity. Qed.
Lemma go_str fx s t : args_go fx None (AStr s :: t) = args_go fx (start_key fx s) t. Proof. reflexivity. Qed.
Lemma go_attr fx a t : args_go fx None (AAttr a :: t) = a :: args_go fx None t. Proof. reflexivity. Qed.
Lemma go_attrs fx l t : args_go fx None (AAttrs l :: t) = l ++ args_go fx None t. Proof. reflexivity. Qed.
Lemma go_slice fx l t : args_go fx None (AAttrSlice l :: t) = l ++ args_go fx None t. Proof. reflexivity. Qed.
Lemma go_other fx v t : args_go fx None (AOther v :: t) = args_go fx None t. Proof. reflexivity. Qed.
Lemma go_opaque fx t : args_go fx None (AOpaque :: t) = args_go fx None t. Proof. reflexivity. Qed.
Lemma go_nil fx k : args_go fx k [] = []. Proof. reflexivity. Qed.

Lemma start_key_some fx s k : start_key fx s = Some k -> k = s.
Proof. destruct s as [|b s']; [destruct fx|]; cbn [start_key]; intros E; [injection E as <-|discriminate E|injection E as <-]; reflexivity. Qed.
Lemma start_key_none fx s : start_key fx s = None -> s = [] /\ fx = false.
Proof. destruct s as [|b s']; [destruct fx|]; cbn [start_key]; intros E; try discriminate E. split; reflexivity. Qed.

Ltac segs_rw := rewrite ?segs_attr, ?segs_attrs, ?segs_slice, ?segs_other, ?segs_opaque.

(* the segmentation loses and invents no item *)
Lemma segs_items fx args : flat_map seg_items (segs fx args) = args.
Proof.
  induction args as [|x|x y t IHt IHyt] using list_ind2.
  - reflexivity.
  - destruct x as [s| | | | |]; try reflexivity.
    rewrite segs_str. destruct (start_key fx s) as [k|] eqn:K.
    + apply start_key_some in K. subst k. reflexivity.
    + apply start_key_none in K. destruct K as [-> _]. reflexivity.
  - destruct x as [s|a|l|l|v|].
    + rewrite segs_str. destruct (start_key fx s) as [k|] eqn:K.
      * apply start_key_some in K. subst k. cbn [flat_map seg_items app]. rewrite IHt. reflexivity.
      * apply start_key_none in K. destruct K as [-> _]. cbn [flat_map seg_items app]. rewrite IHyt. reflexivity.
    + rewrite segs_attr. cbn [flat_map seg_items app]. rewrite IHyt. reflexivity.
    + rewrite segs_attrs. cbn [flat_map seg_items app]. rewrite IHyt. reflexivity.
    + rewrite segs_slice. cbn [flat_map seg_items app]. rewrite IHyt. reflexivity.
    + rewrite segs_other. cbn [flat_map seg_items app]. rewrite IHyt. reflexivity.
    + rewrite segs_opaque. cbn [flat_map seg_items app]. rewrite IHyt. reflexivity.
Qed.

(* argsToAttrs yields exactly the attributes of the segments, in order *)
Lemma args_segs fx args : args_to_attrs_with fx args = flat_map seg_attrs (segs fx args).
Proof.
  unfold args_to_attrs_with.
  induction args as [|x|x y t IHt IHyt] using list_ind2.
  - reflexivity.
  - destruct x as [s| | | | |]; try reflexivity.
    rewrite segs_str, go_str. destruct (start_key fx s); reflexivity.
  - destruct x as [s|a|l|l|v|].
    + rewrite segs_str, go_str. destruct (start_key fx s) as [k|].
      * rewrite go_pending. cbn [flat_map seg_attrs app]. rewrite IHt. reflexivity.
      * cbn [flat_map seg_attrs app]. exact IHyt.
    + rewrite segs_attr, go_attr. cbn [flat_map seg_attrs app]. rewrite <- IHyt. reflexivity.
    + rewrite segs_attrs, go_attrs. cbn [flat_map seg_attrs]. rewrite <- IHyt. reflexivity.
    + rewrite segs_slice, go_slice. cbn [flat_map seg_attrs]. rewrite <- IHyt. reflexivity.
    + rewrite segs_other, go_other. cbn [flat_map seg_attrs app]. exact IHyt.
    + rewrite segs_opaque, go_opaque. cbn [flat_map seg_attrs app]. exact IHyt.
Qed.

(* a dangling key can only be the last segment *)
Lemma dangling_last fx args : forall pre k post, segs fx args = pre ++ SDangling k :: post -> post = [].
Proof.
  assert (G : forall s0 rest pre k post,
             (forall pre k post, segs fx rest = pre ++ SDangling k :: post -> post = []) ->
             (forall k0, s0 <> SDangling k0) -> s0 :: segs fx rest = pre ++ SDangling k :: post -> post = []).
  { intros s0 rest pre k post IH N E0. destruct pre as [|p pre'].
    - injection E0 as E1 _. exfalso. exact (N k E1).
    - injection E0 as _ E2. exact (IH _ _ _ E2). }
  assert (S1 : forall s0 pre k post, [s0] = pre ++ SDangling k :: post -> post = []).
  { intros s0 pre k post E. destruct pre as [|p [|q pre']]; [injection E as _ <-; reflexivity|discriminate E|discriminate E]. }
  induction args as [|x|x y t IHt IHyt] using list_ind2; intros pre k post E.
  - destruct pre; discriminate E.
  - destruct x as [s|a|l|l|v|].
    + rewrite segs_str in E. destruct (start_key fx s); exact (S1 _ _ _ _ E).
    + exact (S1 _ _ _ _ E).
    + exact (S1 _ _ _ _ E).
    + exact (S1 _ _ _ _ E).
    + exact (S1 _ _ _ _ E).
    + exact (S1 _ _ _ _ E).
  - destruct x as [s|a|l|l|v|].
    + rewrite segs_str in E. destruct (start_key fx s).
      * refine (G _ t _ _ _ IHt _ E). intros k0 D; discriminate D.
      * refine (G _ (y :: t) _ _ _ IHyt _ E). intros k0 D; discriminate D.
    + rewrite segs_attr in E. refine (G _ (y :: t) _ _ _ IHyt _ E). intros k0 D; discriminate D.
    + rewrite segs_attrs in E. refine (G _ (y :: t) _ _ _ IHyt _ E). intros k0 D; discriminate D.
    + rewrite segs_slice in E. refine (G _ (y :: t) _ _ _ IHyt _ E). intros k0 D; discriminate D.
    + rewrite segs_other in E. refine (G _ (y :: t) _ _ _ IHyt _ E). intros k0 D; discriminate D.
    + rewrite segs_opaque in E. refine (G _ (y :: t) _ _ _ IHyt _ E). intros k0 D; discriminate D.
Qed.

(* what a dropped segment is made of *)
Definition drop_shape (fx : bool) (s : seg) : Prop :=
  match s with
  | SDropEmpty => fx = false
  | SDropOther x => (exists v, x = AOther v) \/ x = AOpaque
  | SDangling k => fx = true \/ k <> []
  | _ => True
  end.

Lemma segs_shapes fx args : Forall (drop_shape fx) (segs fx args).
Proof.
  induction args as [|x|x y t IHt IHyt] using list_ind2.
  - constructor.
  - destruct x as [s|a|l|l|v|].
    + rewrite segs_str. destruct (start_key fx s) as [k|] eqn:K.
      * constructor; [|constructor]. cbn [drop_shape].
        destruct s as [|b s']; [destruct fx; [left; reflexivity|discriminate K]|].
        right. injection K as <-. discriminate.
      * constructor; [|constructor]. cbn [drop_shape]. apply start_key_none in K. apply K.
    + repeat constructor.
    + repeat constructor.
    + repeat constructor.
    + rewrite segs_other. constructor; [|constructor]. cbn [drop_shape]. left. exists v. reflexivity.
    + rewrite segs_opaque. constructor; [|constructor]. cbn [drop_shape]. right. reflexivity.
  - destruct x as [s|a|l|l|v|].
    + rewrite segs_str. destruct (start_key fx s) as [k|] eqn:K; constructor; cbn [drop_shape]; auto.
      apply start_key_none in K. apply K.
    + rewrite segs_attr. constructor; [exact I|exact IHyt].
    + rewrite segs_attrs. constructor; [exact I|exact IHyt].
    + rewrite segs_slice. constructor; [exact I|exact IHyt].
    + rewrite segs_other. constructor; [cbn [drop_shape]; left; exists v; reflexivity|exact IHyt].
    + rewrite segs_opaque. constructor; [cbn [drop_shape]; right; reflexivity|exact IHyt].
Qed.

(* the attribute count *)
Definition seg_count (s : seg) : nat := length (seg_attrs s).
Lemma args_count fx args :
  length (args_to_attrs_with fx args) = fold_right (fun s n => (seg_count s + n)%nat) 0%nat (segs fx args).
Proof.
  rewrite args_segs. induction (segs fx args) as [|s t IH]; [reflexivity|].
  cbn [flat_map fold_right]. rewrite app_length, IH. reflexivity.
Qed.

(* a well-paired list (non-empty keys each followed by a value, attribute arguments) loses nothing *)
Fixpoint well_paired (args : list arg) : bool :=
  match args with
  | [] => true
  | AStr (_ :: _) :: _ :: t => well_paired t
  | AAttr _ :: t | AAttrs _ :: t | AAttrSlice _ :: t => well_paired t
  | _ => false
  end.

Lemma well_paired_nothing_dropped fx args : well_paired args = true -> dropped fx args = [].
Proof.
  unfold dropped.
  induction args as [|x|x y t IHt IHyt] using list_ind2; intros W.
  - reflexivity.
  - destruct x as [s| | | | |]; try discriminate W; try reflexivity.
    destruct s; discriminate W.
  - destruct x as [s|a|l|l|v|]; try discriminate W.
    + destruct s as [|b s']; [discriminate W|]. rewrite segs_str. cbn [start_key filter seg_dropped].
      apply IHt. exact W.
    + rewrite segs_attr. cbn [filter seg_dropped]. apply IHyt. exact W.
    + rewrite segs_attrs. cbn [filter seg_dropped]. apply IHyt. exact W.
    + rewrite segs_slice. cbn [filter seg_dropped]. apply IHyt. exact W.
Qed.

(* the defect: with the code as found an empty key makes a later pair disappear; repaired, it is kept *)
Lemma emptykey_refuted :
  let args := [AStr []; AStr [x78]; AStr [x6b]; AOther (VInt 1)] in      (* "", "x", "k", 1 *)
  args_to_attrs_with false args = [A [x78] (VStr [x6b])]
  /\ args_to_attrs_with true args = [A [] (VStr [x78]); A [x6b] (VInt 1)].
Proof. split; reflexivity. Qed.

(* ---- the panic sites ---- *)
Definition reach_of (f : bytes) (k : skind) : option reach :=
  match filter (fun s : bytes * skind * reach => bytes_eqb (fst (fst s)) f && skind_eqb (snd (fst s)) k) known_panic_sites with
  | s :: _ => Some (snd s)
  | [] => None
  end.

(* single-value type assertions of the source that a log call can make fail *)
Definition reachable_assertions : list bytes :=
  map fst (filter (fun s : bytes * site_kind =>
                     match snd s, reach_of (fst s) KAssert with
                     | SAssert, Some RLogCall => true
                     | _, _ => false
                     end) panic_sites).

Lemma reachable_assertions_now :
  reachable_assertions = if fix_println then [] else [site_entry_println; site_println].
Proof. vm_compute. reflexivity. Qed.

Lemma model_sites_in_source isprint g c ep args s : entry_nonterminating ep = true ->
  log_call_full isprint g c ep args = Panicked (RTypeAssertion s) ->
  fix_println = false /\ In s reachable_assertions.
Proof.
  intros N H. unfold log_call_full in H.
  destruct (only_println_panics _ _ _ _ _ _ _ _ N H) as [F [pkg [sp [x [t [_ [_ [_ E]]]]]]]].
  split; [exact F|]. rewrite reachable_assertions_now, F. injection E as ->.
  destruct pkg; cbn [In]; auto.
Qed.

Lemma f_caller_const : f_caller = c_Lcaller.
Proof. reflexivity. Qed.
