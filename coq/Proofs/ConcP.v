(* Lemmas about Model/Conc.v: the pools, the ownership invariant of every
   reachable state of the interleaving semantics, frame, absence of conflicts,
   atomic records. *)
Require Import Verif.Model.Base Verif.Model.Attrs Verif.Model.Conc.
From Coq Require Import Permutation Arith.
Require Import Lia.
Local Open Scope nat_scope.

(* ---------- part 1: the tree model of the in-place sort ---------- *)
Lemma ip_value_group items :
  ip_value (VGroup items) = VGroup (inplace_layout (survivors_map ip_attr items)).
Proof.
  cbn [ip_value]. f_equal. f_equal.
  induction items as [|x t IH]; [reflexivity|].
  cbn [survivors_map]. rewrite <- IH. destruct x; reflexivity.
Qed.

Lemma after_call_fixed l : after_call true l = l.
Proof. reflexivity. Qed.

(* ---------- part 2: pools ---------- *)
Lemma upd_same {A} (f : nat -> A) k v : upd f k v k = v.
Proof. unfold upd. rewrite Nat.eqb_refl. reflexivity. Qed.
Lemma upd_other {A} (f : nat -> A) k v x : x <> k -> upd f k v x = f x.
Proof. intros H. unfold upd. destruct (Nat.eqb_spec x k); [contradiction|reflexivity]. Qed.

Lemma take_perm {A} k : forall (l : list A) o r, take k l = Some (o, r) -> Permutation l (o :: r).
Proof.
  induction k as [|k IH]; intros [|x t] o r H; cbn in H; try discriminate.
  - inversion H; subst. apply Permutation_refl.
  - destruct (take k t) as [[y r']|] eqn:E; [|discriminate]. inversion H; subst.
    apply IH in E. eapply perm_trans; [apply perm_skip, E|apply perm_swap].
Qed.

Lemma pool_init_ok : pool_ok (mkpool [] O (fun _ => None)).
Proof.
  split; [constructor|]. split; [intros o Ho; destruct Ho|].
  split; [intros c o Ho; discriminate|intros c1 c2 o Ho; discriminate].
Qed.

Lemma pool_get_ok p c k : pool_ok p -> pool_ok (pool_get p c k).
Proof.
  intros (Hnd & Hlt & Hheld & Huniq). unfold pool_get.
  destruct (take k (free p)) as [[o rest]|] eqn:E.
  - apply take_perm in E.
    assert (Hnd' : NoDup (o :: rest)) by (eapply Permutation_NoDup; eassumption).
    assert (Hin : forall x, In x (o :: rest) -> In x (free p))
      by (intros x Hx; eapply Permutation_in; [apply Permutation_sym, E|exact Hx]).
    inversion Hnd' as [|? ? Hno Hnr]; subst.
    split; [exact Hnr|]. split; [|split]; cbn.
    + intros x Hx. apply Hlt, Hin. right; exact Hx.
    + intros c0 o0 H0. unfold upd in H0. destruct (Nat.eqb_spec c0 c) as [e|ne].
      * inversion H0; subst. split; [apply Hlt, Hin; left; reflexivity|exact Hno].
      * split; [apply (Hheld c0 o0 H0)|].
        intros Hx. apply (proj2 (Hheld c0 o0 H0)). apply Hin. right; exact Hx.
    + intros c1 c2 o0 H1 H2. unfold upd in H1, H2.
      destruct (Nat.eqb_spec c1 c) as [e1|n1], (Nat.eqb_spec c2 c) as [e2|n2]; subst; auto.
      * inversion H1; subst. exfalso. apply (proj2 (Hheld c2 o0 H2)). apply Hin. left; reflexivity.
      * inversion H2; subst. exfalso. apply (proj2 (Hheld c1 o0 H1)). apply Hin. left; reflexivity.
      * eapply Huniq; eassumption.
  - split; [exact Hnd|]. split; [|split]; cbn.
    + intros x Hx. apply Hlt in Hx. lia.
    + intros c0 o0 H0. unfold upd in H0. destruct (Nat.eqb_spec c0 c) as [e|ne].
      * inversion H0; subst. split; [lia|]. intros Hx. apply Hlt in Hx. lia.
      * pose proof (Hheld c0 o0 H0) as [Ha Hb]. split; [lia|exact Hb].
    + intros c1 c2 o0 H1 H2. unfold upd in H1, H2.
      destruct (Nat.eqb_spec c1 c) as [e1|n1], (Nat.eqb_spec c2 c) as [e2|n2]; subst; auto.
      * inversion H1; subst. pose proof (proj1 (Hheld c2 _ H2)). lia.
      * inversion H2; subst. pose proof (proj1 (Hheld c1 _ H1)). lia.
      * eapply Huniq; eassumption.
Qed.

Lemma pool_put_ok p c : pool_ok p -> pool_ok (pool_put p c).
Proof.
  intros (Hnd & Hlt & Hheld & Huniq). unfold pool_put.
  destruct (held p c) as [o|] eqn:E; [|exact (conj Hnd (conj Hlt (conj Hheld Huniq)))].
  destruct (Hheld c o E) as [Ho Hnin].
  split; [constructor; assumption|]. split; [|split]; cbn.
  - intros x [Hx|Hx]; [subst; exact Ho|apply Hlt, Hx].
  - intros c0 o0 H0. unfold upd in H0. destruct (Nat.eqb_spec c0 c) as [e|ne]; [discriminate|].
    split; [apply (Hheld c0 o0 H0)|].
    intros [Hx|Hx].
    + subst o0. apply ne. eapply Huniq; eassumption.
    + apply (proj2 (Hheld c0 o0 H0)), Hx.
  - intros c1 c2 o0 H1 H2. unfold upd in H1, H2.
    destruct (Nat.eqb_spec c1 c), (Nat.eqb_spec c2 c); try discriminate. eapply Huniq; eassumption.
Qed.

(* what Get hands out was held by nobody *)
Lemma pool_get_held p c k : pool_ok p ->
  exists o, held (pool_get p c k) = upd (held p) c (Some o) /\ forall c', held p c' <> Some o.
Proof.
  intros (Hnd & Hlt & Hheld & Huniq). unfold pool_get.
  destruct (take k (free p)) as [[o rest]|] eqn:E.
  - exists o. split; [reflexivity|]. intros c' Hc'. apply (proj2 (Hheld c' o Hc')).
    eapply Permutation_in; [apply Permutation_sym, (take_perm _ _ _ _ E)|left; reflexivity].
  - exists (fresh p). split; [reflexivity|]. intros c' Hc'. pose proof (proj1 (Hheld c' _ Hc')). lia.
Qed.

Lemma pool_put_held p c c' : held (pool_put p c) c' = upd (held p) c None c'.
Proof.
  unfold pool_put. destruct (held p c) as [o|] eqn:E; [reflexivity|].
  unfold upd. destruct (Nat.eqb_spec c' c); [subst; exact E|reflexivity].
Qed.

Lemma NoDup_app_one {A} (l : list A) x : NoDup l -> ~ In x l -> NoDup (l ++ [x]).
Proof.
  intros Hn Hx. induction l as [|y t IH]; cbn.
  - constructor; [intros H; destruct H|constructor].
  - inversion Hn as [|? ? Hy Ht]; subst. constructor.
    + rewrite in_app_iff. intros [H|[H|[]]]; [exact (Hy H)|]. subst. apply Hx. left; reflexivity.
    + apply IH; [exact Ht|]. intros H. apply Hx. right; exact H.
Qed.

(* ---------- part 3: the invariant of every reachable state ---------- *)
Section ConcP.
  Variables (item msg payload : Type).
  Variable inplace : list item -> list item.
  Variable refs : list item -> list nat.
  Variable enc : nat -> msg -> list item -> (nat -> list item) -> payload.
  Variable fx : bool.
  Variable lattrs : nat -> list item.
  Variable groups0 : nat -> list item.
  Variable calls : nat -> call item msg.

  Notation State := (state item msg payload).
  Notation stepx := (step inplace refs enc fx lattrs calls).
  Notation runx := (run inplace refs enc fx lattrs groups0 calls).
  Notation coll := (collected lattrs calls).
  Notation pay := (payload_of enc lattrs groups0 calls).
  Notation wof := (writes_of enc lattrs groups0 calls).
  Notation fpx := (footprint refs fx calls).

  (* exclusivity needs nothing but the pools' own discipline *)
  Lemma step_pools_ok (s : State) c k :
    pool_ok (st_A s) /\ pool_ok (st_P s) -> pool_ok (st_A (stepx s c k)) /\ pool_ok (st_P (stepx s c k)).
  Proof.
    intros [HA HP]. unfold step.
    destruct (next_instr calls s c) as [[]|]; cbn; auto using pool_get_ok, pool_put_ok.
    - destruct (held (st_A s) c); cbn; auto.
    - destruct (held (st_A s) c), (held (st_P s) c); cbn; auto.
    - destruct (held (st_P s) c) as [p|]; cbn; auto.
      destruct (p_set (st_contP s p)) as [[[l m] a]|]; cbn; auto.
    - destruct (held (st_P s) c) as [p|]; cbn; auto.
      destruct (p_buf (st_contP s p)); cbn; auto.
    - destruct (held (st_A s) c); cbn; auto using pool_put_ok.
  Qed.

  Lemma run_from_app (s : State) a b :
    run_from inplace refs enc fx lattrs calls s (a ++ b)
    = run_from inplace refs enc fx lattrs calls (run_from inplace refs enc fx lattrs calls s a) b.
  Proof. unfold run_from. apply fold_left_app. Qed.

  Lemma exclusive sched : pool_ok (st_A (runx sched)) /\ pool_ok (st_P (runx sched)).
  Proof.
    unfold run. induction sched as [|[c k] t IH] using rev_ind.
    - cbn. split; apply pool_init_ok.
    - rewrite run_from_app. cbn. apply step_pools_ok, IH.
  Qed.

  Definition contA_at (n c : nat) : list item :=
    match n with 1 => [] | 2 | 3 | 4 => coll c | _ => inplace (coll c) end.

  Record inv (s : State) : Prop := mkinv {
    i_A : pool_ok (st_A s);
    i_P : pool_ok (st_P s);
    i_adm : forall c, c_admitted (calls c) = false -> st_pc s c = 0;
    i_pc : forall c, st_pc s c <= 8;
    i_heldA : forall c, held (st_A s) c <> None <-> 1 <= st_pc s c <= 7;
    i_heldP : forall c, held (st_P s) c <> None <-> 3 <= st_pc s c <= 6;
    i_emptyA : forall o, (forall c, held (st_A s) c <> Some o) -> st_contA s o = [];
    i_contA : forall c a, held (st_A s) c = Some a -> st_contA s a = contA_at (st_pc s c) c;
    i_contP : forall c p, held (st_P s) c = Some p -> 4 <= st_pc s c ->
       exists a, held (st_A s) c = Some a /\
         p_set (st_contP s p) = Some (c_logger (calls c), c_msg (calls c), a) /\
         (5 <= st_pc s c -> p_buf (st_contP s p) = Some (pay c));
    i_groups : st_groups s = groups0;
    i_log : st_log s = flat_map wof (st_wo s);
    i_wo_nodup : NoDup (st_wo s);
    i_wo : forall c, In c (st_wo s) <-> 6 <= st_pc s c
  }.

  Lemma inv_init : inv (init groups0).
  Proof.
    constructor; cbn.
    - apply pool_init_ok.
    - apply pool_init_ok.
    - reflexivity.
    - intros c. lia.
    - intros c. split; [intros H; contradiction|lia].
    - intros c. split; [intros H; contradiction|lia].
    - reflexivity.
    - intros c a H. discriminate.
    - intros c p H. discriminate.
    - reflexivity.
    - reflexivity.
    - constructor.
    - intros c. split; [intros H; destruct H|lia].
  Qed.

  Lemma next_instr_pc (s : State) c i : next_instr calls s c = Some i ->
    c_admitted (calls c) = true /\ nth_error the_program (st_pc s c) = Some i.
  Proof.
    unfold next_instr, program. destruct (c_admitted (calls c)); [auto|].
    destruct (st_pc s c); discriminate.
  Qed.

  Lemma none_not_some {A} (x : option A) : x <> None <-> exists y, x = Some y.
  Proof. destruct x; split; intros H; try congruence; eauto. destruct H; discriminate. Qed.

  Hypothesis Hsafe : safe refs fx lattrs calls.

  Lemma held_none_of_pc (p : pool) c (lo hi n : nat) :
    (held p c <> None <-> lo <= n <= hi) -> ~ (lo <= n <= hi) -> held p c = None.
  Proof. intros H Hn. destruct (held p c) eqn:E; [|reflexivity]. exfalso. apply Hn, H. congruence. Qed.
  Lemma held_some_of_pc (p : pool) c (lo hi n : nat) :
    (held p c <> None <-> lo <= n <= hi) -> lo <= n <= hi -> exists o, held p c = Some o.
  Proof. intros H Hn. apply none_not_some, H, Hn. Qed.

  Lemma inv_step (s : State) c k : inv s -> inv (stepx s c k).
  Proof.
    intros I. unfold step.
    destruct (next_instr calls s c) as [i|] eqn:Hn; [|exact I].
    destruct (next_instr_pc _ _ _ Hn) as [Hadm Hnth]. clear Hn.
    destruct I as [IA IP Iadm Ipc IhA IhP Iemp IcA IcP Igr Ilog Ind Iwo].
    pose proof (IhA c) as IhAc. pose proof (IhP c) as IhPc. pose proof (Iwo c) as Iwoc.
    destruct (st_pc s c) as [|[|[|[|[|[|[|[|n]]]]]]]] eqn:Epc; cbn in Hnth;
      try (destruct n; discriminate); inversion Hnth; subst i; clear Hnth.
    - (* GetAttrs *)
      destruct (pool_get_held (st_A s) c k IA) as [o [Hh Hfree]].
      assert (HhA : held (st_A s) c = None) by (eapply held_none_of_pc; [exact IhAc|lia]).
      constructor; cbn.
      + apply pool_get_ok, IA.
      + exact IP.
      + intros c' Hc'. rewrite upd_other; [auto|congruence].
      + intros c'. unfold upd. destruct (Nat.eqb_spec c' c); [lia|apply Ipc].
      + intros c'. rewrite Hh. unfold upd. destruct (Nat.eqb_spec c' c) as [->|ne]; [split; [lia|congruence]|apply IhA].
      + intros c'. unfold upd. destruct (Nat.eqb_spec c' c) as [->|ne]; [|apply IhP]. rewrite IhPc. lia.
      + intros o' Ho'. apply Iemp. intros c'. destruct (Nat.eq_dec c' c) as [->|ne]; [congruence|].
        specialize (Ho' c'). rewrite Hh, upd_other in Ho' by assumption. exact Ho'.
      + intros c' a'. rewrite Hh. unfold upd. destruct (Nat.eqb_spec c' c) as [->|ne].
        * intros E; inversion E; subst. cbn. apply Iemp, Hfree.
        * apply IcA.
      + intros c' p Hp. rewrite Hh. unfold upd. destruct (Nat.eqb_spec c' c) as [->|ne]; [lia|apply IcP, Hp].
      + exact Igr.
      + exact Ilog.
      + exact Ind.
      + intros c'. unfold upd. destruct (Nat.eqb_spec c' c) as [->|ne]; [|apply Iwo]. rewrite Iwoc. lia.
    - (* Collect *)
      destruct (held_some_of_pc _ _ _ _ _ IhAc ltac:(lia)) as [a Ha]. rewrite Ha.
      assert (Hother : forall c' a', c' <> c -> held (st_A s) c' = Some a' -> a' <> a).
      { intros c' a' ne Ha' ->. apply ne. destruct IA as (_ & _ & _ & U). eapply U; eassumption. }
      constructor; cbn.
      + exact IA.
      + exact IP.
      + intros c' Hc'. rewrite upd_other; [auto|congruence].
      + intros c'. unfold upd. destruct (Nat.eqb_spec c' c); [lia|apply Ipc].
      + intros c'. unfold upd. destruct (Nat.eqb_spec c' c) as [->|ne]; [rewrite Ha; split; [lia|congruence]|apply IhA].
      + intros c'. unfold upd. destruct (Nat.eqb_spec c' c) as [->|ne]; [|apply IhP]. rewrite IhPc. lia.
      + intros o' Ho'. rewrite upd_other; [apply Iemp, Ho'|]. intros ->. apply (Ho' c Ha).
      + intros c' a' Ha'. destruct (Nat.eq_dec c' c) as [->|ne].
        * rewrite Ha in Ha'; inversion Ha'; subst a'. rewrite !upd_same. rewrite (IcA c a Ha), Epc. reflexivity.
        * rewrite (upd_other (st_pc s)) by assumption. rewrite upd_other by (eapply Hother; eassumption). apply IcA, Ha'.
      + intros c' p Hp. unfold upd. destruct (Nat.eqb_spec c' c) as [->|ne]; [lia|apply IcP, Hp].
      + exact Igr.
      + exact Ilog.
      + exact Ind.
      + intros c'. unfold upd. destruct (Nat.eqb_spec c' c) as [->|ne]; [|apply Iwo]. rewrite Iwoc. lia.
    - (* GetPC *)
      destruct (pool_get_held (st_P s) c k IP) as [o [Hh Hfree]].
      constructor; cbn.
      + exact IA.
      + apply pool_get_ok, IP.
      + intros c' Hc'. rewrite upd_other; [auto|congruence].
      + intros c'. unfold upd. destruct (Nat.eqb_spec c' c); [lia|apply Ipc].
      + intros c'. unfold upd. destruct (Nat.eqb_spec c' c) as [->|ne]; [|apply IhA]. rewrite IhAc. lia.
      + intros c'. rewrite Hh. unfold upd. destruct (Nat.eqb_spec c' c) as [->|ne]; [split; [lia|congruence]|apply IhP].
      + exact Iemp.
      + intros c' a' Ha'. unfold upd. destruct (Nat.eqb_spec c' c) as [->|ne]; [|apply IcA, Ha'].
        rewrite (IcA c a' Ha'), Epc. reflexivity.
      + intros c' p. rewrite Hh. unfold upd. destruct (Nat.eqb_spec c' c) as [->|ne]; [lia|apply IcP].
      + exact Igr.
      + exact Ilog.
      + exact Ind.
      + intros c'. unfold upd. destruct (Nat.eqb_spec c' c) as [->|ne]; [|apply Iwo]. rewrite Iwoc. lia.
    - (* Set *)
      destruct (held_some_of_pc _ _ _ _ _ IhAc ltac:(lia)) as [a Ha]. rewrite Ha.
      destruct (held_some_of_pc _ _ _ _ _ IhPc ltac:(lia)) as [p Hp]. rewrite Hp.
      assert (Hother : forall c' p', c' <> c -> held (st_P s) c' = Some p' -> p' <> p).
      { intros c' p' ne Hp' ->. apply ne. destruct IP as (_ & _ & _ & U). eapply U; eassumption. }
      constructor; cbn.
      + exact IA.
      + exact IP.
      + intros c' Hc'. rewrite upd_other; [auto|congruence].
      + intros c'. unfold upd. destruct (Nat.eqb_spec c' c); [lia|apply Ipc].
      + intros c'. unfold upd. destruct (Nat.eqb_spec c' c) as [->|ne]; [|apply IhA]. rewrite IhAc. lia.
      + intros c'. unfold upd. destruct (Nat.eqb_spec c' c) as [->|ne]; [|apply IhP]. rewrite IhPc. lia.
      + exact Iemp.
      + intros c' a' Ha'. unfold upd. destruct (Nat.eqb_spec c' c) as [->|ne]; [|apply IcA, Ha'].
        rewrite (IcA c a' Ha'), Epc. reflexivity.
      + intros c' p' Hp'. destruct (Nat.eq_dec c' c) as [->|ne].
        * rewrite Hp in Hp'; inversion Hp'; subst p'. rewrite !upd_same. intros _.
          exists a. split; [exact Ha|]. split; [reflexivity|lia].
        * rewrite (upd_other (st_pc s)) by assumption. rewrite upd_other by (eapply Hother; eassumption).
          apply IcP, Hp'.
      + exact Igr.
      + exact Ilog.
      + exact Ind.
      + intros c'. unfold upd. destruct (Nat.eqb_spec c' c) as [->|ne]; [|apply Iwo]. rewrite Iwoc. lia.
    - (* Format *)
      destruct (held_some_of_pc _ _ _ _ _ IhPc ltac:(lia)) as [p Hp]. rewrite Hp.
      destruct (IcP c p Hp ltac:(lia)) as (a & Ha & Hset & _). rewrite Hset.
      assert (HotherP : forall c' p', c' <> c -> held (st_P s) c' = Some p' -> p' <> p).
      { intros c' p' ne Hp' ->. apply ne. destruct IP as (_ & _ & _ & U). eapply U; eassumption. }
      assert (HotherA : forall c' a', c' <> c -> held (st_A s) c' = Some a' -> a' <> a).
      { intros c' a' ne Ha' ->. apply ne. destruct IA as (_ & _ & _ & U). eapply U; eassumption. }
      assert (HcA : st_contA s a = coll c) by (rewrite (IcA c a Ha), Epc; reflexivity).
      constructor; cbn.
      + exact IA.
      + exact IP.
      + intros c' Hc'. rewrite upd_other; [auto|congruence].
      + intros c'. unfold upd. destruct (Nat.eqb_spec c' c); [lia|apply Ipc].
      + intros c'. unfold upd. destruct (Nat.eqb_spec c' c) as [->|ne]; [|apply IhA]. rewrite IhAc. lia.
      + intros c'. unfold upd. destruct (Nat.eqb_spec c' c) as [->|ne]; [|apply IhP]. rewrite IhPc. lia.
      + intros o' Ho'. rewrite upd_other; [apply Iemp, Ho'|]. intros ->. apply (Ho' c Ha).
      + intros c' a' Ha'. destruct (Nat.eq_dec c' c) as [->|ne].
        * rewrite Ha in Ha'; inversion Ha'; subst a'. rewrite !upd_same. rewrite HcA. reflexivity.
        * rewrite (upd_other (st_pc s)) by assumption. rewrite upd_other by (eapply HotherA; eassumption). apply IcA, Ha'.
      + intros c' p' Hp'. destruct (Nat.eq_dec c' c) as [->|ne].
        * rewrite Hp in Hp'; inversion Hp'; subst p'. rewrite !upd_same. intros _.
          exists a. split; [exact Ha|]. split; [reflexivity|]. intros _. cbn.
          rewrite HcA, Igr. reflexivity.
        * rewrite (upd_other (st_pc s)) by assumption. rewrite upd_other by (eapply HotherP; eassumption).
          apply IcP, Hp'.
      + rewrite HcA. destruct Hsafe as [Hfx|Hnr]; [rewrite Hfx; exact Igr|].
        rewrite Hnr. destruct fx; exact Igr.
      + exact Ilog.
      + exact Ind.
      + intros c'. unfold upd. destruct (Nat.eqb_spec c' c) as [->|ne]; [|apply Iwo]. rewrite Iwoc. lia.
    - (* WriteOut *)
      destruct (held_some_of_pc _ _ _ _ _ IhPc ltac:(lia)) as [p Hp]. rewrite Hp.
      destruct (IcP c p Hp ltac:(lia)) as (a & Ha & Hset & Hbuf). rewrite (Hbuf ltac:(lia)).
      constructor; cbn.
      + exact IA.
      + exact IP.
      + intros c' Hc'. rewrite upd_other; [auto|congruence].
      + intros c'. unfold upd. destruct (Nat.eqb_spec c' c); [lia|apply Ipc].
      + intros c'. unfold upd. destruct (Nat.eqb_spec c' c) as [->|ne]; [|apply IhA]. rewrite IhAc. lia.
      + intros c'. unfold upd. destruct (Nat.eqb_spec c' c) as [->|ne]; [|apply IhP]. rewrite IhPc. lia.
      + exact Iemp.
      + intros c' a' Ha'. unfold upd. destruct (Nat.eqb_spec c' c) as [->|ne]; [|apply IcA, Ha'].
        rewrite (IcA c a' Ha'), Epc. reflexivity.
      + intros c' p' Hp'. unfold upd. destruct (Nat.eqb_spec c' c) as [->|ne]; [|apply IcP, Hp'].
        intros _. rewrite Hp in Hp'; inversion Hp'; subst p'.
        exists a. split; [exact Ha|]. split; [exact Hset|]. intros _. apply Hbuf. lia.
      + exact Igr.
      + rewrite flat_map_app. cbn. rewrite app_nil_r. rewrite Ilog. reflexivity.
      + apply NoDup_app_one; [exact Ind|]. rewrite Iwoc. lia.
      + intros c'. rewrite in_app_iff. cbn. unfold upd. destruct (Nat.eqb_spec c' c) as [->|ne].
        * split; [lia|auto].
        * rewrite Iwo. split; [intros [H|[H|[]]]; [exact H|congruence]|auto].
    - (* PutPC *)
      constructor; cbn.
      + exact IA.
      + apply pool_put_ok, IP.
      + intros c' Hc'. rewrite upd_other; [auto|congruence].
      + intros c'. unfold upd. destruct (Nat.eqb_spec c' c); [lia|apply Ipc].
      + intros c'. unfold upd. destruct (Nat.eqb_spec c' c) as [->|ne]; [|apply IhA]. rewrite IhAc. lia.
      + intros c'. rewrite pool_put_held. unfold upd. destruct (Nat.eqb_spec c' c) as [->|ne]; [split; [congruence|lia]|apply IhP].
      + exact Iemp.
      + intros c' a' Ha'. unfold upd. destruct (Nat.eqb_spec c' c) as [->|ne]; [|apply IcA, Ha'].
        rewrite (IcA c a' Ha'), Epc. reflexivity.
      + intros c' p'. rewrite pool_put_held. unfold upd. destruct (Nat.eqb_spec c' c) as [->|ne]; [discriminate|apply IcP].
      + exact Igr.
      + exact Ilog.
      + exact Ind.
      + intros c'. unfold upd. destruct (Nat.eqb_spec c' c) as [->|ne]; [|apply Iwo]. rewrite Iwoc. lia.
    - (* PutAttrs *)
      destruct (held_some_of_pc _ _ _ _ _ IhAc ltac:(lia)) as [a Ha]. rewrite Ha.
      assert (HotherA : forall c' a', c' <> c -> held (st_A s) c' = Some a' -> a' <> a).
      { intros c' a' ne Ha' ->. apply ne. destruct IA as (_ & _ & _ & U). eapply U; eassumption. }
      assert (HpN : held (st_P s) c = None) by (eapply held_none_of_pc; [exact IhPc|lia]).
      constructor; cbn.
      + apply pool_put_ok, IA.
      + exact IP.
      + intros c' Hc'. rewrite upd_other; [auto|congruence].
      + intros c'. unfold upd. destruct (Nat.eqb_spec c' c); [lia|apply Ipc].
      + intros c'. rewrite pool_put_held. unfold upd. destruct (Nat.eqb_spec c' c) as [->|ne]; [split; [congruence|lia]|apply IhA].
      + intros c'. unfold upd. destruct (Nat.eqb_spec c' c) as [->|ne]; [|apply IhP]. rewrite IhPc. lia.
      + intros o' Ho'. destruct (Nat.eq_dec o' a) as [->|ne]; [apply upd_same|].
        rewrite upd_other by assumption. apply Iemp. intros c'. destruct (Nat.eq_dec c' c) as [->|nec].
        * rewrite Ha. congruence.
        * specialize (Ho' c'). rewrite pool_put_held, upd_other in Ho' by assumption. exact Ho'.
      + intros c' a'. rewrite pool_put_held. destruct (Nat.eq_dec c' c) as [->|ne]; [rewrite upd_same; discriminate|].
        rewrite (upd_other (held (st_A s))) by assumption. rewrite (upd_other (st_pc s)) by assumption.
        intros Ha'. rewrite upd_other by (eapply HotherA; eassumption). apply IcA, Ha'.
      + intros c' p' Hp'. destruct (Nat.eq_dec c' c) as [->|ne]; [congruence|].
        rewrite (upd_other (st_pc s)) by assumption. intros H4.
        destruct (IcP c' p' Hp' H4) as (a' & Ha' & R). exists a'. split; [|exact R].
        rewrite pool_put_held, upd_other by assumption. exact Ha'.
      + exact Igr.
      + exact Ilog.
      + exact Ind.
      + intros c'. unfold upd. destruct (Nat.eqb_spec c' c) as [->|ne]; [|apply Iwo]. rewrite Iwoc. lia.
  Qed.

  Lemma inv_run sched : inv (runx sched).
  Proof.
    unfold run. induction sched as [|[c k] t IH] using rev_ind.
    - apply inv_init.
    - rewrite run_from_app. cbn. apply inv_step, IH.
  Qed.

  Lemma footprint_owned (s : State) c : inv s ->
    (forall l, In l (reads refs fx calls s c) -> owned s c l) /\
    (forall l, In l (writes refs fx calls s c) -> owned s c l /\ shared_loc l = false).
  Proof.
    intros I. unfold reads, writes, footprint.
    destruct (next_instr calls s c) as [i|] eqn:Hn; [|split; intros l [] ].
    destruct (next_instr_pc _ _ _ Hn) as [Hadm Hnth]. clear Hn.
    destruct i; try (split; intros l []).
    - (* Collect *)
      destruct (held (st_A s) c) as [a|] eqn:Ha; [|split; intros l []]. cbn. split.
      + intros l [<-|[<-|[<-|[]]]]; cbn; auto.
      + intros l [<-|[]]; cbn; auto.
    - (* Set *)
      destruct (held (st_A s) c) as [a|] eqn:Ha; [|split; intros l []].
      destruct (held (st_P s) c) as [p|] eqn:Hp; [|split; intros l []]. cbn. split.
      + intros l [].
      + intros l [<-|[]]; cbn; auto.
    - (* Format *)
      destruct (held (st_P s) c) as [p|] eqn:Hp; [|split; intros l []].
      assert (Epc : st_pc s c = 4).
      { destruct (st_pc s c) as [|[|[|[|[|[|[|[|n]]]]]]]]; cbn in Hnth; try discriminate; try reflexivity.
        destruct n; discriminate. }
      destruct (i_contP s I c p Hp ltac:(lia)) as (a & Ha & Hset & _). rewrite Hset.
      assert (HcA : st_contA s a = coll c) by (rewrite (i_contA s I c a Ha), Epc; reflexivity).
      rewrite HcA. cbn. split.
      + intros l [<-|[<-|Hl]]; cbn; auto. apply in_map_iff in Hl. destruct Hl as (g & <- & _). exact Logic.I.
      + assert (Hw : (if fx then [] else map LGroup (refs (coll c))) = []).
        { destruct Hsafe as [->|Hnr]; [reflexivity|]. rewrite Hnr. destruct fx; reflexivity. }
        rewrite Hw. intros l [<-|[<-|[]]]; cbn; auto.
    - (* WriteOut *)
      destruct (held (st_P s) c) as [p|] eqn:Hp; [|split; intros l []]. cbn. split.
      + intros l [<-|[]]; cbn; auto.
      + intros l [].
    - (* PutAttrs *)
      destruct (held (st_A s) c) as [a|] eqn:Ha; [|split; intros l []]. cbn. split.
      + intros l [].
      + intros l [<-|[]]; cbn; auto.
  Qed.

  Lemma frame sched c l : In l (writes refs fx calls (runx sched) c) ->
    shared_loc l = false /\ owned (runx sched) c l.
  Proof.
    intros H. destruct (footprint_owned (runx sched) c (inv_run sched)) as [_ Hw].
    destruct (Hw l H). auto.
  Qed.

  Lemma shared_unchanged sched : st_groups (runx sched) = groups0.
  Proof. apply i_groups, inv_run. Qed.

  Lemma no_conflict sched c1 c2 l : c1 <> c2 ->
    In l (writes refs fx calls (runx sched) c1) ->
    ~ In l (reads refs fx calls (runx sched) c2) /\ ~ In l (writes refs fx calls (runx sched) c2).
  Proof.
    intros Hne Hw. pose proof (inv_run sched) as I.
    destruct (footprint_owned _ c1 I) as [_ W1]. destruct (footprint_owned _ c2 I) as [R2 W2].
    destruct (W1 l Hw) as [Ho1 Hs].
    assert (Hno : owned (runx sched) c2 l -> False).
    { intros Ho2. destruct l as [o|o| | |]; cbn in Hs; try discriminate; cbn in Ho1, Ho2.
      - destruct (i_A _ I) as (_ & _ & _ & U). apply Hne. eapply U; eassumption.
      - destruct (i_P _ I) as (_ & _ & _ & U). apply Hne. eapply U; eassumption. }
    split; intros H; apply Hno; [apply R2, H|apply W2, H].
  Qed.

  (* ---------- records ---------- *)
  Lemma log_is_records sched :
    st_log (runx sched) = flat_map wof (st_wo (runx sched)) /\
    NoDup (st_wo (runx sched)) /\
    (forall c, In c (st_wo (runx sched)) <->
               c_admitted (calls c) = true /\ 6 <= st_pc (runx sched) c).
  Proof.
    pose proof (inv_run sched) as I. split; [apply (i_log _ I)|]. split; [apply (i_wo_nodup _ I)|].
    intros c. rewrite (i_wo _ I). split; [|intros [_ H]; exact H].
    intros H. split; [|exact H]. destruct (c_admitted (calls c)) eqn:E; [reflexivity|].
    pose proof (i_adm _ I c E). lia.
  Qed.

  Lemma completed_pc (s : State) c : c_admitted (calls c) = true -> completed calls s c -> st_pc s c = 8.
  Proof. unfold completed, program. intros ->. cbn. auto. Qed.

  Lemma no_lost sched c w : c_admitted (calls c) = true -> completed calls (runx sched) c ->
    In w (c_dests (calls c)) -> In (w, pay c) (st_log (runx sched)).
  Proof.
    intros Hadm Hc Hw. destruct (log_is_records sched) as (Hlog & _ & Hwo).
    rewrite Hlog. apply in_flat_map. exists c. split.
    - apply Hwo. split; [exact Hadm|]. rewrite (completed_pc _ _ Hadm Hc). lia.
    - unfold writes_of. apply in_map_iff. exists w. auto.
  Qed.

  (* all calls of a finite set ran to completion, no other call started: the log is
     a permutation of the records of the admitted calls *)
  Lemma atomic_records_perm sched cs : NoDup cs ->
    (forall c, In c cs -> completed calls (runx sched) c) ->
    (forall c, ~ In c cs -> st_pc (runx sched) c = 0) ->
    Permutation (st_log (runx sched)) (flat_map wof (filter (fun c => c_admitted (calls c)) cs)).
  Proof.
    intros Hnd Hdone Hrest. destruct (log_is_records sched) as (Hlog & Hwnd & Hwo).
    rewrite Hlog. apply Permutation_flat_map. apply NoDup_Permutation.
    - exact Hwnd.
    - apply NoDup_filter, Hnd.
    - intros c. rewrite Hwo, filter_In. split.
      + intros [Hadm H6]. split; [|exact Hadm].
        destruct (in_dec Nat.eq_dec c cs) as [Hin|Hnin]; [exact Hin|]. rewrite (Hrest c Hnin) in H6. lia.
      + intros [Hin Hadm]. split; [exact Hadm|]. rewrite (completed_pc _ _ Hadm (Hdone c Hin)). lia.
  Qed.
End ConcP.

(* ---------- part 4: witnesses for the code as it is (fx = false) ---------- *)
Local Open Scope Z_scope.
(* items of the shared group: z=1 a=2 m=3 a=4 *)
Definition w_items : list attr :=
  [A [x7a] (VInt 1); A [x61] (VInt 2); A [x6d] (VInt 3); A [x61] (VInt 4)].
Definition w_groups (g : nat) : list attr := match g with O => w_items | _ => [] end.
(* two calls on logger 0, each passing the group attribute g -> slice 0 *)
Definition w_calls (c : nat) : call attr bytes :=
  match c with
  | O => mkcall true O [x6f;x6e;x65] [A [x67] (VUint 0)] [1]
  | S O => mkcall true O [x74;x77;x6f] [A [x67] (VUint 0)] [1]
  | _ => mkcall false O [] [] []
  end.
Definition w_lattrs (l : nat) : list attr := [].
Definition w_sched4 (c : nat) : list (nat * nat) := [(c, O); (c, O); (c, O); (c, O)].

(* a single call: its Format step writes the shared slice, and afterwards the
   caller's slice is a=4 m=3 z=1 z=1 (a=2 gone, z=1 twice) *)
Lemma group_sort_refuted :
  In (LGroup 0) (writes rrefs false w_calls (rrun false w_lattrs w_groups w_calls (w_sched4 0%nat)) 0%nat) /\
  shared_loc (LGroup 0) = true /\
  st_groups (rrun false w_lattrs w_groups w_calls (w_sched4 0%nat ++ w_sched4 0%nat)) 0%nat
  = [A [x61] (VInt 4); A [x6d] (VInt 3); A [x7a] (VInt 1); A [x7a] (VInt 1)].
Proof. vm_compute. split; [right; right; left; reflexivity|split; reflexivity]. Qed.

(* two calls sharing the group are both about to run Format: both write slice 0 *)
Lemma no_conflict_refuted :
  let s := rrun false w_lattrs w_groups w_calls (w_sched4 0%nat ++ w_sched4 1%nat) in
  In (LGroup 0) (writes rrefs false w_calls s 0%nat) /\
  In (LGroup 0) (writes rrefs false w_calls s 1%nat) /\
  In (LGroup 0) (reads rrefs false w_calls s 1%nat).
Proof. vm_compute. repeat split; right; right; left; reflexivity. Qed.

(* the same schedule in the variant that copies nested slices: nothing shared is written *)
Lemma fixed_example :
  let s := rrun true w_lattrs w_groups w_calls (w_sched4 0%nat ++ w_sched4 1%nat) in
  writes rrefs true w_calls s 0%nat = [LPc 0; LAttrs 0] /\
  writes rrefs true w_calls s 1%nat = [LPc 1; LAttrs 1] /\
  st_groups (rrun true w_lattrs w_groups w_calls
               (w_sched4 0%nat ++ w_sched4 1%nat ++ w_sched4 1%nat ++ w_sched4 0%nat)) 0%nat = w_items.
Proof. vm_compute. repeat split. Qed.

Lemma after_call_example :
  after_call false [A [x67] (VGroup w_items)]
  = [A [x67] (VGroup [A [x61] (VInt 4); A [x6d] (VInt 3); A [x7a] (VInt 1); A [x7a] (VInt 1)])].
Proof. vm_compute. reflexivity. Qed.
