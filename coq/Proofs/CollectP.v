(* Lemmas about Model/Collect.v (C07): which attributes a record carries, in which
   precedence and order, at top level and inside every group. *)
Require Import Verif.Model.Base Verif.Model.Mode Verif.Model.Attrs Verif.Model.Encode Verif.Model.Collect.
Require Import Verif.Proofs.RegistryP Verif.Proofs.SortP.
From Coq Require Import Sorting.Permutation.

(* ------------------------------------------------------------------------- *)
(* the statement's side                                                       *)

(* the sources of a record in the order of the statement: context values, the
   ancestors' attributes outermost first (up = [parent; ...; root]) iff the flag,
   the logger's own attributes, the call's arguments *)
Definition sources (inheritR : bool) (keys : list ckey) (ctx : option (list (ckey * value)))
                   (own : list attr) (up : list (list attr)) (args : list attr) : list attr :=
  from_ctx keys ctx ++ (if inheritR then concat (rev up) else []) ++ own ++ args.

(* the keys of an attribute list (nil entries have none) *)
Definition keys_of (l : list attr) : list bytes :=
  flat_map (fun a => match a with A k _ => [k] | ANil => [] end) l.

(* a property of attribute lists holds inside every group of a value, at every depth *)
Fixpoint every_level (P : list attr -> Prop) (v : value) {struct v} : Prop :=
  match v with
  | VGroup items =>
      P items /\
      (fix go (l : list attr) : Prop :=
         match l with
         | [] => True
         | A _ x :: t => every_level P x /\ go t
         | ANil :: t => go t
         end) items
  | _ => True
  end.

Definition sub_levels (P : list attr -> Prop) (a : attr) : Prop :=
  match a with A _ x => every_level P x | ANil => True end.

(* ... at top level and inside every group *)
Definition all_levels (P : list attr -> Prop) (l : list attr) : Prop :=
  P l /\ Forall (sub_levels P) l.

Lemma every_level_group P items :
  every_level P (VGroup items) <-> P items /\ Forall (sub_levels P) items.
Proof.
  cbn [every_level]. apply and_iff_compat_l.
  induction items as [|[k x|] t IH].
  - split; intros _; [constructor|exact I].
  - split.
    + intros [H1 H2]. constructor; [exact H1|apply IH; exact H2].
    + intros H. inversion H as [|a l H1 H2]; subst. split; [exact H1|apply IH; exact H2].
  - split.
    + intros H. constructor; [exact I|apply IH; exact H].
    + intros H. inversion H as [|a l H1 H2]; subst. apply IH; exact H2.
Qed.

(* ------------------------------------------------------------------------- *)
(* induction over values (groups nest attribute lists)                        *)

Definition isgrp (v : value) : bool := match v with VGroup _ => true | _ => false end.

Definition on_value (P : value -> Prop) (a : attr) : Prop :=
  match a with A _ x => P x | ANil => True end.

Section ValueInd.
  Variable P : value -> Prop.
  Hypothesis Hleaf : forall v, isgrp v = false -> P v.
  Hypothesis Hgroup : forall items, Forall (on_value P) items -> P (VGroup items).

  Fixpoint value_ind2 (v : value) : P v :=
    match v as v0 return P v0 with
    | VGroup items =>
        Hgroup items
          ((fix go (l : list attr) : Forall (on_value P) l :=
              match l as l0 return Forall (on_value P) l0 with
              | [] => Forall_nil (on_value P)
              | a :: t =>
                  @Forall_cons attr (on_value P) a t
                    (match a as a0 return on_value P a0 with
                     | A _ x => value_ind2 x
                     | ANil => I
                     end) (go t)
              end) items)
    | VNil => Hleaf VNil eq_refl
    | VStr s => Hleaf (VStr s) eq_refl
    | VErr s => Hleaf (VErr s) eq_refl
    | VBool b => Hleaf (VBool b) eq_refl
    | VInt z => Hleaf (VInt z) eq_refl
    | VUint z => Hleaf (VUint z) eq_refl
    | VFloat t => Hleaf (VFloat t) eq_refl
    | VComplex t => Hleaf (VComplex t) eq_refl
    | VDur t => Hleaf (VDur t) eq_refl
    | VTime t => Hleaf (VTime t) eq_refl
    | VBytes s => Hleaf (VBytes s) eq_refl
    | VFallback t => Hleaf (VFallback t) eq_refl
    | VStrs l => Hleaf (VStrs l) eq_refl
    | VBools l => Hleaf (VBools l) eq_refl
    | VInts l => Hleaf (VInts l) eq_refl
    | VUints l => Hleaf (VUints l) eq_refl
    | VFloats l => Hleaf (VFloats l) eq_refl
    | VDurs l => Hleaf (VDurs l) eq_refl
    | VTimes l => Hleaf (VTimes l) eq_refl
    end.
End ValueInd.

(* ------------------------------------------------------------------------- *)
(* normalisation: every level is sorted and de-duplicated                     *)

Lemma norm_value_group items :
  norm_value (VGroup items) = VGroup (sort_dedupe (map norm_attr items)).
Proof.
  cbn [norm_value]. f_equal. f_equal.
  induction items as [|[k x|] t IH]; [reflexivity| |]; cbn [map norm_attr]; rewrite <- IH; reflexivity.
Qed.

Lemma norm_value_leaf v : isgrp v = false -> norm_value v = v.
Proof. destruct v; cbn; intros H; try reflexivity; discriminate. Qed.

(* whatever holds of every sorted, de-duplicated list holds at every level of a normalised value *)
Lemma every_level_norm (P : list attr -> Prop) :
  (forall l, P (sort_dedupe l)) -> forall v, every_level P (norm_value v).
Proof.
  intros HP. apply value_ind2.
  - intros v Hv. rewrite (norm_value_leaf v Hv). destruct v; cbn in *; try exact I; discriminate.
  - intros items IH. rewrite norm_value_group. apply every_level_group. split; [apply HP|].
    apply Forall_forall. intros a Ha. apply sort_dedupe_incl in Ha. apply in_map_iff in Ha.
    destruct Ha as [a0 [E Hin]]. subst a. rewrite Forall_forall in IH. specialize (IH a0 Hin).
    destruct a0 as [k x|]; cbn in *; [exact IH|exact I].
Qed.

Lemma all_levels_norm (P : list attr -> Prop) :
  (forall l, P (sort_dedupe l)) -> forall l, all_levels P (norm_attrs l).
Proof.
  intros HP l. unfold all_levels, norm_attrs. split; [apply HP|].
  apply Forall_forall. intros a Ha. apply sort_dedupe_incl in Ha. apply in_map_iff in Ha.
  destruct Ha as [a0 [E Hin]]. subst a. destruct a0 as [k x|]; cbn; [apply every_level_norm; exact HP|exact I].
Qed.

(* ---- each key at most once ---- *)
Lemma in_keys_of k l : In k (keys_of l) <-> In (Some k) (map akey l).
Proof.
  induction l as [|[k' v|] t IH]; cbn; [tauto| |].
  - rewrite IH. split; intros [H|H]; auto; left; congruence.
  - rewrite IH. split; [auto|intros [H|H]; [discriminate|exact H]].
Qed.

Lemma strictly_keys_nodup l : strictly l -> NoDup (keys_of l).
Proof.
  intros Hs. apply strictly_nodup in Hs. induction l as [|[k v|] t IH]; cbn in *.
  - constructor.
  - inversion Hs as [|x l' Hn Hd]; subst. constructor; [|apply IH; exact Hd].
    intros Hin. apply Hn. apply in_keys_of. exact Hin.
  - inversion Hs as [|x l' Hn Hd]; subst. apply IH; exact Hd.
Qed.

(* a nil entry can only be the first element of a strictly ascending list *)
Lemma strictly_nil_head_only a l : strictly (a :: l) -> ~ In ANil l.
Proof.
  intros Hs Hin. pose proof (strictly_head_lt a l Hs ANil Hin) as L. destruct a; cbn in L; discriminate.
Qed.

(* in a strictly ascending list the attribute of a key is the one last_value finds *)
Lemma strictly_in_last_value k v l : strictly l -> In (A k v) l -> last_value k l = Some v.
Proof.
  induction l as [|a t IH]; intros Hs Hin; [destruct Hin|].
  assert (Ht : strictly t) by (inversion Hs; subst; [constructor|assumption]).
  rewrite last_value_cons'. destruct Hin as [->|Hin].
  - destruct (last_value k t) as [v'|] eqn:E.
    + apply last_value_some_in in E. pose proof (strictly_head_lt _ _ Hs _ E) as L. cbn in L.
      rewrite bytes_ltb_irrefl in L. discriminate.
    + cbn. rewrite bytes_eqb_refl. reflexivity.
  - rewrite (IH Ht Hin). reflexivity.
Qed.

Lemma printed_value_iff k v l : strictly l -> (In (A k v) l <-> last_value k l = Some v).
Proof. intros Hs. split; [apply strictly_in_last_value; exact Hs|apply last_value_some_in]. Qed.

(* ---- last occurrence, through concatenation and normalisation ---- *)
Lemma last_value_app k l1 l2 :
  last_value k (l1 ++ l2) = match last_value k l2 with Some v => Some v | None => last_value k l1 end.
Proof.
  induction l1 as [|a t IH]; cbn [app].
  - destruct (last_value k l2); reflexivity.
  - rewrite !last_value_cons'. rewrite IH. destruct (last_value k l2); [reflexivity|].
    destruct (last_value k t); reflexivity.
Qed.

Lemma last_value_map_norm k l :
  last_value k (map norm_attr l) = option_map norm_value (last_value k l).
Proof.
  induction l as [|a t IH]; [reflexivity|]. cbn [map]. rewrite !last_value_cons'. rewrite IH.
  destruct (last_value k t); [reflexivity|]. destruct a as [k' v|]; cbn; [|reflexivity].
  destruct (bytes_eqb k' k); reflexivity.
Qed.

Lemma last_value_norm_attrs k l :
  last_value k (norm_attrs l) = option_map norm_value (last_value k l).
Proof. unfold norm_attrs. rewrite last_wins. apply last_value_map_norm. Qed.

Lemma last_value_none_iff k l : last_value k l = None <-> ~ exists v, In (A k v) l.
Proof.
  split.
  - intros E [v Hin]. destruct (in_last_value_some k v l Hin) as [v' E']. congruence.
  - intros H. destruct (last_value k l) as [v|] eqn:E; [|reflexivity].
    exfalso. apply H. exists v. apply last_value_some_in. exact E.
Qed.

(* ---- which keys are printed ---- *)
Lemma in_map_norm_key k l : (exists v, In (A k v) (map norm_attr l)) <-> (exists v, In (A k v) l).
Proof.
  split; intros [v H].
  - apply in_map_iff in H. destruct H as [[k' v'|] [E Hin]]; [|discriminate]. cbn in E. inversion E; subst. eauto.
  - exists (norm_value v). apply in_map_iff. exists (A k v). split; [reflexivity|exact H].
Qed.

Lemma norm_attrs_keys k l : (exists v, In (A k v) (norm_attrs l)) <-> (exists v, In (A k v) l).
Proof. unfold norm_attrs. rewrite <- keys_preserved. apply in_map_norm_key. Qed.

Lemma in_concat_key k (ls : list (list attr)) :
  (exists v, In (A k v) (concat ls)) <-> (exists l v, In l ls /\ In (A k v) l).
Proof.
  split.
  - intros [v H]. apply in_concat in H. destruct H as [l [H1 H2]]. eauto.
  - intros [l [v [H1 H2]]]. exists v. apply in_concat. eauto.
Qed.

(* ---- the context source ---- *)
Lemma ctx_attr_in c ck k v :
  In (A k v) (ctx_attr c ck) <-> (ckey_name ck = Some k /\ ctx_value c ck = Some v /\ is_nil v = false).
Proof.
  unfold ctx_attr. destruct (ctx_value c ck) as [v0|]; [|split; [intros []|intros [_ [H _]]; discriminate]].
  destruct (is_nil v0) eqn:En.
  - split; [intros []|]. intros [_ [H1 H2]]. inversion H1; subst. congruence.
  - destruct (ckey_name ck) as [n|]; cbn.
    + split.
      * intros [H|[]]. inversion H; subst. auto.
      * intros [H1 [H2 _]]. inversion H1; inversion H2; subst. left. reflexivity.
    + split; [intros []|intros [H _]; discriminate].
Qed.

Lemma from_ctx_in keys ctx k v :
  In (A k v) (from_ctx keys ctx) <->
  exists c ck, ctx = Some c /\ In ck keys /\ ckey_name ck = Some k /\ ctx_value c ck = Some v /\ is_nil v = false.
Proof.
  destruct ctx as [c|]; cbn [from_ctx].
  - rewrite in_flat_map. split.
    + intros [ck [H1 H2]]. apply ctx_attr_in in H2. exists c, ck. tauto.
    + intros [c' [ck [E [H1 H2]]]]. inversion E; subst c'. exists ck. split; [exact H1|]. apply ctx_attr_in. exact H2.
  - split; [intros []|]. intros [c [ck [E _]]]. discriminate.
Qed.

Lemma from_ctx_no_nil keys ctx : ~ In ANil (from_ctx keys ctx).
Proof.
  destruct ctx as [c|]; cbn [from_ctx]; [|intros []]. rewrite in_flat_map. intros [ck [_ H]].
  unfold ctx_attr in H. destruct (ctx_value c ck) as [v|]; [|destruct H].
  destruct (is_nil v); [destruct H|]. destruct (ckey_name ck); [|destruct H]. destruct H as [H|[]]. discriminate.
Qed.

(* a nil context, a context without values and a logger without registered keys give nothing *)
Lemma from_ctx_nil_ctx keys : from_ctx keys None = [].
Proof. reflexivity. Qed.
Lemma from_ctx_no_keys ctx : from_ctx [] ctx = [].
Proof. destruct ctx; reflexivity. Qed.
Lemma from_ctx_empty_ctx keys : from_ctx keys (Some []) = [].
Proof. cbn. induction keys as [|k t IH]; [reflexivity|]. cbn. exact IH. Qed.

(* ---- walkParentAttrs ---- *)
Lemma walk_parents_on chain : walk_parents true chain = concat (rev chain).
Proof.
  induction chain as [|own up IH]; [reflexivity|]. cbn [walk_parents negb]. rewrite andb_false_r.
  rewrite IH. cbn [rev]. rewrite concat_app. cbn [concat]. rewrite app_nil_r. reflexivity.
Qed.

Lemma walk_parents_off own up : walk_parents false (own :: up) = own.
Proof.
  cbn [walk_parents negb]. rewrite andb_true_r. destruct own as [|a t]; reflexivity.
Qed.

(* ---- collectArgs, both variants, in closed form ---- *)
Definition inherits (inheritR fx : bool) (own : list attr) : bool :=
  inheritR && (fx || negb (Nat.eqb (length own) 0)).

Lemma collect_closed inheritR fx keys ctx own up args :
  collect inheritR fx keys ctx (own :: up) args =
  from_ctx keys ctx ++ (if inherits inheritR fx own then concat (rev up) else []) ++ own ++ args.
Proof.
  unfold collect, inherits.
  replace (match keys with [] => [] | _ :: _ => from_ctx keys ctx end) with (from_ctx keys ctx)
    by (destruct keys; [rewrite from_ctx_no_keys|]; reflexivity).
  replace (match args with [] => [] | _ :: _ => args end) with args by (destruct args; reflexivity).
  f_equal. rewrite app_assoc. f_equal.
  destruct inheritR.
  - rewrite andb_true_r. cbn [andb]. rewrite (orb_comm fx).
    destruct (negb (Nat.eqb (length own) 0) || fx) eqn:E.
    + rewrite walk_parents_on. cbn [rev]. rewrite concat_app. cbn [concat]. rewrite app_nil_r. reflexivity.
    + apply orb_false_iff in E. destruct E as [E _]. apply negb_false_iff in E. apply Nat.eqb_eq in E.
      destruct own; [reflexivity|discriminate].
  - rewrite andb_false_r, orb_false_r. cbn [andb].
    destruct (negb (Nat.eqb (length own) 0)) eqn:E.
    + rewrite walk_parents_off. reflexivity.
    + apply negb_false_iff in E. apply Nat.eqb_eq in E. destruct own; [reflexivity|discriminate].
Qed.

(* the repaired variant assembles exactly the sources of the statement *)
Lemma collect_fixed inheritR keys ctx own up args :
  collect inheritR true keys ctx (own :: up) args = sources inheritR keys ctx own up args.
Proof. rewrite collect_closed. unfold inherits, sources. cbn [orb]. rewrite andb_true_r. reflexivity. Qed.

(* the code as found does so when the logger has own attributes or the flag is off *)
Lemma collect_found_partial inheritR keys ctx own up args :
  own <> [] \/ inheritR = false ->
  collect inheritR false keys ctx (own :: up) args = sources inheritR keys ctx own up args.
Proof.
  intros H. rewrite collect_closed. unfold inherits, sources. cbn [orb]. destruct H as [H| ->]; [|reflexivity].
  destruct own as [|a t]; [congruence|]. cbn. rewrite andb_true_r. reflexivity.
Qed.

(* ... and drops every ancestor when the logger has no own attributes, flag or not *)
Lemma collect_found_no_own inheritR keys ctx up args :
  collect inheritR false keys ctx ([] :: up) args = from_ctx keys ctx ++ args.
Proof. rewrite collect_closed. unfold inherits. cbn. rewrite andb_false_r. reflexivity. Qed.

(* the mode of the record is no argument of the assembly; the flag off ignores the ancestors altogether *)
Lemma collect_flag_off fx keys ctx own up up' args :
  collect false fx keys ctx (own :: up) args = collect false fx keys ctx (own :: up') args.
Proof. rewrite !collect_closed. reflexivity. Qed.

(* ------------------------------------------------------------------------- *)
(* the property                                                                *)

Lemma printed_order inheritR fx keys ctx chain args :
  all_levels strictly (printed inheritR fx keys ctx chain args).
Proof. apply all_levels_norm. exact sort_dedupe_strict. Qed.

Lemma printed_once inheritR fx keys ctx chain args :
  all_levels (fun l => NoDup (keys_of l)) (printed inheritR fx keys ctx chain args).
Proof. apply all_levels_norm. intros l. apply strictly_keys_nodup. apply sort_dedupe_strict. Qed.

Lemma printed_one_nil inheritR fx keys ctx chain args :
  all_levels (fun l => match l with [] => True | _ :: t => ~ In ANil t end) (printed inheritR fx keys ctx chain args).
Proof.
  apply all_levels_norm. intros l. pose proof (sort_dedupe_strict l) as Hs.
  destruct (sort_dedupe l) as [|a t]; [exact I|]. eapply strictly_nil_head_only. exact Hs.
Qed.

(* a key is printed iff a source carries it; gen: both variants *)
Lemma printed_sources_gen inheritR fx keys ctx own up args k :
  (exists v, In (A k v) (printed inheritR fx keys ctx (own :: up) args)) <->
  (  (exists c ck v, ctx = Some c /\ In ck keys /\ ckey_name ck = Some k /\ ctx_value c ck = Some v /\ is_nil v = false)
  \/ (inherits inheritR fx own = true /\ exists anc v, In anc up /\ In (A k v) anc)
  \/ (exists v, In (A k v) own)
  \/ (exists v, In (A k v) args)).
Proof.
  unfold printed. rewrite norm_attrs_keys, collect_closed. split.
  - intros [v H]. apply in_app_or in H. destruct H as [H|H].
    + left. apply from_ctx_in in H. destruct H as [c [ck H]]. exists c, ck, v. exact H.
    + apply in_app_or in H. destruct H as [H|H].
      * right; left. destruct (inherits inheritR fx own); [|destruct H]. split; [reflexivity|].
        apply in_concat in H. destruct H as [anc [H1 H2]]. exists anc, v. split; [apply in_rev; exact H1|exact H2].
      * apply in_app_or in H. destruct H as [H|H]; [right; right; left|right; right; right]; exists v; exact H.
  - intros [[c [ck [v H]]]|[[E [anc [v [H1 H2]]]]|[[v H]|[v H]]]]; exists v.
    + apply in_or_app. left. apply from_ctx_in. exists c, ck. exact H.
    + apply in_or_app. right. apply in_or_app. left. rewrite E. apply in_concat. exists anc.
      split; [apply in_rev in H1; exact H1|exact H2].
    + apply in_or_app. right. apply in_or_app. right. apply in_or_app. left. exact H.
    + apply in_or_app. right. apply in_or_app. right. apply in_or_app. right. exact H.
Qed.

Lemma printed_sources inheritR keys ctx own up args k :
  (exists v, In (A k v) (printed inheritR true keys ctx (own :: up) args)) <->
  (  (exists c ck v, ctx = Some c /\ In ck keys /\ ckey_name ck = Some k /\ ctx_value c ck = Some v /\ is_nil v = false)
  \/ (inheritR = true /\ exists anc v, In anc up /\ In (A k v) anc)
  \/ (exists v, In (A k v) own)
  \/ (exists v, In (A k v) args)).
Proof.
  rewrite printed_sources_gen. unfold inherits. cbn [orb]. rewrite andb_true_r. reflexivity.
Qed.

(* the printed value of a key is that of its last occurrence among the sources *)
Lemma printed_precedence inheritR keys ctx own up args k v :
  In (A k v) (printed inheritR true keys ctx (own :: up) args) <->
  option_map norm_value (last_value k (sources inheritR keys ctx own up args)) = Some v.
Proof.
  rewrite printed_value_iff by apply sort_dedupe_strict.
  unfold printed. rewrite last_value_norm_attrs, collect_fixed. reflexivity.
Qed.

Lemma printed_precedence_found inheritR keys ctx own up args k v :
  own <> [] \/ inheritR = false ->
  (In (A k v) (printed inheritR false keys ctx (own :: up) args) <->
   option_map norm_value (last_value k (sources inheritR keys ctx own up args)) = Some v).
Proof.
  intros H. rewrite printed_value_iff by apply sort_dedupe_strict.
  unfold printed. rewrite last_value_norm_attrs, collect_found_partial by exact H. reflexivity.
Qed.

(* the order of precedence, clause by clause *)
Lemma sources_last_value inheritR keys ctx own up args k :
  last_value k (sources inheritR keys ctx own up args) =
  match last_value k args with
  | Some v => Some v                                        (* the call site *)
  | None =>
    match last_value k own with
    | Some v => Some v                                      (* the logger *)
    | None =>
      match (if inheritR then last_value k (concat (rev up)) else None) with
      | Some v => Some v                                    (* an ancestor, iff the flag *)
      | None => last_value k (from_ctx keys ctx)            (* the context *)
      end
    end
  end.
Proof.
  unfold sources. rewrite !last_value_app. destruct (last_value k args); [reflexivity|].
  destruct (last_value k own); [reflexivity|]. destruct inheritR; reflexivity.
Qed.

(* among the ancestors the nearer one wins (they are collected outermost first) *)
Lemma ancestors_last_value k parent up :
  last_value k (concat (rev (parent :: up))) =
  match last_value k parent with Some v => Some v | None => last_value k (concat (rev up)) end.
Proof. cbn [rev]. rewrite concat_app. cbn [concat]. rewrite app_nil_r. apply last_value_app. Qed.

Lemma call_site_wins inheritR keys ctx own up args k v :
  last_value k args = Some v ->
  In (A k (norm_value v)) (printed inheritR true keys ctx (own :: up) args).
Proof. intros H. apply printed_precedence. rewrite sources_last_value, H. reflexivity. Qed.

Lemma logger_beats_ancestors_and_context inheritR keys ctx own up args k v :
  last_value k args = None -> last_value k own = Some v ->
  In (A k (norm_value v)) (printed inheritR true keys ctx (own :: up) args).
Proof. intros H1 H2. apply printed_precedence. rewrite sources_last_value, H1, H2. reflexivity. Qed.

Lemma ancestor_beats_context keys ctx own up args k v :
  last_value k args = None -> last_value k own = None -> last_value k (concat (rev up)) = Some v ->
  In (A k (norm_value v)) (printed true true keys ctx (own :: up) args).
Proof. intros H1 H2 H3. apply printed_precedence. rewrite sources_last_value, H1, H2, H3. reflexivity. Qed.

Lemma context_is_last inheritR keys ctx own up args k v :
  last_value k args = None -> last_value k own = None ->
  (inheritR = true -> last_value k (concat (rev up)) = None) ->
  last_value k (from_ctx keys ctx) = Some v ->
  In (A k (norm_value v)) (printed inheritR true keys ctx (own :: up) args).
Proof.
  intros H1 H2 H3 H4. apply printed_precedence. rewrite sources_last_value, H1, H2.
  destruct inheritR; [rewrite (H3 eq_refl)|]; rewrite H4; reflexivity.
Qed.

(* ancestors contribute iff the flag is on (repaired variant): a key that only ancestors carry *)
Lemma inherit_iff_flag inheritR keys ctx own up args k :
  (exists anc v, In anc up /\ In (A k v) anc) ->
  last_value k (from_ctx keys ctx) = None -> last_value k own = None -> last_value k args = None ->
  ((exists v, In (A k v) (printed inheritR true keys ctx (own :: up) args)) <-> inheritR = true).
Proof.
  intros Hanc Hc Ho Ha. rewrite printed_sources.
  apply last_value_none_iff in Hc, Ho, Ha. split.
  - intros [[c [ck [v H]]]|[[E _]|[H|H]]]; [|exact E|contradiction|contradiction].
    exfalso. apply Hc. exists v. apply from_ctx_in. exists c, ck. exact H.
  - intros E. right; left. split; [exact E|exact Hanc].
Qed.

(* the code as found: a witness with the flag on, an ancestor carrying k, a child without own attributes *)
Definition wit_k : bytes := [x6b].
Definition wit_up : list (list attr) := [[A wit_k (VInt 1)]].

Lemma inherit_refuted_found :
  exists keys ctx own up args k,
    (exists anc v, In anc up /\ In (A k v) anc) /\
    ~ (exists v, In (A k v) (printed true false keys ctx (own :: up) args)).
Proof.
  exists [], None, [], wit_up, [], wit_k. split.
  - exists [A wit_k (VInt 1)], (VInt 1). split; left; reflexivity.
  - intros [v H]. vm_compute in H. exact H.
Qed.

(* ---- the three encoders are handed the same list ---- *)
Lemma ser_top_printed isprint m clr bg inheritR fx keys ctx chain args :
  ser_top isprint m clr bg (collect inheritR fx keys ctx chain args) =
  render_members m clr bg true (members_of isprint m clr bg [] (printed inheritR fx keys ctx chain args)).
Proof. reflexivity. Qed.

(* one member per printed attribute, in the printed order (nil entries print nothing) *)
Lemma members_of_length isprint m clr bg pfx l :
  length (members_of isprint m clr bg pfx l) = length (keys_of l).
Proof.
  induction l as [|[k x|] t IH]; cbn [members_of keys_of flat_map]; [reflexivity| |exact IH].
  cbn [app length]. f_equal. exact IH.
Qed.
