(* PrintCtx.setentry and PrintCtx.set translated in full from the source (Gen/Context.v) against the model of
   C09 (PrintCtx.pc_setentry / pc_set): the VALUE of every field, for every context, logger and call. *)
Require Import Verif.Model.Base Verif.Model.Decision Verif.Model.GoSem Verif.Model.Mode Verif.Model.Attrs
  Verif.Model.Encode Verif.Model.PrintCtx Verif.Model.PcRef.
Require Import Verif.Proofs.GenRouteP.
Require Verif.Gen.Context.
Require Import Lia ZifyBool ZifyNat.

Lemma sl_to_zero (b sp : bytes) : sl_to (b, sp) 0 = Some ([], b ++ sp).
Proof.
  unfold sl_to, sl_cap, sl_all. cbn [fst snd]. destruct ((0 <? 0) || (Z.of_nat (length b + length sp) <? 0)) eqn:E; [lia|].
  reflexivity.
Qed.

Lemma gen_pc_setentry : forall pc sp e flags,
  econf_args (with_fields Context.pc_setentry_full pc sp) e flags = Some (tuple_of (pc_setentry pc e) (pf_buf pc ++ sp)).
Proof.
  intros pc sp e flags. unfold econf_args, with_fields.
  first
    [ reflexivity
    | unfold Context.pc_setentry_full; rewrite sl_to_zero; cbv beta iota zeta;
      unfold tuple_of, pc_setentry, pc_json_mode, pc_no_color, clr_basic, clr_none;
      cbn [pf_buf pf_off pf_lastRead pf_noQuoted pf_jsonMode pf_noColor pf_layout pf_utcTime pf_dedupeAttrs pf_lvl pf_msg
           pf_firstLine pf_restLines pf_eol pf_kvps pf_clr pf_bg pf_now pf_stackFrame pf_cachedSource pf_prefix
           pf_inGroupedMode pf_skipFirstSep pf_valueStringer];
      destruct (useJSON (ec_flags e)); destruct (useColor (ec_flags e)); reflexivity ].
Qed.

Lemma gen_pc_set : forall pc sp e c flags ent,
  econf_args (with_fields Context.pc_set_full pc sp) e flags ent (cl_lvl c) (cl_now c) (cl_frame c) (cl_msg c) (cl_kvps c) =
  Some (tuple_of (pc_set pc e c) (pf_buf pc ++ sp)).
Proof.
  intros pc sp e c flags ent.
  first
    [ unfold econf_args, with_fields; reflexivity
    | pose proof (gen_pc_setentry pc sp e flags) as H; unfold econf_args, with_fields in *;
      unfold Context.pc_set_full; rewrite H; unfold tuple_of; cbv beta iota zeta;
      unfold pc_set, pc_setcall;
      cbn [pf_buf pf_off pf_lastRead pf_noQuoted pf_jsonMode pf_noColor pf_layout pf_utcTime pf_dedupeAttrs pf_lvl pf_msg
           pf_firstLine pf_restLines pf_eol pf_kvps pf_clr pf_bg pf_now pf_stackFrame pf_cachedSource pf_prefix
           pf_inGroupedMode pf_skipFirstSep pf_valueStringer];
      reflexivity ].
Qed.
