(* Lemmas for C14: the arithmetic of the skip constants on the generated tables. *)
Require Import Verif.Model.Base Verif.Model.EntryPoint Verif.Model.Caller.
Require Import Verif.Gen.EntryPoints Verif.Gen.CallerSites.

(* ---- tie of the hand-written index functions to the source expressions ---- *)
Lemma gen_callers_arg :
  (forall s x, getpc_callers_arg s x = s + x + 1) /\
  (forall ei, adapter_handle_callers_arg ei = adapter_handle_callers_arg 0 + ei).
Proof. split; intros; unfold getpc_callers_arg, adapter_handle_callers_arg; lia. Qed.

Lemma frame_index_is_getpc e x : frame_index e x = getpc_callers_arg (ep_skip e) x.
Proof. unfold frame_index. symmetry. apply (proj1 gen_callers_arg). Qed.

(* ---- the generated table ---- *)
Definition row_ok (e : ep) : bool :=
  negb (issues e) || ((ep_skip e =? ep_depth e + 1) && (1 <=? ep_depth e)).

Lemma all_rows_ok : forallb row_ok entry_points = true.
Proof. vm_compute. reflexivity. Qed.

Lemma row_skip e : In e entry_points -> issues e = true -> ep_skip e = ep_depth e + 1 /\ 1 <= ep_depth e.
Proof.
  intros Hin Hi. pose proof (proj1 (forallb_forall row_ok entry_points) all_rows_ok e Hin) as H.
  unfold row_ok in H. rewrite Hi in H. cbn [negb orb] in H. apply andb_true_iff in H. destruct H as [H1 H2].
  split; [apply Z.eqb_eq; exact H1|apply Z.leb_le; exact H2].
Qed.

Lemma skip_correct e : In e entry_points -> issues e = true ->
  ep_skip e = ep_depth e + 1 /\ frame_index e 0 = user_index e.
Proof.
  intros Hin Hi. destruct (row_skip e Hin Hi) as [Hs _]. split; [exact Hs|].
  unfold frame_index, user_index. lia.
Qed.

Lemma extra_moves e n : frame_index e n = frame_index e 0 + n.
Proof. unfold frame_index. lia. Qed.

(* ---- the frame list ---- *)
Lemma logg_frames_length d : length (logg_frames d) = d.
Proof. unfold logg_frames. rewrite map_length, rev_length, seq_length. reflexivity. Qed.

Lemma lib_frames_length d : length (lib_frames d) = d.
Proof. unfold lib_frames. rewrite map_length, rev_length, seq_length. reflexivity. Qed.

Lemma user_frames_nth w n : (n <= w)%nat -> nth_error (user_frames w) n = Some (FUser n).
Proof.
  intros Hn. unfold user_frames. apply map_nth_error.
  rewrite (nth_error_nth' (seq 0 (S w)) 0%nat) by (rewrite seq_length; lia).
  rewrite seq_nth by lia. reflexivity.
Qed.

Lemma callers_user pre w i n : (n <= w)%nat -> i = Z.of_nat (length pre) + Z.of_nat n ->
  callers (pre ++ user_frames w) i = Some (FUser n).
Proof.
  intros Hn Hi. unfold callers. subst i.
  replace (Z.to_nat (Z.of_nat (length pre) + Z.of_nat n)) with (length pre + n)%nat by lia.
  rewrite nth_error_app2 by lia. replace (length pre + n - length pre)%nat with n by lia.
  apply user_frames_nth. exact Hn.
Qed.

Lemma native_stack_split e w : 0 <= ep_depth e ->
  exists pre, native_stack e w = pre ++ user_frames w /\ Z.of_nat (length pre) = user_index e.
Proof.
  intros Hd. exists (FCallers :: FGetpc :: logg_frames (Z.to_nat (ep_depth e))). split; [reflexivity|].
  cbn [length]. rewrite logg_frames_length. unfold user_index. lia.
Qed.

(* the record is attributed to the frame n above the issuing statement *)
Lemma attribution e n w : In e entry_points -> issues e = true -> (n <= w)%nat ->
  attributed e (Z.of_nat n) w = Some (FUser n).
Proof.
  intros Hin Hi Hn. destruct (row_skip e Hin Hi) as [Hs Hd].
  destruct (native_stack_split e w ltac:(lia)) as [pre [Hst Hlen]].
  unfold attributed. rewrite Hst. apply callers_user; [exact Hn|].
  rewrite Hlen, extra_moves, (proj2 (skip_correct e Hin Hi)). reflexivity.
Qed.

(* ---- adapters ---- *)
Definition sites_now (lib_slog lib_log : nat) : list adapter :=
  adapter_sites (adapter_handle_callers_arg 0) adapter_handle_reads_skip
                (getpc_callers_arg adapter_bridge_getpc_skip adapter_bridge_own_extra) adapter_bridge_reads_skip
                lib_slog lib_log.

Lemma adapter_stack_split a w :
  exists pre, adapter_stack a w = pre ++ user_frames w /\ Z.of_nat (length pre) = adapter_user_index a.
Proof.
  exists (FCallers :: (if ad_getpc a then [FGetpc] else []) ++ logg_frames (ad_logg a) ++ lib_frames (ad_lib a)). split.
  - unfold adapter_stack. cbn [app]. rewrite <- !app_assoc. reflexivity.
  - cbn [length]. rewrite !app_length, logg_frames_length, lib_frames_length. unfold adapter_user_index.
    destruct (ad_getpc a); cbn [length]; lia.
Qed.

Lemma adapter_attribution a skip n w : (n <= w)%nat ->
  adapter_index a skip = adapter_user_index a + Z.of_nat n ->
  adapter_attributed a skip w = Some (FUser n).
Proof.
  intros Hn Hi. destruct (adapter_stack_split a w) as [pre [Hst Hlen]].
  unfold adapter_attributed. rewrite Hst. apply callers_user; [exact Hn|]. rewrite Hlen. exact Hi.
Qed.

Lemma adapter_extra a n : adapter_index a n = adapter_index a 0 + (if ad_reads_skip a then n else 0).
Proof. unfold adapter_index. destruct (ad_reads_skip a); lia. Qed.

Lemma adapters_base_ok :
  forallb (fun a => adapter_index a 0 =? adapter_user_index a) (sites_now 2 2) = true.
Proof. vm_compute. reflexivity. Qed.

Lemma adapters_ok a : In a (sites_now 2 2) ->
  adapter_index a 0 = adapter_user_index a
  /\ (forall w, adapter_attributed a 0 w = Some (FUser 0))
  /\ (ad_reads_skip a = true -> forall n, adapter_index a n = adapter_index a 0 + n)
  /\ (ad_reads_skip a = true -> forall n w, (n <= w)%nat -> adapter_attributed a (Z.of_nat n) w = Some (FUser n)).
Proof.
  intros Hin. pose proof (proj1 (forallb_forall _ (sites_now 2 2)) adapters_base_ok a Hin) as H0.
  cbv beta in H0. apply Z.eqb_eq in H0. split; [exact H0|]. split; [|split].
  - intros w. apply adapter_attribution; [lia|]. rewrite H0. cbn. lia.
  - intros Hr n. rewrite adapter_extra, Hr. reflexivity.
  - intros Hr n w Hn. apply adapter_attribution; [exact Hn|]. rewrite adapter_extra, Hr, H0. reflexivity.
Qed.

(* the constants fit exactly one pair of library depths *)
Lemma adapters_depth_exact d1 d2 :
  (forall a, In a (sites_now d1 d2) -> adapter_index a 0 = adapter_user_index a) <-> (d1 = 2%nat /\ d2 = 2%nat).
Proof.
  split.
  - intros H. pose proof (H _ (or_introl eq_refl)) as H1. pose proof (H _ (or_intror (or_introl eq_refl))) as H2.
    unfold adapter_index, adapter_user_index in H1, H2. cbn [ad_arg0 ad_reads_skip ad_logg ad_lib ad_getpc] in H1, H2.
    assert (E1 : adapter_handle_callers_arg 0 = 4) by (vm_compute; reflexivity).
    assert (E2 : getpc_callers_arg adapter_bridge_getpc_skip adapter_bridge_own_extra = 5) by (vm_compute; reflexivity).
    rewrite E1 in H1. rewrite E2 in H2.
    destruct adapter_handle_reads_skip, adapter_bridge_reads_skip; lia.
  - intros [-> ->] a Hin. exact (proj1 (adapters_ok a Hin)).
Qed.

(* a site that does not read the logger's Skip() never moves *)
Lemma no_skip_no_move a n : ad_reads_skip a = false -> adapter_index a n = adapter_index a 0.
Proof. intros Hr. rewrite adapter_extra, Hr. lia. Qed.

Lemma no_skip_refutes a n w : In a (sites_now 2 2) -> ad_reads_skip a = false -> (0 < n)%nat ->
  adapter_attributed a (Z.of_nat n) w = Some (FUser 0) /\ adapter_attributed a (Z.of_nat n) w <> Some (FUser n).
Proof.
  intros Hin Hr Hn. assert (H : adapter_attributed a (Z.of_nat n) w = Some (FUser 0)).
  { apply adapter_attribution; [lia|]. rewrite (no_skip_no_move a _ Hr), (proj1 (adapters_ok a Hin)). cbn. lia. }
  split; [exact H|]. rewrite H. intros E. injection E as E. lia.
Qed.
