(* The end of Entry.logContext regenerated from the source (Gen/Termination.v) against the decision of C12. *)
Require Import Verif.Model.Base Verif.Model.Decision Verif.Model.DecisionRef Verif.Model.GoSem Verif.Model.Level
  Verif.Model.Terminate Verif.Model.TermRef.
Require Import Verif.Proofs.GenRouteP.
Require Verif.Gen.Termination.
Require Import Lia ZifyBool.

(* every path from the print of the record to the end of the function: the record is printed once, first, and the
   call then ends as termination_ref says, whatever the attribute slice, the benchmark / debugger inputs are *)
Lemma gen_after_print : forall t b dg d flags lvl msg kvps tr,
  Termination.after_print t b dg d flags lvl msg kvps tr = Some (term_of (termination_ref t flags lvl) msg, tr ++ [lvl]).
Proof.
  intros t b dg d flags lvl msg kvps tr.
  unfold Termination.after_print, after_print_ref;
  first
    [ reflexivity
    | unfold exit_end, sl_to, sl_cap, termination_ref, term_of, has_any, has_all, f_interruptalways, f_nointerrupt, lv_panic, lv_fatal;
      cbv zeta;
      repeat (gen_split; gen_inj; cbn [negb orb andb] in *; try discriminate; try lia; try reflexivity) ].
Qed.

Lemma gen_in_testing_init : forall t b dg dm db, Termination.in_testing_init t b dg dm db = t.
Proof.
  intros t b dg dm db. unfold Termination.in_testing_init, in_testing_init_ref.
  repeat (gen_split; try reflexivity); reflexivity.
Qed.
