(* Lemmas of C09 (history independence) about Model/PrintCtx.v. *)
Require Import Verif.Model.Base Verif.Model.Dec Verif.Model.Decision Verif.Model.Level Verif.Model.Mode.
Require Import Verif.Model.Utf8 Verif.Model.Quote Verif.Model.JsonEsc Verif.Model.Attrs Verif.Model.Encode.
Require Import Verif.Model.PrintCtx.

Ltac pfs := cbn [pf_buf pf_off pf_lastRead pf_noQuoted pf_jsonMode pf_noColor pf_layout pf_utcTime pf_dedupeAttrs pf_lvl pf_msg
       pf_firstLine pf_restLines pf_eol pf_kvps pf_clr pf_bg pf_now pf_stackFrame pf_cachedSource pf_prefix
       pf_inGroupedMode pf_skipFirstSep pf_valueStringer].

(* ---------------------------------------------------------------- the generalised serializer
   at the values set puts into the context is Encode.v's *)
Section Ser.
Variable isprint : Z -> bool.
Variable m : shape.
Variable clr bg : Z.

Fixpoint ser_value_g_eq (v : value) : forall pfx,
  ser_value_g isprint m clr bg false pfx v = ser_value isprint m clr bg pfx v.
Proof.
  destruct v as [ | s | e | b | z | n | t | t | t | t | s | t | l | l | l | l | l | l | l | items ];
    intro pfx; try reflexivity.
  cbn [ser_value_g ser_value]. f_equal.
  induction items as [ | a t IH ]; [ reflexivity | ].
  destruct a as [ k x | ]; [ | exact IH ].
  rewrite IH. rewrite (ser_value_g_eq x (dkey m pfx k)). reflexivity.
Qed.

Lemma members_of_g_eq : forall l pfx,
  members_of_g isprint m clr bg false pfx l = members_of isprint m clr bg pfx l.
Proof.
  induction l as [ | a t IH ]; intro pfx; [ reflexivity | ].
  destruct a as [ k x | ]; cbn [members_of_g members_of]; [ | apply IH ].
  rewrite IH, ser_value_g_eq. reflexivity.
Qed.

Lemma ser_top_g_eq : forall attrs,
  ser_top_g isprint m clr bg false [] false true attrs = ser_top isprint m clr bg attrs.
Proof.
  intro attrs. unfold ser_top_g, ser_top, render_top_g. rewrite members_of_g_eq. reflexivity.
Qed.
End Ser.

(* outside colour mode the two colour fields are not read *)
Section NoColor.
Variable isprint : Z -> bool.
Variable m : shape.
Hypothesis Hm : m <> ShColor.
Variable c1 b1 c2 b2 : Z.

Lemma render_members_nocolor : forall top ms, render_members m c1 b1 top ms = render_members m c2 b2 top ms.
Proof. intros top ms. destruct m; try reflexivity. congruence. Qed.
Lemma key_part_nocolor : forall grp dk, key_part m c1 b1 grp dk = key_part m c2 b2 grp dk.
Proof. intros grp dk. destruct m; try reflexivity. congruence. Qed.

Fixpoint ser_value_nocolor (v : value) : forall pfx,
  ser_value isprint m c1 b1 pfx v = ser_value isprint m c2 b2 pfx v.
Proof.
  destruct v as [ | s | e | b | z | n | t | t | t | t | s | t | l | l | l | l | l | l | l | items ];
    intro pfx; try reflexivity.
  cbn [ser_value]. rewrite render_members_nocolor. f_equal.
  induction items as [ | a t IH ]; [ reflexivity | ].
  destruct a as [ k x | ]; [ | exact IH ].
  rewrite IH. rewrite (ser_value_nocolor x (dkey m pfx k)). rewrite key_part_nocolor. reflexivity.
Qed.

Lemma ser_top_nocolor : forall attrs, ser_top isprint m c1 b1 attrs = ser_top isprint m c2 b2 attrs.
Proof.
  intro attrs. unfold ser_top.
  assert (forall l pfx, members_of isprint m c1 b1 pfx l = members_of isprint m c2 b2 pfx l) as Hmem.
  { induction l as [ | a t IH ]; intro pfx; [ reflexivity | ].
    destruct a as [ k x | ]; cbn [members_of]; [ | apply IH ].
    rewrite IH, (ser_value_nocolor x), key_part_nocolor. reflexivity. }
  rewrite Hmem. apply render_members_nocolor.
Qed.
End NoColor.

Lemma bytes_from_0 : forall l, bytes_from 0 l = Out l.
Proof.
  intro l. unfold bytes_from.
  replace (Z.of_nat (length l) <? 0) with false by (symmetry; apply Z.ltb_ge; lia).
  reflexivity.
Qed.

(* ---------------------------------------------------------------- set *)
(* setentry never leaves the unmodelled combination jsonMode && !noColor *)
Lemma pc_set_mode : forall pc e c, mode_of_pc (pc_set pc e c) = Some (shape_of (ec_flags e)).
Proof.
  intros pc e c. unfold mode_of_pc, pc_set, pc_setcall, pc_setentry, shape_of, pc_json_mode, pc_no_color; cbn.
  destruct (ec_flags e) as [ [ | ] [ | ] ]; reflexivity.
Qed.

(* agreement on every field except noQuoted, cachedSource, lastRead, firstLine, restLines and eol *)
Definition same_but_unread (a b : printctx) : Prop :=
  mkpc (pf_buf a) (pf_off a) 0 true (pf_jsonMode a) (pf_noColor a) (pf_layout a) (pf_utcTime a)
       (pf_dedupeAttrs a) (pf_lvl a) (pf_msg a) [] [] false (pf_kvps a) (pf_clr a) (pf_bg a)
       (pf_now a) (pf_stackFrame a) ([], 0, []) (pf_prefix a) (pf_inGroupedMode a) (pf_skipFirstSep a) (pf_valueStringer a)
  =
  mkpc (pf_buf b) (pf_off b) 0 true (pf_jsonMode b) (pf_noColor b) (pf_layout b) (pf_utcTime b)
       (pf_dedupeAttrs b) (pf_lvl b) (pf_msg b) [] [] false (pf_kvps b) (pf_clr b) (pf_bg b)
       (pf_now b) (pf_stackFrame b) ([], 0, []) (pf_prefix b) (pf_inGroupedMode b) (pf_skipFirstSep b) (pf_valueStringer b).

(* two contexts after set differ at most in noQuoted, dedupeAttrs and cachedSource *)
Lemma pc_set_same : forall pc0 pc1 e c, pf_dedupeAttrs pc0 = pf_dedupeAttrs pc1 ->
  same_but_unread (pc_set pc0 e c) (pc_set pc1 e c).
Proof.
  intros pc0 pc1 e c H. unfold same_but_unread, pc_set, pc_setcall, pc_setentry; cbn. rewrite H. reflexivity.
Qed.

Lemma pc_setentry_keep_none : forall pc e, pc_setentry_keep (fun _ => false) pc e = pc_setentry pc e.
Proof. reflexivity. Qed.
Lemma pc_setentry_keep_all : forall pc e, pc_setentry_keep (fun _ => true) pc e = pc_setentry_old pc e.
Proof. reflexivity. Qed.

(* leaving out only defensive resets does not matter either *)
Lemma pc_set_keep_same : forall keep pc0 pc1 e c,
  (forall s, keep s = true -> defensive s = true) -> pf_dedupeAttrs pc0 = pf_dedupeAttrs pc1 ->
  same_but_unread (pc_set_keep keep pc0 e c) (pc_set_keep keep pc1 e c).
Proof.
  intros keep pc0 pc1 e c Hk H. unfold same_but_unread, pc_set_keep, pc_setcall, pc_setentry_keep; pfs. rewrite H.
  assert (forall s, defensive s = false -> keep s = false) as Hf.
  { intros s Hd. destruct (keep s) eqn:E; [ | reflexivity ]. apply Hk in E. congruence. }
  rewrite (Hf SOff), (Hf SClr), (Hf SBg), (Hf SPrefix), (Hf SInGrouped), (Hf SSkipSep) by reflexivity.
  reflexivity.
Qed.

Section Enc.
Variable isprint : Z -> bool.
Variable g : registry.
Variable render_ts : Z -> bytes -> Z -> bytes.
Variable source_of : Z -> bytes * Z * bytes.

Notation encode_pc := (encode_pc isprint g render_ts source_of).
Notation body_pc := (body_pc isprint g render_ts source_of).
Notation print_on := (print_on isprint g render_ts source_of).
Notation print_on_old := (print_on_old isprint g render_ts source_of).
Notation print_on_keep := (print_on_keep isprint g render_ts source_of).
Notation encode_call := (encode_call isprint g render_ts source_of).
Notation after_print := (after_print isprint g render_ts source_of).

(* the encoder reads neither noQuoted nor cachedSource nor lastRead nor firstLine, and restLines and eol only
   after it wrote them *)
Lemma encode_pc_unread : forall gl name a b, same_but_unread a b -> encode_pc gl name a = encode_pc gl name b.
Proof.
  intros gl name a b H. unfold same_but_unread in H.
  destruct a as [abuf aoff alr anq aj anc alay autc add alvl amsg afl arl aeol akv aclr abg anow asf acs apre aing askip avs].
  destruct b as [bbuf boff blr bnq bj bnc blay butc bdd blvl bmsg bfl brl beol bkv bclr bbg bnow bsf bcs bpre bing bskip bvs].
  cbn [pf_buf pf_off pf_lastRead pf_noQuoted pf_jsonMode pf_noColor pf_layout pf_utcTime pf_dedupeAttrs pf_lvl pf_msg
       pf_firstLine pf_restLines pf_eol pf_kvps pf_clr pf_bg pf_now pf_stackFrame pf_cachedSource pf_prefix
       pf_inGroupedMode pf_skipFirstSep pf_valueStringer] in H.
  injection H as Hbuf Hoff Hj Hnc Hlay Hutc Hdd Hlvl Hmsg Hkv Hclr Hbg Hnow Hsf Hpre Hing Hskip Hvs.
  subst.
  unfold PrintCtx.encode_pc, PrintCtx.body_pc, mode_of_pc, pick_colors, ser_attrs_pc, caller_pc, rest_lines_pc, ts_pc; pfs.
  destruct ((blvl =? lv_always) && all_blank bmsg); [ reflexivity | ].
  destruct (negb (bvs =? 0)); [ reflexivity | ].
  destruct bj, bnc; try reflexivity.
  destruct (lookupZ (r_colors g) blvl) as [ [ | c0 [ | b0 r ] ] | ]; try reflexivity; unfold with_colors; pfs;
    destruct (split_first_rest bmsg) as [ [f r'] eo ]; unfold with_rest; pfs; reflexivity.
Qed.

(* C09_independent *)
Lemma independent : forall gl pc0 pc1 e c, pf_dedupeAttrs pc0 = pf_dedupeAttrs pc1 ->
  print_on gl pc0 e c = print_on gl pc1 e c.
Proof.
  intros gl pc0 pc1 e c H. unfold PrintCtx.print_on. apply encode_pc_unread, pc_set_same, H.
Qed.

Lemma independent_keep : forall keep gl pc0 pc1 e c,
  (forall s, keep s = true -> defensive s = true) -> pf_dedupeAttrs pc0 = pf_dedupeAttrs pc1 ->
  print_on_keep keep gl pc0 e c = print_on_keep keep gl pc1 e c.
Proof.
  intros keep gl pc0 pc1 e c Hk H. unfold PrintCtx.print_on_keep. apply encode_pc_unread, pc_set_keep_same; assumption.
Qed.

Lemma independent_pooled : forall gl pc0 pc1 e c, pooled pc0 -> pooled pc1 ->
  print_on gl pc0 e c = print_on gl pc1 e c.
Proof. intros gl pc0 pc1 e c H0 H1. apply independent. unfold pooled in *. congruence. Qed.

(* the registry never maps a level to an empty colour list (RegisterLevel and SetLevelColors
   store one or two colours) *)
Definition colors_wfb (r : registry) : bool :=
  forallb (fun p => match snd p with [] => false | _ => true end) (r_colors r).

Lemma colors_wfb_lookup : forall (l : list (Z * list Z)) k,
  forallb (fun p => match snd p with [] => false | _ => true end) l = true -> lookupZ l k <> Some [].
Proof.
  induction l as [ | [k' v] t IH ]; intros k H; cbn in *; [ discriminate | ].
  apply andb_prop in H. destruct H as [Hv Ht].
  destruct (k' =? k); [ | apply IH, Ht ].
  destruct v; [ discriminate | intro E; discriminate E ].
Qed.

(* C09_is_function_of_call *)
Lemma function_of_call : forall gl pc e c,
  pooled pc -> ec_valueStringer e = 0 -> colors_wfb g = true ->
  print_on gl pc e c = encode_call gl e c.
Proof.
  intros gl pc e c Hp Hvs Hcol.
  unfold PrintCtx.print_on, PrintCtx.encode_call, PrintCtx.encode_pc, PrintCtx.body_pc, encode.
  rewrite pc_set_mode.
  unfold pick_colors, ser_attrs_pc, caller_pc, rest_lines_pc, ts_pc, level_colors.
  unfold pc_set, pc_setcall, pc_setentry, cfg_of; pfs.
  cbn [e_mode e_name e_lvl e_caller e_tagw e_minw e_ts].
  rewrite Hvs, Hp. change (negb (0 =? 0)) with false. cbv iota.
  destruct ((cl_lvl c =? lv_always) && all_blank (cl_msg c)); [ reflexivity | ].
  destruct (shape_of (ec_flags e)).
  - (* JSON *) rewrite bytes_from_0, ser_top_g_eq.
    rewrite (ser_top_nocolor isprint ShJSON ltac:(discriminate) clr_basic clr_none 0 0).
    destruct (ec_name e); reflexivity.
  - (* colour *)
    pose proof (colors_wfb_lookup (r_colors g) (cl_lvl c) Hcol) as Hne.
    destruct (lookupZ (r_colors g) (cl_lvl c)) as [ [ | c0 [ | b0 rest ] ] | ]; [ congruence | | | ];
      unfold with_colors; pfs;
      destruct (split_first_rest (cl_msg c)) as [ [first rest'] eol ]; unfold with_rest; pfs;
      (destruct (has_markup (right_pad first (gl_minw gl))); [ reflexivity | ]);
      rewrite bytes_from_0, ser_top_g_eq; unfold out_of_option; destruct (ec_name e); destruct rest'; reflexivity.
  - (* logfmt *) rewrite bytes_from_0, ser_top_g_eq.
    rewrite (ser_top_nocolor isprint ShLogfmt ltac:(discriminate) clr_basic clr_none 0 0).
    destruct (ec_name e); reflexivity.
Qed.

(* ---------------------------------------------------------------- histories *)
(* by induction over the history: every context the pool can hand out is a pooled one *)
Lemma pooled_after_ind : forall h pc0, pooled pc0 -> Forall hstep_ok h -> pooled (pooled_after pc0 h).
Proof.
  induction h as [ | s t IH ] using rev_ind; intros pc0 H0 Hh.
  - exact H0.
  - unfold pooled_after. rewrite rev_unit. apply Forall_app in Hh. destruct Hh as [_ Hs].
    inversion Hs as [ | x l Hx Hl ]; subst. exact Hx.
Qed.

(* C09_history *)
Lemma history : forall gl (h : list hstep) pc0 e c,
  pooled pc0 -> Forall hstep_ok h ->
  print_on gl (pooled_after pc0 h) e c = print_on gl pc0 e c.
Proof.
  intros gl h pc0 e c H0 Hh. apply independent_pooled; [ apply pooled_after_ind; assumption | exact H0 ].
Qed.

Lemma history_function : forall gl (h : list hstep) pc0 e c,
  pooled pc0 -> Forall hstep_ok h -> ec_valueStringer e = 0 -> colors_wfb g = true ->
  print_on gl (pooled_after pc0 h) e c = encode_call gl e c.
Proof.
  intros gl h pc0 e c H0 Hh Hvs Hcol. rewrite history by assumption. apply function_of_call; assumption.
Qed.

(* the concrete step (what printImpl really leaves) is one of the steps the theorem allows *)
Lemma after_print_pooled : forall gl pc e c, pooled pc -> pooled (after_print gl pc e c).
Proof.
  intros gl pc e c Hp. unfold pooled, PrintCtx.after_print in *.
  set (p := pc_set pc e c).
  assert (pf_dedupeAttrs p = true) as Hd by (unfold p, pc_set, pc_setcall, pc_setentry; cbn; exact Hp).
  destruct ((pf_lvl p =? lv_always) && all_blank (pf_msg p)); [ exact Hd | ].
  destruct (PrintCtx.body_pc isprint g render_ts source_of gl (ec_name e) p); try exact Hd.
  cbn.
  destruct (mode_of_pc p) as [ [ | | ] | ]; try exact Hd.
  unfold pick_colors.
  destruct (lookupZ (r_colors g) (pf_lvl p)) as [ [ | c0 [ | b0 r ] ] | ]; try exact Hd; cbn;
    match goal with |- context [split_first_rest ?x] => destruct (split_first_rest x) as [ [f r'] eo ] end; cbn; exact Hd.
Qed.

(* the history of REAL calls: each context is what the previous call left *)
Fixpoint run_calls (gl : globals) (pc : printctx) (h : list (econf * call)) : printctx :=
  match h with
  | [] => pc
  | (e, c) :: t => run_calls gl (after_print gl pc e c) t
  end.

Lemma run_calls_pooled : forall gl h pc, pooled pc -> pooled (run_calls gl pc h).
Proof.
  intros gl h. induction h as [ | [e c] t IH ]; intros pc Hp; cbn; [ exact Hp | ].
  apply IH, after_print_pooled, Hp.
Qed.

Lemma history_concrete : forall gl (h : list (econf * call)) e c,
  print_on gl (run_calls gl new_printctx h) e c = print_on gl new_printctx e c.
Proof.
  intros gl h e c. apply independent_pooled; [ apply run_calls_pooled | ]; reflexivity.
Qed.

End Enc.

(* ---------------------------------------------------------------- poolAttrs *)
(* with the truncation the slice that goes back is empty, whatever the call *)
Lemma log_history_slice : forall calls slice,
  snd (log_history true slice calls) = match calls with [] => slice | _ => [] end.
Proof.
  induction calls as [ | [la args] t IH ]; intro slice; [ reflexivity | ].
  cbn [log_history log_context].
  specialize (IH []).
  destruct (log_history true [] t) as [rest final] eqn:E. cbn in *.
  destruct t; [ cbn in E; injection E as _ E2; symmetry; exact E2 | exact IH ].
Qed.

(* every record of a history that starts with the empty slice of newFixedAttrs is formatted
   with exactly its own logger attributes and arguments *)
Lemma log_history_own : forall calls,
  fst (log_history true [] calls) = map (fun p => fst p ++ snd p) calls.
Proof.
  induction calls as [ | [la args] t IH ]; [ reflexivity | ].
  cbn [log_history log_context collect_args].
  destruct (log_history true [] t) as [rest final]. cbn in *. rewrite IH. reflexivity.
Qed.

(* without the truncation the second record carries the attributes of the first *)
Lemma log_history_leak :
  fst (log_history false [] [([], [A [x61] (VInt 1)]); ([], [A [x62] (VInt 2)])])
  <> map (fun p => fst p ++ snd p) [([], [A [x61] (VInt 1)]); ([], [A [x62] (VInt 2)])].
Proof. vm_compute. discriminate. Qed.

(* ---------------------------------------------------------------- why the resets are there: witnesses *)
Require Import Verif.Corr.C01.   (* init_registry: the literal tables of the source *)

Definition w_isprint (r : Z) : bool := (32 <=? r) && (r <? 127).
Definition w_ts (now : Z) (layout : bytes) (utc : Z) : bytes := [x54].                 (* T *)
Definition w_src (frame : Z) : bytes * Z * bytes := ([x66], frame, [x70; x2f; x66]).  (* f, frame, p/f *)
Definition w_gl : globals := {| gl_caller := false; gl_tagw := 3; gl_minw := 0 |}.
Definition w_logger (json color : bool) : econf :=
  {| ec_name := []; ec_flags := {| useJSON := json; useColor := color |}; ec_layout := []; ec_utc := 2;
     ec_valueStringer := 0; ec_level := lv_info; ec_attrs := [] |}.
(* a record of level 42 (no entry in mLevelColors), one attribute k=1 *)
Definition w_probe : call :=
  {| cl_lvl := 42; cl_now := 1; cl_frame := 0; cl_msg := [x6d]; cl_kvps := [A [x6b] (VInt 1)] |}.
Definition w_error_call : call :=
  {| cl_lvl := lv_error; cl_now := 0; cl_frame := 0; cl_msg := [x65]; cl_kvps := [] |}.
(* the pooled context as the OLD code left it after a colour-mode Error record: printImpl took
   the colours of Error from mLevelColors and nothing put the defaults back *)
Definition w_after_error : printctx :=
  match pick_colors init_registry (pc_set_old new_printctx (w_logger false true) w_error_call) with
  | Some p => p
  | None => new_printctx
  end.
(* a context in which every scratch field holds something *)
Definition w_hostile : printctx :=
  mkpc [x6a; x75; x6e; x6b] 3 3 false true true [x4c] 1 true lv_error [x6f; x6c; x64] [x78] [x6a; x75; x6e; x6b] true
       [A [x6f] (VInt 0)] 31 44 9 9 ([x67], 7, [x67]) [x7a; x7a] true true 5.

Lemma unreset_refuted_w :
  pooled new_printctx /\ pooled w_after_error /\
  print_on_old w_isprint init_registry w_ts w_src w_gl new_printctx (w_logger false true) w_probe
  <> print_on_old w_isprint init_registry w_ts w_src w_gl w_after_error (w_logger false true) w_probe.
Proof. split; [ reflexivity | split; [ reflexivity | ] ]. vm_compute. discriminate. Qed.

(* the same pair of contexts under the repaired set: equal *)
Lemma unreset_repaired_w :
  print_on w_isprint init_registry w_ts w_src w_gl new_printctx (w_logger false true) w_probe
  = print_on w_isprint init_registry w_ts w_src w_gl w_after_error (w_logger false true) w_probe.
Proof. vm_compute. reflexivity. Qed.

(* a stale read offset: the record loses its first bytes (logfmt record, offset 3) *)
Lemma unreset_off_w :
  print_on_keep w_isprint init_registry w_ts w_src (scratch_eqb SOff) w_gl new_printctx (w_logger false false) w_probe
  <> print_on_keep w_isprint init_registry w_ts w_src (scratch_eqb SOff) w_gl w_hostile (w_logger false false) w_probe.
Proof. vm_compute. discriminate. Qed.

(* each of the six non-defensive resets is needed: leaving out that one alone makes the bytes
   depend on the previous contents *)
Lemma resets_needed_w : forall s, defensive s = false ->
  exists (json color : bool),
  print_on_keep w_isprint init_registry w_ts w_src (scratch_eqb s) w_gl new_printctx (w_logger json color) w_probe
  <> print_on_keep w_isprint init_registry w_ts w_src (scratch_eqb s) w_gl w_hostile (w_logger json color) w_probe.
Proof.
  intros s Hs. destruct s; try discriminate Hs.
  - exists false, false. vm_compute. discriminate.   (* off: logfmt *)
  - exists false, true. vm_compute. discriminate.    (* clr: colour *)
  - exists false, true. vm_compute. discriminate.    (* bg: colour *)
  - exists false, false. vm_compute. discriminate.   (* prefix: logfmt, key zz.k *)
  - exists false, false. vm_compute. discriminate.   (* inGroupedMode: logfmt, the key vanishes *)
  - exists true, false. vm_compute. discriminate.    (* skipFirstSep: JSON, the comma vanishes *)
Qed.
