(* Lemmas for property C05: the logfmt line of Model/Encode.v read back by the
   specification tokenizer and decoder of Model/Logfmt.v. *)
Require Import Verif.Model.Base Verif.Model.Dec Verif.Model.Level Verif.Model.Mode.
Require Import Verif.Model.Utf8 Verif.Model.Quote Verif.Model.Attrs Verif.Model.Encode Verif.Model.Logfmt.
Require Import Verif.Proofs.Utf8P Verif.Proofs.QuoteP Verif.Proofs.EscP Verif.Proofs.SortP.
Ltac Zify.zify_post_hook ::= Z.div_mod_to_equations.

Local Arguments quote_go : simpl never.
Local Arguments qbody : simpl never.
Local Arguments dec_of_Z : simpl never.
Local Arguments lf_loop : simpl never.
Local Arguments level_string : simpl never.
Local Arguments norm_attrs : simpl never.
Local Arguments sort_dedupe : simpl never.

(* ================= 1. bytes that matter to the scanners ================= *)
(* neither a quote nor a backslash *)
Definition plainb (c : byte) : Prop := is_dq c = false /\ is_bsl c = false.

Lemma plainb_range c : bz c <> 34 -> bz c <> 92 -> plainb c.
Proof. unfold plainb, is_dq, is_bsl. lia. Qed.

(* a quoted body in which every quote is escaped and the escapes are complete:
   plain bytes and two-byte escapes *)
Inductive esc_ok : bytes -> Prop :=
| eo_nil : esc_ok []
| eo_plain c t : plainb c -> esc_ok t -> esc_ok (c :: t)
| eo_esc e t : esc_ok t -> esc_ok (x5c :: e :: t).

Lemma esc_ok_app a b : esc_ok a -> esc_ok b -> esc_ok (a ++ b).
Proof. induction 1 as [|c t Hc Ht IH|e t Ht IH]; intros Hb; cbn [app]; [exact Hb|apply eo_plain; auto|apply eo_esc; auto]. Qed.

Lemma plain_esc_ok l : Forall plainb l -> esc_ok l.
Proof. induction 1 as [|c t Hc Ht IH]; [constructor|apply eo_plain; assumption]. Qed.

Lemma high_plain l : Forall (fun b => 128 <= bz b) l -> Forall plainb l.
Proof. apply Forall_impl. intros b H. apply plainb_range; lia. Qed.

Lemma hexd_plain n : 0 <= n < 16 -> plainb (hexd n).
Proof. intros H. unfold hexd. destruct (n <? 10) eqn:E; apply plainb_range; rewrite bz_zb by lia; lia. Qed.

Lemma hexn_plain k : forall r, Forall plainb (hexn k r).
Proof.
  induction k as [|k IH]; intros r; cbn [hexn]; constructor; [|apply IH].
  apply hexd_plain. apply Z.mod_pos_bound. lia.
Qed.

Lemma esc2 e : esc_ok [x5c; e].
Proof. apply eo_esc. constructor. Qed.
Lemma esc_hex e k r : esc_ok (x5c :: e :: hexn k r).
Proof. apply eo_esc. apply plain_esc_ok. apply hexn_plain. Qed.

Section Q.
Variable isprint : Z -> bool.
Hypothesis isprint_ascii : forall r, 0 <= r < 128 -> isprint r = (32 <=? r) && (r <? 127).

Lemma escape_rune_esc_ok r : 0 <= r -> esc_ok (escape_rune isprint r).
Proof.
  intros Hr. unfold escape_rune, bs.
  destruct ((r =? 34) || (r =? 92)) eqn:E0; [apply esc2|].
  destruct (isprint r) eqn:P.
  { destruct (r <? 128) eqn:A.
    - rewrite isprint_ascii in P by lia. rewrite encode_rune_ascii by lia.
      apply plain_esc_ok. constructor; [|constructor]. apply plainb_range; rewrite bz_zb by lia; lia.
    - apply plain_esc_ok, high_plain, encode_rune_high. lia. }
  do 7 (match goal with |- context [if ?c then _ else _] => destruct c end; [apply esc2|]).
  do 3 (match goal with |- context [if ?c then _ else _] => destruct c end; [apply esc_hex|]).
  apply esc_hex.
Qed.

Lemma qbody_esc_ok : forall n s, (length s <= n)%nat -> esc_ok (qbody isprint 0 s).
Proof.
  induction n as [|n IH]; intros s Hn.
  { destruct s; [constructor|cbn in Hn; lia]. }
  destruct s as [|b0 t]; [constructor|].
  rewrite (qbody_cons isprint). destruct (decode_rune (b0 :: t)) as [r w] eqn:D.
  pose proof (decode_width _ _ _ D ltac:(discriminate)) as W. cbn [length] in W, Hn.
  apply esc_ok_app.
  - destruct ((Nat.eqb w 1) && (r =? RuneError)).
    + apply esc_hex.
    + apply escape_rune_esc_ok. eapply decode_nonneg. exact D.
  - rewrite (qbody_skip isprint). apply IH. rewrite skipn_length. lia.
Qed.

(* printable ASCII without quote and backslash is copied as it is *)
Lemma qbody_qtext t : qtext_ok t = true -> qbody isprint 0 t = t.
Proof.
  induction t as [|b t IH]; intros H; [reflexivity|].
  cbn [qtext_ok forallb] in H. apply andb_true_iff in H. destruct H as [Hb Ht].
  unfold qtext_byte_ok, is_dq, is_bsl in Hb.
  rewrite (qbody_cons isprint). rewrite decode_ascii by lia.
  replace ((1 =? 1)%nat && (bz b =? RuneError)) with false by (unfold RuneError; lia).
  unfold escape_rune. replace ((bz b =? 34) || (bz b =? 92)) with false by lia.
  rewrite isprint_ascii by lia. replace ((32 <=? bz b) && (bz b <? 127)) with true by lia.
  rewrite encode_rune_ascii by lia. rewrite zb_bz. cbn [Nat.sub app]. f_equal. apply IH. exact Ht.
Qed.

Lemma quote_go_qtext t : qtext_ok t = true -> quote_go isprint t = x22 :: t ++ [x22].
Proof. intros H. unfold quote_go, dq. rewrite qbody_qtext by exact H. reflexivity. Qed.
End Q.

(* ================= 2. the scanners on well-formed chunks ================= *)
Definition pusha (l : bytes) (r : option (bytes * bytes)) : option (bytes * bytes) :=
  match r with Some (v, rest) => Some (l ++ v, rest) | None => None end.
Lemma pusha_nil r : pusha [] r = r.
Proof. destruct r as [[v rest]|]; reflexivity. Qed.
Lemma pusha_cons c l r : pusha (c :: l) r = push c (pusha l r).
Proof. destruct r as [[v rest]|]; reflexivity. Qed.
Lemma pusha_app a b r : pusha (a ++ b) r = pusha a (pusha b r).
Proof. destruct r as [[v rest]|]; cbn [pusha]; [rewrite app_assoc|]; reflexivity. Qed.

Lemma scan_quoted_plain c t : plainb c -> scan_quoted false (c :: t) = push c (scan_quoted false t).
Proof. intros [H1 H2]. cbn [scan_quoted]. rewrite H1, H2. reflexivity. Qed.
Lemma scan_quoted_esc e t : scan_quoted false (x5c :: e :: t) = push x5c (push e (scan_quoted false t)).
Proof. reflexivity. Qed.

(* the scanner of a quoted value stops exactly at the closing quote *)
Lemma scan_quoted_body body : esc_ok body -> forall rest,
  scan_quoted false (body ++ x22 :: rest) = Some (body ++ [x22], rest).
Proof.
  induction 1 as [|c t Hc Ht IH|e t Ht IH]; intros rest; cbn [app].
  - reflexivity.
  - rewrite scan_quoted_plain by exact Hc. rewrite IH. reflexivity.
  - rewrite scan_quoted_esc. rewrite IH. reflexivity.
Qed.

(* the same inside a list *)
Lemma scan_list_q_plain c t : plainb c -> scan_list true false (c :: t) = push c (scan_list true false t).
Proof. intros [H1 H2]. cbn [scan_list]. rewrite H1, H2. reflexivity. Qed.
Lemma scan_list_q_esc e t : scan_list true false (x5c :: e :: t) = push x5c (push e (scan_list true false t)).
Proof. reflexivity. Qed.
Lemma scan_list_q_body body : esc_ok body -> forall rest,
  scan_list true false (body ++ x22 :: rest) = pusha (body ++ [x22]) (scan_list false false rest).
Proof.
  induction 1 as [|c t Hc Ht IH|e t Ht IH]; intros rest; cbn [app].
  - cbn [scan_list]. change (is_dq x22) with true. cbv iota. rewrite pusha_cons, pusha_nil. reflexivity.
  - rewrite scan_list_q_plain by exact Hc. rewrite IH. rewrite pusha_cons. reflexivity.
  - rewrite scan_list_q_esc. rewrite IH. rewrite !pusha_cons. reflexivity.
Qed.

(* a chunk the list scanner walks over without leaving the list or staying inside a quote *)
Definition lst_ok (chunk : bytes) : Prop :=
  forall rest, scan_list false false (chunk ++ rest) = pusha chunk (scan_list false false rest).
Lemma lst_ok_nil : lst_ok [].
Proof. intros rest. rewrite pusha_nil. reflexivity. Qed.
Lemma lst_ok_app a b : lst_ok a -> lst_ok b -> lst_ok (a ++ b).
Proof. intros Ha Hb rest. rewrite <- app_assoc. rewrite Ha, Hb. rewrite pusha_app. reflexivity. Qed.
Lemma lst_ok_byte c : is_dq c = false -> is_rbr c = false -> lst_ok [c].
Proof.
  intros H1 H2 rest. cbn [app]. cbn [scan_list]. rewrite H2, H1. rewrite pusha_cons, pusha_nil. reflexivity.
Qed.
Lemma lst_ok_bytes l : Forall (fun c => is_dq c = false /\ is_rbr c = false) l -> lst_ok l.
Proof.
  induction 1 as [|c t [H1 H2] Ht IH]; [apply lst_ok_nil|].
  change (c :: t) with ([c] ++ t). apply lst_ok_app; [apply lst_ok_byte; assumption|exact IH].
Qed.
Lemma lst_ok_quoted body : esc_ok body -> lst_ok (x22 :: body ++ [x22]).
Proof.
  intros H rest. cbn [app]. rewrite <- app_assoc. cbn [app].
  cbn [scan_list]. change (is_rbr x22) with false. change (is_dq x22) with true. cbv iota.
  rewrite scan_list_q_body by exact H. rewrite pusha_cons. reflexivity.
Qed.
Lemma scan_list_close rest : scan_list false false (x5d :: rest) = Some ([x5d], rest).
Proof. reflexivity. Qed.

(* keys *)
Definition keyb (c : byte) : Prop := is_eq c = false /\ is_sp c = false.
Lemma scan_key_ok k : Forall keyb k -> forall rest, scan_key (k ++ x3d :: rest) = Some (k, rest).
Proof.
  induction 1 as [|c t [H1 H2] Ht IH]; intros rest; cbn [app]; [reflexivity|].
  cbn [scan_key]. rewrite H1, H2, IH. reflexivity.
Qed.

(* bare tokens *)
Lemma scan_bare_ok t : Forall (fun c => is_sp c = false) t -> forall rest, ends_ok rest = true ->
  scan_bare (t ++ rest) = (t, rest).
Proof.
  induction 1 as [|c t Hc Ht IH]; intros rest Hr; cbn [app].
  - destruct rest as [|c r]; [reflexivity|]. cbn [ends_ok] in Hr. cbn [scan_bare]. rewrite Hr. reflexivity.
  - cbn [scan_bare]. rewrite Hc, IH by exact Hr. reflexivity.
Qed.

Lemma skip_sp_nonblank c t : is_sp c = false -> skip_sp (c :: t) = c :: t.
Proof. intros H. cbn [skip_sp]. rewrite H. reflexivity. Qed.

(* ================= 3. printed values: scanned whole, decoded exactly ================= *)
(* what a field value must satisfy to be printable unambiguously: quoted strings are
   unrestricted; bare tokens and bare list elements obey bare_ok / elem_ok *)
Definition scalar_ok (elem : bool) (v : fval) : Prop :=
  match v with
  | FQuoted _ => True
  | FBare t => if elem then elem_ok t = true else bare_ok t = true
  | FList _ => False
  end.
Definition fv_ok (v : fval) : Prop :=
  match v with FList l => Forall (scalar_ok true) l | _ => scalar_ok false v end.

Lemma sp_not_dq c : is_sp c = true -> is_dq c = false /\ is_lbr c = false.
Proof. unfold is_sp, is_dq, is_lbr. lia. Qed.

Lemma bare_byte_nosp c : bare_byte_ok c = true -> is_sp c = false.
Proof. unfold bare_byte_ok, is_sp. lia. Qed.

Lemma forallb_Forall {X} (f : X -> bool) (P : X -> Prop) l :
  (forall x, f x = true -> P x) -> forallb f l = true -> Forall P l.
Proof.
  intros H. induction l as [|x t IH]; intros E; [constructor|].
  cbn [forallb] in E. apply andb_true_iff in E. destruct E as [E1 E2]. constructor; auto.
Qed.

Lemma scan_value_bare t rest : bare_ok t = true -> ends_ok rest = true ->
  scan_value (t ++ rest) = Some (t, rest).
Proof.
  intros H Hr. unfold bare_ok in H. apply andb_true_iff in H. destruct H as [Hall Hfirst].
  assert (Hs : Forall (fun c => is_sp c = false) t) by (eapply forallb_Forall; [|exact Hall]; apply bare_byte_nosp).
  destruct t as [|c t'].
  - cbn [app]. destruct rest as [|c r]; [reflexivity|]. cbn [ends_ok] in Hr.
    destruct (sp_not_dq c Hr) as [D L]. unfold scan_value. rewrite D, L.
    cbn [scan_bare]. rewrite Hr. reflexivity.
  - apply andb_true_iff in Hfirst. destruct Hfirst as [D L].
    apply negb_true_iff in D. apply negb_true_iff in L.
    change ((c :: t') ++ rest) with (c :: t' ++ rest). unfold scan_value. rewrite D, L.
    change (c :: t' ++ rest) with ((c :: t') ++ rest). rewrite scan_bare_ok by assumption. reflexivity.
Qed.

Lemma join_comma_cons2 x y t : join_comma (x :: y :: t) = x ++ x2c :: join_comma (y :: t).
Proof. reflexivity. Qed.

Lemma elem_byte_facts c : elem_byte_ok c = true ->
  is_dq c = false /\ is_rbr c = false /\ is_comma c = false /\ is_sp c = false.
Proof. unfold elem_byte_ok, bare_byte_ok, is_dq, is_rbr, is_comma, is_sp. lia. Qed.

Lemma elem_ok_all t : elem_ok t = true -> t <> [] /\ forallb elem_byte_ok t = true.
Proof. destruct t as [|c t']; [discriminate|]. intros H. split; [discriminate|exact H]. Qed.

(* ---- splitting a printed list into its elements ---- *)
Definition pushla (l : bytes) (r : option (list bytes)) : option (list bytes) := fold_right pushl r l.
Lemma pushla_some l h t : pushla l (Some (h :: t)) = Some ((l ++ h) :: t).
Proof. induction l as [|c l IH]; [reflexivity|]. unfold pushla in *. cbn [fold_right app]. rewrite IH. reflexivity. Qed.
Lemma pushla_none l : pushla l None = None.
Proof. induction l as [|c l IH]; [reflexivity|]. unfold pushla in *. cbn [fold_right]. rewrite IH. reflexivity. Qed.
Lemma pushla_app a b r : pushla (a ++ b) r = pushla a (pushla b r).
Proof. unfold pushla. apply fold_right_app. Qed.

Definition spl_ok (chunk : bytes) : Prop :=
  forall rest, split_elems false false (chunk ++ rest) = pushla chunk (split_elems false false rest).
Lemma spl_ok_bytes l : Forall (fun c => is_dq c = false /\ is_rbr c = false /\ is_comma c = false) l -> spl_ok l.
Proof.
  induction 1 as [|c t (H1 & H2 & H3) Ht IH]; intros rest; [reflexivity|].
  cbn [app]. cbn [split_elems]. rewrite H2, H3, H1. rewrite IH. reflexivity.
Qed.
Lemma split_q_body body : esc_ok body -> forall rest,
  split_elems true false (body ++ x22 :: rest) = pushla (body ++ [x22]) (split_elems false false rest).
Proof.
  induction 1 as [|c t [H1 H2] Ht IH|e t Ht IH]; intros rest; cbn [app].
  - reflexivity.
  - cbn [split_elems]. rewrite H1, H2. rewrite IH. reflexivity.
  - cbn [split_elems]. change (is_dq x5c) with false. change (is_bsl x5c) with true. cbv iota. rewrite IH. reflexivity.
Qed.
Lemma spl_ok_quoted body : esc_ok body -> spl_ok (x22 :: body ++ [x22]).
Proof.
  intros H rest. cbn [app]. rewrite <- app_assoc. cbn [app]. cbn [split_elems].
  change (is_rbr x22) with false. change (is_comma x22) with false. change (is_dq x22) with true. cbv iota.
  rewrite split_q_body by exact H. reflexivity.
Qed.
Lemma split_join els : els <> [] -> Forall spl_ok els ->
  split_elems false false (join_comma els ++ [x5d]) = Some els.
Proof.
  induction els as [|x t IH]; intros NE H; [congruence|].
  inversion H as [|? ? Hx Ht]; subst. destruct t as [|y t'].
  - cbn [join_comma]. rewrite Hx. cbn [split_elems]. change (is_rbr x5d) with true. cbv iota.
    rewrite pushla_some, app_nil_r. reflexivity.
  - rewrite join_comma_cons2. rewrite <- app_assoc. rewrite Hx. cbn [app]. cbn [split_elems].
    change (is_rbr x2c) with false. change (is_comma x2c) with true. cbv iota.
    rewrite IH by (try discriminate; exact Ht). cbn [option_map]. rewrite pushla_some, app_nil_r. reflexivity.
Qed.

Lemma map_opt_map {X Y} (f : Y -> option X) (g : X -> Y) l :
  (forall x, In x l -> f (g x) = Some x) -> map_opt f (map g l) = Some l.
Proof.
  induction l as [|x t IH]; intros H; [reflexivity|]. cbn [map map_opt].
  rewrite H by (left; reflexivity). rewrite IH by (intros y Hy; apply H; right; exact Hy). reflexivity.
Qed.

Section V.
Variable isprint : Z -> bool.
Hypothesis isprint_ascii : forall r, 0 <= r < 128 -> isprint r = (32 <=? r) && (r <? 127).
Notation print_fval := (print_fval isprint).

Lemma quote_go_shape s : quote_go isprint s = x22 :: qbody isprint 0 s ++ [x22] /\ esc_ok (qbody isprint 0 s).
Proof. split; [reflexivity|]. apply (qbody_esc_ok isprint isprint_ascii (length s)). lia. Qed.

Lemma scan_value_quoted s rest : scan_value (quote_go isprint s ++ rest) = Some (quote_go isprint s, rest).
Proof.
  destruct (quote_go_shape s) as [E H]. rewrite E. cbn [app]. rewrite <- app_assoc. cbn [app].
  unfold scan_value. change (is_dq x22) with true. cbv iota.
  rewrite scan_quoted_body by exact H. reflexivity.
Qed.

Lemma lst_ok_elem v : scalar_ok true v -> lst_ok (print_fval v).
Proof.
  destruct v as [s|t|l]; cbn [scalar_ok print_fval]; intros H; [| |destruct H].
  - destruct (quote_go_shape s) as [E Hb]. rewrite E. apply lst_ok_quoted. exact Hb.
  - apply lst_ok_bytes. apply elem_ok_all in H. destruct H as [_ H].
    eapply forallb_Forall; [|exact H]. intros c Hc. apply elem_byte_facts in Hc. tauto.
Qed.

Lemma lst_ok_join l : Forall (scalar_ok true) l -> lst_ok (join_comma (map print_fval l)).
Proof.
  induction 1 as [|x t Hx Ht IH]; [apply lst_ok_nil|].
  destruct t as [|y t'].
  - cbn [map join_comma]. apply lst_ok_elem. exact Hx.
  - change (map print_fval (x :: y :: t')) with (print_fval x :: print_fval y :: map print_fval t').
    rewrite join_comma_cons2. apply lst_ok_app; [apply lst_ok_elem; exact Hx|].
    change (x2c :: join_comma (print_fval y :: map print_fval t')) with ([x2c] ++ join_comma (map print_fval (y :: t'))).
    apply lst_ok_app; [apply lst_ok_byte; reflexivity|exact IH].
Qed.

Lemma scan_value_list l rest : Forall (scalar_ok true) l ->
  scan_value (print_fval (FList l) ++ rest) = Some (print_fval (FList l), rest).
Proof.
  intros H. cbn [print_fval]. cbn [app]. rewrite <- app_assoc. cbn [app].
  unfold scan_value. change (is_dq x5b) with false. change (is_lbr x5b) with true. cbv iota.
  rewrite (lst_ok_join l H). rewrite scan_list_close. cbn [pusha push]. reflexivity.
Qed.

(* the value scanner takes exactly the printed value, whatever follows the next blank *)
Lemma scan_value_printed v rest : fv_ok v -> ends_ok rest = true ->
  scan_value (print_fval v ++ rest) = Some (print_fval v, rest).
Proof.
  destruct v as [s|t|l]; cbn [fv_ok scalar_ok]; intros H Hr.
  - apply scan_value_quoted.
  - cbn [print_fval]. apply scan_value_bare; assumption.
  - apply scan_value_list. exact H.
Qed.

(* ---- decoding ---- *)
Lemma decode_scalar_printed e v : scalar_ok e v -> decode_scalar (print_fval v) = Some v.
Proof.
  destruct v as [s|t|l]; cbn [scalar_ok print_fval]; intros H; [| |destruct H].
  - destruct (quote_go_shape s) as [E _]. rewrite E. unfold decode_scalar. change (is_dq x22) with true. cbv iota.
    rewrite <- E. rewrite (quote_roundtrip isprint isprint_ascii). reflexivity.
  - destruct t as [|c t']; [reflexivity|]. unfold decode_scalar.
    assert (D : is_dq c = false).
    { destruct e.
      - cbn [elem_ok forallb] in H. apply andb_true_iff in H. destruct H as [H _]. apply elem_byte_facts in H. tauto.
      - unfold bare_ok in H. apply andb_true_iff in H. destruct H as [_ H]. apply andb_true_iff in H. destruct H as [H _].
        apply negb_true_iff in H. exact H. }
    rewrite D. reflexivity.
Qed.

Lemma print_elem_nonempty v : scalar_ok true v -> print_fval v <> [].
Proof.
  destruct v as [s|t|l]; cbn [scalar_ok print_fval]; intros H; [| |destruct H].
  - discriminate.
  - apply elem_ok_all in H. tauto.
Qed.

Lemma spl_ok_elem v : scalar_ok true v -> spl_ok (print_fval v).
Proof.
  destruct v as [s|t|l]; cbn [scalar_ok print_fval]; intros H; [| |destruct H].
  - destruct (quote_go_shape s) as [E Hb]. rewrite E. apply spl_ok_quoted. exact Hb.
  - apply spl_ok_bytes. apply elem_ok_all in H. destruct H as [_ H].
    eapply forallb_Forall; [|exact H]. intros c Hc. apply elem_byte_facts in Hc. tauto.
Qed.

Lemma lf_decode_printed v : fv_ok v -> lf_decode (print_fval v) = Some v.
Proof.
  destruct v as [s|t|l]; cbn [fv_ok]; intros H.
  - destruct (quote_go_shape s) as [E _]. cbn [print_fval]. unfold lf_decode. rewrite E. change (is_lbr x22) with false. cbv iota.
    rewrite <- E. apply (decode_scalar_printed false (FQuoted s)). exact I.
  - cbn [print_fval]. destruct t as [|c t']; [reflexivity|]. unfold lf_decode.
    cbn [scalar_ok] in H. assert (L : is_lbr c = false).
    { unfold bare_ok in H. apply andb_true_iff in H. destruct H as [_ H]. apply andb_true_iff in H. destruct H as [_ H].
      apply negb_true_iff in H. exact H. }
    rewrite L. apply (decode_scalar_printed false (FBare (c :: t'))). exact H.
  - cbn [print_fval]. unfold lf_decode. change (is_lbr x5b) with true. cbv iota.
    destruct l as [|x t].
    + reflexivity.
    + rewrite split_join.
      2:{ discriminate. }
      2:{ apply Forall_forall. intros e He. apply in_map_iff in He. destruct He as [v [<- Hv]].
          apply spl_ok_elem. rewrite Forall_forall in H. apply H. exact Hv. }
      assert (NE : print_fval x <> []) by (apply print_elem_nonempty; inversion H; assumption).
      cbn [map]. destruct (print_fval x) as [|c0 r0] eqn:EX; [congruence|]. rewrite <- EX.
      change (print_fval x :: map print_fval t) with (map print_fval (x :: t)).
      rewrite map_opt_map; [reflexivity|].
      intros v Hv. apply (decode_scalar_printed true). rewrite Forall_forall in H. apply H. exact Hv.
Qed.
End V.

(* ================= 4. the pair loop ================= *)
Lemma lf_loop_0 s : lf_loop 0 s = None.
Proof. reflexivity. Qed.
Lemma lf_loop_S f s : lf_loop (S f) s =
  match skip_sp s with
  | [] => Some []
  | c0 :: t0 =>
    match scan_key (c0 :: t0) with
    | Some ((_ :: _) as k, s2) =>
      match scan_value s2 with
      | None => None
      | Some (v, s3) => if ends_ok s3 then option_map (cons (k, v)) (lf_loop f s3) else None
      end
    | _ => None
    end
  end.
Proof. reflexivity. Qed.

Lemma lf_loop_blank f s : lf_loop (S f) (x20 :: s) = lf_loop (S f) s.
Proof. rewrite !lf_loop_S. reflexivity. Qed.

Lemma lf_loop_mono : forall n s r, lf_loop n s = Some r -> forall m, (n <= m)%nat -> lf_loop m s = Some r.
Proof.
  induction n as [|n IH]; intros s r H m Hm; [rewrite lf_loop_0 in H; discriminate|].
  destruct m as [|m]; [lia|]. rewrite lf_loop_S in *.
  destruct (skip_sp s) as [|c0 t0]; [exact H|].
  destruct (scan_key (c0 :: t0)) as [[[|c k'] s2]|]; try discriminate.
  destruct (scan_value s2) as [[v s3]|]; try discriminate.
  destruct (ends_ok s3); try discriminate.
  destruct (lf_loop n s3) as [r'|] eqn:E; [|discriminate].
  rewrite (IH s3 r' E m) by lia. exact H.
Qed.

(* what the key scanner needs of a key *)
Definition key_ok (k : bytes) : Prop := k <> [] /\ Forall keyb k.

Definition led (b : bytes) : Prop := match b with [] => True | c :: _ => is_sp c = true end.
Lemma led_ends b rest : led b -> ends_ok rest = true -> ends_ok (b ++ rest) = true.
Proof. destruct b as [|c t]; cbn [led app ends_ok]; auto. Qed.

Section L.
Variable isprint : Z -> bool.
Hypothesis isprint_ascii : forall r, 0 <= r < 128 -> isprint r = (32 <=? r) && (r <? 127).
Notation print_fval := (print_fval isprint).

Lemma lf_loop_pair f k v rest : key_ok k -> fv_ok v -> ends_ok rest = true ->
  lf_loop (S f) (k ++ x3d :: print_fval v ++ rest) = option_map (cons (k, print_fval v)) (lf_loop f rest).
Proof.
  intros [NE Hk] Hv Hr. destruct k as [|c k']; [congruence|].
  rewrite lf_loop_S. inversion Hk as [|? ? [Hc1 Hc2] Hk']; subst.
  change ((c :: k') ++ x3d :: print_fval v ++ rest) with (c :: k' ++ x3d :: print_fval v ++ rest).
  rewrite skip_sp_nonblank by exact Hc2.
  change (c :: k' ++ x3d :: print_fval v ++ rest) with ((c :: k') ++ x3d :: print_fval v ++ rest).
  rewrite (scan_key_ok (c :: k') Hk).
  rewrite (scan_value_printed isprint isprint_ascii v rest Hv Hr). rewrite Hr. reflexivity.
Qed.

(* [seg txt L]: wherever [txt] stands in a line, followed by a blank or the end, the loop reads
   exactly the pairs [L] from it, using one unit of fuel per pair *)
Definition seg (txt : bytes) (L : list (bytes * bytes)) : Prop :=
  (length L <= length txt)%nat /\
  forall f rest, ends_ok rest = true ->
    lf_loop (length L + S f) (txt ++ rest) = option_map (app L) (lf_loop (S f) rest).

Lemma seg_nil : seg [] [].
Proof. split; [cbn; lia|]. intros f rest _. cbn [length app Nat.add]. destruct (lf_loop (S f) rest); reflexivity. Qed.

Lemma seg_blank txt L : seg txt L -> seg (x20 :: txt) L.
Proof.
  intros [Hl H]. split; [cbn [length]; lia|]. intros f rest Hr.
  cbn [app]. rewrite Nat.add_succ_r. rewrite lf_loop_blank. rewrite <- Nat.add_succ_r. apply H. exact Hr.
Qed.

Lemma seg_app a La b Lb : seg a La -> seg b Lb -> led b -> seg (a ++ b) (La ++ Lb).
Proof.
  intros [Hla Ha] [Hlb Hb] Hled. split; [rewrite !app_length; lia|]. intros f rest Hr.
  rewrite <- app_assoc. rewrite app_length.
  replace (length La + length Lb + S f)%nat with (length La + S (length Lb + f))%nat by lia.
  rewrite Ha by (apply led_ends; assumption).
  replace (S (length Lb + f)) with (length Lb + S f)%nat by lia.
  rewrite Hb by exact Hr. destruct (lf_loop (S f) rest) as [r|]; cbn [option_map]; [rewrite app_assoc|]; reflexivity.
Qed.

Lemma seg_pair k v : key_ok k -> fv_ok v -> seg (k ++ x3d :: print_fval v) [(k, print_fval v)].
Proof.
  intros Hk Hv. split; [rewrite app_length; cbn [length]; lia|]. intros f rest Hr.
  rewrite <- app_assoc. cbn [app length Nat.add]. rewrite lf_loop_pair by assumption.
  destruct (lf_loop (S f) rest); reflexivity.
Qed.

Lemma seg_tokens line L : seg line L -> lf_tokens line = Some L.
Proof.
  intros [Hl H]. unfold lf_tokens. specialize (H 0%nat [] eq_refl). rewrite app_nil_r in H.
  rewrite lf_loop_S in H. cbn [skip_sp option_map] in H. rewrite app_nil_r in H.
  apply (lf_loop_mono _ _ _ H). lia.
Qed.
End L.

(* ================= 5. the attribute tree ================= *)
(* induction over a value with the members of a group as induction hypotheses *)
Section ValueInd.
Variable P : value -> Prop.
Hypothesis Hleaf : forall v, is_group v = false -> P v.
Hypothesis Hgroup : forall items,
  Forall (fun a => match a with A _ x => P x | ANil => True end) items -> P (VGroup items).
Lemma value_tree_ind : forall v, P v.
Proof.
  fix IH 1. intros v. destruct v; try (apply Hleaf; reflexivity).
  apply Hgroup. revert items. fix IHl 1. intros [|a t]; [constructor|].
  constructor; [destruct a as [k x|]; [apply IH|exact I]|apply IHl].
Qed.
End ValueInd.

(* the anonymous loops inside the nested fixpoints are the named list functions *)
Lemma leaves_group dk items : leaves_v dk (VGroup items) = leaves dk items.
Proof.
  cbn [leaves_v]. induction items as [|a t IH]; [reflexivity|].
  destruct a as [k x|]; cbn [leaves]; [f_equal|]; exact IH.
Qed.
Lemma leaves_leaf dk v : is_group v = false -> leaves_v dk v = [(dk, fv_of_leaf v)].
Proof. destruct v; intros H; try reflexivity. discriminate. Qed.

Lemma tree_all_group pk pv items : tree_all pk pv (VGroup items) = attrs_all pk pv items.
Proof.
  cbn [tree_all]. induction items as [|a t IH]; [reflexivity|].
  destruct a as [k x|]; cbn [attrs_all]; [f_equal|]; exact IH.
Qed.
Lemma tree_all_leaf pk pv v : is_group v = false -> tree_all pk pv v = pv v.
Proof. destruct v; intros H; try reflexivity. discriminate. Qed.

(* ---- decimal text ---- *)
Definition isdm (c : byte) : Prop := 48 <= bz c <= 57 \/ bz c = 45.
Lemma digit_byte_dm n : isdm (digit_byte (n mod 10)%N).
Proof.
  left. unfold digit_byte. pose proof (N.mod_upper_bound n 10 ltac:(discriminate)) as H.
  apply N2Z.inj_lt in H. pose proof (N2Z.is_nonneg (n mod 10)) as H0. change (Z.of_N 10) with 10 in H.
  rewrite bz_zb by lia. lia.
Qed.
Lemma dec_fuel_dm : forall fuel n acc, Forall isdm acc -> Forall isdm (dec_fuel fuel n acc).
Proof.
  induction fuel as [|f IH]; intros n acc H; cbn [dec_fuel]; [exact H|].
  destruct (n / 10 =? 0)%N; [|apply IH]; constructor; try assumption; apply digit_byte_dm.
Qed.
Lemma dec_fuel_nonempty : forall fuel n acc, acc <> [] -> dec_fuel fuel n acc <> [].
Proof.
  induction fuel as [|f IH]; intros n acc H; cbn [dec_fuel]; [exact H|].
  destruct (n / 10 =? 0)%N; [discriminate|apply IH; discriminate].
Qed.
Lemma dec_of_N_dm n : Forall isdm (dec_of_N n) /\ dec_of_N n <> [].
Proof.
  unfold dec_of_N. split.
  - apply dec_fuel_dm. constructor.
  - cbn [dec_fuel]. destruct (n / 10 =? 0)%N; [discriminate|apply dec_fuel_nonempty; discriminate].
Qed.
Lemma dec_of_Z_dm z : Forall isdm (dec_of_Z z) /\ dec_of_Z z <> [].
Proof.
  unfold dec_of_Z. destruct (z <? 0).
  - split; [constructor; [right; reflexivity|apply dec_of_N_dm]|discriminate].
  - apply dec_of_N_dm.
Qed.

Lemma Forall_forallb {X} (f : X -> bool) (P : X -> Prop) l :
  (forall x, P x -> f x = true) -> Forall P l -> forallb f l = true.
Proof. intros H. induction 1 as [|x t Hx Ht IH]; [reflexivity|]. cbn [forallb]. rewrite H, IH by assumption. reflexivity. Qed.

Lemma isdm_elem c : isdm c -> elem_byte_ok c = true.
Proof. unfold isdm, elem_byte_ok, bare_byte_ok, is_dq, is_comma, is_rbr. lia. Qed.
Lemma isdm_bare c : isdm c -> bare_byte_ok c = true.
Proof. unfold isdm, bare_byte_ok. lia. Qed.

Lemma dm_elem_ok t : Forall isdm t -> t <> [] -> elem_ok t = true.
Proof.
  intros H NE. destruct t as [|c t']; [congruence|]. unfold elem_ok.
  eapply Forall_forallb; [|exact H]. apply isdm_elem.
Qed.
Lemma dm_bare_ok t : Forall isdm t -> bare_ok t = true.
Proof.
  intros H. unfold bare_ok. apply andb_true_iff. split.
  - eapply Forall_forallb; [|exact H]. apply isdm_bare.
  - destruct t as [|c t']; [reflexivity|]. inversion H as [|? ? Hc _]; subst.
    unfold isdm in Hc. unfold is_dq, is_lbr. lia.
Qed.
Lemma dec_elem_ok z : elem_ok (dec_of_Z z) = true.
Proof. destruct (dec_of_Z_dm z). apply dm_elem_ok; assumption. Qed.
Lemma dec_bare_ok z : bare_ok (dec_of_Z z) = true.
Proof. destruct (dec_of_Z_dm z). apply dm_bare_ok; assumption. Qed.

(* ---- a leaf value is printable, and the encoder prints it as the specification does ---- *)
Lemma Forall_map_intro {X Y} (P : Y -> Prop) (f : X -> Y) l : (forall x, In x l -> P (f x)) -> Forall P (map f l).
Proof. intros H. apply Forall_forall. intros y Hy. apply in_map_iff in Hy. destruct Hy as [x [<- Hx]]. apply H. exact Hx. Qed.

Lemma forallb_in {X} (f : X -> bool) l x : forallb f l = true -> In x l -> f x = true.
Proof. intros H. rewrite forallb_forall in H. apply H. Qed.

Lemma leaf_fv_ok v : is_group v = false -> dom_leaf v = true -> fv_ok (fv_of_leaf v).
Proof.
  destruct v; cbn [is_group dom_leaf fv_of_leaf fv_ok scalar_ok]; intros G D; try exact I; try discriminate.
  - reflexivity.
  - destruct b; reflexivity.
  - apply dec_bare_ok.
  - apply dec_bare_ok.
  - exact D.
  - exact D.
  - apply Forall_map_intro. intros; exact I.
  - apply Forall_map_intro. intros b _. cbn [scalar_ok]. destruct b; reflexivity.
  - apply Forall_map_intro. intros z _. cbn [scalar_ok]. apply dec_elem_ok.
  - apply Forall_map_intro. intros z _. cbn [scalar_ok]. apply dec_elem_ok.
  - apply Forall_map_intro. intros t Ht. cbn [scalar_ok]. eapply forallb_in; eassumption.
  - apply Forall_map_intro. intros; exact I.
  - apply Forall_map_intro. intros; exact I.
Qed.

Lemma join_with_comma l : join_with [x2c] l = join_comma l.
Proof.
  induction l as [|x t IH]; [reflexivity|]. destruct t as [|y t']; [reflexivity|].
  change (join_with [x2c] (x :: y :: t')) with (x ++ [x2c] ++ join_with [x2c] (y :: t')).
  rewrite IH. reflexivity.
Qed.

Section T.
Variable isprint : Z -> bool.
Hypothesis isprint_ascii : forall r, 0 <= r < 128 -> isprint r = (32 <=? r) && (r <? 127).
Notation print_fval := (print_fval isprint).
Notation printed := (printed isprint).
Notation sv := (ser_value isprint ShLogfmt 0 0).
Notation mo := (members_of isprint ShLogfmt 0 0).

Lemma bracket_print {X} (F : X -> fval) (f : X -> bytes) l :
  (forall x, In x l -> f x = print_fval (F x)) -> bracket (map f l) = print_fval (FList (map F l)).
Proof.
  intros H. unfold bracket. cbn [print_fval]. rewrite join_with_comma. rewrite map_map.
  rewrite (map_ext_in _ _ _ H). reflexivity.
Qed.

Lemma ser_leaf dk v : is_group v = false -> dom_leaf v = true -> sv dk v = print_fval (fv_of_leaf v).
Proof.
  destruct v; cbn [is_group dom_leaf ser_value fv_of_leaf quoted json_wrap time_text]; intros G D;
    try reflexivity; try discriminate.
  - cbn [print_fval]. symmetry. apply (quote_go_qtext isprint isprint_ascii). exact D.
  - apply bracket_print. reflexivity.
  - apply bracket_print. reflexivity.
  - apply bracket_print. reflexivity.
  - apply bracket_print. reflexivity.
  - apply bracket_print. reflexivity.
  - apply bracket_print. reflexivity.
  - apply bracket_print. intros t Ht. cbn [print_fval]. symmetry.
    apply (quote_go_qtext isprint isprint_ascii). eapply forallb_in; eassumption.
Qed.

Lemma ser_group dk items : sv dk (VGroup items) = concat (map (fun x => x20 :: x) (mo dk items)).
Proof.
  cbn [ser_value]. unfold render_members. f_equal. f_equal.
  induction items as [|a t IH]; [reflexivity|].
  destruct a as [k x|]; cbn [members_of]; [f_equal|]; exact IH.
Qed.

(* ---- keys ---- *)
Lemma key_byte_keyb c : key_byte_ok c = true -> keyb c.
Proof. unfold key_byte_ok, keyb, is_eq, is_sp, is_dq. lia. Qed.
Lemma legal_key_ok k : legal_key k = true -> key_ok k.
Proof.
  destruct k as [|c k']; [discriminate|]. intros H. apply andb_true_iff in H. destruct H as [H _]. split; [discriminate|].
  eapply forallb_Forall; [|exact H]. apply key_byte_keyb.
Qed.
Lemma dotted_ok pfx k : key_ok pfx -> key_ok k -> key_ok (dotted pfx k).
Proof.
  intros [NE Hp] [NEk Hk]. destruct pfx as [|c p]; [congruence|]. unfold dotted. split; [discriminate|].
  apply Forall_app. split; [exact Hp|]. constructor; [split; reflexivity|exact Hk].
Qed.
Lemma key_ok_lit k : (match k with [] => false | _ => forallb (fun c => negb (is_eq c) && negb (is_sp c)) k end) = true -> key_ok k.
Proof.
  destruct k as [|c k']; [discriminate|]. intros H. split; [discriminate|].
  eapply forallb_Forall; [|exact H]. intros b Hb. apply andb_true_iff in Hb. destruct Hb as [H1 H2].
  apply negb_true_iff in H1. apply negb_true_iff in H2. split; assumption.
Qed.

Lemma led_members ms : led (concat (map (fun x => x20 :: x) ms)).
Proof. destruct ms as [|m t]; [exact I|reflexivity]. Qed.

(* ---- the induction over the tree ---- *)
Definition tree_seg (v : value) : Prop :=
  forall dk, key_ok dk -> dom_value v = true ->
    seg (x20 :: key_part ShLogfmt 0 0 (is_group v) dk ++ sv dk v) (map printed (leaves_v dk v)).

Lemma members_seg pfx items :
  (forall k, legal_key k = true -> key_ok (dotted pfx k)) ->
  Forall (fun a => match a with A _ x => tree_seg x | ANil => True end) items ->
  dom_attrs items = true ->
  seg (concat (map (fun x => x20 :: x) (mo pfx items))) (map printed (leaves pfx items)).
Proof.
  intros Hk. induction 1 as [|a t Ha Ht IH]; intros D; [apply seg_nil|].
  destruct a as [k x|].
  - unfold dom_attrs in D. cbn [attrs_all] in D. apply andb_true_iff in D. destruct D as [D Dt].
    apply andb_true_iff in D. destruct D as [Dk Dx].
    cbn [members_of leaves]. cbn [map concat]. rewrite map_app.
    apply seg_app; [|apply IH; exact Dt|apply led_members].
    apply Ha; [apply Hk; exact Dk|exact Dx].
  - cbn [members_of leaves]. apply IH. exact D.
Qed.

Lemma tree_seg_all : forall v, tree_seg v.
Proof.
  apply value_tree_ind.
  - intros v G dk Hdk D. rewrite G. unfold dom_value in D. rewrite tree_all_leaf in D by exact G.
    rewrite leaves_leaf by exact G. rewrite (ser_leaf dk v G D).
    cbn [key_part map]. rewrite <- app_assoc. cbn [app]. apply seg_blank.
    apply (seg_pair isprint isprint_ascii); [exact Hdk|apply leaf_fv_ok; assumption].
  - intros items H dk Hdk D. cbn [is_group key_part app]. rewrite ser_group, leaves_group.
    unfold dom_value in D. rewrite tree_all_group in D. apply seg_blank.
    apply members_seg; [|exact H|exact D].
    intros k Lk. apply dotted_ok; [exact Hdk|apply legal_key_ok; exact Lk].
Qed.

Lemma attrs_seg items : dom_attrs items = true ->
  seg (concat (map (fun x => x20 :: x) (mo [] items))) (map printed (leaves [] items)).
Proof.
  intros D. apply members_seg; [| |exact D].
  - intros k Lk. cbn [dotted]. apply legal_key_ok. exact Lk.
  - apply Forall_forall. intros a _. destruct a; [apply tree_seg_all|exact I].
Qed.
End T.

(* ================= 6. predicates over the tree and normalisation ================= *)
Definition aok (pk : bytes -> bool) (pv : value -> bool) (a : attr) : Prop :=
  match a with A k x => pk k = true /\ tree_all pk pv x = true | ANil => True end.

Lemma attrs_all_Forall pk pv l : attrs_all pk pv l = true <-> Forall (aok pk pv) l.
Proof.
  induction l as [|a t IH]; [split; [constructor|reflexivity]|].
  destruct a as [k x|]; cbn [attrs_all].
  - rewrite !andb_true_iff. rewrite IH. split.
    + intros [[H1 H2] H3]. constructor; [split; assumption|exact H3].
    + intros H. inversion H as [|? ? H12 H3]; subst. destruct H12 as [H1 H2]. tauto.
  - rewrite IH. split; [intros H; constructor; [exact I|exact H]|intros H; inversion H; assumption].
Qed.

Lemma norm_group items : norm_value (VGroup items) = VGroup (sort_dedupe (map norm_attr items)).
Proof.
  cbn [norm_value]. f_equal. f_equal.
  induction items as [|a t IH]; [reflexivity|].
  destruct a as [k x|]; cbn [map norm_attr]; f_equal; exact IH.
Qed.
Lemma norm_leaf v : is_group v = false -> norm_value v = v.
Proof. destruct v; intros H; try reflexivity. discriminate. Qed.

Lemma Forall_sort_dedupe (P : attr -> Prop) l : Forall P l -> Forall P (sort_dedupe l).
Proof. intros H. apply Forall_forall. intros a Ha. rewrite Forall_forall in H. apply H. apply sort_dedupe_incl. exact Ha. Qed.

Lemma norm_value_all pk pv : forall v, tree_all pk pv v = true -> tree_all pk pv (norm_value v) = true.
Proof.
  apply (value_tree_ind (fun v => tree_all pk pv v = true -> tree_all pk pv (norm_value v) = true)).
  - intros v G H. rewrite norm_leaf by exact G. exact H.
  - intros items IH H. rewrite norm_group. rewrite tree_all_group in *.
    apply attrs_all_Forall. apply Forall_sort_dedupe. apply attrs_all_Forall in H.
    apply Forall_map_intro. intros a Ha. rewrite Forall_forall in H, IH.
    specialize (H a Ha). specialize (IH a Ha). destruct a as [k x|]; cbn [norm_attr aok] in *; [|exact I].
    destruct H as [H1 H2]. split; [exact H1|apply IH; exact H2].
Qed.

Lemma norm_attrs_all pk pv l : attrs_all pk pv l = true -> attrs_all pk pv (norm_attrs l) = true.
Proof.
  intros H. unfold norm_attrs. apply attrs_all_Forall. apply Forall_sort_dedupe. apply attrs_all_Forall in H.
  apply Forall_map_intro. intros a Ha. rewrite Forall_forall in H. specialize (H a Ha).
  destruct a as [k x|]; cbn [norm_attr aok] in *; [|exact I].
  destruct H as [H1 H2]. split; [exact H1|apply norm_value_all; exact H2].
Qed.

(* a weaker predicate on keys and leaves holds wherever a stronger one does *)
Lemma tree_all_mono pk pv pk' pv' :
  (forall k, pk k = true -> pk' k = true) ->
  (forall v, is_group v = false -> pv v = true -> pv' v = true) ->
  forall v, tree_all pk pv v = true -> tree_all pk' pv' v = true.
Proof.
  intros Hk Hv.
  apply (value_tree_ind (fun v => tree_all pk pv v = true -> tree_all pk' pv' v = true)).
  - intros v G H. rewrite tree_all_leaf in * by exact G. apply Hv; assumption.
  - intros items IH H. rewrite tree_all_group in *. apply attrs_all_Forall. apply attrs_all_Forall in H.
    apply Forall_forall. intros a Ha. rewrite Forall_forall in H, IH.
    specialize (H a Ha). specialize (IH a Ha). destruct a as [k x|]; cbn [aok] in *; [|exact I].
    destruct H as [H1 H2]. split; [apply Hk; exact H1|apply IH; exact H2].
Qed.
Lemma attrs_all_mono pk pv pk' pv' :
  (forall k, pk k = true -> pk' k = true) ->
  (forall v, is_group v = false -> pv v = true -> pv' v = true) ->
  forall l, attrs_all pk pv l = true -> attrs_all pk' pv' l = true.
Proof.
  intros Hk Hv l H. apply attrs_all_Forall. apply attrs_all_Forall in H.
  apply Forall_forall. intros a Ha. rewrite Forall_forall in H. specialize (H a Ha).
  destruct a as [k x|]; cbn [aok] in *; [|exact I].
  destruct H as [H1 H2]. split; [apply Hk; exact H1|eapply tree_all_mono; eassumption].
Qed.

(* every leaf value of a tree inside the domain is printable *)
Lemma leaves_v_fv_ok : forall v dk, dom_value v = true -> Forall (fun kv => fv_ok (snd kv)) (leaves_v dk v).
Proof.
  apply (value_tree_ind (fun v => forall dk, dom_value v = true -> Forall (fun kv => fv_ok (snd kv)) (leaves_v dk v))).
  - intros v G dk D. rewrite leaves_leaf by exact G. constructor; [|constructor].
    unfold dom_value in D. rewrite tree_all_leaf in D by exact G. apply leaf_fv_ok; assumption.
  - intros items IH dk D. rewrite leaves_group. unfold dom_value in D. rewrite tree_all_group in D.
    revert D. induction IH as [|a t Ha Ht IHt]; intros D; [constructor|].
    destruct a as [k x|]; cbn [leaves attrs_all] in *.
    + apply andb_true_iff in D. destruct D as [D Dt]. apply andb_true_iff in D. destruct D as [_ Dx].
      apply Forall_app. split; [apply Ha; exact Dx|apply IHt; exact Dt].
    + apply IHt. exact D.
Qed.
Lemma leaves_fv_ok pfx l : dom_attrs l = true -> Forall (fun kv => fv_ok (snd kv)) (leaves pfx l).
Proof.
  induction l as [|a t IH]; intros D; [constructor|].
  destruct a as [k x|]; unfold dom_attrs in *; cbn [leaves attrs_all] in *.
  - apply andb_true_iff in D. destruct D as [D Dt]. apply andb_true_iff in D. destruct D as [_ Dx].
    apply Forall_app. split; [apply leaves_v_fv_ok; exact Dx|apply IH; exact Dt].
  - apply IH. exact D.
Qed.

(* ================= 7. the whole record ================= *)
Section R.
Variable isprint : Z -> bool.
Hypothesis isprint_ascii : forall r, 0 <= r < 128 -> isprint r = (32 <=? r) && (r <? 127).
Variable g : registry.
Notation print_fval := (print_fval isprint).
Notation printed := (printed isprint).

Definition lf_caller (cl : option (bytes * Z * bytes)) : bytes :=
  match cl with
  | None => []
  | Some (file, line, fn) =>
      (x20 :: lk_caller_file ++ x3d :: quote_go isprint file)
      ++ (x20 :: lk_caller_line ++ x3d :: dec_of_Z line)
      ++ (x20 :: lk_caller_function ++ x3d :: quote_go isprint fn)
  end.

(* the line in the shape the loop lemmas read; [tsq] = the timestamp between its quotes *)
Definition lf_line (tsq : bytes) (c : ecfg) (msg : bytes) (attrs : list attr) : bytes :=
  (lk_time ++ x3d :: tsq)
  ++ (match e_name c with [] => [] | nm => x20 :: lk_logger ++ x3d :: quote_go isprint nm end)
  ++ (x20 :: lk_level ++ x3d :: quote_go isprint (level_string g (e_lvl c)))
  ++ (x20 :: lk_msg ++ x3d :: quote_go isprint msg)
  ++ concat (map (fun x => x20 :: x) (members_of isprint ShLogfmt 0 0 [] (norm_attrs attrs)))
  ++ lf_caller (e_caller c).

Lemma caller_lf cl : caller_part isprint ShLogfmt cl = lf_caller cl.
Proof.
  destruct cl as [[[file line] fn]|]; [|reflexivity].
  unfold caller_part, lf_caller, quoted, n_caller, n_file, n_line, n_function, lk_caller_file, lk_caller_line, lk_caller_function.
  repeat (cbn [app]; rewrite <- ?app_assoc). reflexivity.
Qed.

Lemma encode_blank c msg attrs : e_mode c = ShLogfmt -> blank_print c msg = true ->
  encode isprint g c msg attrs = Some [x0a].
Proof. intros Hm Hb. unfold blank_print in Hb. unfold encode. rewrite Hb. reflexivity. Qed.

Lemma encode_lf_raw c msg attrs : e_mode c = ShLogfmt -> blank_print c msg = false ->
  encode isprint g c msg attrs = Some (lf_line (x22 :: e_ts c ++ [x22]) c msg attrs ++ [x0a]).
Proof.
  intros Hm Hb. unfold blank_print in Hb. unfold encode. rewrite Hb, Hm. cbv zeta iota. f_equal.
  rewrite caller_lf. unfold lf_line.
  unfold field, key_token, colon, comma, quoted, ser_top, render_members, n_time, n_logger, n_level, n_msg, lk_time, lk_logger, lk_level, lk_msg.
  destruct (e_name c) as [|n0 nm]; repeat (cbn [app]; rewrite <- ?app_assoc); reflexivity.
Qed.

Lemma encode_lf c msg attrs : e_mode c = ShLogfmt -> blank_print c msg = false -> qtext_ok (e_ts c) = true ->
  encode isprint g c msg attrs = Some (lf_line (quote_go isprint (e_ts c)) c msg attrs ++ [x0a]).
Proof.
  intros Hm Hb Hts. rewrite (quote_go_qtext isprint isprint_ascii _ Hts). apply encode_lf_raw; assumption.
Qed.

(* in logfmt mode the encoder always produces a record *)
Lemma encode_total c msg attrs : e_mode c = ShLogfmt -> exists out, encode isprint g c msg attrs = Some out.
Proof.
  intros Hm. destruct (blank_print c msg) eqn:Hb.
  - eexists. apply encode_blank; assumption.
  - eexists. apply encode_lf_raw; assumption.
Qed.

Lemma seg_qpair k s : key_ok k -> seg (x20 :: k ++ x3d :: quote_go isprint s) [(k, quote_go isprint s)].
Proof. intros Hk. apply seg_blank. apply (seg_pair isprint isprint_ascii k (FQuoted s) Hk I). Qed.

Lemma caller_seg cl :
  seg (lf_caller cl)
      (map printed (match cl with
                    | None => []
                    | Some (file, line, fn) =>
                        [(lk_caller_file, FQuoted file); (lk_caller_line, FBare (dec_of_Z line)); (lk_caller_function, FQuoted fn)]
                    end)).
Proof.
  destruct cl as [[[file line] fn]|]; [|apply seg_nil].
  unfold lf_caller. cbn [map].
  change [printed (lk_caller_file, FQuoted file); printed (lk_caller_line, FBare (dec_of_Z line)); printed (lk_caller_function, FQuoted fn)]
    with ([(lk_caller_file, quote_go isprint file)] ++ [(lk_caller_line, dec_of_Z line)] ++ [(lk_caller_function, quote_go isprint fn)]).
  apply seg_app; [apply seg_qpair; apply key_ok_lit; reflexivity| |exact eq_refl].
  apply seg_app; [|apply seg_qpair; apply key_ok_lit; reflexivity|exact eq_refl].
  apply seg_blank. apply (seg_pair isprint isprint_ascii lk_caller_line (FBare (dec_of_Z line))).
  - apply key_ok_lit. reflexivity.
  - apply dec_bare_ok.
Qed.

Lemma line_seg c msg attrs : dom_attrs attrs = true ->
  seg (lf_line (quote_go isprint (e_ts c)) c msg attrs) (map printed (fields_of g c msg attrs)).
Proof.
  intros D. unfold lf_line, fields_of. cbn [map]. rewrite !map_app. cbn [map].
  change (printed (lk_time, FQuoted (e_ts c)) :: ?l) with ([(lk_time, quote_go isprint (e_ts c))] ++ l).
  apply seg_app.
  { apply (seg_pair isprint isprint_ascii lk_time (FQuoted (e_ts c))); [apply key_ok_lit; reflexivity|exact I]. }
  2:{ destruct (e_name c); exact eq_refl. }
  apply seg_app.
  { destruct (e_name c) as [|n0 nm]; [apply seg_nil|]. cbn [map]. apply seg_qpair. apply key_ok_lit. reflexivity. }
  2:{ exact eq_refl. }
  change [printed (lk_level, FQuoted (level_string g (e_lvl c))); printed (lk_msg, FQuoted msg)]
    with ([(lk_level, quote_go isprint (level_string g (e_lvl c)))] ++ [(lk_msg, quote_go isprint msg)]).
  rewrite <- app_assoc.
  assert (Lc : led (lf_caller (e_caller c))) by (destruct (e_caller c) as [[[file line] fn]|]; [exact eq_refl|exact I]).
  apply seg_app; [apply seg_qpair; apply key_ok_lit; reflexivity| |exact eq_refl].
  apply seg_app; [apply seg_qpair; apply key_ok_lit; reflexivity| |].
  2:{ destruct (members_of isprint ShLogfmt 0 0 [] (norm_attrs attrs)); [exact Lc|exact eq_refl]. }
  apply seg_app.
  - apply (attrs_seg isprint isprint_ascii). apply norm_attrs_all. exact D.
  - apply caller_seg.
  - exact Lc.
Qed.

Lemma fields_fv_ok c msg attrs : dom_attrs attrs = true ->
  Forall (fun kv => fv_ok (snd kv)) (fields_of g c msg attrs).
Proof.
  intros D. unfold fields_of. constructor; [exact I|].
  apply Forall_app. split; [destruct (e_name c); repeat constructor|].
  apply Forall_app. split; [repeat constructor|].
  apply Forall_app. split; [apply leaves_fv_ok; apply norm_attrs_all; exact D|].
  destruct (e_caller c) as [[[file line] fn]|]; [|constructor].
  constructor; [exact I|]. constructor; [apply dec_bare_ok|]. constructor; [exact I|constructor].
Qed.

Lemma parse_printed F : Forall (fun kv => fv_ok (snd kv)) F ->
  map_opt (fun kv : bytes * bytes => option_map (pair (fst kv)) (lf_decode (snd kv))) (map printed F) = Some F.
Proof.
  intros H. apply map_opt_map. intros [k v] Hin. rewrite Forall_forall in H. specialize (H _ Hin).
  unfold Logfmt.printed. cbn [fst snd] in *. rewrite (lf_decode_printed isprint isprint_ascii v H). reflexivity.
Qed.

(* the main theorem *)
Theorem roundtrip c msg attrs out :
  e_mode c = ShLogfmt -> lf_domain c msg attrs = true ->
  encode isprint g c msg attrs = Some out ->
  exists line, out = line ++ [x0a]
    /\ lf_tokens line = Some (map printed (fields_of g c msg attrs))
    /\ lf_parse line = Some (fields_of g c msg attrs).
Proof.
  intros Hm D E. unfold lf_domain in D. apply andb_true_iff in D. destruct D as [D Da].
  apply andb_true_iff in D. destruct D as [Hb Hts]. apply negb_true_iff in Hb.
  rewrite (encode_lf c msg attrs Hm Hb Hts) in E. injection E as E'.
  exists (lf_line (quote_go isprint (e_ts c)) c msg attrs). split; [symmetry; exact E'|].
  pose proof (seg_tokens _ _ (line_seg c msg attrs Da)) as T. split; [exact T|].
  unfold lf_parse. rewrite T. apply parse_printed. apply fields_fv_ok. exact Da.
Qed.

(* every printed value decodes to the expected value: for the string-like kinds the exact bytes *)
Lemma printed_decodes c msg attrs : dom_attrs attrs = true ->
  Forall (fun kv => lf_decode (print_fval (snd kv)) = Some (snd kv)) (fields_of g c msg attrs).
Proof.
  intros D. eapply Forall_impl; [|apply fields_fv_ok; exact D].
  intros kv H. apply (lf_decode_printed isprint isprint_ascii). exact H.
Qed.

Theorem no_forgery c msg attrs out :
  e_mode c = ShLogfmt -> lf_domain c msg attrs = true ->
  encode isprint g c msg attrs = Some out ->
  exists line toks, out = line ++ [x0a] /\ lf_tokens line = Some toks
    /\ map fst toks = map fst (fields_of g c msg attrs)
    /\ length toks = length (fields_of g c msg attrs).
Proof.
  intros Hm D E. destruct (roundtrip c msg attrs out Hm D E) as (line & E1 & T & _).
  exists line, (map printed (fields_of g c msg attrs)). split; [exact E1|]. split; [exact T|].
  split; [rewrite map_map; reflexivity|apply map_length].
Qed.
End R.

(* ================= 8. one line: no control byte before the final line feed ================= *)
Lemma some_inj {X} (a b : X) : Some a = Some b -> a = b.
Proof. congruence. Qed.
Lemma clean_byte_clean b : clean_byte b = true -> clean b.
Proof. unfold clean_byte, clean. lia. Qed.
Lemma clean_text_Forall t : clean_text t = true -> Forall clean t.
Proof. apply forallb_Forall. apply clean_byte_clean. Qed.
Lemma isdm_clean c : isdm c -> clean c.
Proof. unfold isdm, clean. lia. Qed.
Lemma dec_clean z : Forall clean (dec_of_Z z).
Proof. destruct (dec_of_Z_dm z) as [H _]. eapply Forall_impl; [|exact H]. apply isdm_clean. Qed.
Lemma join_clean sep l : Forall clean sep -> Forall (fun x => Forall clean x) l -> Forall clean (join_with sep l).
Proof.
  intros Hs. induction 1 as [|x t Hx Ht IH]; [constructor|].
  destruct t as [|y t']; [exact Hx|].
  change (join_with sep (x :: y :: t')) with (x ++ sep ++ join_with sep (y :: t')).
  apply Forall_app. split; [exact Hx|]. apply Forall_app. split; [exact Hs|exact IH].
Qed.
Lemma bracket_clean l : Forall (fun x => Forall clean x) l -> Forall clean (bracket l).
Proof.
  intros H. unfold bracket. constructor; [lit|]. apply Forall_app. split.
  - apply join_clean; [constructor; [lit|constructor]|exact H].
  - constructor; [lit|constructor].
Qed.
Lemma bool_clean b : Forall clean (bool_text b).
Proof. destruct b; cbn [bool_text]; lits; constructor. Qed.

Section O.
Variable isprint : Z -> bool.
Hypothesis isprint_ascii : forall r, 0 <= r < 128 -> isprint r = (32 <=? r) && (r <? 127).
Variable g : registry.
Notation sv := (ser_value isprint ShLogfmt 0 0).
Notation mo := (members_of isprint ShLogfmt 0 0).

Lemma qclean s : Forall clean (quote_go isprint s).
Proof. apply (quote_clean isprint isprint_ascii). Qed.

Lemma ser_leaf_clean dk v : is_group v = false -> clean_leaf v = true -> Forall clean (sv dk v).
Proof.
  destruct v; cbn [is_group clean_leaf ser_value quoted json_wrap time_text]; intros G D; try discriminate;
    try apply qclean; try apply dec_clean; try apply bool_clean.
  - lits. constructor.
  - apply clean_text_Forall. exact D.
  - apply clean_text_Forall. exact D.
  - constructor; [lit|]. apply Forall_app. split; [apply clean_text_Forall; exact D|constructor; [lit|constructor]].
  - apply bracket_clean. apply Forall_map_intro. intros; apply qclean.
  - apply bracket_clean. apply Forall_map_intro. intros; apply bool_clean.
  - apply bracket_clean. apply Forall_map_intro. intros; apply dec_clean.
  - apply bracket_clean. apply Forall_map_intro. intros; apply dec_clean.
  - apply bracket_clean. apply Forall_map_intro. intros t Ht. apply clean_text_Forall. eapply forallb_in; eassumption.
  - apply bracket_clean. apply Forall_map_intro. intros; apply qclean.
  - apply bracket_clean. apply Forall_map_intro. intros t Ht.
    constructor; [lit|]. apply Forall_app. split; [apply clean_text_Forall; eapply forallb_in; eassumption|constructor; [lit|constructor]].
Qed.

Definition tree_clean (v : value) : Prop :=
  forall dk, Forall clean dk -> clean_value v = true ->
    Forall clean (key_part ShLogfmt 0 0 (is_group v) dk ++ sv dk v).

Lemma members_clean pfx items :
  (forall k, clean_text k = true -> Forall clean (dotted pfx k)) ->
  Forall (fun a => match a with A _ x => tree_clean x | ANil => True end) items ->
  clean_attrs items = true ->
  Forall clean (concat (map (fun x => x20 :: x) (mo pfx items))).
Proof.
  intros Hk. induction 1 as [|a t Ha Ht IH]; intros D; [constructor|].
  destruct a as [k x|].
  - unfold clean_attrs in D. cbn [attrs_all] in D. apply andb_true_iff in D. destruct D as [D Dt].
    apply andb_true_iff in D. destruct D as [Dk Dx].
    cbn [members_of map concat]. constructor; [lit|]. apply Forall_app. split; [|apply IH; exact Dt].
    apply Ha; [apply Hk; exact Dk|exact Dx].
  - cbn [members_of]. apply IH. exact D.
Qed.

Lemma dotted_clean pfx k : Forall clean pfx -> Forall clean k -> Forall clean (dotted pfx k).
Proof.
  intros Hp Hk. destruct pfx as [|c p]; [exact Hk|]. unfold dotted.
  apply Forall_app. split; [exact Hp|]. constructor; [lit|exact Hk].
Qed.

Lemma tree_clean_all : forall v, tree_clean v.
Proof.
  apply value_tree_ind.
  - intros v G dk Hdk D. rewrite G. unfold clean_value in D. rewrite tree_all_leaf in D by exact G.
    cbn [key_part]. apply Forall_app. split; [|apply ser_leaf_clean; assumption].
    apply Forall_app. split; [exact Hdk|constructor; [lit|constructor]].
  - intros items H dk Hdk D. cbn [is_group key_part app]. rewrite ser_group.
    unfold clean_value in D. rewrite tree_all_group in D.
    apply members_clean; [|exact H|exact D].
    intros k Ck. apply dotted_clean; [exact Hdk|apply clean_text_Forall; exact Ck].
Qed.

Lemma attrs_clean items : clean_attrs items = true ->
  Forall clean (concat (map (fun x => x20 :: x) (mo [] items))).
Proof.
  intros D. apply members_clean; [| |exact D].
  - intros k Ck. cbn [dotted]. apply clean_text_Forall. exact Ck.
  - apply Forall_forall. intros a _. destruct a; [apply tree_clean_all|exact I].
Qed.

Lemma pair_clean k q : clean_text k = true -> Forall clean q -> Forall clean (x20 :: k ++ x3d :: q).
Proof.
  intros Hk Hq. constructor; [lit|]. apply Forall_app. split; [apply clean_text_Forall; exact Hk|].
  constructor; [lit|exact Hq].
Qed.

Lemma caller_clean cl : Forall clean (lf_caller isprint cl).
Proof.
  destruct cl as [[[file line] fn]|]; [|constructor]. unfold lf_caller.
  repeat (apply Forall_app; split); apply pair_clean; try reflexivity; try apply qclean; apply dec_clean.
Qed.

Lemma line_clean tsq c msg attrs : Forall clean tsq -> clean_attrs attrs = true ->
  Forall clean (lf_line isprint g tsq c msg attrs).
Proof.
  intros Hts D. unfold lf_line.
  repeat (apply Forall_app; split).
  - apply clean_text_Forall. reflexivity.
  - constructor; [lit|exact Hts].
  - destruct (e_name c) as [|n0 nm]; [constructor|]. apply pair_clean; [reflexivity|apply qclean].
  - apply pair_clean; [reflexivity|apply qclean].
  - apply pair_clean; [reflexivity|apply qclean].
  - apply attrs_clean. apply norm_attrs_all. exact D.
  - apply caller_clean.
Qed.

Theorem one_line c msg attrs out :
  e_mode c = ShLogfmt -> lf_clean_domain c attrs = true ->
  encode isprint g c msg attrs = Some out ->
  exists line, out = line ++ [x0a] /\ Forall clean line.
Proof.
  intros Hm D E. unfold lf_clean_domain in D. apply andb_true_iff in D. destruct D as [Dts Da].
  destruct (blank_print c msg) eqn:Hb.
  - rewrite (encode_blank isprint g c msg attrs Hm Hb) in E. apply some_inj in E. exists []. split; [symmetry; exact E|constructor].
  - rewrite (encode_lf_raw isprint g c msg attrs Hm Hb) in E. apply some_inj in E. eexists. split; [symmetry; exact E|].
    apply line_clean; [|exact Da].
    constructor; [lit|]. apply Forall_app. split; [apply clean_text_Forall; exact Dts|constructor; [lit|constructor]].
Qed.
End O.

(* the domain of the round trip lies inside the domain of the one-line claim *)
Lemma forallb_impl {X} (f f' : X -> bool) l : (forall x, f x = true -> f' x = true) -> forallb f l = true -> forallb f' l = true.
Proof.
  intros H. induction l as [|x t IH]; [reflexivity|]. cbn [forallb]. rewrite !andb_true_iff. intros [H1 H2]. split; auto.
Qed.
Lemma key_byte_clean b : key_byte_ok b = true -> clean_byte b = true.
Proof. unfold key_byte_ok, clean_byte. lia. Qed.
Lemma qtext_byte_clean b : qtext_byte_ok b = true -> clean_byte b = true.
Proof. unfold qtext_byte_ok, clean_byte. lia. Qed.
Lemma bare_byte_clean b : bare_byte_ok b = true -> clean_byte b = true.
Proof. unfold bare_byte_ok, clean_byte. lia. Qed.
Lemma elem_byte_clean b : elem_byte_ok b = true -> clean_byte b = true.
Proof. unfold elem_byte_ok. rewrite !andb_true_iff. intros [[[H _] _] _]. apply bare_byte_clean. exact H. Qed.
Lemma legal_key_clean k : legal_key k = true -> clean_text k = true.
Proof.
  destruct k as [|c k']; [discriminate|]. intros H. apply andb_true_iff in H. destruct H as [H _].
  revert H. apply forallb_impl. apply key_byte_clean.
Qed.
Lemma qtext_clean t : qtext_ok t = true -> clean_text t = true.
Proof. apply forallb_impl. apply qtext_byte_clean. Qed.
Lemma bare_clean t : bare_ok t = true -> clean_text t = true.
Proof. unfold bare_ok. rewrite andb_true_iff. intros [H _]. revert H. apply forallb_impl. apply bare_byte_clean. Qed.
Lemma elem_clean t : elem_ok t = true -> clean_text t = true.
Proof. destruct t as [|c t']; [discriminate|]. apply forallb_impl. apply elem_byte_clean. Qed.

Lemma dom_leaf_clean v : is_group v = false -> dom_leaf v = true -> clean_leaf v = true.
Proof.
  destruct v; cbn [dom_leaf clean_leaf]; intros G D; try reflexivity.
  - apply bare_clean; exact D.
  - apply bare_clean; exact D.
  - apply qtext_clean; exact D.
  - revert D. apply forallb_impl. apply elem_clean.
  - revert D. apply forallb_impl. apply qtext_clean.
Qed.

Lemma domain_clean c msg attrs : lf_domain c msg attrs = true -> lf_clean_domain c attrs = true.
Proof.
  unfold lf_domain, lf_clean_domain. rewrite !andb_true_iff. intros [[_ Hts] Da]. split.
  - apply qtext_clean. exact Hts.
  - revert Da. apply attrs_all_mono; [apply legal_key_clean|apply dom_leaf_clean].
Qed.

(* ================= 9. key order at every nesting level ================= *)
Fixpoint levels_strict (v : value) {struct v} : Prop :=
  match v with
  | VGroup items =>
      strictly items /\
      (fix go (l : list attr) : Prop :=
         match l with
         | [] => True
         | ANil :: t => go t
         | A _ x :: t => levels_strict x /\ go t
         end) items
  | _ => True
  end.
(* the keys of this level are strictly ascending (so each occurs once), and so it is inside every group *)
Definition attrs_strict (l : list attr) : Prop :=
  strictly l /\ Forall (fun a => match a with A _ x => levels_strict x | ANil => True end) l.

Lemma levels_strict_group items : levels_strict (VGroup items) <-> attrs_strict items.
Proof.
  unfold attrs_strict. cbn [levels_strict]. apply and_iff_compat_l.
  induction items as [|a t IH]; [split; [constructor|exact (fun _ => I)]|].
  destruct a as [k x|].
  - rewrite IH. split; [intros [H1 H2]; constructor; assumption|intros H; inversion H; subst; split; assumption].
  - rewrite IH. split; [intros H; constructor; [exact I|exact H]|intros H; inversion H; subst; assumption].
Qed.

Lemma norm_value_strict : forall v, levels_strict (norm_value v).
Proof.
  apply value_tree_ind.
  - intros v G. rewrite norm_leaf by exact G. destruct v; try exact I. discriminate.
  - intros items IH. rewrite norm_group. apply levels_strict_group. split; [apply sort_dedupe_strict|].
    apply Forall_sort_dedupe. apply Forall_map_intro. intros a Ha. rewrite Forall_forall in IH. specialize (IH a Ha).
    destruct a as [k x|]; [exact IH|exact I].
Qed.

Lemma norm_attrs_strict l : attrs_strict (norm_attrs l).
Proof.
  unfold norm_attrs. split; [apply sort_dedupe_strict|].
  apply Forall_sort_dedupe. apply Forall_map_intro. intros a _. destruct a as [k x|]; [apply norm_value_strict|exact I].
Qed.

Lemma in_norm_attr k attrs : (exists v, In (A k v) attrs) <-> (exists v, In (A k v) (map norm_attr attrs)).
Proof.
  split; intros [v H].
  - exists (norm_value v). apply in_map_iff. exists (A k v). split; [reflexivity|exact H].
  - apply in_map_iff in H. destruct H as [a [E H]]. destruct a as [k' v'|]; [|discriminate].
    cbn [norm_attr] in E. inversion E; subst. exists v'. exact H.
Qed.

(* one level: the members of ANY group (and the top level) after normalisation *)
Theorem level_order items :
  strictly (sort_dedupe (map norm_attr items))
  /\ NoDup (map akey (sort_dedupe (map norm_attr items)))
  /\ (forall k, last_value k (sort_dedupe (map norm_attr items)) = last_value k (map norm_attr items))
  /\ (forall k, (exists v, In (A k v) items) <-> (exists v, In (A k v) (sort_dedupe (map norm_attr items)))).
Proof.
  split; [apply sort_dedupe_strict|]. split; [apply strictly_nodup, sort_dedupe_strict|].
  split; [intros k; apply last_wins|]. intros k. rewrite in_norm_attr. apply keys_preserved.
Qed.

Theorem keys_order attrs :
  attrs_strict (norm_attrs attrs)
  /\ norm_attrs attrs = sort_dedupe (map norm_attr attrs)
  /\ (forall items, norm_value (VGroup items) = VGroup (sort_dedupe (map norm_attr items))).
Proof. split; [apply norm_attrs_strict|]. split; [reflexivity|]. exact norm_group. Qed.
