(* C19: the concrete model of PrintCtx's buffer API refines the specification of
   bytes.Buffer's contract, for every operation list; invariant off <= len <= cap. *)
Require Import Verif.Model.Base Verif.Model.Utf8 Verif.Model.Buffer Verif.Proofs.Utf8P.
Require Import Lia ZifyBool ZifyNat ZifyN.

(* ------------------------------------------------------------ list lemmas *)
Lemma zlen_nonneg {A} (l : list A) : 0 <= zlen l.
Proof. unfold zlen. lia. Qed.

Lemma zlen_nil {A} : zlen (@nil A) = 0.
Proof. reflexivity. Qed.

Lemma zlen_cons {A} (x : A) l : zlen (x :: l) = 1 + zlen l.
Proof. unfold zlen. cbn [length]. lia. Qed.

Lemma zlen_app {A} (a b : list A) : zlen (a ++ b) = zlen a + zlen b.
Proof. unfold zlen. rewrite app_length. lia. Qed.

Lemma zlen_zero {A} (l : list A) : zlen l = 0 -> l = [].
Proof. destruct l; [reflexivity|]. rewrite zlen_cons. pose proof (zlen_nonneg l). lia. Qed.

Lemma zskip_0 {A} (l : list A) : zskip 0 l = l.
Proof. reflexivity. Qed.

Lemma zskip_nil {A} n : zskip n (@nil A) = [].
Proof. unfold zskip. apply skipn_nil. Qed.

Lemma zskip_all {A} n (l : list A) : zlen l <= n -> zskip n l = [].
Proof. unfold zskip, zlen. intros H. apply skipn_all2. lia. Qed.

Lemma zlen_zskip {A} n (l : list A) : 0 <= n <= zlen l -> zlen (zskip n l) = zlen l - n.
Proof. unfold zskip, zlen. intros H. rewrite skipn_length. lia. Qed.

Lemma zskip_app_l {A} n (a b : list A) : 0 <= n <= zlen a -> zskip n (a ++ b) = zskip n a ++ b.
Proof.
  unfold zskip, zlen. intros H. rewrite skipn_app.
  replace (Z.to_nat n - length a)%nat with 0%nat by lia. reflexivity.
Qed.

Lemma zskip_zskip {A} n k (l : list A) : 0 <= n -> 0 <= k -> zskip k (zskip n l) = zskip (n + k) l.
Proof.
  unfold zskip. intros Hn Hk.
  replace (Z.to_nat (n + k)) with (Z.to_nat n + Z.to_nat k)%nat by lia.
  revert l. induction (Z.to_nat n) as [|m IH]; intros l; [reflexivity|].
  destruct l as [|x l]; [cbn [skipn plus]; now rewrite skipn_nil|]. cbn [skipn plus]. apply IH.
Qed.

Lemma ztake_all {A} n (l : list A) : zlen l <= n -> ztake n l = l.
Proof. unfold ztake, zlen. intros H. apply firstn_all2. lia. Qed.

Lemma ztake_nonpos {A} n (l : list A) : n <= 0 -> ztake n l = [].
Proof. unfold ztake. intros H. replace (Z.to_nat n) with 0%nat by lia. reflexivity. Qed.

Lemma zlen_ztake {A} n (l : list A) : 0 <= n <= zlen l -> zlen (ztake n l) = n.
Proof. unfold ztake, zlen. intros H. rewrite firstn_length. lia. Qed.

Lemma ztake_zskip_split {A} k (l : list A) : ztake k l ++ zskip k l = l.
Proof. unfold ztake, zskip. apply firstn_skipn. Qed.

(* s.buf[:off+k][off:] = s.buf[off:][:k] *)
Lemma zskip_ztake {A} n k (l : list A) : 0 <= n -> 0 <= k ->
  zskip n (ztake (n + k) l) = ztake k (zskip n l).
Proof.
  unfold zskip, ztake. intros Hn Hk.
  replace (Z.to_nat (n + k)) with (Z.to_nat n + Z.to_nat k)%nat by lia.
  revert l. induction (Z.to_nat n) as [|m IH]; intros l; [reflexivity|].
  destruct l as [|x l]; [cbn [firstn skipn plus]; now rewrite firstn_nil|].
  cbn [plus firstn skipn]. apply IH.
Qed.

Lemma nth_error_zskip {A} n i (l : list A) : 0 <= n ->
  nth_error (zskip n l) i = nth_error l (Z.to_nat n + i).
Proof.
  unfold zskip. intros _. revert l. induction (Z.to_nat n) as [|m IH]; intros l; [reflexivity|].
  destruct l as [|x l]; [now destruct i|]. cbn [skipn plus nth_error]. apply IH.
Qed.

Lemma zskip_cons_nth {A} n (l : list A) x t : 0 <= n -> zskip n l = x :: t ->
  nth_error l (Z.to_nat n) = Some x /\ zskip (n + 1) l = t.
Proof.
  intros Hn H. split.
  - pose proof (nth_error_zskip n 0 l Hn) as E. rewrite H in E. cbn [nth_error] in E.
    rewrite Nat.add_0_r in E. symmetry. exact E.
  - rewrite <- (zskip_zskip n 1 l) by lia. rewrite H. reflexivity.
Qed.

(* the k bytes just before position n+k *)
Lemma zskip_back {A} n k (l : list A) : 0 <= n -> 0 <= k -> n + k <= zlen l ->
  zskip n l = ztake k (zskip n l) ++ zskip (n + k) l.
Proof.
  intros Hn Hk _. rewrite <- (zskip_zskip n k l) by lia. symmetry. apply ztake_zskip_split.
Qed.

Lemma index_byte_range d l : -1 <= index_byte d l < zlen l.
Proof.
  induction l as [|x t IH]; [cbn; lia|].
  cbn [index_byte]. rewrite zlen_cons. pose proof (zlen_nonneg t).
  destruct (byte_eqb x d); [lia|]. destruct (index_byte d t <? 0) eqn:E; lia.
Qed.

(* ------------------------------------------------------------ the invariant *)
Lemma invb_inv s : invb s = true -> inv s.
Proof.
  unfold invb, inv. intros H.
  apply andb_prop in H. destruct H as [H H4].
  apply andb_prop in H. destruct H as [H H3].
  apply andb_prop in H. destruct H as [H1 H2].
  split; [lia|]. split; [lia|]. intros En. rewrite En in H4. cbn [negb orb] in H4.
  split; [apply zlen_zero; unfold blen in *; lia|lia].
Qed.

Lemma inv_contents_len s : inv s -> zlen (contents s) = clen s.
Proof. intros (Ho & _). unfold contents, clen, blen in *. rewrite zlen_zskip; lia. Qed.

Lemma inv_creset s : inv s -> inv (creset s).
Proof.
  unfold inv, creset, blen, zlen. cbn [data off cap isnil length]. intros (Ho & Hc & Hn).
  split; [lia|]. split; [lia|]. intros En. destruct (Hn En) as [_ Hcp]. split; [reflexivity|exact Hcp].
Qed.

Lemma contents_creset s : contents (creset s) = [].
Proof. reflexivity. Qed.

Lemma half_le c : 0 <= c -> c / 2 <= c.
Proof. intros H. apply Z.div_le_upper_bound; lia. Qed.

Section Refinement.
Variable rup : Z -> Z.
Variable maxalloc : Z.
Hypothesis rup_ge : forall c, c <= rup c.

Notation grow := (grow rup maxalloc).
Notation ensure := (ensure rup maxalloc).
Notation cstep := (cstep rup maxalloc).

(* ------------------------------------------------------------ grow *)
Lemma grow_ok s n s' : inv s -> 0 <= n -> grow s n = GOk s' ->
  inv s' /\ n <= cap s' - blen s' /\ contents s' = contents s /\
  ( (clen s = 0 /\ off s <> 0 /\ off s' = 0 /\ data s' = [] /\ last_read s' = 0)
  \/ (~ (clen s = 0 /\ off s <> 0) /\ n <= cap s - blen s /\ s' = s)
  \/ (~ (clen s = 0 /\ off s <> 0) /\ ~ n <= cap s - blen s /\ off s' = 0 /\ data s' = contents s
      /\ last_read s' = last_read s) ).
Proof.
  intros Hinv Hn. unfold Buffer.grow.
  set (s1 := if (clen s =? 0) && negb (off s =? 0) then creset s else s).
  assert (H1 : inv s1 /\ contents s1 = contents s /\ clen s1 = clen s /\
          ((clen s = 0 /\ off s <> 0 /\ s1 = creset s) \/ (~ (clen s = 0 /\ off s <> 0) /\ s1 = s))).
  { subst s1. destruct ((clen s =? 0) && negb (off s =? 0)) eqn:E.
    - split; [apply inv_creset; exact Hinv|]. split.
      + rewrite contents_creset. symmetry. unfold contents. apply zskip_all. unfold clen, blen in *. lia.
      + split; [change (clen (creset s)) with 0; lia|]. left. repeat split; try lia.
    - split; [exact Hinv|]. split; [reflexivity|]. split; [reflexivity|]. right. split; [lia|reflexivity]. }
  destruct H1 as (Hinv1 & Hc1 & Hm1 & Hcase).
  assert (Hcl : zlen (contents s1) = clen s1) by (apply inv_contents_len; exact Hinv1).
  destruct (n <=? cap s1 - blen s1) eqn:E1.
  { (* reslice *)
    intros H; inversion H; subst s'. split; [exact Hinv1|]. split; [lia|]. split; [exact Hc1|].
    destruct Hcase as [(Ha & Hb & Hs)|(Ha & Hs)].
    - left. rewrite Hs. cbn [creset off data last_read]. repeat split; auto.
    - right; left. rewrite Hs in *. repeat split; auto; lia. }
  assert (Hnot : forall P : Prop, ~ (clen s = 0 /\ off s <> 0) -> s1 = s -> ~ n <= cap s - blen s).
  { intros _ _ Hs. rewrite Hs in E1. lia. }
  destruct (isnil s1 && (n <=? smallBufferSize)) eqn:E2.
  { (* make([]byte, n, smallBufferSize) *)
    apply andb_prop in E2. destruct E2 as [En Es].
    destruct Hinv1 as (Ho1 & Hcap1 & Hnil1). destruct (Hnil1 En) as [Hd Hcp].
    intros H; inversion H; subst s'. unfold blen; cbn [data off cap isnil last_read]; change (@zlen byte []) with 0.
    unfold smallBufferSize in *.
    assert (Hce : contents s1 = []) by (unfold contents; rewrite Hd; apply zskip_nil).
    split; [unfold inv, blen; cbn [data off cap isnil]; change (@zlen byte []) with 0; repeat split; try lia; discriminate|].
    split; [lia|]. split; [unfold contents at 1; cbn [data off]; rewrite zskip_nil; rewrite <- Hc1; symmetry; exact Hce|].
    destruct Hcase as [(Ha & Hb & Hs)|(Ha & Hs)].
    - left. rewrite Hs. cbn [creset last_read]. repeat split; auto.
    - right; right. split; [exact Ha|]. split; [apply (Hnot True Ha Hs)|].
      rewrite <- Hc1, Hce, Hs. repeat split; auto. }
  (* slide or allocate *)
  set (moved := if n <=? cap s1 / 2 - clen s then GOk (mkpc (contents s1) 0 (cap s1) (isnil s1) (last_read s1))
                else if cap s1 >? maxInt - cap s1 - n then GPanic PTooLarge
                else if grow_slice_cap (clen s) (cap s1 - off s1) (off s1 + n) >? maxalloc then GPanic PTooLarge
                else GOk (mkpc (contents s1) 0 (rup (grow_slice_cap (clen s) (cap s1 - off s1) (off s1 + n))) false (last_read s1))).
  assert (Hmoved : forall s2, moved = GOk s2 ->
     data s2 = contents s1 /\ off s2 = 0 /\ last_read s2 = last_read s1 /\
     (isnil s2 = true -> data s2 = [] /\ cap s2 = 0)).
  { subst moved. intros s2. destruct Hinv1 as (_ & _ & Hnil1).
    destruct (n <=? cap s1 / 2 - clen s); [|destruct (cap s1 >? maxInt - cap s1 - n); [discriminate|
      destruct (grow_slice_cap (clen s) (cap s1 - off s1) (off s1 + n) >? maxalloc); [discriminate|]]];
    intros H; inversion H; subst s2; cbn [data off cap isnil last_read];
    (split; [reflexivity|]; split; [reflexivity|]; split; [reflexivity|]); intros En; try discriminate.
    destruct (Hnil1 En) as [Hd Hcp]. split; [unfold contents; rewrite Hd; apply zskip_nil|exact Hcp]. }
  destruct moved as [s2|p] eqn:Em; [|discriminate].
  destruct (Hmoved s2 eq_refl) as (Hd2 & Ho2 & Hl2 & Hnil2).
  destruct (clen s + n <=? cap s2) eqn:E3; [|discriminate].
  intros H; inversion H; subst s'.
  assert (Hb2 : blen s2 = clen s) by (unfold blen; rewrite Hd2, Hcl; exact Hm1).
  assert (Hclen : 0 <= clen s) by (destruct Hinv as (? & _); unfold clen; lia).
  split; [unfold inv; rewrite Ho2, Hb2; repeat split; try lia; apply Hnil2; assumption|].
  split; [lia|].
  split; [unfold contents at 1; rewrite Ho2, Hd2, zskip_0; exact Hc1|].
  destruct Hcase as [(Ha & Hb & Hs)|(Ha & Hs)].
  - left. repeat split; auto. + rewrite Hd2, Hs. reflexivity. + rewrite Hl2, Hs. reflexivity.
  - right; right. split; [exact Ha|]. split; [apply (Hnot True Ha Hs)|]. rewrite Hd2, Hl2, Hs. auto.
Qed.

(* the only panic of grow is ErrTooLarge: s.buf[:m+n] is always in range *)
Lemma grow_panic s n p : inv s -> 0 <= n -> grow s n = GPanic p -> p = PTooLarge.
Proof.
  intros Hinv Hn. unfold Buffer.grow.
  set (s1 := if (clen s =? 0) && negb (off s =? 0) then creset s else s).
  assert (H1 : inv s1 /\ clen s1 = clen s).
  { subst s1. destruct ((clen s =? 0) && negb (off s =? 0)) eqn:E.
    - split; [apply inv_creset; exact Hinv|]. change (clen (creset s)) with 0. lia.
    - split; [exact Hinv|reflexivity]. }
  destruct H1 as ((Ho1 & Hcap1 & Hnil1) & Hm1).
  destruct (n <=? cap s1 - blen s1); [discriminate|].
  destruct (isnil s1 && (n <=? smallBufferSize)); [discriminate|].
  destruct (n <=? cap s1 / 2 - clen s) eqn:E1.
  { cbn [cap]. pose proof (half_le (cap s1)) as Hh.
    assert (Hc : 0 <= cap s1) by lia.
    destruct (clen s + n <=? cap s1) eqn:E2; [discriminate|]. specialize (Hh Hc). lia. }
  destruct (cap s1 >? maxInt - cap s1 - n); [intros H; inversion H; reflexivity|].
  destruct (grow_slice_cap (clen s) (cap s1 - off s1) (off s1 + n) >? maxalloc); [intros H; inversion H; reflexivity|].
  cbn [cap].
  destruct (clen s + n <=? rup (grow_slice_cap (clen s) (cap s1 - off s1) (off s1 + n))) eqn:E2; [discriminate|].
  pose proof (rup_ge (grow_slice_cap (clen s) (cap s1 - off s1) (off s1 + n))) as Hr.
  unfold grow_slice_cap in *.
  destruct (clen s + (off s1 + n) <? 2 * (cap s1 - off s1)) eqn:E3; unfold clen in *; lia.
Qed.

(* ... and it is raised only by the code's overflow guard or by the allocator limit *)
Lemma grow_toolarge s n p : inv s -> 0 <= n -> grow s n = GPanic p ->
  p = PTooLarge /\ (2 * cap s + n > maxInt \/ blen s + n > maxalloc \/ 2 * cap s > maxalloc).
Proof.
  intros Hinv Hn H. pose proof (grow_panic s n p Hinv Hn H) as Hp. subst p.
  split; [reflexivity|]. revert H. unfold Buffer.grow.
  set (s1 := if (clen s =? 0) && negb (off s =? 0) then creset s else s).
  assert (H1 : inv s1 /\ clen s1 = clen s /\ cap s1 = cap s /\ clen s + off s1 <= blen s).
  { subst s1. assert (Hinv' := Hinv). destruct Hinv' as (Ho & Hc & Hnil).
    destruct ((clen s =? 0) && negb (off s =? 0)) eqn:E.
    - split; [apply inv_creset; exact Hinv|]. change (clen (creset s)) with 0.
      change (cap (creset s)) with (cap s). change (off (creset s)) with 0. unfold clen in *. lia.
    - split; [exact Hinv|]. unfold clen. lia. }
  destruct H1 as ((Ho1 & Hcap1 & Hnil1) & Hm1 & Hc1 & Hb1).
  destruct (n <=? cap s1 - blen s1); [discriminate|].
  destruct (isnil s1 && (n <=? smallBufferSize)); [discriminate|].
  destruct (n <=? cap s1 / 2 - clen s) eqn:E1.
  { cbn [cap]. destruct (clen s + n <=? cap s1); discriminate. }
  destruct (cap s1 >? maxInt - cap s1 - n) eqn:E2; [intros _; left; lia|].
  destruct (grow_slice_cap (clen s) (cap s1 - off s1) (off s1 + n) >? maxalloc) eqn:E3.
  { intros _. right. unfold grow_slice_cap in E3.
    destruct (clen s + (off s1 + n) <? 2 * (cap s1 - off s1)) eqn:E4; lia. }
  cbn [cap]. destruct (clen s + n <=? rup (grow_slice_cap (clen s) (cap s1 - off s1) (off s1 + n))); discriminate.
Qed.

Lemma ensure_ok s n s' : inv s -> 0 <= n -> ensure s n = GOk s' ->
  inv s' /\ n <= cap s' - blen s' /\ contents s' = contents s /\
  (last_read s = 0 -> last_read s' = 0) /\ (n <= cap s - blen s -> s' = s).
Proof.
  intros Hinv Hn. unfold Buffer.ensure. destruct (n <=? cap s - blen s) eqn:E.
  - intros H; inversion H; subst s'.
    split; [exact Hinv|]. split; [lia|]. split; [reflexivity|]. split; [auto|auto].
  - intros H. destruct (grow_ok s n s' Hinv Hn H) as (Hi & Hr & Hc & Hcase).
    split; [exact Hi|]. split; [exact Hr|]. split; [exact Hc|]. split; [|lia].
    intros Hl. destruct Hcase as [(_ & _ & _ & _ & Hz)|[(_ & _ & Hs)|(_ & _ & _ & _ & Hz)]].
    + exact Hz. + rewrite Hs. exact Hl. + rewrite Hz. exact Hl.
Qed.

Lemma ensure_panic s n p : inv s -> 0 <= n -> ensure s n = GPanic p -> p = PTooLarge.
Proof.
  intros Hinv Hn. unfold Buffer.ensure. destruct (n <=? cap s - blen s); [discriminate|].
  apply grow_panic; assumption.
Qed.

(* ------------------------------------------------------------ the simulation relation *)
Definition code (l : lastop) : Z := match l with LNone => 0 | LRead => -1 | LRune k _ => k end.

Definition byte_before (s : pc) : option byte :=
  if off s =? 0 then None else nth_error (data s) (Z.to_nat (off s - 1)).

Definition last_ok (s : pc) (l : lastop) : Prop :=
  match l with
  | LRune k enc => 1 <= k <= 4 /\
      ((enc = [] /\ off s < k) \/ (k <= off s /\ enc = ztake k (zskip (off s - k) (data s))))
  | _ => True
  end.

Definition Rel (s : pc) (a : spec) : Prop :=
  unread a = contents s /\
  last_read s = code (last a) /\
  last_ok s (last a) /\
  ((last a <> LNone \/ unread a = []) -> prev a = byte_before s).

Lemma Rel_reset s : Rel (creset s) s_reset.
Proof. unfold Rel, creset, s_reset. cbn. repeat split; auto. Qed.

(* lastRead = opInvalid and nothing else *)
Lemma Rel_quiet s a : Rel s a -> Rel (set_last s opInvalid) (mkspec (unread a) (prev a) LNone).
Proof.
  intros (Hu & Hl & Hk & Hp). unfold Rel, set_last. cbn [unread prev last last_read code last_ok].
  split; [exact Hu|]. split; [reflexivity|]. split; [exact I|].
  intros [Hx|Hx]; [congruence|]. apply Hp. right. exact Hx.
Qed.

Lemma inv_set_last s v : inv s -> inv (set_last s v).
Proof. intros H. exact H. Qed.

Lemma inv_off s o v : inv s -> 0 <= o <= blen s -> inv (mkpc (data s) o (cap s) (isnil s) v).
Proof.
  intros (Ho & Hc & Hn) Hr. unfold inv, blen in *. cbn [data off cap isnil].
  split; [exact Hr|]. split; [exact Hc|exact Hn].
Qed.

(* k unread bytes are consumed *)
Lemma Rel_take s a k v l : inv s -> Rel s a -> 0 <= k <= clen s -> code l = v ->
  last_ok (advance s k v) l -> (k = 0 -> l <> LNone -> unread a = []) ->
  inv (advance s k v) /\ Rel (advance s k v) (s_take a k l).
Proof.
  intros (Ho & Hc & Hn) (Hu & Hl & Hk & Hp) Hkr Hcode Hok Hz. split.
  { apply (inv_off s (off s + k) v); [split; [exact Ho|split; [exact Hc|exact Hn]]|unfold clen in *; lia]. }
  unfold Rel, s_take. cbn [unread prev last].
  split. { rewrite Hu. unfold contents, advance. cbn [data off]. apply zskip_zskip; lia. }
  split. { unfold advance. cbn [last_read]. symmetry. exact Hcode. }
  split. { exact Hok. }
  intros Hact. destruct (k <=? 0) eqn:Ek.
  - assert (k = 0) by lia. subst k.
    assert (Hb : byte_before (advance s 0 v) = byte_before s).
    { unfold byte_before, advance. cbn [data off]. replace (off s + 0) with (off s) by lia. reflexivity. }
    rewrite Hb. apply Hp. right.
    destruct Hact as [Hx|Hx]; [apply Hz; [reflexivity|exact Hx]|].
    rewrite zskip_0 in Hx. exact Hx.
  - unfold byte_before, advance. cbn [data off]. replace (off s + k =? 0) with false by lia.
    rewrite Hu. unfold contents. rewrite nth_error_zskip by lia. f_equal. lia.
Qed.

Lemma contents_nil_iff s : inv s -> (contents s = [] <-> clen s = 0).
Proof.
  intros Hinv. rewrite <- (inv_contents_len s Hinv). split; [intros H; rewrite H; reflexivity|apply zlen_zero].
Qed.

Lemma cempty_iff s : inv s -> (cempty s = true <-> contents s = []).
Proof.
  intros Hinv. rewrite (contents_nil_iff s Hinv). destruct Hinv as (Ho & _). unfold cempty, clen. lia.
Qed.

Lemma ztake_nil {A} n : ztake n (@nil A) = [].
Proof. unfold ztake. apply firstn_nil. Qed.

Lemma inv_cappend s p : inv s -> zlen p <= cap s - blen s -> inv (cappend s p).
Proof.
  intros (Ho & Hc & Hn) Hr. unfold inv, cappend, blen in *. cbn [data off cap isnil]. rewrite zlen_app.
  pose proof (zlen_nonneg p) as Hp.
  split; [lia|]. split; [lia|]. intros En. destruct (Hn En) as [Hd Hcp]. split; [|exact Hcp].
  rewrite Hd in *. change (@zlen byte []) with 0 in Hr. rewrite (zlen_zero p); [reflexivity|lia].
Qed.

Lemma contents_cappend s p : inv s -> contents (cappend s p) = contents s ++ p.
Proof.
  intros (Ho & _). unfold contents, cappend. cbn [data off]. apply zskip_app_l. exact Ho.
Qed.

(* Write / WriteString / WriteByte / WriteRune *)
Lemma put_refines s a need p r s' r' : inv s -> Rel s a -> 0 <= need -> zlen p <= need ->
  (p = [] -> need = 0) -> c_put rup maxalloc s need p r = (s', r') ->
  inv s' /\ (r' = Panicked PTooLarge \/ (r' = r /\ Rel s' (mkspec (unread a ++ p) (prev a) LNone))).
Proof.
  intros Hinv (Hu & Hl & Hk & Hp) Hneed Hlen Hnil. unfold c_put.
  destruct (ensure (set_last s opInvalid) need) as [s2|q] eqn:E; intros H; inversion H; subst s' r'; clear H.
  - destruct (ensure_ok _ _ _ (inv_set_last s opInvalid Hinv) Hneed E) as (Hi2 & Hr2 & Hc2 & Hl2 & Hsame).
    split; [apply inv_cappend; [exact Hi2|lia]|]. right. split; [reflexivity|].
    unfold Rel. cbn [unread prev last code last_ok].
    split. { rewrite (contents_cappend s2 p Hi2), Hc2, Hu. reflexivity. }
    split. { unfold cappend. cbn [last_read]. apply Hl2. reflexivity. }
    split; [exact I|]. intros [Hx|Hx]; [congruence|].
    apply app_eq_nil in Hx. destruct Hx as [Hx1 Hx2]. subst p. specialize (Hnil eq_refl). subst need.
    assert (Hs2 : s2 = set_last s opInvalid).
    { apply Hsame. destruct Hinv as (_ & Hc & _). unfold set_last, blen in *. cbn [cap data]. lia. }
    subst s2. unfold byte_before, cappend, set_last. cbn [data off]. rewrite app_nil_r.
    apply Hp. right. exact Hx1.
  - split; [apply inv_set_last; exact Hinv|]. left.
    rewrite (ensure_panic _ _ _ (inv_set_last s opInvalid Hinv) Hneed E). reflexivity.
Qed.

Lemma last_ok_rune s k v : inv s -> 1 <= k <= 4 ->
  last_ok (advance s k v) (LRune k (ztake k (contents s))).
Proof.
  intros (Ho & _) Hk. unfold last_ok, advance. cbn [data off]. split; [exact Hk|]. right.
  split; [lia|]. unfold contents. replace (off s + k - k) with (off s) by lia. reflexivity.
Qed.

Lemma nth_before {A} o (l : list A) : 0 < o <= zlen l ->
  exists b, nth_error l (Z.to_nat (o - 1)) = Some b /\ zskip (o - 1) l = b :: zskip o l.
Proof.
  intros Ho. destruct (zskip (o - 1) l) as [|b t] eqn:E.
  - assert (Hl : zlen (zskip (o - 1) l) = zlen l - (o - 1)) by (apply zlen_zskip; lia).
    rewrite E in Hl. change (@zlen A []) with 0 in Hl. lia.
  - exists b. destruct (zskip_cons_nth (o - 1) l b t) as [Hn Ht]; [lia|exact E|].
    split; [exact Hn|]. replace (o - 1 + 1) with o in Ht by lia. rewrite Ht. reflexivity.
Qed.

(* ReadFrom's loop *)
Lemma readfrom_refines script : forall s u n s' r u' r', inv s -> last_read s = 0 -> contents s = u ->
  forallb resp_wfb script = true ->
  c_readfrom rup maxalloc s script n = (s', r) -> s_readfrom u script n = (u', r') ->
  inv s' /\ (r = Panicked PTooLarge \/
             (r = r' /\ contents s' = u' /\ last_read s' = 0 /\ (u' = [] -> off s' = 0))).
Proof.
  assert (Hmin : 0 <= MinRead) by (unfold MinRead; lia).
  assert (Hgrow : forall s s1, inv s -> last_read s = 0 -> grow s MinRead = GOk s1 ->
            inv s1 /\ MinRead <= cap s1 - blen s1 /\ contents s1 = contents s /\ last_read s1 = 0 /\
            (contents s1 = [] -> off s1 = 0)).
  { intros s s1 Hinv Hl E. destruct (grow_ok s MinRead s1 Hinv Hmin E) as (Hi & Hr & Hc & Hcase).
    split; [exact Hi|]. split; [exact Hr|]. split; [exact Hc|].
    destruct Hcase as [(_ & _ & Ho & _ & Hz)|[(Hna & _ & Hs)|(_ & _ & Ho & _ & Hz)]].
    - split; [exact Hz|]. intros _. exact Ho.
    - subst s1. split; [exact Hl|]. intros Hce. apply (contents_nil_iff s Hinv) in Hce.
      destruct (Z.eq_dec (off s) 0) as [Hz|Hz]; [exact Hz|]. exfalso. apply Hna. split; assumption.
    - split; [rewrite Hz; exact Hl|]. intros _. exact Ho. }
  induction script as [|x t IH]; intros s u n s' r u' r' Hinv Hl Hu Hwf; cbn [c_readfrom s_readfrom].
  - destruct (grow s MinRead) as [s1|q] eqn:E; intros H H'; injection H as <- <-; injection H' as <- <-.
    + destruct (Hgrow s s1 Hinv Hl E) as (Hi & Hr & Hc & Hl1 & Hz).
      split; [exact Hi|]. right. split; [reflexivity|]. split; [rewrite Hc; exact Hu|]. split; [exact Hl1|].
      intros Hx. apply Hz. rewrite Hc, Hu. exact Hx.
    + split; [exact Hinv|]. left. rewrite (grow_panic s MinRead q Hinv Hmin E). reflexivity.
  - cbn [forallb] in Hwf. apply andb_prop in Hwf. destruct Hwf as [Hwx Hwt].
    destruct (grow s MinRead) as [s1|q] eqn:E.
    2:{ intros H _; injection H as <- <-. split; [exact Hinv|]. left.
        rewrite (grow_panic s MinRead q Hinv Hmin E). reflexivity. }
    destruct (Hgrow s s1 Hinv Hl E) as (Hi & Hr & Hc & Hl1 & Hz).
    destruct x as [bs e|].
    2:{ intros H H'; injection H as <- <-; injection H' as <- <-.
        split; [exact Hi|]. right. split; [reflexivity|]. split; [rewrite Hc; exact Hu|]. split; [exact Hl1|].
        intros Hx. apply Hz. rewrite Hc, Hu. exact Hx. }
    cbn [resp_wfb] in Hwx.
    assert (Hgot : ztake (cap s1 - blen s1) bs = bs) by (apply ztake_all; lia).
    rewrite Hgot.
    assert (Hi2 : inv (cappend s1 bs)) by (apply inv_cappend; [exact Hi|lia]).
    assert (Hc2 : contents (cappend s1 bs) = u ++ bs) by (rewrite (contents_cappend s1 bs Hi), Hc, Hu; reflexivity).
    assert (Hz2 : u ++ bs = [] -> off (cappend s1 bs) = 0).
    { intros Hx. apply app_eq_nil in Hx. destruct Hx as [Hx _]. unfold cappend. cbn [off]. apply Hz. rewrite Hc, Hu. exact Hx. }
    destruct e.
    + intros H H'. apply (IH (cappend s1 bs) (u ++ bs) (n + zlen bs) s' r u' r'); auto.
    + intros H H'; injection H as <- <-; injection H' as <- <-.
      split; [exact Hi2|]. right. split; [reflexivity|]. split; [exact Hc2|]. split; [exact Hl1|exact Hz2].
    + intros H H'; injection H as <- <-; injection H' as <- <-.
      split; [exact Hi2|]. right. split; [reflexivity|]. split; [exact Hc2|]. split; [exact Hl1|exact Hz2].
Qed.

(* ------------------------------------------------------------ one step *)
Definition step_ok (s : pc) (a : spec) (o : op) (b : bool) : Prop :=
  forall s' r a' r', cstep s o = (s', r) -> sstep b a o = (a', r') ->
  inv s' /\ (r = Panicked PTooLarge \/ (r = r' /\ Rel s' a')).

Ltac open_step := intros s' r a' r'; unfold Buffer.cstep, sstep; cbv zeta.
Ltac close2 := let H := fresh in let H' := fresh in
  intros H H'; injection H as <- <-; injection H' as <- <-.

Lemma step_write s a b p : inv s -> Rel s a -> step_ok s a (OWrite p) b /\ step_ok s a (OWriteString p) b.
Proof.
  intros Hinv HR. split; open_step; intros H H'; injection H' as <- <-;
  apply (put_refines s a (zlen p) p _ s' r Hinv HR); auto using zlen_nonneg; try lia;
  intros ->; reflexivity.
Qed.

Lemma step_write_byte s a b c : inv s -> Rel s a -> step_ok s a (OWriteByte c) b.
Proof.
  intros Hinv HR. open_step. intros H H'; injection H' as <- <-.
  apply (put_refines s a 1 [c] _ s' r Hinv HR); auto; try lia.
  - rewrite zlen_cons. change (@zlen byte []) with 0. lia.
  - discriminate.
Qed.

Lemma step_write_rune s a b x : inv s -> Rel s a -> step_ok s a (OWriteRune x) b.
Proof.
  intros Hinv HR. open_step. destruct ((0 <=? x) && (x <? 128)) eqn:E.
  - rewrite (encode_ascii x E). intros H H'; injection H' as <- <-.
    apply (put_refines s a 1 [zb x] _ s' r Hinv HR); auto; try lia.
    + rewrite zlen_cons. change (@zlen byte []) with 0. lia.
    + discriminate.
  - intros H H'; injection H' as <- <-. pose proof (encode_len x) as Hl.
    apply (put_refines s a UTFMax (encode_rune x) _ s' r Hinv HR); auto; unfold UTFMax; try lia.
    + unfold zlen. lia.
    + intros Hx. rewrite Hx in Hl. cbn [length] in Hl. lia.
Qed.

Lemma Rel_unread_len s a : inv s -> Rel s a -> zlen (unread a) = clen s.
Proof. intros Hinv (Hu & _). rewrite Hu. apply inv_contents_len. exact Hinv. Qed.

Lemma clen_nonneg s : inv s -> 0 <= clen s.
Proof. intros (Ho & _). unfold clen. lia. Qed.

Lemma empty_cases s a : inv s -> Rel s a ->
  (cempty s = true /\ unread a = [] /\ contents s = []) \/
  (cempty s = false /\ exists c t, unread a = c :: t /\ contents s = c :: t).
Proof.
  intros Hinv (Hu & _). pose proof (cempty_iff s Hinv) as Hemp.
  destruct (contents s) as [|c t] eqn:Ec.
  - left. split; [apply Hemp; reflexivity|]. split; [exact Hu|reflexivity].
  - right. split.
    + destruct (cempty s); [|reflexivity]. destruct Hemp as [Hx _]. specialize (Hx eq_refl). discriminate.
    + exists c, t. split; [exact Hu|reflexivity].
Qed.

Lemma step_read s a b n0 : inv s -> Rel s a -> step_ok s a (ORead n0) b.
Proof.
  intros Hinv HR. open_step.
  pose proof (Rel_unread_len s a Hinv HR) as Hlen. pose proof (clen_nonneg s Hinv) as Hcl.
  change (cempty (set_last s opInvalid)) with (cempty s).
  change (clen (set_last s opInvalid)) with (clen s).
  change (contents (set_last s opInvalid)) with (contents s).
  destruct (empty_cases s a Hinv HR) as [(E & Eu & Ec)|(E & c & t & Eu & Ec)]; rewrite E, Eu.
  - close2. split; [apply inv_creset; exact Hinv|]. right. split; [reflexivity|]. apply Rel_reset.
  - rewrite <- Eu, Hlen. assert (Hu : unread a = contents s) by congruence. rewrite <- Hu. close2.
    set (k := Z.min (Z.max 0 n0) (clen s)).
    change (advance (set_last s opInvalid) k (if 0 <? k then opRead else opInvalid))
      with (advance s k (if 0 <? k then opRead else opInvalid)).
    destruct (Rel_take s a k (if 0 <? k then opRead else opInvalid) (if 0 <? k then LRead else LNone)) as [Hi HR'];
      auto; try (subst k; lia).
    + destruct (0 <? k); reflexivity.
    + destruct (0 <? k); exact I.
    + intros Hk0. rewrite Hk0. cbn. congruence.
Qed.

Lemma step_next s a b n0 : inv s -> Rel s a -> step_ok s a (ONext n0) b.
Proof.
  intros Hinv HR. open_step.
  pose proof (Rel_unread_len s a Hinv HR) as Hlen. pose proof (clen_nonneg s Hinv) as Hcl.
  change (clen (set_last s opInvalid)) with (clen s).
  change (contents (set_last s opInvalid)) with (contents s).
  rewrite Hlen. set (k := Z.min n0 (clen s)).
  destruct (k <? 0) eqn:E.
  - close2. split; [apply inv_set_last; exact Hinv|]. right. split; [reflexivity|]. apply Rel_quiet. exact HR.
  - assert (Hu : unread a = contents s) by (destruct HR as (Hu & _); exact Hu). rewrite <- Hu. close2.
    change (advance (set_last s opInvalid) k (if 0 <? k then opRead else opInvalid))
      with (advance s k (if 0 <? k then opRead else opInvalid)).
    destruct (Rel_take s a k (if 0 <? k then opRead else opInvalid) (if 0 <? k then LRead else LNone)) as [Hi HR'];
      auto; try (subst k; lia).
    + destruct (0 <? k); reflexivity.
    + destruct (0 <? k); exact I.
    + intros Hk0. rewrite Hk0. cbn. congruence.
Qed.

Lemma contents_cons_len s c t : inv s -> contents s = c :: t -> 1 <= clen s.
Proof.
  intros Hinv H. rewrite <- (inv_contents_len s Hinv), H, zlen_cons. pose proof (zlen_nonneg t). lia.
Qed.

Lemma step_read_byte s a b : inv s -> Rel s a -> step_ok s a OReadByte b.
Proof.
  intros Hinv HR. open_step.
  destruct (empty_cases s a Hinv HR) as [(E & Eu & Ec)|(E & c & t & Eu & Ec)]; rewrite E, Eu.
  - close2. split; [apply inv_creset; exact Hinv|]. right. split; [reflexivity|]. apply Rel_reset.
  - rewrite Ec. close2. pose proof (contents_cons_len s c t Hinv Ec) as Hc1.
    destruct (Rel_take s a 1 opRead LRead) as [Hi HR']; auto; try lia.
    exact I.
Qed.

Lemma step_read_rune s a b : inv s -> Rel s a -> step_ok s a OReadRune b.
Proof.
  intros Hinv HR. open_step.
  destruct (empty_cases s a Hinv HR) as [(E & Eu & Ec)|(E & c & t & Eu & Ec)]; rewrite E, Eu.
  - close2. split; [apply inv_creset; exact Hinv|]. right. split; [reflexivity|]. apply Rel_reset.
  - rewrite Ec.
    pose proof (contents_cons_len s c t Hinv Ec) as Hc1.
    assert (Hgen : forall x (w : nat), decode_rune (c :: t) = (x, w) ->
       inv (advance s (Z.of_nat w) (Z.of_nat w)) /\
       Rel (advance s (Z.of_nat w) (Z.of_nat w)) (s_take a (Z.of_nat w) (LRune (Z.of_nat w) (ztake (Z.of_nat w) (c :: t))))).
    { intros x w Hd. destruct (decode_width4 (c :: t) x w Hd) as [Hw1 Hw2]; [discriminate|].
      assert (Hwl : Z.of_nat w <= clen s).
      { rewrite <- (inv_contents_len s Hinv), Ec. unfold zlen. lia. }
      apply (Rel_take s a (Z.of_nat w) (Z.of_nat w)); auto; try lia.
      rewrite <- Ec. apply last_ok_rune; [exact Hinv|lia]. }
    destruct (bz c <? 128) eqn:Ea.
    + rewrite (decode_ascii c t Ea). close2. change (Z.of_nat 1) with 1.
      destruct (Hgen (bz c) 1%nat (decode_ascii c t Ea)) as [Hi HR']. change (Z.of_nat 1) with 1 in *.
      split; [exact Hi|]. right. split; [reflexivity|exact HR'].
    + destruct (decode_rune (c :: t)) as [x w] eqn:Ed. close2.
      destruct (Hgen x w eq_refl) as [Hi HR']. split; [exact Hi|]. right. split; [reflexivity|exact HR'].
Qed.

Lemma code_zero l s : last_ok s l -> (code l = 0 <-> l = LNone).
Proof.
  destruct l as [| |k enc]; cbn [code last_ok]; intros H; split; intros Hx; try congruence; try lia.
Qed.

Lemma step_unread_rune s a b : inv s -> Rel s a -> step_ok s a OUnreadRune b.
Proof.
  intros Hinv HR. open_step. destruct HR as (Hu & Hl & Hk & Hp). rewrite Hl.
  destruct (last a) as [| |k enc] eqn:El; cbn [code]; unfold opInvalid.
  - change (0 <=? 0) with true. cbv iota. close2. split; [exact Hinv|]. right. split; [reflexivity|].
    split; [exact Hu|]. rewrite El. split; [exact Hl|]. split; [exact Hk|exact Hp].
  - change (-1 <=? 0) with true. cbv iota.
    close2. split; [exact Hinv|]. right. split; [reflexivity|].
    split; [exact Hu|]. rewrite El. split; [exact Hl|]. split; [exact Hk|exact Hp].
  - cbn [last_ok] in Hk. destruct Hk as (Hk14 & Hcase).
    replace (k <=? 0) with false by lia. close2.
    assert (Hinv' := Hinv). destruct Hinv' as (Ho & Hc & Hn).
    destruct Hcase as [(He & Hlt)|(Hge & He)].
    + replace (off s >=? k) with false by lia.
      split; [apply inv_off; [exact Hinv|exact Ho]|]. right. split; [reflexivity|].
      unfold Rel. cbn [unread prev last code last_ok last_read]. subst enc. cbn [app].
      split; [exact Hu|]. split; [reflexivity|]. split; [exact I|].
      intros [Hx|Hx]; [congruence|]. unfold byte_before. cbn [data off]. apply Hp. right. exact Hx.
    + replace (off s >=? k) with true by lia.
      split; [apply inv_off; [exact Hinv|lia]|]. right. split; [reflexivity|].
      assert (Hsplit : zskip (off s - k) (data s) = enc ++ contents s).
      { rewrite He. unfold contents. replace (off s) with (off s - k + k) at 3 by lia.
        apply zskip_back; unfold blen in *; lia. }
      unfold Rel. cbn [unread prev last code last_ok last_read].
      split; [unfold contents; cbn [data off]; rewrite Hsplit, Hu; reflexivity|].
      split; [reflexivity|]. split; [exact I|].
      intros [Hx|Hx]; [congruence|]. exfalso. apply app_eq_nil in Hx. destruct Hx as [Hx _].
      assert (Hz : zlen enc = k).
      { rewrite He. unfold blen in *. apply zlen_ztake. rewrite zlen_zskip by lia. lia. }
      rewrite Hx in Hz. change (@zlen byte []) with 0 in Hz. lia.
Qed.

Lemma step_unread_byte s a b : inv s -> Rel s a -> step_ok s a OUnreadByte b.
Proof.
  intros Hinv HR. open_step. assert (HR' := HR). destruct HR' as (Hu & Hl & Hk & Hp).
  pose proof (code_zero (last a) s Hk) as Hz. unfold opInvalid.
  destruct (last_read s =? 0) eqn:E.
  - assert (Hn : last a = LNone) by (apply Hz; lia). rewrite Hn. close2.
    split; [exact Hinv|]. right. split; [reflexivity|exact HR].
  - assert (Hn : last a <> LNone) by (intros Hx; apply Hz in Hx; lia).
    assert (Hspec : forall x y, (match last a with LNone => x | _ => y end) = y :> (spec * result)).
    { intros x y. destruct (last a); [congruence|reflexivity|reflexivity]. }
    rewrite Hspec. close2. specialize (Hp (or_introl Hn)). rewrite Hp.
    assert (Hinv' := Hinv). destruct Hinv' as (Ho & Hc & Hnil).
    destruct (off s >? 0) eqn:Eo.
    + split; [apply inv_off; [exact Hinv|lia]|]. right. split; [reflexivity|].
      destruct (nth_before (off s) (data s)) as (x & Hx1 & Hx2); [unfold blen in *; lia|].
      unfold byte_before. replace (off s =? 0) with false by lia. rewrite Hx1.
      unfold Rel. cbn [unread prev last code last_ok last_read].
      split; [unfold contents; cbn [data off]; rewrite Hx2, Hu; reflexivity|].
      split; [reflexivity|]. split; [exact I|]. intros [Hy|Hy]; [congruence|discriminate].
    + split; [apply inv_off; [exact Hinv|lia]|]. right. split; [reflexivity|].
      assert (Hoz : off s = 0) by lia.
      unfold byte_before. replace (off s =? 0) with true by lia.
      unfold Rel. cbn [unread prev last code last_ok last_read].
      split; [exact Hu|]. split; [reflexivity|]. split; [exact I|].
      intros _. unfold byte_before. cbn [data off]. replace (off s =? 0) with true by lia. reflexivity.
Qed.

Lemma step_read_slice s a d s' r a' r' : inv s -> Rel s a ->
  c_read_slice s d = (s', r) ->
  (let i := index_byte d (unread a) in
   let k := if i <? 0 then zlen (unread a) else i + 1 in
   (s_take a k LRead, Res [] (ztake k (unread a)) (if i <? 0 then EEOF else ENil))) = (a', r') ->
  inv s' /\ (r = Panicked PTooLarge \/ (r = r' /\ Rel s' a')).
Proof.
  intros Hinv HR. unfold c_read_slice. cbv zeta.
  pose proof (Rel_unread_len s a Hinv HR) as Hlen. pose proof (clen_nonneg s Hinv) as Hcl.
  assert (Hu : unread a = contents s) by (destruct HR as (Hu & _); exact Hu).
  rewrite <- Hu, Hlen. pose proof (index_byte_range d (unread a)) as Hi. rewrite Hlen in Hi.
  set (i := index_byte d (unread a)) in *.
  set (k := if i <? 0 then clen s else i + 1).
  assert (Hfin : (if i <? 0 then blen s else off s + i + 1) = off s + k).
  { subst k. unfold clen. destruct (i <? 0); lia. }
  rewrite Hfin. replace (off s + k - off s) with k by lia. close2.
  change (mkpc (data s) (off s + k) (cap s) (isnil s) opRead) with (advance s k opRead).
  assert (Hk : 0 <= k <= clen s) by (subst k; destruct (i <? 0) eqn:E; lia).
  destruct (Rel_take s a k opRead LRead) as [Hi' HR']; auto.
  - exact I.
  - intros Hk0 _. apply zlen_zero. rewrite Hlen. subst k. destruct (i <? 0) eqn:E; lia.
Qed.

Lemma step_read_bytes s a b d : inv s -> Rel s a ->
  step_ok s a (OReadBytes d) b /\ step_ok s a (OReadString d) b.
Proof.
  intros Hinv HR. split; open_step; intros H H'; apply (step_read_slice s a d s' r a' r' Hinv HR H H').
Qed.

Lemma step_read_from s a b script : inv s -> Rel s a -> forallb resp_wfb script = true ->
  step_ok s a (OReadFrom script) b.
Proof.
  intros Hinv HR Hwf. open_step. intros H.
  destruct (s_readfrom (unread a) script 0) as [u' rr] eqn:Es. intros H'. injection H' as <- <-.
  assert (Hu : contents (set_last s opInvalid) = unread a) by (destruct HR as (Hu & _); symmetry; exact Hu).
  destruct (readfrom_refines script (set_last s opInvalid) (unread a) 0 s' r u' rr
              (inv_set_last s opInvalid Hinv) eq_refl Hu Hwf H Es) as [Hi [Ht|(Hr & Hc & Hl & Hz)]].
  - split; [exact Hi|]. left. exact Ht.
  - split; [exact Hi|]. right. split; [exact Hr|].
    unfold Rel. cbn [unread prev last code last_ok].
    split; [symmetry; exact Hc|]. split; [exact Hl|]. split; [exact I|].
    intros [Hx|Hx]; [congruence|]. unfold byte_before. rewrite (Hz Hx). reflexivity.
Qed.

Lemma step_write_to s a b m e : inv s -> Rel s a -> step_ok s a (OWriteTo m e) b.
Proof.
  intros Hinv HR. open_step.
  pose proof (Rel_unread_len s a Hinv HR) as Hlen. pose proof (clen_nonneg s Hinv) as Hcl.
  change (clen (set_last s opInvalid)) with (clen s).
  change (contents (set_last s opInvalid)) with (contents s).
  destruct (empty_cases s a Hinv HR) as [(E & Eu & Ec)|(E & c & t & Eu & Ec)].
  - rewrite Eu. assert (Hz : clen s = 0) by (rewrite <- Hlen, Eu; reflexivity).
    replace (0 <? clen s) with false by lia. close2.
    split; [apply inv_creset; apply inv_set_last; exact Hinv|]. right. split; [reflexivity|]. apply Rel_reset.
  - assert (Hpos : 1 <= clen s) by (apply (contents_cons_len s c t Hinv Ec)).
    replace (0 <? clen s) with true by lia. rewrite Eu. rewrite <- Eu. rewrite Hlen.
    assert (Hu : unread a = contents s) by congruence. rewrite <- Hu.
    destruct (m >? clen s) eqn:E1.
    { close2. split; [apply inv_set_last; exact Hinv|]. right. split; [reflexivity|]. apply Rel_quiet. exact HR. }
    destruct (m <? 0) eqn:E2.
    { close2. split; [apply inv_set_last; exact Hinv|]. right. split; [reflexivity|]. apply Rel_quiet. exact HR. }
    change (advance (set_last s opInvalid) m opInvalid) with (advance s m opInvalid).
    destruct (Rel_take s a m opInvalid LNone) as [Hi HR']; auto; try lia.
    { exact I. } { intros _ Hx. congruence. }
    destruct e.
    { close2. split; [exact Hi|]. right. split; [reflexivity|exact HR']. }
    destruct (negb (m =? clen s)).
    { close2. split; [exact Hi|]. right. split; [reflexivity|exact HR']. }
    close2. split; [apply inv_creset; exact Hi|]. right. split; [reflexivity|]. apply Rel_reset.
Qed.

Lemma step_truncate s a b n : inv s -> Rel s a -> step_ok s a (OTruncate n) b.
Proof.
  intros Hinv HR. open_step.
  pose proof (Rel_unread_len s a Hinv HR) as Hlen. pose proof (clen_nonneg s Hinv) as Hcl.
  change (clen (set_last s opInvalid)) with (clen s).
  destruct (n =? 0) eqn:E0.
  { close2. split; [apply inv_creset; exact Hinv|]. right. split; [reflexivity|]. apply Rel_reset. }
  rewrite Hlen. destruct ((n <? 0) || (n >? clen s)) eqn:E1.
  { close2. split; [apply inv_set_last; exact Hinv|]. right. split; [reflexivity|]. apply Rel_quiet. exact HR. }
  assert (Hinv' := Hinv). destruct Hinv' as (Ho & Hc & Hnil). cbn [set_last off cap data isnil].
  replace (off s + n <=? cap s) with true by (unfold clen in *; lia). close2.
  assert (Hl2 : zlen (ztake (off s + n) (data s)) = off s + n) by (apply zlen_ztake; unfold clen, blen in *; lia).
  split.
  { unfold inv, blen. cbn [data off cap isnil]. rewrite Hl2. unfold clen, blen in *.
    split; [lia|]. split; [lia|]. intros En. destruct (Hnil En) as [Hd Hcp]. rewrite Hd, ztake_nil. auto. }
  right. split; [reflexivity|]. destruct HR as (Hu & Hl & Hk & Hp).
  unfold Rel. cbn [unread prev last code last_ok last_read].
  split. { unfold contents. cbn [data off]. rewrite Hu. unfold contents. symmetry. apply zskip_ztake; lia. }
  split; [reflexivity|]. split; [exact I|]. intros [Hx|Hx]; [congruence|]. exfalso.
  assert (Hz : zlen (ztake n (unread a)) = n) by (apply zlen_ztake; lia).
  rewrite Hx in Hz. change (@zlen byte []) with 0 in Hz. lia.
Qed.

Lemma step_grow s a n : inv s -> Rel s a -> step_ok s a (OGrow n) (relocates s (OGrow n)).
Proof.
  intros Hinv HR. open_step. cbn [relocates].
  destruct (n <? 0) eqn:E0.
  { close2. split; [exact Hinv|]. right. split; [reflexivity|exact HR]. }
  assert (Hn : 0 <= n) by lia.
  destruct (grow s n) as [s2|q] eqn:Eg.
  2:{ intros H _. injection H as <- <-. split; [exact Hinv|]. left.
      rewrite (grow_panic s n q Hinv Hn Eg). reflexivity. }
  intros H. injection H as <- <-. intros Hspec.
  destruct (grow_ok s n s2 Hinv Hn Eg) as (Hi & Hr & Hc & Hcase). split; [exact Hi|]. right.
  assert (HR' := HR). destruct HR' as (Hu & Hl & Hk & Hp).
  assert (Hinv' := Hinv). destruct Hinv' as (Ho & Hcp & Hnil).
  destruct Hcase as [(Hz & Hoff & Ho2 & Hd2 & Hl2)|[(Hna & Hroom & Hs)|(Hna & Hroom & Ho2 & Hd2 & Hl2)]].
  - (* the empty buffer is reset *)
    assert (Hnil' : unread a = []) by (rewrite Hu; apply (contents_nil_iff s Hinv); exact Hz).
    assert (Hprev : exists x, prev a = Some x).
    { rewrite (Hp (or_intror Hnil')). unfold byte_before. replace (off s =? 0) with false by lia.
      destruct (nth_before (off s) (data s)) as (x & Hx & _); [unfold blen in *; lia|]. exists x. exact Hx. }
    destruct Hprev as (x & Hx). rewrite Hnil', Hx in Hspec. injection Hspec as <- <-. split; [reflexivity|].
    unfold Rel, s_reset. cbn [unread prev last code last_ok].
    split; [rewrite Hc, <- Hu; symmetry; exact Hnil'|]. split; [exact Hl2|]. split; [exact I|].
    intros _. unfold byte_before. rewrite Ho2. reflexivity.
  - (* resliced: nothing changes *)
    subst s2. replace (n <=? cap s - blen s) with true in Hspec by lia. cbn [negb] in Hspec.
    assert (Hnr : forall x y, (match unread a, prev a with [], Some _ => x | _, _ => y end) = y :> (spec * result)).
    { intros x y. destruct (unread a) as [|c t] eqn:Eu; [|reflexivity].
      assert (Hz : clen s = 0) by (apply (contents_nil_iff s Hinv); rewrite <- Hu; reflexivity).
      assert (Hoz : off s = 0) by (destruct (Z.eq_dec (off s) 0) as [?|Hne]; [assumption|exfalso; apply Hna; split; assumption]).
      rewrite (Hp (or_intror eq_refl)). unfold byte_before. replace (off s =? 0) with true by lia. reflexivity. }
    rewrite Hnr in Hspec. injection Hspec as <- <-. split; [reflexivity|exact HR].
  - (* moved to the front of the old or a new array *)
    replace (n <=? cap s - blen s) with false in Hspec by lia. cbn [negb] in Hspec.
    assert (Hnr : forall x y, (match unread a, prev a with [], Some _ => x | _, _ => y end) = y :> (spec * result)).
    { intros x y. destruct (unread a) as [|c t] eqn:Eu; [|reflexivity].
      assert (Hz : clen s = 0) by (apply (contents_nil_iff s Hinv); rewrite <- Hu; reflexivity).
      assert (Hoz : off s = 0) by (destruct (Z.eq_dec (off s) 0) as [?|Hne]; [assumption|exfalso; apply Hna; split; assumption]).
      rewrite (Hp (or_intror eq_refl)). unfold byte_before. replace (off s =? 0) with true by lia. reflexivity. }
    rewrite Hnr in Hspec. injection Hspec as <- <-. split; [reflexivity|].
    unfold Rel. cbn [unread prev last].
    split; [rewrite Hc; exact Hu|].
    split. { rewrite Hl2, Hl. destruct (last a); reflexivity. }
    split. { destruct (last a) as [| |k enc]; try exact I. cbn [last_ok] in *. destruct Hk as (Hk14 & _).
             split; [exact Hk14|]. left. split; [reflexivity|lia]. }
    intros _. unfold byte_before. rewrite Ho2. reflexivity.
Qed.

Lemma step_rest s a b : inv s -> Rel s a ->
  step_ok s a OReset b /\ step_ok s a OLen b /\ step_ok s a OBytes b /\ step_ok s a OString b.
Proof.
  intros Hinv HR. pose proof (Rel_unread_len s a Hinv HR) as Hlen.
  assert (Hu : unread a = contents s) by (destruct HR as (Hu & _); exact Hu).
  split; [|split; [|split]]; open_step; close2.
  - split; [apply inv_creset; exact Hinv|]. right. split; [reflexivity|]. apply Rel_reset.
  - split; [exact Hinv|]. right. split; [rewrite Hlen; reflexivity|exact HR].
  - split; [exact Hinv|]. right. split; [rewrite Hu; reflexivity|exact HR].
  - split; [exact Hinv|]. right. split; [rewrite Hu; reflexivity|exact HR].
Qed.

Theorem step_refines s a o b : inv s -> Rel s a -> op_wfb o = true -> compat s o b -> step_ok s a o b.
Proof.
  intros Hinv HR Hwf Hb. destruct o; cbn [compat] in Hb.
  - apply (step_write s a b p Hinv HR).
  - apply (step_write s a b p Hinv HR).
  - apply step_write_byte; assumption.
  - apply step_write_rune; assumption.
  - apply step_read; assumption.
  - apply step_read_byte; assumption.
  - apply step_read_rune; assumption.
  - apply step_unread_byte; assumption.
  - apply step_unread_rune; assumption.
  - apply step_next; assumption.
  - apply (step_read_bytes s a b delim Hinv HR).
  - apply (step_read_bytes s a b delim Hinv HR).
  - apply step_read_from; assumption.
  - apply step_write_to; assumption.
  - apply step_truncate; assumption.
  - subst b. apply step_grow; assumption.
  - apply (step_rest s a b Hinv HR).
  - apply (step_rest s a b Hinv HR).
  - apply (step_rest s a b Hinv HR).
  - apply (step_rest s a b Hinv HR).
Qed.

(* ------------------------------------------------------------ whole runs *)
Notation ctrace := (ctrace rup maxalloc).
Notation cbits := (cbits rup maxalloc).
Notation crun := (crun rup maxalloc).
Notation bits_ok := (bits_ok rup maxalloc).

Lemma trace_refines_gen ops : forall s a bits, inv s -> Rel s a -> forallb op_wfb ops = true ->
  bits_ok s ops bits -> trace_refines (ctrace s ops) (strace bits a ops).
Proof.
  induction ops as [|o t IH]; intros s a bits Hinv HR Hwf Hb.
  - left. reflexivity.
  - cbn [forallb] in Hwf. apply andb_prop in Hwf. destruct Hwf as [Hwo Hwt].
    destruct bits as [|b bt]; [destruct Hb|]. cbn [Buffer.bits_ok] in Hb. destruct Hb as [Hc Hb].
    cbn [Buffer.ctrace strace].
    destruct (cstep s o) as [s' r] eqn:Ec. destruct (sstep b a o) as [a' r'] eqn:Es.
    destruct (step_refines s a o b Hinv HR Hwo Hc s' r a' r' Ec Es) as [Hi [Ht|(Hr & HR')]].
    + right. subst r. cbn [halts]. exists [], (contents s'), (r', unread a'). eexists. split; reflexivity.
    + subst r'. assert (Hu : unread a' = contents s') by (destruct HR' as (Hu & _); exact Hu). rewrite Hu.
      destruct (halts r) eqn:Eh; [left; reflexivity|].
      destruct Hb as [Hb|Hb]; [congruence|].
      destruct (IH s' a' bt Hi HR' Hwt Hb) as [He|(pre & c & x & rest & H1 & H2)].
      * left. rewrite He. reflexivity.
      * right. exists ((r, contents s') :: pre), c, x, rest. rewrite H1, H2. split; reflexivity.
Qed.

Lemma cbits_ok ops : forall s, bits_ok s ops (cbits s ops).
Proof.
  induction ops as [|o t IH]; intros s; [exact I|].
  cbn [Buffer.cbits Buffer.bits_ok]. destruct (cstep s o) as [s' r] eqn:Ec. split.
  - destruct o; cbn [compat]; auto.
  - destruct (halts r); [left; reflexivity|right; apply IH].
Qed.

Lemma nogrow_bits_ok ops : forall s bits, forallb (fun o => negb (is_grow o)) ops = true ->
  (length ops <= length bits)%nat -> bits_ok s ops bits.
Proof.
  induction ops as [|o t IH]; intros s bits Hg Hl; [exact I|].
  cbn [forallb] in Hg. apply andb_prop in Hg. destruct Hg as [Hgo Hgt].
  destruct bits as [|b bt]; [cbn [length] in Hl; lia|]. cbn [length] in Hl.
  cbn [Buffer.bits_ok]. split.
  - destruct o; cbn [compat]; auto. discriminate.
  - destruct (cstep s o) as [s' r]. right. apply IH; [exact Hgt|lia].
Qed.

Lemma Rel_new b c nil : Rel (new_pc b c nil) (new_spec b).
Proof. unfold Rel, new_pc, new_spec. cbn. repeat split; auto. Qed.

Lemma inv_new b c nil : init_ok b c nil -> inv (new_pc b c nil).
Proof.
  intros (Hl & Hn). unfold inv, new_pc, blen. cbn [data off cap isnil]. pose proof (zlen_nonneg b).
  split; [lia|]. split; [lia|exact Hn].
Qed.

Theorem refines_all b c nil ops : init_ok b c nil -> forallb op_wfb ops = true ->
  let s0 := new_pc b c nil in
  trace_refines (ctrace s0 ops) (strace (cbits s0 ops) (new_spec b) ops).
Proof.
  intros Hi Hwf s0. apply trace_refines_gen; [apply inv_new; exact Hi|apply Rel_new|exact Hwf|apply cbits_ok].
Qed.

Theorem refines_bits b c nil ops bits : init_ok b c nil -> forallb op_wfb ops = true ->
  bits_ok (new_pc b c nil) ops bits ->
  trace_refines (ctrace (new_pc b c nil) ops) (strace bits (new_spec b) ops).
Proof.
  intros Hi Hwf Hb. apply trace_refines_gen; [apply inv_new; exact Hi|apply Rel_new|exact Hwf|exact Hb].
Qed.

(* without Grow the specification needs no bit: it is a function of the ops alone *)
Theorem refines_nogrow b c nil ops : init_ok b c nil -> forallb op_wfb ops = true ->
  forallb (fun o => negb (is_grow o)) ops = true ->
  trace_refines (ctrace (new_pc b c nil) ops) (strace (map (fun _ => false) ops) (new_spec b) ops).
Proof.
  intros Hi Hwf Hg. apply trace_refines_gen; [apply inv_new; exact Hi|apply Rel_new|exact Hwf|].
  apply nogrow_bits_ok; [exact Hg|rewrite map_length; lia].
Qed.

(* ------------------------------------------------------------ the invariant, for every operation and argument *)
Lemma put_inv s need p r : inv s -> 0 <= need -> zlen p <= need -> inv (fst (c_put rup maxalloc s need p r)).
Proof.
  intros Hinv Hneed Hlen. unfold c_put.
  destruct (ensure (set_last s opInvalid) need) as [s2|q] eqn:E; cbn [fst].
  - destruct (ensure_ok _ _ _ (inv_set_last s opInvalid Hinv) Hneed E) as (Hi2 & Hr2 & _).
    apply inv_cappend; [exact Hi2|lia].
  - apply inv_set_last. exact Hinv.
Qed.

Lemma readfrom_inv script : forall s n, inv s -> inv (fst (c_readfrom rup maxalloc s script n)).
Proof.
  assert (Hmin : 0 <= MinRead) by (unfold MinRead; lia).
  induction script as [|x t IH]; intros s n Hinv; cbn [c_readfrom].
  - destruct (grow s MinRead) as [s1|q] eqn:E; cbn [fst]; [|exact Hinv].
    destruct (grow_ok s MinRead s1 Hinv Hmin E) as (Hi & _). exact Hi.
  - destruct (grow s MinRead) as [s1|q] eqn:E; cbn [fst]; [|exact Hinv].
    destruct (grow_ok s MinRead s1 Hinv Hmin E) as (Hi & Hr & _).
    destruct x as [bs e|]; [|exact Hi].
    assert (Hi2 : inv (cappend s1 (ztake (cap s1 - blen s1) bs))).
    { apply inv_cappend; [exact Hi|]. unfold ztake, zlen. rewrite firstn_length. lia. }
    destruct e; [apply IH; exact Hi2|exact Hi2|exact Hi2].
Qed.

Lemma inv_advance s k v : inv s -> 0 <= k <= clen s -> inv (advance s k v).
Proof. intros Hinv Hk. apply inv_off; [exact Hinv|]. unfold clen in *. destruct Hinv as (Ho & _). lia. Qed.

Lemma inv_advance_sl s k v : inv s -> 0 <= k <= clen s -> inv (advance (set_last s opInvalid) k v).
Proof. intros Hinv Hk. change (advance (set_last s opInvalid) k v) with (advance s k v). apply inv_advance; assumption. Qed.

Theorem cstep_inv s o : inv s -> inv (fst (cstep s o)).
Proof.
  intros Hinv. assert (Hinv' := Hinv). destruct Hinv' as (Ho & Hc & Hnil).
  pose proof (clen_nonneg s Hinv) as Hcl.
  destruct o; unfold Buffer.cstep.
  - apply put_inv; [exact Hinv|apply zlen_nonneg|lia].
  - apply put_inv; [exact Hinv|apply zlen_nonneg|lia].
  - apply put_inv; [exact Hinv|lia|reflexivity].
  - destruct ((0 <=? r) && (r <? 128)).
    + apply put_inv; [exact Hinv|lia|reflexivity].
    + pose proof (encode_len r) as Hl. apply put_inv; [exact Hinv|unfold UTFMax; lia|unfold UTFMax, zlen; lia].
  - cbv zeta. change (cempty (set_last s opInvalid)) with (cempty s).
    destruct (cempty s); cbn [fst]; [apply inv_creset; exact Hinv|].
    change (clen (set_last s opInvalid)) with (clen s).
    apply inv_advance_sl; [exact Hinv|lia].
  - destruct (cempty s); cbn [fst]; [apply inv_creset; exact Hinv|].
    destruct (contents s) as [|c t] eqn:Ec; cbn [fst]; [exact Hinv|].
    pose proof (contents_cons_len s c t Hinv Ec). apply inv_off; [exact Hinv|unfold clen in *; lia].
  - destruct (cempty s); cbn [fst]; [apply inv_creset; exact Hinv|].
    destruct (contents s) as [|c t] eqn:Ec; cbn [fst]; [exact Hinv|].
    pose proof (contents_cons_len s c t Hinv Ec) as Hc1.
    destruct (bz c <? 128); cbn [fst]; [apply inv_off; [exact Hinv|unfold clen in *; lia]|].
    destruct (decode_rune (c :: t)) as [x w] eqn:Ed. cbn [fst].
    destruct (decode_width4 (c :: t) x w Ed) as [Hw1 Hw2]; [discriminate|].
    assert (Hwl : Z.of_nat w <= clen s) by (rewrite <- (inv_contents_len s Hinv), Ec; unfold zlen; lia).
    apply inv_off; [exact Hinv|unfold clen in *; lia].
  - destruct (last_read s =? opInvalid); cbn [fst]; [exact Hinv|].
    apply inv_off; [exact Hinv|]. destruct (off s >? 0) eqn:E; lia.
  - destruct (last_read s <=? opInvalid) eqn:El; cbn [fst]; [exact Hinv|].
    apply inv_off; [exact Hinv|]. unfold opInvalid in El. destruct (off s >=? last_read s) eqn:E; lia.
  - cbv zeta. change (clen (set_last s opInvalid)) with (clen s).
    destruct (Z.min n (clen s) <? 0) eqn:E; cbn [fst]; [apply inv_set_last; exact Hinv|].
    apply inv_advance_sl; [exact Hinv|lia].
  - unfold c_read_slice. cbv zeta. cbn [fst]. apply inv_off; [exact Hinv|].
    pose proof (index_byte_range delim (contents s)) as Hi. rewrite (inv_contents_len s Hinv) in Hi.
    destruct (index_byte delim (contents s) <? 0) eqn:E; unfold clen in *; lia.
  - unfold c_read_slice. cbv zeta. cbn [fst]. apply inv_off; [exact Hinv|].
    pose proof (index_byte_range delim (contents s)) as Hi. rewrite (inv_contents_len s Hinv) in Hi.
    destruct (index_byte delim (contents s) <? 0) eqn:E; unfold clen in *; lia.
  - apply readfrom_inv. apply inv_set_last. exact Hinv.
  - cbv zeta. change (clen (set_last s opInvalid)) with (clen s).
    destruct (0 <? clen s) eqn:E0; [|cbn [fst]; apply inv_creset; apply inv_set_last; exact Hinv].
    destruct (m >? clen s) eqn:E1; [cbn [fst]; apply inv_set_last; exact Hinv|].
    destruct (m <? 0) eqn:E2; [cbn [fst]; apply inv_set_last; exact Hinv|].
    assert (Hi : inv (advance (set_last s opInvalid) m opInvalid)).
    { apply inv_advance_sl; [exact Hinv|lia]. }
    destruct e; [exact Hi|]. destruct (negb (m =? clen s)); cbn [fst]; [exact Hi|apply inv_creset; exact Hi].
  - destruct (n =? 0) eqn:E0; cbn [fst]; [apply inv_creset; exact Hinv|]. cbv zeta.
    change (clen (set_last s opInvalid)) with (clen s).
    destruct ((n <? 0) || (n >? clen s)) eqn:E1; [cbn [fst]; apply inv_set_last; exact Hinv|].
    cbn [set_last off cap data isnil].
    destruct (off s + n <=? cap s); cbn [fst]; [|apply inv_set_last; exact Hinv].
    assert (Hl2 : zlen (ztake (off s + n) (data s)) = off s + n) by (apply zlen_ztake; unfold clen, blen in *; lia).
    unfold inv, blen. cbn [data off cap isnil]. rewrite Hl2. unfold clen, blen in *.
    split; [lia|]. split; [lia|]. intros En. destruct (Hnil En) as [Hd Hcp]. rewrite Hd, ztake_nil. auto.
  - destruct (n <? 0) eqn:E0; cbn [fst]; [exact Hinv|].
    destruct (grow s n) as [s2|q] eqn:Eg; cbn [fst]; [|exact Hinv].
    destruct (grow_ok s n s2 Hinv ltac:(lia) Eg) as (Hi & _). exact Hi.
  - cbn [fst]. apply inv_creset. exact Hinv.
  - exact Hinv.
  - exact Hinv.
  - exact Hinv.
Qed.

Theorem crun_inv ops : forall s, inv s -> inv (crun s ops).
Proof.
  induction ops as [|o t IH]; intros s Hinv; [exact Hinv|].
  cbn [Buffer.crun]. pose proof (cstep_inv s o Hinv) as Hi. destruct (cstep s o) as [s' r]. cbn [fst] in Hi.
  destruct (halts r); [exact Hi|apply IH; exact Hi].
Qed.

Theorem run_inv_all b c nil ops : init_ok b c nil -> inv (crun (new_pc b c nil) ops).
Proof. intros Hi. apply crun_inv. apply inv_new. exact Hi. Qed.

(* ------------------------------------------------------------ no index or slice expression out of range *)
Lemma s_readfrom_norange script : forall u n u', s_readfrom u script n <> (u', Panicked PRange).
Proof.
  induction script as [|x t IH]; intros u n u'; cbn [s_readfrom]; [congruence|].
  destruct x as [bs e|]; [|congruence]. destruct e; [apply IH|congruence|congruence].
Qed.

Lemma sstep_range b a o a' : sstep b a o = (a', Panicked PRange) -> exists n, o = ONext n /\ n < 0.
Proof.
  destruct o; unfold sstep; cbv zeta; try congruence.
  - destruct (unread a); congruence.
  - destruct (unread a); congruence.
  - destruct (unread a) as [|c0 t0]; [congruence|]. destruct (decode_rune (c0 :: t0)). congruence.
  - destruct (last a); congruence.
  - destruct (last a); congruence.
  - pose proof (zlen_nonneg (unread a)). destruct (Z.min n (zlen (unread a)) <? 0) eqn:E; [|congruence].
    intros _. exists n. split; [reflexivity|lia].
  - destruct (s_readfrom (unread a) script 0) as [u' rr] eqn:E. intros H. injection H as _ ->.
    exfalso. apply (s_readfrom_norange script (unread a) 0 u' E).
  - destruct (unread a) as [|c0 t0]; [congruence|]. destruct (m >? zlen (c0 :: t0)); [congruence|].
    destruct (m <? 0); [congruence|]. destruct e; [congruence|]. destruct (negb (m =? zlen (c0 :: t0))); congruence.
  - destruct (n =? 0); [congruence|]. destruct ((n <? 0) || (n >? zlen (unread a))); congruence.
  - destruct (n <? 0); [congruence|]. destruct (unread a); destruct (prev a); congruence.
Qed.

Lemma strace_range ops : forall bits a c, In (Panicked PRange, c) (strace bits a ops) ->
  exists n, In (ONext n) ops /\ n < 0.
Proof.
  induction ops as [|o t IH]; intros bits a c; cbn [strace]; [intros []|].
  destruct bits as [|b bt]; [intros []|]. destruct (sstep b a o) as [a' r'] eqn:Es.
  intros [H|H].
  - injection H as -> _. destruct (sstep_range b a o a' Es) as (n & -> & Hn). exists n. split; [left; reflexivity|exact Hn].
  - destruct (halts r'); [destruct H|]. destruct (IH bt a' c H) as (n & Hin & Hn). exists n. split; [right; exact Hin|exact Hn].
Qed.

Theorem no_range_panic b c nil ops x : init_ok b c nil -> forallb op_wfb ops = true ->
  In (Panicked PRange, x) (ctrace (new_pc b c nil) ops) -> exists n, In (ONext n) ops /\ n < 0.
Proof.
  intros Hi Hwf Hin.
  destruct (refines_all b c nil ops Hi Hwf) as [He|(pre & c' & y & rest & H1 & H2)].
  - rewrite He in Hin. apply (strace_range _ _ _ _ Hin).
  - rewrite H1 in Hin. apply in_app_or in Hin. destruct Hin as [Hin|[Hin|[]]]; [|congruence].
    apply (strace_range ops (cbits (new_pc b c nil) ops) (new_spec b) x). rewrite H2. apply in_or_app. left. exact Hin.
Qed.
End Refinement.

(* Go's size-class rounding never gives less than asked for *)
Lemma first_ge_ge c l x : first_ge c l = Some x -> c <= x.
Proof.
  induction l as [|y t IH]; cbn [first_ge]; [discriminate|].
  destruct (c <=? y) eqn:E; [intros H; injection H as <-; lia|exact IH].
Qed.

Lemma go_rup_ge c : c <= go_rup c.
Proof.
  unfold go_rup. destruct (c <=? 0) eqn:E; [lia|].
  destruct (first_ge c go_classes) as [x|] eqn:F; [apply (first_ge_ge c go_classes x F)|].
  pose proof (Z.div_mod (c + 8191) 8192 ltac:(lia)) as Hd.
  pose proof (Z.mod_pos_bound (c + 8191) 8192 ltac:(lia)) as Hm. lia.
Qed.
