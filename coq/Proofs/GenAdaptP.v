(* The translation of handler4LogSlog.with regenerated from the source (Gen/Handlers.v): it builds the new
   ops in a NEW array, so no slice that existed before - in particular the ops of a sibling handler derived
   from the same parent - can change. *)
Require Import Verif.Model.Base Verif.Model.Decision Verif.Model.GoSem Verif.Model.AdaptRef.
Require Import Verif.Proofs.GenRouteP.
Require Verif.Gen.Handlers.
Require Import Lia ZifyBool ZifyNat.

Lemma nth_app_len {A} (h : list (list A)) x : nth (length h) (h ++ [x]) [] = x.
Proof. rewrite app_nth2 by lia. rewrite Nat.sub_diag. reflexivity. Qed.
Lemma replace_nth_app_len {A} (h : list A) x y : replace_nth (length h) (h ++ [x]) y = h ++ [y].
Proof. induction h as [|a h IH]; cbn; [reflexivity|]. rewrite IH. reflexivity. Qed.

Lemma h_read_len {A} (h : heap A) a o l c : h_ok h (a, o, l, c) = true -> length (h_read h (a, o, l, c)) = l.
Proof.
  unfold h_ok, h_read. intros H. rewrite firstn_length, skipn_length. lia.
Qed.

(* allocation does not touch what was there: every slice of an array that existed reads the same *)
Lemma h_read_frame {A} (h : heap A) x (t : hslice) : (let '(a, _, _, _) := t in (a < length h)%nat) ->
  h_read (h ++ [x]) t = h_read h t.
Proof. destruct t as [[[a o] l] c]. intros H. unfold h_read. rewrite app_nth1 by exact H. reflexivity. Qed.

Lemma h_read_last {A} (h : heap A) cells n : length cells = n -> h_read (h ++ [cells]) (length h, 0%nat, n, n) = cells.
Proof. intros H. unfold h_read. rewrite nth_app_len. cbn [skipn]. apply firstn_all2. lia. Qed.

Lemma build_cells {A} (zero op : A) (vals : list A) l : length vals = l ->
  h_write (h_write (repeat zero (S l)) 0 (firstn (S l) vals)) (0 + l) [op] = vals ++ [op].
Proof.
  intros Hl. unfold h_write. rewrite (firstn_all2 vals) by lia. cbn [firstn app Nat.add length].
  rewrite Hl. replace (repeat zero (S l)) with (repeat zero l ++ [zero]) by (rewrite <- repeat_cons; reflexivity).
  rewrite skipn_app, repeat_length, Nat.sub_diag, (skipn_all2 (repeat zero l)) by (rewrite repeat_length; lia).
  cbn [skipn app]. rewrite firstn_app, Hl, Nat.sub_diag, (firstn_all2 vals) by lia. cbn [firstn]. rewrite app_nil_r.
  rewrite skipn_app, Hl. replace (l + 1 - l)%nat with 1%nat by lia. rewrite (skipn_all2 vals) by lia.
  cbn [skipn app]. reflexivity.
Qed.

Lemma gen_handler_with : forall zero gc lg ops op heap, h_ok heap ops = true ->
  Handlers.handler_with zero gc lg ops op heap = handler_with_ref zero gc lg ops op heap.
Proof.
  intros zero gc lg [[[a o] l] c] op heap Hok.
  first
    [ reflexivity
    | pose proof (h_read_len heap a o l c Hok) as Hl;
      unfold Handlers.handler_with, handler_with_ref, h_make, h_copy, h_set, h_len; cbv zeta;
      replace (Z.of_nat l + 1 <? 0) with false by lia; cbv beta iota zeta;
      replace (Z.to_nat (Z.of_nat l + 1)) with (S l) by lia;
      rewrite ?nth_app_len, ?replace_nth_app_len;
      replace ((Z.of_nat l <? 0) || (Z.of_nat (S l) <=? Z.of_nat l)) with false by lia; cbv beta iota zeta;
      rewrite (h_read_frame heap _ (a, o, l, c)) by (unfold h_ok in Hok; lia);
      rewrite ?nth_app_len, ?replace_nth_app_len, ?Nat2Z.id;
      rewrite (build_cells zero op _ l Hl);
      replace (l + 1)%nat with (S l) by lia; reflexivity ].
Qed.

(* the property of C15 the seeded changes violate: deriving two handlers from ONE parent, the ops of the first
   are not changed by the second derivation (and the parent's are not changed by either) *)
Lemma siblings_independent : forall zero gc lg ops a b heap, h_ok heap ops = true ->
  match Handlers.handler_with zero gc lg ops a heap with
  | Some ((_, ops1), heap1) =>
      match Handlers.handler_with zero gc lg ops b heap1 with
      | Some ((_, ops2), heap2) =>
          h_read heap2 ops1 = h_read heap ops ++ [a] /\ h_read heap2 ops2 = h_read heap ops ++ [b]
          /\ h_read heap2 ops = h_read heap ops
      | None => False
      end
  | None => False
  end.
Proof.
  intros zero gc lg [[[x o] l] c] a b heap Hok.
  assert (Hx : (x < length heap)%nat) by (unfold h_ok in Hok; lia).
  pose proof (h_read_len heap x o l c Hok) as Hl.
  rewrite gen_handler_with by exact Hok. unfold handler_with_ref at 1. cbv beta iota zeta.
  set (heap1 := heap ++ [h_read heap (x, o, l, c) ++ [a]]).
  assert (Hok1 : h_ok heap1 (x, o, l, c) = true).
  { unfold h_ok, heap1 in *. rewrite app_length, app_nth1 by lia. cbn [length]. lia. }
  rewrite gen_handler_with by exact Hok1. unfold handler_with_ref. cbv beta iota zeta.
  assert (F1 : h_read heap1 (x, o, l, c) = h_read heap (x, o, l, c)) by (apply (h_read_frame heap _ (x, o, l, c)); exact Hx).
  rewrite F1. unfold h_len. rewrite Nat2Z.id.
  set (vals := h_read heap (x, o, l, c)) in *.
  assert (La : length (vals ++ [a]) = (l + 1)%nat) by (rewrite app_length, Hl; reflexivity).
  assert (Lb : length (vals ++ [b]) = (l + 1)%nat) by (rewrite app_length, Hl; reflexivity).
  repeat split.
  - rewrite (h_read_frame heap1 _ (length heap, 0%nat, (l + 1)%nat, (l + 1)%nat)) by (unfold heap1; rewrite app_length; cbn; lia).
    unfold heap1. apply h_read_last. exact La.
  - apply h_read_last. exact Lb.
  - rewrite (h_read_frame heap1 _ (x, o, l, c)) by (unfold heap1; rewrite app_length; cbn; lia). exact F1.
Qed.
