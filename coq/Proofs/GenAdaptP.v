(* The translation of handler4LogSlog.with regenerated from the source (Gen/Handlers.v): it builds the new
   ops in a NEW array, so no slice that existed before - in particular the ops of a sibling handler derived
   from the same parent - can change. *)
Require Import Verif.Model.Base Verif.Model.Decision Verif.Model.GoSem Verif.Model.AdaptRef.
Require Import Verif.Proofs.GenRouteP.
Require Verif.Gen.Handlers.
Require Import Lia ZifyBool ZifyNat.

Lemma nth_app_len {A} (h : list (list A)) x : nth (length h) (h ++ [x]) [] = x.
Proof. rewrite app_nth2 by lia. rewrite Nat.sub_diag. reflexivity. Qed.
Lemma replace_nth_app_len {A} (h : list A) x y : replace_nth (length h) (h ++ [x]) y = h ++ [y].
Proof. induction h as [|a h IH]; cbn; [reflexivity|]. rewrite IH. reflexivity. Qed.

Lemma h_read_len {A} (h : heap A) a o l c : h_ok h (a, o, l, c) = true -> length (h_read h (a, o, l, c)) = l.
Proof.
  unfold h_ok, h_read. intros H. rewrite firstn_length, skipn_length. lia.
Qed.

(* allocation does not touch what was there: every slice of an array that existed reads the same *)
Lemma h_read_frame {A} (h : heap A) x (t : hslice) : (let '(a, _, _, _) := t in (a < length h)%nat) ->
  h_read (h ++ [x]) t = h_read h t.
Proof. destruct t as [[[a o] l] c]. intros H. unfold h_read. rewrite app_nth1 by exact H. reflexivity. Qed.

Lemma h_read_last {A} (h : heap A) cells n : length cells = n -> h_read (h ++ [cells]) (length h, 0%nat, n, n) = cells.
Proof. intros H. unfold h_read. rewrite nth_app_len. cbn [skipn]. apply firstn_all2. lia. Qed.

Lemma build_cells {A} (zero op : A) (vals : list A) l : length vals = l ->
  h_write (h_write (repeat zero (S l)) 0 (firstn (S l) vals)) (0 + l) [op] = vals ++ [op].
Proof.
  intros Hl. unfold h_write. rewrite (firstn_all2 vals) by lia. cbn [firstn app Nat.add length].
  rewrite Hl. replace (repeat zero (S l)) with (repeat zero l ++ [zero]) by (rewrite <- repeat_cons; reflexivity).
  rewrite skipn_app, repeat_length, Nat.sub_diag, (skipn_all2 (repeat zero l)) by (rewrite repeat_length; lia).
  cbn [skipn app]. rewrite firstn_app, Hl, Nat.sub_diag, (firstn_all2 vals) by lia. cbn [firstn]. rewrite app_nil_r.
  rewrite skipn_app, Hl. replace (l + 1 - l)%nat with 1%nat by lia. rewrite (skipn_all2 vals) by lia.
  cbn [skipn app]. reflexivity.
Qed.

Lemma gen_handler_with : forall zero gc lg ops op heap, h_ok heap ops = true ->
  Handlers.handler_with zero gc lg ops op heap = handler_with_ref zero gc lg ops op heap.
Proof.
  intros zero gc lg [[[a o] l] c] op heap Hok.
  first
    [ reflexivity
    | pose proof (h_read_len heap a o l c Hok) as Hl;
      unfold Handlers.handler_with, handler_with_ref, h_make, h_copy, h_set, h_len; cbv zeta;
      replace (Z.of_nat l + 1 <? 0) with false by lia; cbv beta iota zeta;
      replace (Z.to_nat (Z.of_nat l + 1)) with (S l) by lia;
      rewrite ?nth_app_len, ?replace_nth_app_len;
      replace ((Z.of_nat l <? 0) || (Z.of_nat (S l) <=? Z.of_nat l)) with false by lia; cbv beta iota zeta;
      rewrite (h_read_frame heap _ (a, o, l, c)) by (unfold h_ok in Hok; lia);
      rewrite ?nth_app_len, ?replace_nth_app_len, ?Nat2Z.id;
      rewrite (build_cells zero op _ l Hl);
      replace (l + 1)%nat with (S l) by lia; reflexivity ].
Qed.

(* the property of C15 the seeded changes violate: deriving two handlers from ONE parent, the ops of the first
   are not changed by the second derivation (and the parent's are not changed by either) *)
Lemma siblings_independent : forall zero gc lg ops a b heap, h_ok heap ops = true ->
  match Handlers.handler_with zero gc lg ops a heap with
  | Some ((_, ops1), heap1) =>
      match Handlers.handler_with zero gc lg ops b heap1 with
      | Some ((_, ops2), heap2) =>
          h_read heap2 ops1 = h_read heap ops ++ [a] /\ h_read heap2 ops2 = h_read heap ops ++ [b]
          /\ h_read heap2 ops = h_read heap ops
      | None => False
      end
  | None => False
  end.
Proof.
  intros zero gc lg [[[x o] l] c] a b heap Hok.
  assert (Hx : (x < length heap)%nat) by (unfold h_ok in Hok; lia).
  pose proof (h_read_len heap x o l c Hok) as Hl.
  rewrite gen_handler_with by exact Hok. unfold handler_with_ref at 1. cbv beta iota zeta.
  set (heap1 := heap ++ [h_read heap (x, o, l, c) ++ [a]]).
  assert (Hok1 : h_ok heap1 (x, o, l, c) = true).
  { unfold h_ok, heap1 in *. rewrite app_length, app_nth1 by lia. cbn [length]. lia. }
  rewrite gen_handler_with by exact Hok1. unfold handler_with_ref. cbv beta iota zeta.
  assert (F1 : h_read heap1 (x, o, l, c) = h_read heap (x, o, l, c)) by (apply (h_read_frame heap _ (x, o, l, c)); exact Hx).
  rewrite F1. unfold h_len. rewrite Nat2Z.id.
  set (vals := h_read heap (x, o, l, c)) in *.
  assert (La : length (vals ++ [a]) = (l + 1)%nat) by (rewrite app_length, Hl; reflexivity).
  assert (Lb : length (vals ++ [b]) = (l + 1)%nat) by (rewrite app_length, Hl; reflexivity).
  repeat split.
  - rewrite (h_read_frame heap1 _ (length heap, 0%nat, (l + 1)%nat, (l + 1)%nat)) by (unfold heap1; rewrite app_length; cbn; lia).
    unfold heap1. apply h_read_last. exact La.
  - apply h_read_last. exact Lb.
  - rewrite (h_read_frame heap1 _ (x, o, l, c)) by (unfold heap1; rewrite app_length; cbn; lia). exact F1.
Qed.

(* ---- nest ---- *)
Lemma h_write_fresh {A} (zero : A) (vals : list A) k : h_write (repeat zero (length vals + k)) 0 vals = vals ++ repeat zero k.
Proof.
  unfold h_write. cbn [firstn app Nat.add]. f_equal. rewrite repeat_app, skipn_app, repeat_length, Nat.sub_diag.
  rewrite skipn_all2 by (rewrite repeat_length; lia). reflexivity.
Qed.
Lemma h_write_end {A} (pre vals : list A) (zero : A) : h_write (pre ++ repeat zero (length vals)) (length pre) vals = pre ++ vals.
Proof.
  unfold h_write. rewrite firstn_app, Nat.sub_diag, firstn_all2 by lia. cbn [firstn]. rewrite app_nil_r. f_equal.
  rewrite skipn_all2 by (rewrite app_length, repeat_length; lia). apply app_nil_r.
Qed.

(* one round: an op that holds attributes puts them and the fields into ONE new array; a group wraps the fields
   into a new one-cell array (or leaves empty fields alone); nothing that existed is written to *)
Lemma nest_step_spec zero gc grp g a f h : h_ok h a = true -> h_ok h f = true ->
  exists res cells,
    nest_step zero gc grp (g, a) f h = Some (res, if (bytes_eqb g [] || (0 <? h_len f)) then h ++ [cells] else h)
    /\ (if (bytes_eqb g [] || (0 <? h_len f)) then res = (length h, 0%nat, length cells, length cells) else res = f)
    /\ cells = nest_op grp (g, h_read h a) (h_read h f).
Proof.
  intros Ha Hf. destruct a as [[[aa ao] al] ac]. destruct f as [[[fa fo] fl] fc].
  pose proof (h_read_len h aa ao al ac Ha) as La. pose proof (h_read_len h fa fo fl fc Hf) as Lf.
  assert (Haa : (aa < length h)%nat) by (unfold h_ok in Ha; lia).
  assert (Hfa : (fa < length h)%nat) by (unfold h_ok in Hf; lia).
  unfold nest_step, nest_op. cbn [fst snd].
  destruct (bytes_eqb g []) eqn:Eg; cbn [orb].
  - assert (g = []) by (destruct g; [reflexivity|discriminate]). subst g.
    exists (length h, 0%nat, (al + fl)%nat, (al + fl)%nat), (h_read h (aa, ao, al, ac) ++ h_read h (fa, fo, fl, fc)).
    unfold h_make_cap, h_len. replace ((0 <? 0) || (Z.of_nat al + Z.of_nat fl <? 0)) with false by lia.
    replace (Z.to_nat (Z.of_nat al + Z.of_nat fl)) with (al + fl)%nat by lia. change (Z.to_nat 0) with 0%nat.
    rewrite (h_read_frame h _ (aa, ao, al, ac)) by exact Haa.
    set (va := h_read h (aa, ao, al, ac)) in *. set (vf := h_read h (fa, fo, fl, fc)) in *.
    unfold h_append_all. rewrite La. replace (0 + al <=? al + fl)%nat with true by lia. cbv beta iota zeta.
    rewrite nth_app_len, replace_nth_app_len. cbn [Nat.add].
    rewrite (h_read_frame h _ (fa, fo, fl, fc)) by exact Hfa. fold vf.
    rewrite Lf. replace (al + fl <=? al + fl)%nat with true by lia. cbv beta iota zeta.
    rewrite nth_app_len, replace_nth_app_len.
    replace (repeat zero (al + fl)) with (repeat zero (length va + fl)) by (rewrite La; reflexivity).
    rewrite h_write_fresh.
    replace (repeat zero fl) with (repeat zero (length vf)) by (rewrite Lf; reflexivity).
    rewrite <- La. rewrite h_write_end. rewrite app_length, Lf. repeat split; reflexivity.
  - destruct g as [|c g]; [discriminate|]. unfold h_len. destruct (0 <? Z.of_nat fl) eqn:El.
    + exists (length h, 0%nat, 1%nat, 1%nat), [grp (c :: g) (h_read h (fa, fo, fl, fc))].
      unfold h_lit. cbn [length]. repeat split.
      destruct (h_read h (fa, fo, fl, fc)) eqn:R; [cbn in Lf; lia|reflexivity].
    + exists (fa, fo, fl, fc), []. repeat split.
      assert (fl = 0%nat) by lia. subst fl. destruct (h_read h (fa, fo, 0%nat, fc)) eqn:R; [reflexivity|cbn in Lf; lia].
Qed.

Lemma h_read_ext {A} (h0 extra : heap A) (t : hslice) : (let '(a, _, _, _) := t in (a < length h0)%nat) ->
  h_read (h0 ++ extra) t = h_read h0 t.
Proof. destruct t as [[[a o] l] c]. intros H. unfold h_read. rewrite app_nth1 by exact H. reflexivity. Qed.
Lemma h_ok_ext {A} (h0 extra : heap A) (t : hslice) : h_ok h0 t = true -> h_ok (h0 ++ extra) t = true.
Proof.
  destruct t as [[[a o] l] c]. unfold h_ok. intros H. rewrite app_length, app_nth1 by lia. lia.
Qed.

Section NestLoop.
Variables (zero : acell) (gc : nat -> nat) (grp : bytes -> list acell -> acell).
Variable ops : list (bytes * hslice).
Variable h0 : heap acell.
Hypothesis ops_ok : forall op, In op ops -> h_ok h0 (snd op) = true.
Variable F : hslice * Z * heap acell -> loop_step (hslice * Z * heap acell).
Hypothesis F_done : forall f h, F (f, -1, h) = LoopDone (f, -1, h).
Hypothesis F_step : forall f j h op, nth_error ops j = Some op ->
  F (f, Z.of_nat j, h) = match nest_step zero gc grp op f h with
                         | Some (f', h') => LoopNext (f', Z.of_nat j - 1, h')
                         | None => LoopPanic
                         end.

Definition contents (l : list (bytes * hslice)) : list (bytes * list acell) := map (fun op => (fst op, h_read h0 (snd op))) l.

Lemma nest_loop : forall k f extra fuel, (k <= length ops)%nat -> h_ok (h0 ++ extra) f = true -> (k < fuel)%nat ->
  exists res extra1,
    go_loop fuel F (f, Z.of_nat k - 1, h0 ++ extra) = Some (res, -1, h0 ++ extra1)
    /\ h_ok (h0 ++ extra1) res = true
    /\ h_read (h0 ++ extra1) res = nest_cells grp (contents (firstn k ops)) (h_read (h0 ++ extra) f)
    /\ (res = f \/ (let '(a, _, _, _) := res in (length (h0 ++ extra) <= a)%nat)).
Proof.
  induction k as [|k IH]; intros f extra fuel Hk Hf Hfuel.
  - destruct fuel as [|fuel]; [lia|]. cbn [go_loop Z.of_nat Z.sub Z.opp Z.add]. rewrite F_done.
    exists f, extra. repeat split; [exact Hf|left; reflexivity].
  - destruct fuel as [|fuel]; [lia|]. cbn [go_loop].
    replace (Z.of_nat (S k) - 1) with (Z.of_nat k) by lia.
    destruct (nth_error ops k) as [[g a]|] eqn:En; [|apply nth_error_None in En; lia].
    rewrite (F_step f k _ _ En).
    assert (Ha0 : h_ok h0 a = true) by (apply (ops_ok (g, a)); eapply nth_error_In; exact En).
    assert (Ha : h_ok (h0 ++ extra) a = true) by (apply h_ok_ext; exact Ha0).
    destruct (nest_step_spec zero gc grp g a f (h0 ++ extra) Ha Hf) as (f' & cells & Hs & Hres & Hc).
    rewrite Hs. cbv beta iota.
    assert (Hfirst : firstn (S k) ops = firstn k ops ++ [(g, a)]).
    { clear -En. revert ops En. induction k as [|k IH]; intros [|x l] E; cbn in *; try discriminate.
      - inversion E. reflexivity.
      - f_equal. apply IH. exact E. }
    assert (Hra : h_read (h0 ++ extra) a = h_read h0 a).
    { apply h_read_ext. destruct a as [[[aa ao] al] ac]. unfold h_ok in Ha0. lia. }
    destruct (bytes_eqb g [] || (0 <? h_len f)) eqn:Eb.
    + subst f'.
      assert (Hok' : h_ok ((h0 ++ (extra ++ [cells]))) (length (h0 ++ extra), 0%nat, length cells, length cells) = true).
      { rewrite app_assoc. unfold h_ok. rewrite nth_app_len. rewrite (app_length (h0 ++ extra) [cells]). cbn [length]. lia. }
      destruct (IH (length (h0 ++ extra), 0%nat, length cells, length cells) (extra ++ [cells]) fuel) as (res & extra1 & G & Hok1 & Hr & Hal);
        [lia|exact Hok'|lia|].
      rewrite <- app_assoc. exists res, extra1. split; [exact G|]. split; [exact Hok1|]. split.
      * rewrite Hr. rewrite app_assoc, h_read_last by reflexivity. rewrite Hfirst. unfold contents, nest_cells.
        rewrite map_app, fold_right_app. cbn [map fold_right fst snd]. rewrite Hc, Hra. reflexivity.
      * right. destruct Hal as [->|Hal]; [lia|]. destruct res as [[[ra ro] rl] rc]. rewrite app_assoc, app_length in Hal. lia.
    + subst f'.
      destruct (IH f extra fuel) as (res & extra1 & G & Hok1 & Hr & Hal); [lia|exact Hf|lia|].
      exists res, extra1. split; [exact G|]. split; [exact Hok1|]. split; [|exact Hal].
      rewrite Hr, Hfirst. unfold contents, nest_cells. rewrite map_app, fold_right_app. cbn [map fold_right fst snd].
      rewrite <- Hra, <- Hc.
      (* nothing was added: the op is a group and the fields are empty *)
      apply orb_false_elim in Eb. destruct Eb as [Eg El].
      assert (Hempty : h_read (h0 ++ extra) f = []).
      { destruct f as [[[fa fo] fl] fc]. pose proof (h_read_len _ fa fo fl fc Hf) as L. unfold h_len in El.
        destruct (h_read (h0 ++ extra) (fa, fo, fl, fc)); [reflexivity|cbn in L; lia]. }
      rewrite Hc, Hempty. unfold nest_op. cbn [fst snd]. destruct g; [discriminate|reflexivity].
Qed.
End NestLoop.

Lemma list_at_nat {A} (l : list A) j : list_at l (Z.of_nat j) = nth_error l j.
Proof. unfold list_at. destruct (Z.of_nat j <? 0) eqn:E; [lia|]. rewrite Nat2Z.id. reflexivity. Qed.

(* nest as it is in the source: no array that existed is written to (the heap only grows), the result holds the
   model's attributes, and it is either the caller's own slice or lies in an array allocated by this call - so it
   shares nothing with the attributes stored in the handler *)
Lemma gen_handler_nest : forall zero gc grp ops fields h0,
  (forall op, In op ops -> h_ok h0 (snd op) = true) -> h_ok h0 fields = true ->
  exists res extra,
    Handlers.handler_nest zero gc grp ops fields h0 = Some (res, h0 ++ extra)
    /\ h_read (h0 ++ extra) res = nest_cells grp (map (fun op => (fst op, h_read h0 (snd op))) ops) (h_read h0 fields)
    /\ (res = fields \/ (let '(a, _, _, _) := res in (length h0 <= a)%nat)).
Proof.
  intros zero gc grp ops fields h0 Hops Hf.
  lazymatch eval cbv delta [Handlers.handler_nest] in Handlers.handler_nest with
  | handler_nest_ref =>
      unfold Handlers.handler_nest, handler_nest_ref; destruct ops as [|op ops'];
      [ exists fields, []; rewrite app_nil_r; repeat split; left; reflexivity
      | eexists; eexists; unfold h_lit; split; [reflexivity|]; split;
        [ apply h_read_last; reflexivity | right; lia ] ]
  | _ =>
      unfold Handlers.handler_nest; cbv zeta;
      match goal with |- context [go_loop ?fl ?F ?st] =>
        remember (go_loop fl F st) as gl eqn:Egl;
        destruct (nest_loop zero gc grp ops h0 Hops F) with (k := length ops) (f := fields) (extra := @nil (list acell)) (fuel := fl)
          as (res & extra1 & G & _ & Hr & Hal);
        [ intros; cbv beta iota zeta; reflexivity
        | intros f j h op En; cbv beta iota zeta; replace (0 <=? Z.of_nat j) with true by lia;
          rewrite list_at_nat, En; unfold nest_step; cbv beta iota zeta;
          repeat (gen_split; gen_inj; try reflexivity; try discriminate; try congruence)
        | lia | rewrite app_nil_r; exact Hf | lia | ];
        rewrite app_nil_r in G, Hr, Hal;
        assert (Hgl : gl = Some (res, -1, h0 ++ extra1)) by (rewrite Egl; exact G);
        rewrite Hgl end;
      exists res, extra1; rewrite firstn_all in Hr; repeat split; [exact Hr|exact Hal]
  end.
Qed.
