(* C16: lemmas about the model of Go's layout language (Model/TimeFmt.v):
   the shape of every element's text, and the round trip through the
   specification-side reader.  The calendar part is in CalendarP.v. *)
Require Import Verif.Model.Base Verif.Model.TimeFmt Verif.Proofs.CalendarP.
From Coq Require Import Lia ZifyBool.
Ltac Zify.zify_post_hook ::= Z.to_euclidean_division_equations.

(* ------------------------------------------------------------------ *)
(* digits                                                               *)
(* ------------------------------------------------------------------ *)
Lemma digit_cases : forall d, 0 <= d <= 9 ->
  d = 0 \/ d = 1 \/ d = 2 \/ d = 3 \/ d = 4 \/ d = 5 \/ d = 6 \/ d = 7 \/ d = 8 \/ d = 9.
Proof. intros d H. lia. Qed.

Lemma digit_ok : forall d, 0 <= d <= 9 ->
  is_digit (digit d) = true /\ digit_val (digit d) = d /\ is_sep (digit d) = false
  /\ byte_eqb (digit d) " "%byte = false
  /\ (byte_eqb (digit d) "0"%byte = (d =? 0)).
Proof.
  intros d H. destruct (digit_cases d H) as [E|[E|[E|[E|[E|[E|[E|[E|[E|E]]]]]]]]];
    subst d; vm_compute; repeat split; reflexivity.
Qed.

Lemma digit_is_digit : forall d, 0 <= d <= 9 -> is_digit (digit d) = true.
Proof. intros d H. apply (digit_ok d H). Qed.
Lemma digit_val_digit : forall d, 0 <= d <= 9 -> digit_val (digit d) = d.
Proof. intros d H. apply (digit_ok d H). Qed.

Lemma pow10_pos : forall k : nat, 0 < 10 ^ Z.of_nat k.
Proof. intros k. apply Z.pow_pos_nonneg; lia. Qed.

Lemma pow10_S : forall k : nat, 10 ^ Z.of_nat (S k) = 10 * 10 ^ Z.of_nat k.
Proof. intros k. rewrite Nat2Z.inj_succ, Z.pow_succ_r by lia. reflexivity. Qed.

Lemma decn_S : forall k v,
  decn (S k) v = digit (v / 10 ^ Z.of_nat k) :: decn k (v mod 10 ^ Z.of_nat k).
Proof. reflexivity. Qed.

(* the leading digit of a number below 10^(k+1), and the rest *)
Lemma lead_digit : forall (k : nat) v, 0 <= v < 10 ^ Z.of_nat (S k) ->
  0 <= v / 10 ^ Z.of_nat k <= 9 /\ 0 <= v mod 10 ^ Z.of_nat k < 10 ^ Z.of_nat k.
Proof.
  intros k v H. rewrite pow10_S in H. pose proof (pow10_pos k) as Hp.
  set (p := 10 ^ Z.of_nat k) in *. split.
  - split; [apply Z.div_pos; lia|]. assert (v / p < 10); [|lia].
    apply Z.div_lt_upper_bound; lia.
  - apply Z.mod_pos_bound. lia.
Qed.

Lemma read_fixed_decn : forall k v acc rest, 0 <= v < 10 ^ Z.of_nat k ->
  read_fixed k acc (decn k v ++ rest) = Some (acc * 10 ^ Z.of_nat k + v, rest).
Proof.
  induction k as [|k IH]; intros v acc rest H.
  - cbn [decn app read_fixed]. change (10 ^ Z.of_nat 0) with 1 in *. do 2 f_equal. lia.
  - rewrite decn_S. cbn [app read_fixed].
    destruct (lead_digit k v H) as [Hq Hr].
    rewrite (digit_is_digit _ Hq), (digit_val_digit _ Hq), (IH _ _ _ Hr), pow10_S.
    pose proof (pow10_pos k) as Hp. set (p := 10 ^ Z.of_nat k) in *.
    pose proof (Z.div_mod v p ltac:(lia)) as E.
    remember (v / p) as q. remember (v mod p) as r. do 2 f_equal. rewrite E. ring.
Qed.

Lemma decn_length : forall k v, length (decn k v) = k.
Proof. induction k as [|k IH]; intros v; [reflexivity|]. rewrite decn_S. cbn [length]. rewrite IH. reflexivity. Qed.

Lemma decn_digits : forall k v, 0 <= v < 10 ^ Z.of_nat k -> all_digits (decn k v) = true.
Proof.
  induction k as [|k IH]; intros v H; [reflexivity|]. rewrite decn_S.
  destruct (lead_digit k v H) as [Hq Hr]. unfold all_digits. cbn [forallb].
  rewrite (digit_is_digit _ Hq). apply (IH _ Hr).
Qed.

Lemma dec2_eq : forall v, dec2 v = [digit (v / 10); digit (v mod 10)].
Proof.
  intros v. unfold dec2. rewrite !decn_S. cbn [decn].
  change (10 ^ Z.of_nat 1) with 10. change (10 ^ Z.of_nat 0) with 1. rewrite Z.div_1_r. reflexivity.
Qed.

Lemma read_fixed2_dec2 : forall v rest, 0 <= v < 100 ->
  read_fixed 2 0 (dec2 v ++ rest) = Some (v, rest).
Proof. intros v rest H. unfold dec2. rewrite read_fixed_decn by (cbn; lia). reflexivity. Qed.

Definition clean_start (text : bytes) : bool :=
  match text with [] => true | c :: _ => negb (is_digit c) && negb (is_sep c) end.

Lemma clean_not_digit : forall text, clean_start text = true -> digit_first text = false.
Proof. intros [|c t] H; [reflexivity|]. cbn in *. destruct (is_digit c); [discriminate|reflexivity]. Qed.

Lemma read_1or2_dec_min : forall v rest, 0 <= v < 100 -> digit_first rest = false ->
  read_1or2 (dec_min v ++ rest) = Some (v, rest).
Proof.
  intros v rest H Hr. unfold dec_min. destruct (v <? 10) eqn:E.
  - cbn [app read_1or2]. rewrite digit_is_digit, digit_val_digit by lia.
    destruct rest as [|c2 tl2]; [reflexivity|]. cbn in Hr. rewrite Hr. reflexivity.
  - rewrite dec2_eq. cbn [app read_1or2].
    rewrite !digit_is_digit, !digit_val_digit by lia. do 2 f_equal. lia.
Qed.

Lemma one_or_two_dec_min : forall v, 0 <= v < 100 -> one_or_two_digits (dec_min v) = true.
Proof.
  intros v H. unfold dec_min. destruct (v <? 10) eqn:E.
  - cbn. apply digit_is_digit. lia.
  - rewrite dec2_eq. cbn [one_or_two_digits].
    destruct (digit_ok (v / 10) ltac:(lia)) as (H1 & _ & _ & _ & H0).
    rewrite H1, H0, digit_is_digit by lia. assert (E0 : (v / 10 =? 0) = false) by lia. rewrite E0. reflexivity.
Qed.

(* ------------------------------------------------------------------ *)
(* names                                                                *)
(* ------------------------------------------------------------------ *)
Lemma byte_eqb_refl : forall b : byte, byte_eqb b b = true.
Proof. intros b. apply Byte.byte_dec_lb. reflexivity. Qed.

Lemma strip_prefix_app : forall p rest, strip_prefix p (p ++ rest) = Some rest.
Proof.
  induction p as [|c p IH]; intros rest; [reflexivity|]. cbn [app strip_prefix].
  rewrite byte_eqb_refl. apply IH.
Qed.

Lemma month_cases : forall m, 1 <= m <= 12 ->
  m = 1 \/ m = 2 \/ m = 3 \/ m = 4 \/ m = 5 \/ m = 6 \/ m = 7 \/ m = 8 \/ m = 9 \/ m = 10 \/ m = 11 \/ m = 12.
Proof. intros m H. lia. Qed.
Lemma wday_cases : forall w, 0 <= w <= 6 ->
  w = 0 \/ w = 1 \/ w = 2 \/ w = 3 \/ w = 4 \/ w = 5 \/ w = 6.
Proof. intros w H. lia. Qed.

Lemma read_long_month : forall m rest, 1 <= m <= 12 ->
  read_name long_months 1 (name_of long_months (m - 1) ++ rest) = Some (m, rest).
Proof.
  intros m rest H.
  destruct (month_cases m H) as [E|[E|[E|[E|[E|[E|[E|[E|[E|[E|[E|E]]]]]]]]]]]; subst m; reflexivity.
Qed.
Lemma read_short_month : forall m rest, 1 <= m <= 12 ->
  read_name short_months 1 (name_of short_months (m - 1) ++ rest) = Some (m, rest).
Proof.
  intros m rest H.
  destruct (month_cases m H) as [E|[E|[E|[E|[E|[E|[E|[E|[E|[E|[E|E]]]]]]]]]]]; subst m; reflexivity.
Qed.
Lemma read_long_day : forall w rest, 0 <= w <= 6 ->
  read_name long_days 0 (name_of long_days w ++ rest) = Some (w, rest).
Proof.
  intros w rest H. destruct (wday_cases w H) as [E|[E|[E|[E|[E|[E|E]]]]]]; subst w; reflexivity.
Qed.
Lemma read_short_day : forall w rest, 0 <= w <= 6 ->
  read_name short_days 0 (name_of short_days w ++ rest) = Some (w, rest).
Proof.
  intros w rest H. destruct (wday_cases w H) as [E|[E|[E|[E|[E|[E|E]]]]]]; subst w; reflexivity.
Qed.

(* a name of one of the tables starts with a letter *)
Lemma month_name_clean : forall m rest, 1 <= m <= 12 ->
  clean_start (name_of long_months (m - 1) ++ rest) = true /\
  clean_start (name_of short_months (m - 1) ++ rest) = true.
Proof.
  intros m rest H.
  destruct (month_cases m H) as [E|[E|[E|[E|[E|[E|[E|[E|[E|[E|[E|E]]]]]]]]]]]; subst m; split; reflexivity.
Qed.
Lemma day_name_clean : forall w rest, 0 <= w <= 6 ->
  clean_start (name_of long_days w ++ rest) = true /\
  clean_start (name_of short_days w ++ rest) = true.
Proof.
  intros w rest H. destruct (wday_cases w H) as [E|[E|[E|[E|[E|[E|E]]]]]]; subst w; split; reflexivity.
Qed.

(* ------------------------------------------------------------------ *)
(* fractions                                                            *)
(* ------------------------------------------------------------------ *)
Lemma frac_trim_S : forall k v,
  frac_trim (S k) v =
  if v =? 0 then [] else digit (v / 10 ^ Z.of_nat k) :: frac_trim k (v mod 10 ^ Z.of_nat k).
Proof. reflexivity. Qed.

Lemma read_fracdigits_S : forall k text,
  read_fracdigits (S k) text =
  match text with
  | c :: tl => if is_digit c
               then let '(v, r) := read_fracdigits k tl in (digit_val c * 10 ^ Z.of_nat k + v, r)
               else (0, text)
  | [] => (0, [])
  end.
Proof. reflexivity. Qed.

Lemma read_fracdigits_nodigit : forall k rest, digit_first rest = false ->
  read_fracdigits k rest = (0, rest).
Proof.
  intros [|k] rest H; [reflexivity|]. rewrite read_fracdigits_S.
  destruct rest as [|c tl]; [reflexivity|]. cbn in H. rewrite H. reflexivity.
Qed.

Lemma read_fracdigits_trim : forall k v rest, 0 <= v < 10 ^ Z.of_nat k -> digit_first rest = false ->
  read_fracdigits k (frac_trim k v ++ rest) = (v, rest).
Proof.
  induction k as [|k IH]; intros v rest H Hr.
  - cbn [frac_trim app read_fracdigits]. change (10 ^ Z.of_nat 0) with 1 in H. f_equal. lia.
  - rewrite frac_trim_S. destruct (v =? 0) eqn:E0.
    + cbn [app]. rewrite read_fracdigits_nodigit by exact Hr. f_equal. lia.
    + cbn [app]. rewrite read_fracdigits_S.
      destruct (lead_digit k v H) as [Hq Hrm].
      rewrite (digit_is_digit _ Hq), (digit_val_digit _ Hq), (IH _ _ Hrm Hr).
      pose proof (pow10_pos k) as Hp. set (p := 10 ^ Z.of_nat k) in *.
      pose proof (Z.div_mod v p ltac:(lia)) as E.
      remember (v / p) as q. remember (v mod p) as r. f_equal. rewrite E. ring.
Qed.

Lemma frac_digits_le : forall n, (frac_digits n <= 9)%nat.
Proof. intros n. unfold frac_digits. apply Nat.le_min_r. Qed.

Lemma frac_unit_pos : forall n, 0 < frac_unit n.
Proof. intros n. unfold frac_unit. apply pow10_pos. Qed.

Lemma frac_unit_split : forall n, frac_unit n * 10 ^ Z.of_nat (frac_digits n) = 1000000000.
Proof.
  intros n. unfold frac_unit. pose proof (frac_digits_le n) as H.
  rewrite <- Z.pow_add_r by lia.
  replace (Z.of_nat (9 - frac_digits n) + Z.of_nat (frac_digits n)) with 9 by lia. reflexivity.
Qed.

(* the digits kept, as a number *)
Lemma frac_kept_range : forall n ns, 0 <= ns < 1000000000 ->
  0 <= ns / frac_unit n < 10 ^ Z.of_nat (frac_digits n).
Proof.
  intros n ns H. pose proof (frac_unit_pos n) as Hu. pose proof (frac_unit_split n) as Hs.
  split; [apply Z.div_pos; lia|]. apply Z.div_lt_upper_bound; [lia|]. rewrite Hs. lia.
Qed.

Lemma trunc_range : forall u ns, 0 < u -> 0 <= ns < 1000000000 -> 0 <= ns / u * u < 1000000000.
Proof.
  intros u ns Hu H. pose proof (Z.div_mod ns u ltac:(lia)) as E.
  pose proof (Z.mod_pos_bound ns u Hu) as Hm.
  assert (0 <= ns / u) by (apply Z.div_pos; lia). nia.
Qed.

(* ------------------------------------------------------------------ *)
(* numeric zones                                                        *)
(* ------------------------------------------------------------------ *)
Definition zone_ok (sh : zshape) (off : Z) : Prop :=
  -360000 < off < 360000 /\ off mod zs_unit sh = 0 /\ ~ (zs_seconds sh = true /\ -60 < off < 0).

Definition sign_byte (off : Z) : byte := if off <? 0 then "-"%byte else "+"%byte.

Lemma append_int2_nonneg : forall x, 0 <= x -> append_int2 x = dec2 x.
Proof. intros x H. unfold append_int2. assert (E : (x <? 0) = false) by lia. rewrite E. reflexivity. Qed.

Lemma zs_unit_cases : forall sh, (zs_unit sh = 3600 /\ sh = ZS_hh) \/
  (zs_unit sh = 60 /\ zs_seconds sh = false /\ zs_minutes sh = true) \/
  (zs_unit sh = 1 /\ zs_seconds sh = true /\ zs_minutes sh = true).
Proof. intros []; cbn; auto. Qed.

(* the text of a numeric zone, for the offsets a zone element can express *)
Lemma render_zone_nf : forall iso sh off, zone_ok sh off -> (iso && (off =? 0)) = false ->
  render_zone iso sh off =
    sign_byte off :: dec2 (Z.abs off / 60 / 60)
    ++ (if zs_colon sh then [":"%byte] else [])
    ++ (if zs_minutes sh then dec2 (Z.abs off / 60 mod 60) else [])
    ++ (if zs_seconds sh then (if zs_colon sh then [":"%byte] else []) ++ dec2 (Z.abs off mod 60) else []).
Proof.
  intros iso sh off (Hr & Hu & Hirr) Hiso. unfold render_zone. rewrite Hiso. cbv zeta.
  assert (Hlow : off < 0 -> off <= -60).
  { intros Hn. destruct (zs_unit_cases sh) as [[E _]|[[E _]|[E [Es _]]]]; rewrite E in Hu; try lia.
    destruct (Z_le_gt_dec off (-60)); [assumption|]. exfalso. apply Hirr. split; [exact Es|lia]. }
  assert (Hneg : (Z.quot off 60 <? 0) = (off <? 0)) by lia. rewrite Hneg.
  assert (Hz : (if off <? 0 then - Z.quot off 60 else Z.quot off 60) = Z.abs off / 60)
    by (destruct (off <? 0) eqn:E; lia). rewrite Hz.
  assert (Hs : Z.rem (if off <? 0 then - off else off) 60 = Z.abs off mod 60)
    by (destruct (off <? 0) eqn:E; lia). rewrite Hs.
  rewrite append_int2_nonneg by lia. reflexivity.
Qed.

Lemma sign_not_Z : forall off, byte_eqb (sign_byte off) "Z"%byte = false.
Proof. intros off. unfold sign_byte. destruct (off <? 0); reflexivity. Qed.

Lemma sign_value : forall off,
  (if byte_eqb (sign_byte off) "+"%byte then Some 1
   else if byte_eqb (sign_byte off) "-"%byte then Some (-1) else None) = Some (if off <? 0 then -1 else 1).
Proof. intros off. unfold sign_byte. destruct (off <? 0); reflexivity. Qed.

Lemma read_zone_render : forall iso sh off rest, zone_ok sh off ->
  read_zone iso sh (render_zone iso sh off ++ rest) = Some (off, rest).
Proof.
  intros iso sh off rest Hok. destruct (iso && (off =? 0)) eqn:Hiso.
  - unfold render_zone. rewrite Hiso. cbn [app read_zone].
    apply andb_prop in Hiso. destruct Hiso as [-> H0]. apply Z.eqb_eq in H0. subst off. reflexivity.
  - rewrite (render_zone_nf _ _ _ Hok Hiso). destruct Hok as (Hr & Hu & Hirr).
    set (a := Z.abs off). assert (Ha : 0 <= a < 360000) by lia.
    assert (Hh : 0 <= a / 60 / 60 < 100) by lia.
    assert (Hm : 0 <= a / 60 mod 60 < 100) by lia.
    assert (Hs : 0 <= a mod 60 < 100) by lia.
    cbn [app]. unfold read_zone. rewrite sign_not_Z, andb_false_r, sign_value.
    destruct sh; cbn [zs_colon zs_minutes zs_seconds negb zs_unit] in *;
      rewrite <- ?app_assoc; cbn [app];
      rewrite read_fixed2_dec2 by exact Hh; cbn [read_colon read_byte];
      rewrite ?byte_eqb_refl;
      try (rewrite read_fixed2_dec2 by exact Hm); cbn [read_colon read_byte];
      rewrite ?byte_eqb_refl;
      try (rewrite read_fixed2_dec2 by exact Hs).
    all: try (assert (E1 : (a / 60 mod 60 <? 60) = true) by lia; rewrite E1).
    all: try (assert (E2 : (a mod 60 <? 60) = true) by lia; rewrite E2).
    all: cbn [andb]; do 2 f_equal; destruct (off <? 0) eqn:En; lia.
Qed.

(* ------------------------------------------------------------------ *)
(* every element: the reader gives back what the renderer was given     *)
(* ------------------------------------------------------------------ *)
Record tm_ok (t : tm) : Prop := {
  ok_year : 0 <= t_year t <= 9999;
  ok_month : 1 <= t_month t <= 12;
  ok_day : 1 <= t_day t <= 31;
  ok_yday : 1 <= t_yday t <= 366;
  ok_wday : 0 <= t_wday t <= 6;
  ok_hour : 0 <= t_hour t <= 23;
  ok_min : 0 <= t_min t <= 59;
  ok_sec : 0 <= t_sec t <= 59;
  ok_nsec : 0 <= t_nsec t < 1000000000
}.

(* what an element needs of the layout's unit and of the zone offset *)
Definition elem_ok (u off : Z) (e : elem) : Prop :=
  match e with
  | ETZ => False
  | EZone _ sh => zone_ok sh off
  | EFrac _ n _ => frac_unit n = u
  | _ => True
  end.

Definition entry (u : Z) (t : tm) (e : elem) : fields :=
  match kind_of e with Some k => [(k, tval u t k)] | None => [] end.

Lemma sep_not_clean : forall (s : byte) (comma : bool), is_sep s = false ->
  byte_eqb s (if comma then ","%byte else "."%byte) = false.
Proof.
  intros s comma H. unfold is_sep in H. apply orb_false_elim in H. destruct H as [H1 H2].
  destruct comma; assumption.
Qed.

Lemma read_frac_render : forall nine n comma ns rest, 0 <= ns < 1000000000 ->
  (nine = true -> clean_start rest = true) ->
  read_elem (EFrac nine n comma) (render_frac nine n comma ns ++ rest)
  = Some ([(FNsec, ns / frac_unit n * frac_unit n)], rest).
Proof.
  intros nine n comma ns rest Hns Hclean. unfold read_elem, render_frac.
  pose proof (frac_unit_pos n) as Hu. set (u := frac_unit n) in *.
  set (sep := if comma then ","%byte else "."%byte).
  destruct nine.
  - specialize (Hclean eq_refl). pose proof (trunc_range u ns Hu Hns) as Hw.
    set (w := ns / u * u) in *.
    destruct (frac_trim 9 w) as [|b l] eqn:Et.
    + assert (E0 : w = 0).
      { rewrite frac_trim_S in Et. destruct (w =? 0) eqn:E; [lia|discriminate]. }
      rewrite E0. cbn [app]. destruct rest as [|s [|c tl]]; try reflexivity.
      cbn in Hclean. apply andb_prop in Hclean. destruct Hclean as [_ Hsep].
      apply negb_true_iff in Hsep. unfold sep. rewrite (sep_not_clean s comma Hsep). reflexivity.
    + assert (Eb : is_digit b = true).
      { rewrite frac_trim_S in Et. destruct (w =? 0); [discriminate|]. injection Et as Eb _.
        subst b. apply digit_is_digit. apply (lead_digit 8 w). exact Hw. }
      cbn [app]. rewrite byte_eqb_refl, Eb. cbn [andb].
      change (b :: l ++ rest) with ((b :: l) ++ rest). rewrite <- Et.
      rewrite read_fracdigits_trim by (try exact Hw; apply clean_not_digit, Hclean).
      assert (Em : (w mod u =? 0) = true) by (subst w; rewrite Z_mod_mult; reflexivity).
      rewrite Em. reflexivity.
  - cbn [app read_byte]. fold sep. rewrite byte_eqb_refl.
    rewrite read_fixed_decn by (apply frac_kept_range; exact Hns). reflexivity.
Qed.

Lemma hour12_range : forall h, 0 <= h <= 23 -> 1 <= hour12 h <= 12.
Proof. intros h H. unfold hour12. destruct (h mod 12 =? 0) eqn:E; lia. Qed.

Lemma read_elem_render : forall e t rest u, tm_ok t -> elem_ok u (t_off t) e ->
  (var_width e = true -> clean_start rest = true) ->
  read_elem e (render_elem e t ++ rest) = Some (entry u t e, rest).
Proof.
  intros e t rest u Ht He Hcl. destruct Ht.
  pose proof (hour12_range _ ok_hour0) as H12.
  destruct e; unfold entry; cbn [kind_of tval].
  1-24: unfold read_elem, render_elem.
  1-24: try (specialize (Hcl eq_refl); apply clean_not_digit in Hcl).
  - rewrite read_long_month by assumption. reflexivity.
  - rewrite read_short_month by assumption. reflexivity.
  - rewrite read_1or2_dec_min by (try assumption; lia). reflexivity.
  - rewrite read_fixed2_dec2 by lia. reflexivity.
  - rewrite read_long_day by assumption. reflexivity.
  - rewrite read_short_day by assumption. reflexivity.
  - rewrite read_1or2_dec_min by (try assumption; lia). reflexivity.
  - (* _2 *)
    destruct (t_day t <? 10) eqn:E.
    + unfold dec_min. rewrite E. cbn [app read_fixed]. 
      rewrite byte_eqb_refl. rewrite digit_is_digit, digit_val_digit by lia. reflexivity.
    + unfold dec_min. rewrite E. rewrite dec2_eq. cbn [app].
      destruct (digit_ok (t_day t / 10) ltac:(lia)) as (_ & _ & _ & Hsp & _). rewrite Hsp.
      change (digit (t_day t / 10) :: digit (t_day t mod 10) :: rest)
        with ([digit (t_day t / 10); digit (t_day t mod 10)] ++ rest).
      rewrite <- dec2_eq, read_fixed2_dec2 by lia. reflexivity.
  - rewrite read_fixed2_dec2 by lia. reflexivity.
  - (* __2 *)
    destruct (t_yday t <? 100) eqn:E100; [destruct (t_yday t <? 10) eqn:E10|].
    + unfold dec_min. rewrite E10. cbn [app read_fixed]. rewrite !byte_eqb_refl.
      rewrite digit_is_digit, digit_val_digit by lia. reflexivity.
    + unfold dec_min. rewrite E10, dec2_eq. cbn [app]. rewrite byte_eqb_refl.
      destruct (digit_ok (t_yday t / 10) ltac:(lia)) as (_ & _ & _ & Hsp & _). rewrite Hsp.
      change (digit (t_yday t / 10) :: digit (t_yday t mod 10) :: rest)
        with ([digit (t_yday t / 10); digit (t_yday t mod 10)] ++ rest).
      rewrite <- dec2_eq, read_fixed2_dec2 by lia. reflexivity.
    + cbn [app]. rewrite !decn_S. cbn [decn app].
      change (10 ^ Z.of_nat 2) with 100.
      destruct (digit_ok (t_yday t / 100) ltac:(lia)) as (_ & _ & _ & Hsp & _). rewrite Hsp.
      change (10 ^ Z.of_nat 1) with 10. change (10 ^ Z.of_nat 0) with 1.
      cbn [read_fixed]. rewrite !digit_is_digit, !digit_val_digit by lia.
      match goal with |- one _ (Some (?v, _)) = _ => replace v with (t_yday t) by lia end. reflexivity.
  - rewrite read_fixed_decn by (change (10 ^ Z.of_nat 3) with 1000; lia). reflexivity.
  - rewrite read_fixed2_dec2 by lia. reflexivity.
  - rewrite read_1or2_dec_min by (try assumption; lia). reflexivity.
  - rewrite read_fixed2_dec2 by lia. reflexivity.
  - rewrite read_1or2_dec_min by (try assumption; lia). reflexivity.
  - rewrite read_fixed2_dec2 by lia. reflexivity.
  - rewrite read_1or2_dec_min by (try assumption; lia). reflexivity.
  - rewrite read_fixed2_dec2 by lia. reflexivity.
  - rewrite read_fixed_decn by (change (10 ^ Z.of_nat 4) with 10000; lia). reflexivity.
  - rewrite read_fixed2_dec2 by lia. reflexivity.
  - destruct (12 <=? t_hour t); reflexivity.
  - destruct (12 <=? t_hour t); reflexivity.
  - destruct He.
  - rewrite read_zone_render by exact He. reflexivity.
  - cbn in He. change (render_elem (EFrac nine n comma) t) with (render_frac nine n comma (t_nsec t)).
    rewrite read_frac_render; [rewrite He; reflexivity|assumption|].
    intros E9. apply Hcl. subst nine. reflexivity.
Qed.

(* ------------------------------------------------------------------ *)
(* whole layouts                                                        *)
(* ------------------------------------------------------------------ *)
Lemma render_zone_head : forall iso sh off rest, clean_start (render_zone iso sh off ++ rest) = true.
Proof.
  intros iso sh off rest. unfold render_zone. destruct (iso && (off =? 0)); [reflexivity|].
  cbv zeta. destruct (Z.quot off 60 <? 0); reflexivity.
Qed.

Lemma render_items_clean : forall its t, tm_ok t -> starts_clean its = true ->
  clean_start (render_items its t) = true.
Proof.
  intros [|[c|e] more] t Ht H; [reflexivity|exact H|]. destruct Ht.
  cbn [render_items render_item].
  destruct e; try discriminate H; unfold render_elem.
  - apply month_name_clean; assumption.
  - apply month_name_clean; assumption.
  - apply day_name_clean; assumption.
  - apply day_name_clean; assumption.
  - destruct (12 <=? t_hour t); reflexivity.
  - destruct (12 <=? t_hour t); reflexivity.
  - apply render_zone_head.
Qed.

(* the fields a layout's elements deliver, latest first, on top of acc *)
Fixpoint expected (its : list item) (u : Z) (t : tm) (acc : fields) : fields :=
  match its with
  | [] => acc
  | Lit _ :: more => expected more u t acc
  | El e :: more => expected more u t (entry u t e ++ acc)
  end.

Lemma read_items_render : forall its t u acc, tm_ok t -> follows_ok its = true ->
  (forall e, In (El e) its -> elem_ok u (t_off t) e) ->
  read_items its (render_items its t) acc = Some (expected its u t acc, []).
Proof.
  induction its as [|[c|e] more IH]; intros t u acc Ht Hf Hok.
  - reflexivity.
  - cbn [render_items render_item read_items read_item app read_byte]. rewrite byte_eqb_refl.
    cbn [app expected]. apply IH; [assumption|exact Hf|]. intros e He. apply Hok. right. exact He.
  - cbn [follows_ok] in Hf. apply andb_prop in Hf. destruct Hf as [Hf Hmore].
    apply andb_prop in Hf. destruct Hf as [_ Hvar].
    cbn [render_items render_item read_items read_item].
    rewrite (read_elem_render e t (render_items more t) u Ht).
    + cbn [expected]. apply IH; [assumption|exact Hmore|]. intros e' He'. apply Hok. right. exact He'.
    + apply Hok. left. reflexivity.
    + intros Hv. rewrite Hv in Hvar. apply render_items_clean; assumption.
Qed.

Lemma fkind_eqb_eq : forall a b, fkind_eqb a b = true -> a = b.
Proof. intros [] []; cbn; intros H; try reflexivity; discriminate H. Qed.

Lemma has_kind_cons_lit : forall c more k, has_kind (Lit c :: more) k = has_kind more k.
Proof. reflexivity. Qed.
Lemma has_kind_cons_el : forall e more k,
  has_kind (El e :: more) k =
  (match kind_of e with Some k' => fkind_eqb k' k | None => false end) || has_kind more k.
Proof. reflexivity. Qed.

Lemma get_expected : forall its u t acc k,
  get (expected its u t acc) k = if has_kind its k then Some (tval u t k) else get acc k.
Proof.
  induction its as [|[c|e] more IH]; intros u t acc k.
  - reflexivity.
  - cbn [expected]. rewrite has_kind_cons_lit. apply IH.
  - cbn [expected]. rewrite has_kind_cons_el, IH.
    destruct (has_kind more k); [rewrite orb_true_r; reflexivity|]. rewrite orb_false_r.
    unfold entry. destruct (kind_of e) as [k'|]; [|reflexivity].
    cbn [app get]. destruct (fkind_eqb k' k) eqn:E; [|reflexivity].
    apply fkind_eqb_eq in E. subst k'. reflexivity.
Qed.

(* ---- the conditions of the round trip, element by element, from the boolean domain ---- *)
Lemma has_elem_in : forall p its e, In (El e) its -> p e = true -> has_elem p its = true.
Proof.
  intros p its e Hin Hp. unfold has_elem. apply existsb_exists. exists (El e). split; assumption.
Qed.

Lemma zone_fits_elem : forall its off iso sh, -360000 < off < 360000 ->
  zone_fits its off = true -> In (El (EZone iso sh)) its -> zone_ok sh off.
Proof.
  intros its off iso sh Hr Hz Hin. unfold zone_fits in Hz. apply andb_prop in Hz. destruct Hz as [Hu Hirr].
  apply Z.eqb_eq in Hu. split; [exact Hr|]. split.
  - unfold zone_unit in Hu.
    destruct (has_elem (fun e => match e with EZone _ ZS_hh => true | _ => false end) its) eqn:E1.
    + destruct sh; cbn; lia.
    + destruct (has_elem (fun e => match e with EZone _ sh0 => negb (zs_seconds sh0) | _ => false end) its) eqn:E2.
      * destruct sh; cbn; try lia.
        rewrite (has_elem_in _ its (EZone iso ZS_hh) Hin eq_refl) in E1. discriminate.
      * destruct sh; cbn; try lia.
        -- rewrite (has_elem_in _ its (EZone iso ZS_hhmm) Hin eq_refl) in E2. discriminate.
        -- rewrite (has_elem_in _ its (EZone iso ZS_hh_mm) Hin eq_refl) in E2. discriminate.
        -- rewrite (has_elem_in _ its (EZone iso ZS_hh) Hin eq_refl) in E1. discriminate.
  - intros [Hs Hneg]. unfold zone_has_seconds in Hirr.
    rewrite (has_elem_in _ its (EZone iso sh) Hin Hs) in Hirr. lia.
Qed.

Lemma follows_ok_readable : forall its e, follows_ok its = true -> In (El e) its -> readable e = true.
Proof.
  induction its as [|[c|e'] more IH]; intros e Hf Hin.
  - destruct Hin.
  - destruct Hin as [Hin|Hin]; [discriminate Hin|]. apply IH; assumption.
  - cbn [follows_ok] in Hf. apply andb_prop in Hf. destruct Hf as [Hf Hmore].
    apply andb_prop in Hf. destruct Hf as [Hr _].
    destruct Hin as [Hin|Hin]; [injection Hin as <-; exact Hr|]. apply IH; assumption.
Qed.

Lemma fracs_uniform_elem : forall its nine n comma, fracs_uniform its = true ->
  In (El (EFrac nine n comma)) its -> frac_unit n = layout_unit its.
Proof.
  intros its nine n comma Hu Hin. unfold fracs_uniform in Hu. rewrite forallb_forall in Hu.
  specialize (Hu _ Hin). cbn in Hu. lia.
Qed.

Lemma items_parse_elem_ok : forall its off, -360000 < off < 360000 ->
  items_parse its = true -> zone_fits its off = true ->
  forall e, In (El e) its -> elem_ok (layout_unit its) off e.
Proof.
  intros its off Hr Hp Hz e Hin. unfold items_parse in Hp. apply andb_prop in Hp. destruct Hp as [Hf Hu].
  pose proof (follows_ok_readable its e Hf Hin) as Hread.
  destruct e; try exact I; cbn [elem_ok].
  - discriminate Hread.
  - exact (zone_fits_elem its off iso sh Hr Hz Hin).
  - exact (fracs_uniform_elem its nine n comma Hu Hin).
Qed.

Lemma no_frac_unit : forall its, has_kind its FNsec = false -> layout_unit its = 1000000000.
Proof.
  induction its as [|[c|e] more IH]; intros H; [reflexivity|exact (IH H)|].
  rewrite has_kind_cons_el in H. apply orb_false_elim in H. destruct H as [He Hm].
  destruct e; try discriminate He; exact (IH Hm).
Qed.

(* ------------------------------------------------------------------ *)
(* the broken-down instant                                              *)
(* ------------------------------------------------------------------ *)
Lemma days_in_month_le : forall y m, days_in_month y m <= 31.
Proof.
  intros y m. unfold days_in_month. destruct (m =? 2); [destruct (is_leap y); lia|].
  destruct ((m =? 4) || (m =? 6) || (m =? 9) || (m =? 11)); lia.
Qed.

(* days before the first of March of year y, counted from the first of March of year 0 *)
Lemma dfc_closed : forall y m d,
  days_from_civil y m d =
  let y' := if m <=? 2 then y - 1 else y in
  365 * y' + y' / 4 - y' / 100 + y' / 400 + (153 * (if 2 <? m then m - 3 else m + 9) + 2) / 5 + d - 1 - 719468.
Proof. intros y m d. unfold days_from_civil. cbv zeta. destruct (m <=? 2); lia. Qed.

Lemma yday_range : forall y m d, valid_date y m d = true ->
  1 <= days_from_civil y m d - days_from_civil y 1 1 + 1 <= 366.
Proof.
  intros y m d Hv. unfold valid_date in Hv.
  assert (Hm : 1 <= m <= 12) by lia.
  assert (Hd : 1 <= d <= days_in_month y m) by lia. clear Hv.
  pose proof (days_in_month_le y m) as H31.
  rewrite !dfc_closed. cbv zeta. change (1 <=? 2) with true. change (2 <? 1) with false. cbv iota.
  destruct (m <=? 2) eqn:E2.
  - assert (E3 : (2 <? m) = false) by lia. rewrite E3. lia.
  - assert (E3 : (2 <? m) = true) by lia. rewrite E3.
    assert (Hd' : m = 3 \/ m = 5 \/ m = 7 \/ m = 8 \/ m = 10 \/ m = 12 \/ ((m = 4 \/ m = 6 \/ m = 9 \/ m = 11) /\ d <= 30)).
    { unfold days_in_month in Hd. assert (E : (m =? 2) = false) by lia. rewrite E in Hd.
      destruct ((m =? 4) || (m =? 6) || (m =? 9) || (m =? 11)) eqn:E30; lia. }
    lia.
Qed.

Lemma tm_of_ok : forall sec nsec off ab,
  tm_in_range (tm_of sec nsec off ab) = true -> tm_ok (tm_of sec nsec off ab).
Proof.
  intros sec nsec off ab Hr. unfold tm_in_range in Hr. unfold tm_of in *.
  pose proof (dfc_cfd ((sec + off) / 86400)) as Hc.
  destruct (civil_from_days ((sec + off) / 86400)) as [[y m] d].
  destruct Hc as (Hn & Hm & Hd). cbn in Hr.
  pose proof (days_in_month_le y m) as H31.
  constructor; cbn; try lia.
  - rewrite <- Hn. apply yday_range. unfold valid_date. lia.
  - unfold weekday_of_days. lia.
Qed.

Lemma tm_of_date : forall sec nsec off ab,
  let t := tm_of sec nsec off ab in
  valid_date (t_year t) (t_month t) (t_day t) = true /\
  days_from_civil (t_year t) (t_month t) (t_day t) = (sec + off) / 86400 /\
  t_hour t = (sec + off) mod 86400 / 3600 /\ t_min t = (sec + off) mod 86400 / 60 mod 60 /\
  t_sec t = (sec + off) mod 86400 mod 60 /\ t_nsec t = nsec /\ t_off t = off.
Proof.
  intros sec nsec off ab. unfold tm_of.
  pose proof (dfc_cfd ((sec + off) / 86400)) as Hc.
  destruct (civil_from_days ((sec + off) / 86400)) as [[y m] d].
  destruct Hc as (Hn & Hm & Hd). cbn. unfold valid_date. repeat split; try reflexivity; try assumption. lia.
Qed.

(* ------------------------------------------------------------------ *)
(* fields -> instant                                                    *)
(* ------------------------------------------------------------------ *)
Lemma hour12_back : forall h, 0 <= h <= 23 ->
  hour12 h mod 12 + (if (if 12 <=? h then 1 else 0) =? 1 then 12 else 0) = h.
Proof.
  intros h H. unfold hour12. destruct (h mod 12 =? 0) eqn:E; destruct (12 <=? h) eqn:E12; cbn; lia.
Qed.

Lemma combine_roundtrip : forall its f sec nsec off ab,
  let t := tm_of sec nsec off ab in let u := layout_unit its in
  tm_ok t -> items_roundtrip its = true ->
  (forall k, get f k = if has_kind its k then Some (tval u t k) else None) ->
  combine f = Some (sec, nsec / u * u, off).
Proof.
  intros its f sec nsec off ab t u Ht Hrt Hget.
  destruct (tm_of_date sec nsec off ab) as (Hvd & Hdays & Hh & Hmi & Hs & Hns & Hoff). fold t in Hvd, Hdays, Hh, Hmi, Hs, Hns, Hoff.
  unfold items_roundtrip in Hrt.
  repeat (apply andb_prop in Hrt; let H := fresh "Hk" in destruct Hrt as [Hrt H]).
  (* Hk: FOff, Hk0: FSec, Hk1: FMin, Hk2: hour, Hk3: FDay, Hk4: FMonth, Hk5: FYear *)
  unfold combine.
  rewrite (Hget FYear), Hk5. rewrite (Hget FMonth), Hk4. rewrite (Hget FDay), Hk3.
  rewrite (Hget FMin), Hk1. rewrite (Hget FSec), Hk0. rewrite (Hget FOff), Hk.
  cbn [tval dflt]. rewrite Hvd.
  assert (Hhour :
    match get f FHour with
    | Some h => if h <? 24 then Some h else None
    | None => match get f FH12 with
              | Some h12 => if (1 <=? h12) && (h12 <=? 12)
                            then Some (h12 mod 12 + (if dflt 0 (get f FPm) =? 1 then 12 else 0))
                            else None
              | None => Some 0
              end
    end = Some (t_hour t)).
  { pose proof (ok_hour _ Ht) as ok_hour0. rewrite (Hget FHour). destruct (has_kind its FHour) eqn:EH.
    - cbn [tval]. assert (E : (t_hour t <? 24) = true) by lia. rewrite E. reflexivity.
    - cbn [orb] in Hk2. apply andb_prop in Hk2. destruct Hk2 as [E12 Epm].
      rewrite (Hget FH12), E12, (Hget FPm), Epm. cbn [tval dflt].
      pose proof (hour12_range _ ok_hour0) as H12.
      assert (E : ((1 <=? hour12 (t_hour t)) && (hour12 (t_hour t) <=? 12)) = true) by lia. rewrite E.
      rewrite hour12_back by assumption. reflexivity. }
  rewrite Hhour. pose proof (ok_min _ Ht) as ok_min0. pose proof (ok_sec _ Ht) as ok_sec0.
  pose proof (ok_nsec _ Ht) as ok_nsec0.
  assert (E : ((t_min t <? 60) && (t_sec t <? 60)) = true) by lia. rewrite E.
  assert (Ens : dflt 0 (get f FNsec) = nsec / u * u).
  { rewrite (Hget FNsec). destruct (has_kind its FNsec) eqn:EN.
    - cbn [tval dflt]. rewrite Hns. reflexivity.
    - cbn [dflt]. subst u. rewrite (no_frac_unit its EN). rewrite Hns in ok_nsec0. lia. }
  rewrite Ens, Hdays, Hh, Hmi, Hs, Hoff. do 2 f_equal. f_equal. lia.
Qed.

(* ------------------------------------------------------------------ *)
(* the round trip                                                       *)
(* ------------------------------------------------------------------ *)
Lemma instant_in_range : forall sec nsec off ab, instant_ok sec nsec off ->
  tm_in_range (tm_of sec nsec off ab) = true.
Proof.
  intros sec nsec off ab (Hy & Hn & Ho). unfold civil_year in Hy. unfold tm_in_range, tm_of.
  destruct (civil_from_days ((sec + off) / 86400)) as [[y m] d]. cbn. lia.
Qed.

Lemma format_time_defined : forall layout sec nsec off ab, instant_ok sec nsec off ->
  format_time layout sec nsec off ab = Some (render_items (tokens layout) (tm_of sec nsec off ab)).
Proof.
  intros layout sec nsec off ab H. unfold format_time, format_tm.
  rewrite (instant_in_range _ _ _ ab H). reflexivity.
Qed.

(* fields: every readable layout gives back every field it carries, to its precision,
   and nothing else *)
Lemma parse_fields_format : forall layout sec nsec off ab,
  layout_parses layout = true -> instant_ok sec nsec off -> zone_fits (tokens layout) off = true ->
  exists text f,
    format_time layout sec nsec off ab = Some text /\
    parse_fields layout text = Some f /\
    forall k, get f k = if has_kind (tokens layout) k
                        then Some (tval (layout_unit (tokens layout)) (tm_of sec nsec off ab) k)
                        else None.
Proof.
  intros layout sec nsec off ab Hp Hi Hz. unfold layout_parses in Hp.
  set (its := tokens layout) in *. set (t := tm_of sec nsec off ab).
  pose proof (tm_of_ok sec nsec off ab (instant_in_range _ _ _ ab Hi)) as Ht. fold t in Ht.
  assert (Hoff : t_off t = off) by apply (tm_of_date sec nsec off ab).
  exists (render_items its t), (expected its (layout_unit its) t []).
  split; [apply format_time_defined; exact Hi|]. split.
  - unfold parse_fields. fold its.
    rewrite (read_items_render its t (layout_unit its) [] Ht).
    + reflexivity.
    + unfold items_parse in Hp. apply andb_prop in Hp. apply Hp.
    + rewrite Hoff. apply items_parse_elem_ok; [apply Hi|exact Hp|exact Hz].
  - intros k. rewrite get_expected. reflexivity.
Qed.

(* THE PROPERTY: reading the text back gives the instant, cut to the layout's unit, and the offset *)
Lemma parse_time_format : forall layout sec nsec off ab,
  layout_roundtrips layout = true -> instant_ok sec nsec off -> zone_fits (tokens layout) off = true ->
  exists text,
    format_time layout sec nsec off ab = Some text /\
    parse_time layout text =
      Some (sec, nsec / layout_unit (tokens layout) * layout_unit (tokens layout), off).
Proof.
  intros layout sec nsec off ab Hrt Hi Hz.
  assert (Hp : layout_parses layout = true).
  { unfold layout_roundtrips, items_roundtrip in Hrt. unfold layout_parses.
    do 7 (apply andb_prop in Hrt; destruct Hrt as [Hrt _]). exact Hrt. }
  destruct (parse_fields_format layout sec nsec off ab Hp Hi Hz) as (text & f & Hfmt & Hpf & Hget).
  exists text. split; [exact Hfmt|]. unfold parse_time. rewrite Hpf.
  apply (combine_roundtrip (tokens layout) f sec nsec off ab).
  - apply tm_of_ok, instant_in_range, Hi.
  - exact Hrt.
  - exact Hget.
Qed.

(* ------------------------------------------------------------------ *)
(* the shape of every element's text                                    *)
(* ------------------------------------------------------------------ *)
Lemma frac_trim_nil : forall k v, 0 <= v < 10 ^ Z.of_nat k -> frac_trim k v = [] -> v = 0.
Proof.
  intros [|k] v H E.
  - change (10 ^ Z.of_nat 0) with 1 in H. lia.
  - rewrite frac_trim_S in E. destruct (v =? 0) eqn:E0; [lia|discriminate].
Qed.

Lemma frac_trim_digits : forall k v, 0 <= v < 10 ^ Z.of_nat k -> all_digits (frac_trim k v) = true.
Proof.
  induction k as [|k IH]; intros v H; [reflexivity|]. rewrite frac_trim_S.
  destruct (v =? 0); [reflexivity|]. destruct (lead_digit k v H) as [Hq Hr].
  unfold all_digits. cbn [forallb]. rewrite (digit_is_digit _ Hq). apply (IH _ Hr).
Qed.

Lemma frac_trim_last : forall k v, 0 <= v < 10 ^ Z.of_nat k -> frac_trim k v <> [] ->
  byte_eqb (last (frac_trim k v) "0"%byte) "0"%byte = false.
Proof.
  induction k as [|k IH]; intros v H Hne; [contradiction Hne; reflexivity|].
  rewrite frac_trim_S in *. destruct (v =? 0) eqn:E0; [contradiction Hne; reflexivity|].
  destruct (lead_digit k v H) as [Hq Hr].
  destruct (frac_trim k (v mod 10 ^ Z.of_nat k)) as [|b l] eqn:Et.
  - cbn [last]. apply (frac_trim_nil _ _ Hr) in Et.
    destruct (digit_ok _ Hq) as (_ & _ & _ & _ & H0). rewrite H0.
    pose proof (pow10_pos k) as Hp. set (p := 10 ^ Z.of_nat k) in *.
    pose proof (Z.div_mod v p ltac:(lia)) as E. rewrite Et in E.
    assert (v / p <> 0) by (intros Ez; rewrite Ez in E; lia). lia.
  - change (last (digit (v / 10 ^ Z.of_nat k) :: b :: l) "0"%byte) with (last (b :: l) "0"%byte).
    rewrite <- Et. apply (IH _ Hr). rewrite Et. discriminate.
Qed.

Lemma frac_trim_length : forall k j v, (j <= k)%nat -> 0 <= v < 10 ^ Z.of_nat k ->
  v mod 10 ^ Z.of_nat (k - j) = 0 -> (length (frac_trim k v) <= j)%nat.
Proof.
  induction k as [|k IH]; intros j v Hj H Hm; [cbn; lia|].
  rewrite frac_trim_S. destruct (v =? 0) eqn:E0; [cbn; lia|].
  destruct j as [|j].
  - exfalso. rewrite Nat.sub_0_r in Hm. rewrite Z.mod_small in Hm by exact H. lia.
  - cbn [length]. apply le_n_S. destruct (lead_digit k v H) as [_ Hr].
    apply IH; [lia|exact Hr|].
    change (S k - S j)%nat with (k - j)%nat in Hm.
    pose proof (pow10_pos (k - j)) as He. pose proof (pow10_pos k) as Hp.
    assert (Hd : (10 ^ Z.of_nat (k - j) | 10 ^ Z.of_nat k)).
    { exists (10 ^ Z.of_nat j). rewrite <- Z.pow_add_r by lia. f_equal. lia. }
    apply Z.mod_divide; [lia|]. apply Z.mod_divide in Hm; [|lia].
    rewrite Z.mod_eq by lia. apply Z.divide_sub_r; [exact Hm|].
    apply Z.divide_mul_l. exact Hd.
Qed.

(* what the text of a numeric zone needs: a two-digit hour, and not Go's +00:00:-SS *)
Definition zone_prints (sh : zshape) (off : Z) : Prop :=
  -360000 < off < 360000 /\ ~ (zs_seconds sh = true /\ -60 < off < 0).
Definition shape_hyp (off : Z) (e : elem) : Prop :=
  match e with EZone _ sh => zone_prints sh off | _ => True end.

Lemma dec2_shape : forall v, 0 <= v < 100 -> (length (dec2 v) =? 2)%nat && all_digits (dec2 v) = true.
Proof.
  intros v H. unfold dec2. rewrite decn_length, decn_digits by (change (10 ^ Z.of_nat 2) with 100; lia).
  reflexivity.
Qed.

Lemma zone_shape : forall iso sh off, zone_prints sh off ->
  elem_shape (EZone iso sh) (render_zone iso sh off) = true.
Proof.
  intros iso sh off (Hr & Hirr). unfold elem_shape, render_zone.
  destruct (iso && (off =? 0)) eqn:Hiso.
  - apply andb_prop in Hiso. destruct Hiso as [-> _]. reflexivity.
  - cbv zeta. apply orb_true_iff. right.
    set (zone := Z.quot off 60). set (neg := zone <? 0).
    set (zone' := if neg then - zone else zone).
    set (absoff := if neg then - off else off).
    assert (Hz : 0 <= zone' < 6000) by (subst zone' neg zone; destruct (Z.quot off 60 <? 0) eqn:E; lia).
    assert (Hh : 0 <= zone' / 60 < 100) by lia.
    assert (Hm : 0 <= zone' mod 60 < 100) by lia.
    assert (Hs : zs_seconds sh = true -> 0 <= Z.rem absoff 60 < 100).
    { intros Es. assert (~ -60 < off < 0) by tauto.
      subst absoff neg zone. destruct (Z.quot off 60 <? 0) eqn:E; lia. }
    assert (Sg : byte_eqb (if neg then "-"%byte else "+"%byte) "+"%byte
                 || byte_eqb (if neg then "-"%byte else "+"%byte) "-"%byte = true)
      by (destruct neg; reflexivity).
    pose proof (digit_is_digit (zone' / 60 / 10) ltac:(lia)) as D1.
    pose proof (digit_is_digit ((zone' / 60) mod 10) ltac:(lia)) as D2.
    pose proof (digit_is_digit (zone' mod 60 / 10) ltac:(lia)) as D3.
    pose proof (digit_is_digit ((zone' mod 60) mod 10) ltac:(lia)) as D4.
    destruct sh; cbn [zs_colon zs_minutes zs_seconds] in *; try specialize (Hs eq_refl);
      try rewrite (append_int2_nonneg _ (proj1 Hs)); rewrite !dec2_eq; cbn [app numeric_zone_shape];
      rewrite Sg; unfold all_digits; cbn [forallb andb]; rewrite ?D1, ?D2, ?D3, ?D4; cbn [andb];
      try reflexivity;
      rewrite (digit_is_digit (Z.rem absoff 60 / 10)), (digit_is_digit (Z.rem absoff 60 mod 10)) by lia;
      reflexivity.
Qed.

Lemma frac_shape : forall nine n comma ns, 0 <= ns < 1000000000 ->
  elem_shape (EFrac nine n comma) (render_frac nine n comma ns) = true.
Proof.
  intros nine n comma ns Hns. unfold elem_shape, render_frac.
  pose proof (frac_unit_pos n) as Hu. destruct nine.
  - pose proof (trunc_range (frac_unit n) ns Hu Hns) as Hw. set (w := ns / frac_unit n * frac_unit n) in *.
    destruct (frac_trim 9 w) as [|b l] eqn:Et; [reflexivity|].
    rewrite byte_eqb_refl, <- Et.
    rewrite (frac_trim_digits 9 w Hw), (frac_trim_last 9 w Hw) by (rewrite Et; discriminate).
    assert (L1 : (1 <= length (frac_trim 9 w))%nat) by (rewrite Et; cbn; lia).
    assert (L2 : (length (frac_trim 9 w) <= frac_digits n)%nat).
    { apply frac_trim_length; [apply frac_digits_le|exact Hw|].
      subst w. unfold frac_unit. apply Z_mod_mult. }
    rewrite (proj2 (Nat.leb_le _ _) L1), (proj2 (Nat.leb_le _ _) L2). reflexivity.
  - rewrite byte_eqb_refl, decn_length, Nat.eqb_refl.
    rewrite decn_digits by (apply frac_kept_range; exact Hns). reflexivity.
Qed.

Lemma name_shapes : forall m w, 1 <= m <= 12 -> 0 <= w <= 6 ->
  existsb (bytes_eqb (name_of long_months (m - 1))) long_months = true /\
  existsb (bytes_eqb (name_of short_months (m - 1))) short_months = true /\
  existsb (bytes_eqb (name_of long_days w)) long_days = true /\
  existsb (bytes_eqb (name_of short_days w)) short_days = true.
Proof.
  intros m w Hm Hw.
  destruct (month_cases m Hm) as [E|[E|[E|[E|[E|[E|[E|[E|[E|[E|[E|E]]]]]]]]]]]; subst m;
  destruct (wday_cases w Hw) as [E|[E|[E|[E|[E|[E|E]]]]]]; subst w; repeat split; reflexivity.
Qed.

Lemma elem_shape_render : forall e t, tm_ok t -> shape_hyp (t_off t) e ->
  elem_shape e (render_elem e t) = true.
Proof.
  intros e t Ht He.
  pose proof (ok_year _ Ht) as ok_year0. pose proof (ok_month _ Ht) as ok_month0.
  pose proof (ok_day _ Ht) as ok_day0. pose proof (ok_yday _ Ht) as ok_yday0.
  pose proof (ok_wday _ Ht) as ok_wday0. pose proof (ok_hour _ Ht) as ok_hour0.
  pose proof (ok_min _ Ht) as ok_min0. pose proof (ok_sec _ Ht) as ok_sec0.
  pose proof (ok_nsec _ Ht) as ok_nsec0.
  pose proof (hour12_range _ ok_hour0) as H12.
  destruct (name_shapes _ _ ok_month0 ok_wday0) as (N1 & N2 & N3 & N4).
  destruct e; unfold render_elem; try exact N1; try exact N2; try exact N3; try exact N4.
  - apply one_or_two_dec_min. lia.
  - apply dec2_shape. lia.
  - apply one_or_two_dec_min. lia.
  - (* _2 *) unfold elem_shape, dec_min. destruct (t_day t <? 10) eqn:E.
    + cbn. apply digit_is_digit. lia.
    + rewrite dec2_eq. destruct (digit_ok (t_day t / 10) ltac:(lia)) as (D1 & _ & _ & _ & D0).
      rewrite D1, D0, (digit_is_digit (t_day t mod 10)) by lia.
      assert (E0 : (t_day t / 10 =? 0) = false) by lia. rewrite E0. rewrite orb_true_r. reflexivity.
  - apply dec2_shape. lia.
  - (* __2 *) unfold elem_shape, dec_min.
    destruct (t_yday t <? 100) eqn:E100; [destruct (t_yday t <? 10) eqn:E10|].
    + cbn. rewrite digit_is_digit by lia. reflexivity.
    + rewrite dec2_eq. cbn [app]. rewrite byte_eqb_refl.
      destruct (digit_ok (t_yday t / 10) ltac:(lia)) as (D1 & _ & _ & _ & D0).
      rewrite D1, D0, (digit_is_digit (t_yday t mod 10)) by lia.
      assert (E0 : (t_yday t / 10 =? 0) = false) by lia. rewrite E0.
      cbn. rewrite orb_true_r. reflexivity.
    + cbn [app]. rewrite !decn_S. cbn [decn].
      change (10 ^ Z.of_nat 2) with 100. change (10 ^ Z.of_nat 1) with 10. change (10 ^ Z.of_nat 0) with 1.
      destruct (digit_ok (t_yday t / 100) ltac:(lia)) as (D1 & _ & _ & _ & D0).
      rewrite D1, D0, (digit_is_digit (t_yday t mod 100 / 10)), (digit_is_digit ((t_yday t mod 100) mod 10 / 1)) by lia.
      assert (E0 : (t_yday t / 100 =? 0) = false) by lia. rewrite E0.
      cbn. rewrite !orb_true_r. reflexivity.
  - unfold elem_shape. rewrite decn_length, decn_digits by (change (10 ^ Z.of_nat 3) with 1000; lia). reflexivity.
  - apply dec2_shape. lia.
  - apply one_or_two_dec_min. lia.
  - apply dec2_shape. lia.
  - apply one_or_two_dec_min. lia.
  - apply dec2_shape. lia.
  - apply one_or_two_dec_min. lia.
  - apply dec2_shape. lia.
  - unfold elem_shape. rewrite decn_length, decn_digits by (change (10 ^ Z.of_nat 4) with 10000; lia). reflexivity.
  - apply dec2_shape. lia.
  - destruct (12 <=? t_hour t); reflexivity.
  - destruct (12 <=? t_hour t); reflexivity.
  - reflexivity.
  - apply zone_shape. exact He.
  - apply frac_shape. assumption.
Qed.


Lemma render_items_shape : forall its t, tm_ok t ->
  (forall e, In (El e) its -> shape_hyp (t_off t) e) ->
  exists pieces, render_items its t = concat pieces /\ Forall2 piece_ok its pieces.
Proof.
  induction its as [|it more IH]; intros t Ht Hs.
  - exists []. split; [reflexivity|constructor].
  - destruct (IH t Ht) as (ps & E & F); [intros e He; apply Hs; right; exact He|].
    exists (render_item t it :: ps). split.
    + cbn [render_items concat]. rewrite E. reflexivity.
    + constructor; [|exact F]. destruct it as [c|e]; [reflexivity|].
      apply elem_shape_render; [exact Ht|]. apply Hs. left. reflexivity.
Qed.


Lemma format_time_shape : forall layout sec nsec off ab,
  instant_ok sec nsec off -> zone_printable (tokens layout) off = true ->
  exists text pieces,
    format_time layout sec nsec off ab = Some text /\ text = concat pieces /\
    Forall2 piece_ok (tokens layout) pieces.
Proof.
  intros layout sec nsec off ab Hi Hz.
  pose proof (tm_of_ok sec nsec off ab (instant_in_range _ _ _ ab Hi)) as Ht.
  assert (Hoff : t_off (tm_of sec nsec off ab) = off) by apply (tm_of_date sec nsec off ab).
  destruct (render_items_shape (tokens layout) _ Ht) as (ps & E & F).
  - intros e He. rewrite Hoff. destruct e; try exact I. split; [apply Hi|].
    intros [Hs Hneg]. unfold zone_printable, zone_has_seconds in Hz.
    rewrite (has_elem_in _ _ (EZone iso sh) He Hs) in Hz. lia.
  - exists (render_items (tokens layout) (tm_of sec nsec off ab)), ps.
    split; [apply format_time_defined; exact Hi|]. split; assumption.
Qed.

Lemma instant_okb_ok : forall sec nsec off, instant_okb sec nsec off = true -> instant_ok sec nsec off.
Proof. intros sec nsec off H. unfold instant_okb in H. unfold instant_ok. lia. Qed.

Require Coq.Strings.String.
Import Coq.Strings.String.StringSyntax.

(* Go's own irregularity: an offset in (-60 s, 0) under a seconds-bearing zone element is printed
   as +00:00:-SS, which does not read back; the round trip FAILS there (hence zone_fits) *)
Lemma parse_back_subminute_refuted :
  exists layout sec nsec off ab text,
    layout_roundtrips layout = true /\ instant_ok sec nsec off /\
    off mod zone_unit (tokens layout) = 0 /\
    format_time layout sec nsec off ab = Some text /\
    text = lit "1969-12-31T23:59:59+00:00:-01" /\
    parse_time layout text = None.
Proof.
  exists (lit "2006-01-02T15:04:05Z07:00:00"), 0, 0, (-1), (lit "X"), (lit "1969-12-31T23:59:59+00:00:-01").
  split; [vm_compute; reflexivity|]. split; [apply instant_okb_ok; vm_compute; reflexivity|].
  repeat split; vm_compute; reflexivity.
Qed.
