(* The translations of appendEscapedRune, appendQuotedWith and appendEscapedJSONString regenerated
   from the source (Gen/Escapes.v) against Model/Quote.v and Model/JsonEsc.v. *)
Require Import Verif.Model.Base Verif.Model.Decision Verif.Model.GoSem Verif.Model.Utf8 Verif.Model.Quote
  Verif.Model.JsonEsc Verif.Model.EscRef.
Require Import Verif.Proofs.Utf8P Verif.Proofs.QuoteP Verif.Proofs.GenRouteP.
Require Verif.Gen.Escapes Verif.Gen.Tables.
Require Import Lia ZifyBool ZifyNat.

(* ---- hex digits: hex[k] for 0 <= k < 16 is the model's hexd ---- *)
Lemma hex_at_all :
  forallb (fun k => match str_at Tables.t_hex k with Some v => v =? bz (hexd k) | None => false end)
          [0;1;2;3;4;5;6;7;8;9;10;11;12;13;14;15] = true.
Proof. vm_compute. reflexivity. Qed.

Lemma hex_at k : 0 <= k < 16 -> str_at Tables.t_hex k = Some (bz (hexd k)).
Proof.
  intros H. pose proof hex_at_all as A. rewrite forallb_forall in A.
  assert (I : In k [0;1;2;3;4;5;6;7;8;9;10;11;12;13;14;15]) by (cbn; lia).
  specialize (A k I). destruct (str_at Tables.t_hex k) as [v|]; [|discriminate].
  apply Z.eqb_eq in A. subst v. reflexivity.
Qed.

Lemma land15 x : Z.land x 15 = x mod 16.
Proof. change 15 with (Z.ones 4). rewrite Z.land_ones by lia. reflexivity. Qed.

Lemma hex_land x : str_at Tables.t_hex (Z.land x 15) = Some (bz (hexd (x mod 16))).
Proof. rewrite land15. apply hex_at. apply Z.mod_pos_bound. lia. Qed.

Lemma hex_shr4 x : 0 <= x < 256 -> str_at Tables.t_hex (Z.shiftr x 4) = Some (bz (hexd (x / 16))).
Proof.
  intros H. rewrite Z.shiftr_div_pow2 by lia. change (2 ^ 4) with 16. apply hex_at.
  split; [apply Z.div_pos; lia|apply Z.div_lt_upper_bound; lia].
Qed.

Lemma shr_pow r s : 0 <= s -> Z.shiftr r s = r / 2 ^ s.
Proof. intros H. apply Z.shiftr_div_pow2. exact H. Qed.

Lemma mod256_hi r : (r mod 256) / 16 = (r / 16) mod 16.
Proof. Ltac Zify.zify_post_hook ::= Z.div_mod_to_equations. lia. Qed.
Lemma mod256_lo r : (r mod 256) mod 16 = r mod 16.
Proof. lia. Qed.
Ltac Zify.zify_post_hook ::= idtac.

(* closed arithmetic on literals left behind by unrolling a loop with a literal bound *)
Ltac zlit a := lazymatch a with Z0 => idtac | Zpos ?p => idtac | Zneg ?p => idtac end.
Ltac zcalc :=
  repeat match goal with
  | |- context [?a mod ?b] => zlit a; zlit b; let v := eval vm_compute in (a mod b) in change (a mod b) with v
  | |- context [?a - ?b] => zlit a; zlit b; let v := eval vm_compute in (a - b) in change (a - b) with v
  | |- context [?a <=? ?b] => zlit a; zlit b; let v := eval vm_compute in (a <=? b) in change (a <=? b) with v
  | |- context [2 ^ ?b] => zlit b; let v := eval vm_compute in (2 ^ b) in change (2 ^ b) with v
  | |- context [16 ^ ?b] => zlit b; let v := eval vm_compute in (16 ^ b) in change (16 ^ b) with v
  end.

(* appendEscapedRune as the code calls it: double quote, not ASCII-only, not graphic-only *)
Lemma gen_escape_rune : forall isprint gl buf r,
  Escapes.escape_rune isprint gl Tables.t_hex buf r 34 false false = Some (buf ++ escape_rune isprint r).
Proof.
  intros isprint gl buf r.
  first
    [ reflexivity
    | unfold Escapes.escape_rune, escape_rune;
      repeat (cbn [go_loop]; cbv beta iota zeta; zcalc;
              rewrite ?hex_land, ?(hex_shr4 (r mod 256)) by (apply Z.mod_pos_bound; lia));
      rewrite ?zb_bz, ?shr_pow by lia; zcalc;
      rewrite ?hexn2; cbn [hexn Z.of_nat Pos.of_succ_nat Pos.succ]; zcalc;
      rewrite ?mod256_hi, ?mod256_lo, ?land15, ?Z.div_1_r;
      repeat (gen_split; gen_inj; cbn [andb orb negb] in *; try discriminate);
      rewrite <- ?app_assoc; cbn [app]; try reflexivity;
      (* the quote / backslash branch: byte(r) = r there *)
      try (match goal with E : (r =? 34) || (r =? 92) = true |- _ =>
             apply orb_prop in E; destruct E as [E|E]; apply Z.eqb_eq in E; subst r; reflexivity end) ].
Qed.

(* ---- string primitives on nat positions ---- *)
Lemma str_at_pos : forall n (s : bytes),
  str_at s (Z.of_nat n) = match skipn n s with c :: _ => Some (bz c) | [] => None end.
Proof.
  intros n s. unfold str_at. destruct (Z.of_nat n <? 0) eqn:E; [lia|]. rewrite Nat2Z.id. clear E.
  revert s. induction n as [|n IH]; intros [|c s]; cbn; try reflexivity. apply IH.
Qed.
Lemma str_at_head b (t : bytes) : str_at (b :: t) 0 = Some (bz b).
Proof. reflexivity. Qed.
Lemma str_suffix_pos : forall n (s : bytes), (n <= length s)%nat -> str_suffix s (Z.of_nat n) = Some (skipn n s).
Proof.
  intros n s H. unfold str_suffix. rewrite Nat2Z.id.
  destruct ((Z.of_nat n <? 0) || (Z.of_nat (length s) <? Z.of_nat n)) eqn:E; [lia|reflexivity].
Qed.
Lemma str_slice_pos : forall a b (s : bytes), (a <= b <= length s)%nat ->
  str_slice s (Z.of_nat a) (Z.of_nat b) = Some (firstn (b - a) (skipn a s)).
Proof.
  intros a b s H. unfold str_slice.
  destruct ((Z.of_nat a <? 0) || (Z.of_nat b <? Z.of_nat a) || (Z.of_nat (length s) <? Z.of_nat b)) eqn:E; [lia|].
  rewrite Nat2Z.id. replace (Z.to_nat (Z.of_nat b - Z.of_nat a)) with (b - a)%nat by lia. reflexivity.
Qed.

Lemma str_suffix_one b (t : bytes) : str_suffix (b :: t) 1 = Some t.
Proof. apply (str_suffix_pos 1 (b :: t)). cbn [length]. lia. Qed.

(* ---- appendQuotedWith: the loop ---- *)
Section QuoteLoop.
Variable isprint : Z -> bool.
Definition qpiece (s : bytes) : bytes :=
  match s with
  | [] => []
  | b0 :: _ => let '(r, w) := decode_rune s in
               if Nat.eqb w 1 && (r =? RuneError) then bs :: x78 :: hexn 2 (bz b0) else escape_rune isprint r
  end.
Variable F : bytes * bytes * Z -> loop_step (bytes * bytes * Z).
Hypothesis F_nil : forall buf w, F (buf, [], w) = LoopDone (buf, [], w).
Hypothesis F_cons : forall buf b0 t w0,
  F (buf, b0 :: t, w0) =
  LoopNext (buf ++ qpiece (b0 :: t), skipn (snd (decode_rune (b0 :: t))) (b0 :: t), Z.of_nat (snd (decode_rune (b0 :: t)))).

Lemma quote_loop : forall n s, (length s <= n)%nat -> forall buf w fuel, (length s < fuel)%nat ->
  exists w', go_loop fuel F (buf, s, w) = Some (buf ++ qbody isprint 0 s, [], w').
Proof.
  induction n as [|n IH]; intros s Hn buf w fuel Hf.
  - destruct s; [|cbn [length] in Hn; lia]. destruct fuel; [lia|]. cbn [go_loop]. rewrite F_nil. cbv beta iota.
    exists w. rewrite app_nil_r. reflexivity.
  - destruct s as [|b0 t].
    + destruct fuel; [lia|]. cbn [go_loop]. rewrite F_nil. cbv beta iota. exists w. rewrite app_nil_r. reflexivity.
    + destruct fuel as [|fuel]; [lia|]. cbn [go_loop]. rewrite F_cons. cbv beta iota.
      destruct (decode_rune (b0 :: t)) as [r wd] eqn:D. cbn [snd].
      assert (Hw : (1 <= wd <= length (b0 :: t))%nat) by (apply (decode_width _ r); [exact D|discriminate]).
      destruct (IH (skipn wd (b0 :: t))) with (buf := buf ++ qpiece (b0 :: t)) (w := Z.of_nat wd) (fuel := fuel) as [w' Hw'].
      { rewrite skipn_length. cbn [length] in *. lia. }
      { rewrite skipn_length. cbn [length] in *. lia. }
      exists w'. etransitivity; [exact Hw'|]. f_equal. f_equal. f_equal.
      rewrite qbody_cons, D, <- app_assoc. unfold qpiece. rewrite D. f_equal.
      destruct wd as [|wd]; [lia|]. cbn [skipn]. replace (S wd - 1)%nat with wd by lia. f_equal. symmetry. apply qbody_skip.
Qed.
End QuoteLoop.

(* one round of the generated loop, whatever its shape *)
Ltac quote_step isprint gl :=
  intros bf_ b0 t w0_; cbv beta iota zeta;
  pose proof (bz_range b0) as Hb;
  unfold qpiece, decode_rune_z, RuneError; rewrite ?str_at_head; cbv beta iota zeta;
  replace (0 <? Z.of_nat (length (b0 :: t))) with true by (cbn [length]; lia);
  destruct (bz b0 <? 128) eqn:Ea;
  [ rewrite (decode_ascii b0 t Ea); replace (128 <=? bz b0) with false by lia
  | replace (128 <=? bz b0) with true by lia ];
  destruct (decode_rune (b0 :: t)) as [r wd] eqn:D;
  assert (Hw : (1 <= wd <= length (b0 :: t))%nat) by (apply (decode_width _ r); [exact D|discriminate]);
  cbv beta iota zeta; cbn [snd];
  rewrite ?gen_escape_rune, ?str_at_head, ?(hex_shr4 (bz b0)) by lia; rewrite ?hex_land; cbv beta iota zeta;
  rewrite ?zb_bz, ?hexn2;
  repeat (gen_split; gen_inj; rewrite ?str_suffix_one, ?str_suffix_pos in * by (cbn [length] in *; lia); gen_inj;
          cbn [andb] in *; try discriminate; try lia);
  rewrite <- ?app_assoc; cbn [app];
  rewrite ?(Z.mod_small (bz b0 / 16) 16) by (split; [apply Z.div_pos; lia|apply Z.div_lt_upper_bound; lia]);
  try reflexivity; try congruence; try lia.

Lemma gen_quote_with : forall isprint gl buf s,
  Escapes.quote_with isprint gl Tables.t_hex buf s 34 false false = Some (buf ++ quote_go isprint s).
Proof.
  intros isprint gl buf s.
  first
    [ reflexivity
    | unfold Escapes.quote_with, quote_go; cbv zeta;
      match goal with |- context [go_loop ?fuel ?F ?st] =>
        assert (Hl : exists w', go_loop fuel F st = Some ((buf ++ [zb 34]) ++ qbody isprint 0 s, [], w'))
          by (apply (quote_loop isprint F) with (n := length s);
              [ intros; cbv beta iota zeta; reflexivity | quote_step isprint gl | lia | lia ]);
        destruct Hl as [w' Hl]; rewrite Hl end;
      rewrite <- !app_assoc; reflexivity ].
Qed.

(* ---- appendEscapedJSONString: the loop keeps (start, i, buffer); val[start:i] is still to be copied ---- *)
Require Import Verif.Proofs.EscP.

Lemma safe_set (n : Z) : arr_get 128 Tables.t_safeSet false n = if (0 <=? n) && (n <? 128) then Some (json_safe n) else None.
Proof.
  unfold arr_get. destruct ((0 <=? n) && (n <? 128)) eqn:E; [|reflexivity]. f_equal.
  assert (I : In n (map Z.of_nat (seq 0 128))).
  { apply in_map_iff. exists (Z.to_nat n). split; [lia|]. apply in_seq. lia. }
  assert (A : forallb (fun n => Bool.eqb (match lookupZ Tables.t_safeSet n with Some v => v | None => false end) (json_safe n))
                (map Z.of_nat (seq 0 128)) = true) by (vm_compute; reflexivity).
  rewrite forallb_forall in A. apply Bool.eqb_prop. apply A. exact I.
Qed.

Lemma jesc_cons b t :
  jesc 0 true (b :: t) =
  if bz b <? 128 then json_esc_ascii b ++ jesc 0 true t
  else let '(r, w) := decode_rune (b :: t) in
       if (r =? RuneError) && Nat.eqb w 1 then [x5c; x75; x66; x66; x66; x64] ++ jesc 0 true t
       else if (r =? 8232) || (r =? 8233) then [x5c; x75; x32; x30; x32; hexd (r mod 16)] ++ jesc (w - 1) false t
       else b :: jesc (w - 1) true t.
Proof. reflexivity. Qed.

Lemma firstn_plus {A} (n m : nat) : forall l : list A, firstn (n + m) l = firstn n l ++ firstn m (skipn n l).
Proof. induction n as [|n IH]; intros [|x l]; cbn; try reflexivity; [destruct m; reflexivity|]. rewrite IH. reflexivity. Qed.

Lemma skipn_plus {A} (n m : nat) : forall l : list A, skipn (n + m) l = skipn m (skipn n l).
Proof. induction n as [|n IH]; intros [|x l]; cbn; try reflexivity; [destruct m; reflexivity|]. apply IH. Qed.

Section JsonLoop.
Variable val : bytes.
Definition jslice (a b : nat) : bytes := firstn (b - a) (skipn a val).

(* what one round does at position i (start = a), on nat positions *)
Definition jnext (a i : nat) (buf : bytes) : nat * nat * bytes :=
  match skipn i val with
  | [] => (a, i, buf)
  | b :: t =>
    if bz b <? 128 then
      if json_safe (bz b) then (a, S i, buf) else (S i, S i, buf ++ jslice a i ++ json_esc_ascii b)
    else let '(r, w) := decode_rune (b :: t) in
      if (r =? RuneError) && Nat.eqb w 1 then (S i, S i, buf ++ jslice a i ++ [x5c; x75; x66; x66; x66; x64])
      else if (r =? 8232) || (r =? 8233)
           then ((i + w)%nat, (i + w)%nat, buf ++ jslice a i ++ [x5c; x75; x32; x30; x32; hexd (r mod 16)])
           else (a, (i + w)%nat, buf)
  end.
Definition zst (st : nat * nat * bytes) : Z * Z * bytes :=
  let '(a, i, buf) := st in (Z.of_nat a, Z.of_nat i, buf).

Variable F : Z * Z * bytes -> loop_step (Z * Z * bytes).
Hypothesis F_done : forall a buf, F (Z.of_nat a, Z.of_nat (length val), buf) = LoopDone (Z.of_nat a, Z.of_nat (length val), buf).
Hypothesis F_step : forall a i buf, (a <= i < length val)%nat ->
  F (Z.of_nat a, Z.of_nat i, buf) = LoopNext (zst (jnext a i buf)).

Lemma jslice_all a : jslice a (length val) = skipn a val.
Proof. unfold jslice. apply firstn_all2. rewrite skipn_length. lia. Qed.
Lemma jslice_nil a : jslice a a = [].
Proof. unfold jslice. rewrite Nat.sub_diag. reflexivity. Qed.
Lemma jslice_ext a i w : (a <= i)%nat -> jslice a (i + w) = jslice a i ++ firstn w (skipn i val).
Proof.
  intros H. unfold jslice. replace (i + w - a)%nat with ((i - a) + w)%nat by lia.
  rewrite firstn_plus. f_equal. rewrite <- skipn_plus. f_equal. f_equal. lia.
Qed.

Lemma json_loop : forall n a i buf fuel, (a <= i <= length val)%nat -> (length val - i <= n)%nat ->
  (length val - i < fuel)%nat ->
  exists a' buf', go_loop fuel F (Z.of_nat a, Z.of_nat i, buf) = Some (Z.of_nat a', Z.of_nat (length val), buf')
    /\ (a' <= length val)%nat
    /\ buf' ++ skipn a' val = buf ++ jslice a i ++ jesc 0 true (skipn i val).
Proof.
  induction n as [|n IH]; intros a i buf fuel Hai Hn Hf.
  - assert (i = length val) by lia. subst i. destruct fuel; [lia|]. cbn [go_loop]. rewrite F_done. cbv beta iota.
    exists a, buf. split; [reflexivity|]. split; [lia|].
    rewrite jslice_all, skipn_all, app_nil_r. reflexivity.
  - destruct (Nat.eq_dec i (length val)) as [->|Hne].
    { destruct fuel; [lia|]. cbn [go_loop]. rewrite F_done. cbv beta iota.
      exists a, buf. split; [reflexivity|]. split; [lia|].
      rewrite jslice_all, skipn_all, app_nil_r. reflexivity. }
    destruct fuel as [|fuel]; [lia|]. cbn [go_loop]. rewrite F_step by lia. cbv beta iota.
    unfold jnext.
    destruct (skipn i val) as [|b t] eqn:Es.
    { exfalso. apply (f_equal (@length byte)) in Es. rewrite skipn_length in Es. cbn in Es. lia. }
    assert (Et : skipn (S i) val = t).
    { replace (S i) with (i + 1)%nat by lia. rewrite skipn_plus, Es. reflexivity. }
    assert (Hsk : forall w, skipn (i + w) val = skipn w (b :: t)).
    { intros w. rewrite skipn_plus, Es. reflexivity. }
    assert (Hlen : length (b :: t) = (length val - i)%nat) by (rewrite <- Es, skipn_length; reflexivity).
    rewrite jesc_cons.
    destruct (bz b <? 128) eqn:Ea.
    + destruct (json_safe (bz b)) eqn:Esafe; cbn [zst].
      * destruct (IH a (S i) buf fuel) as (a' & buf' & G & Ha' & Hb); [lia|lia|lia|].
        exists a', buf'. split; [exact G|]. split; [exact Ha'|]. rewrite Hb, Et.
        replace (S i) with (i + 1)%nat by lia. rewrite jslice_ext by lia. rewrite Es. cbn [firstn].
        unfold json_esc_ascii. rewrite Esafe. rewrite <- !app_assoc. reflexivity.
      * destruct (IH (S i) (S i) (buf ++ jslice a i ++ json_esc_ascii b) fuel) as (a' & buf' & G & Ha' & Hb); [lia|lia|lia|].
        exists a', buf'. split; [exact G|]. split; [exact Ha'|]. rewrite Hb, Et, jslice_nil.
        rewrite <- !app_assoc. reflexivity.
    + destruct (decode_rune (b :: t)) as [r w] eqn:D.
      assert (Hw : (1 <= w <= length (b :: t))%nat) by (apply (decode_width _ r); [exact D|discriminate]).
      destruct ((r =? RuneError) && Nat.eqb w 1) eqn:Ee; [|destruct ((r =? 8232) || (r =? 8233)) eqn:El]; cbn [zst].
      * destruct (IH (S i) (S i) (buf ++ jslice a i ++ [x5c; x75; x66; x66; x66; x64]) fuel) as (a' & buf' & G & Ha' & Hb); [lia|lia|lia|].
        exists a', buf'. split; [exact G|]. split; [exact Ha'|]. rewrite Hb, Et, jslice_nil.
        rewrite <- !app_assoc. reflexivity.
      * destruct (IH (i + w)%nat (i + w)%nat (buf ++ jslice a i ++ [x5c; x75; x32; x30; x32; hexd (r mod 16)]) fuel)
          as (a' & buf' & G & Ha' & Hb); [lia|lia|lia|].
        exists a', buf'. split; [exact G|]. split; [exact Ha'|]. rewrite Hb, jslice_nil, Hsk.
        destruct w as [|w]; [lia|]. cbn [skipn]. replace (S w - 1)%nat with w by lia.
        rewrite (jesc_drop w t) by (cbn [length] in *; lia). rewrite jesc0_flag.
        rewrite <- !app_assoc. reflexivity.
      * destruct (IH a (i + w)%nat buf fuel) as (a' & buf' & G & Ha' & Hb); [lia|lia|lia|].
        exists a', buf'. split; [exact G|]. split; [exact Ha'|]. rewrite Hb, Hsk, jslice_ext by lia. rewrite Es.
        destruct w as [|w]; [lia|]. cbn [skipn firstn]. replace (S w - 1)%nat with w by lia.
        rewrite (jesc_skip_emit w t) by (cbn [length] in *; lia).
        rewrite <- !app_assoc. reflexivity.
Qed.
End JsonLoop.

Ltac zbcalc :=
  repeat match goal with
  | |- context [zb ?a] => zlit a; let v := eval vm_compute in (zb a) in change (zb a) with v
  end.

(* one round of the generated loop, whatever its shape *)
Ltac json_step val :=
  intros a_ i_ bf_ Hai; cbv beta iota zeta;
  replace (Z.of_nat i_ <? Z.of_nat (length val)) with true by lia;
  rewrite ?str_at_pos; unfold jnext;
  destruct (skipn i_ val) as [|b t] eqn:Es;
  [ exfalso; apply (f_equal (@length byte)) in Es; rewrite skipn_length in Es; cbn in Es; lia |];
  pose proof (bz_range b) as Hb;
  assert (Hlen : length (b :: t) = (length val - i_)%nat) by (rewrite <- Es, skipn_length; reflexivity);
  cbv beta iota zeta; rewrite ?safe_set;
  replace ((0 <=? bz b) && (bz b <? 128)) with (bz b <? 128) by lia;
  rewrite ?(str_suffix_pos i_ val) by lia; rewrite ?Es; unfold decode_rune_z, RuneError, json_esc_ascii;
  (destruct (bz b <? 128) eqn:Ea;
   [ | destruct (decode_rune (b :: t)) as [r w] eqn:D;
       assert (Hw : (1 <= w <= length (b :: t))%nat) by (apply (decode_width _ r); [exact D|discriminate]) ]);
  cbv beta iota zeta;
  rewrite ?(hex_shr4 (bz b)) by lia; rewrite ?hex_land; cbv beta iota zeta; rewrite ?hexn2;
  (destruct (Nat.eq_dec a_ i_) as [Eai|Eai];
   [ subst a_; replace (Z.of_nat i_ <? Z.of_nat i_) with false by lia;
     rewrite ?(str_slice_pos i_ i_ val) by lia; fold (jslice val i_ i_); rewrite ?jslice_nil
   | replace (Z.of_nat a_ <? Z.of_nat i_) with true by lia; rewrite ?(str_slice_pos a_ i_ val) by lia; fold (jslice val a_ i_) ]);
  cbv beta iota zeta; zbcalc; rewrite ?zb_bz;
  repeat (gen_split; gen_inj; cbn [andb orb negb] in *; try discriminate; try lia);
  cbn [zst]; rewrite <- ?app_assoc; cbn [app];
  rewrite ?(Z.mod_small (bz b / 16) 16) by (split; [apply Z.div_pos; lia|apply Z.div_lt_upper_bound; lia]);
  repeat f_equal; try lia.

Lemma gen_json_escape : forall val buf,
  Escapes.json_escape Tables.t_hex Tables.t_safeSet val buf = Some (buf ++ json_escape val).
Proof.
  intros val buf.
  first
    [ reflexivity
    | unfold Escapes.json_escape, json_escape; cbv zeta;
      match goal with |- context [go_loop ?fl ?F ?st] =>
        assert (Hl : exists a' buf', go_loop fl F (Z.of_nat 0, Z.of_nat 0, buf) = Some (Z.of_nat a', Z.of_nat (length val), buf')
                       /\ (a' <= length val)%nat
                       /\ buf' ++ skipn a' val = buf ++ jslice val 0 0 ++ jesc 0 true (skipn 0 val))
          by (apply (json_loop val F) with (n := length val);
              [ intros a_ bf_; cbv beta iota zeta;
                replace (Z.of_nat (length val) <? Z.of_nat (length val)) with false by lia; reflexivity
              | json_step val | lia | lia | lia ]);
        destruct Hl as (a' & buf' & G & Ha & Hb);
        change st with (Z.of_nat 0, Z.of_nat 0, buf); rewrite G end;
      cbv beta iota zeta; rewrite ?(str_suffix_pos a' val) by lia;
      rewrite jslice_nil in Hb; cbn [skipn app] in Hb;
      repeat (gen_split; gen_inj); rewrite <- ?Hb;
      [ reflexivity | assert (a' = length val) by lia; subst a'; rewrite skipn_all, app_nil_r; reflexivity ] ].
  Qed.

(* ---- the callers: appendQuotedString and pcAppendStringKey (helpers they may call are auxiliary
   definitions of the generated file and stay folded: a fast path through one of them leaves a case the proof cannot close) ---- *)
Lemma gen_quoted_string : forall isprint gl jm buf str,
  Escapes.quoted_string isprint gl Tables.t_hex Tables.t_safeSet jm buf str =
  Some (buf ++ if jm then json_quote str else quote_go isprint str).
Proof.
  intros isprint gl jm buf str.
  first
    [ reflexivity
    | unfold Escapes.quoted_string, json_quote; cbv zeta;
      rewrite ?gen_json_escape, ?gen_quote_with; cbv beta iota zeta; zbcalc;
      repeat (gen_split; gen_inj; rewrite ?gen_json_escape, ?gen_quote_with in *; gen_inj; try discriminate);
      rewrite <- ?app_assoc; cbn [app]; reflexivity ].
Qed.

Lemma gen_string_key : forall jm buf str,
  Escapes.string_key Tables.t_hex Tables.t_safeSet jm buf str =
  Some (buf ++ if jm then json_quote str else str).
Proof.
  intros jm buf str.
  first
    [ reflexivity
    | unfold Escapes.string_key, json_quote; cbv zeta;
      rewrite ?gen_json_escape; cbv beta iota zeta; zbcalc;
      repeat (gen_split; gen_inj; rewrite ?gen_json_escape in *; gen_inj; try discriminate);
      rewrite <- ?app_assoc; cbn [app]; reflexivity ].
Qed.
