(* The translations of underDir and checkpath regenerated from the source (Gen/Paths.v) against
   Model/Path.v (the repaired variant, fx = true), for every table order, regexp list, flag word,
   working directory, Rel function and path. *)
Require Import Verif.Model.Base Verif.Model.Decision Verif.Model.GoSem Verif.Model.Path Verif.Model.PathRef.
Require Import Verif.Proofs.GenRouteP.
Require Verif.Gen.Paths Verif.Gen.Tables.
Require Import Lia ZifyBool ZifyNat.

(* ---- the string primitives in the vocabulary of the model ---- *)
Lemma slash_code (c : byte) : (bz c =? 47) = byte_eqb c slash.
Proof. destruct c; reflexivity. Qed.

Lemma has_prefix_length : forall p s, has_prefix s p = true -> (length p <= length s)%nat.
Proof.
  induction p as [|b p IH]; intros s H; cbn [length]; [lia|].
  destruct s as [|c s]; cbn in H; [discriminate|]. apply andb_prop in H. destruct H as [_ H].
  apply IH in H. cbn [length]. lia.
Qed.

Lemma str_at_nat : forall n (s : bytes),
  str_at s (Z.of_nat n) = match skipn n s with c :: _ => Some (bz c) | [] => None end.
Proof.
  intros n s. unfold str_at. destruct (Z.of_nat n <? 0) eqn:E; [lia|]. rewrite Nat2Z.id. clear E.
  revert s. induction n as [|n IH]; intros [|c s]; cbn; try reflexivity. apply IH.
Qed.

Lemma str_suffix_nat : forall n (s : bytes), str_suffix s (Z.of_nat n) = slice_from s n.
Proof.
  intros n s. unfold str_suffix, slice_from. rewrite Nat2Z.id.
  destruct ((Z.of_nat n <? 0) || (Z.of_nat (length s) <? Z.of_nat n)) eqn:E;
    destruct (n <=? length s)%nat eqn:E'; try reflexivity; lia.
Qed.

Lemma str_index_from_spec : forall (t : bytes) i,
  str_index_from t 47 i = match index_byte slash t with Some n => i + Z.of_nat n | None => -1 end.
Proof.
  induction t as [|b t IH]; intros i; cbn [str_index_from index_byte]; [reflexivity|].
  rewrite slash_code. destruct (byte_eqb b slash); [lia|]. rewrite IH.
  destruct (index_byte slash t); [lia|reflexivity].
Qed.

Lemma str_index_spec (t : bytes) :
  str_index_byte t 47 = match index_byte slash t with Some n => Z.of_nat n | None => -1 end.
Proof. unfold str_index_byte. rewrite str_index_from_spec. destruct (index_byte slash t); reflexivity. Qed.

Lemma tail_test (a b : nat) :
  ((0 <? Z.of_nat a) && (Z.of_nat a <? Z.of_nat b)) = ((0 <? a)%nat && (a <? b)%nat).
Proof. destruct ((0 <? a)%nat && (a <? b)%nat) eqn:E; lia. Qed.

(* ---- underDir ---- *)
Lemma gen_under_dir : forall file dir, Paths.under_dir file dir = Some (under file dir).
Proof.
  intros file dir.
  first
    [ reflexivity
    | unfold Paths.under_dir, under; rewrite ?str_at_nat;
      destruct dir as [|d dir]; [reflexivity|];
      change (negb (bytes_eqb (d :: dir) [])) with true; cbn [andb];
      destruct (has_prefix file (d :: dir)) eqn:Hp; [|reflexivity];
      pose proof (has_prefix_length _ _ Hp) as Hl;
      pose proof (skipn_length (length (d :: dir)) file) as Hs;
      destruct (skipn (length (d :: dir)) file) as [|c rest] eqn:Es; cbn [length] in *;
      repeat (gen_split; gen_inj; rewrite ?slash_code in *; try reflexivity; try discriminate; try lia) ].
Qed.

(* ---- the loop over knownPathMap: a fold over option state that never fails ---- *)
Section OptFold.
Variable F : option bytes -> bytes * bytes -> option bytes.
Hypothesis F_step : forall p kv, F (Some p) kv = Some (step true p kv).
Lemma opt_fold : forall t p, fold_left F t (Some p) = Some (fold_left (step true) t p).
Proof. induction t as [|kv t IH]; intros p; cbn [fold_left]; [reflexivity|]. rewrite F_step. apply IH. Qed.
End OptFold.

Lemma suffix_under : forall (p k : bytes), under p k = true ->
  str_suffix p (Z.of_nat (length k)) = Some (skipn (length k) p).
Proof.
  intros p k H. rewrite str_suffix_nat. unfold slice_from, under in *.
  destruct k as [|b k]; [discriminate|]. apply andb_prop in H. destruct H as [H _].
  apply has_prefix_length in H. destruct (length (b :: k) <=? length p)%nat eqn:E; [reflexivity|lia].
Qed.

Ltac path_step :=
  intros p [k v]; cbv beta iota zeta; rewrite ?gen_under_dir; unfold step; cbn [fst snd];
  destruct (under p k) eqn:Hu; [rewrite (suffix_under _ _ Hu)|]; reflexivity.

Lemma gen_checkpath : forall f_rel flags table rxs cwd file,
  Paths.checkpath f_rel flags table rxs cwd file =
  Path.checkpath f_rel true (privacy_on flags) (rx_on flags) table rxs cwd file.
Proof.
  intros f_rel flags table rxs cwd file.
  first
    [ reflexivity
    | unfold Paths.checkpath, Path.checkpath, privacy_on, rx_on, prefix_loop, rx_loop, volumes_rule, rx_expr;
      cbv zeta; change Tables.c_Lprivacypath with 8192; change Tables.c_Lprivacypathregexp with 16384;
      try (match goal with |- context [fold_left ?F table (Some file)] =>
             rewrite (opt_fold F) by path_step end);
      set (p1 := fold_left (step true) table file);
      change 9 with (Z.of_nat 9); rewrite ?str_suffix_nat;
      destruct (Z.land flags 8192 =? 0) eqn:Ep; destruct (Z.land flags 16384 =? 0) eqn:Er; cbn [negb];
      unfold tilde, volumes;
      repeat (match goal with |- context [fold_left ?F rxs p1] =>
                let p := fresh "p" in set (p := fold_left F rxs p1) end);
      repeat (gen_split; gen_inj;
              rewrite ?str_index_spec, ?tail_test, <- ?Nat2Z.inj_add, ?str_suffix_nat in *;
              cbv beta iota zeta in *; cbn [app] in *;
              try reflexivity; try discriminate; try congruence; try lia) ].
Qed.
