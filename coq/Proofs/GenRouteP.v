(* The translation of dualWriter.Get regenerated from the source (Gen/Routing.v) against the
   routing function of the model (Writers.dw_get), for all tables, writer lists and severities. *)
Require Import Verif.Model.Base Verif.Model.Decision Verif.Model.GoSem Verif.Model.Writers Verif.Model.GenRef.
Require Verif.Gen.Routing.

Lemma lv_get_lookupZ : forall (m : list (Z * list member)) l, lv_get m l = lookupZ m l.
Proof. induction m as [|[k v] m IH]; intros l; cbn; [reflexivity|]. rewrite IH. reflexivity. Qed.

Lemma memZ_keys : forall (V : Type) (m : list (Z * V)) k,
  memZ (map fst m) k = match lookupZ m k with Some _ => true | None => false end.
Proof.
  induction m as [|[k' v] m IH]; intros k; cbn; [reflexivity|].
  unfold memZ in IH. rewrite IH. rewrite (Z.eqb_sym k k'). destruct (k' =? k); reflexivity.
Qed.

(* case analysis that does not depend on how the generated text nests its tests *)
Ltac gen_atomic c :=
  lazymatch c with
  | context [if _ then _ else _] => fail
  | context [match _ with _ => _ end] => fail
  | _ => idtac
  end.
(* innermost tests first, so that an equation never mentions a test that is split later *)
Ltac gen_split :=
  match goal with
  | |- context [match ?x with _ => _ end] => is_var x; destruct x
  | |- context [if ?c then _ else _] => gen_atomic c; let E := fresh "E" in destruct c eqn:E
  | |- context [match ?x with _ => _ end] => gen_atomic x; let E := fresh "E" in destruct x eqn:E
  end.

(* equations between pairs / Some left behind by the case analysis *)
Ltac gen_inj :=
  repeat match goal with
  | H : (_, _) = (_, _) |- _ => injection H as ? ?
  | H : Some _ = Some _ |- _ => injection H as ?
  | H : Some _ = None |- _ => discriminate H
  | H : None = Some _ |- _ => discriminate H
  end; subst.

(* the reference (the fallback of the site) is the model's function *)
Lemma route_ref_dw_get : forall m (x : dualwriter) lvl,
  route_ref m [Wrapped w_discard] (dw_normal x) (dw_error x) (Some (dw_leveled x)) lvl = dw_get (map fst m) x lvl.
Proof. reflexivity. Qed.

Lemma route_ref_nil_map : forall m d n e lvl, route_ref m d n e None lvl = route_ref m d n e (Some []) lvl.
Proof. reflexivity. Qed.

Lemma gen_route_ref : forall m d n e lv lvl, Routing.route m d n e lv lvl = route_ref m d n e lv lvl.
Proof.
  intros m d n e lv lvl.
  first
    [ reflexivity   (* the site fell back on the reference *)
    | unfold Routing.route, route_ref, map_get, gomap_list, is_nil; cbn zeta;
      change lvl_off with 7; rewrite lv_get_lookupZ, memZ_keys;
      repeat (gen_split; cbn [andb orb negb List.length Z.of_nat Z.ltb Z.compare] in *; subst;
              try reflexivity; try discriminate; try congruence) ].
Qed.

Lemma gen_route : forall m (x : dualwriter) lvl,
  Routing.route m [Wrapped w_discard] (dw_normal x) (dw_error x) (Some (dw_leveled x)) lvl = dw_get (map fst m) x lvl
  /\ (dw_leveled x = [] ->
      Routing.route m [Wrapped w_discard] (dw_normal x) (dw_error x) None lvl = dw_get (map fst m) x lvl).
Proof.
  intros m x lvl. split.
  - rewrite gen_route_ref. apply route_ref_dw_get.
  - intros H. rewrite gen_route_ref, route_ref_nil_map, <- H. apply route_ref_dw_get.
Qed.
