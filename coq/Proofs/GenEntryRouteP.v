(* Entry.Println and the blank-line branch of Entry.printImpl regenerated from the source (Gen/Routes.v). *)
Require Import Verif.Model.Base Verif.Model.Decision Verif.Model.GoSem Verif.Model.Level Verif.Model.TreeRef Verif.Model.RouteRef.
Require Import Verif.Proofs.GenRouteP.
Require Verif.Gen.Routes.
Require Import Lia ZifyBool ZifyNat.

Lemma gen_println_route : forall as_string f_sprint args,
  Routes.println_route as_string f_sprint args = RLog1 lv_always (println_msg as_string f_sprint args) (tl args).
Proof.
  intros as_string f_sprint args.
  unfold Routes.println_route, println_route_ref;
  first
    [ reflexivity
    | unfold list_at, list_from, println_msg, lv_always; destruct args as [|a t]; cbn [List.length tl];
      repeat (gen_split; gen_inj; cbn [skipn Z.to_nat Pos.to_nat nth_error] in *; try discriminate; try lia; try reflexivity);
      try congruence ].
Qed.

Lemma gen_blank_line : forall f_trim f_findWriter lvl msg tr,
  Routes.blank_line f_trim f_findWriter lvl msg tr =
  if (lvl =? lv_always) && bytes_eqb (f_trim msg blank_cutset) [] then tr ++ [DPrintOut lvl [10]] else tr.
Proof.
  intros f_trim f_findWriter lvl msg tr.
  unfold Routes.blank_line, blank_line_ref;
  first
    [ reflexivity
    | unfold lv_always, blank_cutset; cbv zeta;
      repeat (gen_split; gen_inj; try discriminate; try lia; try reflexivity); try congruence ].
Qed.
