(* The translations of the buffer methods of PrintCtx regenerated from the source (Gen/Buffers.v)
   against the concrete model of C19 (Buffer.cstep), for every well-formed state. *)
Require Import Verif.Model.Base Verif.Model.Decision Verif.Model.GoSem Verif.Model.Utf8 Verif.Model.Buffer
  Verif.Model.BufRef.
Require Import Verif.Proofs.Utf8P Verif.Proofs.GenRouteP.
Require Verif.Gen.Buffers.
Require Import Lia ZifyBool ZifyNat.

Ltac buf_unfold :=
  unfold Buffers.buf_read_byte, Buffers.buf_read_rune, Buffers.buf_unread_rune, Buffers.buf_unread_byte,
    Buffers.buf_next, Buffers.buf_truncate, Buffers.buf_read, Buffers.buf_reset, Buffers.buf_empty, Buffers.buf_len in *;
  unfold buf_read_byte_ref, buf_read_rune_ref, buf_unread_rune_ref, buf_unread_byte_ref, buf_next_ref,
    buf_truncate_ref, buf_read_ref, buf_reset_ref, buf_empty_ref, buf_len_ref in *.

Lemma skipn_cons_nth : forall (n : nat) (l : bytes), (n < length l)%nat -> exists c t, skipn n l = c :: t.
Proof.
  intros n l H. destruct (skipn n l) as [|c t] eqn:E; [|eauto].
  apply (f_equal (@length byte)) in E. rewrite skipn_length in E. cbn in E. lia.
Qed.

Lemma str_at_skip : forall (n : nat) (l : bytes),
  str_at l (Z.of_nat n) = match skipn n l with c :: _ => Some (bz c) | [] => None end.
Proof.
  intros n l. unfold str_at. destruct (Z.of_nat n <? 0) eqn:E; [lia|]. rewrite Nat2Z.id. clear E.
  revert l. induction n as [|n IH]; intros [|c l]; cbn; try reflexivity. apply IH.
Qed.

(* Reset *)
Lemma gen_buf_reset : forall nil d sp o l,
  bview nil res_unit (Buffers.buf_reset (d, sp) o l) = cstep (fun c => c) 0 (abs_pc nil ((d, sp), o, l)) OReset.
Proof.
  intros nil d sp o l. buf_unfold. unfold sl_to, sl_cap, sl_all. cbn [fst snd].
  destruct ((0 <? 0) || (Z.of_nat (length d + length sp) <? 0)) eqn:E; [lia|].
  cbn [bview abs_pc cstep creset res_unit firstn skipn Z.to_nat fst snd data off cap isnil last_read].
  unfold sl_cap. cbn [fst snd length]. rewrite app_length. reflexivity.
Qed.

Lemma str_at_z (l : bytes) o : 0 <= o ->
  str_at l o = match skipn (Z.to_nat o) l with c :: _ => Some (bz c) | [] => None end.
Proof. intros H. rewrite <- (Z2Nat.id o H) at 1. apply str_at_skip. Qed.

Ltac model_unfold :=
  unfold cstep, cempty, creset, contents, advance, clen, blen, zlen, zskip, ztake, set_last, opRead, opInvalid,
    abs_pc, bview, res_unit, res_err, res_byte, res_rune, res_slice, sl_cap, sl_len, sl_all, sl_at, sl_to, sl_from,
    sl_range, sl_bytes, decode_rune_z in *;
  cbn [fst snd data off cap isnil last_read] in *.

Ltac panic_calc :=
  repeat match goal with |- context [panic_of ?m] =>
    let v := eval vm_compute in (panic_of m) in change (panic_of m) with v end.

Ltac leaf :=
  panic_calc;
  change (Z.to_nat 0) with 0%nat in *;
  cbn [fst snd data off cap isnil last_read firstn skipn app length] in *; rewrite ?app_length in *;
  try reflexivity; try discriminate; try lia;
  rewrite ?Z.min_l, ?Z.min_r by lia;
  try (repeat f_equal; try lia; fail).

Lemma split_length {A} (k : nat) (l : list A) : (length (firstn k l) + length (skipn k l))%nat = length l.
Proof. rewrite <- (firstn_skipn k l) at 3. rewrite app_length. reflexivity. Qed.
Lemma firstn_app_le {A} (k : nat) (l1 l2 : list A) : (k <= length l1)%nat -> firstn k (l1 ++ l2) = firstn k l1.
Proof. intros H. rewrite firstn_app. replace (k - length l1)%nat with 0%nat by lia. cbn. apply app_nil_r. Qed.
Lemma skipn_app_le {A} (k : nat) (l1 l2 : list A) : (k <= length l1)%nat -> skipn k (l1 ++ l2) = skipn k l1 ++ l2.
Proof. intros H. rewrite skipn_app. replace (k - length l1)%nat with 0%nat by lia. reflexivity. Qed.
Ltac slice_norm :=
  rewrite ?split_length, ?app_length in *; rewrite ?skipn_app_le by lia;
  rewrite ?firstn_app_le by (rewrite ?skipn_length; lia).

(* ReadByte *)
Lemma gen_buf_read_byte : forall nil d sp o l, 0 <= o <= Z.of_nat (length d) ->
  bview nil res_byte (Buffers.buf_read_byte (d, sp) o l) = cstep (fun c => c) 0 (abs_pc nil ((d, sp), o, l)) OReadByte.
Proof.
  intros nil d sp o l H. buf_unfold. model_unfold. rewrite ?str_at_z by lia.
  repeat (gen_split; gen_inj; model_unfold; try discriminate; try lia);
  rewrite ?app_length; leaf.
Qed.

(* UnreadByte / UnreadRune *)
Lemma gen_buf_unread_byte : forall nil d sp o l,
  bview nil res_err (Buffers.buf_unread_byte (d, sp) o l) = cstep (fun c => c) 0 (abs_pc nil ((d, sp), o, l)) OUnreadByte.
Proof.
  intros nil d sp o l. buf_unfold. model_unfold.
  repeat (gen_split; gen_inj; model_unfold; try discriminate; try lia); leaf.
Qed.
Lemma gen_buf_unread_rune : forall nil d sp o l,
  bview nil res_err (Buffers.buf_unread_rune (d, sp) o l) = cstep (fun c => c) 0 (abs_pc nil ((d, sp), o, l)) OUnreadRune.
Proof.
  intros nil d sp o l. buf_unfold. model_unfold.
  repeat (gen_split; gen_inj; model_unfold; try discriminate; try lia); leaf.
Qed.

(* ReadRune *)
Lemma gen_buf_read_rune : forall nil d sp o l, 0 <= o <= Z.of_nat (length d) ->
  bview nil res_rune (Buffers.buf_read_rune (d, sp) o l) = cstep (fun c => c) 0 (abs_pc nil ((d, sp), o, l)) OReadRune.
Proof.
  intros nil d sp o l H. buf_unfold. model_unfold. rewrite ?str_at_z by lia.
  destruct (skipn (Z.to_nat o) d) as [|c t] eqn:Es.
  - repeat (gen_split; gen_inj; model_unfold; try discriminate; try lia); leaf.
  - destruct (decode_rune (c :: t)) as [r w] eqn:D.
    assert (Hw : (1 <= w <= 4)%nat) by (destruct (decode_width4 _ _ _ D) as [[? ?] ?]; [discriminate|lia]).
    repeat (gen_split; gen_inj; model_unfold; rewrite ?Es, ?D in *; try discriminate; try lia);
    leaf; rewrite ?Es, ?D in *; gen_inj; leaf.
  Qed.

(* Truncate *)
Lemma gen_buf_truncate : forall nil d sp o l n, 0 <= o <= Z.of_nat (length d) ->
  bview nil res_unit (Buffers.buf_truncate (d, sp) o l n) = cstep (fun c => c) 0 (abs_pc nil ((d, sp), o, l)) (OTruncate n).
Proof.
  intros nil d sp o l n H. buf_unfold. model_unfold.
  repeat (gen_split; gen_inj; model_unfold; try discriminate; try lia); leaf.
  slice_norm; leaf.
Qed.

(* Next: the returned slice is the next k unread bytes *)
Lemma gen_buf_next : forall nil d sp o l n, 0 <= o <= Z.of_nat (length d) ->
  bview nil res_slice (Buffers.buf_next (d, sp) o l n) = cstep (fun c => c) 0 (abs_pc nil ((d, sp), o, l)) (ONext n).
Proof.
  intros nil d sp o l n H. buf_unfold. model_unfold.
  repeat (gen_split; gen_inj; model_unfold; try discriminate; try lia); leaf.
  all: slice_norm; leaf.
Qed.

(* Read: the count, the error, and the first n bytes of p afterwards are the next n unread bytes *)
Lemma gen_buf_read : forall nil d sp o l pd psp, 0 <= o <= Z.of_nat (length d) ->
  bview_read nil (Buffers.buf_read (d, sp) o l (pd, psp)) =
  cstep (fun c => c) 0 (abs_pc nil ((d, sp), o, l)) (ORead (Z.of_nat (length pd))).
Proof.
  intros nil d sp o l pd psp H. buf_unfold. model_unfold. unfold bview_read, res_read, sl_copy_at, sl_len.
  cbn [fst snd].
  repeat (gen_split; gen_inj; model_unfold; cbn [fst snd] in *; try discriminate; try lia); leaf.
  all: rewrite ?Nat.sub_0_r, ?Nat.add_0_l in *.
  all: assert (Hk : Z.min (Z.max 0 (Z.of_nat (length pd))) (Z.of_nat (length d) - o) =
                    Z.of_nat (Nat.min (length pd) (length (skipn (Z.to_nat o) d)))) by (rewrite skipn_length; lia).
  all: rewrite ?Hk in *; rewrite ?Nat2Z.id.
  all: try (exfalso; lia).
  all: rewrite firstn_app_le by (rewrite firstn_length; lia); rewrite firstn_firstn, Nat.min_id.
  all: repeat f_equal; try lia.
  Qed.

(* WriteTo: the writer answers (m, e); it is handed the unread bytes *)
Lemma gen_buf_write_to : forall nil d sp o l m (e : bool), 0 <= o <= Z.of_nat (length d) -> 0 <= m ->
  bview_wt nil (Buffers.buf_write_to (d, sp) o l tt m (if e then EUser else ENil) []) =
  cstep (fun c => c) 0 (abs_pc nil ((d, sp), o, l)) (OWriteTo m e).
Proof.
  intros nil d sp o l m e H Hm. unfold Buffers.buf_write_to, buf_write_to_ref. buf_unfold. model_unfold.
  unfold bview_wt, err_is_enil. destruct e;
  repeat (gen_split; gen_inj; model_unfold; cbn [fst snd concat app negb] in *; try discriminate; try lia);
  rewrite ?app_nil_r; leaf.
  Qed.
