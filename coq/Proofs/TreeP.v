(* Lemmas about Model/Tree.v (C10, C11): isolation, invariants. *)
Require Import Verif.Model.Base Verif.Model.Mode Verif.Model.Writers Verif.Model.Tree.
Require Import Verif.Proofs.ModeP.

Lemma replace_nth_length {A} n : forall (l : list A) x, length (replace_nth n l x) = length l.
Proof. induction n as [|n IH]; intros [|h t] x; cbn; auto. Qed.

Lemma nth_error_replace_other {A} n : forall (l : list A) x j, j <> n ->
  nth_error (replace_nth n l x) j = nth_error l j.
Proof.
  induction n as [|n IH]; intros [|h t] x j Hj; cbn; auto.
  - destruct j; [congruence|reflexivity].
  - destruct j; [reflexivity|]. cbn. apply IH. congruence.
Qed.

Lemma nth_error_replace_same {A} n : forall (l : list A) x, (n < length l)%nat ->
  nth_error (replace_nth n l x) n = Some x.
Proof.
  induction n as [|n IH]; intros [|h t] x H; cbn in *; try lia; auto.
  apply IH. lia.
Qed.

Section WithPool.
Variable is_logwriter : wid -> bool.
Notation step := (step is_logwriter).
Notation run := (run is_logwriter).
Notation apply_set := (apply_set is_logwriter).
Notation apply_sets := (apply_sets is_logwriter).

(* the one existing logger an operation may modify *)
Definition touched (w : world) (o : op) : option nat :=
  match o with
  | ONewPkg _ _ | ONew _ _ _ | OWith _ _ => None
  | OWithSkip p n =>
      match nth_error (entries w) p with
      | Some pe => find_child w p (NSkip (e_name pe) n)
      | None => None
      end
  | OSet i _ | OSetSkip i _ | OResetCtxKeys i => Some i
  | OPkgSetLevel _ => Some 0%nat
  end.

Lemma nth_error_app_old {A} (l : list A) x j : (j < length l)%nat ->
  nth_error (l ++ [x]) j = nth_error l j.
Proof. intros H. apply nth_error_app1. exact H. Qed.

(* isolation: every logger other than the touched one is left exactly as it was *)
Lemma step_isolation w o j : (j < length (entries w))%nat -> touched w o <> Some j ->
  nth_error (entries (fst (step w o))) j = nth_error (entries w) j.
Proof.
  intros Hj Ht. destruct o as [name opts|p name opts|p s|p n|i s|i n|i|l]; cbn [step touched] in *.
  - destruct (apply_sets _ _ opts) as [e g']. cbn. apply nth_error_app_old; exact Hj.
  - destruct (nth_error (entries w) p) as [pe0|]; [|reflexivity]. destruct name as [k|].
    + destruct (find_child w p (NStr k)); [reflexivity|].
      destruct (apply_sets _ _ opts) as [e g']. cbn. apply nth_error_app_old; exact Hj.
    + destruct (apply_sets _ _ opts) as [e g']. cbn. apply nth_error_app_old; exact Hj.
  - destruct (nth_error (entries w) p) as [pe0|]; [|reflexivity].
    destruct (apply_set _ _ s) as [e g']. cbn. apply nth_error_app_old; exact Hj.
  - destruct (nth_error (entries w) p) as [pe|]; [|reflexivity].
    destruct (find_child w p (NSkip (e_name pe) n)) as [c|].
    + destruct (nth_error (entries w) c) as [ec|]; [|reflexivity]. cbn.
      apply nth_error_replace_other. congruence.
    + cbn. apply nth_error_app_old; exact Hj.
  - destruct (nth_error (entries w) i) as [ei|]; [|reflexivity].
    destruct (apply_set _ _ s) as [e g']. cbn. apply nth_error_replace_other. congruence.
  - destruct (nth_error (entries w) i) as [ei|]; [|reflexivity]. cbn.
    apply nth_error_replace_other. congruence.
  - destruct (nth_error (entries w) i) as [ei|]; [|reflexivity]. cbn.
    apply nth_error_replace_other. congruence.
  - destruct (nth_error (entries w) 0) as [e|]; [|reflexivity].
    destruct (apply_set e _ (SLevel l)) as [e' g']. cbn [fst entries]. apply nth_error_replace_other. congruence.
Qed.

(* loggers are never removed; at most one is added *)
Lemma step_length w o :
  length (entries (fst (step w o))) = length (entries w) \/
  length (entries (fst (step w o))) = S (length (entries w)).
Proof.
  destruct o as [name opts|p name opts|p s|p n|i s|i n|i|l]; cbn [step].
  - destruct (apply_sets _ _ opts) as [e g']. cbn. rewrite app_length. cbn. right; lia.
  - destruct (nth_error (entries w) p) as [pe0|]; [|left; reflexivity]. destruct name as [k|].
    + destruct (find_child w p (NStr k)); [left; reflexivity|].
      destruct (apply_sets _ _ opts) as [e g']. cbn. rewrite app_length. cbn. right; lia.
    + destruct (apply_sets _ _ opts) as [e g']. cbn. rewrite app_length. cbn. right; lia.
  - destruct (nth_error (entries w) p) as [pe0|]; [|left; reflexivity].
    destruct (apply_set _ _ s) as [e g']. cbn. rewrite app_length. cbn. right; lia.
  - destruct (nth_error (entries w) p) as [pe|]; [|left; reflexivity].
    destruct (find_child w p (NSkip (e_name pe) n)) as [c|].
    + destruct (nth_error (entries w) c) as [ec|]; [|left; reflexivity]. cbn.
      rewrite replace_nth_length. left; reflexivity.
    + cbn. rewrite app_length. cbn. right; lia.
  - destruct (nth_error (entries w) i) as [ei|]; [|left; reflexivity].
    destruct (apply_set _ _ s) as [e g']. cbn. rewrite replace_nth_length. left; reflexivity.
  - destruct (nth_error (entries w) i) as [ei|]; [|left; reflexivity]. cbn.
    rewrite replace_nth_length. left; reflexivity.
  - destruct (nth_error (entries w) i) as [ei|]; [|left; reflexivity]. cbn.
    rewrite replace_nth_length. left; reflexivity.
  - destruct (nth_error (entries w) 0) as [e|]; [|left; reflexivity].
    destruct (apply_set e _ (SLevel l)) as [e' g']. cbn [fst entries]. rewrite replace_nth_length. left; reflexivity.
Qed.

(* ---- the mode invariant over every reachable world ---- *)
Definition all_wf (w : world) : Prop := Forall (fun e => mode_wf (e_mode e)) (entries w).

Lemma apply_set_wf e g s : mode_wf (e_mode e) -> mode_wf (e_mode (fst (apply_set e g s))).
Proof.
  intros H. destruct s; cbn; try exact H.
  - apply set_json_wf.
  - apply set_color_wf.
Qed.

Lemma apply_sets_wf ss : forall e g, mode_wf (e_mode e) -> mode_wf (e_mode (fst (apply_sets e g ss))).
Proof.
  unfold Tree.apply_sets. induction ss as [|s ss IH]; intros e g H; cbn [fold_left]; [exact H|].
  cbn [fst snd]. destruct (apply_set e g s) as [e1 g1] eqn:E. apply IH.
  change e1 with (fst (e1, g1)). rewrite <- E. apply apply_set_wf; exact H.
Qed.

Lemma Forall_replace_nth {A} (P : A -> Prop) n : forall l x, Forall P l -> P x -> Forall P (replace_nth n l x).
Proof.
  induction n as [|n IH]; intros [|h t] x Hl Hx; cbn; auto; inversion Hl; subst; constructor; auto.
Qed.

Lemma fresh_entry_wf w parent name : all_wf w -> mode_wf (e_mode (fresh_entry w parent name)).
Proof.
  intros Hw. unfold fresh_entry. destruct parent as [p|]; [|reflexivity].
  destruct (nth_error (entries w) p) as [pe|] eqn:E; [|reflexivity]. cbn.
  unfold all_wf in Hw. rewrite Forall_forall in Hw. apply Hw. eapply nth_error_In; exact E.
Qed.

Lemma Forall_snoc {A} (P : A -> Prop) l x : Forall P l -> P x -> Forall P (l ++ [x]).
Proof. intros Hl Hx. apply Forall_app. split; [exact Hl|constructor; [exact Hx|constructor]]. Qed.

Lemma step_wf w o : all_wf w -> all_wf (fst (step w o)).
Proof.
  intros Hw. pose proof Hw as Hw'. unfold all_wf in Hw'. rewrite Forall_forall in Hw'.
  assert (Hn : forall i e, nth_error (entries w) i = Some e -> mode_wf (e_mode e)).
  { intros i e E. apply Hw'. eapply nth_error_In; exact E. }
  destruct o as [name opts|p name opts|p s|p n|i s|i n|i|l]; cbn [step].
  - destruct (apply_sets _ _ opts) as [e g'] eqn:E. cbn. apply Forall_snoc; [exact Hw|].
    change e with (fst (e, g')). rewrite <- E. apply apply_sets_wf. apply fresh_entry_wf; exact Hw.
  - destruct (nth_error (entries w) p) as [pe0|]; [|exact Hw]. destruct name as [k|].
    + destruct (find_child w p (NStr k)); [exact Hw|].
      destruct (apply_sets _ _ opts) as [e g'] eqn:E. cbn. apply Forall_snoc; [exact Hw|].
      change e with (fst (e, g')). rewrite <- E. apply apply_sets_wf. apply fresh_entry_wf; exact Hw.
    + destruct (apply_sets _ _ opts) as [e g'] eqn:E. cbn. apply Forall_snoc; [exact Hw|].
      change e with (fst (e, g')). rewrite <- E. apply apply_sets_wf. apply fresh_entry_wf; exact Hw.
  - destruct (nth_error (entries w) p) as [pe0|]; [|exact Hw].
    destruct (apply_set _ _ s) as [e g'] eqn:E. cbn. apply Forall_snoc; [exact Hw|].
    change e with (fst (e, g')). rewrite <- E. apply apply_set_wf. apply fresh_entry_wf; exact Hw.
  - destruct (nth_error (entries w) p) as [pe|]; [|exact Hw].
    destruct (find_child w p (NSkip (e_name pe) n)) as [c|].
    + destruct (nth_error (entries w) c) as [ec|] eqn:Ec; [|exact Hw]. cbn.
      apply Forall_replace_nth; [exact Hw|]. cbn. eapply Hn; exact Ec.
    + cbn. apply Forall_snoc; [exact Hw|]. cbn. apply fresh_entry_wf; exact Hw.
  - destruct (nth_error (entries w) i) as [e|] eqn:Ei; [|exact Hw].
    destruct (apply_set e _ s) as [e' g'] eqn:E. cbn. apply Forall_replace_nth; [exact Hw|].
    change e' with (fst (e', g')). rewrite <- E. apply apply_set_wf. eapply Hn; exact Ei.
  - destruct (nth_error (entries w) i) as [e|] eqn:Ei; [|exact Hw]. cbn.
    apply Forall_replace_nth; [exact Hw|]. cbn. eapply Hn; exact Ei.
  - destruct (nth_error (entries w) i) as [e|] eqn:Ei; [|exact Hw]. cbn.
    apply Forall_replace_nth; [exact Hw|]. cbn. eapply Hn; exact Ei.
  - destruct (nth_error (entries w) 0) as [e|] eqn:Ei; [|exact Hw].
    destruct (apply_set e _ (SLevel l)) as [e' g'] eqn:E. unfold all_wf. cbn [fst entries]. apply Forall_replace_nth; [exact Hw|].
    change e' with (fst (e', g')). rewrite <- E. apply apply_set_wf. eapply Hn; exact Ei.
Qed.

Lemma run_wf ops : forall w, all_wf w -> all_wf (run w ops).
Proof.
  unfold Tree.run. induction ops as [|o ops IH]; intros w Hw; cbn [fold_left]; [exact Hw|].
  apply IH. apply step_wf; exact Hw.
Qed.

Lemma init_wf l d t : all_wf (init_world l d t).
Proof. unfold all_wf, init_world. cbn. constructor; [reflexivity|constructor]. Qed.

(* a Set mode call on logger i is exactly the machine step on i *)
Lemma set_mode_call_effect w i e c :
  nth_error (entries w) i = Some e ->
  let s := match c with CallJSON b => SJSON b | CallColor b => SColor b end in
  nth_error (entries (fst (step w (OSet i s)))) i = Some (with_mode e (apply_call (e_mode e) c)).
Proof.
  intros E s. subst s. assert (Hi : (i < length (entries w))%nat) by (apply nth_error_Some; congruence).
  destruct c as [b|b]; cbn [step]; rewrite E; cbn; apply nth_error_replace_same; exact Hi.
Qed.

End WithPool.
