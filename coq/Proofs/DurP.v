(* C20: lemmas about the duration formatter and parser (Model/Dur.v). *)
Require Import Verif.Model.Base Verif.Model.Decision Verif.Model.Dur.
From Coq Require Import Lia ZifyBool ZifyNat ZifyN Floats.

(* ---------- bytes and digits ---------- *)
Lemma bz_digit_byte : forall d, 0 <= d <= 9 -> bz (digit_byte d) = d + 48.
Proof.
  intros d H.
  assert (C : d = 0 \/ d = 1 \/ d = 2 \/ d = 3 \/ d = 4 \/ d = 5 \/ d = 6 \/ d = 7 \/ d = 8 \/ d = 9) by lia.
  repeat (destruct C as [C|C]; [subst d; reflexivity|]). subst d; reflexivity.
Qed.

Lemma is_digit_iff : forall c, is_digit c = true <-> 48 <= bz c <= 57.
Proof. intros c. unfold is_digit. lia. Qed.

Lemma is_digit_digit_byte : forall d, 0 <= d <= 9 -> is_digit (digit_byte d) = true.
Proof. intros d H. apply is_digit_iff. rewrite bz_digit_byte by assumption. lia. Qed.

Lemma is_dd_digit : forall c, is_digit c = true -> is_dd c = true.
Proof. intros c H. unfold is_dd. rewrite H. apply orb_true_r. Qed.

Lemma mod10_range : forall v, 0 <= v mod 10 <= 9.
Proof. intros v. pose proof (Z.mod_pos_bound v 10). lia. Qed.

(* ---------- the writer: a state is determined by the text written so far ---------- *)
Definition mk (B : Z) (t : bytes) : wstate :=
  if Z.of_nat (length t) <=? B then Some (B - Z.of_nat (length t), t) else None.

Lemma push_mk : forall B c t, push c (mk B t) = mk B (c :: t).
Proof.
  intros B c t. unfold mk, push. cbn [length]. rewrite Nat2Z.inj_succ.
  destruct (Z.of_nat (length t) <=? B) eqn:E1; destruct (Z.succ (Z.of_nat (length t)) <=? B) eqn:E2; try lia.
  - destruct (B - Z.of_nat (length t) - 1 <? 0) eqn:E3; try lia. f_equal. f_equal. lia.
  - destruct (B - Z.of_nat (length t) - 1 <? 0) eqn:E3; try lia. reflexivity.
  - reflexivity.
Qed.

Lemma pushes_mk : forall l B t, fold_left (fun s c => push c s) l (mk B t) = mk B (rev l ++ t).
Proof.
  induction l as [|c l IH]; intros B t; cbn [fold_left rev app]; [reflexivity|].
  rewrite push_mk, IH, <- app_assoc. reflexivity.
Qed.

(* ---------- fmtInt ---------- *)
Fixpoint dec_loop (fuel : nat) (v : Z) (acc : bytes) : bytes :=
  match fuel with
  | O => acc
  | S f => if v >? 0 then dec_loop f (v / 10) (digit_byte (v mod 10) :: acc) else acc
  end.
Definition dec (v : Z) : bytes := if v =? 0 then [x30] else dec_loop 20 v [].

Lemma fmt_int_loop_mk : forall fuel v B t, fmt_int_loop fuel v (mk B t) = mk B (dec_loop fuel v t).
Proof.
  induction fuel as [|f IH]; intros v B t; cbn [fmt_int_loop dec_loop]; [reflexivity|].
  destruct (v >? 0); [|reflexivity]. rewrite push_mk. apply IH.
Qed.

Lemma dec_loop_app : forall fuel v acc, dec_loop fuel v acc = dec_loop fuel v [] ++ acc.
Proof.
  induction fuel as [|f IH]; intros v acc; cbn [dec_loop]; [reflexivity|].
  destruct (v >? 0); [|reflexivity].
  rewrite IH. rewrite (IH _ [_]). rewrite <- app_assoc. reflexivity.
Qed.

Lemma fmt_int_mk : forall v B t, fmt_int v (mk B t) = mk B (dec v ++ t).
Proof.
  intros v B t. unfold fmt_int, dec. destruct (v =? 0).
  - apply push_mk.
  - rewrite fmt_int_loop_mk, dec_loop_app. reflexivity.
Qed.

(* value of a digit string read left to right, starting from x *)
Definition dval (ds : bytes) (x : Z) : Z := fold_left (fun a c => a * 10 + (bz c - 48)) ds x.
Definition all_digits (ds : bytes) : Prop := Forall (fun c => is_digit c = true) ds.

Lemma dval_app : forall a b x, dval (a ++ b) x = dval b (dval a x).
Proof. intros. unfold dval. apply fold_left_app. Qed.

Lemma dec_loop_digits : forall fuel v acc, all_digits acc -> all_digits (dec_loop fuel v acc).
Proof.
  induction fuel as [|f IH]; intros v acc H; cbn [dec_loop]; [assumption|].
  destruct (v >? 0); [|assumption]. apply IH. constructor; [|assumption].
  apply is_digit_digit_byte, mod10_range.
Qed.

Lemma dec_loop_dval : forall fuel v acc, 0 <= v < 10 ^ Z.of_nat fuel -> dval (dec_loop fuel v acc) 0 = dval acc v.
Proof.
  induction fuel as [|f IH]; intros v acc H; cbn [dec_loop].
  - change (10 ^ Z.of_nat 0) with 1 in H. assert (v = 0) by lia. subst v. reflexivity.
  - destruct (v >? 0) eqn:E.
    + rewrite IH.
      * unfold dval. cbn [fold_left]. rewrite bz_digit_byte by apply mod10_range.
        f_equal. pose proof (Z.div_mod v 10). lia.
      * rewrite Nat2Z.inj_succ, Z.pow_succ_r in H by lia.
        split; [apply Z.div_pos; lia|]. apply Z.div_lt_upper_bound; lia.
    + assert (v = 0) by lia. subst v. reflexivity.
Qed.

Lemma dec_loop_length : forall fuel v acc k, 0 <= v < 10 ^ Z.of_nat k ->
  (length (dec_loop fuel v acc) <= length acc + k)%nat.
Proof.
  induction fuel as [|f IH]; intros v acc k H; cbn [dec_loop]; [lia|].
  destruct (v >? 0) eqn:E; [|lia].
  destruct k as [|k]; [change (10 ^ Z.of_nat 0) with 1 in H; lia|].
  specialize (IH (v / 10) (digit_byte (v mod 10) :: acc) k). cbn [length] in IH.
  rewrite Nat2Z.inj_succ, Z.pow_succ_r in H by lia.
  assert (0 <= v / 10 < 10 ^ Z.of_nat k).
  { split; [apply Z.div_pos; lia|]. apply Z.div_lt_upper_bound; lia. }
  specialize (IH H0). lia.
Qed.

Lemma dec_loop_nonempty : forall fuel v acc, (0 < fuel)%nat -> 0 < v -> exists c r, dec_loop fuel v acc = c :: r /\ is_digit c = true.
Proof.
  induction fuel as [|f IH]; intros v acc Hf Hv; [lia|]. cbn [dec_loop].
  destruct (v >? 0) eqn:E; [|lia].
  destruct (Z.eq_dec (v / 10) 0) as [Z0|NZ].
  - rewrite Z0. destruct f; cbn [dec_loop]; (eexists; eexists; split; [reflexivity|apply is_digit_digit_byte, mod10_range]).
  - destruct f as [|f'].
    + cbn [dec_loop]. eexists; eexists; split; [reflexivity|apply is_digit_digit_byte, mod10_range].
    + apply IH; [lia|]. pose proof (Z.div_pos v 10). lia.
Qed.

Lemma pow10_20 : 10 ^ Z.of_nat 20 = 100000000000000000000.
Proof. reflexivity. Qed.

Lemma dec_digits : forall v, all_digits (dec v).
Proof.
  intros v. unfold dec. destruct (v =? 0).
  - repeat constructor.
  - apply dec_loop_digits. constructor.
Qed.

Lemma dec_dval : forall v, 0 <= v < two64 -> dval (dec v) 0 = v.
Proof.
  intros v H. unfold dec. destruct (v =? 0) eqn:E.
  - assert (v = 0) by lia. subst v. reflexivity.
  - rewrite dec_loop_dval; [reflexivity|]. rewrite pow10_20. unfold two64 in H. lia.
Qed.

Lemma dec_head : forall v, 0 <= v -> exists c r, dec v = c :: r /\ is_digit c = true.
Proof.
  intros v H. unfold dec. destruct (v =? 0) eqn:E.
  - exists x30, []. split; reflexivity.
  - apply dec_loop_nonempty; lia.
Qed.

Lemma dec_length : forall v k, (0 < k)%nat -> 0 <= v < 10 ^ Z.of_nat k -> (length (dec v) <= k)%nat.
Proof.
  intros v k Hk H. unfold dec. destruct (v =? 0).
  - cbn [length]. lia.
  - pose proof (dec_loop_length 20 v [] k H). cbn [length] in H0. lia.
Qed.
(* ---------- fmtFrac ---------- *)
Fixpoint frac_loop (n : nat) (v : Z) (printed : bool) (acc : bytes) : bytes * bool * Z :=
  match n with
  | O => (acc, printed, v)
  | S p =>
      let printed' := printed || negb (v mod 10 =? 0) in
      frac_loop p (v / 10) printed' (if printed' then digit_byte (v mod 10) :: acc else acc)
  end.

Lemma fmt_frac_loop_mk : forall n v p B t,
  fmt_frac_loop n v p (mk B t) = let '(a, p', v') := frac_loop n v p t in (mk B a, p', v').
Proof.
  induction n as [|n IH]; intros v p B t; cbn [fmt_frac_loop frac_loop]; [reflexivity|].
  destruct (p || negb (v mod 10 =? 0)).
  - rewrite push_mk. apply IH.
  - apply IH.
Qed.

Lemma frac_loop_app : forall n v p acc,
  frac_loop n v p acc = let '(a, p', v') := frac_loop n v p [] in (a ++ acc, p', v').
Proof.
  induction n as [|n IH]; intros v p acc; cbn [frac_loop]; [reflexivity|].
  set (p' := p || negb (v mod 10 =? 0)).
  rewrite (IH _ _ (if p' then _ :: acc else acc)).
  rewrite (IH _ _ (if p' then [_] else [])).
  destruct (frac_loop n (v / 10) p' []) as [[a q] w].
  destruct p'; cbn [app]; rewrite <- ?app_assoc; cbn [app]; rewrite ?app_nil_r; reflexivity.
Qed.

Lemma pow10_S : forall n, 10 ^ Z.of_nat (S n) = 10 * 10 ^ Z.of_nat n.
Proof. intros n. rewrite Nat2Z.inj_succ, Z.pow_succ_r by lia. reflexivity. Qed.

Lemma pow10_pos : forall n, 0 < 10 ^ Z.of_nat n.
Proof. intros n. apply Z.pow_pos_nonneg; lia. Qed.

Lemma mod_pow10_S : forall v n, v mod 10 ^ Z.of_nat (S n) = v mod 10 + 10 * ((v / 10) mod 10 ^ Z.of_nat n).
Proof. intros v n. rewrite pow10_S. apply Z.rem_mul_r; [lia|apply pow10_pos]. Qed.

Lemma div_pow10_S : forall v n, v / 10 / 10 ^ Z.of_nat n = v / 10 ^ Z.of_nat (S n).
Proof. intros v n. rewrite pow10_S. apply Z.div_div; [lia|apply pow10_pos]. Qed.

Lemma frac_loop_printed : forall n v acc, exists ds,
  frac_loop n v true acc = (ds ++ acc, true, v / 10 ^ Z.of_nat n) /\ all_digits ds /\ length ds = n
  /\ forall x, dval ds x = x * 10 ^ Z.of_nat n + v mod 10 ^ Z.of_nat n.
Proof.
  induction n as [|n IH]; intros v acc.
  - exists []. cbn [frac_loop app length]. change (10 ^ Z.of_nat 0) with 1.
    rewrite Z.div_1_r. repeat split; [constructor|]. intros x. rewrite Z.mod_1_r. unfold dval. cbn [fold_left]. lia.
  - cbn [frac_loop]. cbn [orb].
    destruct (IH (v / 10) (digit_byte (v mod 10) :: acc)) as [ds [E [D [L V]]]].
    exists (ds ++ [digit_byte (v mod 10)]). rewrite E, <- app_assoc, div_pow10_S. cbn [app].
    split; [reflexivity|]. split; [|split].
    + apply Forall_app. split; [assumption|]. constructor; [|constructor]. apply is_digit_digit_byte, mod10_range.
    + rewrite app_length. cbn [length]. lia.
    + intros x. rewrite dval_app, V. unfold dval at 1. cbn [fold_left].
      rewrite bz_digit_byte by apply mod10_range. rewrite mod_pow10_S, pow10_S. lia.
Qed.

Lemma frac_loop_unprinted : forall n v acc,
  (v mod 10 ^ Z.of_nat n = 0 /\ frac_loop n v false acc = (acc, false, v / 10 ^ Z.of_nat n))
  \/ (exists ds, frac_loop n v false acc = (ds ++ acc, true, v / 10 ^ Z.of_nat n) /\ all_digits ds
      /\ (1 <= length ds <= n)%nat
      /\ dval ds 0 * 10 ^ Z.of_nat (n - length ds) = v mod 10 ^ Z.of_nat n /\ 0 < v mod 10 ^ Z.of_nat n).
Proof.
  induction n as [|n IH]; intros v acc.
  - left. cbn [frac_loop]. change (10 ^ Z.of_nat 0) with 1. rewrite Z.div_1_r, Z.mod_1_r. split; reflexivity.
  - cbn [frac_loop]. cbn [orb]. pose proof (mod10_range v) as R.
    destruct (v mod 10 =? 0) eqn:E0; cbn [negb].
    + destruct (IH (v / 10) acc) as [[Z0 E]|[ds [E [D [L [V P]]]]]].
      * left. rewrite E, div_pow10_S, mod_pow10_S. split; [lia|reflexivity].
      * right. exists ds. rewrite E, div_pow10_S, mod_pow10_S. split; [reflexivity|]. split; [assumption|].
        split; [lia|]. replace (S n - length ds)%nat with (S (n - length ds)) by lia. rewrite pow10_S. lia.
    + right. destruct (frac_loop_printed n (v / 10) (digit_byte (v mod 10) :: acc)) as [ds [E [D [L V]]]].
      exists (ds ++ [digit_byte (v mod 10)]). rewrite E, <- app_assoc, div_pow10_S. cbn [app].
      split; [reflexivity|]. split; [|split; [|split]].
      * apply Forall_app. split; [assumption|]. constructor; [|constructor]. apply is_digit_digit_byte, mod10_range.
      * rewrite app_length. cbn [length]. lia.
      * rewrite app_length. cbn [length]. replace (S n - (length ds + 1))%nat with 0%nat by lia.
        change (10 ^ Z.of_nat 0) with 1. rewrite dval_app, V. unfold dval. cbn [fold_left].
        rewrite bz_digit_byte by apply mod10_range. rewrite mod_pow10_S. lia.
      * rewrite mod_pow10_S. pose proof (Z.mod_pos_bound (v / 10) (10 ^ Z.of_nat n) (pow10_pos n)). lia.
Qed.

(* the text fmtFrac writes: nothing, or '.' and the digits without trailing zeros *)
Definition frac_text (n : nat) (v : Z) : bytes :=
  let '(a, p, _) := frac_loop n v false [] in if p then x2e :: a else a.

Lemma fmt_frac_mk : forall n v B t, fmt_frac (mk B t) v n = (mk B (frac_text n v ++ t), v / 10 ^ Z.of_nat n).
Proof.
  intros n v B t. unfold fmt_frac, frac_text. rewrite fmt_frac_loop_mk, frac_loop_app.
  destruct (frac_loop_unprinted n v []) as [[_ E]|[ds [E _]]]; rewrite E.
  - reflexivity.
  - rewrite push_mk. reflexivity.
Qed.

Lemma frac_text_spec : forall n v,
  (v mod 10 ^ Z.of_nat n = 0 /\ frac_text n v = [])
  \/ (exists ds, frac_text n v = x2e :: ds /\ all_digits ds /\ (1 <= length ds <= n)%nat
      /\ dval ds 0 * 10 ^ Z.of_nat (n - length ds) = v mod 10 ^ Z.of_nat n /\ 0 < dval ds 0).
Proof.
  intros n v. unfold frac_text.
  destruct (frac_loop_unprinted n v []) as [[Z0 E]|[ds [E [D [L [V P]]]]]]; rewrite E.
  - left. split; [assumption|reflexivity].
  - right. exists ds. rewrite app_nil_r. repeat split; try assumption; try lia.
    all: try (pose proof (pow10_pos (n - length ds)); nia).
Qed.
(* ---------- the text the formatter writes, as a pure function ---------- *)
Definition text_msec (u : Z) : bytes :=
  if u =? 0 then [x30]
  else if u <? microsecond then dec (u / 10 ^ Z.of_nat 0) ++ frac_text 0 u ++ [x6e]
  else if u <? millisecond then dec (u / 10 ^ Z.of_nat 3) ++ frac_text 3 u ++ [xc2; xb5]
  else dec (u / 10 ^ Z.of_nat 6) ++ frac_text 6 u ++ [x6d].
Definition text_seconds (u : Z) : bytes := text_msec u ++ [x73].

Definition text_part (v : Z) (uname : bytes) : bytes := if v >? 0 then dec v ++ uname else [].

Definition text_frac_style (u : Z) : bytes :=
  let s := u / 10 ^ Z.of_nat 9 in
  (if s / 60 >? 0
   then (if s / 60 / 60 >? 0 then dec (s / 60 / 60) ++ [x68] else []) ++ dec (s / 60 mod 60) ++ [x6d]
   else [])
  ++ dec (s mod 60) ++ frac_text 9 u ++ [x73].

Definition text_compact (u : Z) : bytes :=
  let '(days, hours, minutes, seconds, ms, us, ns) := compact_split u in
  text_part days [x64] ++ text_part hours [x68] ++ text_part minutes [x6d] ++ text_part seconds [x73]
  ++ text_part ms [x6d; x73] ++ text_part us [xc2; xb5; x73] ++ text_part ns [x6e; x73].

Definition text_body (frac : bool) (u : Z) : bytes :=
  if u <? second then text_seconds u else if frac then text_frac_style u else text_compact u.

Definition abs_u (d : Z) : Z := if d <? 0 then u64 (- u64 d) else u64 d.

Definition text (frac : bool) (d : Z) : bytes :=
  (if d <? 0 then [x2d] else []) ++ text_body frac (abs_u d).

Lemma fmt_seconds_mk : forall u B t, fmt_seconds u (mk B t) = mk B (text_seconds u ++ t).
Proof.
  intros u B t. unfold fmt_seconds, fmt_msec, text_seconds, text_msec. rewrite push_mk.
  destruct (u =? 0); [rewrite push_mk; reflexivity|].
  destruct (u <? microsecond); [|destruct (u <? millisecond)];
    rewrite ?push_mk, fmt_frac_mk; cbv beta iota; rewrite fmt_int_mk; f_equal;
    rewrite <- !app_assoc; reflexivity.
Qed.

Lemma fmt_part_mk : forall v ur B t, fmt_part v ur (mk B t) = mk B (text_part v (rev ur) ++ t).
Proof.
  intros v ur B t. unfold fmt_part, text_part. destruct (v >? 0); [|reflexivity].
  rewrite pushes_mk, fmt_int_mk, <- app_assoc. reflexivity.
Qed.

Lemma mk_nil : forall B, 0 <= B -> Some (B, []) = mk B [].
Proof. intros B H. unfold mk. cbn [length]. destruct (Z.of_nat 0 <=? B) eqn:E; [|lia]. do 2 f_equal. lia. Qed.

Theorem short_dur_text : forall B frac d, 0 <= B ->
  short_dur B frac d = if Z.of_nat (length (text frac d)) <=? B then Ok (text frac d) else Panic.
Proof.
  intros B frac d HB. unfold short_dur. cbv zeta. fold (abs_u d).
  rewrite (mk_nil B HB). unfold text, text_body.
  set (u := abs_u d).
  assert (FIN : forall t, match (if d <? 0 then push x2d (mk B t) else mk B t) with
                          | Some (_, acc) => Ok acc | None => Panic end
                = if Z.of_nat (length ((if d <? 0 then [x2d] else []) ++ t)) <=? B
                  then Ok ((if d <? 0 then [x2d] else []) ++ t) else Panic).
  { intros t. destruct (d <? 0).
    - rewrite push_mk. cbn [app]. unfold mk. destruct (_ <=? B); reflexivity.
    - cbn [app]. unfold mk. destruct (_ <=? B); reflexivity. }
  destruct (u <? second).
  - rewrite fmt_seconds_mk, app_nil_r. apply FIN.
  - destruct frac.
    + unfold text_frac_style. cbv zeta. rewrite push_mk, fmt_frac_mk. cbv beta iota.
      rewrite fmt_int_mk.
      destruct (u / 10 ^ Z.of_nat 9 / 60 >? 0).
      * rewrite push_mk, fmt_int_mk.
        destruct (u / 10 ^ Z.of_nat 9 / 60 / 60 >? 0).
        -- rewrite push_mk, fmt_int_mk. rewrite <- FIN. rewrite <- !app_assoc. reflexivity.
        -- rewrite <- FIN. rewrite <- !app_assoc. reflexivity.
      * rewrite <- FIN. reflexivity.
    + unfold text_compact. destruct (compact_split u) as [[[[[[days hours] minutes] seconds] ms] us] ns].
      rewrite !fmt_part_mk. cbn [rev app]. rewrite <- FIN. rewrite <- ?app_assoc, ?app_nil_r. reflexivity.
Qed.
(* ---------- the compact split ---------- *)
Lemma split_at_eq : forall u m, 0 <= u -> 0 < m -> split_at u m = (u / m, u mod m).
Proof.
  intros u m Hu Hm. unfold split_at. destruct (u >=? m) eqn:E; [reflexivity|].
  rewrite Z.div_small, Z.mod_small by lia. reflexivity.
Qed.

Lemma compact_split_spec : forall u, 0 <= u <= two63 -> exists dd hh mm ss ms us ns,
  compact_split u = (dd, hh, mm, ss, ms, us, ns)
  /\ 0 <= dd <= 106751 /\ 0 <= hh < 24 /\ 0 <= mm < 60 /\ 0 <= ss < 60 /\ 0 <= ms < 1000 /\ 0 <= us < 1000 /\ 0 <= ns < 1000
  /\ dd * day + hh * hour + mm * minute + ss * second + ms * millisecond + us * microsecond + ns = u.
Proof.
  intros u H. unfold compact_split.
  assert (E0 : (if u >=? day then (u / 24 / hour, u mod day) else (0, u)) = (u / day, u mod day)).
  { destruct (u >=? day) eqn:E.
    - rewrite Z.div_div by (unfold hour; lia). reflexivity.
    - rewrite Z.div_small, Z.mod_small by lia. reflexivity. }
  rewrite E0. clear E0.
  set (u1 := u mod day). assert (B1 : 0 <= u1 < day) by (apply Z.mod_pos_bound; reflexivity).
  rewrite (split_at_eq u1 hour) by (unfold hour; lia).
  set (u2 := u1 mod hour). assert (B2 : 0 <= u2 < hour) by (apply Z.mod_pos_bound; reflexivity).
  rewrite (split_at_eq u2 minute) by (unfold minute; lia).
  set (u3 := u2 mod minute). assert (B3 : 0 <= u3 < minute) by (apply Z.mod_pos_bound; reflexivity).
  rewrite (split_at_eq u3 second) by (unfold second; lia).
  set (u4 := u3 mod second). assert (B4 : 0 <= u4 < second) by (apply Z.mod_pos_bound; reflexivity).
  rewrite (split_at_eq u4 millisecond) by (unfold millisecond; lia).
  set (u5 := u4 mod millisecond). assert (B5 : 0 <= u5 < millisecond) by (apply Z.mod_pos_bound; reflexivity).
  rewrite (split_at_eq u5 microsecond) by (unfold microsecond; lia).
  exists (u / day), (u1 / hour), (u2 / minute), (u3 / second), (u4 / millisecond), (u5 / microsecond), (u5 mod microsecond).
  split; [reflexivity|].
  pose proof (Z.div_mod u day ltac:(unfold day; lia)) as D0. fold u1 in D0.
  pose proof (Z.div_mod u1 hour ltac:(unfold hour; lia)) as D1. fold u2 in D1.
  pose proof (Z.div_mod u2 minute ltac:(unfold minute; lia)) as D2. fold u3 in D2.
  pose proof (Z.div_mod u3 second ltac:(unfold second; lia)) as D3. fold u4 in D3.
  pose proof (Z.div_mod u4 millisecond ltac:(unfold millisecond; lia)) as D4. fold u5 in D4.
  pose proof (Z.div_mod u5 microsecond ltac:(unfold microsecond; lia)) as D5.
  pose proof (Z.mod_pos_bound u5 microsecond ltac:(reflexivity)) as B6.
  clearbody u1 u2 u3 u4 u5.
  unfold day, hour, minute, second, millisecond, microsecond, two63 in *.
  repeat split; try lia.
Qed.

(* ---------- totality: the longest text has 33 bytes ---------- *)
Lemma frac_text_length : forall n v, (length (frac_text n v) <= S n)%nat.
Proof.
  intros n v. destruct (frac_text_spec n v) as [[_ E]|(ds & E & _ & L & _)]; rewrite E; cbn [length]; lia.
Qed.

Lemma text_part_length : forall v un k, (0 < k)%nat -> 0 <= v < 10 ^ Z.of_nat k ->
  (length (text_part v un) <= k + length un)%nat.
Proof.
  intros v un k Hk H. unfold text_part. destruct (v >? 0); [|cbn [length]; lia].
  rewrite app_length. pose proof (dec_length v k Hk H). lia.
Qed.

Lemma abs_u_spec : forall d, - two63 <= d < two63 -> abs_u d = Z.abs d.
Proof.
  intros d H. unfold abs_u, u64, two64, two63 in *. destruct (d <? 0) eqn:E.
  - rewrite (Z.abs_neq d) by lia.
    assert (E1 : d mod 18446744073709551616 = d + 18446744073709551616).
    { symmetry. apply (Z.mod_unique_pos d _ (-1)); lia. }
    rewrite E1. symmetry. apply (Z.mod_unique_pos _ _ (-1)); lia.
  - rewrite Z.abs_eq by lia. apply Z.mod_small. lia.
Qed.

Lemma div_bounds : forall u m q, 0 <= u -> 0 < m -> u < m * q -> 0 <= u / m < q.
Proof. intros u m q Hu Hm H. split; [apply Z.div_pos; lia|apply Z.div_lt_upper_bound; lia]. Qed.

Lemma text_body_length : forall frac u, 0 <= u <= two63 -> (length (text_body frac u) <= 32)%nat.
Proof.
  intros frac u H. unfold text_body. destruct (u <? second) eqn:Esec.
  - unfold text_seconds, text_msec. unfold second in Esec.
    destruct (u =? 0); [cbn [length app]; lia|].
    destruct (u <? microsecond) eqn:E1; [|destruct (u <? millisecond) eqn:E2];
      unfold microsecond, millisecond in *; rewrite !app_length; cbn [length].
    + change (10 ^ Z.of_nat 0) with 1. rewrite Z.div_1_r.
      pose proof (dec_length u 3 ltac:(lia) ltac:(change (10 ^ Z.of_nat 3) with 1000; lia)).
      pose proof (frac_text_length 0 u). lia.
    + pose proof (dec_length (u / 10 ^ Z.of_nat 3) 3 ltac:(lia)
                    ltac:(change (10 ^ Z.of_nat 3) with 1000; apply div_bounds; lia)).
      pose proof (frac_text_length 3 u). lia.
    + pose proof (dec_length (u / 10 ^ Z.of_nat 6) 3 ltac:(lia)
                    ltac:(change (10 ^ Z.of_nat 3) with 1000; change (10 ^ Z.of_nat 6) with 1000000; apply div_bounds; lia)).
      pose proof (frac_text_length 6 u). lia.
  - destruct frac.
    + unfold text_frac_style. cbv zeta. set (s := u / 10 ^ Z.of_nat 9).
      assert (Hs : 0 <= s < 9223372037).
      { unfold s. change (10 ^ Z.of_nat 9) with 1000000000. unfold two63 in H. apply div_bounds; lia. }
      assert (Lh : (length (dec (s / 60 / 60)) <= 7)%nat).
      { apply dec_length; [lia|]. change (10 ^ Z.of_nat 7) with 10000000.
        rewrite Z.div_div by lia. apply div_bounds; lia. }
      assert (Lm : (length (dec (s / 60 mod 60)) <= 2)%nat).
      { apply dec_length; [lia|]. change (10 ^ Z.of_nat 2) with 100. pose proof (Z.mod_pos_bound (s / 60) 60). lia. }
      assert (Ls : (length (dec (s mod 60)) <= 2)%nat).
      { apply dec_length; [lia|]. change (10 ^ Z.of_nat 2) with 100. pose proof (Z.mod_pos_bound s 60). lia. }
      pose proof (frac_text_length 9 u).
      destruct (s / 60 >? 0); [destruct (s / 60 / 60 >? 0)|]; rewrite !app_length; cbn [length]; lia.
    + unfold text_compact.
      destruct (compact_split_spec u H) as (dd & hh & mm & ss & ms & us & ns & E & Bd & Bh & Bm & Bs & Bms & Bus & Bns & _).
      rewrite E. rewrite !app_length.
      pose proof (text_part_length dd [x64] 6 ltac:(lia) ltac:(change (10 ^ Z.of_nat 6) with 1000000; lia)).
      pose proof (text_part_length hh [x68] 2 ltac:(lia) ltac:(change (10 ^ Z.of_nat 2) with 100; lia)).
      pose proof (text_part_length mm [x6d] 2 ltac:(lia) ltac:(change (10 ^ Z.of_nat 2) with 100; lia)).
      pose proof (text_part_length ss [x73] 2 ltac:(lia) ltac:(change (10 ^ Z.of_nat 2) with 100; lia)).
      pose proof (text_part_length ms [x6d; x73] 3 ltac:(lia) ltac:(change (10 ^ Z.of_nat 3) with 1000; lia)).
      pose proof (text_part_length us [xc2; xb5; x73] 3 ltac:(lia) ltac:(change (10 ^ Z.of_nat 3) with 1000; lia)).
      pose proof (text_part_length ns [x6e; x73] 3 ltac:(lia) ltac:(change (10 ^ Z.of_nat 3) with 1000; lia)).
      cbn [length] in *. lia.
Qed.

Theorem text_length : forall frac d, - two63 <= d < two63 -> (length (text frac d) <= 33)%nat.
Proof.
  intros frac d H. unfold text. rewrite app_length.
  assert (A : 0 <= abs_u d <= two63) by (rewrite abs_u_spec by assumption; unfold two63 in *; lia).
  pose proof (text_body_length frac (abs_u d) A) as L. destruct (d <? 0); cbn [length]; lia.
Qed.

Theorem short_dur_total : forall B frac d, 33 <= B -> - two63 <= d < two63 -> short_dur B frac d <> Panic.
Proof.
  intros B frac d HB H. rewrite short_dur_text by lia.
  pose proof (text_length frac d H). destruct (_ <=? B) eqn:E; [discriminate|lia].
Qed.

Theorem short_dur_ok_text : forall B frac d t, 0 <= B -> short_dur B frac d = Ok t -> t = text frac d.
Proof.
  intros B frac d t HB H. rewrite short_dur_text in H by assumption.
  destruct (_ <=? B); [injection H; auto|discriminate].
Qed.
(* ---------- the parser on digit strings ---------- *)
Lemma u64_small : forall z, 0 <= z < two64 -> u64 z = z.
Proof. intros z H. unfold u64. apply Z.mod_small. assumption. Qed.

Definition not_digit_head (s : bytes) : Prop := match s with [] => True | c :: _ => is_digit c = false end.
Definition dd_head (s : bytes) : Prop := match s with [] => True | c :: _ => is_dd c = true end.
Definition no_dd (u : bytes) : Prop := Forall (fun c => is_dd c = false) u.

Lemma dval_ge : forall ds x, all_digits ds -> 0 <= x -> x <= dval ds x.
Proof.
  induction ds as [|c t IH]; intros x D Hx; [unfold dval; cbn [fold_left]; lia|].
  inversion D as [|c' t' Dc Dt]; subst. apply is_digit_iff in Dc.
  change (dval (c :: t) x) with (dval t (x * 10 + (bz c - 48))).
  specialize (IH (x * 10 + (bz c - 48)) Dt). lia.
Qed.

Lemma dval_lt : forall ds x, all_digits ds -> 0 <= x -> dval ds x < (x + 1) * 10 ^ Z.of_nat (length ds).
Proof.
  induction ds as [|c t IH]; intros x D Hx.
  - unfold dval. cbn [fold_left length]. change (10 ^ Z.of_nat 0) with 1. lia.
  - inversion D as [|c' t' Dc Dt]; subst. apply is_digit_iff in Dc.
    change (dval (c :: t) x) with (dval t (x * 10 + (bz c - 48))).
    specialize (IH (x * 10 + (bz c - 48)) Dt). cbn [length]. rewrite pow10_S.
    pose proof (pow10_pos (length t)). nia.
Qed.

Lemma leading_int_digits : forall ds x rest, all_digits ds -> not_digit_head rest -> 0 <= x ->
  dval ds x <= two63 -> leading_int_from x (ds ++ rest) = Some (dval ds x, rest).
Proof.
  induction ds as [|c t IH]; intros x rest D NR Hx Hv.
  - cbn [app]. unfold dval. cbn [fold_left]. destruct rest as [|c r]; [reflexivity|].
    cbn [not_digit_head] in NR. cbn [leading_int_from]. rewrite NR. reflexivity.
  - inversion D as [|c' t' Dc Dt]; subst. cbn [app leading_int_from]. rewrite Dc.
    apply is_digit_iff in Dc.
    change (dval (c :: t) x) with (dval t (x * 10 + (bz c - 48))) in *.
    pose proof (dval_ge t (x * 10 + (bz c - 48)) Dt ltac:(lia)) as G.
    change (two63 / 10) with 922337203685477580. unfold two63 in *.
    destruct (x >? 922337203685477580) eqn:E1; [lia|].
    rewrite (u64_small (x * 10)) by (unfold two64; lia).
    rewrite (u64_small (x * 10 + bz c)) by (unfold two64; lia).
    rewrite (u64_small (x * 10 + bz c - 48)) by (unfold two64; lia).
    replace (x * 10 + bz c - 48) with (x * 10 + (bz c - 48)) by lia.
    destruct (x * 10 + (bz c - 48) >? 9223372036854775808) eqn:E2; [lia|].
    apply IH; try assumption; lia.
Qed.

Fixpoint fscale_from (sc : float) (n : nat) : float :=
  match n with O => sc | S n' => fscale_from (sc * 10)%float n' end.

Lemma leading_fraction_digits : forall ds x sc rest, all_digits ds -> not_digit_head rest -> 0 <= x ->
  dval ds x <= 922337203685477580 ->
  leading_fraction_from x sc false (ds ++ rest) = (dval ds x, fscale_from sc (length ds), rest).
Proof.
  induction ds as [|c t IH]; intros x sc rest D NR Hx Hv.
  - cbn [app length fscale_from]. unfold dval. cbn [fold_left]. destruct rest as [|c r]; [reflexivity|].
    cbn [not_digit_head] in NR. cbn [leading_fraction_from]. rewrite NR. reflexivity.
  - inversion D as [|c' t' Dc Dt]; subst. cbn [app leading_fraction_from length fscale_from]. rewrite Dc.
    apply is_digit_iff in Dc.
    change (dval (c :: t) x) with (dval t (x * 10 + (bz c - 48))) in *.
    pose proof (dval_ge t (x * 10 + (bz c - 48)) Dt ltac:(lia)) as G.
    change ((two63 - 1) / 10) with 922337203685477580. unfold two63 in *.
    destruct (x >? 922337203685477580) eqn:E1; [lia|].
    rewrite (u64_small (x * 10)) by (unfold two64; lia).
    rewrite (u64_small (x * 10 + bz c)) by (unfold two64; lia).
    rewrite (u64_small (x * 10 + bz c - 48)) by (unfold two64; lia).
    replace (x * 10 + bz c - 48) with (x * 10 + (bz c - 48)) by lia.
    destruct (x * 10 + (bz c - 48) >? 9223372036854775808) eqn:E2; [lia|].
    apply IH; try assumption; lia.
Qed.

Lemma unit_span_app : forall u rest, no_dd u -> dd_head rest -> unit_span (u ++ rest) = (u, rest).
Proof.
  induction u as [|c t IH]; intros rest N H.
  - cbn [app]. destruct rest as [|c r]; [reflexivity|]. cbn [dd_head] in H. cbn [unit_span]. rewrite H. reflexivity.
  - inversion N as [|c' t' Nc Nt]; subst. cbn [app unit_span]. rewrite Nc, (IH rest Nt H). reflexivity.
Qed.

Lemma not_dd_not_digit : forall c, is_dd c = false -> is_digit c = false /\ byte_eqb c x2e = false.
Proof. intros c H. unfold is_dd in H. apply orb_false_iff in H. tauto. Qed.
(* ---------- one component ---------- *)
Lemma neqb_true : forall a b : nat, a <> b -> negb (Nat.eqb a b) = true.
Proof. intros a b H. destruct (Nat.eqb a b) eqn:E; [apply Nat.eqb_eq in E; contradiction|reflexivity]. Qed.
Section RoundTrip.
  Variable fop : Z -> Z -> float -> Z.
  (* what the round trip needs from uint64(float64(f) * (float64(unit) / scale)):
     exactness when unit = 10^p is a multiple of the scale 10^k of a k-digit fraction *)
  Definition fop_spec : Prop := forall p k f, (p = 3 \/ p = 6 \/ p = 9)%nat -> (1 <= k <= p)%nat ->
    0 < f < 10 ^ Z.of_nat k ->
    fop f (10 ^ Z.of_nat p) (fscale_from 1%float k) = f * 10 ^ Z.of_nat (p - k).
  Hypothesis fop_ok : fop_spec.
  Variable units : list (bytes * Z).

  Record comp := mkc { c_v : Z; c_ft : bytes; c_un : bytes; c_unit : Z; c_fv : Z }.
  Definition frac_ok (ft : bytes) (unit fv : Z) : Prop :=
    (ft = [] /\ fv = 0) \/
    exists ds p, ft = x2e :: ds /\ all_digits ds /\ unit = 10 ^ Z.of_nat p /\ (p = 3 \/ p = 6 \/ p = 9)%nat
      /\ (1 <= length ds <= p)%nat /\ 0 < dval ds 0 /\ fv = dval ds 0 * 10 ^ Z.of_nat (p - length ds).
  Definition comp_ok (c : comp) : Prop :=
    lookupB units (c_un c) = Some (c_unit c) /\ 0 < c_unit c /\ c_un c <> [] /\ no_dd (c_un c)
    /\ 0 <= c_v c < two64 /\ frac_ok (c_ft c) (c_unit c) (c_fv c).
  Definition comp_text (c : comp) : bytes := dec (c_v c) ++ c_ft c ++ c_un c.
  Definition comp_val (c : comp) : Z := c_v c * c_unit c + c_fv c.

  Lemma frac_ok_nonneg : forall ft unit fv, frac_ok ft unit fv -> 0 <= fv.
  Proof.
    intros ft unit fv [[_ E]|(ds & p & _ & _ & _ & _ & _ & P & E)]; [lia|].
    subst fv. pose proof (pow10_pos (p - length ds)). nia.
  Qed.

  Lemma parse_component_comp : forall c rest, comp_ok c -> dd_head rest -> comp_val c <= two63 ->
    parse_component fop units (comp_text c ++ rest) = COk (comp_val c) rest.
  Proof.
    intros [v ft un unit fv] rest (L & U & NE & ND & V & F) R B.
    unfold comp_text, comp_val in *. cbn [c_v c_ft c_un c_unit c_fv] in *.
    pose proof (frac_ok_nonneg _ _ _ F) as FV.
    pose proof (dec_digits v) as DD. pose proof (dec_dval v V) as DV.
    destruct (dec_head v ltac:(lia)) as (c0 & r0 & E0 & D0). rewrite E0 in *.
    destruct un as [|u0 ur]; [congruence|]. inversion ND as [|u0' ur' N0 Nr]; subst u0' ur'.
    destruct (not_dd_not_digit u0 N0) as [N0d N0p].
    rewrite <- !app_assoc. cbn [app]. unfold parse_component, scan_component.
    rewrite (is_dd_digit c0 D0). cbn [negb]. unfold leading_int.
    change (c0 :: r0 ++ ft ++ u0 :: ur ++ rest) with ((c0 :: r0) ++ (ft ++ u0 :: ur ++ rest)).
    assert (VU : v * unit <= two63) by lia.
    assert (Vle : v <= two63 / unit) by (apply Z.div_le_lower_bound; lia).
    assert (Vsm : v <= two63) by nia.
    rewrite leading_int_digits; [|assumption| |lia|lia].
    2:{ destruct F as [[-> _]|(ds & p & -> & _)]; cbn [app not_digit_head]; [assumption|reflexivity]. }
    rewrite DV.
    assert (PRE : negb (Nat.eqb (length ((c0 :: r0) ++ ft ++ u0 :: ur ++ rest)) (length (ft ++ u0 :: ur ++ rest))) = true).
    { apply neqb_true. rewrite app_length. cbn [length]. lia. }
    rewrite PRE. clear PRE. cbn [negb andb].
    destruct F as [[-> ->]|(ds & p & -> & D & -> & P369 & K & Fpos & ->)].
    - cbn [app]. rewrite N0p.
      change (u0 :: ur ++ rest) with ((u0 :: ur) ++ rest). rewrite unit_span_app by assumption.
      rewrite L. destruct (unit =? 0) eqn:EU; [lia|].
      destruct (v >? two63 / unit) eqn:EV; [lia|].
      change (0 >? 0) with false. cbn [andb]. rewrite u64_small by (unfold two64, two63 in *; lia).
      f_equal. lia.
    - cbn [app]. change (byte_eqb x2e x2e) with true. cbv iota. unfold leading_fraction.
      pose proof (dval_lt ds 0 D ltac:(lia)) as FL. rewrite Z.add_0_l, Z.mul_1_l in FL.
      assert (P9 : 10 ^ Z.of_nat (length ds) <= 10 ^ Z.of_nat 9).
      { apply Z.pow_le_mono_r; lia. }
      change (10 ^ Z.of_nat 9) with 1000000000 in P9.
      rewrite leading_fraction_digits; [|assumption|cbn [not_digit_head]; assumption|lia|lia].
      change (u0 :: ur ++ rest) with ((u0 :: ur) ++ rest). rewrite unit_span_app by assumption.
      rewrite L. destruct (10 ^ Z.of_nat p =? 0) eqn:EU; [lia|].
      destruct (v >? two63 / 10 ^ Z.of_nat p) eqn:EV; [lia|].
      destruct (dval ds 0 >? 0) eqn:EF; [|lia].
      rewrite fop_ok by (try assumption; lia).
      rewrite (u64_small (v * _)) by (unfold two64, two63 in *; lia).
      rewrite u64_small by (unfold two64, two63 in *; lia).
      cbn [andb]. destruct (_ >? two63) eqn:EG; [lia|]. reflexivity.
  Qed.
  (* ---------- a sequence of components ---------- *)
  Definition digit_head_or_nil (s : bytes) : Prop := match s with [] => True | c :: _ => is_digit c = true end.

  Lemma digit_head_dd : forall s, digit_head_or_nil s -> dd_head s.
  Proof. intros [|c r]; cbn; [trivial|apply is_dd_digit]. Qed.

  Lemma comp_text_head : forall c rest, 0 <= c_v c ->
    exists c0 r, comp_text c ++ rest = c0 :: r /\ is_digit c0 = true.
  Proof.
    intros c rest H. unfold comp_text. destruct (dec_head (c_v c) H) as (c0 & r0 & E & D).
    rewrite E. cbn [app]. eauto.
  Qed.

  Lemma comp_val_nonneg : forall c, comp_ok c -> 0 <= comp_val c.
  Proof.
    intros c (_ & U & _ & _ & V & F). unfold comp_val. pose proof (frac_ok_nonneg _ _ _ F). nia.
  Qed.

  Fixpoint sum_vals (cs : list comp) : Z := match cs with [] => 0 | c :: t => comp_val c + sum_vals t end.

  Lemma sum_vals_nonneg : forall cs, Forall comp_ok cs -> 0 <= sum_vals cs.
  Proof.
    induction cs as [|c t IH]; intros H; cbn [sum_vals]; [lia|].
    inversion H as [|c' t' Hc Ht]; subst. pose proof (comp_val_nonneg c Hc). specialize (IH Ht). lia.
  Qed.

  Lemma sum_vals_app : forall a b, sum_vals (a ++ b) = sum_vals a + sum_vals b.
  Proof. induction a as [|c t IH]; intros b; cbn [app sum_vals]; [lia|]. rewrite IH. lia. Qed.

  Definition comps_text (cs : list comp) : bytes := concat (map comp_text cs).

  Lemma comps_text_head : forall cs, Forall comp_ok cs -> digit_head_or_nil (comps_text cs).
  Proof.
    intros [|c t] H; [exact I|]. unfold comps_text. cbn [map concat].
    inversion H as [|c' t' Hc Ht]; subst. destruct Hc as (_ & _ & _ & _ & V & _).
    destruct (comp_text_head c (concat (map comp_text t)) ltac:(lia)) as (c0 & r & E & D). rewrite E. exact D.
  Qed.

  Lemma parse_comps : forall cs fuel d, Forall comp_ok cs -> 0 <= d -> d + sum_vals cs <= two63 ->
    (length (comps_text cs) <= fuel)%nat ->
    parse_loop fop units fuel (comps_text cs) d = Ok (d + sum_vals cs).
  Proof.
    induction cs as [|c t IH]; intros fuel d H Hd B L.
    - cbn [sum_vals]. unfold comps_text. cbn [map concat]. destruct fuel; cbn [parse_loop]; f_equal; lia.
    - inversion H as [|c' t' Hc Ht]; subst.
      pose proof (comp_val_nonneg c Hc) as Vc. pose proof (sum_vals_nonneg t Ht) as Vt.
      cbn [sum_vals] in B.
      change (comps_text (c :: t)) with (comp_text c ++ comps_text t) in *.
      assert (Hv : 0 <= c_v c) by (destruct Hc as (_ & _ & _ & _ & V & _); lia).
      destruct (comp_text_head c (comps_text t) Hv) as (c0 & r & E & D).
      destruct fuel as [|f]; [rewrite E in L; cbn [length] in L; lia|].
      assert (PC := parse_component_comp c (comps_text t) Hc (digit_head_dd _ (comps_text_head t Ht)) ltac:(lia)).
      rewrite E in PC, L |- *. cbn [parse_loop]. rewrite PC.
      rewrite u64_small by (unfold two64, two63 in *; lia).
      destruct (d + comp_val c >? two63) eqn:EG; [lia|].
      rewrite IH; try assumption; try lia.
      + f_equal. cbn [sum_vals]. lia.
      + assert (length (comp_text c ++ comps_text t) = length (c0 :: r)) by (rewrite E; reflexivity).
        rewrite app_length in H0. cbn [length] in H0, L.
        assert (1 <= length (comp_text c))%nat.
        { unfold comp_text. destruct (dec_head (c_v c) Hv) as (c1 & r1 & E1 & _). rewrite E1. cbn [app length]. lia. }
        lia.
  Qed.

  (* an optional part of the compact style *)
  Definition part_comps (v : Z) (un : bytes) (unit : Z) : list comp :=
    if v >? 0 then [mkc v [] un unit 0] else [].

  Lemma part_comps_text : forall v un unit, comps_text (part_comps v un unit) = text_part v un.
  Proof.
    intros v un unit. unfold part_comps, text_part, comps_text. destruct (v >? 0); [|reflexivity].
    cbn [map concat]. unfold comp_text. cbn [c_v c_ft c_un]. cbn [app]. rewrite app_nil_r. reflexivity.
  Qed.

  Lemma part_comps_ok : forall v un unit, lookupB units un = Some unit -> 0 < unit -> un <> [] -> no_dd un ->
    0 <= v < two64 -> Forall comp_ok (part_comps v un unit).
  Proof.
    intros v un unit L U NE ND V. unfold part_comps. destruct (v >? 0); constructor; [|constructor].
    unfold comp_ok. cbn [c_v c_ft c_un c_unit c_fv]. repeat split; try assumption; try lia. left. split; reflexivity.
  Qed.

  Lemma part_comps_sum : forall v un unit, 0 <= v -> sum_vals (part_comps v un unit) = v * unit.
  Proof.
    intros v un unit V. unfold part_comps. destruct (v >? 0) eqn:E; cbn [sum_vals]; unfold comp_val; cbn [c_v c_unit c_fv]; [lia|].
    assert (v = 0) by lia. subst v. lia.
  Qed.

  Lemma comps_text_app : forall a b, comps_text (a ++ b) = comps_text a ++ comps_text b.
  Proof. intros a b. unfold comps_text. rewrite map_app, concat_app. reflexivity. Qed.
  (* ---------- the formatter's text as a sequence of components ---------- *)
  Record units_good : Prop := {
    ug_ns : lookupB units [x6e; x73] = Some 1;
    ug_us : lookupB units [xc2; xb5; x73] = Some 1000;
    ug_ms : lookupB units [x6d; x73] = Some 1000000;
    ug_s : lookupB units [x73] = Some 1000000000;
    ug_m : lookupB units [x6d] = Some 60000000000;
    ug_h : lookupB units [x68] = Some 3600000000000;
    ug_d : lookupB units [x64] = Some 86400000000000 }.
  Hypothesis UG : units_good.

  Lemma frac_ok_of_text : forall n v, (n = 3 \/ n = 6 \/ n = 9)%nat ->
    frac_ok (frac_text n v) (10 ^ Z.of_nat n) (v mod 10 ^ Z.of_nat n).
  Proof.
    intros n v N. destruct (frac_text_spec n v) as [[Z0 E]|(ds & E & D & L & V & P)].
    - left. split; [assumption|lia].
    - right. exists ds, n. repeat split; try assumption; try lia.
  Qed.

  Lemma no_dd_units :
    no_dd [x6e; x73] /\ no_dd [xc2; xb5; x73] /\ no_dd [x6d; x73] /\ no_dd [x73] /\ no_dd [x6d] /\ no_dd [x68] /\ no_dd [x64].
  Proof. repeat split; repeat constructor. Qed.

  Lemma body_comps : forall frac u, 0 <= u <= two63 -> exists cs,
    text_body frac u = comps_text cs /\ Forall comp_ok cs /\ sum_vals cs = u /\ cs <> [].
  Proof.
    intros frac u H. destruct no_dd_units as (Nns & Nus & Nms & Ns & Nm & Nh & Nd).
    destruct UG as [Lns Lus Lms Ls Lm Lh Ld].
    unfold text_body. destruct (u <? second) eqn:Esec.
    - (* sub-second *)
      unfold text_seconds, text_msec.
      destruct (u =? 0) eqn:E0.
      + exists [mkc 0 [] [x73] 1000000000 0]. split; [reflexivity|]. split; [|split; [cbn; lia|discriminate]].
        constructor; [|constructor]. unfold comp_ok. cbn [c_v c_ft c_un c_unit c_fv].
        repeat split; try assumption; try discriminate; try (unfold two64; lia). left. split; reflexivity.
      + destruct (u <? microsecond) eqn:E1; [|destruct (u <? millisecond) eqn:E2].
        * exists [mkc (u / 10 ^ Z.of_nat 0) [] [x6e; x73] 1 0]. split; [|split; [|split; [|discriminate]]].
          -- unfold comps_text, comp_text. cbn [map concat c_v c_ft c_un]. change (frac_text 0 u) with (@nil byte).
             cbn [app]. rewrite <- !app_assoc, app_nil_r. reflexivity.
          -- constructor; [|constructor]. unfold comp_ok. cbn [c_v c_ft c_un c_unit c_fv].
             change (10 ^ Z.of_nat 0) with 1. rewrite Z.div_1_r.
             repeat split; try assumption; try discriminate; try (unfold two64, two63 in *; lia). left. split; reflexivity.
          -- cbn [sum_vals]. unfold comp_val. cbn [c_v c_unit c_fv]. change (10 ^ Z.of_nat 0) with 1. rewrite Z.div_1_r. lia.
        * exists [mkc (u / 10 ^ Z.of_nat 3) (frac_text 3 u) [xc2; xb5; x73] (10 ^ Z.of_nat 3) (u mod 10 ^ Z.of_nat 3)].
          split; [|split; [|split; [|discriminate]]].
          -- unfold comps_text, comp_text. cbn [map concat c_v c_ft c_un]. rewrite <- !app_assoc, app_nil_r. reflexivity.
          -- constructor; [|constructor]. unfold comp_ok. cbn [c_v c_ft c_un c_unit c_fv].
             split; [exact Lus|]. split; [reflexivity|]. split; [discriminate|]. split; [assumption|].
             split; [|apply frac_ok_of_text; tauto].
             change (10 ^ Z.of_nat 3) with 1000. unfold two64, two63 in *.
             split; [apply Z.div_pos; lia|]. apply Z.div_lt_upper_bound; lia.
          -- cbn [sum_vals]. unfold comp_val. cbn [c_v c_unit c_fv].
             pose proof (Z.div_mod u (10 ^ Z.of_nat 3) ltac:(discriminate)). lia.
        * exists [mkc (u / 10 ^ Z.of_nat 6) (frac_text 6 u) [x6d; x73] (10 ^ Z.of_nat 6) (u mod 10 ^ Z.of_nat 6)].
          split; [|split; [|split; [|discriminate]]].
          -- unfold comps_text, comp_text. cbn [map concat c_v c_ft c_un]. rewrite <- !app_assoc, app_nil_r. reflexivity.
          -- constructor; [|constructor]. unfold comp_ok. cbn [c_v c_ft c_un c_unit c_fv].
             split; [exact Lms|]. split; [reflexivity|]. split; [discriminate|]. split; [assumption|].
             split; [|apply frac_ok_of_text; tauto].
             change (10 ^ Z.of_nat 6) with 1000000. unfold two64, two63 in *.
             split; [apply Z.div_pos; lia|]. apply Z.div_lt_upper_bound; lia.
          -- cbn [sum_vals]. unfold comp_val. cbn [c_v c_unit c_fv].
             pose proof (Z.div_mod u (10 ^ Z.of_nat 6) ltac:(discriminate)). lia.
    - destruct frac.
      + (* fractional style *)
        unfold text_frac_style. cbv zeta.
        set (s := u / 10 ^ Z.of_nat 9).
        assert (Hs : 0 <= s <= 9223372036).
        { unfold s. change (10 ^ Z.of_nat 9) with 1000000000. unfold two63 in H.
          split; [apply Z.div_pos; lia|]. apply Z.lt_succ_r. apply Z.div_lt_upper_bound; lia. }
        assert (Hu : s * 1000000000 + u mod 10 ^ Z.of_nat 9 = u).
        { unfold s. pose proof (Z.div_mod u (10 ^ Z.of_nat 9) ltac:(discriminate)).
          change (10 ^ Z.of_nat 9) with 1000000000 in *. lia. }
        set (cs := (if s / 60 >? 0
                    then (if s / 60 / 60 >? 0 then [mkc (s / 60 / 60) [] [x68] 3600000000000 0] else [])
                         ++ [mkc (s / 60 mod 60) [] [x6d] 60000000000 0]
                    else [])
                   ++ [mkc (s mod 60) (frac_text 9 u) [x73] (10 ^ Z.of_nat 9) (u mod 10 ^ Z.of_nat 9)]).
        assert (Cs : comp_ok (mkc (s mod 60) (frac_text 9 u) [x73] (10 ^ Z.of_nat 9) (u mod 10 ^ Z.of_nat 9))).
        { unfold comp_ok. cbn [c_v c_ft c_un c_unit c_fv].
          split; [exact Ls|]. split; [reflexivity|]. split; [discriminate|]. split; [assumption|].
          split; [|apply frac_ok_of_text; tauto].
          pose proof (Z.mod_pos_bound s 60 ltac:(lia)). unfold two64. lia. }
        assert (Cm : comp_ok (mkc (s / 60 mod 60) [] [x6d] 60000000000 0)).
        { unfold comp_ok. cbn [c_v c_ft c_un c_unit c_fv].
          repeat split; try assumption; try discriminate; try (pose proof (Z.mod_pos_bound (s / 60) 60 ltac:(lia)); unfold two64; lia).
          left. split; reflexivity. }
        assert (Ch : comp_ok (mkc (s / 60 / 60) [] [x68] 3600000000000 0)).
        { unfold comp_ok. cbn [c_v c_ft c_un c_unit c_fv].
          assert (0 <= s / 60 / 60 <= s) by (split; [|rewrite Z.div_div by lia]; [apply Z.div_pos; [apply Z.div_pos|]; lia|apply Z.div_le_upper_bound; lia]).
          repeat split; try assumption; try discriminate; try (unfold two64; lia).
          left. split; reflexivity. }
        exists cs. split; [|split; [|split]].
        * unfold cs. destruct (s / 60 >? 0); [destruct (s / 60 / 60 >? 0)|];
            unfold comps_text, comp_text; cbn [app map concat c_v c_ft c_un]; rewrite <- ?app_assoc, ?app_nil_r; reflexivity.
        * unfold cs. destruct (s / 60 >? 0); [destruct (s / 60 / 60 >? 0)|]; cbn [app]; repeat (apply Forall_cons; [assumption|]); apply Forall_nil.
        * unfold cs. destruct (s / 60 >? 0) eqn:EM; [destruct (s / 60 / 60 >? 0) eqn:EH|];
            cbn [app sum_vals]; unfold comp_val; cbn [c_v c_unit c_fv]; change (10 ^ Z.of_nat 9) with 1000000000 in *.
          -- pose proof (Z.div_mod s 60 ltac:(lia)). pose proof (Z.div_mod (s / 60) 60 ltac:(lia)). lia.
          -- pose proof (Z.div_mod s 60 ltac:(lia)). pose proof (Z.div_mod (s / 60) 60 ltac:(lia)).
             assert (s / 60 / 60 = 0) by (pose proof (Z.div_pos (s / 60) 60); pose proof (Z.div_pos s 60); lia). lia.
          -- pose proof (Z.div_mod s 60 ltac:(lia)). assert (s / 60 = 0) by (pose proof (Z.div_pos s 60); lia). lia.
        * unfold cs. destruct (s / 60 >? 0); [destruct (s / 60 / 60 >? 0)|]; discriminate.
      + (* compact style *)
        unfold text_compact.
        destruct (compact_split_spec u H) as (dd & hh & mm & ss & ms & us & ns & E & Bd & Bh & Bm & Bs & Bms & Bus & Bns & SUM).
        rewrite E.
        exists (part_comps dd [x64] 86400000000000 ++ part_comps hh [x68] 3600000000000 ++ part_comps mm [x6d] 60000000000
                ++ part_comps ss [x73] 1000000000 ++ part_comps ms [x6d; x73] 1000000 ++ part_comps us [xc2; xb5; x73] 1000
                ++ part_comps ns [x6e; x73] 1).
        split; [|split; [|split]].
        * rewrite !comps_text_app, !part_comps_text. reflexivity.
        * repeat (apply Forall_app; split); apply part_comps_ok; try assumption; try discriminate; try (unfold two64; lia).
        * rewrite !sum_vals_app, !part_comps_sum by lia.
          unfold day, hour, minute, second, millisecond, microsecond in SUM. lia.
        * assert (NZ : dd > 0 \/ hh > 0 \/ mm > 0 \/ ss > 0).
          { unfold day, hour, minute, second, millisecond, microsecond in *. lia. }
          unfold part_comps.
          destruct (dd >? 0) eqn:E1; [discriminate|]. destruct (hh >? 0) eqn:E2; [discriminate|].
          destruct (mm >? 0) eqn:E3; [discriminate|]. destruct (ss >? 0) eqn:E4; [discriminate|]. lia.
  Qed.
  (* ---------- the round trip ---------- *)
  Lemma i64_small : forall z, - two63 <= z < two63 -> i64 z = z.
  Proof. intros z H. unfold i64, two64, two63 in *. rewrite Z.mod_small by lia. lia. Qed.

  Lemma i64_two63 : i64 two63 = - two63.
  Proof. reflexivity. Qed.

  Lemma digit_not_sign : forall c, is_digit c = true -> byte_eqb c x2d || byte_eqb c x2b = false.
  Proof. intros c H. destruct c; try discriminate H; reflexivity. Qed.

  Lemma bytes_eqb_len1 : forall l x, bytes_eqb l [x] = true -> length l = 1%nat.
  Proof.
    intros [|a [|b r]] x H; cbn in H; try discriminate; [reflexivity|].
    rewrite andb_false_r in H. discriminate.
  Qed.

  Lemma comp_text_len2 : forall c, comp_ok c -> (2 <= length (comp_text c))%nat.
  Proof.
    intros c (_ & _ & NE & _ & V & _). unfold comp_text. rewrite !app_length.
    destruct (dec_head (c_v c) ltac:(lia)) as (c0 & r & E & _). rewrite E. cbn [length].
    destruct (c_un c); [congruence|]. cbn [length]. lia.
  Qed.

  Theorem roundtrip_text : forall frac d, - two63 <= d < two63 ->
    parse_dur_with fop units (text frac d) = Ok d.
  Proof.
    intros frac d H.
    pose proof (abs_u_spec d H) as AU.
    destruct (body_comps frac (abs_u d)) as (cs & E & OKs & SUM & NE).
    { rewrite AU. unfold two63 in *. lia. }
    unfold text. rewrite E.
    destruct cs as [|c t]; [congruence|].
    inversion OKs as [|c' t' Hc Ht]; subst c' t'.
    assert (L2 : (2 <= length (comps_text (c :: t)))%nat).
    { change (comps_text (c :: t)) with (comp_text c ++ comps_text t). rewrite app_length.
      pose proof (comp_text_len2 c Hc). lia. }
    assert (N0 : bytes_eqb (comps_text (c :: t)) [x30] = false).
    { destruct (bytes_eqb _ _) eqn:EB; [|reflexivity]. apply bytes_eqb_len1 in EB. lia. }
    pose proof (comps_text_head (c :: t) OKs) as HD.
    assert (PL : parse_loop fop units (length (comps_text (c :: t))) (comps_text (c :: t)) 0 = Ok (abs_u d)).
    { rewrite parse_comps; try assumption; try lia.
      all: try (f_equal; lia).
      all: try (rewrite SUM, AU; unfold two63 in *; lia). }
    unfold parse_dur_with.
    destruct (d <? 0) eqn:EN.
    - cbn [app]. change (byte_eqb x2d x2d) with true. cbn [orb]. rewrite N0.
      destruct (comps_text (c :: t)) as [|c0 r] eqn:ET; [cbn [length] in L2; lia|].
      rewrite PL. f_equal. rewrite AU, (Z.abs_neq d) by lia.
      destruct (Z.eq_dec d (- two63)) as [->|ND].
      + reflexivity.
      + rewrite (i64_small (- d)) by (unfold two63 in *; lia). rewrite i64_small by (unfold two63 in *; lia). lia.
    - cbn [app].
      destruct (comps_text (c :: t)) as [|c0 r] eqn:ET; [cbn [length] in L2; lia|].
      cbn [digit_head_or_nil] in HD. rewrite (digit_not_sign c0 HD). rewrite N0, PL.
      rewrite AU, Z.abs_eq by lia.
      destruct (d >? two63 - 1) eqn:EG; [lia|]. rewrite i64_small by lia. reflexivity.
  Qed.
End RoundTrip.
(* ---------- logg's parser against the standard one: the day unit is the only difference ---------- *)
Lemma bytes_eqb_eq : forall a b, bytes_eqb a b = true <-> a = b.
Proof.
  unfold bytes_eqb, byte_eqb. induction a as [|x a IH]; intros [|y b]; cbn [list_eqb]; split; intros H;
    try reflexivity; try discriminate.
  - apply andb_true_iff in H. destruct H as [H1 H2]. apply Byte.byte_dec_bl in H1. apply IH in H2. congruence.
  - injection H as -> ->. apply andb_true_iff. split; [apply Byte.byte_dec_lb; reflexivity|apply IH; reflexivity].
Qed.

Lemma lookup_without_day : forall units u,
  lookupB (without_day units) u = if bytes_eqb u [x64] then None else lookupB units u.
Proof.
  induction units as [|[k v] t IH]; intros u; cbn [without_day filter lookupB fst].
  - destruct (bytes_eqb u [x64]); reflexivity.
  - fold (without_day t). destruct (bytes_eqb k [x64]) eqn:Ek; cbn [negb].
    + rewrite IH. destruct (bytes_eqb u [x64]) eqn:Eu; [reflexivity|].
      destruct (bytes_eqb k u) eqn:Eku; [|reflexivity].
      apply bytes_eqb_eq in Ek. apply bytes_eqb_eq in Eku. subst k. subst u. vm_compute in Eu. discriminate.
    + cbn [lookupB]. rewrite IH. destruct (bytes_eqb k u) eqn:Eku; [|reflexivity].
      apply bytes_eqb_eq in Eku. subst k. rewrite Ek. reflexivity.
Qed.

(* what the scan of one component does to the day-token test *)
Definition tok_next (st : tok) (c : byte) : tok :=
  match st with T0 => if byte_eqb c x64 then Td else Tx | _ => Tx end.

Lemma day_scan_nodd : forall c t st, is_dd c = false -> day_scan st (c :: t) = day_scan (tok_next st c) t.
Proof. intros c t st H. cbn [day_scan]. rewrite H. destruct st; reflexivity. Qed.

Lemma day_scan_dd : forall c t, is_dd c = true -> day_scan T0 (c :: t) = day_scan T0 t.
Proof. intros c t H. cbn [day_scan]. rewrite H. reflexivity. Qed.

Lemma unit_span_scan : forall s st u s3, unit_span s = (u, s3) ->
  day_scan st s = tok_is_d (fold_left tok_next u st) || day_scan T0 s3.
Proof.
  induction s as [|c t IH]; intros st u s3 H.
  - cbn [unit_span] in H. injection H as <- <-. cbn [fold_left day_scan]. rewrite orb_false_r. reflexivity.
  - cbn [unit_span] in H. destruct (is_dd c) eqn:E.
    + injection H as <- <-. cbn [fold_left]. cbn [day_scan]. rewrite E. reflexivity.
    + destruct (unit_span t) as [u' r] eqn:EU. injection H as <- <-.
      rewrite day_scan_nodd by assumption. cbn [fold_left]. apply IH. reflexivity.
Qed.

Lemma fold_tok_Tx : forall u, fold_left tok_next u Tx = Tx.
Proof. induction u as [|c t IH]; cbn [fold_left tok_next]; [reflexivity|assumption]. Qed.

Lemma tok_of_unit : forall u, tok_is_d (fold_left tok_next u T0) = bytes_eqb u [x64].
Proof.
  intros [|c [|c2 r]].
  - reflexivity.
  - cbn [fold_left tok_next]. unfold bytes_eqb. cbn [list_eqb]. rewrite andb_true_r.
    destruct (byte_eqb c x64); reflexivity.
  - cbn [fold_left tok_next]. unfold bytes_eqb. cbn [list_eqb]. rewrite andb_false_r.
    destruct (byte_eqb c x64); rewrite fold_tok_Tx; reflexivity.
Qed.

Lemma leading_int_scan : forall s x v s1, leading_int_from x s = Some (v, s1) ->
  day_scan T0 s = day_scan T0 s1 /\ (length s1 <= length s)%nat.
Proof.
  induction s as [|c t IH]; intros x v s1 H; cbn [leading_int_from] in H.
  - injection H as <- <-. split; [reflexivity|lia].
  - destruct (is_digit c) eqn:E.
    + destruct (x >? two63 / 10); [discriminate|].
      destruct (_ >? two63); [discriminate|]. apply IH in H. destruct H as [H1 H2].
      rewrite day_scan_dd by (apply is_dd_digit; assumption). cbn [length]. split; [assumption|lia].
    + injection H as <- <-. split; [reflexivity|lia].
Qed.

Lemma leading_fraction_scan : forall s x sc o f scale r, leading_fraction_from x sc o s = (f, scale, r) ->
  day_scan T0 s = day_scan T0 r /\ (length r <= length s)%nat.
Proof.
  induction s as [|c t IH]; intros x sc o f scale r H; cbn [leading_fraction_from] in H.
  - injection H as <- <- <-. split; [reflexivity|lia].
  - destruct (is_digit c) eqn:E.
    + rewrite day_scan_dd by (apply is_dd_digit; assumption). cbn [length].
      destruct o; [|destruct (x >? (two63 - 1) / 10); [|destruct (_ >? two63)]];
        apply IH in H; destruct H as [H1 H2]; (split; [assumption|lia]).
    + injection H as <- <- <-. split; [reflexivity|lia].
Qed.

Lemma unit_span_length : forall s u s3, unit_span s = (u, s3) -> length s = (length u + length s3)%nat.
Proof.
  induction s as [|c t IH]; intros u s3 H; cbn [unit_span] in H.
  - injection H as <- <-. reflexivity.
  - destruct (is_dd c).
    + injection H as <- <-. reflexivity.
    + destruct (unit_span t) as [u' r] eqn:EU. injection H as <- <-. cbn [length]. rewrite (IH u' r eq_refl). lia.
Qed.

Lemma scan_component_spec : forall s v f scale u s3, scan_component s = Some (v, f, scale, u, s3) ->
  day_scan T0 s = bytes_eqb u [x64] || day_scan T0 s3 /\ (length s3 < length s)%nat.
Proof.
  intros s v f scale u s3 H. unfold scan_component in H.
  destruct s as [|c t]; [discriminate|]. destruct (negb (is_dd c)); [discriminate|].
  unfold leading_int in H. destruct (leading_int_from 0 (c :: t)) as [[v' s1]|] eqn:EL; [|discriminate].
  apply leading_int_scan in EL. destruct EL as [S1 L1].
  assert (X : exists f' sc' post s2, (match s1 with
            | c1 :: t1 => if byte_eqb c1 x2e
                          then let '(f0, scale0, r) := leading_fraction t1 in (f0, scale0, negb (Nat.eqb (length t1) (length r)), r)
                          else (0, 1%float, false, s1)
            | [] => (0, 1%float, false, s1) end) = (f', sc', post, s2)
            /\ day_scan T0 s1 = day_scan T0 s2 /\ (length s2 <= length s1)%nat).
  { destruct s1 as [|c1 t1]; [do 4 eexists; split; [reflexivity|split; [reflexivity|lia]]|].
    destruct (byte_eqb c1 x2e) eqn:E1.
    - unfold leading_fraction. destruct (leading_fraction_from 0 1%float false t1) as [[f0 sc0] r] eqn:EF.
      apply leading_fraction_scan in EF. destruct EF as [S2 L2].
      do 4 eexists. split; [reflexivity|]. split.
      + rewrite day_scan_dd; [assumption|]. unfold is_dd. rewrite E1. reflexivity.
      + cbn [length]. lia.
    - do 4 eexists. split; [reflexivity|split; [reflexivity|lia]]. }
  destruct X as (f' & sc' & post & s2 & EX & S2 & L2). rewrite EX in H.
  destruct (negb _ && negb post); [discriminate|].
  destruct (unit_span s2) as [u' r] eqn:EU. destruct u' as [|u0 ur]; [discriminate|].
  injection H as <- <- <- <- <-.
  pose proof (unit_span_scan s2 T0 _ _ EU) as S3. rewrite tok_of_unit in S3.
  pose proof (unit_span_length s2 _ _ EU) as L3. cbn [length] in L3.
  split; [congruence|lia].
Qed.

Section Agree.
  Variable fop : Z -> Z -> float -> Z.
  Variable units : list (bytes * Z).

  Lemma parse_loop_same : forall fuel s d, day_scan T0 s = false ->
    parse_loop fop (without_day units) fuel s d = parse_loop fop units fuel s d.
  Proof.
    induction fuel as [|f IH]; intros s d H; destruct s as [|c t]; cbn [parse_loop]; try reflexivity.
    unfold parse_component. destruct (scan_component (c :: t)) as [[[[[v fr] sc] u] s3]|] eqn:ES; [|reflexivity].
    apply scan_component_spec in ES. destruct ES as [S _]. rewrite H in S. symmetry in S.
    apply orb_false_iff in S. destruct S as [Su S3].
    rewrite lookup_without_day, Su.
    destruct (lookupB units u) as [unit|]; [|reflexivity].
    destruct (unit =? 0); [reflexivity|]. destruct (v >? two63 / unit); [reflexivity|].
    destruct (_ && _); [reflexivity|]. cbv zeta. destruct (_ >? two63); [reflexivity|]. apply IH. assumption.
  Qed.

  Lemma parse_loop_superset : forall fuel s d r,
    parse_loop fop (without_day units) fuel s d = Ok r -> parse_loop fop units fuel s d = Ok r.
  Proof.
    induction fuel as [|f IH]; intros s d r H; destruct s as [|c t]; cbn [parse_loop] in *; try assumption.
    unfold parse_component in *. destruct (scan_component (c :: t)) as [[[[[v fr] sc] u] s3]|]; [|assumption].
    rewrite lookup_without_day in H. destruct (bytes_eqb u [x64]); [discriminate|].
    destruct (lookupB units u) as [unit|]; [|assumption].
    destruct (unit =? 0); [assumption|]. destruct (v >? two63 / unit); [assumption|].
    destruct (_ && _); [assumption|]. cbv zeta in *. destruct (_ >? two63); [assumption|]. apply IH. assumption.
  Qed.

  Lemma parse_loop_fuel : forall fuel s d, (length s <= fuel)%nat -> parse_loop fop units fuel s d <> OutOfFuel.
  Proof.
    induction fuel as [|f IH]; intros s d L; destruct s as [|c t]; cbn [parse_loop]; try discriminate.
    - cbn [length] in L. lia.
    - unfold parse_component. destruct (scan_component (c :: t)) as [[[[[v fr] sc] u] s3]|] eqn:ES; [|discriminate].
      apply scan_component_spec in ES. destruct ES as [_ L3].
      destruct (lookupB units u) as [unit|]; [|discriminate].
      destruct (unit =? 0); [discriminate|]. destruct (v >? two63 / unit); [discriminate|].
      destruct (_ && _); [discriminate|]. cbv zeta. destruct (_ >? two63); [discriminate|]. apply IH. lia.
  Qed.

  Lemma parse_loop_no_panic : forall fuel s d, Forall (fun p : bytes * Z => snd p <> 0) units ->
    parse_loop fop units fuel s d <> Panic.
  Proof.
    intros fuel s d NZ.
    assert (LK : forall u unit, lookupB units u = Some unit -> unit <> 0).
    { clear -NZ. induction units as [|[k v] t IH]; intros u unit H; cbn [lookupB] in H; [discriminate|].
      inversion NZ as [|p t' Hp Ht]; subst. destruct (bytes_eqb k u); [injection H as <-; exact Hp|eauto]. }
    revert s d. induction fuel as [|f IH]; intros s d; destruct s as [|c t]; cbn [parse_loop]; try discriminate.
    unfold parse_component. destruct (scan_component (c :: t)) as [[[[[v fr] sc] u] s3]|]; [|discriminate].
    destruct (lookupB units u) as [unit|] eqn:EL; [|discriminate].
    apply LK in EL. destruct (unit =? 0) eqn:E0; [lia|]. destruct (v >? two63 / unit); [discriminate|].
    destruct (_ && _); [discriminate|]. cbv zeta. destruct (_ >? two63); [discriminate|]. apply IH.
  Qed.

  Lemma strip_sign_split : forall s,
    (match s with
     | c :: t => if byte_eqb c x2d || byte_eqb c x2b then (byte_eqb c x2d, t) else (false, s)
     | [] => (false, s)
     end) = (match s with c :: _ => (byte_eqb c x2d || byte_eqb c x2b) && byte_eqb c x2d | [] => false end, strip_sign s).
  Proof. intros [|c t]; [reflexivity|]. unfold strip_sign. destruct (byte_eqb c x2d || byte_eqb c x2b); reflexivity. Qed.

  Theorem parse_same_without_day : forall s, uses_day_unit s = false ->
    parse_dur_with fop (without_day units) s = parse_dur_with fop units s.
  Proof.
    intros s H. unfold parse_dur_with, uses_day_unit in *. rewrite strip_sign_split.
    destruct (bytes_eqb (strip_sign s) [x30]); [reflexivity|].
    destruct (strip_sign s) as [|c t] eqn:E; [reflexivity|]. rewrite parse_loop_same by assumption. reflexivity.
  Qed.

  Theorem parse_superset : forall s r,
    parse_dur_with fop (without_day units) s = Ok r -> parse_dur_with fop units s = Ok r.
  Proof.
    intros s r H. unfold parse_dur_with in *. rewrite strip_sign_split in *.
    destruct (bytes_eqb (strip_sign s) [x30]); [assumption|].
    destruct (strip_sign s) as [|c t] eqn:E; [assumption|].
    destruct (parse_loop fop (without_day units) (length (c :: t)) (c :: t) 0) as [d| | |] eqn:EP; try discriminate.
    rewrite (parse_loop_superset _ _ _ _ EP). assumption.
  Qed.

  Theorem parse_only_day : forall s r, parse_dur_with fop units s = Ok r ->
    parse_dur_with fop (without_day units) s = Ok r \/ uses_day_unit s = true.
  Proof.
    intros s r H. destruct (uses_day_unit s) eqn:E; [right; reflexivity|left].
    rewrite parse_same_without_day; assumption.
  Qed.

  Theorem parse_no_fuel_out : forall s, parse_dur_with fop units s <> OutOfFuel.
  Proof.
    intros s. unfold parse_dur_with. rewrite strip_sign_split.
    destruct (bytes_eqb (strip_sign s) [x30]); [discriminate|].
    destruct (strip_sign s) as [|c t] eqn:E; [discriminate|].
    pose proof (parse_loop_fuel (length (c :: t)) (c :: t) 0 (le_n _)) as F.
    destruct (parse_loop fop units (length (c :: t)) (c :: t) 0); try congruence; try discriminate.
    match goal with |- (if ?b then _ else _) <> _ => destruct b end; [discriminate|]. destruct (_ >? _); discriminate.
  Qed.

  Theorem parse_no_panic : forall s, Forall (fun p : bytes * Z => snd p <> 0) units -> parse_dur_with fop units s <> Panic.
  Proof.
    intros s NZ. unfold parse_dur_with. rewrite strip_sign_split.
    destruct (bytes_eqb (strip_sign s) [x30]); [discriminate|].
    destruct (strip_sign s) as [|c t] eqn:E; [discriminate|].
    pose proof (parse_loop_no_panic (length (c :: t)) (c :: t) 0 NZ) as F.
    destruct (parse_loop fop units (length (c :: t)) (c :: t) 0); try congruence; try discriminate.
    match goal with |- (if ?b then _ else _) <> _ => destruct b end; [discriminate|]. destruct (_ >? _); discriminate.
  Qed.
End Agree.
(* ---------- exactness of the float expression, from the specification of the primitive floats ---------- *)
Definition sz (z : Z) : Z := Z.log2 z + 1.

Lemma digits2_size : forall p, digits2_pos p = Pos.size p.
Proof. induction p as [p IH|p IH|]; cbn [digits2_pos Pos.size]; rewrite ?IH; reflexivity. Qed.

Lemma Zdigits2_sz : forall p, Zdigits2 (Zpos p) = sz (Zpos p).
Proof.
  intros p. unfold sz. cbn [Zdigits2]. rewrite digits2_size.
  destruct p as [q|q|]; cbn [Z.log2 Pos.size]; rewrite ?Pos2Z.inj_succ; lia.
Qed.

Lemma sz_bounds : forall z, 0 < z -> 2 ^ (sz z - 1) <= z < 2 ^ sz z.
Proof.
  intros z H. unfold sz. replace (Z.log2 z + 1 - 1) with (Z.log2 z) by lia.
  pose proof (Z.log2_spec z H). replace (Z.log2 z + 1) with (Z.succ (Z.log2 z)) by lia. assumption.
Qed.

Lemma sz_mul_pow2 : forall z n, 0 < z -> 0 <= n -> sz (z * 2 ^ n) = sz z + n.
Proof. intros z n H Hn. unfold sz. rewrite Z.log2_mul_pow2 by assumption. lia. Qed.

Lemma sz_pos : forall z, 0 < z -> 1 <= sz z.
Proof. intros z H. unfold sz. pose proof (Z.log2_nonneg z). lia. Qed.

Lemma sz_le : forall z k, 0 < z -> z < 2 ^ k -> sz z <= k.
Proof.
  intros z k H Hk. unfold sz.
  assert (0 <= k). { destruct (Z.lt_ge_cases k 0) as [N|N]; [|assumption]. rewrite Z.pow_neg_r in Hk by assumption. lia. }
  assert (Z.log2 z < k); [|lia]. apply Z.log2_lt_pow2; assumption.
Qed.

Lemma sz_mul_ge : forall a b, 0 < a -> 0 < b -> sz a + sz b - 1 <= sz (a * b).
Proof. intros a b Ha Hb. unfold sz. pose proof (Z.log2_mul_below a b Ha Hb). lia. Qed.

(* ---- shifting out zero bits is exact ---- *)
Definition rec0 (m : Z) : shr_record := {| shr_m := m; shr_r := false; shr_s := false |}.

Lemma nat_iter_add : forall (A : Type) (f : A -> A) (a b : nat) (x : A),
  Nat.iter (a + b) f x = Nat.iter a f (Nat.iter b f x).
Proof. intros A f a b x. induction a as [|a IH]; simpl; [reflexivity|]. f_equal. exact IH. Qed.

Lemma nat_iter_succ_r : forall (A : Type) (f : A -> A) (n : nat) (x : A),
  Nat.iter (S n) f x = Nat.iter n f (f x).
Proof. intros A f n x. induction n as [|n IH]; [reflexivity|]. simpl in *. f_equal. exact IH. Qed.

Lemma nat_iter_S : forall (A : Type) (f : A -> A) (n : nat) (x : A), Nat.iter (S n) f x = f (Nat.iter n f x).
Proof. reflexivity. Qed.

Lemma iter_pos_nat : forall (A : Type) (f : A -> A) (n : positive) (x : A),
  iter_pos f n x = Nat.iter (Pos.to_nat n) f x.
Proof.
  intros A f. induction n as [n IH|n IH|]; intros x; cbn [iter_pos].
  - rewrite !IH. rewrite Pos2Nat.inj_xI. replace (S (2 * Pos.to_nat n)) with (S (Pos.to_nat n + Pos.to_nat n)) by lia.
    rewrite nat_iter_succ_r, nat_iter_add. reflexivity.
  - rewrite !IH. rewrite Pos2Nat.inj_xO. replace (2 * Pos.to_nat n)%nat with (Pos.to_nat n + Pos.to_nat n)%nat by lia.
    rewrite nat_iter_add. reflexivity.
  - reflexivity.
Qed.

Lemma shr_1_double : forall m, 0 <= m -> shr_1 (rec0 (2 * m)) = rec0 m.
Proof. intros [|p|p] H; reflexivity. Qed.

Lemma iter_shr_exact : forall k m, 0 <= m -> Nat.iter k shr_1 (rec0 (m * 2 ^ Z.of_nat k)) = rec0 m.
Proof.
  induction k as [|k IH]; intros m H.
  - change (2 ^ Z.of_nat 0) with 1. rewrite Z.mul_1_r. reflexivity.
  - rewrite nat_iter_S. rewrite Nat2Z.inj_succ, Z.pow_succ_r by lia.
    replace (m * (2 * 2 ^ Z.of_nat k)) with ((2 * m) * 2 ^ Z.of_nat k) by lia.
    rewrite IH by lia. apply shr_1_double. assumption.
Qed.

Lemma shr_exact : forall m e n, 0 <= m -> 0 <= n -> shr (rec0 (m * 2 ^ n)) e n = (rec0 m, e + n).
Proof.
  intros m e n Hm Hn. unfold shr. destruct n as [|p|p]; [| |lia].
  - change (2 ^ 0) with 1. rewrite Z.mul_1_r, Z.add_0_r. reflexivity.
  - rewrite iter_pos_nat. f_equal. rewrite <- (positive_nat_Z p) at 1. apply iter_shr_exact. assumption.
Qed.

(* ---- rounding a normalised mantissa times a power of two is exact ---- *)
Lemma round_exact : forall (M : positive) (E : Z) (m1 n : Z),
  Zpos M = m1 * 2 ^ n -> 0 <= n -> 0 < m1 -> sz m1 = 53 -> -1074 <= E + n <= 971 ->
  binary_round_aux prec emax false (Zpos M) E loc_Exact = S754_finite false (Z.to_pos m1) (E + n).
Proof.
  intros M E m1 n HM Hn Hm Hs HE.
  unfold binary_round_aux, shr_fexp. rewrite Zdigits2_sz, HM, sz_mul_pow2, Hs by assumption.
  unfold fexp, emin, prec, emax. cbn [shr_record_of_loc].
  replace (Z.max (53 + n + E - 53) (3 - 1024 - 53) - E) with n by lia.
  fold (rec0 (m1 * 2 ^ n)). rewrite shr_exact by lia.
  cbn [rec0 shr_m loc_of_shr_record shr_r shr_s round_nearest_even shr_record_of_loc].
  destruct m1 as [|p1|p1]; try lia. rewrite Zdigits2_sz, Hs.
  replace (Z.max (53 + (E + n) - 53) (3 - 1024 - 53) - (E + n)) with 0 by lia.
  cbn [shr shr_m]. destruct (Zle_bool (E + n) (1024 - 53)) eqn:EL.
  - reflexivity.
  - apply Z.leb_gt in EL. lia.
Qed.

(* ---- float64 of a positive integer below 2^53: its normal form ---- *)
Definition mant (a : Z) : positive := Z.to_pos (a * 2 ^ (53 - sz a)).
Definition nf (a : Z) : spec_float := S754_finite false (mant a) (sz a - 53).

Lemma norm_int : forall a, 0 < a < 2 ^ 53 -> binary_normalize prec emax a 0 false = nf a.
Proof.
  intros a H. destruct a as [|p|p]; try lia. cbn [binary_normalize]. unfold binary_round.
  pose proof (sz_le (Zpos p) 53 ltac:(lia) ltac:(lia)) as SL. pose proof (sz_pos (Zpos p) ltac:(lia)) as SP.
  change (Z.pos (digits2_pos p)) with (Zdigits2 (Zpos p)). rewrite Zdigits2_sz.
  unfold fexp, emin, prec, emax. replace (Z.max (sz (Z.pos p) + 0 - 53) (3 - 1024 - 53)) with (sz (Zpos p) - 53) by lia.
  unfold shl_align. rewrite Z.sub_0_r.
  destruct (sz (Z.pos p) - 53) as [|q|q] eqn:ES; try lia;
    change (binary_round_aux 53 1024) with (binary_round_aux prec emax).
  - unfold nf, mant. rewrite (round_exact p 0 (Zpos p) 0); try lia.
    all: try (change (2 ^ 0) with 1; lia).
    replace (sz (Z.pos p)) with 53 by lia. change (2 ^ (53 - 53)) with 1. rewrite Z.mul_1_r. reflexivity.
  - assert (PP : 0 < 2 ^ Zpos q) by (apply Z.pow_pos_nonneg; lia).
    unfold nf, mant. rewrite (round_exact (shift_pos q p) (Z.neg q) (Zpos p * 2 ^ Zpos q) 0); try lia.
    all: try (rewrite shift_pos_correct, Z.pow_pos_fold; change (2 ^ 0) with 1; lia).
    all: try (rewrite sz_mul_pow2 by lia; lia).
    rewrite Z.add_0_r. replace (53 - sz (Z.pos p)) with (Zpos q) by lia. f_equal. lia.
Qed.

Lemma mant_val : forall a, 0 < a -> sz a <= 53 ->
  Zpos (mant a) = a * 2 ^ (53 - sz a) /\ sz (Zpos (mant a)) = 53.
Proof.
  intros a Ha Hs. unfold mant.
  assert (P : 0 < a * 2 ^ (53 - sz a)) by (apply Z.mul_pos_pos; [lia|apply Z.pow_pos_nonneg; lia]).
  rewrite Z2Pos.id by assumption. split; [reflexivity|]. rewrite sz_mul_pow2 by lia. lia.
Qed.

Lemma mul_nf : forall a b, 0 < a -> 0 < b -> a * b < 2 ^ 53 -> SFmul prec emax (nf a) (nf b) = nf (a * b).
Proof.
  intros a b Ha Hb Hab.
  assert (Pab : 0 < a * b) by (apply Z.mul_pos_pos; assumption).
  assert (La : sz a <= 53) by (apply sz_le; [assumption|nia]).
  assert (Lb : sz b <= 53) by (apply sz_le; [assumption|nia]).
  assert (Lab : sz (a * b) <= 53) by (apply sz_le; assumption).
  pose proof (sz_mul_ge a b Ha Hb) as G.
  pose proof (sz_pos a Ha) as Pa. pose proof (sz_pos b Hb) as Pb.
  destruct (mant_val a Ha La) as [Va _]. destruct (mant_val b Hb Lb) as [Vb _].
  destruct (mant_val (a * b) Pab Lab) as [Vab Sab].
  unfold nf at 1 2. cbn [SFmul xorb].
  rewrite (round_exact (mant a * mant b) _ (Zpos (mant (a * b))) (53 - sz a - sz b + sz (a * b))); try lia.
  - unfold nf. rewrite Pos2Z.id. f_equal. lia.
  - rewrite Pos2Z.inj_mul, Va, Vb, Vab.
    assert (PW : 2 ^ (53 - sz a) * 2 ^ (53 - sz b) = 2 ^ (53 - sz (a * b)) * 2 ^ (53 - sz a - sz b + sz (a * b))).
    { rewrite <- !Z.pow_add_r by lia. f_equal. lia. }
    replace (a * 2 ^ (53 - sz a) * (b * 2 ^ (53 - sz b))) with (a * b * (2 ^ (53 - sz a) * 2 ^ (53 - sz b))) by ring.
    rewrite PW. ring.
Qed.

Lemma prim_of_int : forall a, 0 < a < 2 ^ 53 -> Prim2SF (of_uint63 (Uint63.of_Z a)) = nf a.
Proof.
  intros a H. rewrite of_uint63_spec, Uint63.of_Z_spec.
  rewrite Z.mod_small by (change Uint63.wB with (2 ^ 63); split; [lia|]; apply Z.lt_trans with (2 ^ 53); [lia|reflexivity]).
  apply norm_int. assumption.
Qed.

Lemma trunc_nf : forall x a, 0 < a < 2 ^ 53 -> Prim2SF x = nf a -> trunc_u64 x = a.
Proof.
  intros x a H E. unfold trunc_u64. rewrite E. unfold nf.
  assert (La : sz a <= 53) by (apply sz_le; lia).
  destruct (mant_val a ltac:(lia) La) as [Va _]. rewrite Va.
  assert (V : (if 0 <=? sz a - 53 then a * 2 ^ (53 - sz a) * 2 ^ (sz a - 53)
               else a * 2 ^ (53 - sz a) / 2 ^ (- (sz a - 53))) = a).
  { destruct (0 <=? sz a - 53) eqn:E0.
    - replace (sz a) with 53 by lia. change (2 ^ (53 - 53)) with 1. lia.
    - replace (- (sz a - 53)) with (53 - sz a) by lia. apply Z.div_mul. apply Z.pow_nonzero; lia. }
  rewrite V. destruct (a <? two64) eqn:EL; [reflexivity|].
  unfold two64 in EL. assert (2 ^ 53 < 18446744073709551616) by reflexivity. lia.
Qed.

Lemma float_of_u64_small : forall z, 0 <= z < two63 -> float_of_u64 z = of_uint63 (Uint63.of_Z z).
Proof. intros z H. unfold float_of_u64. destruct (z <? two63) eqn:E; [reflexivity|lia]. Qed.

Theorem mul_exact : forall a b, 0 < a -> 0 < b -> a * b < 2 ^ 53 ->
  trunc_u64 (float_of_u64 a * float_of_u64 b)%float = a * b.
Proof.
  intros a b Ha Hb Hab.
  assert (P53 : 2 ^ 53 < two63) by reflexivity.
  assert (A : a < 2 ^ 53) by nia. assert (B : b < 2 ^ 53) by nia.
  rewrite !float_of_u64_small by lia.
  apply trunc_nf; [split; [apply Z.mul_pos_pos; assumption|assumption]|].
  rewrite mul_spec. unfold SF64mul. rewrite !prim_of_int by lia. apply mul_nf; assumption.
Qed.

(* the 18 quotients float64(10^p) / scale_k the formatter's texts lead to: evaluated *)
Lemma quot_pk : forall p k, In (p, k)
    [(3,1);(3,2);(3,3);(6,1);(6,2);(6,3);(6,4);(6,5);(6,6);
     (9,1);(9,2);(9,3);(9,4);(9,5);(9,6);(9,7);(9,8);(9,9)]%nat ->
  (float_of_u64 (10 ^ Z.of_nat p) / fscale_from 1 k)%float = float_of_u64 (10 ^ Z.of_nat (p - k)).
Proof.
  intros p k H. cbn [In] in H.
  repeat (destruct H as [H|H]; [injection H as E1 E2; subst p k; vm_compute; reflexivity|]). contradiction.
Qed.

Theorem frac_op_float_exact : fop_spec frac_op_float.
Proof.
  intros p k f P K F. unfold frac_op_float.
  assert (IN : In (p, k) [(3,1);(3,2);(3,3);(6,1);(6,2);(6,3);(6,4);(6,5);(6,6);
                          (9,1);(9,2);(9,3);(9,4);(9,5);(9,6);(9,7);(9,8);(9,9)]%nat).
  { destruct P as [ -> | [ -> | -> ] ].
    - assert (C : (k = 1 \/ k = 2 \/ k = 3)%nat) by lia. cbn [In]. intuition (subst; auto 20).
    - assert (C : (k = 1 \/ k = 2 \/ k = 3 \/ k = 4 \/ k = 5 \/ k = 6)%nat) by lia. cbn [In]. intuition (subst; auto 20).
    - assert (C : (k = 1 \/ k = 2 \/ k = 3 \/ k = 4 \/ k = 5 \/ k = 6 \/ k = 7 \/ k = 8 \/ k = 9)%nat) by lia.
      cbn [In]. intuition (subst; auto 30). }
  rewrite (quot_pk p k IN).
  assert (PP : 0 < 10 ^ Z.of_nat (p - k)) by apply pow10_pos.
  assert (E : 10 ^ Z.of_nat k * 10 ^ Z.of_nat (p - k) = 10 ^ Z.of_nat p).
  { rewrite <- Z.pow_add_r by lia. f_equal. lia. }
  assert (P9 : 10 ^ Z.of_nat p <= 10 ^ Z.of_nat 9) by (apply Z.pow_le_mono_r; lia).
  assert (B : 10 ^ Z.of_nat 9 < 2 ^ 53) by reflexivity.
  apply mul_exact; [lia|assumption|]. nia.
Qed.

(* ---------- the statements of Props/C20.v ---------- *)
Lemma units_logg_good : units_good units_logg.
Proof. constructor; reflexivity. Qed.

Lemma units_logg_nonzero : Forall (fun p : bytes * Z => snd p <> 0) units_logg.
Proof. apply Forall_forall. intros [k v] H. cbn [snd]. unfold units_logg, Verif.Gen.Tables.t_unitMap in H. cbn [In] in H.
  repeat (destruct H as [H|H]; [injection H as _ <-; discriminate|]). contradiction. Qed.

Lemma units_std_nonzero : Forall (fun p : bytes * Z => snd p <> 0) units_std.
Proof.
  pose proof units_logg_nonzero as H. unfold units_std, without_day. rewrite Forall_forall in *.
  intros x Hx. apply filter_In in Hx. apply H. tauto.
Qed.

Lemma bufsize_nonneg : 0 <= Verif.Gen.Tables.t_shortDurBufSize.
Proof. apply Z.leb_le. vm_compute. reflexivity. Qed.

Theorem total_any : forall B frac d, 33 <= B -> - 2 ^ 63 <= d < 2 ^ 63 -> short_dur B frac d <> Panic.
Proof. intros B frac d HB H. apply short_dur_total; assumption. Qed.

Lemma min_int_text_length : length (text false (- two63)) = 33%nat.
Proof. vm_compute. reflexivity. Qed.

Theorem total_iff : forall B, 0 <= B ->
  ((forall frac d, - 2 ^ 63 <= d < 2 ^ 63 -> short_dur B frac d <> Panic) <-> 33 <= B).
Proof.
  intros B HB. split.
  - intros H. destruct (Z_le_gt_dec 33 B) as [L|G]; [assumption|]. exfalso.
    apply (H false (- two63)); [split; [reflexivity|reflexivity]|].
    rewrite short_dur_text by assumption. rewrite min_int_text_length.
    destruct (Z.of_nat 33 <=? B) eqn:E; [|reflexivity]. apply Z.leb_le in E. change (Z.of_nat 33) with 33 in E. lia.
  - intros L frac d H. apply total_any; assumption.
Qed.

Theorem total_current :
  (33 <= Verif.Gen.Tables.t_shortDurBufSize /\
     forall frac d, - 2 ^ 63 <= d < 2 ^ 63 -> short_dur Verif.Gen.Tables.t_shortDurBufSize frac d <> Panic)
  \/ (Verif.Gen.Tables.t_shortDurBufSize < 33 /\
     exists d, - 2 ^ 63 <= d < 2 ^ 63 /\ short_dur Verif.Gen.Tables.t_shortDurBufSize false d = Panic).
Proof.
  destruct (Z_le_gt_dec 33 Verif.Gen.Tables.t_shortDurBufSize) as [L|G].
  - left. split; [assumption|]. intros frac d H. apply total_any; assumption.
  - right. split; [lia|]. exists (- two63). split; [split; reflexivity|].
    rewrite short_dur_text by apply bufsize_nonneg. rewrite min_int_text_length.
    destruct (Z.of_nat 33 <=? _) eqn:E; [|reflexivity]. apply Z.leb_le in E. change (Z.of_nat 33) with 33 in E. lia.
Qed.

Theorem roundtrip_any : forall B frac d t, 0 <= B -> - 2 ^ 63 <= d < 2 ^ 63 ->
  short_dur B frac d = Ok t -> parse_dur units_logg t = Ok d.
Proof.
  intros B frac d t HB H E. apply short_dur_ok_text in E; [|assumption]. subst t.
  unfold parse_dur. apply roundtrip_text; [exact frac_op_float_exact|exact units_logg_good|exact H].
Qed.

Theorem superset_std : forall s r, parse_dur units_std s = Ok r -> parse_dur units_logg s = Ok r.
Proof. intros s r. unfold parse_dur, units_std. apply parse_superset. Qed.

Theorem only_day : forall s r, parse_dur units_logg s = Ok r -> parse_dur units_std s = Ok r \/ uses_day_unit s = true.
Proof. intros s r. unfold parse_dur, units_std. apply parse_only_day. Qed.

Theorem same_decision : forall s, uses_day_unit s = false -> parse_dur units_std s = parse_dur units_logg s.
Proof. intros s. unfold parse_dur, units_std. apply parse_same_without_day. Qed.

Theorem reject_agreement : forall s, parse_dur units_std s = Err -> parse_dur units_logg s = Err \/ uses_day_unit s = true.
Proof.
  intros s H. destruct (uses_day_unit s) eqn:E; [right; reflexivity|left].
  rewrite <- same_decision; assumption.
Qed.

Theorem parse_decides : forall s,
  ((exists r, parse_dur units_logg s = Ok r) \/ parse_dur units_logg s = Err)
  /\ ((exists r, parse_dur units_std s = Ok r) \/ parse_dur units_std s = Err).
Proof.
  intros s. split.
  - pose proof (parse_no_fuel_out frac_op_float units_logg s) as F.
    pose proof (parse_no_panic frac_op_float units_logg s units_logg_nonzero) as P.
    fold (parse_dur units_logg s) in F, P.
    destruct (parse_dur units_logg s) as [r| | |]; try congruence; [left; exists r; reflexivity|right; reflexivity].
  - pose proof (parse_no_fuel_out frac_op_float units_std s) as F.
    pose proof (parse_no_panic frac_op_float units_std s units_std_nonzero) as P.
    fold (parse_dur units_std s) in F, P.
    destruct (parse_dur units_std s) as [r| | |]; try congruence; [left; exists r; reflexivity|right; reflexivity].
Qed.
