(* Lemmas for C17: names, registry invariant, registration effects, short tags. *)
Require Import Verif.Model.Base Verif.Model.Decision Verif.Model.Dec Verif.Model.Level.
Require Import Verif.Proofs.LevelP.
Require Import Verif.Corr.C01.   (* init_registry: the literal tables of the source *)

Lemma lookupZ_app {V} (a b : list (Z * V)) k :
  lookupZ (a ++ b) k = match lookupZ a k with Some x => Some x | None => lookupZ b k end.
Proof. induction a as [|[k' v'] t IH]; cbn; [reflexivity|]. destruct (k' =? k); [reflexivity|exact IH]. Qed.

Lemma lookupB_app {V} (a b : list (bytes * V)) k :
  lookupB (a ++ b) k = match lookupB a k with Some x => Some x | None => lookupB b k end.
Proof. induction a as [|[k' v'] t IH]; cbn; [reflexivity|]. destruct (bytes_eqb k' k); [reflexivity|exact IH]. Qed.

Lemma byte_eqb_refl b : byte_eqb b b = true.
Proof. unfold byte_eqb. apply Byte.byte_dec_lb. reflexivity. Qed.
Lemma bytes_eqb_refl s : bytes_eqb s s = true.
Proof. unfold bytes_eqb. induction s as [|b t IH]; cbn; [reflexivity|]. rewrite byte_eqb_refl, IH. reflexivity. Qed.

(* the consistency the name round trips rest on *)
Definition keys_in {V} (m : list (Z * V)) (all : list Z) : Prop := forall l x, lookupZ m l = Some x -> In l all.
Record reg_ok (g : registry) : Prop := {
  ok_names : forall l, In l (r_all g) ->
     exists t, lookupZ (r_l2s g) l = Some t /\ lookupB (r_s2l g) (to_lower t) = Some l;
  ok_l2s : keys_in (r_l2s g) (r_all g);
  ok_as : keys_in (r_as g) (r_all g);
  ok_errdev : forall l, In l (r_errdev g) -> In l (r_all g);
  ok_tags : forall n m, lookupZ (r_tags g) n = Some m -> keys_in m (r_all g)
}.

(* boolean version, decidable on a concrete registry *)
Definition keys_in_b {V} (m : list (Z * V)) (all : list Z) : bool := forallb (fun kv : Z * V => memZ all (fst kv)) m.
Definition reg_ok_b (g : registry) : bool :=
  forallb (fun l => match lookupZ (r_l2s g) l with
                    | Some t => match lookupB (r_s2l g) (to_lower t) with Some l' => l' =? l | None => false end
                    | None => false end) (r_all g)
  && keys_in_b (r_l2s g) (r_all g) && keys_in_b (r_as g) (r_all g)
  && forallb (memZ (r_all g)) (r_errdev g)
  && forallb (fun row : Z * list (Z * bytes) => keys_in_b (snd row) (r_all g)) (r_tags g).

Lemma keys_in_b_sound {V} (m : list (Z * V)) all : keys_in_b m all = true -> keys_in m all.
Proof.
  unfold keys_in_b, keys_in. intros H l x Hl. rewrite forallb_forall in H.
  induction m as [|[k v] t IH]; cbn in Hl; [discriminate|].
  destruct (Z.eqb_spec k l) as [E|E].
  - subst k. apply memZ_true. apply (H (l, v)). left. reflexivity.
  - apply IH; [|exact Hl]. intros y Hy. apply H. right. exact Hy.
Qed.

Lemma lookupZ_in {V} (m : list (Z * V)) k v : lookupZ m k = Some v -> In (k, v) m.
Proof.
  induction m as [|[k' v'] t IH]; cbn; [discriminate|]. destruct (Z.eqb_spec k' k) as [E|E].
  - intros H. inversion H; subst. left. reflexivity.
  - intros H. right. apply IH. exact H.
Qed.

Lemma reg_ok_b_sound g : reg_ok_b g = true -> reg_ok g.
Proof.
  unfold reg_ok_b. rewrite !andb_true_iff. intros [[[[H1 H2] H3] H4] H5]. constructor.
  - intros l Hl. rewrite forallb_forall in H1. specialize (H1 l Hl).
    destruct (lookupZ (r_l2s g) l) as [t|]; [|discriminate]. exists t. split; [reflexivity|].
    destruct (lookupB (r_s2l g) (to_lower t)) as [l'|]; [|discriminate]. apply Z.eqb_eq in H1. congruence.
  - apply keys_in_b_sound. exact H2.
  - apply keys_in_b_sound. exact H3.
  - intros l Hl. rewrite forallb_forall in H4. apply memZ_true. apply H4. exact Hl.
  - intros n m Hm. apply keys_in_b_sound. rewrite forallb_forall in H5.
    apply (H5 (n, m)). apply lookupZ_in. exact Hm.
Qed.

(* the tables of the source are consistent (computed on the generated tables) *)
Lemma init_reg_ok : reg_ok init_registry.
Proof. apply reg_ok_b_sound. vm_compute. reflexivity. Qed.

Lemma keys_in_app {V} (m : list (Z * V)) all v x : keys_in m all -> keys_in (m ++ [(v, x)]) (all ++ [v]).
Proof.
  intros H l y Hl. rewrite lookupZ_app in Hl. destruct (lookupZ m l) as [z|] eqn:E.
  - apply in_or_app. left. eapply H. exact E.
  - cbn in Hl. destruct (Z.eqb_spec v l) as [E2|E2]; [|discriminate]. subst. apply in_or_app. right. left. reflexivity.
Qed.
Lemma keys_in_weaken {V} (m : list (Z * V)) all v : keys_in m all -> keys_in m (all ++ [v]).
Proof. intros H l y Hl. apply in_or_app. left. eapply H. exact Hl. Qed.

Lemma tag_row_fst v ts row : fst (tag_row v ts row) = fst row.
Proof.
  unfold tag_row. destruct (nth_error ts (Z.to_nat (fst row))) as [[|c s]|]; try reflexivity.
  destruct ((0 <=? fst row) && (fst row <? 6)); reflexivity.
Qed.

Lemma lookupZ_map_row {V} (f : Z * V -> Z * V) (Hf : forall row, fst (f row) = fst row) tags n :
  lookupZ (map f tags) n = option_map (fun m => snd (f (n, m))) (lookupZ tags n).
Proof.
  induction tags as [|[k m] t IH]; cbn [map lookupZ option_map]; [reflexivity|].
  destruct (f (k, m)) as [k' m'] eqn:E. pose proof (Hf (k, m)) as H. rewrite E in H. cbn in H. subst k'.
  destruct (Z.eqb_spec k n) as [E2|E2].
  - subst k. cbn [option_map]. rewrite E. reflexivity.
  - exact IH.
Qed.

Lemma tags_add_lookup tags v ts n m : lookupZ (tags_add tags v ts) n = Some m ->
  exists m0, lookupZ tags n = Some m0 /\ (m = m0 \/ exists c s, m = m0 ++ [(v, c :: s)]).
Proof.
  unfold tags_add. rewrite (lookupZ_map_row _ (tag_row_fst v ts)).
  destruct (lookupZ tags n) as [m0|]; cbn [option_map]; [|discriminate].
  intros H. inversion H; subst m. exists m0. split; [reflexivity|].
  unfold tag_row. cbn [fst snd]. destruct (nth_error ts (Z.to_nat n)) as [[|c s]|]; cbn [snd]; auto.
  destruct ((0 <=? n) && (n <? 6)); cbn [snd]; auto. right. exists c, s. reflexivity.
Qed.

(* registration preserves consistency *)
Lemma register_ok g v t o : reg_ok g -> reg_ok (fst (register g v t o)).
Proof.
  intros [Hn Hl Ha He Ht]. unfold register. destruct (memZ (r_all g) v) eqn:Ev; [constructor; assumption|].
  destruct (lookupB (r_s2l g) (to_lower t)) eqn:Et; [constructor; assumption|]. cbn [fst].
  assert (Hv : ~ In v (r_all g)). { intros H. apply memZ_true in H. congruence. }
  constructor; cbn [r_all r_l2s r_s2l r_as r_errdev r_tags].
  - intros l Hin. apply in_app_or in Hin. destruct Hin as [Hin|[Hin|[]]].
    + destruct (Hn l Hin) as [t0 [H1 H2]]. exists t0. rewrite lookupZ_app, H1, lookupB_app, H2. split; reflexivity.
    + subst l. exists t. rewrite lookupZ_app.
      destruct (lookupZ (r_l2s g) v) as [x|] eqn:Ex; [exfalso; apply Hv; eapply Hl; exact Ex|].
      cbn [lookupZ]. rewrite Z.eqb_refl. split; [reflexivity|].
      rewrite lookupB_app, Et. cbn [lookupB]. rewrite bytes_eqb_refl. reflexivity.
  - apply keys_in_app. exact Hl.
  - destruct (o_treat o <? lv_max); [apply keys_in_app; exact Ha|apply keys_in_weaken; exact Ha].
  - intros l Hin. destruct (o_err o).
    + apply in_app_or in Hin. apply in_or_app. destruct Hin as [Hin|Hin]; [left; apply He; exact Hin|right; exact Hin].
    + apply in_or_app. left. apply He. exact Hin.
  - intros n m Hm. destruct (tags_add_lookup _ _ _ _ _ Hm) as [m0 [H0 [->|[c [s ->]]]]].
    + apply keys_in_weaken. eapply Ht. exact H0.
    + apply keys_in_app. eapply Ht. exact H0.
Qed.

Record regcall := { rc_v : Z; rc_title : bytes; rc_opts : regopts }.
Definition reg_run (g : registry) (cs : list regcall) : registry :=
  fold_left (fun g c => fst (register g (rc_v c) (rc_title c) (rc_opts c))) cs g.

Lemma reg_run_ok cs : forall g, reg_ok g -> reg_ok (reg_run g cs).
Proof.
  unfold reg_run. induction cs as [|c cs IH]; intros g H; cbn [fold_left]; [exact H|].
  apply IH. apply register_ok. exact H.
Qed.

(* ---- round trips ---- *)
Lemma name_roundtrip g l : reg_ok g -> In l (r_all g) -> parse_level g (level_string g l) = Some l.
Proof.
  intros H Hl. destruct (ok_names g H l Hl) as [t [H1 H2]]. unfold level_string, parse_level. rewrite H1. exact H2.
Qed.

Lemma text_roundtrip g l : reg_ok g -> In l (r_all g) ->
  exists b, marshal_text g l = Some b /\ unmarshal_text g b = Some l.
Proof.
  intros H Hl. destruct (ok_names g H l Hl) as [t [H1 H2]]. exists t. unfold marshal_text, unmarshal_text, parse_level.
  split; assumption.
Qed.

(* JSON form: the marshalled text wrapped by a JSON string codec (encoding/json), about which
   only its own round trip is assumed *)
Section JSON.
Variable jq : bytes -> bytes.
Variable junq : bytes -> option bytes.
Hypothesis junq_jq : forall s, junq (jq s) = Some s.
Definition marshal_json (g : registry) (l : Z) : option bytes := option_map jq (marshal_text g l).
Definition unmarshal_json (g : registry) (s : bytes) : option Z :=
  match junq s with Some t => unmarshal_text g t | None => None end.
Lemma json_roundtrip g l : reg_ok g -> In l (r_all g) ->
  exists b, marshal_json g l = Some b /\ unmarshal_json g b = Some l.
Proof.
  intros H Hl. destruct (text_roundtrip g l H Hl) as [t [H1 H2]]. exists (jq t). unfold marshal_json, unmarshal_json.
  rewrite H1, junq_jq. split; [reflexivity|exact H2].
Qed.
End JSON.

(* ---- effects of a successful registration ---- *)
Lemma register_effects g v t o : reg_ok g -> snd (register g v t o) = RegOk ->
  let g' := fst (register g v t o) in
  In v (r_all g') /\ level_string g' v = t /\ parse_level g' t = Some v
  /\ treated_as (r_as g') v = (if o_treat o <? lv_max then o_treat o else v)
  /\ (memZ (r_errdev g') v = o_err o).
Proof.
  intros [Hn Hl Ha He Ht]. unfold register. destruct (memZ (r_all g) v) eqn:Ev; [cbn; discriminate|].
  destruct (lookupB (r_s2l g) (to_lower t)) eqn:Et; [cbn; discriminate|]. intros _. cbn [fst].
  assert (Hv : ~ In v (r_all g)). { intros H. apply memZ_true in H. congruence. }
  cbn [r_all r_l2s r_s2l r_as r_errdev]. split; [apply in_or_app; right; left; reflexivity|].
  split.
  { unfold level_string. cbn [r_l2s]. rewrite lookupZ_app.
    destruct (lookupZ (r_l2s g) v) as [x|] eqn:Ex; [exfalso; apply Hv; eapply Hl; exact Ex|].
    cbn [lookupZ]. rewrite Z.eqb_refl. reflexivity. }
  split.
  { unfold parse_level. cbn [r_s2l]. rewrite lookupB_app, Et. cbn [lookupB]. rewrite bytes_eqb_refl. reflexivity. }
  split.
  { unfold treated_as. destruct (lookupZ (r_as g) v) as [x|] eqn:Ex; [exfalso; apply Hv; eapply Ha; exact Ex|].
    destruct (o_treat o <? lv_max).
    - rewrite lookupZ_app, Ex. cbn [lookupZ]. rewrite Z.eqb_refl. reflexivity.
    - rewrite Ex. reflexivity. }
  { destruct (o_err o).
    - apply memZ_true. apply in_or_app. right. left. reflexivity.
    - destruct (memZ (r_errdev g) v) eqn:Em; [|reflexivity]. apply memZ_true in Em. exfalso. apply Hv. apply He. exact Em. }
Qed.

(* the given short tags are used *)
Lemma tags_add_given tags v ts n m0 c s : lookupZ tags n = Some m0 -> lookupZ m0 v = None ->
  0 <= n < 6 -> nth_error ts (Z.to_nat n) = Some (c :: s) ->
  exists m, lookupZ (tags_add tags v ts) n = Some m /\ lookupZ m v = Some (c :: s).
Proof.
  intros H0 Hm Hn Hts. unfold tags_add. rewrite (lookupZ_map_row _ (tag_row_fst v ts)), H0. cbn [option_map].
  eexists. split; [reflexivity|]. unfold tag_row. cbn [fst snd]. unfold bytes in *. rewrite Hts.
  replace ((0 <=? n) && (n <? 6)) with true by lia. cbn [snd].
  rewrite lookupZ_app, Hm. cbn [lookupZ]. rewrite Z.eqb_refl. reflexivity.
Qed.

Lemma register_tags g v t o n c s m0 : reg_ok g -> snd (register g v t o) = RegOk ->
  lookupZ (r_tags g) n = Some m0 -> 1 <= n <= 5 -> nth_error (o_tags o) (Z.to_nat n) = Some (c :: s) ->
  short_tag (fst (register g v t o)) n v = Some (c :: s).
Proof.
  intros Hg. pose proof Hg as [Hn Hl Ha He Ht]. unfold register. destruct (memZ (r_all g) v) eqn:Ev; [cbn; discriminate|].
  destruct (lookupB (r_s2l g) (to_lower t)) eqn:Et; [cbn; discriminate|]. intros _ H0 Hr Hts. cbn [fst].
  assert (Hv : ~ In v (r_all g)). { intros H. apply memZ_true in H. congruence. }
  assert (Hm : lookupZ m0 v = None).
  { destruct (lookupZ m0 v) as [x|] eqn:Ex; [|reflexivity]. exfalso. apply Hv. eapply Ht; eassumption. }
  destruct (tags_add_given (r_tags g) v (o_tags o) n m0 c s H0 Hm ltac:(lia) Hts) as [m [H1 H2]].
  unfold short_tag. replace ((n <=? 0) || (6 <=? n)) with false by lia. cbn [r_tags]. rewrite H1, H2. reflexivity.
Qed.

(* ShortTag(n) of a level without custom tag is exactly n bytes, n in 1..5 *)
Lemma firstn_length_ge {A} (l : list A) k : (k <= length l)%nat -> length (firstn k l) = k.
Proof. intros H. rewrite firstn_length. lia. Qed.

Lemma short_tag_length g n l : 1 <= n <= 5 ->
  (match lookupZ (r_tags g) n with Some m => lookupZ m l | None => None end) = None ->
  exists t, short_tag g n l = Some t /\ length t = Z.to_nat n.
Proof.
  intros Hn Hno. unfold short_tag. replace ((n <=? 0) || (6 <=? n)) with false by lia. rewrite Hno.
  destruct (level_string g l) as [|b s] eqn:E.
  - eexists. split; [reflexivity|]. apply repeat_length.
  - destruct (Nat.eqb_spec (length (b :: s)) (Z.to_nat n)) as [E1|E1].
    + eexists. split; [reflexivity|exact E1].
    + destruct (Nat.ltb_spec (length (b :: s)) (Z.to_nat n)) as [E2|E2].
      * eexists. split; [reflexivity|]. apply firstn_length_ge. rewrite app_length, repeat_length. lia.
      * eexists. split; [reflexivity|]. apply firstn_length_ge. lia.
Qed.

(* the built-in tags have the right lengths too (computed on the tables of the source) *)
Lemma builtin_tags_length :
  forallb (fun l => forallb (fun n => match short_tag init_registry n l with
                                       | Some t => Nat.eqb (length t) (Z.to_nat n) | None => false end)
                            [1;2;3;4;5]) (r_all init_registry) = true.
Proof. vm_compute. reflexivity. Qed.
