(* Lemmas about Model/Mode.v (C11). *)
Require Import Verif.Model.Base Verif.Model.Mode.

Lemma set_json_wf b s : mode_wf (set_json_mode b s).
Proof. unfold mode_wf, set_json_mode. destruct (last_of true b); cbn; [reflexivity|reflexivity]. Qed.

Lemma set_color_wf b s : mode_wf (set_color_mode b s).
Proof. unfold mode_wf, set_color_mode. cbn. reflexivity. Qed.

Lemma apply_call_wf s c : mode_wf (apply_call s c).
Proof. destruct c; cbn; [apply set_json_wf | apply set_color_wf]. Qed.

(* one call moves the state as the three-state machine says *)
Lemma mode_machine_step s c : mode_wf s -> mode_of (apply_call s c) = mode_step (mode_of s) c.
Proof.
  unfold mode_wf, mode_of. destruct s as [j co]. destruct c as [b|b]; cbn;
  unfold set_json_mode, set_color_mode; cbn; destruct (last_of true b); cbn;
  destruct j, co; cbn; intros H; try reflexivity; discriminate.
Qed.

Lemma mode_machine_fold cs : forall s, mode_wf s ->
  mode_of (fold_left apply_call cs s) = fold_left mode_step cs (mode_of s)
  /\ mode_wf (fold_left apply_call cs s).
Proof.
  induction cs as [|c cs IH]; intros s Hs; cbn [fold_left].
  - split; [reflexivity|exact Hs].
  - rewrite <- mode_machine_step by exact Hs. apply IH. apply apply_call_wf.
Qed.

(* the getters JSONMode()/ColorMode() are the two flags; they agree with the state *)
Lemma getters_agree s : mode_wf s ->
  (useJSON s = true <-> mode_of s = MJ) /\ (useColor s = true <-> mode_of s = MC).
Proof.
  unfold mode_wf, mode_of. destruct s as [j co]; cbn. destruct j, co; cbn; intros H;
  try discriminate; split; split; intros X; try reflexivity; try discriminate.
Qed.

(* the record shape the encoders are put in agrees with the state (no wf needed) *)
Lemma shape_agrees s : mode_wf s ->
  shape_of s = match mode_of s with MJ => ShJSON | MC => ShColor | ML => ShLogfmt end.
Proof.
  unfold mode_wf, shape_of, mode_of, pc_json_mode, pc_no_color. destruct s as [j co]; cbn.
  destruct j, co; cbn; intros H; try reflexivity; discriminate.
Qed.

(* the statement's four clauses, spelled out *)
Lemma clause_json_true b s : last_of true b = true -> mode_of (set_json_mode b s) = MJ.
Proof. intros H. unfold set_json_mode, mode_of. rewrite H. reflexivity. Qed.
Lemma clause_color_true b s : last_of true b = true -> mode_of (set_color_mode b s) = MC.
Proof. intros H. unfold set_color_mode, mode_of. rewrite H. reflexivity. Qed.
Lemma clause_color_false b s : last_of true b = false -> mode_of (set_color_mode b s) = ML.
Proof. intros H. unfold set_color_mode, mode_of. rewrite H. reflexivity. Qed.
Lemma clause_json_false b s : mode_wf s -> last_of true b = false ->
  mode_of (set_json_mode b s) = match mode_of s with MJ => ML | m => m end.
Proof.
  unfold mode_wf. intros Hs H. unfold set_json_mode, mode_of. rewrite H. destruct s as [j co]; cbn in *.
  destruct j, co; try reflexivity; discriminate.
Qed.

(* ---- the translations regenerated from the source (Gen/Decisions.v) against the model ---- *)
Require Verif.Gen.Decisions.
Require Import Verif.Model.DecisionRef.

Lemma fold_last_bool : forall (b : list bool) (d : bool),
  fold_left (fun (mode : bool) (bb : bool) => let mode := bb in mode) b d = last_of d b.
Proof. reflexivity. Qed.

Lemma gen_set_json_mode : forall j c b, Decisions.set_json_mode j c b = set_json_mode_ref j c b.
Proof.
  intros j c b. unfold Decisions.set_json_mode, set_json_mode_ref, set_json_mode. cbn zeta.
  rewrite fold_last_bool. destruct (last_of true b); reflexivity.
Qed.

Lemma gen_set_color_mode : forall j c b, Decisions.set_color_mode j c b = set_color_mode_ref j c b.
Proof.
  intros j c b. unfold Decisions.set_color_mode, set_color_mode_ref, set_color_mode. cbn zeta.
  rewrite fold_last_bool. reflexivity.
Qed.

Lemma gen_pc_setentry : forall j c, Decisions.pc_setentry j c = pc_setentry_ref j c.
Proof. intros [|] [|]; reflexivity. Qed.

Lemma gen_set_level : forall d t lvl, Decisions.set_level d t lvl = set_level_ref d t lvl.
Proof.
  intros d t lvl. unfold Decisions.set_level, set_level_ref. cbn zeta.
  change Verif.Model.Level.lv_debug with 5. change Verif.Model.Level.lv_trace with 6.
  destruct (lvl =? 5) eqn:E5; destruct (lvl =? 6) eqn:E6; destruct d, t; try reflexivity; lia.
Qed.
