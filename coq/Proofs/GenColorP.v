(* The translations of the colour helpers of slog/colorize_tool.go regenerated from the source
   (Gen/Colors.v: echoColor, echoBgColor, echoColorAndBg, echoResetColor, rightPad,
   splitFirstAndRestLines) against the encoder model (Model/Encode.v), for every argument. *)
Require Import Verif.Model.Base Verif.Model.Decision Verif.Model.Dec Verif.Model.GoSem.
Require Import Verif.Model.Attrs Verif.Model.Encode Verif.Model.ColorRef.
Require Import Verif.Proofs.JsonStrP Verif.Proofs.AnsiP.
Require Verif.Gen.Colors.
Require Import Lia ZifyBool ZifyNat.

(* ---- the SGR writers ---- *)
Lemma gen_echo_color out c : Colors.echo_color out c = Some (out ++ echo_color c).
Proof.
  first [ reflexivity
        | unfold Colors.echo_color, echo_color, sgr, clr_none;
          destruct (c =? -1) eqn:E; cbn [negb]; [ now rewrite app_nil_r | ];
          rewrite <- !app_assoc; reflexivity ].
Qed.

Lemma gen_echo_bg_color out c : Colors.echo_bg_color out c = Some (out ++ echo_color c).
Proof.
  first [ reflexivity
        | unfold Colors.echo_bg_color, echo_color, sgr, clr_none;
          destruct (c =? -1) eqn:E; cbn [negb]; [ now rewrite app_nil_r | ];
          rewrite <- !app_assoc; reflexivity ].
Qed.

Lemma gen_echo_color_bg out c b : Colors.echo_color_bg out c b = Some (out ++ echo_color_bg c b).
Proof.
  first [ reflexivity
        | unfold Colors.echo_color_bg, echo_color_bg, echo_color, sgr, clr_none; cbv zeta;
          destruct (c =? -1) eqn:E; destruct (b =? -1) eqn:E2; cbn [negb];
          rewrite ?app_nil_r, <- ?app_assoc; cbn [app]; rewrite <- ?app_assoc; cbn [app]; reflexivity ].
Qed.

Lemma gen_echo_reset out : Colors.echo_reset out = Some (out ++ sgr_reset).
Proof. reflexivity. Qed.

(* ---- rightPad ---- *)
Lemma concat_repeat_single (b : byte) n : concat (repeat [b] n) = repeat b n.
Proof. induction n as [|n IH]; cbn; [reflexivity | now rewrite IH]. Qed.

Lemma right_pad_ref_eq str minw : right_pad_ref str [x20] minw = Some (right_pad str minw).
Proof.
  unfold right_pad_ref, right_pad.
  destruct (0 <? minw - Z.of_nat (length str)) eqn:E.
  - now rewrite concat_repeat_single.
  - replace (Z.to_nat (minw - Z.of_nat (length str))) with 0%nat by lia. cbn [repeat]. now rewrite app_nil_r.
Qed.

Lemma gen_right_pad_ref str pad minw : Colors.right_pad str pad minw = right_pad_ref str pad minw.
Proof.
  first [ reflexivity
        | unfold Colors.right_pad, right_pad_ref, str_repeat; cbv zeta;
          repeat match goal with |- context [if ?c then _ else _] => destruct c eqn:? end;
          solve [ reflexivity | lia ] ].
Qed.

Lemma gen_right_pad str minw : Colors.right_pad str [x20] minw = Some (right_pad str minw).
Proof. rewrite gen_right_pad_ref. apply right_pad_ref_eq. Qed.

(* ---- splitFirstAndRestLines ---- *)
(* the text cut at its first line feed *)
Fixpoint cut_lf (s : bytes) : option (bytes * bytes) :=
  match s with
  | [] => None
  | b :: t => if is_lf b then Some ([], t)
              else match cut_lf t with None => None | Some (a, r) => Some (b :: a, r) end
  end.

Lemma split_aux_cut : forall s cur,
  split_lf_aux cur s = match cut_lf s with
                       | None => [rev cur ++ s]
                       | Some (a, r) => (rev cur ++ a) :: split_lf_aux [] r
                       end.
Proof.
  induction s as [|b t IH]; intros cur; cbn [split_lf_aux cut_lf].
  - now rewrite app_nil_r.
  - destruct (is_lf b) eqn:Eb.
    + now rewrite app_nil_r.
    + rewrite IH. cbn [rev]. destruct (cut_lf t) as [[a r]|]; rewrite <- app_assoc; reflexivity.
Qed.

Lemma split_cut s : split_lf s = match cut_lf s with None => [s] | Some (a, r) => a :: split_lf r end.
Proof. unfold split_lf. rewrite split_aux_cut. destruct (cut_lf s) as [[a r]|]; reflexivity. Qed.

Lemma is_lf_x0a b : is_lf b = true -> b = x0a.
Proof. unfold is_lf. intros H. apply Z.eqb_eq in H. apply byte_of_bz in H. exact H. Qed.

Lemma join_split_aux : forall s cur, join_with [x0a] (split_lf_aux cur s) = rev cur ++ s.
Proof.
  induction s as [|b t IH]; intros cur; cbn [split_lf_aux].
  - cbn. now rewrite app_nil_r.
  - destruct (is_lf b) eqn:Eb.
    + apply is_lf_x0a in Eb. subst b. specialize (IH []).
      destruct (split_lf_aux [] t) as [|y ys] eqn:Es; [ exfalso; exact (split_aux_nonempty [] t Es) | ].
      change (join_with [x0a] (rev cur :: y :: ys)) with (rev cur ++ [x0a] ++ join_with [x0a] (y :: ys)).
      rewrite IH. reflexivity.
    + rewrite IH. cbn [rev]. now rewrite <- app_assoc.
Qed.

Lemma join_split s : join_with [x0a] (split_lf s) = s.
Proof. unfold split_lf. now rewrite join_split_aux. Qed.

Lemma index_cut : forall s i,
  str_index_from s 10 i = match cut_lf s with None => -1 | Some (a, _) => i + Z.of_nat (length a) end.
Proof.
  induction s as [|b t IH]; intros i; cbn [str_index_from cut_lf]; [reflexivity|].
  unfold is_lf. destruct (bz b =? 10) eqn:Eb.
  - cbn [length]. lia.
  - rewrite IH. destruct (cut_lf t) as [[a r]|]; cbn [length]; lia.
Qed.

Lemma cut_app : forall s a r, cut_lf s = Some (a, r) -> s = a ++ x0a :: r.
Proof.
  induction s as [|b t IH]; intros a r H; cbn [cut_lf] in H; [discriminate|].
  destruct (is_lf b) eqn:Eb.
  - injection H as <- <-. apply is_lf_x0a in Eb. now subst b.
  - destruct (cut_lf t) as [[a' r']|] eqn:Ec; [|discriminate]. injection H as <- <-.
    cbn [app]. f_equal. now apply IH.
Qed.

Lemma prefix_app (a : bytes) c r : str_prefix (a ++ c :: r) (0 + Z.of_nat (length a)) = Some a.
Proof.
  unfold str_prefix. rewrite app_length. cbn [length].
  destruct ((0 + Z.of_nat (length a) <? 0) || (Z.of_nat (length a + S (length r)) <? 0 + Z.of_nat (length a))) eqn:E; [lia|].
  replace (Z.to_nat (0 + Z.of_nat (length a))) with (length a + 0)%nat by lia.
  rewrite firstn_app_2. cbn. now rewrite app_nil_r.
Qed.

Lemma suffix_app (a : bytes) c r : str_suffix (a ++ c :: r) (0 + Z.of_nat (length a) + 1) = Some r.
Proof.
  unfold str_suffix. rewrite app_length. cbn [length].
  destruct ((0 + Z.of_nat (length a) + 1 <? 0) || (Z.of_nat (length a + S (length r)) <? 0 + Z.of_nat (length a) + 1)) eqn:E; [lia|].
  replace (Z.to_nat (0 + Z.of_nat (length a) + 1)) with (length a + 1)%nat by lia.
  rewrite skipn_app. rewrite skipn_all2 by lia.
  replace (length a + 1 - length a)%nat with 1%nat by lia. reflexivity.
Qed.

(* the two middle steps, on a text whose trailing line ends were already dealt with *)
Definition split_tail (s : bytes) (eol : bool) : bytes * bytes * bool :=
  match split_lf s with
  | first :: (_ :: _) as rest => (first, join_with [x0a] rest, eol)
  | [first] => (first, [], eol)
  | [] => ([], [], eol)
  end.

Lemma split_tail_cut s eol :
  split_tail s eol = match cut_lf s with None => (s, [], eol) | Some (a, r) => (a, r, eol) end.
Proof.
  unfold split_tail. rewrite split_cut. destruct (cut_lf s) as [[a r]|]; [|reflexivity].
  pose proof (join_split r) as J. unfold split_lf in *.
  destruct (split_lf_aux [] r) as [|y ys] eqn:Es; [ exfalso; exact (split_aux_nonempty [] r Es) | ].
  now rewrite J.
Qed.

Lemma in_set_crlf b : in_set [x0a; x0d] b = is_crlf b.
Proof.
  unfold in_set, is_crlf. cbn [existsb]. change (bz x0a) with 10. change (bz x0d) with 13.
  rewrite orb_false_r. rewrite (Z.eqb_sym 10), (Z.eqb_sym 13). reflexivity.
Qed.

Lemma drop_while_ext {A} (f g : A -> bool) : (forall x, f x = g x) -> forall l, drop_while f l = drop_while g l.
Proof. intros H. induction l as [|x t IH]; cbn; [reflexivity|]. rewrite H. now rewrite IH. Qed.

Lemma trim_crlf s : str_trim_right s [x0a; x0d] = trim_right_crlf s.
Proof. unfold str_trim_right, trim_right_crlf. f_equal. apply drop_while_ext. apply in_set_crlf. Qed.

Lemma str_at_last (r : bytes) b :
  str_at (r ++ [b]) (Z.of_nat (length (r ++ [b])) - 1) = Some (bz b).
Proof.
  unfold str_at. rewrite app_length. cbn [length].
  destruct (Z.of_nat (length r + 1) - 1 <? 0) eqn:E; [lia|].
  replace (Z.to_nat (Z.of_nat (length r + 1) - 1)) with (length r + 0)%nat by lia.
  rewrite nth_error_app2 by lia. replace (length r + 0 - length r)%nat with 0%nat by lia. reflexivity.
Qed.

Lemma split_first_rest_tail msg :
  split_first_rest msg =
  match msg with
  | [] => ([], [], false)
  | _ => let eol := match rev msg with b :: _ => is_lf b | [] => false end in
         split_tail (if eol then trim_right_crlf msg else msg) eol
  end.
Proof. destruct msg; reflexivity. Qed.

Lemma nonempty_snoc (s : bytes) : s <> [] -> exists r b, s = r ++ [b].
Proof.
  intros H. destruct (rev s) as [|b r] eqn:Er.
  - exfalso. apply H. rewrite <- (rev_involutive s), Er. reflexivity.
  - exists (rev r), b. rewrite <- (rev_involutive s), Er. reflexivity.
Qed.

Lemma split_first_rest_snoc r b :
  split_first_rest (r ++ [b]) =
  split_tail (if is_lf b then trim_right_crlf (r ++ [b]) else r ++ [b]) (is_lf b).
Proof.
  rewrite split_first_rest_tail. destruct (r ++ [b]) as [|c t] eqn:E.
  - destruct r; discriminate.
  - rewrite <- E. rewrite rev_unit. reflexivity.
Qed.

Lemma bytes_eqb_snoc_nil (r : bytes) b : bytes_eqb (r ++ [b]) [] = false.
Proof. destruct r; reflexivity. Qed.

(* one tactic, so that a site that left the fragment (the definition is then the reference itself) is
   closed by the first alternative *)
Lemma gen_split_first_rest str : Colors.split_first_rest str = Some (split_first_rest str).
Proof.
  first [ reflexivity
        | destruct str as [|b0 t0]; [ reflexivity | ];
          destruct (nonempty_snoc (b0 :: t0)) as [r [b Hs]]; [ discriminate | ];
          rewrite Hs; rewrite split_first_rest_snoc; unfold Colors.split_first_rest;
          rewrite bytes_eqb_snoc_nil; cbn [negb]; rewrite str_at_last; cbv zeta; unfold is_lf;
          rewrite trim_crlf, split_tail_cut; unfold str_index_byte; rewrite index_cut;
          destruct (cut_lf _) as [[a r']|] eqn:Ec; [ | reflexivity ];
          (destruct (0 <=? 0 + Z.of_nat (length a)) eqn:E; [ | lia ]);
          rewrite (cut_app _ _ _ Ec), prefix_app, suffix_app; reflexivity ].
Qed.
