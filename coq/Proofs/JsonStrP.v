(* Token-level lemmas for C04: the JSON string parser reads back what
   appendEscapedJSONString wrote (ALL byte strings), plain text between quotes,
   decimal integers are number tokens, literals. *)
Require Import Verif.Model.Base Verif.Model.Dec Verif.Model.Utf8 Verif.Model.Quote Verif.Model.JsonEsc Verif.Model.Json.
Require Import Verif.Proofs.Utf8P Verif.Proofs.QuoteP Verif.Proofs.EscP.
Ltac Zify.zify_post_hook ::= Z.div_mod_to_equations.

Lemma byte_of_bz b n : bz b = n -> b = zb n.
Proof. intros <-. symmetry. apply zb_bz. Qed.

(* ---------- pstr: unfolding lemmas (abstract arguments, by computation) ---------- *)
Lemma pstr_skip k : forall s, (k <= length s)%nat -> pstr k s = pstr 0 (skipn k s).
Proof.
  induction k as [|k IH]; intros [|b t] H; cbn [pstr skipn]; auto; cbn [length] in H; try lia.
  apply IH. lia.
Qed.

Lemma pstr_quote t : pstr 0 (x22 :: t) = Some ([], t).
Proof. reflexivity. Qed.

Lemma pstr_copy c t : 32 <= bz c < 128 -> bz c <> 34 -> bz c <> 92 -> pstr 0 (c :: t) = consp [c] (pstr 0 t).
Proof.
  intros H1 H2 H3. cbn [pstr].
  replace (bz c =? 34) with false by lia. replace (bz c <? 32) with false by lia.
  replace (bz c =? 92) with false by lia. replace (bz c <? 128) with true by lia. reflexivity.
Qed.

Lemma pstr_raw c t : 128 <= bz c ->
  pstr 0 (c :: t) = let '(r, w) := decode_rune (c :: t) in consp (encode_rune r) (pstr (w - 1) t).
Proof.
  intros H. cbn [pstr].
  replace (bz c =? 34) with false by lia. replace (bz c <? 32) with false by lia.
  replace (bz c =? 92) with false by lia. replace (bz c <? 128) with false by lia. reflexivity.
Qed.

Lemma pstr_esc_quote t : pstr 0 (x5c :: x22 :: t) = consp [x22] (pstr 0 t).
Proof. reflexivity. Qed.
Lemma pstr_esc_bs t : pstr 0 (x5c :: x5c :: t) = consp [x5c] (pstr 0 t).
Proof. reflexivity. Qed.
Lemma pstr_esc_n t : pstr 0 (x5c :: x6e :: t) = consp [x0a] (pstr 0 t).
Proof. reflexivity. Qed.
Lemma pstr_esc_r t : pstr 0 (x5c :: x72 :: t) = consp [x0d] (pstr 0 t).
Proof. reflexivity. Qed.
Lemma pstr_esc_t t : pstr 0 (x5c :: x74 :: t) = consp [x09] (pstr 0 t).
Proof. reflexivity. Qed.

(* a \uXXXX escape of a code point outside the surrogate range *)
Lemma pstr_esc_u t' : forall v t'',
  unhexn 4 0 t' = Some (v, t'') -> is_hi_sur v = false ->
  pstr 0 (x5c :: x75 :: t') = consp (encode_rune v) (pstr 5 (x75 :: t')).
Proof. intros v t'' U S. cbn [pstr]. change (bz x5c =? 34) with false. change (bz x5c <? 32) with false.
  change (bz x5c =? 92) with true. change (bz x75 =? 34) with false. change (bz x75 =? 92) with false.
  change (bz x75 =? 47) with false. change (bz x75 =? 98) with false. change (bz x75 =? 102) with false.
  change (bz x75 =? 110) with false. change (bz x75 =? 114) with false. change (bz x75 =? 116) with false.
  change (bz x75 =? 117) with true. cbv iota. rewrite U, S. reflexivity.
Qed.

Lemma pstr_u4 h1 h2 h3 h4 more v :
  unhexn 4 0 (h1 :: h2 :: h3 :: h4 :: more) = Some (v, more) -> is_hi_sur v = false ->
  pstr 0 (x5c :: x75 :: h1 :: h2 :: h3 :: h4 :: more) = consp (encode_rune v) (pstr 0 more).
Proof.
  intros U S. rewrite (pstr_esc_u _ _ _ U S). rewrite pstr_skip by (cbn [length]; lia). reflexivity.
Qed.

(* ---------- one escaped chunk reads back as the original bytes ---------- *)
Definition sstep (chunk orig : bytes) : Prop :=
  forall more, pstr 0 (chunk ++ more) = consp orig (pstr 0 more).

Lemma hexn4_small n : 0 <= n < 256 -> hexn 4 n = x30 :: x30 :: hexn 2 n.
Proof.
  intros H. cbn [hexn]. change (16 ^ Z.of_nat 3) with 4096. change (16 ^ Z.of_nat 2) with 256.
  replace (n / 4096) with 0 by lia. replace (n / 256) with 0 by lia. reflexivity.
Qed.

Lemma sstep_ascii b : bz b < 128 -> sstep (json_esc_ascii b) [b].
Proof.
  intros Hb more. pose proof (bz_range b) as R. unfold json_esc_ascii, json_safe.
  destruct ((32 <=? bz b) && (bz b <? 128) && negb (bz b =? 34) && negb (bz b =? 92)) eqn:E.
  { cbn [app]. apply pstr_copy; lia. }
  destruct ((bz b =? 92) || (bz b =? 34)) eqn:E1.
  { assert (bz b = 92 \/ bz b = 34) as [H|H] by lia; apply byte_of_bz in H; subst b; cbn [app].
    - apply pstr_esc_bs.
    - apply pstr_esc_quote. }
  destruct (bz b =? 10) eqn:E2. { assert (H : bz b = 10) by lia. apply byte_of_bz in H. subst b. apply pstr_esc_n. }
  destruct (bz b =? 13) eqn:E3. { assert (H : bz b = 13) by lia. apply byte_of_bz in H. subst b. apply pstr_esc_r. }
  destruct (bz b =? 9) eqn:E4. { assert (H : bz b = 9) by lia. apply byte_of_bz in H. subst b. apply pstr_esc_t. }
  (* \u00XX *)
  assert (Hlt : 0 <= bz b < 32) by lia.
  pose proof (unhexn_hexn 4 (bz b) 0 more ltac:(lia)) as U.
  change (16 ^ Z.of_nat 4) with 65536 in U. rewrite Z.mod_small in U by lia.
  replace (0 * 65536 + bz b) with (bz b) in U by lia.
  rewrite hexn4_small in U by lia. rewrite hexn2 in *. cbn [app] in *.
  rewrite (pstr_u4 _ _ _ _ _ _ U) by (unfold is_hi_sur; lia).
  rewrite encode_rune_ascii by lia. rewrite zb_bz. reflexivity.
Qed.

Lemma unhexn4_fffd more : unhexn 4 0 (x66 :: x66 :: x66 :: x64 :: more) = Some (65533, more).
Proof. reflexivity. Qed.
Lemma unhexn4_2028 more : unhexn 4 0 (x32 :: x30 :: x32 :: x38 :: more) = Some (8232, more).
Proof. reflexivity. Qed.
Lemma unhexn4_2029 more : unhexn 4 0 (x32 :: x30 :: x32 :: x39 :: more) = Some (8233, more).
Proof. reflexivity. Qed.
Lemma encode_fffd : encode_rune 65533 = [xef; xbf; xbd].
Proof. reflexivity. Qed.

Lemma sstep_fffd : sstep [x5c; x75; x66; x66; x66; x64] [xef; xbf; xbd].
Proof. intros more. cbn [app]. rewrite (pstr_u4 _ _ _ _ _ _ (unhexn4_fffd more)) by reflexivity. rewrite encode_fffd. reflexivity. Qed.

Lemma sstep_line_sep r : r = 8232 \/ r = 8233 -> sstep [x5c; x75; x32; x30; x32; hexd (r mod 16)] (encode_rune r).
Proof.
  intros [-> | ->] more.
  - change (hexd (8232 mod 16)) with x38. cbn [app]. rewrite (pstr_u4 _ _ _ _ _ _ (unhexn4_2028 more)) by reflexivity. reflexivity.
  - change (hexd (8233 mod 16)) with x39. cbn [app]. rewrite (pstr_u4 _ _ _ _ _ _ (unhexn4_2029 more)) by reflexivity. reflexivity.
Qed.

(* (QuoteP.encode_rune_head is stated inside a section with the IsPrint hypothesis) *)
Lemma encode_rune_head' r : 128 <= r -> valid_rune r = true ->
  exists c t, encode_rune r = c :: t /\ 128 <= bz c.
Proof.
  intros H V. pose proof (valid_rune_range r V). unfold encode_rune.
  replace ((0 <=? r) && (r <? 128)) with false by lia.
  destruct ((0 <=? r) && (r <? 2048)) eqn:E.
  { eexists _, _; split; [reflexivity|]. rewrite bz_zb by lia. lia. }
  rewrite V. cbn [negb]. destruct (r <? 65536) eqn:E2.
  { eexists _, _; split; [reflexivity|]. rewrite bz_zb by lia. lia. }
  { eexists _, _; split; [reflexivity|]. rewrite bz_zb by lia. lia. }
Qed.

(* a valid multi-byte rune copied verbatim *)
Lemma sstep_multibyte r : 128 <= r -> valid_rune r = true -> sstep (encode_rune r) (encode_rune r).
Proof.
  intros H V more. destruct (encode_rune_head' r H V) as (c & t & E & Hc).
  pose proof (decode_encode r more V) as D. rewrite E in *. rewrite <- app_comm_cons in *.
  rewrite pstr_raw by assumption. rewrite D. cbn [length]. rewrite Nat.sub_succ, Nat.sub_0_r.
  rewrite pstr_skip by (rewrite app_length; lia).
  rewrite skipn_app, skipn_all, Nat.sub_diag. cbn [skipn app]. rewrite E. reflexivity.
Qed.

(* ---------- fixu ---------- *)
Lemma fixu_skip k : forall s, (k <= length s)%nat -> fixu_aux k s = firstn k s ++ fixu_aux 0 (skipn k s).
Proof.
  induction k as [|k IH]; intros s Hk; [reflexivity|].
  destruct s as [|b t]; [cbn in Hk; lia|]. cbn [fixu_aux firstn skipn app]. f_equal. apply IH. cbn in Hk. lia.
Qed.

Lemma fixu_cons b t :
  fixu_aux 0 (b :: t) =
  let '(r, w) := decode_rune (b :: t) in
  if (r =? RuneError) && Nat.eqb w 1 then [xef; xbf; xbd] ++ fixu_aux 0 t else b :: fixu_aux (w - 1) t.
Proof. reflexivity. Qed.

Lemma fixu_ascii b t : bz b < 128 -> fixu_aux 0 (b :: t) = b :: fixu_aux 0 t.
Proof.
  intros H. rewrite fixu_cons. rewrite decode_ascii by lia.
  replace ((bz b =? RuneError) && Nat.eqb 1 1) with false by (unfold RuneError; lia). reflexivity.
Qed.

(* valid UTF-8 is kept byte-for-byte *)
Lemma fixu_valid_aux : forall s k, valid_aux k s = true -> fixu_aux k s = s.
Proof.
  induction s as [|b t IH]; intros k H; [destruct k; reflexivity|].
  destruct k as [|k].
  - rewrite fixu_cons. cbn [valid_aux] in H. destruct (decode_rune (b :: t)) as [r w].
    destruct ((r =? RuneError) && Nat.eqb w 1); [discriminate|]. f_equal. apply IH. exact H.
  - cbn [fixu_aux valid_aux] in *. f_equal. apply IH. exact H.
Qed.
Lemma fixu_valid s : valid_utf8b s = true -> fixu s = s.
Proof. apply fixu_valid_aux. Qed.

(* ---------- the string round trip ---------- *)
Lemma firstn_S_cons {A} w (b : A) t : (1 <= w)%nat -> firstn w (b :: t) = b :: firstn (w - 1) t.
Proof. intros H. destruct w as [|w']; [lia|]. rewrite Nat.sub_succ, Nat.sub_0_r. reflexivity. Qed.

Lemma jesc_roundtrip : forall n s, (length s <= n)%nat -> forall rest,
  pstr 0 (jesc 0 true s ++ x22 :: rest) = Some (fixu_aux 0 s, rest).
Proof.
  induction n as [|n IH]; intros s Hn rest.
  { destruct s; [reflexivity|cbn in Hn; lia]. }
  destruct s as [|b t]; [reflexivity|]. cbn [length] in Hn. cbn [jesc].
  destruct (bz b <? 128) eqn:A.
  { rewrite <- app_assoc. rewrite (sstep_ascii b ltac:(lia)). rewrite IH by lia.
    rewrite fixu_ascii by lia. reflexivity. }
  rewrite fixu_cons.
  destruct (decode_rune (b :: t)) as [r w] eqn:D.
  pose proof (decode_width _ _ _ D ltac:(discriminate)) as W. cbn [length] in W.
  destruct ((r =? RuneError) && Nat.eqb w 1) eqn:E1.
  { rewrite <- app_assoc. rewrite sstep_fffd. rewrite IH by lia. reflexivity. }
  assert (NE : w <> 1%nat \/ r <> RuneError).
  { apply andb_false_iff in E1 as [E|E]; [right; lia|left; apply Nat.eqb_neq; exact E]. }
  destruct (encode_decode _ _ _ D NE ltac:(lia)) as [EQ V].
  assert (IHt : pstr 0 (jesc 0 true (skipn (w - 1) t) ++ x22 :: rest) = Some (fixu_aux 0 (skipn (w - 1) t), rest)).
  { apply IH. rewrite skipn_length. lia. }
  rewrite fixu_skip by lia.
  rewrite firstn_S_cons in EQ by lia.
  destruct ((r =? 8232) || (r =? 8233)) eqn:E2.
  { rewrite <- app_assoc. rewrite (sstep_line_sep r ltac:(lia)).
    rewrite jesc_drop by lia. rewrite jesc0_flag. rewrite IHt. rewrite EQ. reflexivity. }
  rewrite jesc_skip_emit by lia.
  assert (H128 : 128 <= r).
  { destruct (Z_lt_ge_dec r 128) as [L|G]; [|lia]. exfalso.
    pose proof (valid_rune_range r V) as R. rewrite encode_rune_ascii in EQ by lia.
    assert (E' : zb r = b) by (inversion EQ; reflexivity). pose proof (f_equal bz E') as E3. rewrite bz_zb in E3 by lia. lia. }
  change (b :: firstn (w - 1) t ++ jesc 0 true (skipn (w - 1) t)) with ((b :: firstn (w - 1) t) ++ jesc 0 true (skipn (w - 1) t)).
  rewrite <- EQ. rewrite <- app_assoc. rewrite (sstep_multibyte r H128 V). rewrite IHt. cbn [consp]. rewrite EQ. reflexivity.
Qed.

(* parsing the quoted form of ANY byte string gives the text a UTF-8 reader sees *)
Lemma pstr_json_escape s rest : pstr 0 (json_escape s ++ x22 :: rest) = Some (fixu s, rest).
Proof. apply (jesc_roundtrip (length s)). lia. Qed.

(* ---------- plain text between quotes ---------- *)
Lemma pstr_plain t : forall rest, plain_b t = true -> pstr 0 (t ++ x22 :: rest) = Some (t, rest).
Proof.
  induction t as [|c t IH]; intros rest H; [reflexivity|].
  cbn [plain_b forallb] in H. apply andb_prop in H as [Hc Ht]. unfold plain_byte in Hc.
  cbn [app]. rewrite pstr_copy by lia. rewrite (IH rest Ht). reflexivity.
Qed.

Lemma plain_noctl t : plain_b t = true -> Forall noctl t.
Proof.
  intros H. apply Forall_forall. intros b Hb. unfold plain_b in H. rewrite forallb_forall in H.
  specialize (H b Hb). unfold plain_byte in H. unfold noctl. lia.
Qed.

(* ---------- decimal integers ---------- *)
Lemma size_nat_bound p : Z.pos p < 2 ^ Z.of_nat (Pos.size_nat p).
Proof.
  induction p as [p IH|p IH|]; cbn [Pos.size_nat]; rewrite ?Nat2Z.inj_succ, ?Z.pow_succ_r by lia; lia.
Qed.

Lemma digit_byte_bz d : (d < 10)%N -> bz (digit_byte d) = 48 + Z.of_N d.
Proof. intros H. unfold digit_byte. apply bz_zb. lia. Qed.

Definition digits (l : bytes) : Prop := forallb is_digit l = true.

Lemma dec_fuel_shape : forall f n acc, Z.of_N n < 2 ^ Z.of_nat f ->
  exists d ds, dec_fuel (S f) n acc = d :: ds ++ acc /\ is_digit d = true /\ digits ds /\
               (n = 0%N -> ds = [] /\ bz d = 48) /\ (n <> 0%N -> bz d <> 48).
Proof.
  induction f as [|f IH]; intros n acc Hn.
  - assert (n = 0%N) by (change (2 ^ Z.of_nat 0) with 1 in Hn; lia). subst n.
    exists x30, []. split; [reflexivity|]. split; [reflexivity|]. split; [reflexivity|]. split; [intros _; split; reflexivity|congruence].
  - cbn [dec_fuel]. pose proof (N.mod_lt n 10 ltac:(lia)) as M.
    assert (Hd : bz (digit_byte (n mod 10)) = 48 + Z.of_N (n mod 10)) by (apply digit_byte_bz; exact M).
    assert (Hdig : is_digit (digit_byte (n mod 10)) = true).
    { unfold is_digit. rewrite Hd. set (m := (n mod 10)%N) in *. clearbody m. clear Hd. lia. }
    destruct (n / 10 =? 0)%N eqn:E.
    + exists (digit_byte (n mod 10)), []. cbn [app].
      split; [reflexivity|]. split; [exact Hdig|]. split; [reflexivity|]. split.
      * intros ->. split; [reflexivity|]. rewrite Hd. reflexivity.
      * intros N0. rewrite Hd. apply N.eqb_eq in E.
        assert (Hs : (n mod 10 = n)%N) by (apply N.mod_small; apply N.div_small_iff in E; lia).
        rewrite Hs. lia.
    + apply N.eqb_neq in E.
      assert (Hq : Z.of_N (n / 10) < 2 ^ Z.of_nat f).
      { rewrite Nat2Z.inj_succ, Z.pow_succ_r in Hn by lia. rewrite N2Z.inj_div. change (Z.of_N 10) with 10.
        pose proof (N2Z.is_nonneg n). lia. }
      destruct (IH (n / 10)%N (digit_byte (n mod 10) :: acc) Hq) as (d & ds & Eq & Dd & Dds & _ & Hnz).
      exists d, (ds ++ [digit_byte (n mod 10)]). rewrite <- app_assoc. cbn [app].
      split; [exact Eq|]. split; [exact Dd|]. split; [|split].
      * unfold digits. rewrite forallb_app. unfold digits in Dds. rewrite Dds. cbn [forallb].
        rewrite Hdig. reflexivity.
      * intros ->. exfalso. apply E. reflexivity.
      * intros _. apply Hnz. exact E.
Qed.

Lemma dec_of_N_shape n : exists d ds, dec_of_N n = d :: ds /\ is_digit d = true /\ digits ds /\
  (bz d = 48 -> ds = []).
Proof.
  unfold dec_of_N.
  assert (B : Z.of_N n < 2 ^ Z.of_nat (N.size_nat n)).
  { destruct n as [|p]; [cbn; lia|]. cbn [N.size_nat Z.of_N]. apply size_nat_bound. }
  destruct (dec_fuel_shape _ n [] B) as (d & ds & E & Dd & Dds & H0 & Hnz).
  exists d, ds. rewrite E, app_nil_r. repeat split; try assumption.
  intros H48. destruct (N.eq_dec n 0) as [->|N0]; [apply H0; reflexivity|]. exfalso. apply (Hnz N0). exact H48.
Qed.

(* where a number token may end: not before a digit, a point or an exponent mark *)
Definition stop_b (rest : bytes) : bool :=
  match rest with
  | [] => true
  | c :: _ => negb (is_digit c) && negb (bz c =? 46) && negb (bz c =? 101) && negb (bz c =? 69)
  end.

Lemma span_digits_app ds : forall rest, digits ds ->
  (match rest with c :: _ => is_digit c = false | [] => True end) ->
  span_digits (ds ++ rest) = (ds, rest).
Proof.
  induction ds as [|d ds IH]; intros rest Hd Hr.
  - cbn [app]. destruct rest as [|c t]; [reflexivity|]. cbn [span_digits]. rewrite Hr. reflexivity.
  - unfold digits in Hd. cbn [forallb] in Hd. apply andb_prop in Hd as [H1 H2].
    cbn [app span_digits]. rewrite H1. rewrite (IH rest H2 Hr). reflexivity.
Qed.

Lemma pnum_unsigned d ds rest : is_digit d = true -> digits ds -> (bz d = 48 -> ds = []) -> stop_b rest = true ->
  forall sign, (match sign with [] => True | [c] => bz c = 45 | _ => False end) ->
  pnum (sign ++ d :: ds ++ rest) = Some (sign ++ d :: ds, rest).
Proof.
  intros Hd Hds H0 Hstop sign Hsign.
  assert (Hrd : match rest with c :: _ => is_digit c = false | [] => True end).
  { destruct rest as [|c t]; [exact I|]. cbn [stop_b] in Hstop. destruct (is_digit c); [discriminate|reflexivity]. }
  assert (Tail : forall ip,
    (let frac := match rest with
                | p :: t2 =>
                  if bz p =? 46
                  then let '(ds, r) := span_digits t2 in match ds with [] => None | _ => Some (p :: ds, r) end
                  else Some ([], rest)
                | [] => Some ([], rest)
                end in
    match frac with
    | None => None
    | Some (fp, s3) =>
      let ex := match s3 with
                | e :: t3 =>
                  if (bz e =? 101) || (bz e =? 69) then
                    let '(sg, t4) := match t3 with
                                     | c :: t' => if (bz c =? 43) || (bz c =? 45) then ([c], t') else ([], t3)
                                     | [] => ([], t3)
                                     end in
                    let '(ds, r) := span_digits t4 in
                    match ds with [] => None | _ => Some (e :: sg ++ ds, r) end
                  else Some ([], s3)
                | [] => Some ([], s3)
                end in
      match ex with
      | None => None
      | Some (ep, s4) => Some (sign ++ ip ++ fp ++ ep, s4)
      end
    end) = Some (sign ++ ip, rest)).
  { intros ip. destruct rest as [|c t]; cbv beta iota zeta.
    - rewrite !app_nil_r. reflexivity.
    - cbn [stop_b] in Hstop.
      replace (bz c =? 46) with false by lia. cbv beta iota zeta.
      replace ((bz c =? 101) || (bz c =? 69)) with false by lia. rewrite !app_nil_r. reflexivity. }
  assert (Core : pnum (sign ++ d :: ds ++ rest) =
                 (if negb (is_digit d) then None else
                  let '(ip, s2) := if bz d =? 48 then ([d], ds ++ rest) else let '(ds0, r) := span_digits (ds ++ rest) in (d :: ds0, r) in
                  let frac := match s2 with
                              | p :: t2 =>
                                if bz p =? 46
                                then let '(ds, r) := span_digits t2 in match ds with [] => None | _ => Some (p :: ds, r) end
                                else Some ([], s2)
                              | [] => Some ([], s2)
                              end in
                  match frac with
                  | None => None
                  | Some (fp, s3) =>
                    let ex := match s3 with
                              | e :: t3 =>
                                if (bz e =? 101) || (bz e =? 69) then
                                  let '(sg, t4) := match t3 with
                                                   | c :: t' => if (bz c =? 43) || (bz c =? 45) then ([c], t') else ([], t3)
                                                   | [] => ([], t3)
                                                   end in
                                  let '(ds, r) := span_digits t4 in
                                  match ds with [] => None | _ => Some (e :: sg ++ ds, r) end
                                else Some ([], s3)
                              | [] => Some ([], s3)
                              end in
                    match ex with
                    | None => None
                    | Some (ep, s4) => Some (sign ++ ip ++ fp ++ ep, s4)
                    end
                  end)).
  { destruct sign as [|c [|c2 sg]]; [| |destruct Hsign].
    - cbn [app]. unfold pnum. unfold is_digit in Hd. replace (bz d =? 45) with false by lia. reflexivity.
    - cbn [app]. unfold pnum. rewrite Hsign. reflexivity. }
  rewrite Core. rewrite Hd. cbn [negb].
  destruct (bz d =? 48) eqn:E48.
  - rewrite (H0 ltac:(lia)). cbn [app]. apply (Tail [d]).
  - rewrite (span_digits_app ds rest Hds Hrd). apply (Tail (d :: ds)).
Qed.

Lemma pnum_dec z rest : stop_b rest = true -> pnum (dec_of_Z z ++ rest) = Some (dec_of_Z z, rest).
Proof.
  intros Hstop. unfold dec_of_Z. destruct (z <? 0).
  - destruct (dec_of_N_shape (Z.to_N (- z))) as (d & ds & E & Hd & Hds & H0). rewrite E.
    change ((x2d :: d :: ds) ++ rest) with ([x2d] ++ d :: ds ++ rest).
    change (x2d :: d :: ds) with ([x2d] ++ d :: ds).
    apply pnum_unsigned; try assumption. reflexivity.
  - destruct (dec_of_N_shape (Z.to_N z)) as (d & ds & E & Hd & Hds & H0). rewrite E.
    change ((d :: ds) ++ rest) with ([] ++ d :: ds ++ rest).
    change (Some (d :: ds, rest)) with (Some ([] ++ d :: ds, rest)).
    apply pnum_unsigned; try assumption. exact I.
Qed.

(* the first byte of a decimal integer: a minus sign or a digit *)
Lemma dec_of_Z_head z : exists c t, dec_of_Z z = c :: t /\ (bz c = 45 \/ is_digit c = true).
Proof.
  unfold dec_of_Z. destruct (z <? 0).
  - eexists _, _. split; [reflexivity|left; reflexivity].
  - destruct (dec_of_N_shape (Z.to_N z)) as (d & ds & E & Hd & _). rewrite E. eexists _, _. split; [reflexivity|right; exact Hd].
Qed.

Lemma digit_plain b : is_digit b = true -> plain_byte b = true.
Proof. unfold is_digit, plain_byte. lia. Qed.

Lemma dec_of_Z_plain z : plain_b (dec_of_Z z) = true.
Proof.
  assert (H : forall n, plain_b (dec_of_N n) = true).
  { intros n. destruct (dec_of_N_shape n) as (d & ds & E & Hd & Hds & _). rewrite E.
    cbn [plain_b forallb]. rewrite (digit_plain d Hd). cbn [andb].
    apply forallb_forall. intros x Hx. unfold digits in Hds. rewrite forallb_forall in Hds. apply digit_plain. apply Hds. exact Hx. }
  unfold dec_of_Z. destruct (z <? 0); [|apply H].
  pose proof (H (Z.to_N (- z))) as Hn. unfold plain_b in *. cbn [forallb]. rewrite Hn. reflexivity.
Qed.
