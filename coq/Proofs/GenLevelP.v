(* The translations of Level.String, Level.ShortTag and ParseLevel regenerated from the source
   (Gen/LevelNames.v) against the functions of Model/Level.v, for every registry, level, length
   and name. *)
Require Import Verif.Model.Base Verif.Model.Decision Verif.Model.Dec Verif.Model.GoSem Verif.Model.Level
  Verif.Model.LevelRef.
Require Import Verif.Proofs.GenRouteP.
Require Verif.Gen.LevelNames.
Require Import Lia ZifyBool ZifyNat.

(* ---- the string primitives ---- *)
Lemma concat_repeat1 (b : byte) n : concat (repeat [b] n) = repeat b n.
Proof. induction n as [|n IH]; cbn; [reflexivity|rewrite IH; reflexivity]. Qed.

Lemma str_repeat1 (b : byte) n : 0 <= n -> str_repeat [b] n = Some (repeat b (Z.to_nat n)).
Proof.
  intros H. unfold str_repeat. destruct (n <? 0) eqn:E; [lia|]. rewrite concat_repeat1. reflexivity.
Qed.

Lemma str_prefix_ok (s : bytes) n : 0 <= n -> (Z.to_nat n <= length s)%nat ->
  str_prefix s n = Some (firstn (Z.to_nat n) s).
Proof.
  intros H0 H1. unfold str_prefix.
  destruct ((n <? 0) || (Z.of_nat (length s) <? n)) eqn:E; [lia|reflexivity].
Qed.

Lemma gen_level_string : forall g l, LevelNames.level_string (r_l2s g) l = Level.level_string g l.
Proof.
  intros g l.
  first
    [ reflexivity
    | unfold LevelNames.level_string, Level.level_string; cbv zeta;
      repeat (gen_split; gen_inj; try reflexivity; try discriminate; try congruence) ].
Qed.

(* the comparisons of the code are on Z (len(t) against length), those of the model on nat *)
Lemma gen_short_tag : forall g n l, LevelNames.short_tag (r_tags g) (r_l2s g) l n = Level.short_tag g n l.
Proof.
  intros g n l.
  first
    [ reflexivity
    | unfold LevelNames.short_tag, Level.short_tag; cbv zeta; rewrite ?gen_level_string;
      destruct ((n <=? 0) || (6 <=? n)) eqn:En; [reflexivity|];
      assert (Hn : 0 <= n) by lia;
      rewrite ?(str_repeat1 _ n Hn);
      set (t := Level.level_string g l);
      assert (Ht : forall t' : bytes, (Z.to_nat n <= length (t' ++ repeat x20 (Z.to_nat n)))%nat)
        by (intros t'; rewrite app_length, repeat_length; lia);
      rewrite ?(str_prefix_ok _ n Hn (Ht _));
      destruct (Nat.ltb (length t) (Z.to_nat n)) eqn:Elt;
      destruct (Nat.eqb (length t) (Z.to_nat n)) eqn:Eeq;
      try (rewrite (str_prefix_ok t n Hn) by lia);
      repeat (gen_split; gen_inj; cbn [List.length Z.of_nat] in *; try reflexivity; try discriminate; try lia);
      try (f_equal; apply firstn_all2; cbn [List.length]; lia) ].
Qed.

Lemma gen_parse_level : forall g s tr,
  LevelNames.parse_level (r_s2l g) s tr =
  match Level.parse_level g s with
  | Some l => (l, None, tr)
  | None => (0, Some tt, tr ++ [EvWarnUnknown s])
  end.
Proof.
  intros g s tr.
  first
    [ reflexivity
    | unfold LevelNames.parse_level, Level.parse_level; cbv zeta;
      repeat (gen_split; gen_inj; try reflexivity; try discriminate; try congruence) ].
Qed.

(* Level.UnmarshalText: ParseLevel of the text and nothing else; the receiver is written iff the name is known *)
Lemma gen_unmarshal_text : forall g level s tr,
  LevelNames.unmarshal_text (r_s2l g) level s tr =
  match Level.parse_level g s with
  | Some l => (None, l, tr)
  | None => (Some tt, level, tr ++ [EvWarnUnknown s])
  end.
Proof.
  intros g level s tr.
  first
    [ unfold LevelNames.unmarshal_text; rewrite gen_parse_level; destruct (Level.parse_level g s); reflexivity
    | unfold LevelNames.unmarshal_text, unmarshal_text_ref; destruct (Level.parse_level _ s) eqn:E; reflexivity ].
Qed.

(* Level.MarshalText: the registered name, or an error for a level without one *)
Lemma gen_marshal_text : forall g l,
  LevelNames.marshal_text (r_l2s g) l =
  match Level.marshal_text g l with Some s => (s, None) | None => ([], Some tt) end.
Proof.
  intros g l.
  first [ reflexivity
        | unfold LevelNames.marshal_text, marshal_text_ref, Level.marshal_text;
          destruct (lookupZ (r_l2s g) l); reflexivity ].
Qed.
