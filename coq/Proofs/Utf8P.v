(* Lemmas about Model/Utf8.v. *)
Require Import Verif.Model.Base Verif.Model.Utf8.
Ltac Zify.zify_post_hook ::= Z.div_mod_to_equations.

Lemma bz_range b : 0 <= bz b < 256.
Proof. unfold bz. pose proof (Byte.to_N_bounded b). lia. Qed.

Lemma zb_bz b : zb (bz b) = b.
Proof. unfold zb, bz. rewrite N2Z.id, Byte.of_to_N. reflexivity. Qed.

Lemma bz_zb z : 0 <= z < 256 -> bz (zb z) = z.
Proof.
  intros H. unfold zb, bz.
  destruct (Byte.of_N (Z.to_N z)) eqn:E.
  - apply Byte.to_of_N in E. rewrite E. lia.
  - apply Byte.of_N_None_iff in E. lia.
Qed.



(* decode of a successfully decoded multi-byte sequence re-encodes to the same bytes *)
Lemma encode_decode s r w :
  decode_rune s = (r, w) -> (w <> 1%nat \/ r <> RuneError) -> w <> 0%nat ->
  encode_rune r = firstn w s /\ valid_rune r = true.
Proof.
  unfold decode_rune. destruct s as [|b0 t]; [intros H; inversion H; intros; congruence|].
  pose proof (bz_range b0) as R0.
  destruct (bz b0 <? 128) eqn:E0.
  { intros H _ _. inversion H; subst. unfold encode_rune, valid_rune.
    replace ((0 <=? bz b0) && (bz b0 <? 128)) with true by lia.
    cbn [firstn]. rewrite zb_bz. split; [reflexivity|lia]. }
  destruct ((194 <=? bz b0) && (bz b0 <=? 223)) eqn:E1.
  { destruct t as [|b1 t]; [intros H; inversion H; subst; intros [?|?] ?; congruence|].
    pose proof (bz_range b1) as R1. unfold cont.
    destruct ((128 <=? bz b1) && (bz b1 <=? 191)) eqn:C1; [|intros H; inversion H; subst; intros [?|?] ?; congruence].
    intros H _ _. inversion H; subst. unfold encode_rune, valid_rune.
    set (r := (bz b0 - 192) * 64 + (bz b1 - 128)).
    assert (Hr: 128 <= r < 2048) by (unfold r; lia).
    replace ((0 <=? r) && (r <? 128)) with false by lia.
    replace ((0 <=? r) && (r <? 2048)) with true by lia.
    cbn [firstn negb]. split; [|lia].
    replace (192 + r / 64) with (bz b0) by (unfold r; lia).
    replace (128 + r mod 64) with (bz b1) by (unfold r; lia).
    rewrite !zb_bz. reflexivity. }
  destruct ((224 <=? bz b0) && (bz b0 <=? 239)) eqn:E2.
  { destruct t as [|b1 [|b2 t]]; try (intros H; inversion H; subst; intros [?|?] ?; congruence).
    pose proof (bz_range b1) as R1. pose proof (bz_range b2) as R2. unfold inr, cont.
    match goal with |- context [if ?c then _ else _] => destruct c eqn:C end;
      [|intros H; inversion H; subst; intros [?|?] ?; congruence].
    intros H _ _. inversion H; subst. unfold encode_rune, valid_rune.
    set (r := (bz b0 - 224) * 4096 + (bz b1 - 128) * 64 + (bz b2 - 128)).
    assert (Hr: 2048 <= r < 65536 /\ (r < 55296 \/ 57343 < r)).
    { unfold r. destruct (bz b0 =? 224) eqn:?, (bz b0 =? 237) eqn:?; lia. }
    replace ((0 <=? r) && (r <? 128)) with false by lia.
    replace ((0 <=? r) && (r <? 2048)) with false by lia.
    replace (((0 <=? r) && (r <? 55296)) || ((57343 <? r) && (r <=? 1114111))) with true by lia.
    replace (r <? 65536) with true by lia.
    cbn [firstn negb]. split; [|reflexivity].
    replace (224 + r / 4096) with (bz b0) by (unfold r; destruct (bz b0 =? 224) eqn:?, (bz b0 =? 237) eqn:?; lia).
    replace (128 + (r / 64) mod 64) with (bz b1) by (unfold r; destruct (bz b0 =? 224) eqn:?, (bz b0 =? 237) eqn:?; lia).
    replace (128 + r mod 64) with (bz b2) by (unfold r; destruct (bz b0 =? 224) eqn:?, (bz b0 =? 237) eqn:?; lia).
    rewrite !zb_bz. reflexivity. }
  destruct ((240 <=? bz b0) && (bz b0 <=? 244)) eqn:E3.
  { destruct t as [|b1 [|b2 [|b3 t]]]; try (intros H; inversion H; subst; intros [?|?] ?; congruence).
    pose proof (bz_range b1) as R1. pose proof (bz_range b2) as R2. pose proof (bz_range b3) as R3.
    unfold inr, cont.
    match goal with |- context [if ?c then _ else _] => destruct c eqn:C end;
      [|intros H; inversion H; subst; intros [?|?] ?; congruence].
    intros H _ _. inversion H; subst. unfold encode_rune, valid_rune.
    set (r := (bz b0 - 240) * 262144 + (bz b1 - 128) * 4096 + (bz b2 - 128) * 64 + (bz b3 - 128)).
    assert (Hr: 65536 <= r <= 1114111).
    { unfold r. destruct (bz b0 =? 240) eqn:?, (bz b0 =? 244) eqn:?; lia. }
    replace ((0 <=? r) && (r <? 128)) with false by lia.
    replace ((0 <=? r) && (r <? 2048)) with false by lia.
    replace (((0 <=? r) && (r <? 55296)) || ((57343 <? r) && (r <=? 1114111))) with true by lia.
    replace (r <? 65536) with false by lia.
    cbn [firstn negb]. split; [|reflexivity].
    replace (240 + r / 262144) with (bz b0) by (unfold r; destruct (bz b0 =? 240) eqn:?, (bz b0 =? 244) eqn:?; lia).
    replace (128 + (r / 4096) mod 64) with (bz b1) by (unfold r; destruct (bz b0 =? 240) eqn:?, (bz b0 =? 244) eqn:?; lia).
    replace (128 + (r / 64) mod 64) with (bz b2) by (unfold r; destruct (bz b0 =? 240) eqn:?, (bz b0 =? 244) eqn:?; lia).
    replace (128 + r mod 64) with (bz b3) by (unfold r; destruct (bz b0 =? 240) eqn:?, (bz b0 =? 244) eqn:?; lia).
    rewrite !zb_bz. reflexivity. }
  intros H; inversion H; subst; intros [?|?] ?; congruence.
Qed.

Lemma decode_width s r w : decode_rune s = (r, w) -> s <> [] -> (1 <= w <= length s)%nat.
Proof.
  unfold decode_rune. destruct s as [|b0 t]; [congruence|]. intros H _.
  repeat match type of H with
  | (if ?c then _ else _) = _ => destruct c
  | (match ?t with _ => _ end) = _ => destruct t
  | (let _ := _ in _) = _ => cbv zeta in H
  end; inversion H; subst; cbn [length]; lia.
Qed.

Lemma decode_encode r rest : valid_rune r = true ->
  decode_rune (encode_rune r ++ rest) = (r, length (encode_rune r)).
Proof.
  unfold valid_rune, encode_rune. intros V.
  destruct ((0 <=? r) && (r <? 128)) eqn:E1.
  { cbn [app length]. unfold decode_rune. rewrite bz_zb by lia. replace (r <? 128) with true by lia. reflexivity. }
  destruct ((0 <=? r) && (r <? 2048)) eqn:E2.
  { cbn [app length]. unfold decode_rune, cont. rewrite !bz_zb by lia.
    replace (192 + r / 64 <? 128) with false by lia.
    replace ((194 <=? 192 + r / 64) && (192 + r / 64 <=? 223)) with true by lia.
    replace ((128 <=? 128 + r mod 64) && (128 + r mod 64 <=? 191)) with true by lia.
    f_equal. lia. }
  unfold valid_rune. rewrite V. cbn [negb].
  destruct (r <? 65536) eqn:E3.
  { cbn [app length]. unfold decode_rune, cont, inr. rewrite !bz_zb by lia.
    replace (224 + r / 4096 <? 128) with false by lia.
    replace ((194 <=? 224 + r / 4096) && (224 + r / 4096 <=? 223)) with false by lia.
    replace ((224 <=? 224 + r / 4096) && (224 + r / 4096 <=? 239)) with true by lia.
    destruct (224 + r / 4096 =? 224) eqn:A, (224 + r / 4096 =? 237) eqn:B;
    match goal with |- (if ?c then _ else _) = _ => replace c with true by lia end; f_equal; lia. }
  { cbn [app length]. unfold decode_rune, cont, inr. rewrite !bz_zb by lia.
    replace (240 + r / 262144 <? 128) with false by lia.
    replace ((194 <=? 240 + r / 262144) && (240 + r / 262144 <=? 223)) with false by lia.
    replace ((224 <=? 240 + r / 262144) && (240 + r / 262144 <=? 239)) with false by lia.
    replace ((240 <=? 240 + r / 262144) && (240 + r / 262144 <=? 244)) with true by lia.
    destruct (240 + r / 262144 =? 240) eqn:A, (240 + r / 262144 =? 244) eqn:B;
    match goal with |- (if ?c then _ else _) = _ => replace c with true by lia end; f_equal; lia. }
Qed.

(* ---- used by the buffer proofs (C19) ---- *)
Lemma decode_width4 s r w : decode_rune s = (r, w) -> s <> [] ->
  (1 <= w <= length s)%nat /\ (w <= 4)%nat.
Proof.
  unfold decode_rune. destruct s as [|b0 t]; [congruence|]. intros H _.
  repeat match type of H with
  | (if ?c then _ else _) = _ => destruct c
  | (match ?t with _ => _ end) = _ => destruct t
  | (let _ := _ in _) = _ => cbv zeta in H
  end; inversion H; subst; cbn [length]; lia.
Qed.

(* a byte below RuneSelf decodes to itself, width 1 *)
Lemma decode_ascii b t : bz b <? 128 = true -> decode_rune (b :: t) = (bz b, 1%nat).
Proof. intros H. unfold decode_rune. rewrite H. reflexivity. Qed.

(* AppendRune writes between 1 and UTFMax bytes *)
Lemma encode_len r : (1 <= length (encode_rune r) <= 4)%nat.
Proof.
  unfold encode_rune.
  repeat match goal with |- context [if ?c then _ else _] => destruct c end; cbn [length]; lia.
Qed.

Lemma encode_ascii r : (0 <=? r) && (r <? 128) = true -> encode_rune r = [zb r].
Proof. intros H. unfold encode_rune. rewrite H. reflexivity. Qed.

(* a decoded rune is never negative *)
Ltac byte_ranges :=
  repeat match goal with
  | b : byte |- _ =>
      lazymatch goal with
      | _ : 0 <= bz b < 256 |- _ => fail
      | _ => pose proof (bz_range b)
      end
  end.
Lemma decode_nonneg s r w : decode_rune s = (r, w) -> 0 <= r.
Proof.
  unfold decode_rune. destruct s as [|b0 t]; [intros H; inversion H; unfold RuneError; lia|].
  intros D.
  repeat match type of D with
  | (if ?c then _ else _) = _ => destruct c eqn:?
  | (match ?x with _ => _ end) = _ => destruct x eqn:?
  | (let _ := _ in _) = _ => cbv zeta in D
  end; inversion D; subst; unfold RuneError, cont, inr in *; byte_ranges;
  repeat match goal with H : context [if ?c then _ else _] |- _ => destruct c eqn:? end; lia.
Qed.
