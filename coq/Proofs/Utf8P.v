(* Lemmas about Model/Utf8.v used by the buffer proofs (C19). *)
Require Import Verif.Model.Base Verif.Model.Utf8.
Require Import Lia ZifyBool ZifyNat ZifyN.

Lemma bz_range b : 0 <= bz b < 256.
Proof. unfold bz. pose proof (Byte.to_N_bounded b). lia. Qed.

Lemma zb_bz b : zb (bz b) = b.
Proof. unfold zb, bz. rewrite N2Z.id, Byte.of_to_N. reflexivity. Qed.

(* DecodeRune of a non-empty input consumes between 1 and min(4, len) bytes *)
Lemma decode_width s r w : decode_rune s = (r, w) -> s <> [] ->
  (1 <= w <= length s)%nat /\ (w <= 4)%nat.
Proof.
  unfold decode_rune. destruct s as [|b0 t]; [congruence|]. intros H _.
  repeat match type of H with
  | (if ?c then _ else _) = _ => destruct c
  | (match ?t with _ => _ end) = _ => destruct t
  | (let _ := _ in _) = _ => cbv zeta in H
  end; inversion H; subst; cbn [length]; lia.
Qed.

(* a byte below RuneSelf decodes to itself, width 1 *)
Lemma decode_ascii b t : bz b <? 128 = true -> decode_rune (b :: t) = (bz b, 1%nat).
Proof. intros H. unfold decode_rune. rewrite H. reflexivity. Qed.

(* AppendRune writes between 1 and UTFMax bytes *)
Lemma encode_len r : (1 <= length (encode_rune r) <= 4)%nat.
Proof.
  unfold encode_rune.
  repeat match goal with |- context [if ?c then _ else _] => destruct c end; cbn [length]; lia.
Qed.

Lemma encode_ascii r : (0 <=? r) && (r <? 128) = true -> encode_rune r = [zb r].
Proof. intros H. unfold encode_rune. rewrite H. reflexivity. Qed.
