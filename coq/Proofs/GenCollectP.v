(* The translations of Entry.walkParentAttrs and Entry.collectArgs regenerated from the source
   (Gen/Assembly.v) against Model/Collect.v. *)
Require Import Verif.Model.Base Verif.Model.Decision Verif.Model.GoSem Verif.Model.Attrs Verif.Model.Collect
  Verif.Model.CollectRef.
Require Import Verif.Proofs.GenRouteP.
Require Verif.Gen.Assembly Verif.Gen.Tables.
Require Import Lia ZifyBool ZifyNat.

Lemma gen_walk_ref : forall rec_ flags ctx lvl e kvps,
  Assembly.walk_parent_attrs rec_ flags ctx lvl e kvps = walk_parent_attrs_ref rec_ flags ctx lvl e kvps.
Proof.
  intros rec_ flags ctx lvl e kvps.
  first
    [ reflexivity
    | unfold Assembly.walk_parent_attrs, walk_parent_attrs_ref, inherit_on, chain_is_nil, chain_attrs, chain_owner;
      cbv zeta; change Tables.c_LattrsR with 32;
      destruct e as [|own up]; [reflexivity|];
      destruct (Z.land flags 32 =? 0) eqn:Ef; destruct up as [|a up]; destruct own as [|o own];
      cbn [List.length Nat.eqb negb andb orb Z.of_nat];
      repeat (gen_split; gen_inj; try reflexivity; try discriminate; try lia);
      cbn [app]; rewrite ?app_nil_r; try reflexivity ].
Qed.

Lemma gen_collect_ref : forall f1 f2 f3 flags wanted s s_attrs ctx kvps rough lvl args,
  Assembly.collect_args f1 f2 f3 flags wanted s s_attrs ctx kvps rough lvl args =
  collect_args_ref f1 f2 f3 flags wanted s s_attrs ctx kvps rough lvl args.
Proof.
  intros f1 f2 f3 flags wanted s s_attrs ctx kvps rough lvl args.
  first
    [ reflexivity
    | unfold Assembly.collect_args, collect_args_ref, inherit_on; cbv zeta; change Tables.c_LattrsR with 32;
      destruct (Z.land flags 32 =? 0) eqn:Ef; destruct args as [|a args]; destruct s_attrs as [|o own]; destruct wanted;
      cbn [List.length Nat.eqb negb andb orb Z.of_nat];
      repeat (gen_split; gen_inj; try reflexivity; try discriminate; try lia);
      cbn [app]; rewrite ?app_nil_r; try reflexivity ].
Qed.

(* the induction step of walkParentAttrs: if the recursive call appends what the model says for
   the parent chain, the body appends what the model says for the chain itself *)
Lemma gen_walk_parents : forall flags ctx lvl chain kvps,
  let inh := inherit_on flags in
  Assembly.walk_parent_attrs (fun c k => k ++ walk_parents inh c) flags ctx lvl chain kvps =
  kvps ++ walk_parents inh chain.
Proof.
  intros flags ctx lvl chain kvps inh. rewrite gen_walk_ref. unfold walk_parent_attrs_ref. fold inh.
  destruct chain as [|own up]; cbn [walk_parents]; [rewrite app_nil_r; reflexivity|].
  destruct (Nat.eqb (length own) 0 && negb inh); [rewrite app_nil_r; reflexivity|].
  destruct inh; [|cbn [app]; reflexivity].
  destruct up as [|a up]; [cbn [walk_parents app]; reflexivity|]. rewrite app_assoc. reflexivity.
Qed.

Lemma gen_collect : forall flags keys ctxv chain args rough lvl,
  let inh := inherit_on flags in
  Assembly.collect_args (fun _ k => k ++ from_ctx keys ctxv) (fun c k => k ++ walk_parents inh c) (fun k a => k ++ a)
    flags (match keys with [] => false | _ :: _ => true end) chain (chain_attrs chain) tt [] rough lvl args =
  collect inh true keys ctxv chain args.
Proof.
  intros flags keys ctxv chain args rough lvl inh. rewrite gen_collect_ref. unfold collect_args_ref, collect. fold inh.
  cbn [andb app].
  assert (Hw : (if negb (Nat.eqb (length (chain_attrs chain)) 0) || inh
                then walk_parents inh chain else []) =
               match chain with
               | [] => []
               | own :: _ => if negb (Nat.eqb (length own) 0) || inh then walk_parents inh chain else []
               end).
  { destruct chain as [|own up]; cbn [chain_attrs length Nat.eqb negb orb walk_parents]; [destruct inh|]; reflexivity. }
  rewrite <- Hw.
  destruct keys as [|k keys]; destruct args as [|a args];
    destruct (negb (Nat.eqb (length (chain_attrs chain)) 0) || inh); cbn [app];
    rewrite ?app_nil_r, <- ?app_assoc; reflexivity.
Qed.
