(* The translations of Entry.newChildLogger and of the head of newentry regenerated from the source
   (Gen/Loggers.v) against their references (Model/TreeRef.v) and the model of C10 (Tree.fresh_entry). *)
Require Import Verif.Model.Base Verif.Model.Decision Verif.Model.GoSem Verif.Model.Mode Verif.Model.Tree Verif.Model.TreeRef.
Require Import Verif.Proofs.GenRouteP Verif.Proofs.RegistryP.
Require Verif.Gen.Loggers.
Require Import Lia ZifyBool ZifyNat.

Lemma lookupB_fresh_app {V} (l : list (bytes * V)) k v : lookupB l k = None -> lookupB (l ++ [(k, v)]) k = Some v.
Proof.
  induction l as [|[k' v'] l IH]; cbn [lookupB app]; intros H; [rewrite bytes_eqb_refl; reflexivity|].
  destruct (bytes_eqb k' k); [discriminate|]. apply IH. exact H.
Qed.

Lemma gen_child_defaults : forall present pj pc plv dl,
  Loggers.child_defaults present pj pc plv dl = child_defaults_ref present pj pc plv dl.
Proof. intros [|] pj pc plv dl; reflexivity. Qed.

Lemma gen_new_child : forall as_string rnd mk s items args,
  Loggers.new_child as_string rnd mk s items args = new_child_ref as_string rnd mk s items args.
Proof.
  intros as_string rnd mk s items args.
  first
    [ reflexivity
    | unfold Loggers.new_child, new_child_ref, child_name, mapB_get_or, mapB_get, gomapB_set, mapB_set, list_at, is_nil;
      cbv zeta;
      destruct items as [items|]; destruct args as [|a args]; cbn [List.length Z.of_nat Z.eqb nth_error Z.to_nat Z.ltb Z.compare];
      cbv beta iota zeta;
      try (destruct (as_string a) as [[|c n]|]);
      try change (bytes_eqb (c :: n) []) with false; try change (bytes_eqb (@nil byte) []) with true;
      cbn [negb orb lookupB app];
      repeat (gen_split; gen_inj; rewrite ?lookupB_fresh_app in * by assumption; cbn [lookupB app] in *;
              rewrite ?bytes_eqb_refl in *;
              try reflexivity; try discriminate; try congruence) ].
Qed.

(* an anonymous child is always a NEW logger, provided the random name is fresh among the children *)
Lemma anon_child_is_new : forall rnd mk s items args,
  lookupB items rnd = None ->
  (match args with GStr (_ :: _) :: _ => False | _ => True end) ->
  Loggers.new_child garg_string rnd mk s (Some items) args = Some (mk s args, Some (items ++ [(rnd, mk s args)])).
Proof.
  intros rnd mk s items args Hf Ha. rewrite gen_new_child. unfold new_child_ref, child_name.
  destruct args as [|[[|c n]|k|k|k] args]; cbn [garg_string]; try contradiction; rewrite Hf; reflexivity.
Qed.

(* a named child: looked up among the receiver's DIRECT children under exactly that name *)
Lemma named_child : forall rnd mk s items c n rest,
  Loggers.new_child garg_string rnd mk s (Some items) (GStr (c :: n) :: rest) =
  match lookupB items (c :: n) with
  | Some l => Some (l, Some items)
  | None => Some (mk s (GStr (c :: n) :: rest), Some (items ++ [(c :: n, mk s (GStr (c :: n) :: rest))]))
  end.
Proof. intros. rewrite gen_new_child. reflexivity. Qed.

(* what the new logger starts with is what the model's fresh_entry starts with *)
Lemma defaults_fresh_entry : forall w p pe name,
  nth_error (entries w) p = Some pe ->
  Loggers.child_defaults true (useJSON (e_mode pe)) (useColor (e_mode pe)) (e_level pe) (deflevel w) =
    (useJSON (e_mode (fresh_entry w (Some p) name)), useColor (e_mode (fresh_entry w (Some p) name)),
     e_level (fresh_entry w (Some p) name)).
Proof. intros w p pe name H. rewrite gen_child_defaults. unfold fresh_entry. rewrite H. reflexivity. Qed.
Lemma defaults_fresh_detached : forall w name pj pc pl,
  Loggers.child_defaults false pj pc pl (deflevel w) =
    (useJSON (e_mode (fresh_entry w None name)), useColor (e_mode (fresh_entry w None name)),
     e_level (fresh_entry w None name)).
Proof. intros. rewrite gen_child_defaults. reflexivity. Qed.

(* ---- the skip count: SetSkip / withSkip / WithSkip ---- *)
Lemma gen_set_skip : forall s old n, Loggers.set_skip s old n = set_skip_ref s old n.
Proof. intros. first [reflexivity | unfold Loggers.set_skip, set_skip_ref; repeat (gen_split; gen_inj); try reflexivity; lia]. Qed.
Lemma gen_with_skip : forall s old n, Loggers.with_skip s old n = with_skip_ref s old n.
Proof. intros. first [reflexivity | unfold Loggers.with_skip, with_skip_ref; repeat (gen_split; gen_inj); try reflexivity; repeat f_equal; lia]. Qed.
Lemma gen_with_skip_child : forall newChild withSkip sj sc sl se name old lvl js cl items n,
  Loggers.with_skip_child newChild withSkip sj sc sl se name old lvl js cl items n
  = with_skip_child_ref newChild withSkip sj sc sl se name old lvl js cl items n.
Proof. intros. first [reflexivity | unfold Loggers.with_skip_child, with_skip_child_ref, skip_child_name; rewrite <- ?app_assoc; reflexivity]. Qed.
