(* Lemmas for C12: the termination decision and the order of events of one log call. *)
Require Import Verif.Model.Base Verif.Model.Decision Verif.Model.DecisionRef Verif.Model.Level.
Require Import Verif.Model.EntryPoint Verif.Model.Terminate.
Require Import Verif.Gen.Tables Verif.Gen.EntryPoints Verif.Gen.Decisions Verif.Gen.PanicSites.
Require Import Verif.Proofs.LevelP.

(* ---- the two flag tests are tests of one bit each, for every Z ---- *)
Lemma land_pow2 a n : 0 <= n -> Z.land a (2 ^ n) = if Z.testbit a n then 2 ^ n else 0.
Proof.
  intros Hn. apply Z.bits_inj'. intros m Hm. rewrite Z.land_spec, (Z.pow2_bits_eqb n m Hn).
  destruct (Z.testbit a n) eqn:Ha.
  - rewrite (Z.pow2_bits_eqb n m Hn). destruct (Z.eqb_spec n m) as [E|E].
    + subst m. rewrite Ha. reflexivity.
    + apply andb_false_r.
  - rewrite Z.bits_0. destruct (Z.eqb_spec n m) as [E|E].
    + subst m. rewrite Ha. reflexivity.
    + apply andb_false_r.
Qed.

Lemma pow2_20 : 2 ^ 20 = 1048576. Proof. reflexivity. Qed.
Lemma pow2_21 : 2 ^ 21 = 2097152. Proof. reflexivity. Qed.

Lemma has_all_nointerrupt flags : has_all flags f_nointerrupt = Z.testbit flags bit_nointerrupt.
Proof.
  unfold has_all, f_nointerrupt, bit_nointerrupt. rewrite <- pow2_20, (land_pow2 flags 20) by lia.
  destruct (Z.testbit flags 20); reflexivity.
Qed.

Lemma has_any_interruptalways flags : has_any flags f_interruptalways = Z.testbit flags bit_interruptalways.
Proof.
  unfold has_any, f_interruptalways, bit_interruptalways. rewrite <- pow2_21, (land_pow2 flags 21) by lia.
  destruct (Z.testbit flags 21); reflexivity.
Qed.

(* the constants of the reference are the ones of the source (Gen/Tables.v) *)
Lemma flag_constants : f_nointerrupt = c_LnoInterrupt /\ f_interruptalways = c_Linterruptalways
  /\ c_LnoInterrupt = 2 ^ bit_nointerrupt /\ c_Linterruptalways = 2 ^ bit_interruptalways
  /\ lv_panic = c_PanicLevel /\ lv_fatal = c_FatalLevel.
Proof. repeat split; reflexivity. Qed.

(* ---- tie: the translation of the tail equals the reference, for all arguments ----
   case analysis on the atoms (the two masked comparisons and the level tests), never on bits *)
Lemma gen_termination t flags lvl : Decisions.termination t flags lvl = termination_ref t flags lvl.
Proof.
  unfold Decisions.termination, termination_ref, has_any, has_all, f_interruptalways, f_nointerrupt, lv_panic, lv_fatal.
  destruct t; destruct (Z.land flags 2097152 =? 0); destruct (Z.land flags 1048576 =? 1048576);
    destruct (lvl =? 0); destruct (lvl =? 1); reflexivity.
Qed.

(* ---- the decision ---- *)
Lemma termination_unfold t flags lvl : termination_ref t flags lvl =
  if (negb t || Z.testbit flags bit_interruptalways) && negb (Z.testbit flags bit_nointerrupt)
  then if lvl =? lv_panic then ActPanic else if lvl =? lv_fatal then ActExit (-3) else ActContinue
  else ActContinue.
Proof. unfold termination_ref. rewrite has_all_nointerrupt, has_any_interruptalways. reflexivity. Qed.

Lemma decision t flags lvl :
  (termination_ref t flags lvl <> ActContinue <-> (lvl = lv_panic \/ lvl = lv_fatal) /\ may_interrupt t flags)
  /\ (may_interrupt t flags -> lvl = lv_panic -> termination_ref t flags lvl = ActPanic)
  /\ (may_interrupt t flags -> lvl = lv_fatal -> termination_ref t flags lvl = ActExit (-3)).
Proof.
  rewrite termination_unfold. unfold may_interrupt, lv_panic, lv_fatal.
  destruct t; destruct (Z.testbit flags bit_interruptalways); destruct (Z.testbit flags bit_nointerrupt);
    destruct (Z.eqb_spec lvl 0) as [E0|E0]; destruct (Z.eqb_spec lvl 1) as [E1|E1]; cbn;
    (split; [split|split]); intros; intuition (try congruence; try lia).
Qed.

Lemma exit_status_253 : exit_status (-3) = 253.
Proof. reflexivity. Qed.

(* what the process sees: panic value = the message, exit status 253 *)
Lemma decision_term t flags lvl msg : may_interrupt t flags ->
  (lvl = lv_panic -> term_of (termination_ref t flags lvl) msg = DoPanic msg)
  /\ (lvl = lv_fatal -> term_of (termination_ref t flags lvl) msg = DoExit 253).
Proof.
  intros Hm. destruct (decision t flags lvl) as [_ [Hp Hf]]. split; intros Hl.
  - rewrite (Hp Hm Hl). reflexivity.
  - rewrite (Hf Hm Hl). reflexivity.
Qed.

Lemma no_interrupt_wins t flags lvl : Z.testbit flags bit_nointerrupt = true -> termination_ref t flags lvl = ActContinue.
Proof. intros H. rewrite termination_unfold, H, andb_false_r. reflexivity. Qed.

Lemma testing_continues flags lvl : Z.testbit flags bit_interruptalways = false -> termination_ref true flags lvl = ActContinue.
Proof. intros H. rewrite termination_unfold, H. reflexivity. Qed.

Lemma no_other t flags lvl : lvl <> lv_panic -> lvl <> lv_fatal -> termination_ref t flags lvl = ActContinue.
Proof.
  intros Hp Hf. rewrite termination_unfold.
  destruct (Z.eqb_spec lvl lv_panic) as [E|_]; [contradiction|]. destruct (Z.eqb_spec lvl lv_fatal) as [E|_]; [contradiction|].
  destruct ((negb t || Z.testbit flags bit_interruptalways) && negb (Z.testbit flags bit_nointerrupt)); reflexivity.
Qed.

(* ---- the trace of one call ---- *)
Lemma writes_all_write n : forall e, In e (writes n) -> exists d, e = EvWrite d.
Proof. unfold writes. intros e H. apply in_map_iff in H. destruct H as [d [Hd _]]. exists d. symmetry. exact Hd. Qed.

Lemma writes_length n : length (writes n) = n.
Proof. unfold writes. rewrite map_length, seq_length. reflexivity. Qed.

Lemma filter_writes n : filter is_write (writes n) = writes n.
Proof. unfold writes. induction (seq 0 n) as [|d l IH]; cbn; [reflexivity|]. rewrite IH. reflexivity. Qed.

Lemma ending_writes n t : ending (writes n ++ [EvEnd t]) = Some t.
Proof. unfold writes. induction (seq 0 n) as [|d l IH]; cbn; [reflexivity|exact IH]. Qed.

(* the shape of the trace: admitted = n writes then the end decided by the tail; otherwise nothing *)
Lemma outcome_shape t flags m dbg L r msg n :
  (enabled_code m dbg L r = true ->
     log_outcome t flags m dbg L r msg n = writes n ++ [EvEnd (term_of (termination_ref t flags r) msg)])
  /\ (enabled_code m dbg L r = false -> log_outcome t flags m dbg L r msg n = [EvEnd Continue]).
Proof. unfold log_outcome, log_outcome_with. split; intros H; rewrite H; reflexivity. Qed.

(* every Write precedes the end of the call, the end is the last event and there is exactly one;
   an admitted call writes to each of the n destinations, a refused one writes nothing and returns *)
Lemma write_first t flags m dbg L r msg n :
  exists pre e, log_outcome t flags m dbg L r msg n = pre ++ [EvEnd e]
    /\ (forall x, In x pre -> exists d, x = EvWrite d)
    /\ (enabled_code m dbg L r = true -> pre = writes n /\ e = term_of (termination_ref t flags r) msg)
    /\ (enabled_code m dbg L r = false -> pre = [] /\ e = Continue).
Proof.
  destruct (outcome_shape t flags m dbg L r msg n) as [Ha Hr].
  destruct (enabled_code m dbg L r) eqn:En.
  - exists (writes n), (term_of (termination_ref t flags r) msg). split; [exact (Ha eq_refl)|].
    split; [exact (writes_all_write n)|]. split; [auto|discriminate].
  - exists [], Continue. split; [exact (Hr eq_refl)|]. split; [intros x []|]. split; [discriminate|auto].
Qed.

(* positional form: wherever an end event is found in the trace, nothing follows it and only writes precede it *)
Lemma end_position (pre0 : list event) e0 : forall pre e post,
  (forall x, In x pre0 -> exists d, x = EvWrite d) ->
  pre0 ++ [EvEnd e0] = pre ++ EvEnd e :: post -> pre = pre0 /\ e = e0 /\ post = [].
Proof.
  induction pre0 as [|b pre0 IH]; intros pre e post Hw E.
  - destruct pre as [|a pre]; cbn in E.
    + inversion E. auto.
    + inversion E as [[Ha Hr]]. destruct pre; discriminate.
  - destruct pre as [|a pre]; cbn in E.
    + inversion E as [[Hb Hr]]. destruct (Hw b (or_introl eq_refl)) as [d Hd]. congruence.
    + inversion E as [[Hab Hr]]. destruct (IH pre e post) as [E1 [E2 E3]].
      * intros x Hx. apply Hw. right. exact Hx.
      * exact Hr.
      * subst. auto.
Qed.

Lemma write_before_end t flags m dbg L r msg n pre e post :
  log_outcome t flags m dbg L r msg n = pre ++ EvEnd e :: post ->
  post = [] /\ (forall x, In x pre -> exists d, x = EvWrite d).
Proof.
  intros E. destruct (write_first t flags m dbg L r msg n) as [pre0 [e0 [E0 [Hw _]]]].
  rewrite E0 in E. destruct (end_position pre0 e0 pre e post Hw E) as [E1 [_ E3]].
  subst pre. split; [exact E3|exact Hw].
Qed.

Lemma outcome_counts t flags m dbg L r msg n :
  count_writes (log_outcome t flags m dbg L r msg n) = (if enabled_code m dbg L r then Z.of_nat n else 0)
  /\ ending (log_outcome t flags m dbg L r msg n)
     = Some (if enabled_code m dbg L r then term_of (termination_ref t flags r) msg else Continue).
Proof.
  unfold log_outcome, log_outcome_with, count_writes. destruct (enabled_code m dbg L r).
  - split; [|apply ending_writes]. rewrite filter_app, filter_writes. cbn. rewrite app_nil_r, writes_length. reflexivity.
  - split; reflexivity.
Qed.

(* no severity other than Panic and Fatal ends a call by anything but a normal return *)
Lemma no_other_outcome t flags m dbg L r msg n : r <> lv_panic -> r <> lv_fatal ->
  ending (log_outcome t flags m dbg L r msg n) = Some Continue.
Proof.
  intros Hp Hf. destruct (outcome_counts t flags m dbg L r msg n) as [_ He]. rewrite He.
  rewrite (no_other t flags r Hp Hf). destruct (enabled_code m dbg L r); reflexivity.
Qed.

(* the correspondence runs the generated decision: same traces *)
Lemma outcome_gen t flags m dbg L r msg n :
  log_outcome_with Decisions.termination t flags m dbg L r msg n = log_outcome t flags m dbg L r msg n.
Proof. unfold log_outcome, log_outcome_with. rewrite gen_termination. reflexivity. Qed.

(* ---- entry points (finite generated table, decided by computation) ---- *)
Lemma terminating_rows :
  forallb (fun e => if can_terminate (ep_sev e) then ep_gated e && ep_tail e else true) entry_points = true.
Proof. vm_compute. reflexivity. Qed.

Lemma all_entry_points e : In e entry_points -> can_terminate (ep_sev e) = true ->
  ep_gated e = true /\ ep_tail e = true.
Proof.
  intros Hin Hc. pose proof (proj1 (forallb_forall _ entry_points) terminating_rows e Hin) as H.
  cbv beta in H. rewrite Hc in H. apply andb_true_iff in H. exact H.
Qed.

(* and the rows that do not reach the tail issue nothing at all (Verbose in a default build) *)
Lemma non_tail_rows :
  forallb (fun e => if ep_tail e then true else match ep_sev e with SevNone => true | _ => false end) entry_points = true.
Proof. vm_compute. reflexivity. Qed.

Lemma non_tail_silent e : In e entry_points -> ep_tail e = false -> ep_sev e = SevNone.
Proof.
  intros Hin Ht. pose proof (proj1 (forallb_forall _ entry_points) non_tail_rows e Hin) as H.
  cbv beta in H. rewrite Ht in H. destruct (ep_sev e); try discriminate. reflexivity.
Qed.

(* ---- panic / exit / assertion sites (generated list included in the accounted list) ---- *)
Definition kind_of (k : site_kind) : skind :=
  match k with SPanic => KPanic | SExit => KExit | SAssert => KAssert end.

Lemma sites_known_b : forallb (fun s : bytes * site_kind => known_site (fst s) (kind_of (snd s))) panic_sites = true.
Proof. vm_compute. reflexivity. Qed.

Lemma sites_known f k : In (f, k) panic_sites -> known_site f (kind_of k) = true.
Proof. intros H. exact (proj1 (forallb_forall _ panic_sites) sites_known_b (f, k) H). Qed.

(* the only explicit panic( / os.Exit( that ends a log call on purpose is the tail of Entry.logContext,
   and the source has it (both kinds) *)
Lemma deliberate_only_tail :
  deliberate_sites = [([x45;x6e;x74;x72;x79;x2e;x6c;x6f;x67;x43;x6f;x6e;x74;x65;x78;x74], KPanic);
                      ([x45;x6e;x74;x72;x79;x2e;x6c;x6f;x67;x43;x6f;x6e;x74;x65;x78;x74], KExit)]
  /\ forallb (fun d : bytes * skind =>
       existsb (fun s : bytes * site_kind => bytes_eqb (fst s) (fst d) && skind_eqb (kind_of (snd s)) (snd d)) panic_sites)
       deliberate_sites = true
  /\ length (filter (fun s : bytes * site_kind => match snd s with SExit => true | _ => false end) panic_sites) = 1%nat.
Proof. repeat split; vm_compute; reflexivity. Qed.
