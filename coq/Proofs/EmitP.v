(* Lemmas for C01: entry points and gating histories. *)
Require Import Verif.Model.Base Verif.Model.Decision Verif.Model.Level Verif.Model.EntryPoint Verif.Model.Emit.
Require Import Verif.Gen.EntryPoints Verif.Gen.Decisions.
Require Import Verif.Proofs.LevelP.

Lemma emits_gated e m d L p r : ep_gated e = true -> severity_of e p = Some r ->
  emits e m d L p = enabled_code m d L r.
Proof. intros Hg Hs. unfold emits. rewrite Hs, Hg. reflexivity. Qed.

(* the generated table: every row is gated (finite table, decided by computation) *)
Lemma all_rows_gated : forallb ep_gated entry_points = true.
Proof. vm_compute. reflexivity. Qed.

Lemma every_row_gated e : In e entry_points -> ep_gated e = true.
Proof. intros H. exact (proj1 (forallb_forall ep_gated entry_points) all_rows_gated e H). Qed.

Lemma every_entry_point e m d L p r : In e entry_points -> severity_of e p = Some r ->
  (emits e m d L p = true <-> admits m d L r).
Proof.
  intros Hin Hs. rewrite (emits_gated e m d L p r (every_row_gated e Hin) Hs). apply enabled_rule.
Qed.

Definition is_verbose_name (n : bytes) : bool :=
  bytes_eqb n [x56;x65;x72;x62;x6f;x73;x65] || bytes_eqb n [x56;x65;x72;x62;x6f;x73;x65;x43;x6f;x6e;x74;x65;x78;x74].

(* rows named Verbose / VerboseContext have an empty body, both receivers have them *)
Lemma verbose_rows :
  forallb (fun e => if is_verbose_name (ep_name e) then match ep_sev e with SevNone => true | _ => false end else true) entry_points = true
  /\ length (filter (fun e => is_verbose_name (ep_name e)) entry_points) = 4%nat.
Proof. split; vm_compute; reflexivity. Qed.

Lemma verbose_silent e m d L p : In e entry_points -> is_verbose_name (ep_name e) = true -> emits e m d L p = false.
Proof.
  intros Hin Hn. pose proof (proj1 (forallb_forall _ entry_points) (proj1 verbose_rows) e Hin) as H.
  cbv beta in H. rewrite Hn in H. unfold emits, severity_of. destruct (ep_sev e); try discriminate. reflexivity.
Qed.

(* ---- histories ---- *)
Lemma gstep_dbg_stays w o : is_set_debug o = false -> g_dbg w = true -> g_dbg (gstep w o) = true.
Proof.
  intros Ho Hd. destruct o as [i l|i l|v t op|b]; cbn [gstep g_dbg is_set_debug] in *; try exact Hd; try discriminate.
  - destruct (Nat.ltb i (length (g_levels w)) && (l =? lv_debug)); [reflexivity|exact Hd].
  - destruct (Nat.ltb i (length (g_levels w))); [|exact Hd]. cbn [g_dbg]. destruct (l =? lv_debug); [reflexivity|exact Hd].
Qed.

Lemma grun_dbg_stays ops : forall w, existsb is_set_debug ops = false -> g_dbg w = true -> g_dbg (grun w ops) = true.
Proof.
  unfold grun. induction ops as [|o ops IH]; intros w Hn Hd; cbn [fold_left]; [exact Hd|].
  cbn [existsb] in Hn. apply orb_false_iff in Hn. destruct Hn as [Ho Hn].
  apply IH; [exact Hn|]. apply gstep_dbg_stays; assumption.
Qed.

(* SetLevel(Debug) / WithLevel(Debug) on any existing logger switches debug mode on,
   and it stays on for every later call until the application resets it explicitly *)
Lemma debug_side_effect ops1 ops2 w i : (i < length (g_levels (grun w ops1)))%nat ->
  existsb is_set_debug ops2 = false ->
  g_dbg (grun w (ops1 ++ GSetLevel i lv_debug :: ops2)) = true
  /\ g_dbg (grun w (ops1 ++ GWithLevel i lv_debug :: ops2)) = true.
Proof.
  intros Hi Hn. unfold grun in *. rewrite !fold_left_app. cbn [fold_left]. split; apply grun_dbg_stays; try exact Hn.
  - cbn [gstep g_dbg]. apply Nat.ltb_lt in Hi. rewrite Hi, Z.eqb_refl. reflexivity.
  - cbn [gstep g_dbg]. apply Nat.ltb_lt in Hi. rewrite Hi. cbn [g_dbg]. rewrite Z.eqb_refl. reflexivity.
Qed.

(* without such a call and without SetDebugMode the mode is what it was *)
Lemma gstep_dbg_same w o : is_set_debug o = false -> switches_debug_on (length (g_levels w)) o = false ->
  g_dbg (gstep w o) = g_dbg w.
Proof.
  intros Ho Hs. destruct o as [i l|i l|v t op|b]; cbn [gstep g_dbg is_set_debug switches_debug_on] in *; try reflexivity; try discriminate.
  - rewrite Hs. reflexivity.
  - destruct (Nat.ltb i (length (g_levels w))); [|reflexivity]. cbn [g_dbg andb] in *. rewrite Hs. reflexivity.
Qed.

(* the level of a logger is the last level given to it *)
Lemma set_level_effect w i l : (i < length (g_levels w))%nat ->
  nth_error (g_levels (gstep w (GSetLevel i l))) i = Some l
  /\ forall j, j <> i -> nth_error (g_levels (gstep w (GSetLevel i l))) j = nth_error (g_levels w) j.
Proof.
  intros Hi. cbn [gstep g_levels]. pose proof Hi as Hi'. apply Nat.ltb_lt in Hi'. rewrite Hi'. split.
  - clear Hi'. revert i Hi. induction (g_levels w) as [|h t IH]; intros i Hi; cbn in *; [lia|].
    destruct i; [reflexivity|]. cbn. apply IH. lia.
  - intros j Hj. clear Hi Hi'. revert i j Hj. induction (g_levels w) as [|h t IH]; intros i j Hj; [destruct i; reflexivity|].
    destruct i, j; cbn; try reflexivity; try congruence. apply IH. congruence.
Qed.
