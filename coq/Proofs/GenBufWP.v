(* The write side of the buffer methods of PrintCtx regenerated from the source (Gen/Buffers.v:
   tryGrowByReslice, grow, Grow, Write, WriteString, WriteByte) against the concrete model of C19
   (Buffer.grow, Buffer.cstep), for every well-formed state, up to the nil flag. *)
Require Import Verif.Model.Base Verif.Model.Decision Verif.Model.GoSem Verif.Model.Utf8 Verif.Model.Buffer
  Verif.Model.BufRef.
Require Import Verif.Proofs.Utf8P Verif.Proofs.GenRouteP Verif.Proofs.GenBufP.
Require Verif.Gen.Buffers.
Require Import Lia ZifyBool ZifyNat.

Ltac bufw_unfold :=
  unfold Buffers.buf_write_byte, Buffers.buf_write_string, Buffers.buf_write, Buffers.buf_grow, Buffers.buf_grow_int,
    Buffers.buf_try_grow, Buffers.buf_reset, Buffers.buf_len in *;
  unfold buf_write_byte_ref, buf_write_string_ref, buf_write_ref, buf_grow_ref, buf_grow_int_ref,
    buf_try_grow_ref, buf_reset_ref, buf_len_ref in *.

Lemma firstn_app_exact {A} (k : nat) (l1 l2 : list A) : firstn (length l1 + k) (l1 ++ l2) = l1 ++ firstn k l2.
Proof. rewrite firstn_app, firstn_all2 by lia. f_equal. f_equal. lia. Qed.
Lemma skipn_app_exact {A} (k : nat) (l1 l2 : list A) : skipn (length l1 + k) (l1 ++ l2) = skipn k l2.
Proof. rewrite skipn_app, skipn_all2 by lia. cbn. f_equal. lia. Qed.

(* tryGrowByReslice(n), 0 <= n: when n fits into the spare capacity the buffer is extended by n bytes of it *)
Lemma try_grow_spec : forall (d sp : bytes) o l n, 0 <= n ->
  Buffers.buf_try_grow (d, sp) o l n =
  if n <=? Z.of_nat (length sp)
  then BOk (Z.of_nat (length d), true) ((d ++ firstn (Z.to_nat n) sp, skipn (Z.to_nat n) sp), o, l)
  else BOk (0, false) ((d, sp), o, l).
Proof.
  intros d sp o l n Hn. bufw_unfold. unfold sl_to, sl_len, sl_cap, sl_all. cbn [fst snd].
  repeat (gen_split; gen_inj; try discriminate; try lia; try reflexivity).
  all: replace (Z.to_nat (Z.of_nat (length d) + n)) with (length d + Z.to_nat n)%nat by lia.
  all: rewrite firstn_app_exact, skipn_app_exact; reflexivity.
Qed.

Lemma try_grow_ref_spec : forall (d sp : bytes) o l n, 0 <= n ->
  buf_try_grow_ref (d, sp) o l n =
  if n <=? Z.of_nat (length sp)
  then BOk (Z.of_nat (length d), true) ((d ++ firstn (Z.to_nat n) sp, skipn (Z.to_nat n) sp), o, l)
  else BOk (0, false) ((d, sp), o, l).
Proof.
  intros d sp o l n Hn. bufw_unfold. unfold sl_to, sl_len, sl_cap, sl_all. cbn [fst snd].
  repeat (gen_split; gen_inj; try discriminate; try lia; try reflexivity).
  all: replace (Z.to_nat (Z.of_nat (length d) + n)) with (length d + Z.to_nat n)%nat by lia.
  all: rewrite firstn_app_exact, skipn_app_exact; reflexivity.
Qed.

Ltac wmodel_unfold :=
  unfold grow, creset, contents, clen, blen, zlen, zskip, ztake, set_last, opInvalid, smallBufferSize,
    abs_pc, forget, grow_gen_view, grow_model_view, grow_slice_oracle, grow_slice_cap,
    sl_cap, sl_len, sl_all, sl_to, sl_from, sl_make, sl_copy_at, sl_bytes in *;
  cbn [fst snd data off cap isnil last_read] in *.

Lemma skipn_len_app {A} (l1 l2 : list A) : skipn (length l1) (l1 ++ l2) = l2.
Proof. rewrite skipn_app, skipn_all, Nat.sub_diag. reflexivity. Qed.
Lemma firstn_len_app {A} (l1 l2 : list A) : firstn (length l1) (l1 ++ l2) = l1.
Proof. rewrite firstn_app, firstn_all, Nat.sub_diag. cbn. apply app_nil_r. Qed.
Lemma firstn_len_app2 {A} (k : nat) (l1 l2 : list A) : firstn (length l1) (firstn (length l1 + k) (l1 ++ l2)) = l1.
Proof. rewrite firstn_firstn, Nat.min_l by lia. apply firstn_len_app. Qed.

Ltac norm_len :=
  rewrite ?Nat2Z.id, ?app_length, ?firstn_length, ?skipn_length, ?repeat_length;
  repeat match goal with H : _ = _ |- _ =>
    progress rewrite ?Nat2Z.id, ?app_length, ?firstn_length, ?skipn_length, ?repeat_length in H end.

Ltac rup_facts Hrup :=
  repeat match goal with |- context [?r ?x] =>
    match type of Hrup with forall c, c <= r c => idtac end;
    lazymatch goal with H : x <= r x |- _ => fail | _ => pose proof (Hrup x) end end.

(* grow(n) on a state that needs no reset: d1 = the bytes already read, d2 = the unread bytes *)
Lemma grow_noreset : forall rup maxalloc nil nil2 (d1 d2 sp : bytes) l n,
  (forall c, c <= rup c) -> ((n <=? 64) = true -> nil = nil2 /\ (nil = true -> d1 = [] /\ d2 = [] /\ sp = [])) -> 0 <= n ->
  (d2 = [] -> d1 = []) ->
  grow_gen_view (Buffers.buf_grow_int (d1 ++ d2, sp) (Z.of_nat (length d1)) l (fun _ => nil) (grow_slice_oracle rup maxalloc) n)
  = grow_model_view n (grow rup maxalloc (abs_pc nil2 ((d1 ++ d2, sp), Z.of_nat (length d1), l)) n).
Proof.
  intros rup maxalloc nil nil2 d1 d2 sp l n Hrup Hnil Hn Hre.
  assert (Hc : (Z.of_nat (length (d1 ++ d2)) - Z.of_nat (length d1) =? 0) && negb (Z.of_nat (length d1) =? 0) = false).
  { rewrite app_length. destruct d2; [rewrite (Hre eq_refl); reflexivity|]. cbn [length]. lia. }
  unfold Buffers.buf_grow_int, buf_grow_int_ref, Buffers.buf_len, buf_len_ref.
  unfold sl_len at 1; cbn [fst]. rewrite Hc.
  rewrite ?try_grow_spec, ?try_grow_ref_spec by lia.
  destruct (n <=? Z.of_nat (length sp)) eqn:Efit; cbv beta iota.
  all: wmodel_unfold; wmodel_unfold; unfold maxInt; rewrite Hc; cbv beta iota zeta;
       cbn [fst snd data off cap isnil last_read]; rewrite ?Nat2Z.id.
  all: rewrite ?skipn_len_app.
  all: norm_len.
  all: rewrite ?Z.quot_div_nonneg by lia.
  all: change (Z.to_nat 0) with 0%nat; rewrite ?Nat.sub_0_r, ?Nat.add_0_l.
  all: replace (length d1 + length d2 - length d1)%nat with (length d2) by lia.
  all: replace (Z.of_nat (length d1 + length d2) - Z.of_nat (length d1)) with (Z.of_nat (length d2)) by lia.
  all: replace (Z.of_nat (length d1 + length d2 + length sp) - Z.of_nat (length d1 + length d2)) with (Z.of_nat (length sp)) by lia.
  all: replace (Z.of_nat (length d1 + length d2 + length sp) - Z.of_nat (length d1)) with (Z.of_nat (length d2 + length sp)) by lia.
  all: destruct (n <=? 64) eqn:E64;
       [ destruct (Hnil eq_refl) as [<- Hnil']; destruct nil;
         [destruct (Hnil' eq_refl) as (-> & -> & ->); cbn [length app Nat.add] in * |]
       | rewrite ?andb_false_r ].
  all: repeat (gen_split; gen_inj; cbn [fst snd] in *; norm_len; try discriminate; try lia).
  all: cbn [fst snd data off cap isnil last_read] in *; norm_len.
  all: try lia.
  all: panic_calc; try reflexivity.
  all: rup_facts Hrup; try lia.
  all: repeat match goal with |- (_, _) = (_, _) => f_equal | |- GOk _ = GOk _ => f_equal | |- mkpc _ _ _ _ _ = mkpc _ _ _ _ _ => f_equal end; try lia.
  all: cbn [length app Nat.add firstn skipn] in *; try lia.
  all: rewrite ?Nat.min_r by lia; rewrite ?firstn_all; cbn [app Nat.add]; rewrite <- ?app_assoc.
  all: repeat match goal with |- context [Z.to_nat (Z.of_nat ?a + ?b)] =>
         replace (Z.to_nat (Z.of_nat a + b)) with (a + Z.to_nat b)%nat by lia end.
  all: rewrite <- ?app_length; rewrite ?firstn_len_app2, ?firstn_len_app; try reflexivity.
  all: rewrite app_assoc, firstn_len_app; reflexivity.
Qed.

(* a state that needs the reset: grow continues exactly as on the state Reset leaves *)
Lemma grow_reset_gen : forall (d sp : bytes) o l f g n,
  (Z.of_nat (length d) - o =? 0) && negb (o =? 0) = true ->
  Buffers.buf_grow_int (d, sp) o l f g n = Buffers.buf_grow_int ([], d ++ sp) 0 0 f g n.
Proof.
  intros d sp o l f g n Hc.
  unfold Buffers.buf_grow_int, buf_grow_int_ref, Buffers.buf_len, buf_len_ref, Buffers.buf_reset, buf_reset_ref.
  unfold sl_to at 1.
  replace ((0 <? 0) || (sl_cap (d, sp) <? 0)) with false by (unfold sl_cap; lia).
  unfold sl_len; cbn [fst]. rewrite Hc.
  replace (Z.of_nat (length d) - o) with 0 by lia.
  reflexivity.
Qed.

Lemma grow_reset_model : forall rup maxalloc nil (d sp : bytes) o l n,
  (Z.of_nat (length d) - o =? 0) && negb (o =? 0) = true ->
  grow rup maxalloc (abs_pc nil ((d, sp), o, l)) n = grow rup maxalloc (abs_pc nil (([], d ++ sp), 0, 0)) n.
Proof.
  intros rup maxalloc nil d sp o l n Hc.
  unfold grow. wmodel_unfold. rewrite Hc. cbn [length Z.of_nat Z.sub Z.eqb negb andb]. cbv zeta.
  cbn [fst snd data off cap isnil last_read length Nat.add]. rewrite app_length.
  replace (Z.of_nat (length d) - o) with 0 by lia. reflexivity.
Qed.

Lemma gen_buf_grow_int_g : forall rup maxalloc nil nil2 (d sp : bytes) o l n,
  (forall c, c <= rup c) -> 0 <= o <= Z.of_nat (length d) ->
  ((n <=? 64) = true -> nil = nil2 /\ (nil = true -> d = [] /\ sp = [])) -> 0 <= n ->
  grow_gen_view (Buffers.buf_grow_int (d, sp) o l (fun _ => nil) (grow_slice_oracle rup maxalloc) n)
  = grow_model_view n (grow rup maxalloc (abs_pc nil2 ((d, sp), o, l)) n).
Proof.
  intros rup maxalloc nil nil2 d sp o l n Hrup Hwf Hnil Hn.
  destruct ((Z.of_nat (length d) - o =? 0) && negb (o =? 0)) eqn:Hc.
  - rewrite grow_reset_gen by exact Hc.
    replace (grow rup maxalloc (abs_pc nil2 (d, sp, o, l)) n) with (grow rup maxalloc (abs_pc nil2 (([], d ++ sp), 0, 0)) n)
      by (symmetry; apply grow_reset_model; exact Hc).
    apply (grow_noreset rup maxalloc nil nil2 [] [] (d ++ sp) 0 n Hrup); [|exact Hn|reflexivity].
    intros E. destruct (Hnil E) as [-> Hn']. split; [reflexivity|]. intros E2. destruct (Hn' E2) as [-> ->]. auto.
  - rewrite <- (firstn_skipn (Z.to_nat o) d).
    assert (Ho : o = Z.of_nat (length (firstn (Z.to_nat o) d))) by (rewrite firstn_length; lia).
    assert (Hd2 : skipn (Z.to_nat o) d = [] -> firstn (Z.to_nat o) d = []).
    { intros E. apply (f_equal (@length byte)) in E. rewrite skipn_length in E. cbn [length] in E.
      assert (o = 0) by lia. subst o. reflexivity. }
    assert (Hn0 : (n <=? 64) = true -> nil = nil2 /\ (nil = true -> firstn (Z.to_nat o) d = [] /\ skipn (Z.to_nat o) d = [] /\ sp = [])).
    { intros E. destruct (Hnil E) as [-> Hn']. split; [reflexivity|]. intros E2. destruct (Hn' E2) as [-> ->].
      rewrite firstn_nil, skipn_nil. auto. }
    revert Ho Hd2 Hn0. generalize (firstn (Z.to_nat o) d) (skipn (Z.to_nat o) d). intros d1 d2 Ho Hd2 Hn0.
    rewrite Ho. apply grow_noreset; assumption.
Qed.

Lemma st_wf_facts : forall nil (d sp : bytes) o l, st_wf nil ((d, sp), o, l) = true ->
  0 <= o <= Z.of_nat (length d) /\ (nil = true -> d = [] /\ sp = []).
Proof.
  intros nil d sp o l Hwf. unfold st_wf, sl_len, sl_cap in Hwf. cbn [fst snd] in Hwf. split; [lia|].
  intros ->. destruct d; [|cbn [length] in *; lia]. destruct sp; [auto|cbn [length] in *; lia].
Qed.

Lemma gen_buf_grow_int : forall rup maxalloc nil (d sp : bytes) o l n,
  (forall c, c <= rup c) -> st_wf nil ((d, sp), o, l) = true -> 0 <= n ->
  grow_gen_view (Buffers.buf_grow_int (d, sp) o l (fun _ => nil) (grow_slice_oracle rup maxalloc) n)
  = grow_model_view n (grow rup maxalloc (abs_pc nil ((d, sp), o, l)) n).
Proof.
  intros rup maxalloc nil d sp o l n Hrup Hwf Hn. destruct (st_wf_facts _ _ _ _ _ Hwf) as [H1 H2].
  apply gen_buf_grow_int_g; auto.
Qed.

(* the same, as the three cases of the generated result *)
Lemma grow_int_cases_g : forall rup maxalloc nil nil2 (d sp : bytes) o l n,
  (forall c, c <= rup c) -> 0 <= o <= Z.of_nat (length d) ->
  ((n <=? 64) = true -> nil = nil2 /\ (nil = true -> d = [] /\ sp = [])) -> 0 <= n ->
  match Buffers.buf_grow_int (d, sp) o l (fun _ => nil) (grow_slice_oracle rup maxalloc) n with
  | BOk m (b, o', l') => exists s', grow rup maxalloc (abs_pc nil2 ((d, sp), o, l)) n = GOk s'
      /\ data s' = firstn (Z.to_nat m) (fst b) /\ off s' = o' /\ cap s' = sl_cap b /\ last_read s' = l'
      /\ m = Z.of_nat (length (data s')) /\ Z.of_nat (length (fst b)) = m + n
  | BRange _ => grow rup maxalloc (abs_pc nil2 ((d, sp), o, l)) n = GPanic PRange
  | BPanic p _ => grow rup maxalloc (abs_pc nil2 ((d, sp), o, l)) n = GPanic (panic_of p)
  end.
Proof.
  intros rup maxalloc nil nil2 d sp o l n Hrup Hwf Hnil Hn.
  pose proof (gen_buf_grow_int_g rup maxalloc nil nil2 d sp o l n Hrup Hwf Hnil Hn) as H.
  destruct (Buffers.buf_grow_int (d, sp) o l (fun _ => nil) (grow_slice_oracle rup maxalloc) n) as [m [[b o'] l']|st|p st];
  destruct (grow rup maxalloc (abs_pc nil2 (d, sp, o, l)) n) as [s'|q];
  unfold grow_gen_view, grow_model_view, forget, blen, zlen, ztake, sl_len in H; try discriminate.
  - injection H as H1 H2 H3. exists s'. split; [reflexivity|]. destruct s' as [sd so sc sn sl]; cbn [data off cap isnil last_read] in *.
    subst. repeat split; try reflexivity; lia.
  - injection H as ->. reflexivity.
  - injection H as ->. reflexivity.
Qed.

Lemma grow_int_cases : forall rup maxalloc nil (d sp : bytes) o l n,
  (forall c, c <= rup c) -> st_wf nil ((d, sp), o, l) = true -> 0 <= n ->
  match Buffers.buf_grow_int (d, sp) o l (fun _ => nil) (grow_slice_oracle rup maxalloc) n with
  | BOk m (b, o', l') => exists s', grow rup maxalloc (abs_pc nil ((d, sp), o, l)) n = GOk s'
      /\ data s' = firstn (Z.to_nat m) (fst b) /\ off s' = o' /\ cap s' = sl_cap b /\ last_read s' = l'
      /\ m = Z.of_nat (length (data s')) /\ Z.of_nat (length (fst b)) = m + n
  | BRange _ => grow rup maxalloc (abs_pc nil ((d, sp), o, l)) n = GPanic PRange
  | BPanic p _ => grow rup maxalloc (abs_pc nil ((d, sp), o, l)) n = GPanic (panic_of p)
  end.
Proof.
  intros rup maxalloc nil d sp o l n Hrup Hwf Hn. destruct (st_wf_facts _ _ _ _ _ Hwf) as [H1 H2].
  apply grow_int_cases_g; auto.
Qed.

Ltac wv_unfold :=
  unfold wview, bview, res_unit, res_err, c_put, ensure, cappend, set_last, abs_pc, forget, halts, blen, zlen, opInvalid,
    sl_cap, sl_len in *;
  cbn [fst snd data off cap isnil last_read] in *.

(* Grow(n) *)
Lemma gen_buf_grow : forall rup maxalloc nil (d sp : bytes) o l n,
  (forall c, c <= rup c) -> st_wf nil ((d, sp), o, l) = true ->
  wview (bview nil res_unit (Buffers.buf_grow (d, sp) o l (fun _ => nil) (grow_slice_oracle rup maxalloc) n))
  = wview (cstep rup maxalloc (abs_pc nil ((d, sp), o, l)) (OGrow n)).
Proof.
  intros rup maxalloc nil d sp o l n Hrup Hwf.
  unfold Buffers.buf_grow, buf_grow_ref, cstep.
  destruct (n <? 0) eqn:En; [reflexivity|].
  pose proof (grow_int_cases rup maxalloc nil d sp o l n Hrup Hwf ltac:(lia)) as H.
  change buf_grow_int_ref with Buffers.buf_grow_int || idtac.
  destruct (Buffers.buf_grow_int (d, sp) o l (fun _ => nil) (grow_slice_oracle rup maxalloc) n) as [m [[b o'] l']|[[b o'] l']|p [[b o'] l']].
  - destruct H as (s' & -> & Hd & Ho & Hc & Hl & Hm & Hlen). destruct b as [bd bs]. cbn [fst snd] in *.
    unfold sl_to, sl_cap, sl_all. cbn [fst snd].
    replace ((m <? 0) || (Z.of_nat (length bd + length bs) <? m)) with false by lia.
    wv_unfold. destruct s' as [sd so sc sn sl]; cbn [data off cap isnil last_read] in *. subst.
    assert (Hmm : (Z.to_nat m <= length bd)%nat) by lia.
    rewrite <- app_length, firstn_skipn, app_length, (firstn_app_le _ bd bs Hmm). reflexivity.
  - rewrite H. reflexivity.
  - rewrite H. reflexivity.
Qed.

Lemma copy_at_end : forall bd bs m (p : bytes), 0 <= m -> Z.of_nat (length bd) = m + Z.of_nat (length p) ->
  sl_copy_at (bd, bs) m p = Some (Z.of_nat (length p), (firstn (Z.to_nat m) bd ++ p, bs)).
Proof.
  intros bd bs m p Hm Hl. unfold sl_copy_at, sl_len. cbn [fst snd].
  replace ((m <? 0) || (Z.of_nat (length bd) <? m)) with false by lia.
  replace (Nat.min (length bd - Z.to_nat m) (length p)) with (length p) by lia.
  rewrite firstn_all, skipn_all2 by lia. rewrite app_nil_r. reflexivity.
Qed.
Lemma set_at_end : forall bd bs m c, 0 <= m -> Z.of_nat (length bd) = m + 1 ->
  sl_set (bd, bs) m c = Some (firstn (Z.to_nat m) bd ++ [zb c], bs).
Proof.
  intros bd bs m c Hm Hl. unfold sl_set, sl_len. cbn [fst snd].
  replace ((m <? 0) || (Z.of_nat (length bd) <=? m)) with false by lia.
  rewrite skipn_all2 by lia. reflexivity.
Qed.

(* Write / WriteString / WriteByte: lastRead = opInvalid, room for the bytes (by reslicing, else grow), the bytes
   stored at the end *)
Ltac st_eq :=
  repeat match goal with
    | |- (_, _) = (_, _) => f_equal | |- Some _ = Some _ => f_equal
    | |- mkpc _ _ _ _ _ = mkpc _ _ _ _ _ => f_equal | |- Res _ _ _ = Res _ _ _ => f_equal
    | |- _ :: _ = _ :: _ => f_equal end;
  try reflexivity; try lia.

Ltac put_proof rup maxalloc nil d sp o Hrup Hwf need :=
  cbv zeta; rewrite ?try_grow_spec, ?try_grow_ref_spec by lia;
  unfold cstep, c_put, ensure, set_last, blen, zlen, abs_pc, sl_cap, opInvalid; cbn [fst snd data off cap isnil last_read];
  rewrite ?app_length;
  replace (Z.of_nat (length d + length sp) - Z.of_nat (length d)) with (Z.of_nat (length sp)) by lia;
  destruct (need <=? Z.of_nat (length sp)) eqn:Efit; cbv beta iota zeta; cbn [negb];
  [ first [ rewrite copy_at_end by (rewrite ?app_length, ?firstn_length; lia)
          | rewrite set_at_end by (rewrite ?app_length, ?firstn_length; lia) ];
    rewrite Nat2Z.id, firstn_len_app; wv_unfold; rewrite ?app_length, ?firstn_length, ?skipn_length; cbn [length];
    st_eq
  | let H := fresh "H" in
    pose proof (grow_int_cases rup maxalloc nil d sp o 0 need Hrup Hwf ltac:(lia)) as H;
    change buf_grow_int_ref with Buffers.buf_grow_int || idtac;
    unfold abs_pc, sl_cap in H; cbn [fst snd] in H;
    destruct (Buffers.buf_grow_int (d, sp) o 0 (fun _ => nil) (grow_slice_oracle rup maxalloc) need)
      as [m [[[bd bs] o'] l']|[[b o'] l']|q [[b o'] l']];
    [ let s' := fresh "s" in
      destruct H as (s' & -> & Hd & Ho & Hc & Hl & Hm & Hlen); cbn [fst snd] in *;
      first [ rewrite copy_at_end by lia | rewrite set_at_end by lia ];
      destruct s' as [sd so sc sn sl]; cbn [data off cap isnil last_read] in *; subst;
      wv_unfold; rewrite ?app_length, ?firstn_length; cbn [length];
      st_eq
    | rewrite H; reflexivity
    | rewrite H; reflexivity ] ].

Lemma gen_buf_write : forall rup maxalloc nil (d sp : bytes) o l pd psp,
  (forall c, c <= rup c) -> st_wf nil ((d, sp), o, l) = true ->
  wview (bview nil (fun v : Z * err => Res [fst v] [] (snd v))
           (Buffers.buf_write (d, sp) o l (fun _ => nil) (grow_slice_oracle rup maxalloc) (pd, psp)))
  = wview (cstep rup maxalloc (abs_pc nil ((d, sp), o, l)) (OWrite pd)).
Proof.
  intros rup maxalloc nil d sp o l pd psp Hrup Hwf.
  unfold Buffers.buf_write, buf_write_ref, sl_bytes, sl_len. cbn [fst snd].
  put_proof rup maxalloc nil d sp o Hrup Hwf (Z.of_nat (length pd)).
Qed.

Lemma gen_buf_write_string : forall rup maxalloc nil (d sp : bytes) o l str,
  (forall c, c <= rup c) -> st_wf nil ((d, sp), o, l) = true ->
  wview (bview nil (fun v : Z * err => Res [fst v] [] (snd v))
           (Buffers.buf_write_string (d, sp) o l (fun _ => nil) (grow_slice_oracle rup maxalloc) str))
  = wview (cstep rup maxalloc (abs_pc nil ((d, sp), o, l)) (OWriteString str)).
Proof.
  intros rup maxalloc nil d sp o l str Hrup Hwf.
  unfold Buffers.buf_write_string, buf_write_string_ref.
  put_proof rup maxalloc nil d sp o Hrup Hwf (Z.of_nat (length str)).
Qed.

Lemma gen_buf_write_byte : forall rup maxalloc nil (d sp : bytes) o l c,
  (forall c, c <= rup c) -> st_wf nil ((d, sp), o, l) = true ->
  wview (bview nil res_err (Buffers.buf_write_byte (d, sp) o l (fun _ => nil) (grow_slice_oracle rup maxalloc) (bz c)))
  = wview (cstep rup maxalloc (abs_pc nil ((d, sp), o, l)) (OWriteByte c)).
Proof.
  intros rup maxalloc nil d sp o l c Hrup Hwf.
  unfold Buffers.buf_write_byte, buf_write_byte_ref.
  put_proof rup maxalloc nil d sp o Hrup Hwf 1; rewrite ?zb_bz; st_eq.
Qed.

Lemma sl_to_cut : forall bd bs m, 0 <= m <= Z.of_nat (length bd) ->
  sl_to (bd, bs) m = Some (firstn (Z.to_nat m) bd, skipn (Z.to_nat m) bd ++ bs).
Proof.
  intros bd bs m H. unfold sl_to, sl_cap, sl_all. cbn [fst snd].
  replace ((m <? 0) || (Z.of_nat (length bd + length bs) <? m)) with false by lia.
  rewrite firstn_app_le, skipn_app_le by lia. reflexivity.
Qed.
Lemma sl_range_spare : forall x y, sl_range (x, y) (Z.of_nat (length x)) (sl_cap (x, y)) = Some (y, []).
Proof.
  intros x y. unfold sl_range, sl_cap, sl_all. cbn [fst snd].
  replace ((Z.of_nat (length x) <? 0) || (Z.of_nat (length x + length y) <? Z.of_nat (length x))
           || (Z.of_nat (length x + length y) <? Z.of_nat (length x + length y))) with false by lia.
  rewrite !Nat2Z.id, skipn_len_app. replace (Z.to_nat (Z.of_nat (length x + length y) - Z.of_nat (length x))) with (length y) by lia.
  rewrite firstn_all, <- app_length, skipn_all. reflexivity.
Qed.
Lemma rd_read_data : forall x y bs0 e t,
  rd_read (x, y) (RData bs0 e :: t) (y, []) =
  BOk (Z.of_nat (length (firstn (length y) bs0)), rerr_err e) ((x, firstn (length y) bs0 ++ skipn (length (firstn (length y) bs0)) y), t).
Proof.
  intros x y bs0 e t. unfold rd_read, sl_cap, sl_len, sl_all. cbn [fst snd].
  replace (Z.to_nat (Z.of_nat (length x + length y) - Z.of_nat (length y))) with (length x) by lia.
  rewrite firstn_len_app, skipn_app_exact. rewrite firstn_len_app, skipn_len_app. reflexivity.
Qed.
Lemma sl_to_app : forall x g rest, sl_to (x, g ++ rest) (Z.of_nat (length x) + Z.of_nat (length g)) = Some (x ++ g, rest).
Proof.
  intros x g rest. unfold sl_to, sl_cap, sl_all. cbn [fst snd]. rewrite app_length.
  replace ((Z.of_nat (length x) + Z.of_nat (length g) <? 0)
           || (Z.of_nat (length x + (length g + length rest)) <? Z.of_nat (length x) + Z.of_nat (length g))) with false by lia.
  replace (Z.to_nat (Z.of_nat (length x) + Z.of_nat (length g))) with (length (x ++ g)) by (rewrite app_length; lia).
  rewrite app_assoc, firstn_len_app, skipn_len_app. reflexivity.
Qed.

Lemma grow_off : forall rup maxalloc s n s', 0 <= off s <= blen s -> grow rup maxalloc s n = GOk s' -> 0 <= off s' <= blen s'.
Proof.
  intros rup maxalloc s n s' H. unfold grow, creset, clen, blen, zlen, contents in *. destruct s as [sd so sc sn sl].
  cbn [data off cap isnil last_read] in *.
  repeat (gen_split; cbn [data off cap isnil last_read] in *; try discriminate);
  intros Eq_; injection Eq_ as <-; cbn [data off cap isnil last_read length]; lia.
Qed.

(* ReadFrom: the reader is a script; every round grows by MinRead, hands the reader the whole spare capacity and
   takes what it delivered *)
Lemma gen_buf_read_from : forall rup maxalloc nil eis (d sp : bytes) o l script,
  (forall c, c <= rup c) -> 0 <= o <= Z.of_nat (length d) ->
  wview (bview_rf nil (Buffers.buf_read_from (d, sp) o l (fun _ => nil) (grow_slice_oracle rup maxalloc) eis tt script))
  = wview (cstep rup maxalloc (abs_pc nil ((d, sp), o, l)) (OReadFrom script)).
Proof.
  intros rup maxalloc nil eis d sp o l script Hrup Hwf.
  unfold Buffers.buf_read_from, buf_read_from_ref, cstep. cbv zeta.
  change buf_grow_int_ref with Buffers.buf_grow_int || idtac.
  match goal with |- context [go_loop_b _ ?F _] => set (F' := F) end.
  assert (L : forall script fuel nil2 (d sp : bytes) o l n e0, 0 <= o <= Z.of_nat (length d) -> (length script < fuel)%nat ->
    exists r, go_loop_b fuel F' ((d, sp), n, e0, o, l, script) = Some (LrEnd r)
      /\ wview (bview_rf nil2 r) = wview (c_readfrom rup maxalloc (abs_pc nil2 ((d, sp), o, l)) script n)).
  { intros scr. induction scr as [|a t IH]; intros fuel nil2 d1 sp1 o1 l1 n e0 Hw Hf;
    (destruct fuel as [|fuel]; [cbn [length] in Hf; lia|]); cbn [go_loop_b]; unfold F' at 1; cbv beta iota zeta.
    all: pose proof (grow_int_cases_g rup maxalloc nil nil2 d1 sp1 o1 l1 512 Hrup Hw ltac:(intros E; discriminate E) ltac:(lia)) as G.
    all: revert G; destruct (Buffers.buf_grow_int (d1, sp1) o1 l1 (fun _ => nil) (grow_slice_oracle rup maxalloc) 512)
           as [m [[[bd bs] o'] l']|[[b o'] l']|q [[b o'] l']]; cbv beta iota zeta; intros G.
    all: try (eexists; split; [reflexivity|]; cbn [c_readfrom]; unfold MinRead; rewrite G; reflexivity).
    all: destruct G as (s' & Gs & Hd & Ho & Hc & Hl & Hm & Hlen); cbn [fst snd] in *.
    all: assert (Hoff : 0 <= off s' <= blen s')
           by (eapply grow_off; [|exact Gs]; unfold abs_pc, blen, zlen; cbn [data off fst]; exact Hw).
    all: rewrite sl_to_cut by lia.
    all: set (x := firstn (Z.to_nat m) bd) in *; set (y := skipn (Z.to_nat m) bd ++ bs).
    all: assert (Hmx : m = Z.of_nat (length x)) by (rewrite Hm, Hd; reflexivity).
    all: rewrite Hmx; rewrite sl_range_spare.
    all: assert (Hs' : forget s' = forget (abs_pc nil2 ((x, y), o', l'))).
    1,3: (destruct s' as [sd so sc sn sl]; unfold forget, abs_pc, sl_cap in *; cbn [data off cap isnil last_read fst snd] in *;
          subst sd so sc sl; f_equal; try reflexivity; unfold x, y; rewrite ?app_length, ?firstn_length, ?skipn_length; lia).
    - (* the script is used up: (0, io.EOF) *)
      cbn [rd_read]. cbv beta iota zeta. cbn [Z.ltb Z.compare].
      rewrite Z.add_0_r, sl_to_cut by lia. rewrite Nat2Z.id, firstn_all, skipn_all. cbn [app err_eqb].
      eexists; split; [reflexivity|]. cbn [c_readfrom]. unfold MinRead. rewrite Gs.
      unfold wview, bview_rf. cbn [fst snd halts]. rewrite Hs', Z.add_0_r. reflexivity.
    - destruct a as [bs0 e|].
      + rewrite rd_read_data. cbv beta iota zeta. set (got := firstn (length y) bs0).
        replace (Z.of_nat (length got) <? 0) with false by lia.
        rewrite sl_to_app.
        assert (Hgot : got = ztake (cap s' - blen s') bs0).
        { unfold got, ztake. f_equal. apply (f_equal cap) in Hs'. unfold forget, abs_pc, sl_cap, blen, zlen in *.
          cbn [cap data fst snd] in *. rewrite Hd in *. fold x in Hs' |- *. lia. }
        cbn [c_readfrom]. unfold MinRead. rewrite Gs. rewrite <- Hgot.
        assert (Hs2 : forget (cappend s' got) = forget (abs_pc nil2 ((x ++ got, skipn (length got) y), o', l'))).
        { destruct s' as [sd so sc sn sl]. unfold forget, cappend, abs_pc, sl_cap in *. cbn [data off cap isnil last_read fst snd] in *.
          injection Hs' as -> -> -> ->. f_equal. rewrite !app_length, skipn_length.
          assert (length got <= length y)%nat by (unfold got; rewrite firstn_length; lia). lia. }
        destruct e; cbn [rerr_err err_eqb err_is_enil negb].
        * (* RNil: next round *)
          destruct (IH fuel (isnil (cappend s' got)) (x ++ got) (skipn (length got) y) o' l' (n + Z.of_nat (length got)) e0) as (r & Hr1 & Hr2).
          { rewrite app_length. unfold blen, zlen in Hoff. rewrite Hd in Hoff. fold x in Hoff. lia. }
          { cbn [length] in Hf. lia. }
          exists r. split; [exact Hr1|].
          assert (Hst : abs_pc (isnil (cappend s' got)) ((x ++ got, skipn (length got) y), o', l') = cappend s' got).
          { destruct s' as [sd so sc sn sl]. unfold forget, cappend, abs_pc, sl_cap in *. cbn [data off cap isnil last_read fst snd] in *.
            injection Hs2 as E1 E2 E3 E4. rewrite E1, E2, E3, E4. injection Hs' as -> _ _ _. reflexivity. }
          transitivity (wview (bview_rf (isnil (cappend s' got)) r));
            [destruct r as [v [[[? ?] ?] ?]|[[[? ?] ?] ?]|? [[[? ?] ?] ?]]; reflexivity|].
          rewrite Hr2. unfold zlen. f_equal. f_equal. exact Hst.
        * (* REOF *)
          eexists; split; [reflexivity|]. unfold wview, bview_rf. cbn [fst snd halts]. rewrite Hs2. reflexivity.
        * (* RErr *)
          eexists; split; [reflexivity|]. unfold wview, bview_rf. cbn [fst snd halts]. rewrite Hs2. reflexivity.
      + (* RNeg *)
        cbn [rd_read]. cbv beta iota zeta. cbn [Z.ltb Z.compare].
        eexists; split; [reflexivity|]. cbn [c_readfrom]. unfold MinRead. rewrite Gs. reflexivity. }
  destruct (L script (S (length script)) nil d sp o 0 0 ENil Hwf ltac:(lia)) as (r & Hr1 & Hr2).
  match goal with |- context [go_loop_b ?fl F' ?st] =>
    let H := fresh "H" in assert (H : go_loop_b fl F' st = Some (LrEnd r)) by exact Hr1; rewrite H end.
  exact Hr2.
Qed.

(* WriteRune(r), r an int32: an ASCII rune goes through WriteByte, any other one is encoded behind room for UTFMax bytes *)
Lemma append_in_fits : forall x y (e : bytes), (length e <= length y)%nat ->
  sl_append_in (x, y) e = Some (x ++ e, skipn (length e) y).
Proof.
  intros x y e H. unfold sl_append_in. cbn [fst snd]. replace (length e <=? length y)%nat with true by (symmetry; apply Nat.leb_le; exact H).
  reflexivity.
Qed.

Lemma gen_buf_write_rune : forall rup maxalloc nil (d sp : bytes) o l r,
  (forall c, c <= rup c) -> st_wf nil ((d, sp), o, l) = true -> -2147483648 <= r < 2147483648 ->
  wview (bview nil (fun v : Z * err => Res [fst v] [] (snd v))
           (Buffers.buf_write_rune (d, sp) o l (fun _ => nil) (grow_slice_oracle rup maxalloc) r))
  = wview (cstep rup maxalloc (abs_pc nil ((d, sp), o, l)) (OWriteRune r)).
Proof.
  intros rup maxalloc nil d sp o l r Hrup Hwf Hr.
  unfold Buffers.buf_write_rune, buf_write_rune_ref. cbv zeta.
  change buf_write_byte_ref with Buffers.buf_write_byte || idtac.
  change (cstep rup maxalloc (abs_pc nil (d, sp, o, l)) (OWriteRune r)) with
    (if (0 <=? r) && (r <? 128) then c_put rup maxalloc (abs_pc nil (d, sp, o, l)) 1 [zb r] (Res [1] [] ENil)
     else c_put rup maxalloc (abs_pc nil (d, sp, o, l)) UTFMax (encode_rune r) (Res [zlen (encode_rune r)] [] ENil)).
  assert (Hc : (r mod 4294967296 <? 128) = (0 <=? r) && (r <? 128)).
  { destruct (0 <=? r) eqn:E0.
    - rewrite Z.mod_small by lia. reflexivity.
    - replace (r mod 4294967296) with (r + 4294967296); [lia|].
      symmetry. rewrite <- (Z.mod_small (r + 4294967296) 4294967296) by lia.
      rewrite <- Z.add_mod_idemp_r, Z.mod_same, Z.add_0_r by lia. reflexivity. }
  rewrite Hc. destruct ((0 <=? r) && (r <? 128)) eqn:Ea.
  - (* ASCII: WriteByte(byte(r)) *)
    rewrite Z.mod_small by lia. rewrite <- (bz_zb r) at 1 by lia.
    pose proof (gen_buf_write_byte rup maxalloc nil d sp o l (zb r) Hrup Hwf) as H.
    unfold cstep, c_put in H. unfold c_put.
    destruct (ensure rup maxalloc (set_last (abs_pc nil (d, sp, o, l)) opInvalid) 1) as [s2|q];
    destruct (Buffers.buf_write_byte (d, sp) o l (fun _ => nil) (grow_slice_oracle rup maxalloc) (bz (zb r))) as [e [[b o'] l']|[[b o'] l']|p [[b o'] l']];
    unfold wview, bview, res_err, halts in *; cbn [fst snd] in *; try discriminate;
    inversion H; try reflexivity; congruence.
  - (* encoded *)
    pose proof (encode_len r) as He.
    rewrite ?try_grow_spec, ?try_grow_ref_spec by lia.
    unfold c_put, ensure, set_last, blen, zlen, abs_pc, sl_cap, opInvalid, UTFMax; cbn [fst snd data off cap isnil last_read].
    replace (Z.of_nat (length d + length sp) - Z.of_nat (length d)) with (Z.of_nat (length sp)) by lia.
    destruct (4 <=? Z.of_nat (length sp)) eqn:Efit; cbv beta iota zeta; cbn [negb].
    + rewrite sl_to_cut by (rewrite app_length; lia).
      rewrite Nat2Z.id, firstn_len_app, skipn_len_app, firstn_skipn.
      rewrite append_in_fits by lia.
      wv_unfold; rewrite ?app_length, ?skipn_length, ?app_length; st_eq.
    + pose proof (grow_int_cases rup maxalloc nil d sp o 0 4 Hrup Hwf ltac:(lia)) as H.
      change buf_grow_int_ref with Buffers.buf_grow_int || idtac.
      unfold abs_pc, sl_cap in H; cbn [fst snd] in H.
      destruct (Buffers.buf_grow_int (d, sp) o 0 (fun _ => nil) (grow_slice_oracle rup maxalloc) 4)
        as [m [[[bd bs] o'] l']|[[b o'] l']|q [[b o'] l']].
      * destruct H as (s' & -> & Hd & Ho & Hc' & Hl & Hm & Hlen); cbn [fst snd] in *.
        rewrite sl_to_cut by lia.
        rewrite append_in_fits by (rewrite app_length, skipn_length; lia).
        destruct s' as [sd so sc sn sl]; cbn [data off cap isnil last_read] in *; subst.
        wv_unfold; rewrite ?app_length, ?firstn_length, ?skipn_length, ?app_length, ?skipn_length; st_eq.
      * rewrite H; reflexivity.
      * rewrite H; reflexivity.
Qed.
