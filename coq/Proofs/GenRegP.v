(* The translation of RegisterLevel regenerated from the source (Gen/Registry.v) against Level.register,
   for every well-formed registry (RegRef.reg_wf_b), and the preservation of that well-formedness. *)
Require Import Verif.Model.Base Verif.Model.Decision Verif.Model.Dec Verif.Model.GoSem Verif.Model.Level Verif.Model.RegRef.
Require Import Verif.Proofs.GenRouteP.
Require Import Verif.Corr.C01.
Require Verif.Gen.Registry.
Require Import Lia ZifyBool ZifyNat.

Lemma memZ_false_notin all v : memZ all v = false -> forall x, In x all -> x <> v.
Proof.
  unfold memZ. intros H x Hx E. subst x. assert (existsb (Z.eqb v) all = true).
  { apply existsb_exists. exists v. split; [exact Hx|apply Z.eqb_refl]. } congruence.
Qed.

Lemma fresh_lookup {V} (m : list (Z * V)) all v : keys_sub m all = true -> memZ all v = false -> lookupZ m v = None.
Proof.
  unfold keys_sub. intros H Hv. induction m as [|[k x] m IH]; [reflexivity|]. cbn [forallb fst] in H.
  apply andb_prop in H. destruct H as [Hk Hm]. cbn [lookupZ].
  destruct (k =? v) eqn:E; [|apply IH; exact Hm]. apply Z.eqb_eq in E. subst k. congruence.
Qed.

Lemma set_fresh {V} (m : list (Z * V)) k (x : V) : lookupZ m k = None -> mapZ_set m k x = m ++ [(k, x)].
Proof. unfold mapZ_set. intros ->. reflexivity. Qed.
Lemma setB_fresh {V} (m : list (bytes * V)) k (x : V) : lookupB m k = None -> mapB_set m k x = m ++ [(k, x)].
Proof. unfold mapB_set. intros ->. reflexivity. Qed.

(* the search loop over allLevels, whatever its shape *)
Section Find.
Variable v : Z. Variable c : option bytes.
Variable F : bool * option (option bytes) -> Z -> bool * option (option bytes).
Hypothesis F_stop : forall x u, F (true, x) u = (true, x).
Hypothesis F_go : forall u, F (false, None) u = if u =? v then (true, Some c) else (false, None).
Lemma find_loop : forall all, fold_left F all (false, None) = if memZ all v then (true, Some c) else (false, None).
Proof.
  assert (S : forall all x, fold_left F all (true, x) = (true, x)).
  { induction all as [|u all IH]; intros x; cbn [fold_left]; [reflexivity|]. rewrite F_stop. apply IH. }
  induction all as [|u all IH]; [reflexivity|]. cbn [fold_left]. rewrite F_go. unfold memZ. cbn [existsb].
  rewrite (Z.eqb_sym v u). destruct (u =? v); cbn [orb]; [apply S|exact IH].
Qed.
End Find.

Lemma tag_row_at v ts i m : 0 <= i < 6 ->
  tag_row v ts (i, m) = (i, if negb (bytes_eqb (tag_at ts i) []) then m ++ [(v, tag_at ts i)] else m).
Proof.
  intros H. unfold tag_row, tag_at. cbn [fst snd].
  replace (i <? 0) with false by lia. replace ((0 <=? i) && (i <? 6)) with true by lia.
  destruct (nth_error ts (Z.to_nat i)) as [[|c s]|]; reflexivity.
Qed.

Lemma tags_shape (tags : list (Z * list (Z * bytes))) : list_eqb Z.eqb (map fst tags) [0; 1; 2; 3; 4; 5] = true ->
  exists m0 m1 m2 m3 m4 m5, tags = [(0, m0); (1, m1); (2, m2); (3, m3); (4, m4); (5, m5)].
Proof.
  intros H.
  destruct tags as [|[k0 m0] [|[k1 m1] [|[k2 m2] [|[k3 m3] [|[k4 m4] [|[k5 m5] [|? ?]]]]]]]; cbn in H; try discriminate;
    try (rewrite ?andb_false_r in H; discriminate).
  rewrite !andb_true_iff in H. destruct H as (A0 & A1 & A2 & A3 & A4 & A5 & _).
  apply Z.eqb_eq in A0, A1, A2, A3, A4, A5. subst. eauto 10.
Qed.

(* the loop over the six rows of shortTagMap, whatever its shape *)
Section TagLoop.
Variable v : Z. Variable ts : list bytes.
Variable F : list (Z * list (Z * bytes)) * Z -> loop_step (list (Z * list (Z * bytes)) * Z).
Hypothesis F_step : forall tg i, 0 <= i < 6 ->
  F (tg, i) = if negb (bytes_eqb (tag_at ts i) [])
              then match map2_set tg i v (tag_at ts i) with None => LoopPanic | Some tg' => LoopNext (tg', i + 1) end
              else LoopNext (tg, i + 1).
Hypothesis F_done : forall tg, F (tg, 6) = LoopDone (tg, 6).

Lemma tag_loop : forall m0 m1 m2 m3 m4 m5,
  lookupZ m0 v = None -> lookupZ m1 v = None -> lookupZ m2 v = None ->
  lookupZ m3 v = None -> lookupZ m4 v = None -> lookupZ m5 v = None ->
  go_loop 7 F ([(0, m0); (1, m1); (2, m2); (3, m3); (4, m4); (5, m5)], 0) =
  Some (map (tag_row v ts) [(0, m0); (1, m1); (2, m2); (3, m3); (4, m4); (5, m5)], 6).
Proof.
  intros m0 m1 m2 m3 m4 m5 F0 F1 F2 F3 F4 F5. cbn [map]. rewrite !tag_row_at by lia.
  do 6 (cbn [go_loop]; rewrite F_step by lia;
        match goal with |- context [negb (bytes_eqb (tag_at ts ?i) [])] => destruct (negb (bytes_eqb (tag_at ts i) [])) end;
        unfold map2_set, mapZ_set; cbn [lookupZ mapZ_replace Z.eqb Pos.eqb]; rewrite ?F0, ?F1, ?F2, ?F3, ?F4, ?F5;
        cbv beta iota; cbn [Z.add Pos.add Pos.succ Pos.add_carry]).
  all: cbn [go_loop]; rewrite F_done; reflexivity.
Qed.
End TagLoop.

Lemma wf_parts g : reg_wf_b g = true ->
  keys_sub (r_l2s g) (r_all g) = true /\ keys_sub (r_as g) (r_all g) = true /\ keys_sub (r_colors g) (r_all g) = true
  /\ forallb (memZ (r_all g)) (r_errdev g) = true
  /\ forallb (fun row : Z * list (Z * bytes) => keys_sub (snd row) (r_all g)) (r_tags g) = true
  /\ list_eqb Z.eqb (map fst (r_tags g)) [0; 1; 2; 3; 4; 5] = true.
Proof. unfold reg_wf_b. rewrite !andb_true_iff. tauto. Qed.

Lemma errdev_fresh (errm : list (Z * bool)) all v : forallb (memZ all) (map fst errm) = true -> memZ all v = false -> lookupZ errm v = None.
Proof.
  intros H Hv. induction errm as [|[k b] m IH]; [reflexivity|]. cbn [map fst forallb] in H.
  apply andb_prop in H. destruct H as [Hk Hm]. cbn [lookupZ].
  destruct (k =? v) eqn:E; [|apply IH; exact Hm]. apply Z.eqb_eq in E. subst k. congruence.
Qed.

Lemma gen_register : forall g v t o errm, reg_wf_b g = true -> map fst errm = r_errdev g ->
  view_reg (Registry.register (r_all g) (r_l2s g) (r_s2l g) (r_tags g) (r_colors g) (r_as g) errm v t
              (o_tags o) (o_clr o) (o_bg o) (o_treat o) (o_err o))
  = Some (snd (register g v t o), fst (register g v t o)).
Proof.
  intros g v t o errm Hwf Herr.
  destruct (wf_parts g Hwf) as (Hl & Ha & Hc & He & Ht & Hs).
  destruct (tags_shape _ Hs) as (m0 & m1 & m2 & m3 & m4 & m5 & Etags).
  destruct g as [all l2s s2l tags as_ errdev colors]. cbn [r_all r_l2s r_s2l r_tags r_as r_errdev r_colors] in *. subst tags errdev.
  lazymatch eval cbv delta [Registry.register] in Registry.register with
  | register_ref =>
      (* the site fell back on the reference *)
      unfold Registry.register, register_ref, register; cbn [r_all r_l2s r_s2l r_tags r_as r_errdev r_colors];
      destruct (o_err o) eqn:Eerr; (destruct (memZ all v); [|destruct (lookupB s2l (to_lower t))]);
      cbn -[tags_add to_lower Z.ltb Z.eqb]; rewrite ?Eerr; cbn -[tags_add to_lower Z.ltb Z.eqb];
      rewrite ?map_app; reflexivity
  | _ =>
      (* the translation: one tactic expression, so that nothing runs after the fall-back branch closed the goal *)
      unfold Registry.register, register; cbn [r_all r_l2s r_s2l r_tags r_as r_errdev r_colors]; cbv zeta;
      match goal with |- context [fold_left ?F all ?i] =>
        rewrite (find_loop v (Some dup_value_msg) F)
          by (intros; cbv beta iota zeta; try reflexivity;
              repeat (gen_split; gen_inj; try reflexivity; try discriminate; try lia)) end;
      destruct (memZ all v) eqn:Ev; cbv beta iota zeta;
      [ cbn [view_reg]; reflexivity | ];
      destruct (lookupB s2l (to_lower t)) as [l|] eqn:Et;
      [ cbn [view_reg]; reflexivity | ];
      (* a fresh value and title: every map write is an append *)
      cbn [forallb snd] in Ht; rewrite !andb_true_iff in Ht; destruct Ht as (T0 & T1 & T2 & T3 & T4 & T5 & _);
      rewrite (set_fresh l2s) by (eapply fresh_lookup; eassumption);
      rewrite (setB_fresh s2l) by exact Et;
      rewrite ?(set_fresh colors) by (eapply fresh_lookup; eassumption);
      rewrite ?(set_fresh as_) by (eapply fresh_lookup; eassumption);
      rewrite ?(set_fresh errm) by (eapply errdev_fresh; eassumption);
      unfold tags_add;
      match goal with |- context [go_loop _ ?F _] =>
        rewrite (tag_loop v (o_tags o) F)
          by (first [ eapply fresh_lookup; eassumption
                    | intros; cbv beta iota zeta; try reflexivity;
                      repeat (gen_split; gen_inj; try reflexivity; try discriminate; try lia) ]) end;
      cbn [view_reg code_of fst snd]; change lv_max with 12;
      destruct (o_clr o =? -1); destruct (o_bg o =? -1); destruct (o_treat o <? 12); destruct (o_err o);
      cbn [negb]; rewrite ?map_app; reflexivity
  end.
Qed.

(* the well-formedness holds for the tables of the source and is preserved by every registration *)
Lemma init_reg_wf : reg_wf_b init_registry = true.
Proof. vm_compute. reflexivity. Qed.

Lemma memZ_app_r all v k : memZ all k = true -> memZ (all ++ [v]) k = true.
Proof. unfold memZ. rewrite existsb_app. intros ->. reflexivity. Qed.
Lemma memZ_app_last all v : memZ (all ++ [v]) v = true.
Proof. unfold memZ. rewrite existsb_app. cbn. rewrite Z.eqb_refl, orb_true_r. reflexivity. Qed.
Lemma keys_sub_weaken {V} (m : list (Z * V)) all v : keys_sub m all = true -> keys_sub m (all ++ [v]) = true.
Proof.
  unfold keys_sub. rewrite !forallb_forall. intros H kv Hk. apply memZ_app_r. apply H. exact Hk.
Qed.
Lemma keys_sub_app {V} (m : list (Z * V)) all v (x : V) : keys_sub m all = true -> keys_sub (m ++ [(v, x)]) (all ++ [v]) = true.
Proof.
  intros H. unfold keys_sub. rewrite forallb_app. fold (keys_sub m (all ++ [v])). rewrite (keys_sub_weaken m all v H).
  cbn. rewrite memZ_app_last. reflexivity.
Qed.

Lemma register_wf g v t o : reg_wf_b g = true -> reg_wf_b (fst (register g v t o)) = true.
Proof.
  intros Hwf. unfold register. destruct (memZ (r_all g) v); [exact Hwf|].
  destruct (lookupB (r_s2l g) (to_lower t)); [exact Hwf|]. cbn [fst].
  destruct (wf_parts g Hwf) as (Hl & Ha & Hc & He & Ht & Hs).
  unfold reg_wf_b. cbn [r_all r_l2s r_s2l r_tags r_as r_errdev r_colors]. rewrite !andb_true_iff. repeat split.
  - apply keys_sub_app. exact Hl.
  - destruct (o_treat o <? lv_max); [apply keys_sub_app|apply keys_sub_weaken]; exact Ha.
  - destruct (o_clr o =? -1); [apply keys_sub_weaken|apply keys_sub_app]; exact Hc.
  - assert (W : forallb (memZ (r_all g ++ [v])) (r_errdev g) = true).
    { rewrite forallb_forall in *. intros k Hk. apply memZ_app_r. apply He. exact Hk. }
    destruct (o_err o); [|exact W]. rewrite forallb_app, W. cbn. rewrite memZ_app_last. reflexivity.
  - unfold tags_add. rewrite forallb_forall in *. intros row Hrow. apply in_map_iff in Hrow.
    destruct Hrow as ([n m] & <- & Hin). specialize (Ht _ Hin). cbn [snd] in Ht. unfold tag_row. cbn [fst snd].
    destruct (nth_error (o_tags o) (Z.to_nat n)) as [[|c s]|]; cbn [snd]; try (apply keys_sub_weaken; exact Ht).
    destruct ((0 <=? n) && (n <? 6)); cbn [snd]; [apply keys_sub_app|apply keys_sub_weaken]; exact Ht.
  - unfold tags_add. rewrite map_map.
    replace (map (fun x => fst (tag_row v (o_tags o) x)) (r_tags g)) with (map fst (r_tags g)); [exact Hs|].
    apply map_ext. intros [n m]. unfold tag_row. cbn [fst snd].
    destruct (nth_error (o_tags o) (Z.to_nat n)) as [[|c s]|]; try reflexivity. destruct ((0 <=? n) && (n <? 6)); reflexivity.
Qed.
