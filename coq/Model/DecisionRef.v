(* Hand-written reference versions of the decision functions; the property
   theorems are proved about these, and Props/*.v prove Gen.f = ref.f for all
   arguments against the translation regenerated from the source on every run. *)
Require Import Verif.Model.Base Verif.Model.Decision Verif.Model.Mode Verif.Model.Level.

Definition set_json_mode_ref (s_useJSON s_useColor : bool) (b : list bool) : bool * bool :=
  let r := set_json_mode b {| useJSON := s_useJSON; useColor := s_useColor |} in (useJSON r, useColor r).
Definition set_color_mode_ref (s_useJSON s_useColor : bool) (b : list bool) : bool * bool :=
  let r := set_color_mode b {| useJSON := s_useJSON; useColor := s_useColor |} in (useJSON r, useColor r).
Definition pc_setentry_ref (e_useJSON e_useColor : bool) : bool * bool :=
  let s := {| useJSON := e_useJSON; useColor := e_useColor |} in (pc_json_mode s, pc_no_color s).

Definition set_utc_mode_ref (b : list bool) : Z :=
  fold_left (fun _ bb => if bb : bool then 2 else 1) b 2.

Definition rfc3339nano : bytes :=
  [x32;x30;x30;x36;x2d;x30;x31;x2d;x30;x32;x54;x31;x35;x3a;x30;x34;x3a;x30;x35;x2e;x39;x39;x39;x39;x39;x39;x39;x39;x39;x5a;x30;x37;x3a;x30;x30].
Definition set_time_format_ref (layout : list bytes) : bytes :=
  fold_left (fun lay ll => match ll with [] => lay | _ => ll end) layout rfc3339nano.

Definition set_level_ref (dbg trc : bool) (lvl : Z) : Z * bool * bool :=
  (lvl, (if lvl =? lv_debug then true else dbg), (if lvl =? lv_trace then true else trc)).

(* flags *)
Definition f_localtime : Z := 8.
Definition f_datetime : Z := 7.
Definition f_nointerrupt : Z := 1048576.
Definition f_interruptalways : Z := 2097152.
Definition has_any (flags f : Z) : bool := negb (Z.land flags f =? 0).
Definition has_all (flags f : Z) : bool := Z.land flags f =? f.

(* tail of logContext *)
Definition termination_ref (in_testing : bool) (flags : Z) (lvl : Z) : action :=
  if (negb in_testing || has_any flags f_interruptalways) && negb (has_all flags f_nointerrupt)
  then if lvl =? lv_panic then ActPanic else if lvl =? lv_fatal then ActExit (-3) else ActContinue
  else ActContinue.

Definition should_warn_ref (err : option unit) (lvl : Z) : bool :=
  negb (is_nil err) && negb (lvl =? lv_warn).

(* the std-log bridge admits when the logger admits the bridge severity *)
Definition bridge_admit_ref (f_enabled : Z -> bool) (s_lvl s_l_level : Z) : bool :=
  s_l_level <=? s_lvl.

(* the admission test as the repaired source has it (Adapters.fix_bridge = true): the fall-back of the site *)
Definition bridge_admit_now (f_enabled : Z -> bool) (s_lvl s_l_level : Z) : bool := f_enabled s_lvl.

Definition handler_enabled_ref (m : list (Z * Z)) (f_enabled : Z -> bool) (lvl : Z) : bool :=
  match lookupZ m lvl with Some l => f_enabled l | None => true end.
Definition convert_logslog_level_ref (m : list (Z * Z)) (lvl : Z) : Z :=
  match lookupZ m lvl with Some l => l | None => lv_always end.
Definition convert_level_to_logslog_ref (m : list (Z * Z)) (lvl : Z) : Z :=
  match lookupZ m lvl with Some l => l | None => 0 end.

(* Entry.Log: log/slog level -> Level (the switch of logsloglevel2Level) *)
Definition logsloglevel2level_ref (level : Z) : Z :=
  match lookupZ [(-4, lv_debug); (0, lv_info); (4, lv_warn); (8, lv_error); (-16, lv_trace); (-8, lv_trace);
                 (2, lv_info); (3, lv_info); (16, lv_fatal); (17, lv_panic)] level with
  | Some l => l
  | None => lv_fatal
  end.

Definition zone_choice_ref (utc : Z) (flags : Z) : zone :=
  if (utc =? 2) || ((utc =? 0) && negb (has_any flags f_localtime)) then ZoneUTC else ZoneOwn.

Definition time_nano : bytes :=
  [x31;x35;x3a;x30;x34;x3a;x30;x35;x2e;x30;x30;x30;x30;x30;x30;x5a;x30;x37;x3a;x30;x30].
Definition layout_choice_ref (m : list (Z * bytes)) (s_layout : bytes) (flags : Z) : bytes :=
  match s_layout with
  | _ :: _ => s_layout
  | [] => match lookupZ m (Z.land flags f_datetime) with Some l => l | None => time_nano end
  end.
