(* Specification side of property C05 (logfmt): a tokenizer for one logfmt line,
   a decoder of printed values, the expected decoded form of a record (DESIGN.md
   appendix A.2) and the domain of the property.  Executable; no proofs here.

   Nothing in this file looks at how the encoder of Model/Encode.v works: it only
   shares the record of inputs (ecfg), the value AST and its normal form
   (Model/Attrs.v), the decimal text of integers (Model/Dec.v), the level names
   (Model/Level.v) and Go's quoting (Model/Quote.v), which the property names. *)
Require Import Verif.Model.Base Verif.Model.Dec Verif.Model.Level Verif.Model.Mode.
Require Import Verif.Model.Utf8 Verif.Model.Quote Verif.Model.Attrs Verif.Model.Encode.

(* ---- bytes with a meaning in a logfmt line ---- *)
Definition is_sp (b : byte) : bool := bz b =? 32.      (* blank *)
Definition is_eq (b : byte) : bool := bz b =? 61.      (* = *)
Definition is_dq (b : byte) : bool := bz b =? 34.      (* double quote *)
Definition is_bsl (b : byte) : bool := bz b =? 92.     (* backslash *)
Definition is_lbr (b : byte) : bool := bz b =? 91.     (* [ *)
Definition is_rbr (b : byte) : bool := bz b =? 93.     (* ] *)
Definition is_comma (b : byte) : bool := bz b =? 44.

(* ---- the tokenizer ---- *)
Fixpoint skip_sp (s : bytes) : bytes :=
  match s with
  | c :: t => if is_sp c then skip_sp t else s
  | [] => []
  end.

Definition push (c : byte) (r : option (bytes * bytes)) : option (bytes * bytes) :=
  match r with Some (v, rest) => Some (c :: v, rest) | None => None end.

(* the key is everything up to the first '='; a blank or the end of the line before
   any '=' means the token is not a pair *)
Fixpoint scan_key (s : bytes) : option (bytes * bytes) :=
  match s with
  | [] => None
  | c :: t => if is_eq c then Some ([], t)
              else if is_sp c then None
              else push c (scan_key t)
  end.

(* after the opening quote: up to and including the closing unescaped quote;
   [esc] = the previous byte was an unescaped backslash *)
Fixpoint scan_quoted (esc : bool) (s : bytes) : option (bytes * bytes) :=
  match s with
  | [] => None
  | c :: t => if esc then push c (scan_quoted false t)
              else if is_dq c then Some ([c], t)
              else push c (scan_quoted (is_bsl c) t)
  end.

(* after the opening bracket: up to and including the first ']' outside a quoted element *)
Fixpoint scan_list (inq esc : bool) (s : bytes) : option (bytes * bytes) :=
  match s with
  | [] => None
  | c :: t => if inq then
                if esc then push c (scan_list true false t)
                else if is_dq c then push c (scan_list false false t)
                else push c (scan_list true (is_bsl c) t)
              else if is_rbr c then Some ([c], t)
              else push c (scan_list (is_dq c) false t)
  end.

(* a bare token ends at the next blank *)
Fixpoint scan_bare (s : bytes) : bytes * bytes :=
  match s with
  | [] => ([], [])
  | c :: t => if is_sp c then ([], s) else let '(v, r) := scan_bare t in (c :: v, r)
  end.

(* the kind of a value is decided by its first byte *)
Definition scan_value (s : bytes) : option (bytes * bytes) :=
  match s with
  | c :: t => if is_dq c then push c (scan_quoted false t)
              else if is_lbr c then push c (scan_list false false t)
              else Some (scan_bare s)
  | [] => Some ([], [])
  end.

(* what may follow a value: a blank or the end of the line *)
Definition ends_ok (s : bytes) : bool := match s with [] => true | c :: _ => is_sp c end.

(* one pair per unit of fuel *)
Fixpoint lf_loop (fuel : nat) (s : bytes) : option (list (bytes * bytes)) :=
  match fuel with
  | O => None
  | S f =>
    match skip_sp s with
    | [] => Some []
    | s1 =>
      match scan_key s1 with
      | None => None                        (* a token without '=': not a pair *)
      | Some ([], _) => None                (* empty key *)
      | Some (k, s2) =>
        match scan_value s2 with
        | None => None                      (* unterminated quote or list *)
        | Some (v, s3) =>
          if ends_ok s3 then option_map (cons (k, v)) (lf_loop f s3) else None   (* garbage glued to a value *)
        end
      end
    end
  end.

(* one line WITHOUT its final line feed: the pairs (key, value text as printed) *)
Definition lf_tokens (line : bytes) : option (list (bytes * bytes)) := lf_loop (S (length line)) line.

(* ---- decoding a printed value ---- *)
Inductive fval :=
| FQuoted (s : bytes)          (* printed as a Go-quoted string; s = the bytes it unquotes to *)
| FBare (t : bytes)            (* printed as it is: numbers, booleans, <nil> *)
| FList (l : list fval).       (* printed as [e1,e2,...] *)

Definition pushl (c : byte) (r : option (list bytes)) : option (list bytes) :=
  match r with Some (h :: t) => Some ((c :: h) :: t) | Some [] => Some [[c]] | None => None end.

(* the elements of a printed list, after the opening bracket: split at the commas outside
   quoted elements; the closing bracket must be the last byte *)
Fixpoint split_elems (inq esc : bool) (s : bytes) : option (list bytes) :=
  match s with
  | [] => None
  | c :: t => if inq then
                if esc then pushl c (split_elems true false t)
                else if is_dq c then pushl c (split_elems false false t)
                else pushl c (split_elems true (is_bsl c) t)
              else if is_rbr c then match t with [] => Some [[]] | _ => None end
              else if is_comma c then option_map (cons []) (split_elems false false t)
              else pushl c (split_elems (is_dq c) false t)
  end.

Fixpoint map_opt {X Y} (f : X -> option Y) (l : list X) : option (list Y) :=
  match l with
  | [] => Some []
  | x :: t => match f x, map_opt f t with Some y, Some r => Some (y :: r) | _, _ => None end
  end.

Definition decode_scalar (raw : bytes) : option fval :=
  match raw with
  | c :: _ => if is_dq c then option_map FQuoted (unquote_go raw) else Some (FBare raw)
  | [] => Some (FBare [])
  end.

Definition lf_decode (raw : bytes) : option fval :=
  match raw with
  | c :: t => if is_lbr c then
                match split_elems false false t with
                | Some [[]] => Some (FList [])                       (* "[]" *)
                | Some els => option_map FList (map_opt decode_scalar els)
                | None => None
                end
              else decode_scalar raw
  | [] => Some (FBare [])
  end.

(* tokenizer + decoder: the pairs (key, decoded value) of one line *)
Definition lf_parse (line : bytes) : option (list (bytes * fval)) :=
  match lf_tokens line with
  | Some ps => map_opt (fun kv => option_map (pair (fst kv)) (lf_decode (snd kv))) ps
  | None => None
  end.

(* ---- how a decoded value is printed (the inverse direction, for the statement
        "the tokens of the line are the printed forms of the expected fields") ---- *)
Fixpoint join_comma (l : list bytes) : bytes :=
  match l with
  | [] => []
  | [x] => x
  | x :: t => x ++ x2c :: join_comma t
  end.

Section Print.
Variable isprint : Z -> bool.
Fixpoint print_fval (v : fval) : bytes :=
  match v with
  | FQuoted s => quote_go isprint s
  | FBare t => t
  | FList l => x5b :: join_comma (map print_fval l) ++ [x5d]
  end.
Definition printed (kv : bytes * fval) : bytes * bytes := (fst kv, print_fval (snd kv)).
End Print.

(* ---- the expected decoded form of a record (appendix A.2) ---- *)
Definition lk_time : bytes := [x74;x69;x6d;x65].
Definition lk_logger : bytes := [x6c;x6f;x67;x67;x65;x72].
Definition lk_level : bytes := [x6c;x65;x76;x65;x6c].
Definition lk_msg : bytes := [x6d;x73;x67].
Definition lk_caller_file : bytes := [x63;x61;x6c;x6c;x65;x72;x2e;x66;x69;x6c;x65].
Definition lk_caller_line : bytes := [x63;x61;x6c;x6c;x65;x72;x2e;x6c;x69;x6e;x65].
Definition lk_caller_function : bytes := [x63;x61;x6c;x6c;x65;x72;x2e;x66;x75;x6e;x63;x74;x69;x6f;x6e].
Definition lk_caller : bytes := [x63;x61;x6c;x6c;x65;x72].
(* the names the record itself uses; an attribute named time holding a time value is printed
   by a special rule of serializeAttrs, so these names are not attribute keys of the property *)
Definition reserved (k : bytes) : bool := existsb (bytes_eqb k) [lk_time; lk_logger; lk_level; lk_msg; lk_caller].

Definition dotted (pfx k : bytes) : bytes := match pfx with [] => k | _ => pfx ++ x2e :: k end.

Definition lf_bool (b : bool) : bytes := if b then [x74;x72;x75;x65] else [x66;x61;x6c;x73;x65].
Definition lf_nil : bytes := [x3c;x6e;x69;x6c;x3e].

(* string-like kinds give back their exact bytes; numbers, booleans and nil their text;
   slices element-wise.  (A group is not a leaf; its members are, see [leaves_v].) *)
Definition fv_of_leaf (v : value) : fval :=
  match v with
  | VNil => FBare lf_nil
  | VStr s => FQuoted s
  | VErr s => FQuoted s
  | VBool b => FBare (lf_bool b)
  | VInt z => FBare (dec_of_Z z)
  | VUint z => FBare (dec_of_Z z)
  | VFloat t => FBare t
  | VComplex t => FBare t
  | VDur t => FQuoted t
  | VTime t => FQuoted t
  | VBytes s => FQuoted s
  | VFallback t => FQuoted t
  | VStrs l => FList (map FQuoted l)
  | VBools l => FList (map (fun b => FBare (lf_bool b)) l)
  | VInts l => FList (map (fun z => FBare (dec_of_Z z)) l)
  | VUints l => FList (map (fun z => FBare (dec_of_Z z)) l)
  | VFloats l => FList (map FBare l)
  | VDurs l => FList (map FQuoted l)
  | VTimes l => FList (map FQuoted l)
  | VGroup _ => FList []
  end.

(* every leaf under its dotted key, in the order of the list; an empty group gives nothing *)
Fixpoint leaves_v (dk : bytes) (v : value) {struct v} : list (bytes * fval) :=
  match v with
  | VGroup items =>
      (fix go (l : list attr) : list (bytes * fval) :=
         match l with
         | [] => []
         | ANil :: t => go t
         | A k x :: t => leaves_v (dotted dk k) x ++ go t
         end) items
  | leaf => [(dk, fv_of_leaf leaf)]
  end.
Fixpoint leaves (pfx : bytes) (l : list attr) : list (bytes * fval) :=
  match l with
  | [] => []
  | ANil :: t => leaves pfx t
  | A k x :: t => leaves_v (dotted pfx k) x ++ leaves pfx t
  end.

(* time, logger iff named, level, msg, every leaf attribute of the normalised tree
   (each level sorted by key, last of equal keys wins), the caller iff it is on *)
Definition fields_of (g : registry) (c : ecfg) (msg : bytes) (attrs : list attr) : list (bytes * fval) :=
  (lk_time, FQuoted (e_ts c))
  :: (match e_name c with [] => [] | nm => [(lk_logger, FQuoted nm)] end)
  ++ [(lk_level, FQuoted (level_string g (e_lvl c))); (lk_msg, FQuoted msg)]
  ++ leaves [] (norm_attrs attrs)
  ++ (match e_caller c with
      | None => []
      | Some (file, line, fn) =>
          [(lk_caller_file, FQuoted file); (lk_caller_line, FBare (dec_of_Z line)); (lk_caller_function, FQuoted fn)]
      end).

(* ---- the domain of the property ---- *)
(* a legal logfmt key: non-empty, no blank, no control byte, no DEL, no '=' and no quote,
   and not one of the reserved names *)
Definition key_byte_ok (b : byte) : bool :=
  (32 <? bz b) && negb (bz b =? 127) && negb (is_eq b) && negb (is_dq b).
Definition legal_key (k : bytes) : bool :=
  match k with [] => false | _ => forallb key_byte_ok k end && negb (reserved k).

(* Text produced by the Go standard library, which logg prints WITHOUT escaping it:
   - [qtext_ok]: time.Time.AppendFormat output (the record's timestamp [e_ts], VTime, the
     elements of VTimes) is put between two quote bytes as it is: printable ASCII (blanks
     allowed) without quote and backslash;
   - [bare_ok]: strconv.AppendFloat / FormatComplex output (VFloat, VComplex) is printed bare:
     printable ASCII without blank, not starting like a quoted value or a list;
   - [elem_ok]: the elements of VFloats are printed bare inside brackets: non-empty printable
     ASCII without blank, quote, comma and closing bracket.
   Every other kind (VStr, VErr, VBytes, VDur, VFallback, VStrs, VDurs, message, logger
   name, level name, caller file and function) goes through quote_go and is unrestricted. *)
Definition qtext_byte_ok (b : byte) : bool :=
  (32 <=? bz b) && (bz b <? 127) && negb (is_dq b) && negb (is_bsl b).
Definition qtext_ok (t : bytes) : bool := forallb qtext_byte_ok t.
Definition bare_byte_ok (b : byte) : bool := (32 <? bz b) && (bz b <? 127).
Definition bare_ok (t : bytes) : bool :=
  forallb bare_byte_ok t && match t with c :: _ => negb (is_dq c) && negb (is_lbr c) | [] => true end.
Definition elem_byte_ok (b : byte) : bool :=
  bare_byte_ok b && negb (is_dq b) && negb (is_comma b) && negb (is_rbr b).
Definition elem_ok (t : bytes) : bool :=
  match t with [] => false | _ => forallb elem_byte_ok t end.

(* a predicate on every key and every leaf value of an attribute tree, at every depth *)
Fixpoint tree_all (pk : bytes -> bool) (pv : value -> bool) (v : value) {struct v} : bool :=
  match v with
  | VGroup items =>
      (fix go (l : list attr) : bool :=
         match l with
         | [] => true
         | ANil :: t => go t
         | A k x :: t => pk k && tree_all pk pv x && go t
         end) items
  | leaf => pv leaf
  end.
Fixpoint attrs_all (pk : bytes -> bool) (pv : value -> bool) (l : list attr) : bool :=
  match l with
  | [] => true
  | ANil :: t => attrs_all pk pv t
  | A k x :: t => pk k && tree_all pk pv x && attrs_all pk pv t
  end.

Definition dom_leaf (v : value) : bool :=
  match v with
  | VFloat t => bare_ok t
  | VComplex t => bare_ok t
  | VTime t => qtext_ok t
  | VFloats l => forallb elem_ok l
  | VTimes l => forallb qtext_ok l
  | _ => true
  end.
Definition dom_value : value -> bool := tree_all legal_key dom_leaf.
Definition dom_attrs : list attr -> bool := attrs_all legal_key dom_leaf.

(* a blank Print (severity Always, message empty or white space only) is by design
   delivered as one bare line feed (property C02): it has no pairs and is outside
   the round-trip claim (inside the one-line claim) *)
Definition blank_print (c : ecfg) (msg : bytes) : bool := (e_lvl c =? lv_always) && all_blank msg.

Definition lf_domain (c : ecfg) (msg : bytes) (attrs : list attr) : bool :=
  negb (blank_print c msg) && qtext_ok (e_ts c) && dom_attrs attrs.

(* the weaker domain of the one-line claim: keys and standard-library text free of
   control bytes; blanks, '=' and quotes in keys cannot split a line *)
Definition clean_byte (b : byte) : bool := (32 <=? bz b) && negb (bz b =? 127).
Definition clean_text (t : bytes) : bool := forallb clean_byte t.
Definition clean_leaf (v : value) : bool :=
  match v with
  | VFloat t => clean_text t
  | VComplex t => clean_text t
  | VTime t => clean_text t
  | VFloats l => forallb clean_text l
  | VTimes l => forallb clean_text l
  | _ => true
  end.
Definition clean_value : value -> bool := tree_all clean_text clean_leaf.
Definition clean_attrs : list attr -> bool := attrs_all clean_text clean_leaf.
Definition lf_clean_domain (c : ecfg) (attrs : list attr) : bool :=
  clean_text (e_ts c) && clean_attrs attrs.
