(* C09: the pooled formatting context (slog/pc.go `type PrintCtx struct`), what
   PrintCtx.setentry + PrintCtx.set overwrite for a new record, and the record
   encoder (Entry.printImpl and its callees) written as a reader of the FIELDS of
   that context.  No proofs here.

   The value encoders are those of Model/Encode.v; this file only adds what the
   history question needs: every place where printImpl, serializeAttrs,
   printFirstLineOfMsg, printRestLinesOfMsg, printPC or Bytes() read a field of
   the context is a projection of the record below, so that a field which is not
   reset shows up as a dependence on the previous contents.

   Field by field (slog/pc.go, entry.go printImpl.., attr.go serializeAttrs):
     buf           set: buf[:0]          read by Bytes() = buf[off:] after the encoder appended to it
     off           set: 0                read by Bytes()
     lastRead      set: opInvalid        read only by UnreadByte/UnreadRune (never by the encoder)
     noQuoted      never reset           never read by any function of the package
     jsonMode      set from e.useJSON    read everywhere (punctuation)
     noColor       set from e            read everywhere (structure)
     layout        set from e            read by appendTimestamp
     utcTime       set from e            read by appendTimestamp
     dedupeAttrs   NEVER reset and READ by serializeAttrs: it is true from newPrintCtx
                   and no statement of the package assigns it afterwards, so it is a
                   constant of every pooled context (hypothesis [pooled] of the theorems;
                   the extractor checks that nothing writes it)
     lvl, msg, kvps, now, stackFrame     set from the call
     firstLine     set: ""               never read (printFirstLineOfMsg uses a local)
     restLines,eol set: "", false        written by printFirstLineOfMsg before printRestLinesOfMsg
                   reads them in colour mode; in the other modes printRestLinesOfMsg tests !noColor first
     clr, bg       set: clrBasic,clrNone overwritten from mLevelColors[lvl] when the level has an entry,
                   else READ as they are (the leak before the repair)
     cachedSource  never reset           Source.Extract overwrites Function, File and Line before every read
     prefix        set: ""               read at the entry of serializeAttrs (saved, set per value, restored)
     inGroupedMode set: false            read at the entry of serializeAttrs; nothing sets it to true
     skipFirstSep  set: false            read (and cleared) at the entry of serializeAttrs
     valueStringer set from e            read by serializeAttrs (non-nil: user code writes the values; not modelled)
*)
Require Import Verif.Model.Base Verif.Model.Dec Verif.Model.Decision Verif.Model.Level Verif.Model.Mode.
Require Import Verif.Model.Utf8 Verif.Model.Quote Verif.Model.JsonEsc Verif.Model.Attrs Verif.Model.Encode.

(* ------------------------------------------------------------------ the struct *)
Record printctx := mkpc {
  pf_buf : bytes;                       (* s.buf[:len(s.buf)]; the capacity is property C19's business *)
  pf_off : Z;
  pf_lastRead : Z;                      (* readOp: opInvalid = 0 *)
  pf_noQuoted : bool;
  pf_jsonMode : bool;
  pf_noColor : bool;
  pf_layout : bytes;
  pf_utcTime : Z;
  pf_dedupeAttrs : bool;
  pf_lvl : Z;
  pf_msg : bytes;
  pf_firstLine : bytes;
  pf_restLines : bytes;
  pf_eol : bool;
  pf_kvps : list attr;
  pf_clr : Z;
  pf_bg : Z;
  pf_now : Z;                           (* opaque id of the instant (time.Time) *)
  pf_stackFrame : Z;                    (* opaque id of the program counter *)
  pf_cachedSource : bytes * Z * bytes;  (* File, Line, Function *)
  pf_prefix : bytes;
  pf_inGroupedMode : bool;
  pf_skipFirstSep : bool;
  pf_valueStringer : Z                  (* opaque id of the interface value, 0 = nil *)
}.

(* the field names in declaration order; compared with the list the extractor
   regenerates from the source, so that a new field breaks a proof obligation *)
Definition s_ (l : list byte) : bytes := l.
Definition model_fields : list bytes := [
  s_[x62;x75;x66];                                               (* buf *)
  s_[x6f;x66;x66];                                               (* off *)
  s_[x6c;x61;x73;x74;x52;x65;x61;x64];                           (* lastRead *)
  s_[x6e;x6f;x51;x75;x6f;x74;x65;x64];                           (* noQuoted *)
  s_[x6a;x73;x6f;x6e;x4d;x6f;x64;x65];                           (* jsonMode *)
  s_[x6e;x6f;x43;x6f;x6c;x6f;x72];                               (* noColor *)
  s_[x6c;x61;x79;x6f;x75;x74];                                   (* layout *)
  s_[x75;x74;x63;x54;x69;x6d;x65];                               (* utcTime *)
  s_[x64;x65;x64;x75;x70;x65;x41;x74;x74;x72;x73];               (* dedupeAttrs *)
  s_[x6c;x76;x6c];                                               (* lvl *)
  s_[x6d;x73;x67];                                               (* msg *)
  s_[x66;x69;x72;x73;x74;x4c;x69;x6e;x65];                       (* firstLine *)
  s_[x72;x65;x73;x74;x4c;x69;x6e;x65;x73];                       (* restLines *)
  s_[x65;x6f;x6c];                                               (* eol *)
  s_[x6b;x76;x70;x73];                                           (* kvps *)
  s_[x63;x6c;x72];                                               (* clr *)
  s_[x62;x67];                                                   (* bg *)
  s_[x6e;x6f;x77];                                               (* now *)
  s_[x73;x74;x61;x63;x6b;x46;x72;x61;x6d;x65];                   (* stackFrame *)
  s_[x63;x61;x63;x68;x65;x64;x53;x6f;x75;x72;x63;x65];           (* cachedSource *)
  s_[x70;x72;x65;x66;x69;x78];                                   (* prefix *)
  s_[x69;x6e;x47;x72;x6f;x75;x70;x65;x64;x4d;x6f;x64;x65];       (* inGroupedMode *)
  s_[x73;x6b;x69;x70;x46;x69;x72;x73;x74;x53;x65;x70];           (* skipFirstSep *)
  s_[x76;x61;x6c;x75;x65;x53;x74;x72;x69;x6e;x67;x65;x72]        (* valueStringer *)
].

(* the fields [pc_set] below overwrites (= every field except the three of [never_reset_ok]) *)
Definition never_reset_ok : list bytes := [
  s_[x6e;x6f;x51;x75;x6f;x74;x65;x64];
     (* noQuoted: no function of the package reads it *)
  s_[x64;x65;x64;x75;x70;x65;x41;x74;x74;x72;x73];
     (* dedupeAttrs: true from newPrintCtx and no statement of the package assigns it
        (checked on the regenerated list of written fields): a constant of pooled contexts *)
  s_[x63;x61;x63;x68;x65;x64;x53;x6f;x75;x72;x63;x65]
     (* cachedSource: only touched through Source.Extract, which assigns Function, File
        and Line from the frame before anything reads them *)
].
Definition mem_bytes (x : bytes) (l : list bytes) : bool := existsb (bytes_eqb x) l.
Definition model_set_fields : list bytes := filter (fun f => negb (mem_bytes f never_reset_ok)) model_fields.

(* ------------------------------------------------------------------ a call *)
(* the fields of the logger (Entry) that setentry and printImpl read *)
Record econf := {
  ec_name : bytes;            (* Entry.name: read by printLoggerName from the entry itself *)
  ec_flags : mflags;          (* useJSON, useColor *)
  ec_layout : bytes;          (* timeLayout *)
  ec_utc : Z;                 (* modeUTC *)
  ec_valueStringer : Z;       (* 0 = nil *)
  ec_level : Z;               (* Entry.level: copied by setentry, then overwritten by set *)
  ec_attrs : list attr        (* Entry.attrs: copied by setentry, then overwritten by set *)
}.

(* the arguments of Entry.print *)
Record call := {
  cl_lvl : Z;
  cl_now : Z;
  cl_frame : Z;
  cl_msg : bytes;
  cl_kvps : list attr
}.

(* the process-wide settings the encoder reads (the "global flags" of the statement) *)
Record globals := {
  gl_caller : bool;           (* flags & Lcaller *)
  gl_tagw : Z;                (* levelOutputWidth *)
  gl_minw : Z                 (* minimalMessageWidth *)
}.

(* ------------------------------------------------------------------ set *)
(* PrintCtx.setentry, statement by statement *)
Definition pc_setentry (pc : printctx) (e : econf) : printctx :=
  {| pf_buf := [];                                  (* s.buf = s.buf[:0] *)
     pf_off := 0;                                   (* s.off = 0 *)
     pf_lastRead := 0;                              (* s.lastRead = opInvalid *)
     pf_noQuoted := pf_noQuoted pc;                 (* untouched *)
     pf_jsonMode := pc_json_mode (ec_flags e);      (* s.jsonMode = e.useJSON *)
     pf_noColor := pc_no_color (ec_flags e);        (* s.noColor = !useColor (useColor forced off in JSON mode) *)
     pf_layout := ec_layout e;                      (* s.layout = e.timeLayout *)
     pf_utcTime := ec_utc e;                        (* s.utcTime = e.modeUTC *)
     pf_dedupeAttrs := pf_dedupeAttrs pc;           (* untouched *)
     pf_lvl := ec_level e;                          (* s.lvl = e.level *)
     pf_msg := pf_msg pc;                           (* untouched here (set writes it) *)
     pf_firstLine := [];                            (* s.firstLine, s.restLines, s.eol = "", "", false *)
     pf_restLines := [];
     pf_eol := false;
     pf_kvps := ec_attrs e;                         (* s.kvps = e.attrs *)
     pf_clr := clr_basic;                           (* s.clr, s.bg = clrBasic, clrNone *)
     pf_bg := clr_none;
     pf_now := pf_now pc;                           (* untouched here *)
     pf_stackFrame := pf_stackFrame pc;             (* untouched here *)
     pf_cachedSource := pf_cachedSource pc;         (* untouched *)
     pf_prefix := [];                               (* s.prefix = "" *)
     pf_inGroupedMode := false;                     (* s.inGroupedMode = false *)
     pf_skipFirstSep := false;                      (* s.skipFirstSep = false *)
     pf_valueStringer := ec_valueStringer e         (* s.valueStringer = e.valueStringer *)
  |}.

(* the five assignments of PrintCtx.set after setentry *)
Definition pc_setcall (pc : printctx) (c : call) : printctx :=
  {| pf_buf := pf_buf pc; pf_off := pf_off pc; pf_lastRead := pf_lastRead pc; pf_noQuoted := pf_noQuoted pc;
     pf_jsonMode := pf_jsonMode pc; pf_noColor := pf_noColor pc; pf_layout := pf_layout pc; pf_utcTime := pf_utcTime pc;
     pf_dedupeAttrs := pf_dedupeAttrs pc;
     pf_lvl := cl_lvl c;                            (* s.lvl = lvl *)
     pf_msg := cl_msg c;                            (* s.msg = msg *)
     pf_firstLine := pf_firstLine pc; pf_restLines := pf_restLines pc; pf_eol := pf_eol pc;
     pf_kvps := cl_kvps c;                          (* s.kvps = kvps *)
     pf_clr := pf_clr pc; pf_bg := pf_bg pc;
     pf_now := cl_now c;                            (* s.now = timestamp *)
     pf_stackFrame := cl_frame c;                   (* s.stackFrame = stackFrame *)
     pf_cachedSource := pf_cachedSource pc; pf_prefix := pf_prefix pc; pf_inGroupedMode := pf_inGroupedMode pc;
     pf_skipFirstSep := pf_skipFirstSep pc; pf_valueStringer := pf_valueStringer pc |}.

(* PrintCtx.set *)
Definition pc_set (pc : printctx) (e : econf) (c : call) : printctx := pc_setcall (pc_setentry pc e) c.

(* setentry as it was before the repair f404ade: only the buffer length was reset *)
Definition pc_setentry_old (pc : printctx) (e : econf) : printctx :=
  {| pf_buf := [];
     pf_off := pf_off pc; pf_lastRead := pf_lastRead pc; pf_noQuoted := pf_noQuoted pc;
     pf_jsonMode := pc_json_mode (ec_flags e); pf_noColor := pc_no_color (ec_flags e);
     pf_layout := ec_layout e; pf_utcTime := ec_utc e; pf_dedupeAttrs := pf_dedupeAttrs pc;
     pf_lvl := ec_level e; pf_msg := pf_msg pc;
     pf_firstLine := pf_firstLine pc; pf_restLines := pf_restLines pc; pf_eol := pf_eol pc;
     pf_kvps := ec_attrs e;
     pf_clr := pf_clr pc; pf_bg := pf_bg pc;
     pf_now := pf_now pc; pf_stackFrame := pf_stackFrame pc; pf_cachedSource := pf_cachedSource pc;
     pf_prefix := pf_prefix pc; pf_inGroupedMode := pf_inGroupedMode pc; pf_skipFirstSep := pf_skipFirstSep pc;
     pf_valueStringer := ec_valueStringer e |}.
Definition pc_set_old (pc : printctx) (e : econf) (c : call) : printctx := pc_setcall (pc_setentry_old pc e) c.

(* setentry with some of its ten scratch resets left out ([keep s] = true: field s keeps the value
   the previous record left).  keep = none is setentry, keep = all is the code before the repair. *)
Inductive scratch := SOff | SLastRead | SClr | SBg | SPrefix | SInGrouped | SSkipSep | SFirstLine | SRestLines | SEol.
Definition scratch_eqb (a b : scratch) : bool :=
  match a, b with
  | SOff, SOff | SLastRead, SLastRead | SClr, SClr | SBg, SBg | SPrefix, SPrefix | SInGrouped, SInGrouped
  | SSkipSep, SSkipSep | SFirstLine, SFirstLine | SRestLines, SRestLines | SEol, SEol => true
  | _, _ => false
  end.
Definition pc_setentry_keep (keep : scratch -> bool) (pc : printctx) (e : econf) : printctx :=
  {| pf_buf := [];
     pf_off := if keep SOff then pf_off pc else 0;
     pf_lastRead := if keep SLastRead then pf_lastRead pc else 0;
     pf_noQuoted := pf_noQuoted pc;
     pf_jsonMode := pc_json_mode (ec_flags e); pf_noColor := pc_no_color (ec_flags e);
     pf_layout := ec_layout e; pf_utcTime := ec_utc e; pf_dedupeAttrs := pf_dedupeAttrs pc;
     pf_lvl := ec_level e; pf_msg := pf_msg pc;
     pf_firstLine := if keep SFirstLine then pf_firstLine pc else [];
     pf_restLines := if keep SRestLines then pf_restLines pc else [];
     pf_eol := if keep SEol then pf_eol pc else false;
     pf_kvps := ec_attrs e;
     pf_clr := if keep SClr then pf_clr pc else clr_basic;
     pf_bg := if keep SBg then pf_bg pc else clr_none;
     pf_now := pf_now pc; pf_stackFrame := pf_stackFrame pc; pf_cachedSource := pf_cachedSource pc;
     pf_prefix := if keep SPrefix then pf_prefix pc else [];
     pf_inGroupedMode := if keep SInGrouped then pf_inGroupedMode pc else false;
     pf_skipFirstSep := if keep SSkipSep then pf_skipFirstSep pc else false;
     pf_valueStringer := ec_valueStringer e |}.
Definition pc_set_keep (keep : scratch -> bool) (pc : printctx) (e : econf) (c : call) : printctx :=
  pc_setcall (pc_setentry_keep keep pc e) c.
(* the resets the encoder does not depend on: it never reads lastRead and firstLine, and writes
   restLines and eol (printFirstLineOfMsg) before it reads them (printRestLinesOfMsg, colour mode only) *)
Definition defensive (s : scratch) : bool :=
  match s with SLastRead | SFirstLine | SRestLines | SEol => true | _ => false end.

(* newPrintCtx(): what sync.Pool.New returns *)
Definition new_printctx : printctx :=
  {| pf_buf := []; pf_off := 0; pf_lastRead := 0; pf_noQuoted := true; pf_jsonMode := false; pf_noColor := false;
     pf_layout := []; pf_utcTime := 0; pf_dedupeAttrs := true; pf_lvl := 0; pf_msg := []; pf_firstLine := [];
     pf_restLines := []; pf_eol := false; pf_kvps := []; pf_clr := clr_basic; pf_bg := clr_none; pf_now := 0;
     pf_stackFrame := 0; pf_cachedSource := ([], 0, []); pf_prefix := []; pf_inGroupedMode := false;
     pf_skipFirstSep := false; pf_valueStringer := 0 |}.

(* the one property of a pooled context that no call establishes: it was made by
   newPrintCtx and nothing assigns dedupeAttrs afterwards *)
Definition pooled (pc : printctx) : Prop := pf_dedupeAttrs pc = true.

(* ------------------------------------------------------------------ outcomes *)
Inductive out :=
| Out (b : bytes)          (* printOut got these bytes *)
| NotModelled              (* markup in the message (HTML translator) or a ValueStringer (user code) *)
| Panics.                  (* an index or slice expression out of range *)
Definition out_of_option (o : option bytes) : out := match o with Some b => Out b | None => NotModelled end.

(* ------------------------------------------------------------------ the encoder as a reader of the fields *)
Section PCEnc.
Variable isprint : Z -> bool.     (* strconv.IsPrint *)
Variable g : registry.            (* level names, tags and colours (process-wide) *)
Variable render_ts : Z -> bytes -> Z -> bytes.
   (* appendTimestamp's text for (pc.now, pc.layout, pc.utcTime) under the process-wide flags: property C16 *)
Variable source_of : Z -> bytes * Z * bytes.
   (* Source.Extract(pc.stackFrame): runtime.CallersFrames + checkpath, (File, Line, Function) *)

Section Ser.
Variable m : shape.
Variable clr bg : Z.     (* pc.clr, pc.bg at the time serializeAttrs runs *)
Variable ing : bool.     (* pc.inGroupedMode: read at the entry of every serializeAttrs; nothing in the
                            modelled domain writes it during a record *)

(* Encode.ser_value with the grouping flag of the context: `grouped := inGroupedMode; if !grouped
   {_, grouped = v.(groupedValue)}`; a grouped member has no key of its own outside JSON.
   Everything that is not a group is Encode.ser_value itself. *)
Fixpoint ser_value_g (pfx : bytes) (v : value) {struct v} : bytes :=
  match v with
  | VGroup items =>
      render_members m clr bg false
        ((fix go (l : list attr) : list bytes :=
            match l with
            | [] => []
            | ANil :: t => go t
            | A k x :: t => (key_part m clr bg (ing || is_group x) (dkey m pfx k) ++ ser_value_g (dkey m pfx k) x) :: go t
            end) items)
  | leaf => ser_value isprint m clr bg pfx leaf
  end.

Fixpoint members_of_g (pfx : bytes) (l : list attr) : list bytes :=
  match l with
  | [] => []
  | ANil :: t => members_of_g pfx t
  | A k x :: t => (key_part m clr bg (ing || is_group x) (dkey m pfx k) ++ ser_value_g (dkey m pfx k) x) :: members_of_g pfx t
  end.

(* `skipSep := pc.skipFirstSep`: the first member that is written gets no separator *)
Definition render_top_g (skip : bool) (ms : list bytes) : bytes :=
  if skip then
    match ms with
    | x :: t => x ++ render_members m clr bg true t
    | [] => render_members m clr bg true []
    end
  else render_members m clr bg true ms.

(* serializeAttrs(pc, pc.kvps) called from printImpl: `prefix := pc.prefix`, `if pc.dedupeAttrs {sort; dedupe}` *)
Definition ser_top_g (pfx : bytes) (skip dedupe : bool) (attrs : list attr) : bytes :=
  render_top_g skip (members_of_g pfx (if dedupe then norm_attrs attrs else attrs)).

End Ser.

(* the shape, from the two mode fields.  jsonMode && !noColor cannot come out of setentry
   (it forces noColor in JSON mode) and is not modelled *)
Definition mode_of_pc (pc : printctx) : option shape :=
  match pf_jsonMode pc, pf_noColor pc with
  | true, true => Some ShJSON
  | false, true => Some ShLogfmt
  | false, false => Some ShColor
  | true, false => None
  end.

(* printImpl: `if aa, ok := mLevelColors[pc.lvl]; ok { pc.clr = aa[0]; if len(aa) > 1 { pc.bg = aa[1] } }`
   None: aa[0] on an empty slice *)
Definition with_colors (pc : printctx) (c b : Z) : printctx :=
  {| pf_buf := pf_buf pc; pf_off := pf_off pc; pf_lastRead := pf_lastRead pc; pf_noQuoted := pf_noQuoted pc;
     pf_jsonMode := pf_jsonMode pc; pf_noColor := pf_noColor pc; pf_layout := pf_layout pc; pf_utcTime := pf_utcTime pc;
     pf_dedupeAttrs := pf_dedupeAttrs pc; pf_lvl := pf_lvl pc; pf_msg := pf_msg pc; pf_firstLine := pf_firstLine pc;
     pf_restLines := pf_restLines pc; pf_eol := pf_eol pc; pf_kvps := pf_kvps pc;
     pf_clr := c; pf_bg := b;
     pf_now := pf_now pc; pf_stackFrame := pf_stackFrame pc; pf_cachedSource := pf_cachedSource pc;
     pf_prefix := pf_prefix pc; pf_inGroupedMode := pf_inGroupedMode pc; pf_skipFirstSep := pf_skipFirstSep pc;
     pf_valueStringer := pf_valueStringer pc |}.
Definition pick_colors (pc : printctx) : option printctx :=
  match lookupZ (r_colors g) (pf_lvl pc) with
  | Some (c :: b :: _) => Some (with_colors pc c b)
  | Some [c] => Some (with_colors pc c (pf_bg pc))
  | Some [] => None
  | None => Some pc                                   (* no entry: clr and bg stay what they are *)
  end.

(* printFirstLineOfMsg: `firstLine, pc.restLines, pc.eol = ct.splitFirstAndRestLines(pc.msg)` *)
Definition with_rest (pc : printctx) (rest : bytes) (eol : bool) : printctx :=
  {| pf_buf := pf_buf pc; pf_off := pf_off pc; pf_lastRead := pf_lastRead pc; pf_noQuoted := pf_noQuoted pc;
     pf_jsonMode := pf_jsonMode pc; pf_noColor := pf_noColor pc; pf_layout := pf_layout pc; pf_utcTime := pf_utcTime pc;
     pf_dedupeAttrs := pf_dedupeAttrs pc; pf_lvl := pf_lvl pc; pf_msg := pf_msg pc; pf_firstLine := pf_firstLine pc;
     pf_restLines := rest; pf_eol := eol;
     pf_kvps := pf_kvps pc; pf_clr := pf_clr pc; pf_bg := pf_bg pc;
     pf_now := pf_now pc; pf_stackFrame := pf_stackFrame pc; pf_cachedSource := pf_cachedSource pc;
     pf_prefix := pf_prefix pc; pf_inGroupedMode := pf_inGroupedMode pc; pf_skipFirstSep := pf_skipFirstSep pc;
     pf_valueStringer := pf_valueStringer pc |}.

(* serializeAttrs(pc, pc.kvps) *)
Definition ser_attrs_pc (m : shape) (pc : printctx) : bytes :=
  ser_top_g m (pf_clr pc) (pf_bg pc) (pf_inGroupedMode pc) (pf_prefix pc) (pf_skipFirstSep pc) (pf_dedupeAttrs pc) (pf_kvps pc).

(* `if IsAnyBitsSet(Lcaller) { s.printPC(pc) }`: pc.source() = pc.cachedSource.Extract(pc.stackFrame) *)
Definition caller_pc (gl : globals) (pc : printctx) : option (bytes * Z * bytes) :=
  if gl_caller gl then Some (source_of (pf_stackFrame pc)) else None.

(* printRestLinesOfMsg in colour mode: `if !pc.noColor && pc.restLines != "" {...; if pc.eol {'\n'}}` *)
Definition rest_lines_pc (pc : printctx) : bytes :=
  match pf_restLines pc with
  | [] => []
  | rest => x0a :: pad_rest rest (pf_clr pc) (pf_bg pc) ++ (if pf_eol pc then [x0a] else [])
  end.

Definition ts_pc (pc : printctx) : bytes := render_ts (pf_now pc) (pf_layout pc) (pf_utcTime pc).

(* everything printImpl appends to the buffer, from pc.Begin() to pc.End(true) *)
Definition body_pc (gl : globals) (name : bytes) (pc : printctx) : out :=
  if negb (pf_valueStringer pc =? 0) then NotModelled
  else
  match mode_of_pc pc with
  | None => NotModelled
  | Some ShColor =>
      match pick_colors pc with
      | None => Panics
      | Some pc1 =>
        let '(first, rest, eol) := split_first_rest (pf_msg pc1) in
        let pc2 := with_rest pc1 rest eol in
        let padded := right_pad first (gl_minw gl) in
        if has_markup padded then NotModelled
        else
        Out (echo_color clr_timestamp ++ ts_pc pc2 ++ [x7c; x20]
             ++ (match name with [] => [] | nm => lib_wrap_color_bg clr_logger_name clr_none nm ++ [x20] end)
             ++ lib_wrap_color_bg (pf_clr pc2) (pf_bg pc2) (x5b :: tag_of g (gl_tagw gl) (pf_lvl pc2) ++ [x5d]) ++ [x20]
             ++ wrap_color_and_bg padded (pf_clr pc2) (pf_bg pc2)
             ++ ser_attrs_pc ShColor pc2
             ++ caller_part isprint ShColor (caller_pc gl pc2)
             ++ rest_lines_pc pc2
             ++ [x0a])
      end
  | Some m =>      (* JSON and logfmt: clr, bg, restLines and eol are not read *)
      Out ((match m with ShJSON => [x7b] | _ => [] end)
           ++ key_token m n_time ++ colon m ++ x22 :: ts_pc pc ++ x22 :: comma m
           ++ (match name with [] => [] | nm => field isprint m n_logger nm ++ comma m end)
           ++ field isprint m n_level (level_string g (pf_lvl pc)) ++ comma m
           ++ field isprint m n_msg (pf_msg pc)
           ++ ser_attrs_pc m pc
           ++ caller_part isprint m (caller_pc gl pc)
           ++ (match m with ShJSON => [x7d] | _ => [] end) ++ [x0a])
  end.

(* PrintCtx.Bytes() = s.buf[s.off:] *)
Definition bytes_from (off : Z) (l : bytes) : out :=
  if (off <? 0) || (Z.of_nat (length l) <? off) then Panics else Out (skipn (Z.to_nat off) l).

(* Entry.printImpl(pc): what printOut receives.  [name] is Entry.name (read from the entry).
   The buffer holds what it held (nothing after set) followed by the body; with a stale read
   offset the record loses its first bytes (exact as long as the buffer does not have to grow,
   which is all the refutation of the old code needs). *)
Definition encode_pc (gl : globals) (name : bytes) (pc : printctx) : out :=
  if (pf_lvl pc =? lv_always) && all_blank (pf_msg pc) then Out [x0a]     (* printOut(lvl, []byte{'\n'}): the buffer is not used *)
  else
  match body_pc gl name pc with
  | Out body => bytes_from (pf_off pc) (pf_buf pc ++ body)
  | o => o
  end.

(* the pure function of the call (Model/Encode.v) *)
Definition cfg_of (gl : globals) (e : econf) (c : call) : ecfg :=
  {| e_mode := shape_of (ec_flags e); e_name := ec_name e; e_lvl := cl_lvl c;
     e_caller := if gl_caller gl then Some (source_of (cl_frame c)) else None;
     e_tagw := gl_tagw gl; e_minw := gl_minw gl;
     e_ts := render_ts (cl_now c) (ec_layout e) (ec_utc e) |}.
Definition encode_call (gl : globals) (e : econf) (c : call) : out :=
  out_of_option (encode isprint g (cfg_of gl e c) (cl_msg c) (cl_kvps c)).

(* Entry.print on a pooled context: Get, set, printImpl (Put follows) *)
Definition print_on (gl : globals) (pc : printctx) (e : econf) (c : call) : out :=
  encode_pc gl (ec_name e) (pc_set pc e c).
Definition print_on_old (gl : globals) (pc : printctx) (e : econf) (c : call) : out :=
  encode_pc gl (ec_name e) (pc_set_old pc e c).
Definition print_on_keep (keep : scratch -> bool) (gl : globals) (pc : printctx) (e : econf) (c : call) : out :=
  encode_pc gl (ec_name e) (pc_set_keep keep pc e c).

(* what printImpl leaves in the context that goes back to the pool (modelled outcomes only;
   after a panic nothing is Put) *)
Definition after_print (gl : globals) (pc0 : printctx) (e : econf) (c : call) : printctx :=
  let pc := pc_set pc0 e c in
  if (pf_lvl pc =? lv_always) && all_blank (pf_msg pc) then pc
  else
  match body_pc gl (ec_name e) pc with
  | Out body =>
      let pc1 := match mode_of_pc pc with
                 | Some ShColor =>
                     match pick_colors pc with
                     | Some p => let '(_, rest, eol) := split_first_rest (pf_msg p) in with_rest p rest eol
                     | None => pc
                     end
                 | _ => pc
                 end in
      {| pf_buf := pf_buf pc1 ++ body; pf_off := pf_off pc1; pf_lastRead := 0; pf_noQuoted := pf_noQuoted pc1;
         pf_jsonMode := pf_jsonMode pc1; pf_noColor := pf_noColor pc1; pf_layout := pf_layout pc1; pf_utcTime := pf_utcTime pc1;
         pf_dedupeAttrs := pf_dedupeAttrs pc1; pf_lvl := pf_lvl pc1; pf_msg := pf_msg pc1; pf_firstLine := pf_firstLine pc1;
         pf_restLines := pf_restLines pc1; pf_eol := pf_eol pc1; pf_kvps := pf_kvps pc1; pf_clr := pf_clr pc1; pf_bg := pf_bg pc1;
         pf_now := pf_now pc1; pf_stackFrame := pf_stackFrame pc1;
         pf_cachedSource := if gl_caller gl then source_of (pf_stackFrame pc1) else pf_cachedSource pc1;
         pf_prefix := pf_prefix pc1; pf_inGroupedMode := pf_inGroupedMode pc1; pf_skipFirstSep := false;
         pf_valueStringer := pf_valueStringer pc1 |}
  | _ => pc
  end.

End PCEnc.

(* ------------------------------------------------------------------ histories *)
(* One earlier call on the pooled context: the logger, the call, and the context the pool
   hands out NEXT.  That context is whatever the encoder, the writers, the garbage collector
   and the pool made of it - the one the call used, another goroutine's, or a new one from
   newPrintCtx: the only thing known about it is the constant field. *)
Record hstep := { h_e : econf; h_call : call; h_next : printctx }.
Definition hstep_ok (s : hstep) : Prop := pooled (h_next s).
Definition pooled_after (pc0 : printctx) (h : list hstep) : printctx :=
  match rev h with [] => pc0 | s :: _ => h_next s end.

(* ------------------------------------------------------------------ poolAttrs *)
(* Entry.logContext: kvps = poolAttrs.Get(); collectArgs appends the logger's attributes and
   the arguments; print; `kvps = kvps[:0]`; poolAttrs.Put(kvps).  [truncate] = false is the
   variant without the truncation. *)
Definition collect_args (slice logger_attrs args : list attr) : list attr := slice ++ logger_attrs ++ args.
Definition log_context (truncate : bool) (slice logger_attrs args : list attr) : list attr * list attr :=
  let kvps := collect_args slice logger_attrs args in
  (kvps,                                  (* what print formats *)
   if truncate then [] else kvps).        (* what goes back to the pool *)
(* a history of calls on the same pooled slice: the attribute lists the records were formatted with *)
Fixpoint log_history (truncate : bool) (slice : list attr) (calls : list (list attr * list attr)) : list (list attr) * list attr :=
  match calls with
  | [] => ([], slice)
  | (la, args) :: t =>
      let '(kvps, back) := log_context truncate slice la args in
      let '(rest, final) := log_history truncate back t in
      (kvps :: rest, final)
  end.
