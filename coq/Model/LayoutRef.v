(* Reference for the translated skeleton of Entry.printImpl (the statements after the blank-line
   rule): WHICH part printers run, in WHAT ORDER, under which mode bit and flag, what is looked up
   for the level colours, and that the record is delivered by ONE printOut of the encoder's bytes at
   the record's level after End.  The part printers are parameters (state transformers of the
   PrintCtx [pcs]); the sections of Model/Encode.encode are their instances. *)
Require Import Verif.Model.Base Verif.Model.Decision Verif.Model.GoSem.

(* what the skeleton reads and writes of a PrintCtx: the mode bit, the level, the two colours, and an
   abstract rest [pc_rest] (buffer and everything else) only the part printers touch *)
Record pcs (R : Type) := { pc_noColor : bool; pc_lvl : Z; pc_clr : Z; pc_bg : Z; pc_rest : R }.
Arguments pc_noColor {R}. Arguments pc_lvl {R}. Arguments pc_clr {R}. Arguments pc_bg {R}. Arguments pc_rest {R}.
Definition set_clr {R} (p : pcs R) (c : Z) : pcs R :=
  {| pc_noColor := pc_noColor p; pc_lvl := pc_lvl p; pc_clr := c; pc_bg := pc_bg p; pc_rest := pc_rest p |}.
Definition set_bg {R} (p : pcs R) (c : Z) : pcs R :=
  {| pc_noColor := pc_noColor p; pc_lvl := pc_lvl p; pc_clr := pc_clr p; pc_bg := c; pc_rest := pc_rest p |}.

(* the colours a record takes: those registered for its level - the first is the foreground, a second
   one the background; with one colour the background the context had is kept, with none both *)
Definition take_colors {R} (m : list (Z * list Z)) (p : pcs R) : option (pcs R) :=
  match lookupZ m (pc_lvl p) with
  | None => Some p
  | Some [] => None                                  (* aa[0] on an empty list panics *)
  | Some [c] => Some (set_clr p c)
  | Some (c :: b :: _) => Some (set_bg (set_clr p c) b)
  end.

Section Skeleton.
Context {R E D : Type}.
Variables (f_begin f_timestamp f_name f_severity f_msg f_first f_pc f_rest : pcs R -> pcs R)
          (f_attrs : pcs R -> E * pcs R) (f_errdump : pcs R -> E -> pcs R) (f_end : pcs R -> bool -> pcs R)
          (f_bytes : pcs R -> bytes) (d_printout : Z -> bytes -> D).

(* (what is delivered, the context afterwards); None = panic *)
Definition print_impl_ref (m : list (Z * list Z)) (g_flags : Z) (caller_bit : Z) (pc : pcs R) (tr_ : list D)
  : option (list D * pcs R) :=
  let pc := f_begin pc in
  match (if pc_noColor pc
         then Some (f_msg (f_severity (f_name (f_timestamp pc))))
         else match take_colors m pc with
              | None => None
              | Some pc => Some (f_first (f_severity (f_name (f_timestamp pc))))
              end) with
  | None => None
  | Some pc =>
      let '(hold, pc) := f_attrs pc in
      let pc := if negb (Z.land g_flags caller_bit =? 0) then f_pc pc else pc in
      let pc := f_rest pc in
      let pc := f_errdump pc hold in
      let pc := f_end pc true in
      Some (tr_ ++ [d_printout (pc_lvl pc) (f_bytes pc)], pc)
  end.
End Skeleton.

(* the reference in the argument order of the generated definition (the fall-back of the translator);
   128 = Lcaller (Gen/Tables.c_Lcaller; the theorem is stated with that constant) *)
Definition print_impl_fallback {R E D : Type}
  (f_begin f_timestamp f_name f_severity f_msg f_first f_pc f_rest : pcs R -> pcs R)
  (f_attrs : pcs R -> E * pcs R) (f_errdump : pcs R -> E -> pcs R) (f_end : pcs R -> bool -> pcs R)
  (f_bytes : pcs R -> bytes) (d_printout : Z -> bytes -> D)
  (m : list (Z * list Z)) (g_flags : Z) (pc : pcs R) (tr_ : list D) : option (list D * pcs R) :=
  print_impl_ref f_begin f_timestamp f_name f_severity f_msg f_first f_pc f_rest f_attrs f_errdump f_end f_bytes d_printout
    m g_flags 128 pc tr_.

(* PrintCtx.Begin / End: what they append to the buffer *)
Definition pc_begin_ref (jsonMode : bool) (buf : bytes) : option bytes :=
  Some (buf ++ (if jsonMode then [x7b] else [])).
Definition pc_end_ref (jsonMode : bool) (buf : bytes) (newline : bool) : option bytes :=
  Some (buf ++ (if jsonMode then [x7d] else []) ++ (if newline then [x0a] else [])).

(* strings.LastIndex(s, sep) for a one-byte separator: the index of the last occurrence, -1 if none *)
Fixpoint last_index_from (s : bytes) (c : Z) (i : Z) (acc : Z) : Z :=
  match s with
  | [] => acc
  | b :: t => last_index_from t c (i + 1) (if bz b =? c then i else acc)
  end.
Definition str_last_index (s sep : bytes) : Z :=
  match sep with [c] => last_index_from s (bz c) 0 (-1) | _ => -2 end.   (* the translator's call sites pass one byte *)

(* checkedfuncname: with the package-name flag the provider table is applied, else the text after the last '/' *)
Definition checked_funcname_ref (f_replace_all : bytes -> bytes -> bytes -> bytes) (g_flags : Z)
  (providers : list (bytes * bytes)) (name : bytes) : option bytes :=
  if negb (Z.land g_flags 256 =? 0)
  then Some (fold_left (fun n (kv_ : bytes * bytes) => let '(k, v) := kv_ in f_replace_all n k v) providers name)
  else let pos := str_last_index name [x2f] in
       if 0 <=? pos then str_suffix name (pos + 1) else Some name.

(* the two width setters: a value outside the range leaves the setting as it is *)
Definition set_level_output_width_ref (cur width : Z) : Z := if (0 <=? width) && (width <=? 5) then width else cur.
Definition set_message_minimal_width_ref (cur w : Z) : Z := if 16 <=? w then w else cur.

(* the flag word *)
Definition is_any_bits_set_ref (flags f : Z) : bool := negb (Z.land flags f =? 0).
Definition is_all_bits_set_ref (flags f : Z) : bool := Z.land flags f =? f.
Definition add_flags_ref (flags : Z) (fs : list Z) : Z := fold_left Z.lor fs flags.

(* the small append helpers of PrintCtx *)
Definition pc_append_byte_ref (buf : bytes) (b : Z) : option bytes := Some (buf ++ [zb b]).
Definition pc_append_string_value_ref (buf : bytes) (str : bytes) : option bytes := Some (buf ++ str).
Definition pc_append_colon_ref (jsonMode : bool) (buf : bytes) : option bytes := Some (buf ++ [if jsonMode then x3a else x3d]).
Definition pc_append_comma_ref (jsonMode : bool) (buf : bytes) : option bytes := Some (buf ++ [if jsonMode then x2c else x20]).

(* Entry.printTimestamp, in the vocabulary of the encoder model's sections: key, separator, timestamp text, separator in the
   plain formats; the timestamp colour, the text and a blank in colour mode.  [key] is what pcAppendStringKey appends for
   the field name, [ts] what appendTimestamp appends *)
Definition print_timestamp_ref (f_ts : bytes -> bytes) (key : bytes -> option bytes) (clr_ts : bytes)
  (noColor jsonMode : bool) (buf : bytes) : option bytes :=
  if noColor
  then match key buf with
       | None => None
       | Some b => Some (f_ts (b ++ [if jsonMode then x3a else x3d]) ++ [if jsonMode then x2c else x20])
       end
  else Some (f_ts (buf ++ clr_ts) ++ [x20]).

(* Entry.printLoggerName: nothing at all for a logger without a name; otherwise the member `logger` and a separator in the
   plain formats, the name in the logger-name colour (37, no background) and one blank in colour mode *)
Definition print_logger_name_ref (f_add_string : bytes -> bytes -> bytes -> bytes) (f_wrap_to : bytes -> Z -> Z -> bytes -> bytes)
  (name : bytes) (noColor jsonMode : bool) (buf : bytes) : option bytes :=
  match name with
  | [] => Some buf
  | _ => if noColor
         then Some (f_add_string buf [x6c;x6f;x67;x67;x65;x72] name ++ [if jsonMode then x2c else x20])
         else Some (f_wrap_to buf 37 (-1) name ++ [x20])
  end.

(* Entry.printSeverity: [name] is the level's name, [tag] its short tag of the configured width (None = ShortTag panics) *)
Definition print_severity_ref (f_add_string : bytes -> bytes -> bytes -> bytes) (f_wrap_to : bytes -> Z -> Z -> bytes -> bytes)
  (f_wrap_rune : bytes -> Z -> Z -> bytes) (name : bytes) (tag : option bytes)
  (noColor jsonMode : bool) (clr bg : Z) (buf : bytes) : option bytes :=
  if noColor
  then Some (f_add_string buf [x6c;x65;x76;x65;x6c] name ++ [if jsonMode then x2c else x20])
  else match tag with
       | None => None
       | Some t => Some (f_wrap_to buf clr bg (f_wrap_rune t 91 93) ++ [x20])
       end.

(* what pc.source() hands out: the caller triple after path hardening *)
Record srcv := { src_file : bytes; src_line : Z; src_function : bytes }.

(* Entry.printPC.  [key] = what pcAppendStringKey appends for the field name `caller`, [fname] = checkedfuncname of the
   frame's function (None = it panics), [reset] = what echoResetColor appends.  Plain formats: the member separator
   FIRST (the caller part follows the attributes), then in JSON mode the member `caller` holding an object with file, line
   and function, in logfmt the three prefixed members separated by blanks; colour mode: blank, file, ':', line, blank, the
   function name in dark gray (90), and the colours are reset. *)
Definition print_pc_ref (f_add_string : bytes -> bytes -> bytes -> bytes) (f_add_int : bytes -> bytes -> Z -> bytes)
  (f_add_pstring : bytes -> bytes -> bytes -> bytes -> bytes) (f_add_pint : bytes -> bytes -> bytes -> Z -> bytes)
  (f_append_int : bytes -> Z -> bytes) (f_wrap_color_to : bytes -> Z -> bytes -> bytes)
  (key : bytes -> option bytes) (fname : option bytes) (reset : bytes) (src : srcv) (noColor jsonMode : bool) (buf : bytes) : option bytes :=
  let n_caller := [x63;x61;x6c;x6c;x65;x72] in let n_file := [x66;x69;x6c;x65] in let n_line := [x6c;x69;x6e;x65] in
  let n_function := [x66;x75;x6e;x63;x74;x69;x6f;x6e] in
  let sep := [if jsonMode then x2c else x20] in
  if noColor
  then let b := buf ++ sep in
       if jsonMode
       then match key b with
            | None => None
            | Some b =>
                let b := (b ++ [x3a]) ++ [x7b] in
                let b := f_add_string b n_file (src_file src) ++ sep in
                let b := f_add_int b n_line (src_line src) ++ sep in
                Some (f_add_string b n_function (src_function src) ++ [x7d])
            end
       else let b := f_add_pstring b n_caller n_file (src_file src) ++ sep in
            let b := f_add_pint b n_caller n_line (src_line src) ++ sep in
            Some (f_add_pstring b n_caller n_function (src_function src))
  else match fname with
       | None => None
       | Some nm =>
           let b := ((buf ++ [x20]) ++ src_file src) ++ [x3a] in
           let b := f_append_int b (src_line src) ++ [x20] in
           Some (f_wrap_color_to b 90 nm ++ reset)
       end.
