(* Go semantics the translator (extract/decisions.go, second generation) relies on: the handful
   of primitives its generated definitions (Gen/Routing.v, Gen/Delivery.v, Gen/LevelNames.v)
   mention, each with the obvious definition.  They are part of the trusted reading of the Go
   text, like the translator itself (DESIGN.md appendix B).  No proofs here. *)
Require Import Verif.Model.Base Verif.Model.Decision Verif.Model.Dec Verif.Model.Utf8.

(* ---- maps keyed by an integer type ----
   A package-level table and a local map variable are association lists (first binding wins;
   the translator never writes to them).  A map-typed FIELD is nil-able: None = the nil map,
   on which a lookup finds nothing (Go: reading a nil map is allowed). *)
Definition gomap (V : Type) : Type := option (list (Z * V)).
Definition map_get {V} (m : gomap V) (k : Z) : option V :=
  match m with Some l => lookupZ l k | None => None end.
Definition gomap_list {V} (m : gomap V) : list (Z * V) :=
  match m with Some l => l | None => [] end.

(* ---- error values ----
   An error is the list of the leaf errors joined into it, each identified by the number of
   the Write attempt that returned it; nil = [].  errors.Join(a, b) is nil iff both are nil
   and otherwise reports the leaves of a, then those of b. *)
Definition error : Type := list nat.
Definition err_nil : error := [].
Definition err_is_nil (e : error) : bool := match e with [] => true | _ :: _ => false end.
Definition err_join (a b : error) : error := a ++ b.

(* the result (n, err) of the k-th Write attempt, as decided by the oracle [wres]:
   [fst (wres k)] = the count it reports, [snd (wres k)] = it returns a non-nil error *)
Definition io_write (wres : nat -> Z * bool) (k : nat) : Z * error :=
  (fst (wres k), if snd (wres k) then [k] else []).

(* ---- strings (bytes) ---- *)
(* strings.Repeat(s, n): panics for n < 0 (None) *)
Definition str_repeat (s : bytes) (n : Z) : option bytes :=
  if n <? 0 then None else Some (concat (repeat s (Z.to_nat n))).
(* s[:n]: panics unless 0 <= n <= len(s) (None) *)
Definition str_prefix (s : bytes) (n : Z) : option bytes :=
  if (n <? 0) || (Z.of_nat (List.length s) <? n) then None else Some (firstn (Z.to_nat n) s).
(* s[n:]: panics unless 0 <= n <= len(s) (None) *)
Definition str_suffix (s : bytes) (n : Z) : option bytes :=
  if (n <? 0) || (Z.of_nat (List.length s) <? n) then None else Some (skipn (Z.to_nat n) s).
(* s[n]: the byte as a number; panics unless 0 <= n < len(s) (None) *)
Definition str_at (s : bytes) (n : Z) : option Z :=
  if n <? 0 then None else match nth_error s (Z.to_nat n) with Some b => Some (bz b) | None => None end.
(* strings.IndexRune(s, c) / strings.IndexByte for a rune c < 0x80 (the translator accepts only such a
   constant): the index of the first byte c, -1 if there is none *)
Fixpoint str_index_from (s : bytes) (c : Z) (i : Z) : Z :=
  match s with
  | [] => -1
  | b :: s' => if bz b =? c then i else str_index_from s' c (i + 1)
  end.
Definition str_index_byte (s : bytes) (c : Z) : Z := str_index_from s c 0.
(* strings.ToLower is Dec.to_lower (ASCII letters only: on a string with bytes >= 0x80 Go also maps
   the upper-case letters of Unicode and replaces invalid UTF-8; the level names of the model are
   compared under the ASCII mapping, see DESIGN.md section 4, C17);
   fmt.Sprintf with %d is Dec.dec_of_Z (strconv base 10), %s the string itself. *)

(* s[lo:hi]: panics unless 0 <= lo <= hi <= len(s) (None) *)
Definition str_slice (s : bytes) (lo hi : Z) : option bytes :=
  if (lo <? 0) || (hi <? lo) || (Z.of_nat (List.length s) <? hi) then None
  else Some (firstn (Z.to_nat (hi - lo)) (skipn (Z.to_nat lo) s)).

(* a[i] on a fixed-size array given by a keyed literal: [m] holds the keyed elements, every other
   element is the zero value [zero]; panics unless 0 <= i < len (None) *)
Definition arr_get {V} (len : Z) (m : list (Z * V)) (zero : V) (i : Z) : option V :=
  if (0 <=? i) && (i <? len)
  then Some (match lookupZ m i with Some v => v | None => zero end) else None.

(* utf8.DecodeRuneInString: Model/Utf8.v decode_rune with the width as an int *)
Definition decode_rune_z (s : bytes) : Z * Z := let '(r, w) := decode_rune s in (r, Z.of_nat w).

(* ---- three-clause for loops ----
   for ; cond; post { body } is [go_loop fuel step state]: [step] tests the condition and runs body and
   post on the tuple of the variables they assign (LoopNext), or reports that the loop is over (LoopDone:
   the condition is false, or break), or that an operation panicked (LoopPanic).  The fuel is declared
   per loop by the target (extract/targets.go, with the reason it suffices); [None] = a panic OR the fuel
   did not suffice - a C.._gen_* theorem that shows the function returns [Some ..] excludes both. *)
Inductive loop_step (S : Type) : Type := LoopNext (s : S) | LoopDone (s : S) | LoopPanic.
Arguments LoopNext {S} s. Arguments LoopDone {S} s. Arguments LoopPanic {S}.
Fixpoint go_loop {S : Type} (fuel : nat) (step : S -> loop_step S) (s : S) : option S :=
  match fuel with
  | O => None
  | Datatypes.S f => match step s with
                     | LoopNext s' => go_loop f step s'
                     | LoopDone s' => Some s'
                     | LoopPanic => None
                     end
  end.
