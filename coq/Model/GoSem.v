(* Go semantics the translator (extract/decisions.go, second generation) relies on: the handful
   of primitives its generated definitions (Gen/Routing.v, Gen/Delivery.v, Gen/LevelNames.v)
   mention, each with the obvious definition.  They are part of the trusted reading of the Go
   text, like the translator itself (DESIGN.md appendix B).  No proofs here. *)
Require Import Verif.Model.Base Verif.Model.Decision Verif.Model.Dec.

(* ---- maps keyed by an integer type ----
   A package-level table and a local map variable are association lists (first binding wins;
   the translator never writes to them).  A map-typed FIELD is nil-able: None = the nil map,
   on which a lookup finds nothing (Go: reading a nil map is allowed). *)
Definition gomap (V : Type) : Type := option (list (Z * V)).
Definition map_get {V} (m : gomap V) (k : Z) : option V :=
  match m with Some l => lookupZ l k | None => None end.
Definition gomap_list {V} (m : gomap V) : list (Z * V) :=
  match m with Some l => l | None => [] end.

(* ---- error values ----
   An error is the list of the leaf errors joined into it, each identified by the number of
   the Write attempt that returned it; nil = [].  errors.Join(a, b) is nil iff both are nil
   and otherwise reports the leaves of a, then those of b. *)
Definition error : Type := list nat.
Definition err_nil : error := [].
Definition err_is_nil (e : error) : bool := match e with [] => true | _ :: _ => false end.
Definition err_join (a b : error) : error := a ++ b.

(* the result (n, err) of the k-th Write attempt, as decided by the oracle [wres]:
   [fst (wres k)] = the count it reports, [snd (wres k)] = it returns a non-nil error *)
Definition io_write (wres : nat -> Z * bool) (k : nat) : Z * error :=
  (fst (wres k), if snd (wres k) then [k] else []).

(* ---- strings (bytes) ---- *)
(* strings.Repeat(s, n): panics for n < 0 (None) *)
Definition str_repeat (s : bytes) (n : Z) : option bytes :=
  if n <? 0 then None else Some (concat (repeat s (Z.to_nat n))).
(* s[:n]: panics unless 0 <= n <= len(s) (None) *)
Definition str_prefix (s : bytes) (n : Z) : option bytes :=
  if (n <? 0) || (Z.of_nat (List.length s) <? n) then None else Some (firstn (Z.to_nat n) s).
(* s[n:]: panics unless 0 <= n <= len(s) (None) *)
Definition str_suffix (s : bytes) (n : Z) : option bytes :=
  if (n <? 0) || (Z.of_nat (List.length s) <? n) then None else Some (skipn (Z.to_nat n) s).
(* s[n]: the byte as a number; panics unless 0 <= n < len(s) (None) *)
Definition str_at (s : bytes) (n : Z) : option Z :=
  if n <? 0 then None else match nth_error s (Z.to_nat n) with Some b => Some (bz b) | None => None end.
(* strings.IndexRune(s, c) / strings.IndexByte for a rune c < 0x80 (the translator accepts only such a
   constant): the index of the first byte c, -1 if there is none *)
Fixpoint str_index_from (s : bytes) (c : Z) (i : Z) : Z :=
  match s with
  | [] => -1
  | b :: s' => if bz b =? c then i else str_index_from s' c (i + 1)
  end.
Definition str_index_byte (s : bytes) (c : Z) : Z := str_index_from s c 0.
(* strings.ToLower is Dec.to_lower (ASCII letters only: on a string with bytes >= 0x80 Go also maps
   the upper-case letters of Unicode and replaces invalid UTF-8; the level names of the model are
   compared under the ASCII mapping, see DESIGN.md section 4, C17);
   fmt.Sprintf with %d is Dec.dec_of_Z (strconv base 10), %s the string itself. *)
