(* Go semantics the translator (extract/decisions.go, second generation) relies on: the handful
   of primitives its generated definitions (Gen/Routing.v, Gen/Delivery.v, Gen/LevelNames.v)
   mention, each with the obvious definition.  They are part of the trusted reading of the Go
   text, like the translator itself (DESIGN.md appendix B).  No proofs here. *)
Require Import Verif.Model.Base Verif.Model.Decision Verif.Model.Dec Verif.Model.Utf8.

(* ---- maps keyed by an integer type ----
   A package-level table and a local map variable are association lists (first binding wins;
   the translator never writes to them).  A map-typed FIELD is nil-able: None = the nil map,
   on which a lookup finds nothing (Go: reading a nil map is allowed). *)
Definition gomap (V : Type) : Type := option (list (Z * V)).
Definition map_get {V} (m : gomap V) (k : Z) : option V :=
  match m with Some l => lookupZ l k | None => None end.
Definition gomap_list {V} (m : gomap V) : list (Z * V) :=
  match m with Some l => l | None => [] end.

(* ---- error values ----
   An error is the list of the leaf errors joined into it, each identified by the number of
   the Write attempt that returned it; nil = [].  errors.Join(a, b) is nil iff both are nil
   and otherwise reports the leaves of a, then those of b. *)
Definition error : Type := list nat.
Definition err_nil : error := [].
Definition err_is_nil (e : error) : bool := match e with [] => true | _ :: _ => false end.
Definition err_join (a b : error) : error := a ++ b.
(* an error value that is not the failure of a Write attempt (io.ErrShortWrite and the like, where a function makes one up) *)
Definition err_other : error := [0%nat; 0%nat].

(* the result (n, err) of the k-th Write attempt, as decided by the oracle [wres]:
   [fst (wres k)] = the count it reports, [snd (wres k)] = it returns a non-nil error *)
Definition io_write (wres : nat -> Z * bool) (k : nat) : Z * error :=
  (fst (wres k), if snd (wres k) then [k] else []).

(* ---- strings (bytes) ---- *)
(* strings.Repeat(s, n): panics for n < 0 (None) *)
Definition str_repeat (s : bytes) (n : Z) : option bytes :=
  if n <? 0 then None else Some (concat (repeat s (Z.to_nat n))).
(* s[:n]: panics unless 0 <= n <= len(s) (None) *)
Definition str_prefix (s : bytes) (n : Z) : option bytes :=
  if (n <? 0) || (Z.of_nat (List.length s) <? n) then None else Some (firstn (Z.to_nat n) s).
(* s[n:]: panics unless 0 <= n <= len(s) (None) *)
Definition str_suffix (s : bytes) (n : Z) : option bytes :=
  if (n <? 0) || (Z.of_nat (List.length s) <? n) then None else Some (skipn (Z.to_nat n) s).
(* s[n]: the byte as a number; panics unless 0 <= n < len(s) (None) *)
Definition str_at (s : bytes) (n : Z) : option Z :=
  if n <? 0 then None else match nth_error s (Z.to_nat n) with Some b => Some (bz b) | None => None end.
(* strings.IndexRune(s, c) / strings.IndexByte for a rune c < 0x80 (the translator accepts only such a
   constant): the index of the first byte c, -1 if there is none *)
Fixpoint str_index_from (s : bytes) (c : Z) (i : Z) : Z :=
  match s with
  | [] => -1
  | b :: s' => if bz b =? c then i else str_index_from s' c (i + 1)
  end.
Definition str_index_byte (s : bytes) (c : Z) : Z := str_index_from s c 0.
(* strings.ToLower is Dec.to_lower (ASCII letters only: on a string with bytes >= 0x80 Go also maps
   the upper-case letters of Unicode and replaces invalid UTF-8; the level names of the model are
   compared under the ASCII mapping, see DESIGN.md section 4, C17);
   fmt.Sprintf with %d is Dec.dec_of_Z (strconv base 10), %s the string itself. *)

(* s[lo:hi]: panics unless 0 <= lo <= hi <= len(s) (None) *)
Definition str_slice (s : bytes) (lo hi : Z) : option bytes :=
  if (lo <? 0) || (hi <? lo) || (Z.of_nat (List.length s) <? hi) then None
  else Some (firstn (Z.to_nat (hi - lo)) (skipn (Z.to_nat lo) s)).

(* a[i] on a fixed-size array given by a keyed literal: [m] holds the keyed elements, every other
   element is the zero value [zero]; panics unless 0 <= i < len (None) *)
Definition arr_get {V} (len : Z) (m : list (Z * V)) (zero : V) (i : Z) : option V :=
  if (0 <=? i) && (i <? len)
  then Some (match lookupZ m i with Some v => v | None => zero end) else None.

(* utf8.DecodeRuneInString: Model/Utf8.v decode_rune with the width as an int *)
Definition decode_rune_z (s : bytes) : Z * Z := let '(r, w) := decode_rune s in (r, Z.of_nat w).

(* ---- three-clause for loops ----
   for ; cond; post { body } is [go_loop fuel step state]: [step] tests the condition and runs body and
   post on the tuple of the variables they assign (LoopNext), or reports that the loop is over (LoopDone:
   the condition is false, or break), or that an operation panicked (LoopPanic).  The fuel is declared
   per loop by the target (extract/targets.go, with the reason it suffices); [None] = a panic OR the fuel
   did not suffice - a C.._gen_* theorem that shows the function returns [Some ..] excludes both. *)
Inductive loop_step (S : Type) : Type := LoopNext (s : S) | LoopDone (s : S) | LoopPanic.
Arguments LoopNext {S} s. Arguments LoopDone {S} s. Arguments LoopPanic {S}.
Fixpoint go_loop {S : Type} (fuel : nat) (step : S -> loop_step S) (s : S) : option S :=
  match fuel with
  | O => None
  | Datatypes.S f => match step s with
                     | LoopNext s' => go_loop f step s'
                     | LoopDone s' => Some s'
                     | LoopPanic => None
                     end
  end.

(* ---- byte slices with capacity ----
   A []byte value whose capacity matters is the pair (visible part, spare part): the spare part is what
   lies in the array between len and cap (old contents: re-slicing up to cap makes it visible again).
   Slices of a slice alias it; the translator only lets them be read (or rebinds the parent: copy, v[i] = c). *)
Definition gslice : Type := (bytes * bytes)%type.
Definition sl_bytes (s : gslice) : bytes := fst s.
Definition sl_all (s : gslice) : bytes := fst s ++ snd s.
Definition sl_len (s : gslice) : Z := Z.of_nat (List.length (fst s)).
Definition sl_cap (s : gslice) : Z := Z.of_nat (List.length (fst s) + List.length (snd s)).
(* s[:b], 0 <= b <= cap *)
Definition sl_to (s : gslice) (b : Z) : option gslice :=
  if (b <? 0) || (sl_cap s <? b) then None
  else Some (firstn (Z.to_nat b) (sl_all s), skipn (Z.to_nat b) (sl_all s)).
(* s[a:], 0 <= a <= len *)
Definition sl_from (s : gslice) (a : Z) : option gslice :=
  if (a <? 0) || (sl_len s <? a) then None else Some (skipn (Z.to_nat a) (fst s), snd s).
(* s[a:b], 0 <= a <= b <= cap *)
Definition sl_range (s : gslice) (a b : Z) : option gslice :=
  if (a <? 0) || (b <? a) || (sl_cap s <? b) then None
  else Some (firstn (Z.to_nat (b - a)) (skipn (Z.to_nat a) (sl_all s)), skipn (Z.to_nat b) (sl_all s)).
Definition sl_at (s : gslice) (i : Z) : option Z := str_at (fst s) i.
(* s[i] = c *)
Definition sl_set (s : gslice) (i c : Z) : option gslice :=
  if (i <? 0) || (sl_len s <=? i) then None
  else Some (firstn (Z.to_nat i) (fst s) ++ zb c :: skipn (Z.to_nat i + 1) (fst s), snd s).
(* copy(dst[a:], src): the count and dst afterwards; None = dst[a:] is out of range *)
Definition sl_copy_at (dst : gslice) (a : Z) (src : bytes) : option (Z * gslice) :=
  if (a <? 0) || (sl_len dst <? a) then None
  else let n := Nat.min (List.length (fst dst) - Z.to_nat a) (List.length src) in
       Some (Z.of_nat n, (firstn (Z.to_nat a) (fst dst) ++ firstn n src ++ skipn (Z.to_nat a + n) (fst dst), snd dst)).
(* append(s, p...) when p fits into the spare part (None: it would reallocate - not modelled) *)
Definition sl_append_in (s : gslice) (p : bytes) : option gslice :=
  if (List.length p <=? List.length (snd s))%nat then Some (fst s ++ p, skipn (List.length p) (snd s)) else None.

(* how a function with effects and panics ends: normally with its results and the state, with a run-time
   range panic, or with panic(v); the state is the one it leaves behind *)
Inductive bres (R S : Type) : Type := BOk (r : R) (st : S) | BRange (st : S) | BPanic (p : bytes) (st : S).
Arguments BOk {R S} r st. Arguments BRange {R S} st. Arguments BPanic {R S} p st.

(* l[a:] on a slice whose capacity does not matter (a list): panics outside 0..len(l) *)
Definition list_from {A : Type} (l : list A) (a : Z) : option (list A) :=
  if (a <? 0) || (Z.of_nat (List.length l) <? a) then None else Some (skipn (Z.to_nat a) l).

(* a loop inside a function that ends in a bres: a round of the loop goes on with a new loop state (LbNext),
   leaves the loop (LbBreak: the condition is false, or break), or ENDS THE FUNCTION (LbEnd: a return, a range
   panic, panic(v), the panic of a callee - with the state they leave).  None = the declared fuel did not
   suffice. *)
Inductive lstep_b (R S T : Type) : Type := LbNext (s : S) | LbBreak (s : S) | LbEnd (r : bres R T).
Arguments LbNext {R S T} s. Arguments LbBreak {R S T} s. Arguments LbEnd {R S T} r.
Inductive lres_b (R S T : Type) : Type := LrBreak (s : S) | LrEnd (r : bres R T).
Arguments LrBreak {R S T} s. Arguments LrEnd {R S T} r.
Fixpoint go_loop_b {R S T : Type} (fuel : nat) (step : S -> lstep_b R S T) (s : S) : option (lres_b R S T) :=
  match fuel with
  | O => None
  | Datatypes.S f => match step s with
                     | LbNext s' => go_loop_b f step s'
                     | LbBreak s' => Some (LrBreak s')
                     | LbEnd r => Some (LrEnd r)
                     end
  end.

(* ---- writes to maps (association lists; look-ups take the first binding) ----
   m[k] = v: the binding of k is replaced if there is one, otherwise (k, v) is added at the end *)
Fixpoint mapZ_replace {V} (m : list (Z * V)) (k : Z) (v : V) : list (Z * V) :=
  match m with
  | [] => []
  | (k', v') :: t => if k' =? k then (k', v) :: t else (k', v') :: mapZ_replace t k v
  end.
Definition mapZ_set {V} (m : list (Z * V)) (k : Z) (v : V) : list (Z * V) :=
  match lookupZ m k with None => m ++ [(k, v)] | Some _ => mapZ_replace m k v end.
Fixpoint mapB_replace {V} (m : list (bytes * V)) (k : bytes) (v : V) : list (bytes * V) :=
  match m with
  | [] => []
  | (k', v') :: t => if bytes_eqb k' k then (k', v) :: t else (k', v') :: mapB_replace t k v
  end.
Definition mapB_set {V} (m : list (bytes * V)) (k : bytes) (v : V) : list (bytes * V) :=
  match lookupB m k with None => m ++ [(k, v)] | Some _ => mapB_replace m k v end.
(* m[i][k] = v on a map of maps: Go panics when the row m[i] is missing (assignment to entry in nil map) *)
Definition map2_set {V} (m : list (Z * list (Z * V))) (i k : Z) (v : V) : option (list (Z * list (Z * V))) :=
  match lookupZ m i with None => None | Some row => Some (mapZ_replace m i (mapZ_set row k v)) end.

(* ---- maps keyed by a string ---- *)
Definition gomapB (V : Type) : Type := option (list (bytes * V)).    (* a map-typed field; None = the nil map *)
Definition mapB_get {V} (m : gomapB V) (k : bytes) : option V :=
  match m with Some l => lookupB l k | None => None end.
Definition mapB_get_or {V} (m : gomapB V) (k : bytes) (zero : V) : V :=
  match mapB_get m k with Some v => v | None => zero end.
(* m[k] = v: panics on the nil map (None) *)
Definition gomapB_set {V} (m : gomapB V) (k : bytes) (v : V) : option (gomapB V) :=
  match m with Some l => Some (Some (mapB_set l k v)) | None => None end.
(* l[i] on a slice: panics outside 0..len-1 *)
Definition list_at {A} (l : list A) (i : Z) : option A := if i <? 0 then None else nth_error l (Z.to_nat i).

(* ---- slices that may share their backing array ----
   A heap is the list of the arrays allocated so far; a slice is (array, offset, length, capacity).
   make allocates a new array; v[i] = x and copy write into the array of the slice; append writes into the
   spare capacity of the SAME array when there is some (that is how two appends to one parent slice can
   disturb each other) and otherwise allocates (the new capacity is the parameter [growcap]). *)
Definition heap (A : Type) : Type := list (list A).
Definition hslice : Type := (nat * nat * nat * nat)%type.
Definition h_len (s : hslice) : Z := let '(_, _, l, _) := s in Z.of_nat l.
Definition h_read {A} (h : heap A) (s : hslice) : list A :=
  let '(a, o, l, _) := s in firstn l (skipn o (nth a h [])).
Definition h_write {A} (cells : list A) (o : nat) (vals : list A) : list A :=
  firstn o cells ++ vals ++ skipn (o + List.length vals) cells.
Definition h_make {A} (h : heap A) (n : Z) (zero : A) : option (hslice * heap A) :=
  if n <? 0 then None
  else Some ((List.length h, 0%nat, Z.to_nat n, Z.to_nat n), h ++ [repeat zero (Z.to_nat n)]).
Definition h_set {A} (h : heap A) (s : hslice) (i : Z) (x : A) : option (heap A) :=
  let '(a, o, l, _) := s in
  if (i <? 0) || (Z.of_nat l <=? i) then None
  else Some (replace_nth a h (h_write (nth a h []) (o + Z.to_nat i) [x])).
Definition h_copy {A} (h : heap A) (dst : hslice) (src : list A) : Z * heap A :=
  let '(a, o, l, _) := dst in
  let vals := firstn l src in
  (Z.of_nat (List.length vals), replace_nth a h (h_write (nth a h []) o vals)).
Definition h_append {A} (growcap : nat -> nat) (h : heap A) (s : hslice) (x : A) : hslice * heap A :=
  let '(a, o, l, c) := s in
  if (l <? c)%nat
  then ((a, o, S l, c), replace_nth a h (h_write (nth a h []) (o + l) [x]))
  else ((List.length h, 0%nat, S l, Nat.max (S l) (growcap (S l))),
        h ++ [h_read h s ++ x :: repeat x (Nat.max (S l) (growcap (S l)) - S l)]).

(* make([]byte, n, c): n zero bytes visible, c - n spare; panics unless 0 <= n <= c (None) *)
Definition sl_make (n c : Z) : option gslice :=
  if (n <? 0) || (c <? n) then None else Some (repeat x00 (Z.to_nat n), repeat x00 (Z.to_nat (c - n))).
(* make([]T, n, c) *)
Definition h_make_cap {A} (h : heap A) (n c : Z) (zero : A) : option (hslice * heap A) :=
  if (n <? 0) || (c <? n) then None
  else Some ((List.length h, 0%nat, Z.to_nat n, Z.to_nat c), h ++ [repeat zero (Z.to_nat c)]).
(* append(s, vals...): in place when the values fit into the spare capacity, else a new array *)
Definition h_append_all {A} (growcap : nat -> nat) (h : heap A) (s : hslice) (vals : list A) : hslice * heap A :=
  let '(a, o, l, c) := s in
  let n := List.length vals in
  if (l + n <=? c)%nat
  then ((a, o, (l + n)%nat, c), replace_nth a h (h_write (nth a h []) (o + l) vals))
  else let c' := Nat.max (l + n)%nat (growcap (l + n)%nat) in
       ((List.length h, 0%nat, (l + n)%nat, c'),
        h ++ [h_read h s ++ vals ++ match vals with v :: _ => repeat v (c' - (l + n))%nat | [] => [] end]).
(* []T{..}: a new array *)
Definition h_lit {A} (h : heap A) (vals : list A) : hslice * heap A :=
  ((List.length h, 0%nat, List.length vals, List.length vals), h ++ [vals]).
