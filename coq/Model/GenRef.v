(* Hand-written reference versions of the functions of Gen/Routing.v, Gen/Delivery.v and
   Gen/LevelNames.v, with the same signatures: a site that falls outside the translator's
   fragment is defined as its reference here ([translated_* = false]) and the property then
   relies on the correspondence run alone for that function.  The [C.._gen_*] theorems are
   stated against the model functions themselves (Writers.dw_get, Deliver.write_all, ...);
   Proofs/Gen*P.v show that these references agree with them.  No proofs here. *)
Require Import Verif.Model.Base Verif.Model.Decision Verif.Model.GoSem Verif.Model.Writers.

(* dualWriter.Get *)
Definition route_ref (m_mLevelUseErrorDevice : list (Z * bool)) (g_discardWriter s_Normal s_Error : list member)
  (s_leveled : gomap (list member)) (lvl : Z) : list member :=
  if lvl =? lvl_off then g_discardWriter
  else match lv_get (gomap_list s_leveled) lvl with
       | Some (m :: t) => m :: t
       | _ => if memZ (map fst m_mLevelUseErrorDevice) lvl then s_Error else s_Normal
       end.
