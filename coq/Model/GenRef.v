(* Hand-written reference versions of the functions of Gen/Routing.v, Gen/Delivery.v and
   Gen/LevelNames.v, with the same signatures: a site that falls outside the translator's
   fragment is defined as its reference here ([translated_* = false]) and the property then
   relies on the correspondence run alone for that function.  The [C.._gen_*] theorems are
   stated against the model functions themselves (Writers.dw_get, Deliver.write_all, ...);
   Proofs/Gen*P.v show that these references agree with them.  No proofs here. *)
Require Import Verif.Model.Base Verif.Model.Decision Verif.Model.GoSem Verif.Model.Writers.

(* dualWriter.Get *)
Definition route_ref (m_mLevelUseErrorDevice : list (Z * bool)) (g_discardWriter s_Normal s_Error : list member)
  (s_leveled : gomap (list member)) (lvl : Z) : list member :=
  if lvl =? lvl_off then g_discardWriter
  else match lv_get (gomap_list s_leveled) lvl with
       | Some (m :: t) => m :: t
       | _ => if memZ (map fst m_mLevelUseErrorDevice) lvl then s_Error else s_Normal
       end.

(* ---- delivery (Gen/Delivery.v) ---- *)

(* a LogWriter value as Entry.printOut sees it: nil, the list dualWriter.Get returned (LWs), or
   one writer that is not a list *)
Inductive logwriter := LWnil | LWlist (ms : list member) | LWone (m : member).
Definition lw_is_nil (w : logwriter) : bool := match w with LWnil => true | _ => false end.
Definition lw_id (w : logwriter) : wid := match w with LWone m => member_id m | _ => 0 end.

(* how printOut ends: it returned, or its last act is the nested s.Warn(...) (still to be run) *)
Inductive po_result :=
| PoReturn (tr : list wevent) (k : nat)
| PoWarn (tr : list wevent) (k : nat)
| PoOther (tr : list wevent) (k : nat).   (* ends with a nested call of another verb (not in the code today) *)

(* the type assertions of the code, read on the member model ([is_ls w] = writer w implements
   LevelSettable).  A LogWriter stored as it is (Direct) is LevelSettable iff the writer is; a
   *logwr cell (Wrapped) promotes only Write and Close, so it is not, and its field Writer is
   the writer inside. *)
Section Interp.
Variable is_ls : wid -> bool.
Definition asm_ls (m : member) : option wid :=
  match m with Direct w => if is_ls w then Some w else None | Wrapped _ => None end.
Definition asm_logwr (m : member) : option wid :=
  match m with Wrapped w => Some w | Direct _ => None end.
Definition cell_writer (cell : wid) : wid := cell.
Definition inner_ls (w : wid) : option wid := if is_ls w then Some w else None.
Definition lw_as_list (w : logwriter) : option (list member) :=
  match w with LWlist ms => Some ms | _ => None end.
Definition lw_as_ls (w : logwriter) : option wid :=
  match w with LWone m => asm_ls m | _ => None end.
End Interp.

(* the writers written to, in order, according to a trace *)
Definition writes_of (tr : list wevent) : list wid :=
  flat_map (fun e => match e with EvWrite w => [w] | EvSet _ _ => [] end) tr.

(* what the oracle [wres] says about the attempts k .. k+len-1 *)
Definition failed_attempts (wres : nat -> Z * bool) (k len : nat) : error :=
  filter (fun i => snd (wres i)) (seq k len).
Definition counted_bytes (wres : nat -> Z * bool) (k len : nat) : Z :=
  fold_left (fun a i => if snd (wres i) then a else a + fst (wres i)) (seq k len) 0.

(* LWs.WriteLeveled: each member in order: SetLevel on it (or on the writer inside its cell) if it
   asks for it, then one Write; every member is written to; n adds up the counts of the successful
   Writes, err joins the errors of the failed ones *)
Definition told (as1 as2 : member -> option wid) (fld : wid -> wid) (as3 : wid -> option wid) (lvl : Z) (w : member) : list wevent :=
  match as1 w with
  | Some x => [EvSet x lvl]
  | None => match as2 w with
            | Some lw => match as3 (fld lw) with Some x => [EvSet x lvl] | None => [] end
            | None => []
            end
  end.
Definition write_leveled_ref (as1 as2 : member -> option wid) (fld : wid -> wid) (as3 : wid -> option wid)
  (wres : nat -> Z * bool) (s : list member) (lvl : Z) (p : bytes) (tr : list wevent) (k : nat)
  : Z * error * list wevent * nat :=
  (counted_bytes wres k (length s), failed_attempts wres k (length s),
   tr ++ flat_map (fun w => told as1 as2 fld as3 lvl w ++ [EvWrite (member_id w)]) s, (k + length s)%nat).
Definition write_plain_ref (wres : nat -> Z * bool) (s : list member) (p : bytes) (tr : list wevent) (k : nat)
  : Z * error * list wevent * nat :=
  (counted_bytes wres k (length s), failed_attempts wres k (length s),
   tr ++ map (fun w => EvWrite (member_id w)) s, (k + length s)%nat).

(* Entry.printOut *)
Definition print_out_ref (as1 as2 : member -> option wid) (fld : wid -> wid) (as3 : wid -> option wid)
  (as_list : logwriter -> option (list member)) (as_ls : logwriter -> option wid) (wget : Z -> list member)
  (find : Z -> logwriter) (wres : nat -> Z * bool) (lvl : Z) (msg : bytes) (tr : list wevent) (k : nat) : po_result :=
  let w := find lvl in
  if lw_is_nil w then PoReturn tr k
  else
    let '(err, tr', k') :=
      match as_list w with
      | Some ws => let '(_, err, tr', k') := write_leveled_ref as1 as2 fld as3 wres ws lvl msg tr k in (err, tr', k')
      | None => (snd (io_write wres k),
                 tr ++ (match as_ls w with Some x => [EvSet x lvl] | None => [] end) ++ [EvWrite (lw_id w)], S k)
      end in
    if negb (err_is_nil err) && negb (lvl =? 3) then PoWarn tr' k' else PoReturn tr' k'.
