(* Rows of the generated entry-point table (Gen/EntryPoints.v). *)
Require Import Verif.Model.Base.

Inductive sev :=
| SevConst (l : Z)   (* the entry point always issues this severity *)
| SevParam           (* the severity is a Level parameter *)
| SevSlog            (* a log/slog level parameter, converted *)
| SevNone.           (* empty body: never issues anything (Verbose in a default build) *)

Record ep := mk_ep {
  ep_recv : bytes;    (* "Entry" or "pkg" *)
  ep_name : bytes;
  ep_sev : sev;
  ep_gated : bool;    (* the call reaching logContext is dominated by EnabledContext(ctx, same level) *)
  ep_skip : Z;        (* literal given to getpc *)
  ep_depth : Z;       (* logg frames from the entry point down to the caller of getpc, inclusive *)
  ep_tail : bool      (* the call chain ends in Entry.logContext: the record passes the termination tail (C12) *)
}.

Fixpoint find_ep (recv name : bytes) (l : list ep) : option ep :=
  match l with
  | [] => None
  | e :: t => if bytes_eqb (ep_recv e) recv && bytes_eqb (ep_name e) name then Some e else find_ep recv name t
  end.
