(* What Gen/Paths.v (translated from underDir and checkpath of slog/stack.go) mentions besides
   Model/Path.v, and reference versions (same signatures) of the two functions - the fallbacks of
   those sites.  No proofs here. *)
Require Import Verif.Model.Base Verif.Model.Decision Verif.Model.GoSem Verif.Model.Path.
Require Verif.Gen.Tables.

(* a regRepl{expr, repl} value is the abstract regexp of the model; its field expr is that regexp,
   its field repl the replacement text, which only ReplaceAllString reads (rx_replace has it inside) *)
Definition rx_expr (r : rx) : rx := r.
Definition rx_repl (r : rx) : bytes := [].

Definition under_dir_ref (file dir : bytes) : option bool := Some (under file dir).

Definition privacy_on (flags : Z) : bool := negb (Z.land flags Tables.c_Lprivacypath =? 0).
Definition rx_on (flags : Z) : bool := negb (Z.land flags Tables.c_Lprivacypathregexp =? 0).

Definition checkpath_ref (f_rel : bytes -> bytes -> bytes) (g_flags : Z) (m_knownPathMap : list (bytes * bytes))
  (g_knownPathRegexpMap : list rx) (g_cwd : bytes) (file : bytes) : option bytes :=
  Path.checkpath f_rel true (privacy_on g_flags) (rx_on g_flags) m_knownPathMap g_knownPathRegexpMap g_cwd file.
