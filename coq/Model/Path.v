(* C18: path hardening - slog/stack.go checkpath (= Safety, SafetyFiles, the
   caller file of every record), slog/cmn.go Add/Remove/ResetKnownPathMapping.

   Go                                   here
   ----------------------------------   ------------------------------------
   knownPathMap (a Go map, ranged in    [table : list (key * repl)] in the
   random order)                        order in which the loop meets the
                                        entries; theorems quantify over every
                                        [Permutation] of the table
   knownPathRegexpMap                   [list rx]: (matches, replace) pairs,
                                        abstract (Go regexp semantics are not
                                        modelled) except the built-in
                                        [/Volumes/[^/]+/ -> ~] ([volumes_rx])
   filepath.Rel(cwd, file), error       Section variable [rel]; "" stands for
   ignored                              the error case as in the code
   filepath.IsAbs (unix)                [is_abs]: leading '/'
   privfile[9:], privfile[9+pos:]       [slice_from]: [None] = the slice-bounds
                                        panic; [checkpath] returns [option]
   flags Lprivacypath, Lprivacy-        [privacy], [rxflag]
   pathregexp

   [fx = false] is the code as it is now (strings.HasPrefix, then
   strings.ReplaceAll of every occurrence); [fx = true] is the proposed repair
   (match on a path-component boundary, replace the prefix only).  The switch
   [boundary_fix] below says which of the two the correspondence check compares
   the implementation with. *)
Require Import Verif.Model.Base.

(* the variant the implementation is compared with: false = the code as it is
   now; set to true after the component-boundary repair of slog/stack.go *)
Definition boundary_fix : bool := true.

Definition slash : byte := x2f.
Definition tilde : byte := x7e.

(* strings.HasPrefix s p *)
Fixpoint has_prefix (s p : bytes) : bool :=
  match p, s with
  | [], _ => true
  | b :: p', c :: s' => byte_eqb b c && has_prefix s' p'
  | _ :: _, [] => false
  end.

(* filepath.IsAbs on unix *)
Definition is_abs (s : bytes) : bool :=
  match s with c :: _ => byte_eqb c slash | [] => false end.

(* non-empty and not absolute: what a replacement ("short form") has to be *)
Definition rel_nonempty (s : bytes) : bool :=
  match s with c :: _ => negb (byte_eqb c slash) | [] => false end.

(* strings.ReplaceAll s k v for a non-empty k: non-overlapping occurrences,
   left to right.  [skip] counts the bytes of the occurrence still to be
   dropped.  (For k = "" Go inserts v at every rune boundary; that is NOT
   modelled: [replace_all s [] v = s]; Corr.C18.ok rejects a case with an empty
   key and every theorem about [fx = false] assumes absolute, hence non-empty,
   keys.) *)
Fixpoint replace_all_aux (skip : nat) (s k v : bytes) : bytes :=
  match s with
  | [] => []
  | c :: s' =>
      match skip with
      | S n => replace_all_aux n s' k v
      | O => if has_prefix s k then v ++ replace_all_aux (length k - 1) s' k v
             else c :: replace_all_aux 0 s' k v
      end
  end.
Definition replace_all (s k v : bytes) : bytes :=
  match k with [] => s | _ :: _ => replace_all_aux 0 s k v end.

(* s is the directory k itself or lies below it (component-wise); k = "" never *)
Definition under (s k : bytes) : bool :=
  match k with
  | [] => false
  | _ :: _ => has_prefix s k &&
              match skipn (length k) s with [] => true | c :: _ => byte_eqb c slash end
  end.

(* one round of the loop over knownPathMap *)
Definition step (fx : bool) (priv : bytes) (kv : bytes * bytes) : bytes :=
  if fx then
    (if under priv (fst kv) then snd kv ++ skipn (length (fst kv)) priv else priv)
  else
    (if has_prefix priv (fst kv) then replace_all priv (fst kv) (snd kv) else priv).

Definition prefix_loop (fx : bool) (table : list (bytes * bytes)) (file : bytes) : bytes :=
  fold_left (step fx) table file.

(* regexp mappings: MatchString is asked about the ORIGINAL file, the
   replacement is applied to the evolving privfile (as in the code) *)
Record rx := mkrx { rx_matches : bytes -> bool; rx_replace : bytes -> bytes }.

Definition rx_loop (rxs : list rx) (file priv : bytes) : bytes :=
  fold_left (fun p r => if rx_matches r file then rx_replace r p else p) rxs priv.

(* s[n:] - panics when n > len(s) *)
Definition slice_from (s : bytes) (n : nat) : option bytes :=
  if (n <=? length s)%nat then Some (skipn n s) else None.

(* strings.IndexRune(s, '/') = IndexByte for an ASCII rune *)
Fixpoint index_byte (c : byte) (s : bytes) : option nat :=
  match s with
  | [] => None
  | d :: s' => if byte_eqb d c then Some O
               else match index_byte c s' with Some n => Some (S n) | None => None end
  end.

Definition volumes : bytes := [x2f; x56; x6f; x6c; x75; x6d; x65; x73; x2f].  (* /Volumes/ *)

(* the else-branch used when Lprivacypathregexp is off *)
Definition volumes_rule (priv : bytes) : option bytes :=
  if has_prefix priv volumes then
    match slice_from priv 9 with
    | None => None
    | Some t =>
        match index_byte slash t with
        | Some pos => match slice_from priv (9 + pos) with
                      | Some u => Some (tilde :: u)
                      | None => None
                      end
        | None => Some priv
        end
    end
  else Some priv.

Section Checkpath.
  Variable rel : bytes -> bytes -> bytes.   (* filepath.Rel, "" on error *)

  Definition checkpath (fx privacy rxflag : bool) (table : list (bytes * bytes))
             (rxs : list rx) (cwd file : bytes) : option bytes :=
    match (if privacy then
             let p1 := prefix_loop fx table file in
             if rxflag then Some (rx_loop rxs file p1) else volumes_rule p1
           else Some file) with
    | None => None
    | Some priv =>
        if is_abs priv then
          let r := rel cwd file in
          if (0 <? length r)%nat && (length r <? length priv)%nat then Some r else Some priv
        else Some priv
    end.
End Checkpath.

(* the tail of checkpath as the statement puts it: unchanged, or the non-empty,
   shorter relative path *)
Definition tail_ok (rel : bytes -> bytes -> bytes) (cwd file r : bytes) : Prop :=
  r = file \/ (r = rel cwd file /\ (0 < length r < length file)%nat /\ is_abs file = true).

(* ---- the built-in regexp  /Volumes/[^/]+/ -> ~  (ReplaceAllString), on bytes:
   a byte that is not '/' is matched by [^/] whatever UTF-8 says (an invalid
   byte is U+FFFD for Go's regexp, a multi-byte rune contains no '/') ---- *)
Fixpoint drop_nonslash (s : bytes) : nat * bytes :=
  match s with
  | [] => (O, [])
  | c :: s' => if byte_eqb c slash then (O, s)
               else let (n, r) := drop_nonslash s' in (S n, r)
  end.

(* a match starting at the head of s: the text after it *)
Definition vol_match_here (s : bytes) : option bytes :=
  if has_prefix s volumes then
    match drop_nonslash (skipn 9 s) with
    | (S _, _ :: rest) => Some rest
    | _ => None
    end
  else None.

Fixpoint vol_matches (s : bytes) : bool :=
  match s with
  | [] => false
  | _ :: s' => match vol_match_here s with Some _ => true | None => vol_matches s' end
  end.

Fixpoint vol_replace_aux (skip : nat) (s : bytes) : bytes :=
  match s with
  | [] => []
  | c :: s' =>
      match skip with
      | S n => vol_replace_aux n s'
      | O => match vol_match_here s with
             | Some rest => tilde :: vol_replace_aux (length s - length rest - 1) s'
             | None => c :: vol_replace_aux 0 s'
             end
      end
  end.

Definition volumes_rx : rx := mkrx vol_matches (vol_replace_aux 0).

(* ---- what the theorems speak about ---- *)
(* the test that makes a loop round fire, and what it then does to privfile *)
Definition hit (fx : bool) (s k : bytes) : bool := if fx then under s k else has_prefix s k.
Definition subst1 (fx : bool) (s k v : bytes) : bytes :=
  if fx then v ++ skipn (length k) s else replace_all s k v.

(* well-formed tables: keys are absolute paths, replacements are non-empty and
   not absolute (boolean, evaluated by the harness on every table it builds) *)
Definition keys_abs (t : list (bytes * bytes)) : bool := forallb (fun kv => is_abs (fst kv)) t.
Definition repls_rel (t : list (bytes * bytes)) : bool := forallb (fun kv => rel_nonempty (snd kv)) t.
Definition keys_nonempty (t : list (bytes * bytes)) : bool :=
  forallb (fun kv => match fst kv with [] => false | _ :: _ => true end) t.
(* a regexp replacement that cannot turn a relative text into an absolute one *)
Definition rx_keeps_rel (r : rx) : Prop :=
  forall s, rel_nonempty s = true -> rel_nonempty (rx_replace r s) = true.

(* ---- the table operations of cmn.go (a map: one entry per key) ---- *)
Definition tbl_remove (t : list (bytes * bytes)) (k : bytes) : list (bytes * bytes) :=
  filter (fun kv => negb (bytes_eqb (fst kv) k)) t.
Definition tbl_add (t : list (bytes * bytes)) (k v : bytes) : list (bytes * bytes) :=
  tbl_remove t k ++ [(k, v)].

Inductive tbl_op := TAdd (k v : bytes) | TRemove (k : bytes) | TReset.
Definition tbl_step (t : list (bytes * bytes)) (o : tbl_op) : list (bytes * bytes) :=
  match o with TAdd k v => tbl_add t k v | TRemove k => tbl_remove t k | TReset => [] end.

(* all iteration orders of a table *)
Fixpoint insert_all {A} (x : A) (l : list A) : list (list A) :=
  match l with
  | [] => [[x]]
  | y :: t => (x :: l) :: map (cons y) (insert_all x t)
  end.
Fixpoint perms {A} (l : list A) : list (list A) :=
  match l with
  | [] => [[]]
  | x :: t => flat_map (insert_all x) (perms t)
  end.

(* byte-string literals for examples and witnesses: B "/root" *)
Require Coq.Strings.String.
Export Coq.Strings.String.StringSyntax.
Definition B (s : Coq.Strings.String.string) : bytes := Coq.Strings.String.list_byte_of_string s.
Arguments B s%string_scope.
