(* C16: the timestamp of a record (slog/pc.go appendTimestamp, slog/entry.go
   SetUTCMode / SetTimeFormat / printTimestamp).

   What logg decides is modelled: which zone, which layout, the framing of the
   rendered text.  What Go's standard library does - Time.In(zone).Format(layout),
   time.Parse - is NOT modelled: the rendering is a parameter
   [render : zone -> bytes -> bytes] of the model (the harness supplies Go's own
   renderings), and the parse-back claim of the property is checked by the
   harness, not proved.  No proofs here. *)
Require Import Verif.Model.Base Verif.Model.Decision Verif.Model.Mode Verif.Model.DecisionRef.
From Coq Require Import Strings.String.

(* ASCII literals as bytes (layout strings are written out in the theorems) *)
Definition asc (s : string) : bytes := list_byte_of_string s.

(* ---- logger state ---- *)
(* Entry.modeUTC: the zero value 0 (never chosen) on a fresh logger, else what the
   last SetUTCMode / WithUTCMode call left *)
Definition utc_state (call : option (list bool)) : Z :=
  match call with None => 0 | Some args => set_utc_mode_ref args end.
(* Entry.timeLayout: empty on a fresh logger, else what SetTimeFormat left *)
Definition layout_state (call : option (list bytes)) : bytes :=
  match call with None => [] | Some args => set_time_format_ref args end.

(* ---- the statement's reading of the decisions ---- *)
(* UTC iff UTC mode was chosen, or no mode was chosen and the local-time flag is off *)
Definition shows_utc (utc flags localflag : Z) : Prop :=
  utc = 2 \/ (utc = 0 /\ Z.land flags localflag = 0).

(* last non-empty element of a list of layouts, d when there is none *)
Definition nonempty (l : bytes) : bool := match l with [] => false | _ => true end.
Definition last_nonempty (d : bytes) (ls : list bytes) : bytes := last (filter nonempty ls) d.

(* the layout each of the eight date/time/microseconds combinations selects
   (argument: flags & (Ldate|Ltime|Lmicroseconds), Ldate = 1, Ltime = 2, Lmicroseconds = 4) *)
Definition layout_by_flags (dt : Z) : bytes :=
  match dt with
  | 1 => asc "2006-01-02"                          (* Ldate *)
  | 2 => asc "15:04:05Z07:00"                      (* Ltime *)
  | 3 => asc "2006-01-0215:04:05Z07:00"            (* Ldate|Ltime *)
  | 5 => asc "2006-01-02T15:04:05.000000Z07:00"    (* Ldate|Lmicroseconds *)
  | 6 => asc "15:04:05.000000Z07:00"               (* Ltime|Lmicroseconds *)
  | 7 => asc "2006-01-02T15:04:05.000000Z07:00"    (* Ldate|Ltime|Lmicroseconds *)
  | _ => asc "15:04:05.000000Z07:00"               (* none (0) and Lmicroseconds alone (4): not in the table, TimeNano *)
  end.

(* ---- framing ---- *)
(* the tail of appendTimestamp: if s.jsonMode || s.noColor then double quote, text, double
   quote, else text followed by a vertical bar *)
Definition append_timestamp_framing (json_mode no_color : bool) (rendered : bytes) : bytes :=
  if json_mode || no_color then [x22] ++ rendered ++ [x22] else rendered ++ [x7c].

(* the same by the shape of the record *)
Definition timestamp_text (sh : shape) (rendered : bytes) : bytes :=
  match sh with
  | ShJSON | ShLogfmt => x22 :: rendered ++ [x22]
  | ShColor => rendered ++ [x7c]
  end.

(* ---- the timestamp of a record ---- *)
(* render z l = Go's  instant.In(z).Format(l)  for the record's instant *)
Definition timestamp (render : zone -> bytes -> bytes) (m : list (Z * bytes))
  (utc_call : option (list bool)) (layout_call : option (list bytes)) (flags : Z) (sh : shape) : bytes :=
  timestamp_text sh (render (zone_choice_ref (utc_state utc_call) flags)
                            (layout_choice_ref m (layout_state layout_call) flags)).
