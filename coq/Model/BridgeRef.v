(* What Gen/Bridge.v (NewLogLogger and handlerWriter.Write, translated from slog/funcs.go) mentions, and the reference
   versions - the fallbacks.  No proofs here. *)
Require Import Verif.Model.Base Verif.Model.Decision Verif.Model.GoSem.

(* a handlerWriter: (l, lvl, capturePC, extraFrames); loggers are numbers *)
Definition hwriter : Type := (Z * Z * bool * Z)%type.
(* what NewLogLogger hands to log.New *)
Inductive bridge := BridgeNone | mk_bridge (w : hwriter) (prefix : bytes) (flags : Z).
(* stands for io.Discard where the source puts it in place of a handlerWriter: a writer with no logger behind it *)
Definition w_discard : hwriter := (-1, -1, false, -1).

Definition new_log_logger_ref (f_level : Z -> Z) (f_cEnabled : Z -> Z -> bool) (f_cSkip : Z -> Z) (g_flags g_deflevel : Z) (h : Z) (lvl : Z) : bridge :=
  mk_bridge (h, lvl, true, 0) [] 0.

(* what handlerWriter.Write does: at most one WriteInternal(lvl, pc, buf) on the logger *)
Inductive bwev := BWPanic | BWInternal (logger lvl pc : Z) (buf : bytes) | BWPrint (lvl now pc : Z) (msg : bytes).
Definition bridge_pc (f_skip : Z -> Z) (f_getpc : Z -> Z -> Z) (l : Z) (capture : bool) (extra : Z) : Z :=
  if capture then f_getpc 4 (extra + f_skip l) else 0.
Definition bridge_write_ref (f_enabled : Z -> Z -> bool) (f_skip : Z -> Z) (f_getpc : Z -> Z -> Z)
    (as_LogLoggerAware_of_Logger : Z -> option Z) (w_n : Z) (w_e : option unit)
    (s_l s_lvl : Z) (s_capturePC : bool) (s_extraFrames : Z) (buf : bytes) (tr_ : list bwev) : Z * option unit * list bwev :=
  if f_enabled s_l s_lvl
  then match as_LogLoggerAware_of_Logger s_l with
       | Some h => (w_n, w_e, tr_ ++ [BWInternal h s_lvl (bridge_pc f_skip f_getpc s_l s_capturePC s_extraFrames) buf])
       | None => (0, None, tr_)
       end
  else (0, None, tr_).

(* writeInternal(ctx, lvl, pc, buf): ONE final line feed is taken off, nothing else (not a CR in front of it, not a
   second LF); the whole length is reported; the rest is printed at (lvl, now, pc) without attributes *)
Definition drop_final_lf (buf : bytes) : bytes :=
  match rev buf with
  | b :: r => if bz b =? 10 then rev r else buf
  | [] => buf
  end.
Definition write_internal_ref (f_trimRight f_trimSuffix : bytes -> bytes -> bytes) (g_now : Z) (lvl stackFrame : Z) (buf : bytes) (tr_ : list bwev) : option (Z * option unit * list bwev) :=
  Some (Z.of_nat (List.length buf), None, tr_ ++ [BWPrint lvl g_now stackFrame (drop_final_lf buf)]).
