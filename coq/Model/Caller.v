(* C14: caller attribution as frame arithmetic.

   The stack at the moment runtime.Callers runs, innermost frame first:

     native entry points   [Callers; getpc; f_depth ... f_1; user_0; user_1; ...]
     log/slog adapter      [Callers; Handle; lib_2 lib_1; user_0; user_1; ...]
     std log bridge        [Callers; getpc; Write; lib_2 lib_1; user_0; user_1; ...]

   f_1 is the public entry point, f_depth the logg function that calls getpc;
   user_0 is the statement in user code that issued the record, user_k the call
   statement k frames further up (a wrapper's caller).  runtime.Callers(i, pcs[:1])
   stores the frame at index i of this list, index 0 being Callers itself.
   How the Go runtime counts (inlined) frames is NOT modelled: a frame here is a
   logical frame as runtime.CallersFrames reports it. *)
Require Import Verif.Model.Base Verif.Model.EntryPoint.

Inductive frame :=
| FCallers            (* runtime.Callers *)
| FGetpc              (* slog.getpc *)
| FLogg (i : nat)     (* logg's own frames; FLogg 1 = the public entry point or the adapter method *)
| FLib (i : nat)      (* standard-library frames between the user's statement and the adapter method *)
| FUser (k : nat).    (* FUser 0 = the issuing statement; FUser k = k frames further up *)

Definition logg_frames (d : nat) : list frame := map FLogg (rev (seq 1 d)).
Definition lib_frames (d : nat) : list frame := map FLib (rev (seq 1 d)).
Definition user_frames (w : nat) : list frame := map FUser (seq 0 (S w)).   (* the statement and w frames above it *)

(* runtime.Callers(i, pcs[:1]); pcs[0]: a skip below 0 behaves like 0 (Z.to_nat), beyond the stack nothing is stored *)
Definition callers (st : list frame) (i : Z) : option frame := nth_error st (Z.to_nat i).

(* ---- native entry points (rows of Gen.entry_points) ---- *)
(* getpc(skip, extra) calls runtime.Callers(skip+extra+1, ...) *)
Definition frame_index (e : ep) (extra : Z) : Z := ep_skip e + extra + 1.
Definition user_index (e : ep) : Z := ep_depth e + 2.
Definition issues (e : ep) : bool := match ep_sev e with SevNone => false | _ => true end.

Definition native_stack (e : ep) (w : nat) : list frame :=
  FCallers :: FGetpc :: logg_frames (Z.to_nat (ep_depth e)) ++ user_frames w.
Definition attributed (e : ep) (extra : Z) (w : nat) : option frame :=
  callers (native_stack e w) (frame_index e extra).

(* ---- the two adapter sites ---- *)
Record adapter := mk_adapter {
  ad_recv : bytes;        (* the name the harness gives the site *)
  ad_getpc : bool;        (* the pc is taken through getpc (one more frame) / by runtime.Callers directly *)
  ad_arg0 : Z;            (* the argument reaching runtime.Callers when no extra frame is asked for *)
  ad_reads_skip : bool;   (* the logger's Skip() is added to it *)
  ad_logg : nat;          (* logg frames: the adapter method *)
  ad_lib : nat            (* TRUSTED INPUT: standard-library frames between the user's statement and the adapter method *)
}.

Definition adapter_index (a : adapter) (skip : Z) : Z := ad_arg0 a + (if ad_reads_skip a then skip else 0).
Definition adapter_user_index (a : adapter) : Z :=
  Z.of_nat (ad_logg a) + Z.of_nat (ad_lib a) + (if ad_getpc a then 2 else 1).
Definition adapter_stack (a : adapter) (w : nat) : list frame :=
  FCallers :: (if ad_getpc a then [FGetpc] else []) ++ logg_frames (ad_logg a) ++ lib_frames (ad_lib a) ++ user_frames w.
Definition adapter_attributed (a : adapter) (skip : Z) (w : nat) : option frame :=
  callers (adapter_stack a w) (adapter_index a skip).

Definition n_slogadapter : bytes := [x73;x6c;x6f;x67;x61;x64;x61;x70;x74;x65;x72].   (* slogadapter *)
Definition n_bridge : bytes := [x62;x72;x69;x64;x67;x65].                             (* bridge *)

(* handler4LogSlog.Handle  <- log/slog.Logger.log <- Logger.Info/Debug/Warn/Error/Log <- user   (lib_slog = 2)
   handlerWriter.Write     <- log.Logger.output   <- Logger.Println/Printf/Print      <- user   (lib_log = 2)
   The constants come from the source (Gen/CallerSites.v), the two library depths are trusted inputs. *)
Definition adapter_sites (handle_arg0 : Z) (handle_reads : bool) (bridge_arg0 : Z) (bridge_reads : bool)
                         (lib_slog lib_log : nat) : list adapter :=
  [ mk_adapter n_slogadapter false handle_arg0 handle_reads 1 lib_slog;
    mk_adapter n_bridge true bridge_arg0 bridge_reads 1 lib_log ].

Fixpoint find_adapter (recv : bytes) (l : list adapter) : option adapter :=
  match l with
  | [] => None
  | a :: t => if bytes_eqb (ad_recv a) recv then Some a else find_adapter recv t
  end.

(* projection used by the correspondence: which user frame (if any) a record is attributed to *)
Definition user_offset (f : option frame) : Z :=
  match f with Some (FUser k) => Z.of_nat k | _ => -1 end.
