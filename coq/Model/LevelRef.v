(* Reference versions (same signatures) of the functions of Gen/LevelNames.v, translated from
   Level.String, Level.ShortTag and ParseLevel: the fallbacks of those sites.  They are the
   functions of Model/Level.v on the tables they read.  No proofs here. *)
Require Import Verif.Model.Base Verif.Model.Decision Verif.Model.Dec Verif.Model.GoSem Verif.Model.Level.

(* what ParseLevel does besides returning: it logs a warning about an unknown name *)
Inductive lvl_event := EvWarnUnknown (name : bytes).

(* a registry that holds the given tables (the other tables are not read by these functions) *)
Definition reg_of (l2s : list (Z * bytes)) (s2l : list (bytes * Z)) (tags : list (Z * list (Z * bytes))) : registry :=
  {| r_all := []; r_l2s := l2s; r_s2l := s2l; r_tags := tags; r_as := []; r_errdev := []; r_colors := [] |}.

Definition level_string_ref (m_levelToString : list (Z * bytes)) (level : Z) : bytes :=
  Level.level_string (reg_of m_levelToString [] []) level.

Definition short_tag_ref (m_shortTagMap : list (Z * list (Z * bytes))) (m_levelToString : list (Z * bytes))
  (level : Z) (length_ : Z) : option bytes :=
  Level.short_tag (reg_of m_levelToString [] m_shortTagMap) length_ level.

Definition parse_level_ref (m_stringToLevel : list (bytes * Z)) (lvl : bytes) (tr_ : list lvl_event)
  : Z * option unit * list lvl_event :=
  match Level.parse_level (reg_of [] m_stringToLevel []) lvl with
  | Some l => (l, None, tr_)
  | None => (0, Some tt, tr_ ++ [EvWarnUnknown lvl])
  end.

(* Level.UnmarshalText: ParseLevel of the text; the receiver is written iff the name is known *)
Definition unmarshal_text_ref (m_stringToLevel : list (bytes * Z)) (level : Z) (text : bytes) (tr_ : list lvl_event)
  : option unit * Z * list lvl_event :=
  match Level.parse_level (reg_of [] m_stringToLevel []) text with
  | Some l => (None, l, tr_)
  | None => (Some tt, level, tr_ ++ [EvWarnUnknown text])
  end.

(* Level.MarshalText: the name registered for the level, an error when there is none *)
Definition marshal_text_ref (m_levelToString : list (Z * bytes)) (level : Z) : bytes * option unit :=
  match lookupZ m_levelToString level with Some s => (s, None) | None => ([], Some tt) end.
