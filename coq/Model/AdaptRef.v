(* What Gen/Handlers.v (translated from handler4LogSlog.with, slog/adapters.go) mentions, and the reference
   version (same signature) - the fallback.  No proofs here. *)
Require Import Verif.Model.Base Verif.Model.Decision Verif.Model.GoSem.

Definition lgr : Type := Z.                 (* the embedded Logger: which logger *)
Definition hop : Type := Z.                 (* one handlerOp (a WithAttrs or WithGroup call): which one *)
Definition hnd : Type := (lgr * hslice)%type.   (* a handler4LogSlog: {Logger, ops} *)

(* with(op): a NEW array holding the receiver's ops and op; no existing array is written to *)
Definition handler_with_ref (h_zero : hop) (f_growcap : nat -> nat) (s_Logger : lgr) (s_ops : hslice) (op : hop)
  (heap_ : heap hop) : option (hnd * heap hop) :=
  let n := (Z.to_nat (h_len s_ops) + 1)%nat in
  Some ((s_Logger, (List.length heap_, 0%nat, n, n)), heap_ ++ [h_read heap_ s_ops ++ [op]]).

(* a slice is well formed in a heap: its cells exist *)
Definition h_ok {A} (h : heap A) (s : hslice) : bool :=
  let '(a, o, l, c) := s in (a <? List.length h)%nat && (o + l <=? List.length (nth a h []))%nat && (l <=? c)%nat.
