(* What Gen/Handlers.v (translated from handler4LogSlog.with, slog/adapters.go) mentions, and the reference
   version (same signature) - the fallback.  No proofs here. *)
Require Import Verif.Model.Base Verif.Model.Decision Verif.Model.GoSem.

Definition lgr : Type := Z.                 (* the embedded Logger: which logger *)
Definition hop : Type := Z.                 (* one handlerOp (a WithAttrs or WithGroup call): which one *)
Definition hnd : Type := (lgr * hslice)%type.   (* a handler4LogSlog: {Logger, ops} *)

(* with(op): a NEW array holding the receiver's ops and op; no existing array is written to *)
Definition handler_with_ref (h_zero : hop) (f_growcap : nat -> nat) (s_Logger : lgr) (s_ops : hslice) (op : hop)
  (heap_ : heap hop) : option (hnd * heap hop) :=
  let n := (Z.to_nat (h_len s_ops) + 1)%nat in
  Some ((s_Logger, (List.length heap_, 0%nat, n, n)), heap_ ++ [h_read heap_ s_ops ++ [op]]).

Definition acell : Type := Z.               (* one Attr (an attribute of a record): which one *)

(* nest at the level of contents: what WithAttrs / WithGroup added, innermost last, around the attributes of
   a record; a group without content is left out (Model/Adapters.v nest, with the grouping as a parameter) *)
Definition nest_op (f_group : bytes -> list acell -> acell) (op : bytes * list acell) (inner : list acell) : list acell :=
  match fst op with
  | [] => snd op ++ inner
  | _ :: _ => match inner with [] => [] | _ :: _ => [f_group (fst op) inner] end
  end.
Definition nest_cells (f_group : bytes -> list acell -> acell) (ops : list (bytes * list acell)) (fields : list acell) : list acell :=
  fold_right (nest_op f_group) fields ops.

(* a slice is well formed in a heap: its cells exist *)
Definition h_ok {A} (h : heap A) (s : hslice) : bool :=
  let '(a, o, l, c) := s in (a <? List.length h)%nat && (o + l <=? List.length (nth a h []))%nat && (l <=? c)%nat.

(* the fallback of nest: the contents of the model in ONE new array (or the caller's slice when nothing was added) *)
Definition handler_nest_ref (h_zero : acell) (f_growcap : nat -> nat) (f_group : bytes -> list acell -> acell)
  (s_ops : list (bytes * hslice)) (fields : hslice) (heap_ : heap acell) : option (hslice * heap acell) :=
  let cells := nest_cells f_group (map (fun op => (fst op, h_read heap_ (snd op))) s_ops) (h_read heap_ fields) in
  match s_ops with
  | [] => Some (fields, heap_)
  | _ :: _ => Some (h_lit heap_ cells)
  end.

(* one round of nest on the heap, with the primitives the translation uses *)
Definition nest_step (h_zero : acell) (gc : nat -> nat) (f_group : bytes -> list acell -> acell)
  (op : bytes * hslice) (f : hslice) (h : heap acell) : option (hslice * heap acell) :=
  if bytes_eqb (fst op) []
  then match h_make_cap h 0 (h_len (snd op) + h_len f) h_zero with
       | None => None
       | Some (s1, h1) =>
           let '(s2, h2) := h_append_all gc h1 s1 (h_read h1 (snd op)) in
           Some (h_append_all gc h2 s2 (h_read h2 f))
       end
  else if 0 <? h_len f then Some (h_lit h [f_group (fst op) (h_read h f)]) else Some (f, h).
