(* Types and helpers used by the generated decision functions (Gen/Decisions.v). *)
Require Import Verif.Model.Base.

Inductive action := ActContinue | ActPanic | ActExit (code : Z).
Inductive zone := ZoneUTC | ZoneOwn.

Definition is_nil {A} (o : option A) : bool := match o with None => true | Some _ => false end.

Fixpoint lookupB {V} (m : list (bytes * V)) (k : bytes) : option V :=
  match m with
  | [] => None
  | (k', v) :: t => if bytes_eqb k' k then Some v else lookupB t k
  end.

Definition action_eqb (a b : action) : bool :=
  match a, b with
  | ActContinue, ActContinue | ActPanic, ActPanic => true
  | ActExit x, ActExit y => x =? y
  | _, _ => false
  end.
Definition zone_eqb (a b : zone) : bool :=
  match a, b with ZoneUTC, ZoneUTC | ZoneOwn, ZoneOwn => true | _, _ => false end.
