(* C11: the two mode flags of an Entry and the calls that change them.
   Mirrors slog/entry.go SetJSONMode / SetColorMode and slog/pc.go setentry.
   No proofs here. *)
Require Import Verif.Model.Base.

(* the two fields of Entry the mode calls touch *)
Record mflags := { useJSON : bool; useColor : bool }.

(* func (s *Entry) SetJSONMode(b ...bool): mode := true; for bb in b {mode = bb};
   if mode { s.useColor = false }; s.useJSON = mode *)
Definition set_json_mode (b : list bool) (s : mflags) : mflags :=
  let mode := last_of true b in
  let s1 := if mode then {| useJSON := useJSON s; useColor := false |} else s in
  {| useJSON := mode; useColor := useColor s1 |}.

(* func (s *Entry) SetColorMode(b ...bool): mode := true; loop; s.useJSON = false; s.useColor = mode *)
Definition set_color_mode (b : list bool) (s : mflags) : mflags :=
  let mode := last_of true b in
  {| useJSON := false; useColor := mode |}.

(* PrintCtx.setentry: jsonMode = e.useJSON; useColor := e.useColor;
   if e.useJSON && useColor {useColor = false}; noColor = !useColor *)
Definition pc_json_mode (s : mflags) : bool := useJSON s.
Definition pc_no_color (s : mflags) : bool :=
  let uc := useColor s in
  let uc := if useJSON s && uc then false else uc in
  negb uc.

(* the shape of the record the encoders produce (entry.go printImpl):
   jsonMode -> Begin writes '{'; noColor && !jsonMode -> logfmt; else colour *)
Inductive shape := ShJSON | ShColor | ShLogfmt.
Definition shape_of (s : mflags) : shape :=
  if pc_json_mode s then ShJSON else if pc_no_color s then ShLogfmt else ShColor.

(* ---- the specification: a three-state machine ---- *)
Inductive mode := MJ | MC | ML.
Inductive mcall := CallJSON (b : list bool) | CallColor (b : list bool).

Definition mode_step (m : mode) (c : mcall) : mode :=
  match c with
  | CallJSON b => if last_of true b then MJ else match m with MJ => ML | x => x end
  | CallColor b => if last_of true b then MC else ML
  end.

Definition mode_of (s : mflags) : mode :=
  if useJSON s then MJ else if useColor s then MC else ML.

Definition apply_call (s : mflags) (c : mcall) : mflags :=
  match c with
  | CallJSON b => set_json_mode b s
  | CallColor b => set_color_mode b s
  end.

Definition mode_wf (s : mflags) : Prop := useJSON s && useColor s = false.

Definition shape_eqb (a b : shape) : bool :=
  match a, b with
  | ShJSON, ShJSON | ShColor, ShColor | ShLogfmt, ShLogfmt => true
  | _, _ => false
  end.
