(* Attribute assembly (slog/entry.go logContext -> collectArgs -> fromCtx,
   walkParentAttrs; slog/funcs.go argsToAttrs on an argument list of attributes).
   What is printed is this list after the sort + de-duplication of
   serializeAttrs (Model/Attrs.v norm_attrs), in every format.  No proofs here. *)
Require Import Verif.Model.Base Verif.Model.Attrs.

(* a registered context key (Entry.contextKeys is a []any): fromCtx looks at
   strings and at Stringers, every other key type is skipped by its type switch *)
Inductive ckey :=
| CKStr (s : bytes)          (* a string key: printed under that string *)
| CKStringer (s : bytes)     (* a key of a Stringer type: printed under String() *)
| CKOther (id : Z).          (* any other comparable key type *)

(* Go's interface equality on context keys: same dynamic type and same value *)
Definition ckey_eqb (a b : ckey) : bool :=
  match a, b with
  | CKStr x, CKStr y => bytes_eqb x y
  | CKStringer x, CKStringer y => bytes_eqb x y
  | CKOther x, CKOther y => x =? y
  | _, _ => false
  end.

(* the attribute key a context key is printed under *)
Definition ckey_name (k : ckey) : option bytes :=
  match k with
  | CKStr s => Some s
  | CKStringer s => Some s
  | CKOther _ => None
  end.

(* A context is the list of its WithValue layers, oldest first; ctx.Value(k) is
   the value of the innermost (= last) layer whose key equals k.  VNil stands for
   a layer made with a nil value (it hides older layers of the same key). *)
Definition ctx_value (c : list (ckey * value)) (k : ckey) : option value :=
  fold_left (fun acc kv => if ckey_eqb (fst kv) k then Some (snd kv) else acc) c None.

Definition is_nil (v : value) : bool := match v with VNil => true | _ => false end.

(* one registered key: `if v := ctx.Value(k); v != nil { switch key := k.(type) {...} }` *)
Definition ctx_attr (c : list (ckey * value)) (k : ckey) : list attr :=
  match ctx_value c k with
  | Some v => if is_nil v then []
              else match ckey_name k with Some n => [A n v] | None => [] end
  | None => []
  end.

(* Entry.fromCtx.  ctx = None is a nil context.Context: logContext replaces it by
   context.TODO(), which has no values. *)
Definition from_ctx (keys : list ckey) (ctx : option (list (ckey * value))) : list attr :=
  match ctx with
  | None => []
  | Some c => flat_map (ctx_attr c) keys
  end.

(* Entry.walkParentAttrs(e).  chain = the own attribute lists from e up to the
   root: [e.attrs; e.owner.attrs; ...]; [] is e == nil. *)
Fixpoint walk_parents (inheritR : bool) (chain : list (list attr)) : list attr :=
  match chain with
  | [] => []
  | own :: up =>
      if Nat.eqb (length own) 0 && negb inheritR then []
      else (if inheritR then walk_parents inheritR up else []) ++ own
  end.

(* Entry.collectArgs.  fx = false is the code as found: walkParentAttrs is only
   called `if len(s.attrs) > 0`; fx = true is the proposed repair
   `if len(s.attrs) > 0 || IsAnyBitsSet(LattrsR)`.  args is the call's argument
   list as attributes (argsToAttrs appends them in order; a nil entry of an
   Attrs/[]Attr argument stays a nil entry). *)
Definition collect (inheritR fx : bool) (keys : list ckey) (ctx : option (list (ckey * value)))
                   (chain : list (list attr)) (args : list attr) : list attr :=
  (match keys with [] => [] | _ :: _ => from_ctx keys ctx end)          (* s.ctxKeysWanted() *)
  ++ (match chain with
      | [] => []
      | own :: _ => if negb (Nat.eqb (length own) 0) || (fx && inheritR)
                    then walk_parents inheritR chain else []
      end)
  ++ (match args with [] => [] | _ :: _ => args end).                   (* len(args) > 0 *)

(* which variant the correspondence check compares with the implementation; the
   coordinator sets it to true once the repair is committed to the repository *)
Definition fix_inherit : bool := true.

(* what the encoders print: every level sorted by key, the last of equal keys kept *)
Definition printed (inheritR fx : bool) (keys : list ckey) (ctx : option (list (ckey * value)))
                   (chain : list (list attr)) (args : list attr) : list attr :=
  norm_attrs (collect inheritR fx keys ctx chain args).
