(* C01: what an entry point does with the admission rule, and gating histories. *)
Require Import Verif.Model.Base Verif.Model.Decision Verif.Model.Level Verif.Model.EntryPoint.

Definition severity_of (e : ep) (param : Z) : option Z :=
  match ep_sev e with
  | SevConst l => Some l
  | SevParam | SevSlog => Some param
  | SevNone => None
  end.

(* does a call through entry point e on a logger at level L produce output?
   gated rows ask Level.Enabled; an ungated row reaches printOut, where only
   the Off severity is swallowed (dualWriter.Get returns the discard writer). *)
Definition emits (e : ep) (enabled_as : list (Z * Z)) (dbg : bool) (L param : Z) : bool :=
  match severity_of e param with
  | None => false
  | Some r => if ep_gated e then enabled_code enabled_as dbg L r else negb (r =? lv_off)
  end.

(* ---- histories that influence gating ---- *)
Record gworld := {
  g_levels : list Z;        (* level of each logger, by creation index *)
  g_reg : registry;
  g_dbg : bool
}.

Inductive gop :=
| GSetLevel (i : nat) (l : Z)          (* logger.SetLevel(l) *)
| GWithLevel (i : nat) (l : Z)         (* logger.WithLevel(l) / New(WithLevel(l)): a new logger *)
| GRegister (v : Z) (title : bytes) (o : regopts)
| GSetDebug (b : bool).                (* is.SetDebugMode(b) by the application *)

Definition gstep (w : gworld) (o : gop) : gworld :=
  match o with
  | GSetLevel i l =>
      {| g_levels := if Nat.ltb i (length (g_levels w)) then replace_nth i (g_levels w) l else g_levels w;
         g_reg := g_reg w;
         g_dbg := if Nat.ltb i (length (g_levels w)) && (l =? lv_debug) then true else g_dbg w |}
  | GWithLevel i l =>
      if Nat.ltb i (length (g_levels w))
      then {| g_levels := g_levels w ++ [l]; g_reg := g_reg w;
              g_dbg := if l =? lv_debug then true else g_dbg w |}
      else w
  | GRegister v title o => {| g_levels := g_levels w; g_reg := fst (register (g_reg w) v title o); g_dbg := g_dbg w |}
  | GSetDebug b => {| g_levels := g_levels w; g_reg := g_reg w; g_dbg := b |}
  end.

Definition grun (w : gworld) (ops : list gop) : gworld := fold_left gstep ops w.

Definition is_set_debug (o : gop) : bool := match o with GSetDebug _ => true | _ => false end.
Definition switches_debug_on (n : nat) (o : gop) : bool :=
  match o with
  | GSetLevel i l | GWithLevel i l => Nat.ltb i n && (l =? lv_debug)
  | _ => false
  end.
