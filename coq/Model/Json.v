(* The SPECIFICATION side of property C04: what a JSON reader sees.

   - [json]: a JSON value with ORDERED object members (duplicates are kept, so a
     forged or repeated member would be visible);
   - [parse_json]: a byte-level parser following RFC 8259 (strings with every
     escape form and surrogate pairs, numbers kept as their text, literals,
     arrays, objects, optional blanks between tokens).  Nesting is bounded by
     explicit fuel; running out of fuel ([PFuel]) is distinguished from a syntax
     error ([PSyntax]);
   - [json_of]: the object a record is expected to decode to (DESIGN.md A.1);
   - the domain of the C04 theorems as boolean predicates ([plain_b],
     [dom_value_b], [dom_attrs_b], [dom_cfg_b]) and the nesting depth.

   Nothing here refers to how the encoder escapes.  No proofs here. *)
Require Import Verif.Model.Base Verif.Model.Dec Verif.Model.Level Verif.Model.Mode.
Require Import Verif.Model.Utf8 Verif.Model.Quote Verif.Model.Attrs Verif.Model.Encode.

Inductive json :=
| JNull
| JBool (b : bool)
| JNum (text : bytes)                     (* the number token itself: exact value, no rounding *)
| JStr (s : bytes)                        (* the DECODED text, as UTF-8 *)
| JArr (l : list json)
| JObj (members : list (bytes * json)).   (* in source order, names decoded *)

Inductive pres (A : Type) :=
| POk (a : A) (rest : bytes)
| PSyntax
| PFuel.
Arguments POk {A}. Arguments PSyntax {A}. Arguments PFuel {A}.

(* ---- blanks ---- *)
Definition is_ws (b : byte) : bool := (bz b =? 32) || (bz b =? 9) || (bz b =? 10) || (bz b =? 13).
Fixpoint skip_ws (s : bytes) : bytes :=
  match s with
  | b :: t => if is_ws b then skip_ws t else s
  | [] => []
  end.

(* ---- strings (RFC 8259 section 7), after the opening quote ----
   unescaped = %x20-21 / %x23-5B / %x5D-10FFFF; escapes (backslash + quote, backslash, slash, b, f, n, r, t, uXXXX).
   The decoded text is delivered as UTF-8: a \uD800-\uDBFF followed by a
   \uDC00-\uDFFF is one code point; a lone surrogate and a raw byte sequence that
   is not UTF-8 become U+FFFD (what encoding/json and every conforming reader that
   delivers Unicode text do).  [skip] = bytes of the current escape or rune still
   to be passed over (keeps the recursion structural).
   Result: (decoded text, rest after the closing quote). *)
Definition consp (chunk : bytes) (o : option (bytes * bytes)) : option (bytes * bytes) :=
  match o with Some (x, r) => Some (chunk ++ x, r) | None => None end.

Definition is_hi_sur (v : Z) : bool := (55296 <=? v) && (v <=? 56319).
Definition is_lo_sur (v : Z) : bool := (56320 <=? v) && (v <=? 57343).

Fixpoint pstr (skip : nat) (s : bytes) : option (bytes * bytes) :=
  match s with
  | [] => None                                         (* unterminated *)
  | c :: t =>
    match skip with
    | S k => pstr k t
    | O =>
      if bz c =? 34 then Some ([], t)
      else if bz c <? 32 then None                     (* raw control character *)
      else if bz c =? 92 then
        match t with
        | [] => None
        | e :: t' =>
          let simple (v : byte) := consp [v] (pstr 1 t) in
          if bz e =? 34 then simple x22 else if bz e =? 92 then simple x5c else if bz e =? 47 then simple x2f
          else if bz e =? 98 then simple x08 else if bz e =? 102 then simple x0c else if bz e =? 110 then simple x0a
          else if bz e =? 114 then simple x0d else if bz e =? 116 then simple x09
          else if bz e =? 117 then
            match unhexn 4 0 t' with
            | None => None
            | Some (v, t'') =>
              if is_hi_sur v then
                match t'' with
                | b1 :: b2 :: t3 =>
                  if (bz b1 =? 92) && (bz b2 =? 117) then
                    match unhexn 4 0 t3 with
                    | Some (v2, _) =>
                      if is_lo_sur v2
                      then consp (encode_rune (65536 + (v - 55296) * 1024 + (v2 - 56320))) (pstr 11 t)
                      else consp (encode_rune RuneError) (pstr 5 t)
                    | None => consp (encode_rune RuneError) (pstr 5 t)   (* the bad escape is met next *)
                    end
                  else consp (encode_rune RuneError) (pstr 5 t)
                | _ => consp (encode_rune RuneError) (pstr 5 t)
                end
              else consp (encode_rune v) (pstr 5 t)      (* a lone low surrogate is encoded as U+FFFD *)
            end
          else None
        end
      else if bz c <? 128 then consp [c] (pstr 0 t)
      else let '(r, w) := decode_rune s in consp (encode_rune r) (pstr (w - 1) t)
    end
  end.

(* ---- numbers (section 6): [ minus ] int [ frac ] [ exp ], kept as text ---- *)
Definition is_digit (b : byte) : bool := (48 <=? bz b) && (bz b <=? 57).
Fixpoint span_digits (s : bytes) : bytes * bytes :=
  match s with
  | b :: t => if is_digit b then let '(d, r) := span_digits t in (b :: d, r) else ([], s)
  | [] => ([], [])
  end.

Definition pnum (s : bytes) : option (bytes * bytes) :=
  let '(sign, s1) := match s with
                     | c :: t => if bz c =? 45 then ([c], t) else ([], s)
                     | [] => ([], s)
                     end in
  match s1 with
  | [] => None
  | d :: t1 =>
    if negb (is_digit d) then None else
    (* int = zero / ( digit1-9 *DIGIT ): no leading zeros *)
    let '(ip, s2) := if bz d =? 48 then ([d], t1) else let '(ds, r) := span_digits t1 in (d :: ds, r) in
    let frac := match s2 with
                | p :: t2 =>
                  if bz p =? 46
                  then let '(ds, r) := span_digits t2 in match ds with [] => None | _ => Some (p :: ds, r) end
                  else Some ([], s2)
                | [] => Some ([], s2)
                end in
    match frac with
    | None => None
    | Some (fp, s3) =>
      let ex := match s3 with
                | e :: t3 =>
                  if (bz e =? 101) || (bz e =? 69) then
                    let '(sg, t4) := match t3 with
                                     | c :: t' => if (bz c =? 43) || (bz c =? 45) then ([c], t') else ([], t3)
                                     | [] => ([], t3)
                                     end in
                    let '(ds, r) := span_digits t4 in
                    match ds with [] => None | _ => Some (e :: sg ++ ds, r) end
                  else Some ([], s3)
                | [] => Some ([], s3)
                end in
      match ex with
      | None => None
      | Some (ep, s4) => Some (sign ++ ip ++ fp ++ ep, s4)
      end
    end
  end.

(* ---- literals ---- *)
Fixpoint strip_prefix (p s : bytes) : option bytes :=
  match p, s with
  | [], _ => Some s
  | a :: p', b :: s' => if byte_eqb a b then strip_prefix p' s' else None
  | _ :: _, [] => None
  end.

(* ---- values (sections 2-5).  [self] parses a nested value with one unit of
   fuel less; the two loops are bounded by the length of the input (an element
   takes at least one byte), exhaustion of that bound is reported as PFuel ---- *)
Section Step.
Variable self : bytes -> pres json.

(* member = string name-separator value *)
Definition pmember (s : bytes) : pres (bytes * json) :=
  match skip_ws s with
  | q :: t =>
    if bz q =? 34 then
      match pstr 0 t with
      | Some (k, r) =>
        match skip_ws r with
        | col :: r' =>
          if bz col =? 58 then
            match self r' with
            | POk v r'' => POk (k, v) r''
            | PSyntax => PSyntax
            | PFuel => PFuel
            end
          else PSyntax
        | [] => PSyntax
        end
      | None => PSyntax
      end
    else PSyntax
  | [] => PSyntax
  end.

(* member *( value-separator member ) end-object *)
Fixpoint pmembers (n : nat) (s : bytes) : pres (list (bytes * json)) :=
  match n with
  | O => PFuel
  | S n' =>
    match pmember s with
    | POk kv r =>
      match skip_ws r with
      | c :: r' =>
        if bz c =? 44 then
          match pmembers n' r' with
          | POk l r'' => POk (kv :: l) r''
          | PSyntax => PSyntax
          | PFuel => PFuel
          end
        else if bz c =? 125 then POk [kv] r'
        else PSyntax
      | [] => PSyntax
      end
    | PSyntax => PSyntax
    | PFuel => PFuel
    end
  end.

(* value *( value-separator value ) end-array *)
Fixpoint pelems (n : nat) (s : bytes) : pres (list json) :=
  match n with
  | O => PFuel
  | S n' =>
    match self s with
    | POk v r =>
      match skip_ws r with
      | c :: r' =>
        if bz c =? 44 then
          match pelems n' r' with
          | POk l r'' => POk (v :: l) r''
          | PSyntax => PSyntax
          | PFuel => PFuel
          end
        else if bz c =? 93 then POk [v] r'
        else PSyntax
      | [] => PSyntax
      end
    | PSyntax => PSyntax
    | PFuel => PFuel
    end
  end.

Definition plit (lit : bytes) (v : json) (t : bytes) : pres json :=
  match strip_prefix lit t with Some r => POk v r | None => PSyntax end.

Definition pval_step (s : bytes) : pres json :=
  match skip_ws s with
  | [] => PSyntax
  | c :: t =>
    if bz c =? 34 then
      match pstr 0 t with Some (x, r) => POk (JStr x) r | None => PSyntax end
    else if bz c =? 123 then                              (* begin-object *)
      match skip_ws t with
      | c2 :: t2 =>
        if bz c2 =? 125 then POk (JObj []) t2
        else match pmembers (length t) t with
             | POk ms r => POk (JObj ms) r
             | PSyntax => PSyntax
             | PFuel => PFuel
             end
      | [] => PSyntax
      end
    else if bz c =? 91 then                               (* begin-array *)
      match skip_ws t with
      | c2 :: t2 =>
        if bz c2 =? 93 then POk (JArr []) t2
        else match pelems (length t) t with
             | POk l r => POk (JArr l) r
             | PSyntax => PSyntax
             | PFuel => PFuel
             end
      | [] => PSyntax
      end
    else if bz c =? 116 then plit [x72; x75; x65] (JBool true) t           (* true *)
    else if bz c =? 102 then plit [x61; x6c; x73; x65] (JBool false) t     (* false *)
    else if bz c =? 110 then plit [x75; x6c; x6c] JNull t                  (* null *)
    else match pnum (c :: t) with
         | Some (tok, r) => POk (JNum tok) r
         | None => PSyntax
         end
  end.
End Step.

(* fuel = how deep values may nest (a scalar needs 1) *)
Fixpoint pval (fuel : nat) (s : bytes) : pres json :=
  match fuel with
  | O => PFuel
  | S f => pval_step (pval f) s
  end.

(* one JSON value at the front of [s] (leading blanks allowed), and what follows it *)
Definition parse_json (fuel : nat) (s : bytes) : option (json * bytes) :=
  match pval fuel s with
  | POk v r => Some (v, r)
  | PSyntax => None
  | PFuel => None
  end.

(* ---- text as a reader of UTF-8 sees it: every byte that is not part of a valid
   UTF-8 sequence becomes U+FFFD, everything else is kept byte-for-byte ---- *)
Fixpoint fixu_aux (skip : nat) (s : bytes) : bytes :=
  match s with
  | [] => []
  | b :: t =>
    match skip with
    | S k => b :: fixu_aux k t
    | O => let '(r, w) := decode_rune s in
           if (r =? RuneError) && Nat.eqb w 1 then [xef; xbf; xbd] ++ fixu_aux 0 t
           else b :: fixu_aux (w - 1) t
    end
  end.
Definition fixu (s : bytes) : bytes := fixu_aux 0 s.

Fixpoint valid_aux (skip : nat) (s : bytes) : bool :=
  match s with
  | [] => true
  | b :: t =>
    match skip with
    | S k => valid_aux k t
    | O => let '(r, w) := decode_rune s in
           if (r =? RuneError) && Nat.eqb w 1 then false else valid_aux (w - 1) t
    end
  end.
Definition valid_utf8b (s : bytes) : bool := valid_aux 0 s.

(* ---- the expected decoded record (DESIGN.md appendix A.1) ---- *)
Definition jstr (s : bytes) : json := JStr (fixu s).
Definition jnum (z : Z) : json := JNum (dec_of_Z z).
Definition n_message : bytes := [x6d; x65; x73; x73; x61; x67; x65].

Fixpoint jvalue (v : value) : json :=
  match v with
  | VNil => JNull
  | VStr s => jstr s
  | VErr e => JObj [(n_message, jstr e)]
  | VBool b => JBool b
  | VInt z => jnum z
  | VUint n => JStr (dec_of_Z n)            (* the code writes unsigned, float and complex numbers *)
  | VFloat t => JStr t                      (* as strings holding the exact text *)
  | VComplex t => JStr t
  | VDur t => jstr t
  | VTime t => JStr t
  | VBytes s => jstr s
  | VFallback t => jstr t
  | VStrs l => JArr (map jstr l)
  | VBools l => JArr (map JBool l)
  | VInts l => JArr (map jnum l)
  | VUints l => JArr (map jnum l)           (* elements of unsigned slices are bare numbers *)
  | VFloats l => JArr (map JStr l)
  | VDurs l => JArr (map jstr l)
  | VTimes l => JArr (map JStr l)
  | VGroup items =>
      JObj ((fix go (l : list attr) : list (bytes * json) :=
               match l with
               | [] => []
               | ANil :: t => go t
               | A k x :: t => (fixu k, jvalue x) :: go t
               end) items)
  end.

(* one member per attribute, in list order; nil attributes contribute nothing *)
Fixpoint jmembers (l : list attr) : list (bytes * json) :=
  match l with
  | [] => []
  | ANil :: t => jmembers t
  | A k x :: t => (fixu k, jvalue x) :: jmembers t
  end.

Definition jcaller (c : option (bytes * Z * bytes)) : list (bytes * json) :=
  match c with
  | None => []
  | Some (file, line, fn) =>
      [(n_caller, JObj [(n_file, jstr file); (n_line, jnum line); (n_function, jstr fn)])]
  end.

Definition json_of (g : registry) (c : ecfg) (msg : bytes) (attrs : list attr) : json :=
  JObj ((n_time, JStr (e_ts c))
        :: (match e_name c with [] => [] | nm => [(n_logger, jstr nm)] end)
        ++ (n_level, jstr (level_string g (e_lvl c)))
        :: (n_msg, jstr msg)
        :: jmembers (norm_attrs attrs)
        ++ jcaller (e_caller c)).

(* the attribute keys in the order of the list *)
Fixpoint attr_keys (l : list attr) : list bytes :=
  match l with
  | [] => []
  | ANil :: t => attr_keys t
  | A k _ :: t => k :: attr_keys t
  end.

(* the member names a record is expected to have, in order *)
Definition member_names (c : ecfg) (attrs : list attr) : list bytes :=
  n_time :: (match e_name c with [] => [] | _ => [n_logger] end)
  ++ n_level :: n_msg :: map fixu (attr_keys (norm_attrs attrs))
  ++ (match e_caller c with None => [] | Some _ => [n_caller] end).

(* ---- the domain of the theorems ----
   Text produced by the Go standard library and written between quotes WITHOUT
   escaping by logg (the timestamp; float, complex and time values and the
   elements of float and time slices): bytes 0x20..0x7e except the quote and the
   backslash.  Everything else (message, logger name, keys, strings, byte slices,
   error texts, durations, the fallback text, caller file and function) is
   arbitrary. *)
Definition plain_byte (b : byte) : bool :=
  (32 <=? bz b) && (bz b <? 127) && negb (bz b =? 34) && negb (bz b =? 92).
Definition plain_b (t : bytes) : bool := forallb plain_byte t.

Fixpoint dom_value_b (v : value) : bool :=
  match v with
  | VFloat t | VComplex t | VTime t => plain_b t
  | VFloats l | VTimes l => forallb plain_b l
  | VGroup items => forallb (fun a => match a with A _ x => dom_value_b x | ANil => true end) items
  | _ => true
  end.
Definition dom_attr_b (a : attr) : bool := match a with A _ x => dom_value_b x | ANil => true end.
Definition dom_attrs_b (l : list attr) : bool := forallb dom_attr_b l.
Definition dom_cfg_b (c : ecfg) : bool := shape_eqb (e_mode c) ShJSON && plain_b (e_ts c).

(* Print/Println at the Always level with a blank message writes one bare newline and no
   record at all (properties C02/C15 speak about it): not a JSON record *)
Definition blank_print (c : ecfg) (msg : bytes) : bool := (e_lvl c =? lv_always) && all_blank msg.

(* nesting: scalars 0, arrays and the error object 1, a group one more than its deepest member *)
Fixpoint vdepth (v : value) : nat :=
  match v with
  | VErr _ | VStrs _ | VBools _ | VInts _ | VUints _ | VFloats _ | VDurs _ | VTimes _ => 1
  | VGroup items =>
      S ((fix go (l : list attr) : nat :=
            match l with
            | [] => 0
            | ANil :: t => go t
            | A _ x :: t => Nat.max (vdepth x) (go t)
            end) items)
  | _ => 0
  end%nat.
Fixpoint adepth (l : list attr) : nat :=
  match l with
  | [] => 0
  | ANil :: t => adepth t
  | A _ x :: t => Nat.max (vdepth x) (adepth t)
  end%nat.
(* of a record: its attributes, and the caller object when the caller field is on *)
Definition rec_depth (c : ecfg) (attrs : list attr) : nat :=
  Nat.max (adepth attrs) (match e_caller c with None => 0 | Some _ => 1 end)%nat.

(* depth of a JSON value as the parser counts it: fuel needed *)
Fixpoint jdepth (j : json) : nat :=
  match j with
  | JArr l => S (fold_right (fun x m => Nat.max (jdepth x) m) 0%nat l)
  | JObj ms => S (fold_right (fun kv m => Nat.max (jdepth (snd kv)) m) 0%nat ms)
  | _ => 1%nat
  end.

(* ---- boolean equality (for the correspondence evaluator) ---- *)
Fixpoint json_eqb (a b : json) : bool :=
  match a, b with
  | JNull, JNull => true
  | JBool x, JBool y => Bool.eqb x y
  | JNum x, JNum y => bytes_eqb x y
  | JStr x, JStr y => bytes_eqb x y
  | JArr x, JArr y =>
      (fix go (l1 l2 : list json) : bool :=
         match l1, l2 with
         | [], [] => true
         | p :: l1', q :: l2' => json_eqb p q && go l1' l2'
         | _, _ => false
         end) x y
  | JObj x, JObj y =>
      (fix go (l1 l2 : list (bytes * json)) : bool :=
         match l1, l2 with
         | [], [] => true
         | (k1, p) :: l1', (k2, q) :: l2' => bytes_eqb k1 k2 && json_eqb p q && go l1' l2'
         | _, _ => false
         end) x y
  | _, _ => false
  end.
